import TantivyModel.Proofs.DocSet.BitSet
import TantivyModel.Proofs.DocSet.ReqOpt
import TantivyModel.Proofs.DocSet.Exclude
import TantivyModel.Proofs.DocSet.SimpleUnion
import TantivyModel.Proofs.DocSet.IntersectionScore
import TantivyModel.Proofs.DocSet.BufferedUnionFill
import TantivyModel.Proofs.DocSet.Construct
import TantivyModel.Proofs.DocSet.Disjunction
import TantivyModel.Model.DocSet.Tree
/-! composition: every scorer tree (any nesting depth) built from the proved combinators over
sorted-vector / bitset leaves refines the sorted-list cursor -/
namespace TantivyModel.DocSet
variable {σ τ : Type}

/-- `score` keeps valid and danger-zone states (it never moves a cursor) -/
structure ScoreOK (C : DS σ) (V : σ → List Nat → Prop) (W : σ → Nat → List Nat → Prop) : Prop where
  v : ∀ {c l}, V c l → V (C.score c).2 l
  w : ∀ {c t l}, W c t l → W (C.score c).2 t l

theorem All2.map_left {α β : Type} {R : α → β → Prop} {f : α → α} (hf : ∀ a b, R a b → R (f a) b)
    {as : List α} {bs : List β} (h : All2 R as bs) : All2 R (as.map f) bs := by
  induction h with
  | nil => exact All2.nil
  | cons x _ ih => exact All2.cons (hf _ _ x) ih

theorem Leaf.scoreOK (fx : Fix) : ScoreOK (Leaf.ds fx) Leaf.V Leaf.W where
  v := by
    intro c l h
    cases c with
    | vec s => exact h
    | bits s => exact h
  w := by
    intro c t l h
    cases c with
    | vec s => exact h
    | bits s => exact h

theorem Exclude.scoreOK {U : DS σ} {E : DS τ} {VU : σ → List Nat → Prop} {WU : σ → Nat → List Nat → Prop}
    {VE : τ → List Nat → Prop} {WE : τ → Nat → List Nat → Prop} (hU : ScoreOK U VU WU) :
    ScoreOK (Exclude.ds U E) (Exclude.V VU VE WE) (defaultW (Exclude.V VU VE WE)) where
  v := by
    rintro c l ⟨lu, les, h1, h2, h3, h4⟩
    exact ⟨lu, les, hU.v h1, h2, h3, h4⟩
  w := by
    rintro c t l ⟨l0, ⟨lu, les, h1, h2, h3, h4⟩, h5, h6⟩
    exact ⟨l0, ⟨lu, les, hU.v h1, h2, h3, h4⟩, h5, h6⟩

theorem ReqOpt.scoreOK {R : DS σ} {O : DS τ} {VR : σ → List Nat → Prop} {WR : σ → Nat → List Nat → Prop}
    (hR : ScoreOK R VR WR) : ScoreOK (ReqOpt.ds R O) (ReqOpt.V VR) (ReqOpt.W (τ := τ) WR) where
  v := fun h => ReqOpt.score_preserves (fun h => hR.v h) h
  w := by
    intro c t l h
    exact ReqOpt.score_preserves (VR := fun r l => WR r t l) (fun h => hR.w h) h

namespace Inter
variable {C : DS σ} {VC : σ → List Nat → Prop} {WC : σ → Nat → List Nat → Prop}

theorem scoreAll_snd (C : DS σ) : ∀ es : List σ, (scoreAll C es).2 = es.map (fun c => (C.score c).2)
  | [] => rfl
  | e :: es => by simp only [scoreAll, List.map_cons, scoreAll_snd C es]

theorem score_state (C : DS σ) (fx : Fix) (s : State σ) :
    ((ds C fx).score s).2 = ({ left := (C.score s.left).2, right := (C.score s.right).2, others := s.others.map (fun c => (C.score c).2), dense := s.dense } : State σ) := by
  show ofList s.dense s (scoreAll C (toList s)).2 = _
  rw [scoreAll_snd]; rfl

theorem CS.score (hS : ScoreOK C VC WC) {c : Nat} {e : σ} {le : List Nat} (h : CS VC WC c e le) :
    CS VC WC c (C.score e).2 le := by
  rcases h with ⟨h1, h2⟩ | ⟨t0, h0, hT, hW⟩
  · exact Or.inl ⟨hS.v h1, h2⟩
  · exact Or.inr ⟨t0, h0, hT, hS.w hW⟩

theorem scoreOK (hS : ScoreOK C VC WC) (fx : Fix) : ScoreOK (ds C fx) (V VC WC) (W VC WC) where
  v := by
    rintro s l ⟨ll, lr, los, hL, hR, hO, ha, hl⟩
    rw [score_state]
    refine ⟨ll, lr, los, hS.v hL, CS.score hS hR, All2.map_left (fun _ _ h => CS.score hS h) hO, ?_, hl⟩
    intro hne
    obtain ⟨a1, a2, a3, a4, a5, a6⟩ := ha hne
    exact ⟨a1, a2, ⟨hS.v a3.1, a3.2⟩, All2.map_left (fun _ _ h => ⟨hS.v h.1, h.2⟩) a4, a5, a6⟩
  w := by
    rintro s t l ⟨ll, lr, los, hL, hR, hO, hx, hl⟩
    rw [score_state]
    exact ⟨ll, lr, los, CS.score hS hL, CS.score hS hR, All2.map_left (fun _ _ h => CS.score hS h) hO, hx, hl⟩

end Inter

/-! ### restriction to lists of small documents (the block arithmetic of the dense intersection
count needs `doc + BLOCK_WINDOW ≤ TERMINATED`) -/

def Small (l : List Nat) : Prop := ∀ x ∈ l, x + BLOCK_WINDOW ≤ TERMINATED

theorem Small.sub {l l' : List Nat} (h : Small l) (hs : ∀ x ∈ l', x ∈ l) : Small l' :=
  fun x hx => h x (hs x hx)
theorem Small.seek {l : List Nat} (h : Small l) (t : Nat) : Small (Spec.seek t l) :=
  h.sub (fun _ hx => (List.dropWhile_sublist _).subset hx)
theorem Small.advance {l : List Nat} (h : Small l) : Small (Spec.advance l) :=
  h.sub (fun _ hx => List.mem_of_mem_tail hx)
theorem Small.fillBuffer {l : List Nat} (h : Small l) : Small (Spec.fillBuffer l).2 :=
  h.sub (fun _ hx => List.mem_of_mem_drop hx)
theorem Small.fillBitset {l : List Nat} (h : Small l) (m : Nat) : Small (Spec.fillBitset m l).2 :=
  (h.seek m).seek _

def RV (V : σ → List Nat → Prop) : σ → List Nat → Prop := fun s l => V s l ∧ Small l
def RW (W : σ → Nat → List Nat → Prop) : σ → Nat → List Nat → Prop := fun s t l => W s t l ∧ Small l

theorem Lawful.restrict {D : DS σ} {V : σ → List Nat → Prop} {W : σ → Nat → List Nat → Prop}
    (h : Lawful D V W) : Lawful D (RV V) (RW W) where
  sorted := fun h' => h.sorted h'.1
  doc_eq := fun h' => h.doc_eq h'.1
  advance := fun h' => ⟨h.advance h'.1, h'.2.advance⟩
  seek := fun h' hd ht => ⟨h.seek h'.1 hd ht, h'.2.seek _⟩
  fillBuffer := fun h' => ⟨(h.fillBuffer h'.1).1, (h.fillBuffer h'.1).2, h'.2.fillBuffer⟩
  fillBitset := fun h' hd hm => ⟨(h.fillBitset h'.1 hd hm).1, (h.fillBitset h'.1 hd hm).2, h'.2.fillBitset _⟩
  count := fun h' => h.count h'.1
  wsorted := fun h' => h.wsorted h'.1
  wdoc := fun h' => h.wdoc h'.1
  wseek := fun h' h0 hd ht => ⟨h.wseek h'.1 h0 hd ht, h'.2.seek _⟩
  sdV := by
    intro s l t h' ht
    have k := h.sdV h'.1 ht
    revert k
    generalize D.seekDanger t s = r
    rcases r with ⟨r1, s'⟩
    cases r1 with
    | found => intro k; exact ⟨k.1, k.2, h'.2.seek _⟩
    | lower b => intro k; exact ⟨k.1, ⟨k.2.1, h'.2.seek _⟩, k.2.2⟩
  sdW := by
    intro s t0 l t h' h0 ht
    have k := h.sdW h'.1 h0 ht
    revert k
    generalize D.seekDanger t s = r
    rcases r with ⟨r1, s'⟩
    cases r1 with
    | found => intro k; exact ⟨k.1, k.2, h'.2.seek _⟩
    | lower b => intro k; exact ⟨k.1, ⟨k.2.1, h'.2.seek _⟩, k.2.2⟩

theorem ScoreOK.restrict {D : DS σ} {V : σ → List Nat → Prop} {W : σ → Nat → List Nat → Prop}
    (h : ScoreOK D V W) : ScoreOK D (RV V) (RW W) :=
  ⟨fun h' => ⟨h.v h'.1, h'.2⟩, fun h' => ⟨h.w h'.1, h'.2⟩⟩

/-! ### one combinator (or none) over lawful children -/
namespace Comb
variable {C : DS σ} {VC : σ → List Nat → Prop} {WC : σ → Nat → List Nat → Prop}

/-- valid states of a node -/
def V (VC : σ → List Nat → Prop) (WC : σ → Nat → List Nat → Prop) : Comb σ → List Nat → Prop
  | .leaf s, l => VC s l
  | .bunion u, l => BUnion.V VC H u l
  | .sunion u, l => SimpleUnion.V VC u l
  | .inter i, l => Inter.V VC WC i l
  | .excl e, l => Exclude.V VC VC WC e l
  | .reqopt r, l => ReqOpt.V VC r l
  | .disj d, l => Disj.V VC d l

def W (VC : σ → List Nat → Prop) (WC : σ → Nat → List Nat → Prop) : Comb σ → Nat → List Nat → Prop
  | .leaf s, t, l => WC s t l
  | .bunion u, t, l => BUnion.W VC WC H u t l
  | .sunion u, t, l => defaultW (SimpleUnion.V VC) u t l
  | .inter i, t, l => Inter.W VC WC i t l
  | .excl e, t, l => defaultW (Exclude.V VC VC WC) e t l
  | .reqopt r, t, l => ReqOpt.W WC r t l
  | .disj d, t, l => defaultW (Disj.V VC) d t l

theorem lawful (hC : Lawful C VC WC) (hS : ScoreOK C VC WC) (hsmall : ∀ {c l}, VC c l → Small l)
    (fx : Fix) : Lawful (Comb.ds C fx) (V VC WC) (W VC WC) := by
  have hBU := BUnion.lawful hC (fun h => hS.v h) (H := H) (show 64 ∣ Gen.UNION_HORIZON by decide)
    (show 0 < Gen.UNION_HORIZON by decide) fx
  have hSU := SimpleUnion.lawful hC
  have hIN := Inter.lawful hC (fun h => hsmall h) fx
  have hEX := Exclude.lawful hC hC
  have hRO := ReqOpt.lawful (O := C) hC
  have hDJ := Disj.lawful hC (fun h => hS.v h)
  exact {
    sorted := by
      intro s l h
      cases s with
      | leaf s => exact hC.sorted h
      | bunion u => exact hBU.sorted h
      | sunion u => exact hSU.sorted h
      | inter i => exact hIN.sorted h
      | excl e => exact hEX.sorted h
      | reqopt r => exact hRO.sorted h
      | disj d => exact hDJ.sorted h
    doc_eq := by
      intro s l h
      cases s with
      | leaf s => exact hC.doc_eq h
      | bunion u => exact hBU.doc_eq h
      | sunion u => exact hSU.doc_eq h
      | inter i => exact hIN.doc_eq h
      | excl e => exact hEX.doc_eq h
      | reqopt r => exact hRO.doc_eq h
      | disj d => exact hDJ.doc_eq h
    advance := by
      intro s l h
      cases s with
      | leaf s => exact hC.advance h
      | bunion u => exact hBU.advance h
      | sunion u => exact hSU.advance h
      | inter i => exact hIN.advance h
      | excl e => exact hEX.advance h
      | reqopt r => exact hRO.advance h
      | disj d => exact hDJ.advance h
    seek := by
      intro s l t h hd ht
      cases s with
      | leaf s => exact hC.seek h hd ht
      | bunion u => exact hBU.seek h hd ht
      | sunion u => exact hSU.seek h hd ht
      | inter i => exact hIN.seek h hd ht
      | excl e => exact hEX.seek h hd ht
      | reqopt r => exact hRO.seek h hd ht
      | disj d => exact hDJ.seek h hd ht
    fillBuffer := by
      intro s l h
      cases s with
      | leaf s => exact hC.fillBuffer h
      | bunion u => exact hBU.fillBuffer h
      | sunion u => exact hSU.fillBuffer h
      | inter i => exact hIN.fillBuffer h
      | excl e => exact hEX.fillBuffer h
      | reqopt r => exact hRO.fillBuffer h
      | disj d => exact hDJ.fillBuffer h
    fillBitset := by
      intro s l m h hd hm
      cases s with
      | leaf s => exact hC.fillBitset h hd hm
      | bunion u => exact hBU.fillBitset h hd hm
      | sunion u => exact hSU.fillBitset h hd hm
      | inter i => exact hIN.fillBitset h hd hm
      | excl e => exact hEX.fillBitset h hd hm
      | reqopt r => exact hRO.fillBitset h hd hm
      | disj d => exact hDJ.fillBitset h hd hm
    count := by
      intro s l h
      cases s with
      | leaf s => exact hC.count h
      | bunion u => exact hBU.count h
      | sunion u => exact hSU.count h
      | inter i => exact hIN.count h
      | excl e => exact hEX.count h
      | reqopt r => exact hRO.count h
      | disj d => exact hDJ.count h
    wsorted := by
      intro s t0 l h
      cases s with
      | leaf s => exact hC.wsorted h
      | bunion u => exact hBU.wsorted h
      | sunion u => exact hSU.wsorted h
      | inter i => exact hIN.wsorted h
      | excl e => exact hEX.wsorted h
      | reqopt r => exact hRO.wsorted h
      | disj d => exact hDJ.wsorted h
    wdoc := by
      intro s t0 l h
      cases s with
      | leaf s => exact hC.wdoc h
      | bunion u => exact hBU.wdoc h
      | sunion u => exact hSU.wdoc h
      | inter i => exact hIN.wdoc h
      | excl e => exact hEX.wdoc h
      | reqopt r => exact hRO.wdoc h
      | disj d => exact hDJ.wdoc h
    wseek := by
      intro s t0 l t h h0 hd ht
      cases s with
      | leaf s => exact hC.wseek h h0 hd ht
      | bunion u => exact hBU.wseek h h0 hd ht
      | sunion u => exact hSU.wseek h h0 hd ht
      | inter i => exact hIN.wseek h h0 hd ht
      | excl e => exact hEX.wseek h h0 hd ht
      | reqopt r => exact hRO.wseek h h0 hd ht
      | disj d => exact hDJ.wseek h h0 hd ht
    sdV := by
      intro s l t h ht
      cases s with
      | leaf s => exact SDPost.map Comb.leaf (fun _ _ h => h) (fun _ _ _ h => h) (hC.sdV h ht)
      | bunion u => exact SDPost.map Comb.bunion (fun _ _ h => h) (fun _ _ _ h => h) (hBU.sdV h ht)
      | sunion u => exact SDPost.map Comb.sunion (fun _ _ h => h) (fun _ _ _ h => h) (hSU.sdV h ht)
      | inter i => exact SDPost.map Comb.inter (fun _ _ h => h) (fun _ _ _ h => h) (hIN.sdV h ht)
      | excl e => exact SDPost.map Comb.excl (fun _ _ h => h) (fun _ _ _ h => h) (hEX.sdV h ht)
      | reqopt r => exact SDPost.map Comb.reqopt (fun _ _ h => h) (fun _ _ _ h => h) (hRO.sdV h ht)
      | disj d => exact SDPost.map Comb.disj (fun _ _ h => h) (fun _ _ _ h => h) (hDJ.sdV h ht)
    sdW := by
      intro s t0 l t h h0 ht
      cases s with
      | leaf s => exact SDPost.map Comb.leaf (fun _ _ h => h) (fun _ _ _ h => h) (hC.sdW h h0 ht)
      | bunion u => exact SDPost.map Comb.bunion (fun _ _ h => h) (fun _ _ _ h => h) (hBU.sdW h h0 ht)
      | sunion u => exact SDPost.map Comb.sunion (fun _ _ h => h) (fun _ _ _ h => h) (hSU.sdW h h0 ht)
      | inter i => exact SDPost.map Comb.inter (fun _ _ h => h) (fun _ _ _ h => h) (hIN.sdW h h0 ht)
      | excl e => exact SDPost.map Comb.excl (fun _ _ h => h) (fun _ _ _ h => h) (hEX.sdW h h0 ht)
      | reqopt r => exact SDPost.map Comb.reqopt (fun _ _ h => h) (fun _ _ _ h => h) (hRO.sdW h h0 ht)
      | disj d => exact SDPost.map Comb.disj (fun _ _ h => h) (fun _ _ _ h => h) (hDJ.sdW h h0 ht)
  }

theorem scoreOK (hS : ScoreOK C VC WC) (fx : Fix) : ScoreOK (Comb.ds C fx) (V VC WC) (W VC WC) where
  v := by
    intro c l h
    cases c with
    | leaf s => exact hS.v h
    | bunion u => exact h
    | sunion u => exact h
    | inter i => exact (Inter.scoreOK hS fx).v h
    | excl e => exact (Exclude.scoreOK hS).v h
    | reqopt r => exact (ReqOpt.scoreOK hS).v h
    | disj d => exact h
  w := by
    intro c t l h
    cases c with
    | leaf s => exact hS.w h
    | bunion u => exact h
    | sunion u => exact h
    | inter i => exact (Inter.scoreOK hS fx).w h
    | excl e => exact (Exclude.scoreOK hS).w h
    | reqopt r => exact (ReqOpt.scoreOK hS).w h
    | disj d => exact h

end Comb

/-! ### every nesting depth -/

/-- valid / danger-zone states of a tree of nesting depth `n` -/
def LevelVW : (n : Nat) → (Level n → List Nat → Prop) × (Level n → Nat → List Nat → Prop)
  | 0 => (RV Leaf.V, RW Leaf.W)
  | n + 1 => (RV (Comb.V (LevelVW n).1 (LevelVW n).2), RW (Comb.W (LevelVW n).1 (LevelVW n).2))

theorem level_small : ∀ (n : Nat) {c : Level n} {l : List Nat}, (LevelVW n).1 c l → Small l
  | 0, _, _, h => h.2
  | _ + 1, _, _, h => h.2

theorem level_lawful (fx : Fix) : ∀ n : Nat,
    Lawful (levelDS fx n) (LevelVW n).1 (LevelVW n).2 ∧ ScoreOK (levelDS fx n) (LevelVW n).1 (LevelVW n).2
  | 0 => ⟨(Leaf.lawful fx).restrict, (Leaf.scoreOK fx).restrict⟩
  | n + 1 => by
    obtain ⟨h1, h2⟩ := level_lawful fx n
    exact ⟨(Comb.lawful h1 h2 (fun h => level_small n h) fx).restrict, (Comb.scoreOK h2 fx).restrict⟩

/-! ### from the tree descriptions the harness sends (`buildTree`, what the driver runs) -/

theorem All2.imp {α β : Type} {R R' : α → β → Prop} (hf : ∀ a b, R a b → R' a b)
    {as : List α} {bs : List β} (h : All2 R as bs) : All2 R' as bs := by
  induction h with
  | nil => exact All2.nil
  | cons x _ ih => exact All2.cons (hf _ _ x) ih

theorem All2.right_all {α β : Type} {R : α → β → Prop} {Q : β → Prop} (hf : ∀ a b, R a b → Q b)
    {as : List α} {bs : List β} (h : All2 R as bs) : ∀ b ∈ bs, Q b := by
  induction h with
  | nil => intro b hb; cases hb
  | cons x _ ih =>
    intro b hb
    rcases List.mem_cons.mp hb with rfl | h'
    · exact hf _ _ x
    · exact ih b h'

theorem mapM_all2 {α β γ : Type} {f : α → Option β} {P : β → γ → Prop} {as : List α} {cs : List γ}
    (h : All2 (fun a c => ∃ b, f a = some b ∧ P b c) as cs) :
    ∃ bs, as.mapM f = some bs ∧ All2 P bs cs := by
  induction h with
  | nil => exact ⟨[], by simp, All2.nil⟩
  | cons hx _ ih =>
    obtain ⟨b, hb, hP⟩ := hx
    obtain ⟨bs, hbs, hA⟩ := ih
    exact ⟨b :: bs, by simp [List.mapM_cons, hb, hbs], All2.cons hP hA⟩

/-- the sorted document list a tree description denotes (a relation: the union is specified by its
members, the minimum-should-match disjunction by the number of children containing a document) -/
def Den : Nat → Tree → List Nat → Prop
  | 0, .vec docs _, l => l = docs ∧ Sorted docs ∧ Small docs
  | 0, .bits docs mx _, l => l = docs ∧ Sorted docs ∧ (∀ d ∈ docs, d < mx) ∧ Small docs
  | 0, _, _ => False
  | n + 1, .vec docs sc, l => Den n (.vec docs sc) l
  | n + 1, .bits docs mx sc, l => Den n (.bits docs mx sc) l
  | n + 1, .bunion _ cs, l => ∃ ls, All2 (Den n) cs ls ∧ SimpleUnion.IsUnion l ls
  | n + 1, .sunion cs, l => ∃ ls, All2 (Den n) cs ls ∧ SimpleUnion.IsUnion l ls
  | n + 1, .inter _ cs, l => ∃ tl tr tos ll lr los, cs = tl :: tr :: tos ∧ Den n tl ll ∧ Den n tr lr
      ∧ All2 (Den n) tos los ∧ l = Inter.Common ll lr los
  | n + 1, .excl u es, l => ∃ lu les, Den n u lu ∧ All2 (Den n) es les ∧ l = lu.filter (Exclude.ok les)
  | n + 1, .reqopt _ req opt, l => Den n req l ∧ ∃ lo, Den n opt lo
  | n + 1, .disj _ k cs, l => ∃ ls, All2 (Den n) cs ls ∧ 1 ≤ k ∧ Sorted l ∧ ∀ x, x ∈ l ↔ k ≤ Disj.cnt x ls

theorem small_union {U : List Nat} {ls : List (List Nat)} (hU : SimpleUnion.IsUnion U ls)
    (hs : ∀ li ∈ ls, Small li) : Small U := by
  intro x hx
  obtain ⟨li, hli, hxl⟩ := (hU.2 x).mp hx
  exact hs li hli x hxl

/-- `buildTree` of a description that denotes `l` succeeds and yields a valid state for `l` -/
theorem build_valid (fx : Fix) : ∀ (n : Nat) (t : Tree) (l : List Nat), Den n t l →
    ∃ s, buildTree fx n t = some s ∧ (LevelVW n).1 s l
  | 0, .vec docs sc, l, h => by
    obtain ⟨rfl, hs, hsm⟩ := h
    exact ⟨_, rfl, ⟨rfl, hs⟩, hsm⟩
  | 0, .bits docs mx sc, l, h => by
    obtain ⟨rfl, hs, hm, hsm⟩ := h
    exact ⟨_, rfl, BitSet.init_V hs hm, hsm⟩
  | 0, .bunion _ _, _, h => h.elim
  | 0, .sunion _, _, h => h.elim
  | 0, .inter _ _, _, h => h.elim
  | 0, .excl _ _, _, h => h.elim
  | 0, .reqopt _ _ _, _, h => h.elim
  | 0, .disj _ _ _, _, h => h.elim
  | n + 1, .vec docs sc, l, h => by
    obtain ⟨s, hs, hV⟩ := build_valid fx n (.vec docs sc) l h
    exact ⟨.leaf s, by simp only [buildTree, hs]; rfl, hV, level_small n hV⟩
  | n + 1, .bits docs mx sc, l, h => by
    obtain ⟨s, hs, hV⟩ := build_valid fx n (.bits docs mx sc) l h
    exact ⟨.leaf s, by simp only [buildTree, hs]; rfl, hV, level_small n hV⟩
  | n + 1, .bunion sum cs, l, h => by
    obtain ⟨ls, hA, hU⟩ := h
    obtain ⟨ss, hss, hAs⟩ := mapM_all2 (hA.imp (fun t l h => build_valid fx n t l h))
    obtain ⟨h1, h2⟩ := level_lawful fx n
    refine ⟨_, (by simp only [buildTree, hss]; rfl), ?_, small_union hU (hAs.right_all (fun _ _ h => level_small n h))⟩
    exact BUnion.build_V h1 (fun h => h2.v h) (show 64 ∣ Gen.UNION_HORIZON by decide)
      (show 0 < Gen.UNION_HORIZON by decide) sum hAs hU
  | n + 1, .sunion cs, l, h => by
    obtain ⟨ls, hA, hU⟩ := h
    obtain ⟨ss, hss, hAs⟩ := mapM_all2 (hA.imp (fun t l h => build_valid fx n t l h))
    obtain ⟨h1, _⟩ := level_lawful fx n
    refine ⟨_, (by simp only [buildTree, hss]; rfl), ?_, small_union hU (hAs.right_all (fun _ _ h => level_small n h))⟩
    exact SimpleUnion.build_V h1 hAs hU
  | n + 1, .inter dense cs, l, h => by
    obtain ⟨tl, tr, tos, ll, lr, los, rfl, hl, hr, hA, rfl⟩ := h
    have hall : All2 (Den n) (tl :: tr :: tos) (ll :: lr :: los) := All2.cons hl (All2.cons hr hA)
    obtain ⟨ss, hss, hAs⟩ := mapM_all2 (hall.imp (fun t l h => build_valid fx n t l h))
    obtain ⟨h1, _⟩ := level_lawful fx n
    cases hAs with
    | cons vl hAs' =>
      cases hAs' with
      | cons vr vo =>
        refine ⟨_, (by simp only [buildTree, hss]; rfl), ?_, ?_⟩
        · exact Inter.new_V h1 dense vl vr vo
        · intro x hx
          exact level_small n vl x (Inter.mem_common.mp hx).1
  | n + 1, .excl u es, l, h => by
    obtain ⟨lu, les, hu, hA, rfl⟩ := h
    obtain ⟨su, hsu, vu⟩ := build_valid fx n u lu hu
    obtain ⟨ss, hss, hAs⟩ := mapM_all2 (hA.imp (fun t l h => build_valid fx n t l h))
    obtain ⟨h1, _⟩ := level_lawful fx n
    refine ⟨_, (by simp only [buildTree, hsu, hss]; rfl), ?_, ?_⟩
    · exact Exclude.new_V h1 h1 vu hAs
    · intro x hx
      exact level_small n vu x (List.mem_filter.mp hx).1
  | n + 1, .reqopt sum req opt, l, h => by
    obtain ⟨hr, lo, ho⟩ := h
    obtain ⟨sr, hsr, vr⟩ := build_valid fx n req l hr
    obtain ⟨so, hso, _⟩ := build_valid fx n opt lo ho
    exact ⟨.reqopt { req := sr, opt := so, cache := none, sum := sum }, (by simp only [buildTree, hsr, hso]), vr, level_small n vr⟩
  | n + 1, .disj sum k cs, l, h => by
    obtain ⟨ls, hA, hk, hst, hmem⟩ := h
    obtain ⟨ss, hss, hAs⟩ := mapM_all2 (hA.imp (fun t l h => build_valid fx n t l h))
    obtain ⟨h1, h2⟩ := level_lawful fx n
    refine ⟨_, (by simp only [buildTree, hss]; rfl), ?_, ?_⟩
    · exact Disj.new_V h1 (fun h => h2.v h) sum hk hAs hst hmem
    · intro x hx
      obtain ⟨li, hli, hxl⟩ := Disj.cnt_pos (x := x) (ls := ls) (by have := (hmem x).mp hx; omega)
      exact hAs.right_all (fun _ _ h => level_small n h) li hli x hxl

end TantivyModel.DocSet
