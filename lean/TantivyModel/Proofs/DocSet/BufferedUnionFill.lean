import TantivyModel.Proofs.DocSet.BufferedUnionDanger
/-! `BufferedUnionScorer::fill_buffer`: the three nested loops drain the window bucket by bucket,
refilling it when it is exhausted, until 64 documents are out and the 65th is the current one -/
namespace TantivyModel.DocSet.BUnion
open TantivyModel.DocSet

variable {σ : Type} {C : DS σ} {VC : σ → List Nat → Prop} {WC : σ → Nat → List Nat → Prop}

/-- the part of the invariant `fill_buffer` relies on (it never reads `self.doc`): `l'` is what is
still buffered followed by what the children still hold -/
def Mid (VC : σ → List Nat → Prop) (H : Nat) (s : State σ) (l' : List Nat) : Prop :=
  ∃ ls U, All2 VC s.docsets ls ∧ (∀ li ∈ ls, li ≠ []) ∧ SimpleUnion.IsUnion U ls
    ∧ s.window.Pairwise (· < ·) ∧ (∀ δ ∈ s.window, δ < H ∧ s.bucketIdx ≤ δ / 64)
    ∧ (∀ x ∈ U, s.ws + H ≤ x) ∧ Sorted l' ∧ l' = s.window.map (s.ws + ·) ++ U

theorem mid_of_V {H : Nat} {s : State σ} {l' : List Nat} (hV : V VC H s (s.doc :: l'))
    (hd : s.doc ≠ TERMINATED) : Mid VC H s l' := by
  obtain ⟨ls, U, h2, hne, hU, hwp, hwb, hUh, hsl, hcase⟩ := hV
  rcases hcase with ⟨hT, _, _, _⟩ | ⟨_, _, _, he⟩
  · exact absurd hT hd
  · exact ⟨ls, U, h2, hne, hU, hwp, hwb, hUh, hsl.tail, by simpa using he⟩

/-- the state right after popping `δ` (the head of the window) is valid for the sequence from it on -/
theorem V_of_pop {H : Nat} {s s2 : State σ} {δ : Nat} {w : List Nat} {l' : List Nat}
    (hM : Mid VC H s l') (hw : s.window = δ :: w) (e1 : s2.docsets = s.docsets) (e2 : s2.window = w)
    (e3 : s2.bucketIdx = s.bucketIdx) (e4 : s2.ws = s.ws) (e5 : s2.doc = s.ws + δ) :
    V VC H s2 l' := by
  obtain ⟨ls, U, h2, hne, hU, hwp, hwb, hUh, hsl, he⟩ := hM
  rw [hw] at hwp hwb he
  have hp := List.pairwise_cons.mp hwp
  have hδ := hwb δ (by simp)
  refine ⟨ls, U, e1 ▸ h2, hne, hU, e2 ▸ hp.2, ?_, e4 ▸ hUh, hsl, Or.inr ⟨by rw [e5, e4]; omega, by rw [e5, e4]; omega, ?_, ?_⟩⟩
  · intro x hx
    rw [e2] at hx; rw [e3]
    exact hwb x (List.mem_cons_of_mem _ hx)
  · intro x hx
    rw [e2] at hx; rw [e5, e4]
    have := hp.1 x hx; omega
  · rw [he, e5, e4, e2]; simp

theorem mid_tail {H : Nat} {s s2 : State σ} {δ : Nat} {w : List Nat} {l' : List Nat}
    (hM : Mid VC H s l') (hw : s.window = δ :: w) (e1 : s2.docsets = s.docsets) (e2 : s2.window = w)
    (e3 : s2.bucketIdx = s.bucketIdx) (e4 : s2.ws = s.ws) : Mid VC H s2 l'.tail := by
  obtain ⟨ls, U, h2, hne, hU, hwp, hwb, hUh, hsl, he⟩ := hM
  rw [hw] at hwp hwb he
  have hp := List.pairwise_cons.mp hwp
  refine ⟨ls, U, e1 ▸ h2, hne, hU, e2 ▸ hp.2, ?_, e4 ▸ hUh, hsl.tail, ?_⟩
  · intro x hx
    rw [e2] at hx; rw [e3]
    exact hwb x (List.mem_cons_of_mem _ hx)
  · rw [he, e4, e2]; simp

/-- inner loop: drain the current bucket -/
theorem fillBucket_law {H : Nat} (fx : Fix) :
    ∀ (n : Nat) {s : State σ} {acc : List Nat} {cnt : Nat} {l' : List Nat}, Mid VC H s l' →
      cnt ≤ BUFLEN → (s.window.filter (fun δ => δ / 64 == s.bucketIdx)).length + 1 ≤ n →
      match fillBucket fx n s acc cnt with
      | (some (acc', s2), _) => ∃ k, cnt + k = BUFLEN ∧ acc' = acc ++ l'.take k ∧ V VC H s2 (l'.drop k)
          ∧ l'.drop k ≠ []
      | (none, (acc', cnt', s')) => ∃ k, cnt' = cnt + k ∧ cnt' ≤ BUFLEN ∧ acc' = acc ++ l'.take k
          ∧ Mid VC H s' (l'.drop k) ∧ (∀ δ ∈ s'.window, s.bucketIdx < δ / 64)
          ∧ s'.bucketIdx = s.bucketIdx ∧ s'.ws = s.ws ∧ s'.sum = s.sum
          ∧ s.window.length = k + s'.window.length := by
  intro n
  induction n with
  | zero => intro s acc cnt l' _ _ hf; omega
  | succ n ih =>
    intro s acc cnt l' hM hc hf
    have hMc := hM
    obtain ⟨ls, U, h2, hne, hU, hwp, hwb, hUh, hsl, he⟩ := hM
    simp only [fillBucket]
    cases hw : s.window with
    | nil =>
      simp only [popBucket]
      exact ⟨0, rfl, hc, by simp, by simpa using hMc, by simp [hw], by simp [hw]⟩
    | cons δ w =>
      have hδ := hwb δ (by rw [hw]; simp)
      by_cases hb : δ / 64 = s.bucketIdx
      · rw [popBucket_cons hb]
        simp only
        have hl' : l' = (s.ws + δ) :: (w.map (s.ws + ·) ++ U) := by rw [he, hw]; simp
        by_cases hfull : cnt ≥ BUFLEN
        · simp only [hfull, if_true]
          refine ⟨0, by omega, by simp, ?_, by rw [hl']; simp⟩
          simp only [List.drop_zero]
          split
          · exact V_of_pop hMc hw rfl rfl rfl rfl rfl
          · exact V_of_pop hMc hw rfl rfl rfl rfl rfl
        · simp only [hfull, if_false]
          have hfilter : (s.window.filter (fun δ => δ / 64 == s.bucketIdx)).length
              = (w.filter (fun δ => δ / 64 == s.bucketIdx)).length + 1 := by
            rw [hw, List.filter_cons]; simp [hb]
          -- the state after emitting the popped document
          have key : ∀ s2 : State σ, s2.docsets = s.docsets → s2.window = w → s2.bucketIdx = s.bucketIdx →
              s2.ws = s.ws → s2.sum = s.sum → s2.doc = s.ws + δ →
              match fillBucket fx n s2 (acc ++ [s.ws + δ]) (cnt + 1) with
              | (some (acc', s3), _) => ∃ k, cnt + k = BUFLEN ∧ acc' = acc ++ l'.take k ∧ V VC H s3 (l'.drop k)
                  ∧ l'.drop k ≠ []
              | (none, (acc', cnt', s')) => ∃ k, cnt' = cnt + k ∧ cnt' ≤ BUFLEN ∧ acc' = acc ++ l'.take k
                  ∧ Mid VC H s' (l'.drop k) ∧ (∀ δ ∈ s'.window, s.bucketIdx < δ / 64)
                  ∧ s'.bucketIdx = s.bucketIdx ∧ s'.ws = s.ws ∧ s'.sum = s.sum
          ∧ (δ :: w).length = k + s'.window.length := by
            intro s2 e1 e2 e3 e4 e6 e5
            have hM2 := mid_tail hMc hw e1 e2 e3 e4
            have := ih (s := s2) (acc := acc ++ [s.ws + δ]) (cnt := cnt + 1) hM2 (by omega)
              (by rw [e2, e3]; omega)
            revert this
            generalize fillBucket fx n s2 (acc ++ [s.ws + δ]) (cnt + 1) = r
            rcases r with ⟨r1, acc', cnt', s'⟩
            cases r1 with
            | some p =>
              rintro ⟨k, a1, a2, a3, a4⟩
              refine ⟨k + 1, by omega, ?_, ?_, ?_⟩
              · rw [a2, hl']; simp
              · rw [hl']; simpa [hl'] using a3
              · rw [hl']; simpa [hl'] using a4
            | none =>
              rintro ⟨k, a1, a2, a3, a4, a5, a6, a7, a8, a9⟩
              refine ⟨k + 1, by omega, a2, ?_, ?_, ?_, by rw [a6, e3], by rw [a7, e4], by rw [a8, e6],
                by rw [e2] at a9; simp only [List.length_cons]; omega⟩
              · rw [a3, hl']; simp
              · rw [hl']; simpa [hl'] using a4
              · intro x hx; have := a5 x hx; rw [e3] at this; exact this
          by_cases hcl : (fx.fillClear && s.sum) = true
          · simp only [hcl, if_true]
            apply key <;> rfl
          · simp only [hcl, Bool.false_eq_true, if_false]
            apply key <;> rfl
      · -- the head lies in a later bucket: this bucket is empty
        have hgt : ∀ x ∈ s.window, s.bucketIdx < x / 64 := by
          intro x hx
          rw [hw] at hx hwp
          have hp := List.pairwise_cons.mp hwp
          rcases List.mem_cons.mp hx with rfl | hx'
          · omega
          · have := hp.1 x hx'
            have : δ / 64 ≤ x / 64 := Nat.div_le_div_right (Nat.le_of_lt this)
            omega
        rw [← hw, popBucket_none hgt]
        exact ⟨0, rfl, hc, by simp, by simpa using hMc, hgt, rfl, rfl, rfl, by simp⟩

theorem bucket_count_le {w : List Nat} (hp : w.Pairwise (· < ·)) (b : Nat) :
    (w.filter (fun δ => δ / 64 == b)).length ≤ 64 := by
  have hp' : (w.filter (fun δ => δ / 64 == b)).Pairwise (· < ·) := hp.sublist List.filter_sublist
  have := length_le_of_sorted (lo := 64 * b) (N := 64 * b + 64) hp'
    (fun x hx => by
      have := (List.mem_filter.mp hx).2
      simp only [beq_iff_eq] at this
      omega)
    (fun x hx => by
      have := (List.mem_filter.mp hx).2
      simp only [beq_iff_eq] at this
      omega)
  omega

theorem take_drop_add (l : List Nat) (a b : Nat) :
    l.take a ++ (l.drop a).take b = l.take (a + b) ∧ (l.drop a).drop b = l.drop (a + b) := by
  constructor
  · rw [List.take_add]
  · rw [List.drop_drop]

/-- middle loop: drain the window bucket by bucket -/
theorem fillWindow_law {H : Nat} (hH : 64 ∣ H) (fx : Fix) :
    ∀ (n : Nat) {s : State σ} {acc : List Nat} {cnt : Nat} {l' : List Nat}, Mid VC H s l' →
      cnt ≤ BUFLEN → NB H + 1 ≤ n + s.bucketIdx →
      match fillWindow fx H n s acc cnt with
      | (some (acc', s2), _) => ∃ k, cnt + k = BUFLEN ∧ acc' = acc ++ l'.take k ∧ V VC H s2 (l'.drop k)
          ∧ l'.drop k ≠ []
      | (none, (acc', cnt', s')) => ∃ k, cnt' = cnt + k ∧ cnt' ≤ BUFLEN ∧ acc' = acc ++ l'.take k
          ∧ Mid VC H s' (l'.drop k) ∧ s'.window = [] ∧ s'.ws = s.ws ∧ s'.sum = s.sum
          ∧ k = s.window.length := by
  intro n
  induction n with
  | zero =>
    intro s acc cnt l' hM hc hf
    -- the bucket cursor is beyond the last bucket: the window is empty
    simp only [fillWindow]
    obtain ⟨ls, U, h2, hne, hU, hwp, hwb, hUh, hsl, he⟩ := hM
    have hw : s.window = [] := by
      cases hw : s.window with
      | nil => rfl
      | cons δ w =>
        have := hwb δ (by rw [hw]; simp)
        have := div64_lt hH this.1
        omega
    exact ⟨0, rfl, hc, by simp, ⟨ls, U, h2, hne, hU, hwp, hwb, hUh, by simpa using hsl, by simpa using he⟩, hw, by simp [hw]⟩
  | succ n ih =>
    intro s acc cnt l' hM hc hf
    have hMc := hM
    obtain ⟨ls, U, h2, hne, hU, hwp, hwb, hUh, hsl, he⟩ := hM
    simp only [fillWindow]
    by_cases hb : s.bucketIdx < NB H
    · simp only [hb, if_true]
      have key := fillBucket_law (VC := VC) (H := H) fx 65 (s := s) (acc := acc) (cnt := cnt) hMc hc
        (by have := bucket_count_le hwp s.bucketIdx; omega)
      revert key
      generalize fillBucket fx 65 s acc cnt = r
      rcases r with ⟨r1, acc', cnt', s'⟩
      cases r1 with
      | some p =>
        rcases p with ⟨acc2, s2⟩
        simp only
        exact fun h => h
      | none =>
        rintro ⟨k, a1, a2, a3, a4, a5, a6, a7, a8, a9⟩
        simp only
        obtain ⟨ls', U', b2, bne, bU, bwp, bwb, bUh, bsl, be⟩ := a4
        have hM' : Mid VC H { s' with bucketIdx := s'.bucketIdx + 1 } (l'.drop k) :=
          ⟨ls', U', b2, bne, bU, bwp, fun δ hδ => ⟨(bwb δ hδ).1, by have := a5 δ hδ; show s'.bucketIdx + 1 ≤ δ / 64; omega⟩,
            bUh, bsl, be⟩
        have := ih (s := { s' with bucketIdx := s'.bucketIdx + 1 }) (acc := acc') (cnt := cnt') hM' a2
          (by show NB H + 1 ≤ n + (s'.bucketIdx + 1); omega)
        revert this
        generalize fillWindow fx H n { s' with bucketIdx := s'.bucketIdx + 1 } acc' cnt' = q
        rcases q with ⟨q1, acc3, cnt3, s3⟩
        cases q1 with
        | some p =>
          rcases p with ⟨acc4, s4⟩
          rintro ⟨k2, c1, c2, c3, c4⟩
          refine ⟨k + k2, by omega, ?_, ?_, ?_⟩
          · rw [c2, a3, List.append_assoc, (take_drop_add l' k k2).1]
          · rw [← (take_drop_add l' k k2).2]; exact c3
          · rw [← (take_drop_add l' k k2).2]; exact c4
        | none =>
          rintro ⟨k2, c1, c2, c3, c4, c5, c6, c7, c8⟩
          refine ⟨k + k2, by omega, c2, ?_, ?_, c5, by rw [c6]; exact a7, by rw [c7]; exact a8, by simp only at c8; omega⟩
          · rw [c3, a3, List.append_assoc, (take_drop_add l' k k2).1]
          · rw [← (take_drop_add l' k k2).2]; exact c4
    · simp only [hb, if_false]
      have hw : s.window = [] := by
        cases hw : s.window with
        | nil => rfl
        | cons δ w =>
          have := hwb δ (by rw [hw]; simp)
          have := div64_lt hH this.1
          omega
      exact ⟨0, rfl, hc, by simp, by simpa using hMc, hw, by simp [hw]⟩


/-- the refilled window, read back as documents, is the part of the union below the new horizon -/
theorem window_map_eq {U w : List Nat} {m H : Nat} (hUs : Sorted U) (hm : ∀ x ∈ U, m ≤ x)
    (hw : w.Pairwise (· < ·)) (hmem : ∀ δ, δ ∈ w ↔ ∃ x ∈ U, x < m + H ∧ δ = x - m) :
    w.map (m + ·) = U.takeWhile (· < m + H) := by
  have hp : (U.takeWhile (· < m + H)).Pairwise (· < ·) := hUs.1.sublist (List.takeWhile_sublist _)
  apply pairwise_ext _ hp
  · intro x
    rw [List.mem_map, mem_takeWhile_sorted hUs]
    constructor
    · rintro ⟨δ, hδ, rfl⟩
      obtain ⟨y, hy, h1, rfl⟩ := (hmem δ).mp hδ
      have := hm y hy
      have e : m + (y - m) = y := by omega
      rw [e]; exact ⟨hy, h1⟩
    · rintro ⟨hx, h1⟩
      have := hm x hx
      exact ⟨x - m, (hmem _).mpr ⟨x, hx, h1, rfl⟩, by omega⟩
  · rw [List.pairwise_map]
    exact hw.imp (fun h => by omega)

/-- outer loop of `fill_buffer` -/
theorem fillLoop_law (hC : Lawful C VC WC) (hscore : ∀ {c l}, VC c l → VC (C.score c).2 l)
    {H : Nat} (hH : 64 ∣ H) (hH0 : 0 < H) (fx : Fix) :
    ∀ (n : Nat) {s : State σ} {acc : List Nat} {cnt : Nat} {l' : List Nat}, Mid VC H s l' →
      cnt ≤ BUFLEN → (BUFLEN - cnt) + (if s.window = [] then 1 else 0) + 1 ≤ n →
      ∃ k, (fillLoop fx C H n s acc cnt).1 = acc ++ l'.take k ∧ V VC H (fillLoop fx C H n s acc cnt).2 (l'.drop k)
        ∧ cnt + k ≤ BUFLEN ∧ (cnt + k = BUFLEN ∨ l'.drop k = []) := by
  intro n
  induction n with
  | zero => intro s acc cnt l' _ _ hf; omega
  | succ n ih =>
    intro s acc cnt l' hM hc hf
    simp only [fillLoop]
    have key := fillWindow_law (VC := VC) hH fx (NB H + 1) (s := s) (acc := acc) (cnt := cnt) hM hc (by omega)
    revert key
    generalize fillWindow fx H (NB H + 1) s acc cnt = r
    rcases r with ⟨r1, acc', cnt', s'⟩
    cases r1 with
    | some p =>
      rcases p with ⟨acc2, s2⟩
      rintro ⟨k, a1, a2, a3, a4⟩
      exact ⟨k, a2, a3, by omega, Or.inl a1⟩
    | none =>
      rintro ⟨k, a1, a2, a3, a4, a5, a6, a7, a8⟩
      simp only
      obtain ⟨ls, U, b2, bne, bU, bwp, bwb, bUh, bsl, be⟩ := a4
      have hdrop : l'.drop k = U := by rw [be, a5]; simp
      have hrl := refill_law hC hscore hH0 a5 b2 bne bU
      revert hrl
      generalize refill C H s' = q
      cases q with
      | none =>
        intro hnil
        simp only at hnil ⊢
        subst hnil
        have hUnil := isUnion_nil bU
        refine ⟨k, a3, ?_, by omega, Or.inr (by rw [hdrop, hUnil])⟩
        rw [hdrop, hUnil]
        exact ⟨[], [], b2, by simp, ⟨Sorted.nil, by simp⟩, by rw [a5]; exact List.Pairwise.nil, by simp [a5], by simp, Sorted.nil,
          Or.inl ⟨rfl, a5, rfl, rfl⟩⟩
      | some s'' =>
        rintro ⟨ls', m, hUne, hm, r1, r2, hU', r4, r5, r6, r7, r8⟩
        simp only
        have hUs := bU.1
        have hge : ∀ x ∈ U, m ≤ x := by rw [hm]; exact Exclude.all_ge_doc hUs
        have hwm := window_map_eq hUs hge r4 r5
        -- the refilled state is ready for the next round on `U`
        have hM'' : Mid VC H s'' U := by
          refine ⟨ls', Spec.seek (m + H) U, r1, r2, hU', r4, ?_, ?_, hUs, ?_⟩
          · intro δ hδ
            obtain ⟨x, hx, h1, rfl⟩ := (r5 δ).mp hδ
            have := hge x hx
            exact ⟨by omega, by rw [r7]; exact Nat.zero_le _⟩
          · intro x hx
            rw [r6]; exact ((Spec.mem_seek hUs x).mp hx).2
          · rw [r6, hwm]
            exact (List.takeWhile_append_dropWhile (p := (· < m + H)) (l := U)).symm
        have hwne : s''.window ≠ [] := by
          obtain ⟨a, t, hUm⟩ := List.exists_cons_of_ne_nil hUne
          have ha : m = a := by rw [hm, hUm]; rfl
          have : (0 : Nat) ∈ s''.window := (r5 0).mpr ⟨a, by rw [hUm]; simp, by omega, by omega⟩
          exact List.ne_nil_of_mem this
        have hfuel : (BUFLEN - cnt') + (if s''.window = [] then 1 else 0) + 1 ≤ n := by
          simp only [hwne, if_false]
          by_cases hw0 : s.window = []
          · simp only [hw0, if_true] at hf; omega
          · simp only [hw0, if_false] at hf
            have : 0 < s.window.length := List.length_pos_iff.mpr hw0
            omega
        obtain ⟨k2, c1, c2, c3, c4⟩ := ih (s := s'') (acc := acc') (cnt := cnt') hM'' a2 hfuel
        refine ⟨k + k2, ?_, ?_, by omega, ?_⟩
        · rw [c1, a3, List.append_assoc, ← hdrop, (take_drop_add l' k k2).1]
        · rw [← (take_drop_add l' k k2).2, hdrop]; exact c2
        · rcases c4 with h | h
          · exact Or.inl (by omega)
          · exact Or.inr (by rw [← (take_drop_add l' k k2).2, hdrop]; exact h)

/-- `fill_buffer`: up to 64 documents from the current one on, and the cursor on the next one -/
theorem fillBuffer_law (hC : Lawful C VC WC) (hscore : ∀ {c l}, VC c l → VC (C.score c).2 l)
    {H : Nat} (hH : 64 ∣ H) (hH0 : 0 < H) (fx : Fix) {s : State σ} {l : List Nat} (hV : V VC H s l) :
    (fillBuffer fx C H s).1 = (Spec.fillBuffer l).1 ∧ V VC H (fillBuffer fx C H s).2 (Spec.fillBuffer l).2 := by
  have hcore := core0 hC hscore hH hH0
  have hsl := hcore.sorted hV
  have hd := hcore.doc_eq hV
  unfold fillBuffer Spec.fillBuffer
  by_cases hT : s.doc = TERMINATED
  · have : l = [] := (Spec.doc_eq_term_iff hsl).mp (by rw [← hd]; exact hT)
    subst this
    simpa [hT] using hV
  · simp only [hT, if_false]
    cases hl : l with
    | nil => rw [hl] at hd; exact absurd hd hT
    | cons a l' =>
      have ha : s.doc = a := by rw [hd, hl]; rfl
      rw [hl, ← ha] at hV
      have hM := mid_of_V hV hT
      have hB : (1 : Nat) ≤ BUFLEN := by decide
      obtain ⟨k, c1, c2, c3, c4⟩ := fillLoop_law hC hscore hH hH0 fx (BUFLEN + 2) (s := s) (acc := [s.doc]) (cnt := 1) hM hB
        (by split <;> omega)
      rw [c1, ← ha]
      have hB64 : BUFLEN = 64 := rfl
      rcases c4 with h | h
      · have hk : BUFLEN = k + 1 := by omega
        have e1 : (s.doc :: l').take BUFLEN = s.doc :: l'.take k := by rw [hk]; rfl
        have e2 : (s.doc :: l').drop BUFLEN = l'.drop k := by rw [hk]; rfl
        exact ⟨by rw [e1]; rfl, by rw [e2]; exact c2⟩
      · have hlen : l'.length ≤ k := List.drop_eq_nil_iff.mp h
        have hlen2 : (s.doc :: l').length ≤ BUFLEN := by simp only [List.length_cons]; omega
        have e1 : (s.doc :: l').take BUFLEN = s.doc :: l' := List.take_of_length_le hlen2
        have e2 : (s.doc :: l').drop BUFLEN = [] := List.drop_of_length_le hlen2
        have e3 : l'.take k = l' := List.take_of_length_le hlen
        refine ⟨by rw [e1, e3]; rfl, ?_⟩
        rw [e2]; rw [h] at c2; exact c2

/-- the buffered union model (every method the real one) over lawful children is lawful -/
theorem lawful (hC : Lawful C VC WC) (hscore : ∀ {c l}, VC c l → VC (C.score c).2 l)
    {H : Nat} (hH : 64 ∣ H) (hH0 : 0 < H) (fx : Fix) :
    Lawful (ds C H fx) (V VC H) (W VC WC H) where
  sorted := (core hC hscore hH hH0 fx).sorted
  doc_eq := (core hC hscore hH hH0 fx).doc_eq
  advance := (core hC hscore hH hH0 fx).advance
  seek := (core hC hscore hH hH0 fx).seek
  fillBuffer := fun h => fillBuffer_law hC hscore hH hH0 fx h
  fillBitset := fun h hd hm => defaultFillBitset_law (core hC hscore hH hH0 fx) h hd hm
  count := fun h => count_law hC hscore hH hH0 fx h
  wsorted := fun h => wsorted_law hC hscore hH hH0 h
  wdoc := fun h => wdoc_law hC hscore hH hH0 h
  wseek := fun h h0 hd ht => wseek_law hC hscore hH hH0 fx h h0 hd ht
  sdV := fun h ht => sdV_law hC hscore hH hH0 fx h ht
  sdW := fun h h0 ht => sdW_law hC hscore hH hH0 fx h h0 ht

end TantivyModel.DocSet.BUnion
