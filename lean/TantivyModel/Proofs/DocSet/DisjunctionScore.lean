import TantivyModel.Proofs.DocSet.Disjunction
import TantivyModel.Proofs.DocSet.IntersectionScore
/-! score clause of `Disjunction` (SumCombiner): the score at the current document is the sum of the
score functions of the children containing it -/
namespace TantivyModel.DocSet.Disj
variable {σ : Type} {C : DS σ} {VC : σ → List Nat → Prop} {WC : σ → Nat → List Nat → Prop}
  {g : σ → Nat → Nat}

theorem valid_unique (hC : Lawful C VC WC) : ∀ (n : Nat) {c : σ} {l l' : List Nat}, l.length ≤ n →
    VC c l → VC c l' → l = l' := by
  intro n
  induction n with
  | zero =>
    intro c l l' hn h h'
    have hl : l = [] := List.length_eq_zero_iff.mp (by omega)
    subst hl
    have hd : C.doc c = TERMINATED := by rw [hC.doc_eq h]; rfl
    exact ((Spec.doc_eq_term_iff (hC.sorted h')).mp (by rw [← hC.doc_eq h']; exact hd)).symm
  | succ n ih =>
    intro c l l' hn h h'
    cases l with
    | nil =>
      have hd : C.doc c = TERMINATED := by rw [hC.doc_eq h]; rfl
      exact ((Spec.doc_eq_term_iff (hC.sorted h')).mp (by rw [← hC.doc_eq h']; exact hd)).symm
    | cons a t =>
      have hd : C.doc c = a := by rw [hC.doc_eq h]; rfl
      have haT := (hC.sorted h).of_cons.1
      cases l' with
      | nil =>
        have : C.doc c = TERMINATED := by rw [hC.doc_eq h']; rfl
        omega
      | cons a' t' =>
        have hd' : C.doc c = a' := by rw [hC.doc_eq h']; rfl
        have e : a = a' := by omega
        subst e
        have := ih (c := C.advance c) (l := t) (l' := t') (by simp at hn; omega) (hC.advance h) (hC.advance h')
        rw [this]

theorem all2_unique (hC : Lawful C VC WC) {cs : List σ} {ls ls' : List (List Nat)} (h : All2 VC cs ls)
    (h' : All2 VC cs ls') : ls = ls' := by
  induction h generalizing ls' with
  | nil => cases h'; rfl
  | cons x _ ih =>
    cases h' with
    | cons x' h'' => rw [valid_unique hC _ (Nat.le_refl _) x x', ih h'']

/-- sum of the score functions of the scorers whose list holds `x` -/
def gsum (g : σ → Nat → Nat) : List σ → List (List Nat) → Nat → Nat
  | c :: cs, li :: ls, x => (if x ∈ li then g c x else 0) + gsum g cs ls x
  | _, _, _ => 0

theorem gsum_cons (c : σ) (cs : List σ) (li : List Nat) (ls : List (List Nat)) (x : Nat) :
    gsum g (c :: cs) (li :: ls) x = (if x ∈ li then g c x else 0) + gsum g cs ls x := rfl

theorem gsum_zero {x : Nat} : ∀ (cs : List σ) (ls : List (List Nat)), (∀ li ∈ ls, x ∉ li) → gsum g cs ls x = 0
  | [], _, _ => by simp [gsum]
  | _ :: _, [], _ => by simp [gsum]
  | c :: cs, li :: ls, h => by
    rw [gsum_cons, if_neg (h li (by simp)), gsum_zero cs ls (fun l hl => h l (List.mem_cons_of_mem _ hl))]

/-- `BinaryHeap::pop` only reorders the scorers -/
theorem popAt_gsum (hC : Lawful C VC WC) {m : Nat} : ∀ {cs : List σ} {ls : List (List Nat)}, All2 VC cs ls →
    ∀ {c : σ} {rest : List σ}, popAt C m cs = some (c, rest) → ∀ {lc : List Nat} {lrest : List (List Nat)},
      VC c lc → All2 VC rest lrest → ∀ x, gsum g cs ls x = gsum g (c :: rest) (lc :: lrest) x := by
  intro cs ls h
  induction h with
  | nil => intro c rest hp; simp [popAt] at hp
  | @cons d ld cs0 ls0 hd h0 ih =>
    intro c rest hp lc lrest hc hr x
    simp only [popAt] at hp
    by_cases hm : C.doc d = m
    · simp only [hm, if_true, Option.some.injEq, Prod.mk.injEq] at hp
      obtain ⟨rfl, rfl⟩ := hp
      rw [valid_unique hC _ (Nat.le_refl _) hd hc, all2_unique hC h0 hr]
    · simp only [hm, if_false] at hp
      cases hq : popAt C m cs0 with
      | none => rw [hq] at hp; simp at hp
      | some q =>
        rcases q with ⟨x', rest'⟩
        rw [hq] at hp
        simp only [Option.some.injEq, Prod.mk.injEq] at hp
        obtain ⟨rfl, rfl⟩ := hp
        cases hr with
        | @cons _ ld' _ lrest' hd' hr' =>
          have e : ld' = ld := valid_unique hC _ (Nat.le_refl _) hd' hd
          subst e
          have := ih hq hc hr' x
          simp only [gsum_cons] at this ⊢
          omega

/-- what the loop needs to know about the running combiner: (1) once a candidate is being counted,
the combiner plus the scores of the scorers still sitting on it make up its total; (2) for every other
document still in the heap the total is the sum over the scorers holding it -/
def Q (g : σ → Nat → Nat) (G : Nat → Nat) (s : State σ) (ls : List (List Nat)) (k1 : Nat) : Prop :=
  (k1 ≠ 0 → s.comb + gsum g s.chains ls s.currentDoc = G s.currentDoc)
    ∧ (∀ x, x ≠ s.currentDoc → (∃ li ∈ ls, x ∈ li) → G x = gsum g s.chains ls x)

def R (g : σ → Nat → Nat) (G : Nat → Nat) (VC : σ → List Nat → Prop) (s' : State σ) : Prop :=
  (s'.currentDoc < TERMINATED → s'.currentScore = G s'.currentDoc)
    ∧ (∀ ls', All2 VC s'.chains ls' → ∀ x, (∃ li' ∈ ls', x ∈ li') → G x = gsum g s'.chains ls' x)
    ∧ s'.sum = true

theorem advLoop_score (hC : Lawful C VC WC) (hscore : ∀ {c l}, VC c l → VC (C.score c).2 l)
    (hG : Inter.Ghost C g) (hg : ∀ {c l}, VC c l → l ≠ [] → (C.score c).1 = g c (C.doc c)) (G : Nat → Nat) :
    ∀ (fuel : Nat) {s : State σ} {k1 : Nat} {ls : List (List Nat)}, All2 VC s.chains ls → mu ls < fuel →
      1 ≤ s.minMatch → (k1 = 0 → ∀ li ∈ ls, s.currentDoc ∉ li) →
      (k1 ≠ 0 → (∀ li ∈ ls, ∀ x ∈ li, s.currentDoc ≤ x) ∧ s.currentDoc < TERMINATED) →
      s.sum = true → Q g G s ls k1 → R g G VC (advLoop C fuel s k1) := by
  intro fuel
  induction fuel with
  | zero => intro s k1 ls _ hf; omega
  | succ n ih =>
    intro s k1 ls hA hf hm hpre hmain hsum hQ
    obtain ⟨hQ1, hQ2⟩ := hQ
    simp only [advLoop]
    by_cases hch : s.chains = []
    · have hls : ls = [] := by
        rw [hch] at hA; cases hA; rfl
      subst hls
      simp only [popMin, hch, popAt]
      unfold finish
      by_cases hk' : k1 < s.minMatch
      · simp only [hk', if_true]
        refine ⟨fun h => absurd h (Nat.lt_irrefl _), ?_, hsum⟩
        intro ls' h' x hx
        have : ls' = [] := by
          have h'' : All2 VC s.chains ls' := h'
          rw [hch] at h''; cases h''; rfl
        subst this
        obtain ⟨_, h0, _⟩ := hx; cases h0
      · simp only [hk', if_false]
        refine ⟨fun _ => ?_, ?_, hsum⟩
        · show (if s.sum then s.comb else 1) = G s.currentDoc
          have := hQ1 (by omega)
          rw [hch] at this
          simp only [hsum, if_true]
          simpa [gsum] using this
        · intro ls' h' x hx
          have : ls' = [] := by
            have h'' : All2 VC s.chains ls' := h'
            rw [hch] at h''; cases h''; rfl
          subst this
          obtain ⟨_, h0, _⟩ := hx; cases h0
    · obtain ⟨c0, hc0, hc0m⟩ := minDoc_attained C s.chains hch (all2_doc_le hC hA)
      obtain ⟨c, rest, lc, lrest, e1, e2, e3, e4, e5⟩ := popAt_law (C := C) hA ⟨c0, hc0, hc0m⟩
      have hgs : ∀ x, gsum g s.chains ls x = gsum g (c :: rest) (lc :: lrest) x :=
        fun x => popAt_gsum hC hA e1 e2 e3 x
      have hslc := hC.sorted e2
      have hdc := hC.doc_eq e2
      have hsl := all2_sorted hC hA
      have hlcmem : lc ∈ ls := (e5.mem lc).mpr (by simp)
      have hmin : ∀ li ∈ ls, Spec.doc lc ≤ Spec.doc li := by
        rw [← hdc, e4]
        exact all2_heads hC hA (fun c' hc' => minDoc_le C s.chains c' hc')
      have hall : ∀ li ∈ ls, ∀ x ∈ li, Spec.doc lc ≤ x := fun li hli x hx =>
        Nat.le_trans (hmin li hli) (Exclude.all_ge_doc (hsl li hli) x hx)
      simp only [popMin, e1]
      by_cases hT : C.doc c = TERMINATED
      · simp only [hT, if_true]
        have hnil : lc = [] := (Spec.doc_eq_term_iff hslc).mp (by rw [← hdc]; exact hT)
        have hmu : mu lrest < n := by
          have := e5.mu; rw [hnil] at this; simp only [mu, List.length_nil] at this; omega
        have hsub : ∀ li ∈ lrest, li ∈ ls := fun li hli => (e5.mem li).mpr (List.mem_cons_of_mem _ hli)
        have hgs' : ∀ x, gsum g s.chains ls x = gsum g rest lrest x := by
          intro x; rw [hgs x, gsum_cons, hnil, if_neg (by simp)]; omega
        exact ih (s := { s with chains := rest }) (k1 := k1) (ls := lrest) e3 hmu hm
          (fun h li hli => hpre h li (hsub li hli))
          (fun h => ⟨fun li hli => (hmain h).1 li (hsub li hli), (hmain h).2⟩) hsum
          ⟨fun h => by
              show s.comb + gsum g rest lrest s.currentDoc = G s.currentDoc
              rw [← hgs']; exact hQ1 h,
            fun x hx hxl => by
              show G x = gsum g rest lrest x
              obtain ⟨li, hli, hxi⟩ := hxl
              rw [← hgs']; exact hQ2 x hx ⟨li, hsub li hli, hxi⟩⟩
      · simp only [hT, if_false]
        have hne : lc ≠ [] := fun h0 => hT (by rw [hdc, h0]; rfl)
        have halt : Spec.doc lc < TERMINATED := by
          have := Spec.doc_le hslc
          have : Spec.doc lc ≠ TERMINATED := by rw [← hdc]; exact hT
          omega
        have hamem : Spec.doc lc ∈ lc := Spec.doc_mem halt
        by_cases hret : s.currentDoc ≠ C.doc c ∧ k1 ≥ s.minMatch
        · rw [if_pos hret]
          have hk0 : k1 ≠ 0 := by omega
          obtain ⟨hge, hdT⟩ := hmain hk0
          have hda : s.currentDoc < Spec.doc lc := by
            have := hge lc hlcmem _ hamem
            have := hret.1
            rw [hdc] at this
            omega
          have hnod : ∀ li ∈ ls, s.currentDoc ∉ li := fun li hli hx => by
            have := hall li hli _ hx; omega
          refine ⟨fun _ => ?_, ?_, hsum⟩
          · show (if s.sum then s.comb else 1) = G s.currentDoc
            have := hQ1 hk0
            rw [gsum_zero _ _ hnod] at this
            simp only [hsum, if_true]
            omega
          · intro ls' h' x hx
            have h'' : All2 VC (c :: rest) ls' := h'
            have e := all2_unique hC h'' (All2.cons e2 e3)
            subst e
            show G x = gsum g (c :: rest) (lc :: lrest) x
            obtain ⟨li, hli, hxi⟩ := hx
            have hli' : li ∈ ls := (e5.mem li).mpr hli
            rw [← hgs x]
            exact hQ2 x (fun hxd => hnod li hli' (hxd ▸ hxi)) ⟨li, hli', hxi⟩
        · rw [if_neg hret]
          have hr : (if s.sum then C.score c else (0, c)) = C.score c := by rw [hsum]; rfl
          have hc2 : VC (C.advance (C.score c).2) (Spec.advance lc) := hC.advance (hscore e2)
          have hg2 : g (C.advance (C.score c).2) = g c := by rw [hG.advance, hG.score]
          have hsc : (C.score c).1 = g c (Spec.doc lc) := by rw [hg e2 hne, hdc]
          have hmu : mu (lc.tail :: lrest) < n := by
            have := e5.mu
            have hl : lc.tail.length + 1 = lc.length := by
              cases lc with
              | nil => exact absurd rfl hne
              | cons a t => simp
            simp only [mu] at this ⊢; omega
          have hge2 : ∀ li ∈ lc.tail :: lrest, ∀ x ∈ li, Spec.doc lc ≤ x := by
            intro li hli x hx
            rcases List.mem_cons.mp hli with rfl | h'
            · exact hall lc hlcmem x (List.mem_of_mem_tail hx)
            · exact hall li ((e5.mem li).mpr (List.mem_cons_of_mem _ h')) x hx
          -- the scorer's list without its head
          have hanot : Spec.doc lc ∉ lc.tail := by
            cases lc with
            | nil => exact absurd rfl hne
            | cons a t =>
              intro h; exact Nat.lt_irrefl _ (hslc.of_cons.2.1 a h)
          have htail : ∀ x, x ≠ Spec.doc lc → (x ∈ lc.tail ↔ x ∈ lc) := by
            intro x hx
            cases lc with
            | nil => exact absurd rfl hne
            | cons a t =>
              simp only [List.tail_cons, List.mem_cons]
              constructor
              · exact fun h => Or.inr h
              · rintro (h | h)
                · exact absurd h hx
                · exact h
          have hgt : ∀ x, x ≠ Spec.doc lc →
              gsum g (C.advance (C.score c).2 :: rest) (lc.tail :: lrest) x = gsum g s.chains ls x := by
            intro x hx
            rw [hgs x, gsum_cons, gsum_cons, hg2]
            by_cases hxl : x ∈ lc
            · rw [if_pos ((htail x hx).mpr hxl), if_pos hxl]
            · rw [if_neg (fun h => hxl ((htail x hx).mp h)), if_neg hxl]
          have hga : g c (Spec.doc lc) + gsum g (C.advance (C.score c).2 :: rest) (lc.tail :: lrest) (Spec.doc lc)
              = gsum g s.chains ls (Spec.doc lc) := by
            rw [hgs, gsum_cons, gsum_cons, if_neg hanot, if_pos hamem]; omega
          have hmem2 : ∀ x, (∃ li ∈ lc.tail :: lrest, x ∈ li) → ∃ li ∈ ls, x ∈ li := by
            rintro x ⟨li, hli, hx⟩
            rcases List.mem_cons.mp hli with rfl | h'
            · exact ⟨lc, hlcmem, List.mem_of_mem_tail hx⟩
            · exact ⟨li, (e5.mem li).mpr (List.mem_cons_of_mem _ h'), hx⟩
          by_cases hne' : s.currentDoc ≠ C.doc c
          · -- a new candidate document
            simp only [if_pos hne']
            rw [hr, hdc]
            have hd' : s.currentDoc ≠ Spec.doc lc := by rw [← hdc]; exact hne'
            have hnod : k1 ≠ 0 → ∀ li ∈ ls, s.currentDoc ∉ li := by
              intro h0 li hli hx
              obtain ⟨hge, _⟩ := hmain h0
              have h1 := hge lc hlcmem _ hamem
              have h2 := hall li hli _ hx
              omega
            have hnod' : ∀ li ∈ ls, s.currentDoc ∉ li := by
              by_cases h0 : k1 = 0
              · exact hpre h0
              · exact hnod h0
            apply ih (s := { s with currentDoc := Spec.doc lc, comb := 0 + (C.score c).1, chains := C.advance (C.score c).2 :: rest })
              (k1 := 0 + 1) (ls := lc.tail :: lrest) (All2.cons hc2 e3) hmu hm (fun h => by omega)
              (fun _ => ⟨hge2, halt⟩) hsum
            refine ⟨fun _ => ?_, fun x hx hxl => ?_⟩
            · show 0 + (C.score c).1 + gsum g (C.advance (C.score c).2 :: rest) (lc.tail :: lrest) (Spec.doc lc) = G (Spec.doc lc)
              rw [hsc, Nat.zero_add, hga]
              exact (hQ2 _ (fun h => hd' h.symm) ⟨lc, hlcmem, hamem⟩).symm
            · show G x = gsum g (C.advance (C.score c).2 :: rest) (lc.tail :: lrest) x
              have hx' : x ≠ Spec.doc lc := hx
              rw [hgt x hx']
              obtain ⟨li, hli, hxi⟩ := hmem2 x hxl
              exact hQ2 x (fun hxd => hnod' li hli (hxd ▸ hxi)) ⟨li, hli, hxi⟩
          · -- one more match on the current document
            simp only [if_neg hne']
            rw [hr]
            have hd' : s.currentDoc = Spec.doc lc := by
              rw [← hdc]; exact Decidable.of_not_not hne'
            apply ih (s := { s with comb := s.comb + (C.score c).1, chains := C.advance (C.score c).2 :: rest })
              (k1 := k1 + 1) (ls := lc.tail :: lrest) (All2.cons hc2 e3) hmu hm (fun h => by omega)
              (fun _ => ⟨by show ∀ li ∈ lc.tail :: lrest, ∀ x ∈ li, s.currentDoc ≤ x; rw [hd']; exact hge2,
                by show s.currentDoc < TERMINATED; rw [hd']; exact halt⟩) hsum
            refine ⟨fun _ => ?_, fun x hx hxl => ?_⟩
            · show s.comb + (C.score c).1 + gsum g (C.advance (C.score c).2 :: rest) (lc.tail :: lrest) s.currentDoc = G s.currentDoc
              by_cases h0 : k1 = 0
              · -- first match counted while the candidate was already the current document
                exfalso
                exact hpre h0 lc hlcmem (hd' ▸ hamem)
              · have := hQ1 h0
                rw [hd'] at this ⊢
                rw [hsc]
                have h2 := hga
                omega
            · show G x = gsum g (C.advance (C.score c).2 :: rest) (lc.tail :: lrest) x
              have hx' : x ≠ Spec.doc lc := by rw [← hd']; exact hx
              rw [hgt x hx']
              exact hQ2 x hx (hmem2 x hxl)

/-- valid for `l`, with the score of the SumCombiner right -/
def VS (g : σ → Nat → Nat) (G : Nat → Nat) (VC : σ → List Nat → Prop) (s : State σ) (l : List Nat) : Prop :=
  V VC s l ∧ R g G VC s

theorem adv_from_pre_score (hC : Lawful C VC WC) (hscore : ∀ {c l}, VC c l → VC (C.score c).2 l)
    (hG : Inter.Ghost C g) (hg : ∀ {c l}, VC c l → l ≠ [] → (C.score c).1 = g c (C.doc c)) (G : Nat → Nat)
    {s : State σ} {ls : List (List Nat)} (hA : All2 VC s.chains ls) (hm : 1 ≤ s.minMatch)
    (hpre : ∀ li ∈ ls, s.currentDoc ∉ li) (hsum : s.sum = true)
    (hF : ∀ x, (∃ li ∈ ls, x ∈ li) → G x = gsum g s.chains ls x) : R g G VC (advance C s) := by
  have hfuel : mu ls < FUEL * (s.chains.length + 1) := by
    have := mu_le hC hA
    have hF : FUEL = TERMINATED + 1 := rfl
    rw [Nat.mul_succ]
    omega
  exact advLoop_score hC hscore hG hg G (FUEL * (s.chains.length + 1)) (s := s) (k1 := 0) hA hfuel hm
    (fun _ => hpre) (fun h => absurd rfl h) hsum ⟨fun h => absurd rfl h, fun x _ hx => hF x hx⟩

theorem core0VS (hC : Lawful C VC WC) (hscore : ∀ {c l}, VC c l → VC (C.score c).2 l)
    (hG : Inter.Ghost C g) (hg : ∀ {c l}, VC c l → l ≠ [] → (C.score c).1 = g c (C.doc c)) (G : Nat → Nat) :
    Core0 (doc (σ := σ)) (advance C) (VS g G VC) where
  sorted := fun h => (core0 hC hscore).sorted h.1
  doc_eq := fun h => (core0 hC hscore).doc_eq h.1
  advance := by
    rintro s l ⟨hV, hR⟩
    refine ⟨(core0 hC hscore).advance hV, ?_⟩
    obtain ⟨ls, hA, hm, _, h⟩ := hV
    have hpre : ∀ li ∈ ls, s.currentDoc ∉ li := by
      rcases h with ⟨h1, _, _⟩ | ⟨_, h2, _⟩
      · rw [h1]; exact not_term_mem hC hA
      · intro li hli hx; exact Nat.lt_irrefl _ (h2 li hli _ hx)
    exact adv_from_pre_score hC hscore hG hg G hA hm hpre hR.2.2 (hR.2.1 ls hA)

inductive Move where
  | advance
  | seek (t : Nat)

def specMove : List Nat → Move → List Nat
  | l, .advance => Spec.advance l
  | l, .seek t => Spec.seek t l

def legalMove (l : List Nat) : Move → Prop
  | .advance => True
  | .seek t => Spec.doc l ≤ t ∧ t ≤ TERMINATED

def implMove (C : DS σ) (s : State σ) : Move → State σ
  | .advance => (ds C).advance s
  | .seek t => (ds C).seek t s

def legalMoves : List Nat → List Move → Prop
  | _, [] => True
  | l, m :: ms => legalMove l m ∧ legalMoves (specMove l m) ms

def runMoves (C : DS σ) (s : State σ) (ms : List Move) : State σ := ms.foldl (implMove C) s

def specMoves (l : List Nat) (ms : List Move) : List Nat := ms.foldl specMove l

theorem moves_VS (hC : Lawful C VC WC) (hscore : ∀ {c l}, VC c l → VC (C.score c).2 l)
    (hG : Inter.Ghost C g) (hg : ∀ {c l}, VC c l → l ≠ [] → (C.score c).1 = g c (C.doc c)) (G : Nat → Nat) :
    ∀ (ms : List Move) {s : State σ} {l : List Nat}, VS g G VC s l → legalMoves l ms →
      VS g G VC (runMoves C s ms) (specMoves l ms) := by
  intro ms
  induction ms with
  | nil => intro s l h _; exact h
  | cons m ms ih =>
    intro s l h hl
    obtain ⟨hl1, hl2⟩ := hl
    simp only [runMoves, specMoves, List.foldl_cons]
    apply ih _ hl2
    have hc := core0VS hC hscore hG hg G
    cases m with
    | advance => exact hc.advance h
    | seek t =>
      have hlen : l.length ≤ FUEL := by
        have := (hc.sorted h).length_le; unfold FUEL; omega
      exact loopSeek_law hc hl1.2 FUEL h hlen

/-- `Disjunction::new` (SumCombiner) establishes the score invariant -/
theorem new_R (hC : Lawful C VC WC) (hscore : ∀ {c l}, VC c l → VC (C.score c).2 l)
    (hG : Inter.Ghost C g) (hg : ∀ {c l}, VC c l → l ≠ [] → (C.score c).1 = g c (C.doc c))
    {k : Nat} (hk : 1 ≤ k) {cs : List σ} {ls : List (List Nat)} (hA : All2 VC cs ls) :
    R g (gsum g cs ls) VC (new C true k cs) := by
  unfold new
  by_cases h : k > cs.length
  · simp only [h, if_true]
    refine ⟨fun h' => absurd h' (Nat.lt_irrefl _), ?_, rfl⟩
    intro ls' h' x _
    have h'' : All2 VC cs ls' := h'
    rw [all2_unique hC h'' hA]
  · simp only [h, if_false]
    exact adv_from_pre_score hC hscore hG hg _ (s := { chains := cs, minMatch := k, currentDoc := TERMINATED, currentScore := 0, comb := 0, sum := true }) hA hk
      (not_term_mem hC hA) rfl (fun x _ => rfl)

/-- the minimum-should-match disjunction (SumCombiner) built over valid children, after any legal mix
of `advance` and `seek`: the score at the current document is the sum of the score functions of the
children containing it -/
theorem score_after_moves (hC : Lawful C VC WC) (hscore : ∀ {c l}, VC c l → VC (C.score c).2 l)
    (hG : Inter.Ghost C g) (hg : ∀ {c l}, VC c l → l ≠ [] → (C.score c).1 = g c (C.doc c))
    {k : Nat} (hk : 1 ≤ k) {cs : List σ} {ls : List (List Nat)} {L : List Nat} (hA : All2 VC cs ls)
    (hst : Sorted L) (hmem : ∀ x, x ∈ L ↔ k ≤ cnt x ls) (ms : List Move) (hl : legalMoves L ms) :
    (runMoves C (new C true k cs) ms).currentDoc = Spec.doc (specMoves L ms)
      ∧ ((runMoves C (new C true k cs) ms).currentDoc < TERMINATED →
          ((ds C).score (runMoves C (new C true k cs) ms)).1
            = gsum g cs ls (runMoves C (new C true k cs) ms).currentDoc) := by
  have h0 : VS g (gsum g cs ls) VC (new C true k cs) L :=
    ⟨new_V hC hscore true hk hA hst hmem, new_R hC hscore hG hg hk hA⟩
  have h1 := moves_VS hC hscore hG hg (gsum g cs ls) ms h0 hl
  exact ⟨(core0 hC hscore).doc_eq h1.1, h1.2.1⟩

end TantivyModel.DocSet.Disj
