import TantivyModel.Proofs.DocSet.TreeScore3
/-!
Erasing ghost data commutes with every method of the buffered union a parent or a call program uses
(its own `fill_buffer` and `count` aside).
-/
namespace TantivyModel.DocSet.BUnion
variable {σ' σ : Type} {C' : DS σ'} {C : DS σ} {ψ : σ' → σ}

def State.map (ψ : σ' → σ) (s : State σ') : State σ :=
  { docsets := s.docsets.map ψ, window := s.window, bucketIdx := s.bucketIdx, scores := s.scores,
    ws := s.ws, doc := s.doc, score := s.score, sum := s.sum }

theorem minDoc_map (h : Hom C' C ψ) : ∀ cs : List σ', minDoc C (cs.map ψ) = minDoc C' cs
  | [] => rfl
  | [c] => h.doc c
  | c :: d :: cs => by
    have := minDoc_map h (d :: cs)
    show min (C.doc (ψ c)) (minDoc C ((d :: cs).map ψ)) = min (C'.doc c) (minDoc C' (d :: cs))
    rw [this, h.doc]

theorem drain_map (h : Hom C' C ψ) (H m : Nat) (sum : Bool) : ∀ (n : Nat) (c : σ') (w : List Nat) (sc : Array Nat),
    drain C H m sum n (ψ c) w sc = ((drain C' H m sum n c w sc).1.map ψ, (drain C' H m sum n c w sc).2)
  | 0, _, _, _ => rfl
  | n + 1, c, w, sc => by
    simp only [drain, h.doc]
    split
    · rfl
    · cases sum with
      | true =>
        simp only [if_true, h.score, h.advance, h.doc]
        split
        · rfl
        · exact drain_map h H m true n _ _ _
      | false =>
        simp only [Bool.false_eq_true, if_false, h.advance, h.doc]
        split
        · rfl
        · exact drain_map h H m false n _ _ _

theorem refillAll_map (h : Hom C' C ψ) (H m : Nat) (sum : Bool) : ∀ (cs : List σ') (w : List Nat) (sc : Array Nat),
    refillAll C H m sum (cs.map ψ) w sc
      = ((refillAll C' H m sum cs w sc).1.map ψ, (refillAll C' H m sum cs w sc).2)
  | [], _, _ => rfl
  | c :: cs, w, sc => by
    simp only [List.map_cons, refillAll, drain_map h]
    generalize drain C' H m sum (H + 1) c w sc = r
    rcases r with ⟨r1, w', sc'⟩
    cases r1 with
    | some c' =>
      simp only [Option.map_some, refillAll_map h H m sum cs w' sc', List.map_cons]
    | none =>
      simp only [Option.map_none, refillAll_map h H m sum cs w' sc']

theorem refill_map (h : Hom C' C ψ) (H : Nat) (s : State σ') :
    refill C H (s.map ψ) = (refill C' H s).map (State.map ψ) := by
  unfold refill
  have e : (s.map ψ).docsets = s.docsets.map ψ := rfl
  by_cases he : s.docsets.isEmpty = true
  · have : (s.docsets.map ψ).isEmpty = true := by simpa using he
    simp only [e, this, he, if_true, Option.map_none]
  · have : ¬ (s.docsets.map ψ).isEmpty = true := by simpa using he
    simp only [e, this, he, if_false, Option.map_some, minDoc_map h, refillAll_map h]
    rfl

theorem map_window (s : State σ') : (s.map ψ).window = s.window := rfl
theorem map_bucketIdx (s : State σ') : (s.map ψ).bucketIdx = s.bucketIdx := rfl
theorem map_docsets (s : State σ') : (s.map ψ).docsets = s.docsets.map ψ := rfl
theorem map_doc (s : State σ') : (s.map ψ).doc = s.doc := rfl
theorem map_ws (s : State σ') : (s.map ψ).ws = s.ws := rfl

theorem advBuf_map (H : Nat) : ∀ (n : Nat) (s : State σ'),
    advBuf H n (s.map ψ) = ((advBuf H n s).1, (advBuf H n s).2.map ψ)
  | 0, _ => rfl
  | n + 1, s => by
    by_cases hlt : s.bucketIdx < NB H
    · cases hq : popBucket s.bucketIdx s.window with
      | some q =>
        rcases q with ⟨δ, w'⟩
        simp only [advBuf, map_bucketIdx, map_window, hlt, if_true, hq]
        rfl
      | none =>
        simp only [advBuf, map_bucketIdx, map_window, hlt, if_true, hq]
        exact advBuf_map H n ({ s with bucketIdx := s.bucketIdx + 1 } : State σ')
    · simp only [advBuf, map_bucketIdx, hlt, if_false]

theorem advance_map (h : Hom C' C ψ) (H : Nat) (s : State σ') :
    advance C H (s.map ψ) = (advance C' H s).map ψ := by
  simp only [advance, advBuf_map]
  generalize advBuf H (NB H + 1) s = r
  rcases r with ⟨b, s'⟩
  cases b with
  | true => rfl
  | false =>
    simp only [refill_map h]
    cases hq : refill C' H s' with
    | none => rfl
    | some s'' => simp only [Option.map_some, advBuf_map]

theorem filter_map (h : Hom C' C ψ) (cs : List σ') :
    (cs.map ψ).filter (fun c => C.doc c != TERMINATED) = (cs.filter (fun c => C'.doc c != TERMINATED)).map ψ := by
  rw [List.filter_map]
  congr 1
  apply List.filter_congr
  intro c _
  simp only [Function.comp, h.doc]

theorem build_map (h : Hom C' C ψ) (H : Nat) (sum : Bool) (cs : List σ') :
    build C H sum (cs.map ψ) = (build C' H sum cs).map ψ := by
  simp only [build, filter_map h]
  have e : ({ docsets := (cs.filter (fun c => C'.doc c != TERMINATED)).map ψ, window := [], bucketIdx := NB H, scores := Array.replicate H 0, ws := 0, doc := 0, score := 0, sum := sum } : State σ)
      = ({ docsets := cs.filter (fun c => C'.doc c != TERMINATED), window := [], bucketIdx := NB H, scores := Array.replicate H 0, ws := 0, doc := 0, score := 0, sum := sum } : State σ').map ψ := rfl
  rw [e, refill_map h]
  cases hq : refill C' H ({ docsets := cs.filter (fun c => C'.doc c != TERMINATED), window := [], bucketIdx := NB H, scores := Array.replicate H 0, ws := 0, doc := 0, score := 0, sum := sum } : State σ') with
  | none => rfl
  | some s1 => simp only [Option.map_some, advance_map h]

theorem seekLoop_map (h : Hom C' C ψ) (H t : Nat) : ∀ (n : Nat) (s : State σ'),
    seekLoop C H t n (s.map ψ) = (seekLoop C' H t n s).map ψ
  | 0, _ => rfl
  | n + 1, s => by
    simp only [seekLoop]
    have e : (s.map ψ).doc = s.doc := rfl
    rw [e]
    split
    · rw [advance_map h]; exact seekLoop_map h H t n _
    · rfl

theorem far_tail_map (h : Hom C' C ψ) (H : Nat) (X : State σ') :
    (match refill C H (X.map ψ) with
      | none => ({ X.map ψ with doc := TERMINATED } : State σ)
      | some s2 => advance C H s2)
    = (match refill C' H X with
      | none => ({ X with doc := TERMINATED } : State σ')
      | some s2 => advance C' H s2).map ψ := by
  rw [refill_map h]
  cases refill C' H X with
  | none => rfl
  | some s2 => simp only [Option.map_some, advance_map h]

theorem seek_map (h : Hom C' C ψ) (fx : Fix) (H t : Nat) (s : State σ') :
    seek fx C H t (s.map ψ) = (seek fx C' H t s).map ψ := by
  unfold seek
  by_cases hge : s.doc ≥ t
  · simp only [map_doc, hge, if_true]
  · simp only [map_doc, map_ws, hge, if_false]
    by_cases hin : inHorizonGap (t - s.ws) H = true
    · simp only [hin, if_true]
      exact seekLoop_map h H t _ ({ s with
        window := s.window.filter (fun δ => !(decide (s.bucketIdx ≤ δ / 64) && decide (δ / 64 < (t - s.ws) / 64))),
        scores := (if s.sum then clearScores s.scores (s.bucketIdx * 64) ((t - s.ws) / 64 * 64) else s.scores),
        bucketIdx := (t - s.ws) / 64 } : State σ')
    · simp only [hin, Bool.false_eq_true, if_false]
      by_cases hcr : (fx.childRevalidate || decide (Gen.UNION_SEEK_REVALIDATES_CHILDREN = 1)) = true
      · simp only [hcr, if_true]
        have hd1 : ((s.map ψ).docsets.map (fun c => C.seek (max (C.doc c) t) c)).filter (fun c => C.doc c != TERMINATED)
            = ((s.docsets.map (fun c => C'.seek (max (C'.doc c) t) c)).filter (fun c => C'.doc c != TERMINATED)).map ψ := by
          rw [← filter_map h]
          congr 1
          show ((s.docsets.map ψ).map _) = _
          simp only [List.map_map]
          apply List.map_congr_left
          intro c _
          simp only [Function.comp, h.doc, h.seek]
        rw [hd1]
        exact far_tail_map h H ({ s with window := [], scores := (if s.sum then Array.replicate s.scores.size 0 else s.scores), docsets := (s.docsets.map (fun c => C'.seek (max (C'.doc c) t) c)).filter (fun c => C'.doc c != TERMINATED) } : State σ')
      · simp only [hcr, Bool.false_eq_true, if_false]
        have hd2 : ((s.map ψ).docsets.map (fun c => if C.doc c < t then C.seek t c else c)).filter (fun c => C.doc c != TERMINATED)
            = ((s.docsets.map (fun c => if C'.doc c < t then C'.seek t c else c)).filter (fun c => C'.doc c != TERMINATED)).map ψ := by
          rw [← filter_map h]
          congr 1
          show ((s.docsets.map ψ).map _) = _
          simp only [List.map_map]
          apply List.map_congr_left
          intro c _
          simp only [Function.comp, h.doc]
          split
          · rw [h.seek]
          · rfl
        rw [hd2]
        exact far_tail_map h H ({ s with window := [], scores := (if s.sum then Array.replicate s.scores.size 0 else s.scores), docsets := (s.docsets.map (fun c => if C'.doc c < t then C'.seek t c else c)).filter (fun c => C'.doc c != TERMINATED) } : State σ')

theorem dangerChildren_map (h : Hom C' C ψ) (t : Nat) : ∀ (cs : List σ') (m : Nat),
    dangerChildren C t (cs.map ψ) m = ((dangerChildren C' t cs m).1, (dangerChildren C' t cs m).2.map ψ)
  | [], _ => rfl
  | c :: cs, m => by
    simp only [List.map_cons, dangerChildren, h.seekDanger]
    generalize C'.seekDanger t c = r
    rcases r with ⟨r1, c'⟩
    cases r1 with
    | found => rfl
    | lower b => simp only [dangerChildren_map h t cs (min m b), List.map_cons]

theorem seekDanger_map (h : Hom C' C ψ) (fx : Fix) (H t : Nat) (s : State σ') :
    seekDanger fx C H t (s.map ψ) = ((seekDanger fx C' H t s).1, (seekDanger fx C' H t s).2.map ψ) := by
  unfold seekDanger
  split
  · rfl
  · have e : dangerBuffered fx H (s.map ψ) t = dangerBuffered fx H s t := rfl
    rw [e]
    split
    · simp only [seek_map h]
      have e1 : ((seek fx C' H t s).map ψ).doc = (seek fx C' H t s).doc := rfl
      rw [e1]
      split <;> rfl
    · have e2 : (s.map ψ).docsets = s.docsets.map ψ := rfl
      simp only [e2, dangerChildren_map h]
      split
      · have e3 : ({ s.map ψ with docsets := (dangerChildren C' t s.docsets TERMINATED).2.map ψ } : State σ)
            = ({ s with docsets := (dangerChildren C' t s.docsets TERMINATED).2 } : State σ').map ψ := rfl
        rw [e3, seek_map h]
      · rfl

/-- erasing through `ψ` commutes with every method of the buffered union a parent or a call program uses
(both with the union's own `fill_buffer` and with the default one — it is not among them) -/
theorem hom (h : Hom C' C ψ) (H : Nat) (fx : Fix) : Hom (dsNF C' H fx) (ds C H fx) (State.map ψ) where
  doc := fun _ => rfl
  advance := fun s => advance_map h H s
  seek := fun t s => seek_map h fx H t s
  seekDanger := fun t s => seekDanger_map h fx H t s
  fillBitset := fun m s => by
    show defaultFillBitset (fun s : State σ => s.doc) (advance C H) (seek fx C H) m (s.map ψ) = _
    simp only [defaultFillBitset, seek_map h]
    exact loopBitset_hom (fun s : State σ' => s.doc) (advance C' H) (fun s : State σ => s.doc) (advance C H)
      (State.map ψ) (fun _ => rfl) (fun s => advance_map h H s) _ _ _
  score := fun _ => rfl

end TantivyModel.DocSet.BUnion

namespace TantivyModel.DocSet

/-! ### disjunction of conjunctions at nesting depth 2: a SUM union of intersections of leaves -/

/-- an intersection of leaves as a scored child (with its total score function) -/
abbrev IChild := Inter.State Leaf × (Nat → Nat)

def eraseI (p : IChild) : Comb Leaf := .inter p.1

theorem eraseI_hom (fx : Fix) :
    Hom ((Inter.ds (Leaf.ds fx) fx).withGhost (α := Nat → Nat)) (Comb.ds (Leaf.ds fx) fx) eraseI where
  doc := fun _ => rfl
  advance := fun _ => rfl
  seek := fun _ _ => rfl
  seekDanger := fun _ _ => rfl
  fillBitset := fun _ _ => rfl
  score := fun _ => rfl

/-- the leaf descriptions of one intersection and their lists -/
structure IGroup where
  tl : Tree
  tr : Tree
  tos : List Tree
  ll : List Nat
  lr : List Nat
  los : List (List Nat)

def IGroup.ok (g : IGroup) : Prop := Den 0 g.tl g.ll ∧ Den 0 g.tr g.lr ∧ All2 (Den 0) g.tos g.los
def IGroup.common (g : IGroup) : List Nat := Inter.Common g.ll g.lr g.los
def IGroup.total (g : IGroup) : Nat := ((g.tl :: g.tr :: g.tos).map scoreOf).sum
def IGroup.tree (dense : Bool) (g : IGroup) : Tree := .inter dense (g.tl :: g.tr :: g.tos)

/-- the score the union gives a document: the totals of the intersections containing it -/
def isum : List IGroup → Nat → Nat
  | [], _ => 0
  | g :: gs, x => (if x ∈ g.common then g.total else 0) + isum gs x

/-- valid scored intersection children -/
def IV (p : IChild) (l : List Nat) : Prop :=
  Inter.V (RV Leaf.V) (RW Leaf.W) p.1 l ∧ Inter.PF leafScore p.2 p.1

theorem igroup_built (fx : Fix) (dense : Bool) (g : IGroup) (h : g.ok) :
    ∃ p : IChild, buildTree fx 1 (g.tree dense) = some (eraseI p : Level 1) ∧ IV p g.common ∧ p.2 = fun _ => g.total := by
  obtain ⟨hl0, hr0, ho0⟩ := h
  obtain ⟨ss, hss, hAs, hB⟩ := leaves_built fx (All2.cons hl0 (All2.cons hr0 ho0))
  cases hAs with
  | @cons sl _ ss1 _ vl hAs1 =>
    cases hAs1 with
    | @cons sr _ sos _ vr vo =>
      have hS := (Leaf.scored fx).restrict
      refine ⟨((Inter.new (Leaf.ds fx) dense sl sr sos, fun x => (((sl :: sr :: sos).map leafScore).map (fun (f : Nat → Nat) => f x)).sum) : IChild),
        buildTree_inter fx 0 dense _ sl sr sos hss, Inter.new_scored hS dense vl vr vo, ?_⟩
      funext x
      show (((sl :: sr :: sos).map leafScore).map (fun f => f x)).sum = _
      rw [map_leafScore fx hB]
      rfl

theorem igroups_built (fx : Fix) (dense : Bool) : ∀ (gs : List IGroup), (∀ g ∈ gs, g.ok) →
    ∃ ps : List IChild, (gs.map (IGroup.tree dense)).mapM (buildTree fx 1) = some (ps.map eraseI : List (Level 1))
      ∧ All2 IV ps (gs.map IGroup.common)
      ∧ ∀ x, BUnion.gsum (fun p : IChild => p.2) ps (gs.map IGroup.common) x = isum gs x
  | [], _ => ⟨[], rfl, All2.nil, fun _ => rfl⟩
  | g :: gs, h => by
    obtain ⟨p, hp, vp, ep⟩ := igroup_built fx dense g (h g (by simp))
    obtain ⟨ps, hps, vps, eps⟩ := igroups_built fx dense gs (fun g' hg' => h g' (List.mem_cons_of_mem _ hg'))
    refine ⟨p :: ps, ?_, All2.cons vp vps, fun x => ?_⟩
    · simp only [List.map_cons, List.mapM_cons, hp, hps]
      rfl
    · simp only [List.map_cons, BUnion.gsum_cons, isum, eps x, ep]

theorem buildTree_bunion (fx : Fix) (n : Nat) (sum : Bool) (cs : List Tree) (l : List (Level n))
    (h : cs.mapM (buildTree fx n) = some l) :
    buildTree fx (n + 1) (.bunion sum cs) = some (Comb.bunion (BUnion.build (levelDS fx n) Comb.H sum l)) := by
  simp only [buildTree, h]
  rfl

/-- **SUM union of intersections of leaves (`(+a +b …) (+c +d …) …`), two levels, on the model the
driver builds and runs**: `score()` is the sum over the intersections containing the document of the
scores of all their leaves -/
theorem tree2_union_of_inters_score (fx : Fix) (dense : Bool) (gs : List IGroup) (hs : ∀ g ∈ gs, g.ok)
    (U : List Nat) (hU : SimpleUnion.IsUnion U (gs.map IGroup.common)) (prog : List Op)
    (hl : legalProg ⟨U, none⟩ prog = true) (hnc : ∀ op ∈ prog, op ≠ Op.count) (hnf : noFill prog)
    (hnd : (specFinal ⟨U, none⟩ prog).danger = none) :
    ∃ s, buildTree fx 2 (.bunion true (gs.map (IGroup.tree dense))) = some s
      ∧ (levelDS fx 2).doc (implFinal (levelDS fx 2) s prog) = Spec.doc (specFinal ⟨U, none⟩ prog).rest
      ∧ ((levelDS fx 2).doc (implFinal (levelDS fx 2) s prog) < TERMINATED →
          ((levelDS fx 2).score (implFinal (levelDS fx 2) s prog)).1
            = isum gs ((levelDS fx 2).doc (implFinal (levelDS fx 2) s prog))) := by
  obtain ⟨ps, hps, vps, eps⟩ := igroups_built fx dense gs hs
  have hSI := Inter.scored ((Leaf.scored fx).restrict) (fun h => h.2) fx
  have hH := BUnion.hom (eraseI_hom fx) Comb.H fx
  have key := (BUnion.score_program_scored hSI (H := Comb.H) (show 64 ∣ Gen.UNION_HORIZON by decide)
    (show 0 < Gen.UNION_HORIZON by decide) fx vps hU prog hl hnc).2 hnd
  have hbuild := buildTree_bunion fx 1 true _ _ hps
  refine ⟨_, hbuild, ?_⟩
  have hb : BUnion.build (levelDS fx 1) Comb.H true (ps.map eraseI)
      = (BUnion.build ((Inter.ds (Leaf.ds fx) fx).withGhost (α := Nat → Nat)) Comb.H true ps).map eraseI :=
    BUnion.build_map (eraseI_hom fx) Comb.H true ps
  have e : implFinal (levelDS fx 2) (Comb.bunion (BUnion.build (levelDS fx 1) Comb.H true (ps.map eraseI : List (Level 1)))) prog
      = Comb.bunion ((implFinal (BUnion.dsNF ((Inter.ds (Leaf.ds fx) fx).withGhost (α := Nat → Nat)) Comb.H fx)
          (BUnion.build ((Inter.ds (Leaf.ds fx) fx).withGhost (α := Nat → Nat)) Comb.H true ps) prog).map eraseI) :=
    (Comb.implFinal_bunion (levelDS fx 1) fx prog _).trans
      (congrArg Comb.bunion ((congrArg (fun z => implFinal (BUnion.ds (levelDS fx 1) Comb.H fx) z prog) hb).trans
        (hH.run prog _ hnc hnf)))
  revert key e
  generalize implFinal (BUnion.dsNF ((Inter.ds (Leaf.ds fx) fx).withGhost (α := Nat → Nat)) Comb.H fx)
      (BUnion.build ((Inter.ds (Leaf.ds fx) fx).withGhost (α := Nat → Nat)) Comb.H true ps) prog = Y
  intro key e
  have hdoc' : (levelDS fx 2).doc (implFinal (levelDS fx 2) (Comb.bunion (BUnion.build (levelDS fx 1) Comb.H true (ps.map eraseI : List (Level 1)))) prog)
      = Y.doc := (congrArg (levelDS fx 2).doc e).trans (hH.doc Y)
  have hsc' : ((levelDS fx 2).score (implFinal (levelDS fx 2) (Comb.bunion (BUnion.build (levelDS fx 1) Comb.H true (ps.map eraseI : List (Level 1)))) prog)).1
      = ((BUnion.dsNF ((Inter.ds (Leaf.ds fx) fx).withGhost (α := Nat → Nat)) Comb.H fx).score Y).1 :=
    (congrArg (fun y => ((levelDS fx 2).score y).1) e).trans (congrArg Prod.fst (hH.score Y))
  refine ⟨hdoc'.trans key.1, fun hlt => ?_⟩
  have hlt' : Y.doc < TERMINATED := hdoc' ▸ hlt
  refine hsc'.trans ((key.2 hlt').trans ((eps _).trans ?_))
  exact congrArg (isum gs) hdoc'.symm

end TantivyModel.DocSet
