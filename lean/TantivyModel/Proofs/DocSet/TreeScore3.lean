import TantivyModel.Proofs.DocSet.TreeScore2
/-!
Nesting depth 2 on the driver's model, `+a (b c …)`: a `RequiredOptionalScorer` whose required child is a
leaf and whose optional child is a SUM `BufferedUnionScorer` over leaves.
-/
namespace TantivyModel.DocSet

theorem loopBitset_hom {σ' σ : Type} (doc' : σ' → Nat) (adv' : σ' → σ') (doc : σ → Nat) (adv : σ → σ)
    (Ψ : σ' → σ) (hd : ∀ s, doc (Ψ s) = doc' s) (ha : ∀ s, adv (Ψ s) = Ψ (adv' s)) (hz : Nat) :
    ∀ (n : Nat) (s : σ'), loopBitset doc adv hz n (Ψ s)
      = ((loopBitset doc' adv' hz n s).1, Ψ (loopBitset doc' adv' hz n s).2)
  | 0, s => by simp only [loopBitset, hd]
  | n + 1, s => by
    simp only [loopBitset, hd, ha]
    split
    · rfl
    · split
      · rfl
      · rw [loopBitset_hom doc' adv' doc adv Ψ hd ha hz n]

namespace ReqOpt
variable {σ' σ τ' τ : Type} {R' : DS σ'} {R : DS σ} {O' : DS τ'} {O : DS τ} {φ : σ' → σ} {ψ : τ' → τ}

def State.map2 (φ : σ' → σ) (ψ : τ' → τ) (s : State σ' τ') : State σ τ :=
  { req := φ s.req, opt := ψ s.opt, cache := s.cache, sum := s.sum }

theorem score_map (hφ : Hom R' R φ) (hψ : Hom O' O ψ) (s : State σ' τ') :
    score R O (s.map2 φ ψ) = ((score R' O' s).1, (score R' O' s).2.map2 φ ψ) := by
  unfold score
  cases hc : s.cache with
  | some v =>
    have : (s.map2 φ ψ).cache = some v := hc
    simp only [this]
  | none =>
    have : (s.map2 φ ψ).cache = none := hc
    simp only [this]
    have e1 : (s.map2 φ ψ).req = φ s.req := rfl
    have e2 : (s.map2 φ ψ).opt = ψ s.opt := rfl
    have e3 : (s.map2 φ ψ).sum = s.sum := rfl
    simp only [e1, e2, e3, hφ.doc, hφ.score, hψ.doc, hψ.seek, hψ.score]
    split
    · split
      · rfl
      · rfl
    · rfl

/-- erasing through `φ` (required child) and `ψ` (optional child) commutes with every method of the
required/optional scorer -/
theorem hom (hφ : Hom R' R φ) (hψ : Hom O' O ψ) : Hom (ds R' O') (ds R O) (State.map2 φ ψ) where
  doc := fun s => hφ.doc s.req
  advance := fun s => by
    show ({ s.map2 φ ψ with req := R.advance (φ s.req), cache := none } : State σ τ) = _
    rw [hφ.advance]; rfl
  seek := fun t s => by
    show ({ s.map2 φ ψ with req := R.seek t (φ s.req), cache := none } : State σ τ) = _
    rw [hφ.seek]; rfl
  seekDanger := fun t s => by
    show ((R.seekDanger t (φ s.req)).1, ({ s.map2 φ ψ with req := (R.seekDanger t (φ s.req)).2, cache := none } : State σ τ)) = _
    rw [hφ.seekDanger]; rfl
  fillBitset := fun m s => by
    show defaultFillBitset (doc R) (advance R) (seek R) m (s.map2 φ ψ) = _
    have hs : ∀ t (s : State σ' τ'), seek R t (s.map2 φ ψ) = (seek R' t s).map2 φ ψ := fun t s => by
      show ({ s.map2 φ ψ with req := R.seek t (φ s.req), cache := none } : State σ τ) = _
      rw [hφ.seek]; rfl
    have ha : ∀ (s : State σ' τ'), advance R (s.map2 φ ψ) = (advance R' s).map2 φ ψ := fun s => by
      show ({ s.map2 φ ψ with req := R.advance (φ s.req), cache := none } : State σ τ) = _
      rw [hφ.advance]; rfl
    simp only [defaultFillBitset, hs]
    exact loopBitset_hom (doc R') (advance R') (doc R) (advance R) (State.map2 φ ψ)
      (fun s => hφ.doc s.req) ha _ _ _
  score := fun s => score_map hφ hψ s

end ReqOpt

theorem leaf_hom (fx : Fix) : Hom (Leaf.ds fx) (Comb.ds (Leaf.ds fx) fx) Comb.leaf where
  doc := fun _ => rfl
  advance := fun _ => rfl
  seek := fun _ _ => rfl
  seekDanger := fun _ _ => rfl
  fillBitset := fun _ _ => rfl
  score := fun _ => rfl

theorem leaf_build1 (fx : Fix) : ∀ (t : Tree) (l : List Nat), Den 0 t l →
    ∃ s : Leaf, buildTree fx 0 t = some s ∧ buildTree fx 1 t = some (Comb.leaf s : Level 1) ∧ RV Leaf.V s l
  | .vec docs sc, l, h => by
    obtain ⟨s, hs, hv⟩ := build_valid0 fx (.vec docs sc) l h
    exact ⟨s, hs, by simp only [buildTree] at hs ⊢; cases hs; rfl, hv⟩
  | .bits docs mx sc, l, h => by
    obtain ⟨s, hs, hv⟩ := build_valid0 fx (.bits docs mx sc) l h
    exact ⟨s, hs, by simp only [buildTree] at hs ⊢; cases hs; rfl, hv⟩
  | .bunion _ _, _, h => h.elim
  | .sunion _, _, h => h.elim
  | .inter _ _, _, h => h.elim
  | .excl _ _, _, h => h.elim
  | .reqopt _ _ _, _, h => h.elim
  | .disj _ _ _, _, h => h.elim

theorem buildTree_reqopt (fx : Fix) (n : Nat) (sum : Bool) (treq topt : Tree) (r o : Level n)
    (hr : buildTree fx n treq = some r) (ho : buildTree fx n topt = some o) :
    buildTree fx (n + 1) (.reqopt sum treq topt)
      = some (Comb.reqopt { req := r, opt := o, cache := none, sum := sum }) := by
  simp only [buildTree, hr, ho]
  rfl

/-- **`+a (b c …)` — a required leaf with an optional SUM union of leaves, two levels, on the model the
driver builds and runs**: `score()` is the required leaf's score plus, on the documents of the union,
the scores of the union's leaves containing the document -/
theorem tree2_reqopt_union_score (fx : Fix) (treq : Tree) (l : List Nat) (g : Group) (hr0 : Den 0 treq l)
    (hg : GroupOK g) (prog : List Op) (hl : legalProg ⟨l, none⟩ prog = true)
    (hnc : ∀ op ∈ prog, op ≠ Op.count) (hnf : noFill prog) (hnd : (specFinal ⟨l, none⟩ prog).danger = none) :
    ∃ s, buildTree fx 2 (.reqopt true treq (.bunion true g.1)) = some s
      ∧ (levelDS fx 2).doc (implFinal (levelDS fx 2) s prog) = Spec.doc (specFinal ⟨l, none⟩ prog).rest
      ∧ ((levelDS fx 2).doc (implFinal (levelDS fx 2) s prog) < TERMINATED →
          ((levelDS fx 2).score (implFinal (levelDS fx 2) s prog)).1
            = scoreOf treq + (if (levelDS fx 2).doc (implFinal (levelDS fx 2) s prog) ∈ g.2.2
                then groupScore g ((levelDS fx 2).doc (implFinal (levelDS fx 2) s prog)) else 0)) := by
  obtain ⟨sr, hsr0, hsr1, vr⟩ := leaf_build1 fx treq l hr0
  obtain ⟨p, hp, vp, ep⟩ := group_built fx g hg
  have gr := leafScore_build fx treq sr hsr0
  have hSR := Leaf.scored fx
  have hSO := BUnion.scored (Leaf.scored fx) (H := Comb.H) (show 64 ∣ Gen.UNION_HORIZON by decide)
    (show 0 < Gen.UNION_HORIZON by decide) fx
  have hH := ReqOpt.hom (leaf_hom fx) (eraseU_hom fx)
  have h0 : ReqOpt.RS leafScore (fun p : UChild => p.2) Leaf.V
      (fun (p : UChild) l => BUnion.VS leafScore p.2 Leaf.V Comb.H p.1 l)
      (fun x => scoreOf treq + (if x ∈ g.2.2 then groupScore g x else 0))
      ({ req := sr, opt := p, cache := none, sum := true } : ReqOpt.State Leaf UChild) l :=
    ⟨vr.1, rfl, ⟨g.2.2, vp.1, fun x _ => by
      show _ = leafScore sr x + (if x ∈ g.2.2 then p.2 x else 0)
      rw [gr, ep]⟩, fun v hv => by cases hv⟩
  have key := score_of_lawful
    (ReqOpt.lawful_RS (O := (BUnion.dsNF (Leaf.ds fx) Comb.H fx).withGhost (α := Nat → Nat))
      (VO := fun (p : UChild) l => BUnion.VS leafScore p.2 Leaf.V Comb.H p.1 l) (gO := fun p : UChild => p.2) hSR
      (fun x => scoreOf treq + (if x ∈ g.2.2 then groupScore g x else 0)))
    (F := fun x => scoreOf treq + (if x ∈ g.2.2 then groupScore g x else 0))
    (fun {s l'} hV hne =>
      (ReqOpt.scored hSR hSO).hg (c := (s, fun x => scoreOf treq + (if x ∈ g.2.2 then groupScore g x else 0))) hV hne)
    h0 prog hl hnc hnd
  have hbuild := buildTree_reqopt fx 1 true treq (.bunion true g.1) _ _ hsr1 hp
  refine ⟨_, hbuild, ?_⟩
  have e : implFinal (levelDS fx 2) (Comb.reqopt ({ req := (Comb.leaf sr : Level 1), opt := (eraseU p : Level 1), cache := none, sum := true } : ReqOpt.State (Level 1) (Level 1))) prog
      = Comb.reqopt ((implFinal (ReqOpt.ds (Leaf.ds fx) ((BUnion.dsNF (Leaf.ds fx) Comb.H fx).withGhost (α := Nat → Nat)))
          ({ req := sr, opt := p, cache := none, sum := true } : ReqOpt.State Leaf UChild) prog).map2 Comb.leaf eraseU) :=
    (Comb.implFinal_reqopt (levelDS fx 1) fx prog _).trans
      (congrArg Comb.reqopt (hH.run prog ({ req := sr, opt := p, cache := none, sum := true } : ReqOpt.State Leaf UChild) hnc hnf))
  revert key e
  generalize implFinal (ReqOpt.ds (Leaf.ds fx) ((BUnion.dsNF (Leaf.ds fx) Comb.H fx).withGhost (α := Nat → Nat)))
      ({ req := sr, opt := p, cache := none, sum := true } : ReqOpt.State Leaf UChild) prog = Y
  intro key e
  have hdoc' : (levelDS fx 2).doc (implFinal (levelDS fx 2) (Comb.reqopt ({ req := (Comb.leaf sr : Level 1), opt := (eraseU p : Level 1), cache := none, sum := true } : ReqOpt.State (Level 1) (Level 1))) prog)
      = (ReqOpt.ds (Leaf.ds fx) ((BUnion.dsNF (Leaf.ds fx) Comb.H fx).withGhost (α := Nat → Nat))).doc Y :=
    (congrArg (levelDS fx 2).doc e).trans (hH.doc Y)
  have hsc' : ((levelDS fx 2).score (implFinal (levelDS fx 2) (Comb.reqopt ({ req := (Comb.leaf sr : Level 1), opt := (eraseU p : Level 1), cache := none, sum := true } : ReqOpt.State (Level 1) (Level 1))) prog)).1
      = ((ReqOpt.ds (Leaf.ds fx) ((BUnion.dsNF (Leaf.ds fx) Comb.H fx).withGhost (α := Nat → Nat))).score Y).1 :=
    (congrArg (fun y => ((levelDS fx 2).score y).1) e).trans (congrArg Prod.fst (hH.score Y))
  refine ⟨hdoc'.trans key.1, fun hlt => ?_⟩
  have hlt' := hdoc' ▸ hlt
  refine hsc'.trans ((key.2 hlt').trans ?_)
  exact congrArg (fun d => scoreOf treq + (if d ∈ g.2.2 then groupScore g d else 0)) hdoc'.symm

end TantivyModel.DocSet
