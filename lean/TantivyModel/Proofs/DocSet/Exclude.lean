import TantivyModel.Proofs.DocSet.Default
import TantivyModel.Model.DocSet.Exclude
/-!
`Exclude` refines the cursor over `underlying \ (⋃ exclusion sets)` for *any* lawful underlying
docset and *any* lawful exclusion sets (which are only ever driven through `seek_danger`, so they
may sit in their danger zone between calls).
-/
namespace TantivyModel.DocSet.Exclude
open TantivyModel.DocSet

variable {σ τ : Type} {U : DS σ} {E : DS τ}
  {VU : σ → List Nat → Prop} {WU : σ → Nat → List Nat → Prop}
  {VE : τ → List Nat → Prop} {WE : τ → Nat → List Nat → Prop}

/-- an exclusion set is valid, or in the danger zone of a target not beyond the candidate `c` -/
def EV (VE : τ → List Nat → Prop) (WE : τ → Nat → List Nat → Prop) (c : Nat) (e : τ)
    (le : List Nat) : Prop := VE e le ∨ ∃ t0, t0 ≤ c ∧ WE e t0 le

def ES (VE : τ → List Nat → Prop) (WE : τ → Nat → List Nat → Prop) (c : Nat) (es : List τ)
    (les : List (List Nat)) : Prop := All2 (EV VE WE c) es les

/-- `x` is not in any of the (remaining) exclusion lists -/
def ok (les : List (List Nat)) (x : Nat) : Bool := !(les.any (fun le => decide (x ∈ le)))

/-- the two families of exclusion lists agree on every document `≥ c` -/
def Agree (c : Nat) (les les' : List (List Nat)) : Prop :=
  All2 (fun le le' => ∀ x, c ≤ x → (x ∈ le' ↔ x ∈ le)) les les'

theorem Agree.refl (c : Nat) : ∀ les, Agree c les les
  | [] => All2.nil
  | _ :: les => All2.cons (fun _ _ => Iff.rfl) (Agree.refl c les)

theorem Agree.ok_eq {c : Nat} {les les' : List (List Nat)} (h : Agree c les les') {x : Nat}
    (hx : c ≤ x) : ok les' x = ok les x := by
  unfold ok
  congr 1
  induction h with
  | nil => rfl
  | cons h1 _ ih =>
    simp only [List.any_cons, ih]
    congr 1
    exact decide_eq_decide.mpr (h1 x hx)

theorem Agree.filter_eq {c : Nat} {les les' : List (List Nat)} (h : Agree c les les') {m : List Nat}
    (hm : ∀ x ∈ m, c ≤ x) : m.filter (ok les') = m.filter (ok les) :=
  List.filter_congr (fun x hx => Agree.ok_eq h (hm x hx))

theorem ES.mono {c c' : Nat} {es : List τ} {les : List (List Nat)} (h : ES VE WE c es les)
    (hc : c ≤ c') : ES VE WE c' es les := by
  unfold ES at *
  induction h with
  | nil => exact All2.nil
  | cons h1 _ ih =>
    refine All2.cons ?_ ih
    rcases h1 with h1 | ⟨t0, h0, hW⟩
    · exact Or.inl h1
    · exact Or.inr ⟨t0, Nat.le_trans h0 hc, hW⟩

/-- `contains(c)`: answers whether `c` is excluded, and leaves exclusion sets that agree with the
old ones on every document `≥ c` -/
theorem contains_law (hE : Lawful E VE WE) {c : Nat} (hc : c ≤ TERMINATED) :
    ∀ {es : List τ} {les : List (List Nat)}, ES VE WE c es les →
      ∃ les', ES VE WE c (contains E c es).2 les' ∧ Agree c les les'
        ∧ (contains E c es).1 = !(ok les c) := by
  intro es les h
  induction h with
  | nil => exact ⟨[], All2.nil, All2.nil, by simp [contains, ok]⟩
  | @cons e le es les h1 h2 ih =>
    have hsorted : Sorted le := by
      rcases h1 with h1 | ⟨t0, _, hW⟩
      · exact hE.sorted h1
      · exact (hE.wsorted hW).1
    have key : SDPost VE WE le c False (E.seekDanger c e) := by
      rcases h1 with h1 | ⟨t0, h0, hW⟩
      · exact (hE.sdV h1 hc).weaken (fun x => x.elim)
      · exact (hE.sdW hW h0 hc).weaken (fun x => x.elim)
    have hagree : ∀ x, c ≤ x → (x ∈ Spec.seek c le ↔ x ∈ le) := by
      intro x hx
      rw [Spec.mem_seek hsorted]
      exact ⟨fun h => h.1, fun h => ⟨h, hx⟩⟩
    simp only [contains]
    revert key
    generalize E.seekDanger c e = r
    rcases r with ⟨r1, e'⟩
    cases r1 with
    | found =>
      simp only [SDPost]
      rintro ⟨hm, hV⟩
      refine ⟨Spec.seek c le :: les, All2.cons (Or.inl hV) h2,
        All2.cons hagree (Agree.refl c les), ?_⟩
      simp [ok, hm]
    | lower b =>
      simp only [SDPost]
      rintro ⟨hm, hW, _⟩
      obtain ⟨les', i1, i2, i3⟩ := ih
      refine ⟨Spec.seek c le :: les', All2.cons (Or.inr ⟨c, Nat.le_refl c, hW⟩) i1,
        All2.cons hagree i2, ?_⟩
      simp only [i3, ok, List.any_cons, hm, decide_false, Bool.false_or]

/-- valid states: the underlying child is valid for `lu`, the exclusion sets are usable for
candidates from the current document on, the current document is not excluded -/
def V (VU : σ → List Nat → Prop) (VE : τ → List Nat → Prop) (WE : τ → Nat → List Nat → Prop)
    (s : State σ τ) (l : List Nat) : Prop :=
  ∃ lu les, VU s.u lu ∧ ES VE WE (Spec.doc lu) s.excl les
    ∧ (∀ a ∈ lu.head?, ok les a = true) ∧ l = lu.filter (ok les)

theorem filter_tail_of_head_ok {lu : List Nat} {p : Nat → Bool} (h : ∀ a ∈ lu.head?, p a = true) :
    (lu.filter p).tail = lu.tail.filter p := by
  cases lu with
  | nil => rfl
  | cons a m => simp [List.filter_cons, h a (by simp)]

theorem doc_filter_of_head_ok {lu : List Nat} {p : Nat → Bool} (h : ∀ a ∈ lu.head?, p a = true) :
    Spec.doc (lu.filter p) = Spec.doc lu := by
  cases lu with
  | nil => rfl
  | cons a m => simp [List.filter_cons, h a (by simp), Spec.doc]

theorem tail_ge_of_sorted {lu : List Nat} (h : Sorted lu) : ∀ x ∈ lu.tail, Spec.doc lu.tail ≤ x := by
  intro x hx
  cases hl : lu.tail with
  | nil => rw [hl] at hx; cases hx
  | cons c m =>
    rw [hl] at hx
    simp only [Spec.doc, List.headD_cons]
    have hs : Sorted (c :: m) := hl ▸ h.tail
    rcases List.mem_cons.mp hx with rfl | h1
    · exact Nat.le_refl _
    · exact Nat.le_of_lt (hs.of_cons.2.1 x h1)

theorem all_ge_doc {l : List Nat} (h : Sorted l) : ∀ x ∈ l, Spec.doc l ≤ x := by
  intro x hx
  cases l with
  | nil => cases hx
  | cons c m =>
    simp only [Spec.doc, List.headD_cons]
    rcases List.mem_cons.mp hx with rfl | h1
    · exact Nat.le_refl _
    · exact Nat.le_of_lt (h.of_cons.2.1 x h1)

theorem doc_le_doc_tail {lu : List Nat} (h : Sorted lu) : Spec.doc lu ≤ Spec.doc lu.tail := by
  cases lu with
  | nil => exact Nat.le_refl _
  | cons a m =>
    obtain ⟨ha, hlt, _⟩ := h.of_cons
    simp only [List.tail_cons]
    exact Spec.doc_ge_of_all (fun x hx => Nat.le_of_lt (hlt x hx)) (Nat.le_of_lt ha)

/-- the `loop` of `advance` (also used by `seek`) -/
theorem advLoop_law (hU : Lawful U VU WU) (hE : Lawful E VE WE) :
    ∀ (fuel : Nat) {s : State σ τ} {lu : List Nat} {les : List (List Nat)} {c0 : Nat},
      lu.length ≤ fuel → VU s.u lu → ES VE WE c0 s.excl les → c0 ≤ Spec.doc lu →
      V VU VE WE (advLoop U E fuel s) (lu.tail.filter (ok les)) := by
  intro fuel
  induction fuel with
  | zero =>
    intro s lu les c0 hl hV hES hc
    have : lu = [] := List.eq_nil_of_length_eq_zero (Nat.le_zero.mp hl)
    subst this
    exact ⟨[], les, hV, hES.mono hc, by simp, rfl⟩
  | succ n ih =>
    intro s lu les c0 hl hV hES hc
    have hs := hU.sorted hV
    have hV' := hU.advance hV
    simp only [Spec.advance] at hV'
    have hs' := hU.sorted hV'
    have hd' := hU.doc_eq hV'
    simp only [advLoop]
    by_cases hT : U.doc (U.advance s.u) = TERMINATED
    · simp only [hT, if_true]
      have hnil : lu.tail = [] := (Spec.doc_eq_term_iff hs').mp (by rw [← hd']; exact hT)
      rw [hnil]
      refine ⟨[], les, by simpa [hnil] using hV', ?_, by simp, rfl⟩
      exact hES.mono (Nat.le_trans hc (Spec.doc_le hs))
    · simp only [hT, if_false]
      have hcle : U.doc (U.advance s.u) ≤ TERMINATED := by rw [hd']; exact Spec.doc_le hs'
      have hc0 : c0 ≤ U.doc (U.advance s.u) := by
        rw [hd']; exact Nat.le_trans hc (doc_le_doc_tail hs)
      obtain ⟨les', i1, i2, i3⟩ := contains_law hE hcle (hES.mono hc0)
      have hge := tail_ge_of_sorted hs
      rw [← hd'] at hge
      by_cases hx : (contains E (U.doc (U.advance s.u)) s.excl).1 = true
      · simp only [hx, if_true]
        have h := ih (s := { u := U.advance s.u, excl := (contains E (U.doc (U.advance s.u)) s.excl).2 })
          (by have : lu.tail.length = lu.length - 1 := List.length_tail; omega) hV' i1
          (by rw [hd']; exact Nat.le_refl _)
        -- the head of `lu.tail` is excluded
        have hne : lu.tail ≠ [] := by
          intro h0; rw [h0] at hd'; exact hT hd'
        obtain ⟨c, m, hcm⟩ := List.exists_cons_of_ne_nil hne
        have hcdoc : U.doc (U.advance s.u) = c := by rw [hd', hcm]; rfl
        have hok : ok les c = false := by
          rw [hcdoc] at i3 hx; rw [i3] at hx; simpa using hx
        rw [hcm] at h hge ⊢
        simp only [List.tail_cons] at h
        rw [Agree.filter_eq i2 (fun x hx' => hge x (List.mem_cons_of_mem _ hx'))] at h
        simpa [List.filter_cons, hok] using h
      · simp only [hx, if_false]
        have hx' : (contains E (U.doc (U.advance s.u)) s.excl).1 = false := by
          simpa using hx
        refine ⟨lu.tail, les', hV', by rw [← hd']; exact i1, ?_, (Agree.filter_eq i2 hge).symm⟩
        intro a ha
        have ha' : a = U.doc (U.advance s.u) := by
          rw [hd']
          cases hl' : lu.tail with
          | nil => rw [hl'] at ha; cases ha
          | cons c m => rw [hl'] at ha; simp at ha; simp [Spec.doc, ha]
        rw [ha', Agree.ok_eq i2 (Nat.le_refl _)]
        rw [i3] at hx'
        simpa using hx'

theorem core (hU : Lawful U VU WU) (hE : Lawful E VE WE) :
    Core (doc (τ := τ) U) (advance U E) (seek U E) (V VU VE WE) where
  sorted := by
    rintro s l ⟨lu, les, hV, _, _, rfl⟩
    exact (hU.sorted hV).filter _
  doc_eq := by
    rintro s l ⟨lu, les, hV, _, hh, rfl⟩
    rw [doc_filter_of_head_ok hh]
    exact hU.doc_eq hV
  advance := by
    rintro s l ⟨lu, les, hV, hES, hh, rfl⟩
    have hlen : lu.length ≤ FUEL := by have := (hU.sorted hV).length_le; unfold FUEL; omega
    have := advLoop_law hU hE FUEL hlen hV hES (Nat.le_refl _)
    simpa [Spec.advance, advance, filter_tail_of_head_ok hh] using this
  seek := by
    rintro s l t ⟨lu, les, hV, hES, hh, rfl⟩ hd ht
    have hs := hU.sorted hV
    have hV' := hU.seek hV hd ht
    have hs' := hU.sorted hV'
    have hd' := hU.doc_eq hV'
    rw [Spec.seek_filter hs]
    simp only [seek]
    by_cases hT : U.doc (U.seek t s.u) = TERMINATED
    · simp only [hT, if_true]
      have hnil : Spec.seek t lu = [] := (Spec.doc_eq_term_iff hs').mp (by rw [← hd']; exact hT)
      rw [hnil]
      refine ⟨[], les, by simpa [hnil] using hV', ?_, by simp, rfl⟩
      exact hES.mono (Spec.doc_le hs)
    · simp only [hT, if_false]
      have hcle : U.doc (U.seek t s.u) ≤ TERMINATED := by rw [hd']; exact Spec.doc_le hs'
      have hc0 : Spec.doc lu ≤ U.doc (U.seek t s.u) := by
        rw [hd']; exact Spec.doc_le_doc_seek hs t
      obtain ⟨les', i1, i2, i3⟩ := contains_law hE hcle (hES.mono hc0)
      have hge := all_ge_doc hs'
      rw [← hd'] at hge
      by_cases hx : (contains E (U.doc (U.seek t s.u)) s.excl).1 = true
      · simp only [hx, if_true]
        have hlen : (Spec.seek t lu).length ≤ FUEL := by
          have := hs'.length_le; unfold FUEL; omega
        have h := advLoop_law hU hE FUEL
          (s := { u := U.seek t s.u, excl := (contains E (U.doc (U.seek t s.u)) s.excl).2 })
          hlen hV' i1 (by rw [hd']; exact Nat.le_refl _)
        have hne : Spec.seek t lu ≠ [] := by
          intro h0; rw [h0] at hd'; exact hT hd'
        obtain ⟨c, m, hcm⟩ := List.exists_cons_of_ne_nil hne
        have hcdoc : U.doc (U.seek t s.u) = c := by rw [hd', hcm]; rfl
        have hok : ok les c = false := by
          rw [hcdoc] at i3 hx; rw [i3] at hx; simpa using hx
        rw [hcm] at h hge ⊢
        simp only [List.tail_cons] at h
        rw [Agree.filter_eq i2 (fun x hx' => hge x (List.mem_cons_of_mem _ hx'))] at h
        simpa [advance, List.filter_cons, hok] using h
      · simp only [hx, if_false]
        have hx' : (contains E (U.doc (U.seek t s.u)) s.excl).1 = false := by simpa using hx
        refine ⟨Spec.seek t lu, les', hV', by rw [← hd']; exact i1, ?_, (Agree.filter_eq i2 hge).symm⟩
        intro a ha
        have ha' : a = U.doc (U.seek t s.u) := by
          rw [hd']
          cases hl' : Spec.seek t lu with
          | nil => rw [hl'] at ha; cases ha
          | cons c m => rw [hl'] at ha; simp at ha; simp [Spec.doc, ha]
        rw [ha', Agree.ok_eq i2 (Nat.le_refl _)]
        rw [i3] at hx'
        simpa using hx'

/-- `Exclude` over lawful children is lawful (every other method is the trait default) -/
theorem lawful (hU : Lawful U VU WU) (hE : Lawful E VE WE) :
    Lawful (ds U E) (V VU VE WE) (defaultW (V VU VE WE)) :=
  lawful_ofCore _ _ _ _ _ (core hU hE)

/-- `Exclude::new` establishes the invariant -/
theorem newLoop_law (hU : Lawful U VU WU) (hE : Lawful E VE WE) :
    ∀ (fuel : Nat) {s : State σ τ} {lu : List Nat} {les : List (List Nat)} {c0 : Nat},
      lu.length ≤ fuel → VU s.u lu → ES VE WE c0 s.excl les → c0 ≤ Spec.doc lu →
      V VU VE WE (newLoop U E fuel s) (lu.filter (ok les)) := by
  intro fuel
  induction fuel with
  | zero =>
    intro s lu les c0 hl hV hES hc
    have : lu = [] := List.eq_nil_of_length_eq_zero (Nat.le_zero.mp hl)
    subst this
    exact ⟨[], les, hV, hES.mono hc, by simp, rfl⟩
  | succ n ih =>
    intro s lu les c0 hl hV hES hc
    have hs := hU.sorted hV
    have hd := hU.doc_eq hV
    simp only [newLoop]
    by_cases hT : U.doc s.u = TERMINATED
    · simp only [hT, if_true]
      have hnil : lu = [] := (Spec.doc_eq_term_iff hs).mp (by rw [← hd]; exact hT)
      subst hnil
      exact ⟨[], les, hV, hES.mono hc, by simp, rfl⟩
    · simp only [hT, if_false]
      have hcle : U.doc s.u ≤ TERMINATED := by rw [hd]; exact Spec.doc_le hs
      obtain ⟨les', i1, i2, i3⟩ := contains_law hE hcle (hES.mono (by rw [hd]; exact hc))
      have hge := all_ge_doc hs
      rw [← hd] at hge
      have hne : lu ≠ [] := by
        intro h0; rw [h0] at hd; exact hT hd
      obtain ⟨c, m, hcm⟩ := List.exists_cons_of_ne_nil hne
      have hcdoc : U.doc s.u = c := by rw [hd, hcm]; rfl
      by_cases hx : (contains E (U.doc s.u) s.excl).1 = true
      · simp only [hx, if_true]
        have hV' := hU.advance hV
        simp only [Spec.advance] at hV'
        have h := ih (s := { u := U.advance s.u, excl := (contains E (U.doc s.u) s.excl).2 })
          (by have : lu.tail.length = lu.length - 1 := List.length_tail; omega) hV'
          (i1.mono (by rw [hd]; exact doc_le_doc_tail hs)) (Nat.le_refl _)
        have hok : ok les c = false := by
          rw [hcdoc] at i3 hx; rw [i3] at hx; simpa using hx
        rw [hcm] at h hge ⊢
        simp only [List.tail_cons] at h
        rw [Agree.filter_eq i2 (fun x hx' => hge x (List.mem_cons_of_mem _ hx'))] at h
        simpa [List.filter_cons, hok] using h
      · simp only [hx, if_false]
        have hx' : (contains E (U.doc s.u) s.excl).1 = false := by simpa using hx
        refine ⟨lu, les', hV, by rw [← hd]; exact i1, ?_, (Agree.filter_eq i2 hge).symm⟩
        intro a ha
        have ha' : a = U.doc s.u := by rw [hcdoc]; rw [hcm] at ha; simpa using ha.symm
        rw [ha', Agree.ok_eq i2 (Nat.le_refl _)]
        rw [i3] at hx'
        simpa using hx'

theorem new_V (hU : Lawful U VU WU) (hE : Lawful E VE WE) {u : σ} {es : List τ} {lu : List Nat}
    {les : List (List Nat)} (hu : VU u lu) (hes : All2 VE es les) :
    V VU VE WE (new U E u es) (lu.filter (ok les)) := by
  have hlen : lu.length ≤ FUEL := by have := (hU.sorted hu).length_le; unfold FUEL; omega
  have hES : ES VE WE 0 es les := by
    unfold ES
    induction hes with
    | nil => exact All2.nil
    | cons h1 _ ih => exact All2.cons (Or.inl h1) ih
  exact newLoop_law hU hE FUEL (s := { u := u, excl := es }) hlen hu hES (Nat.zero_le _)

end TantivyModel.DocSet.Exclude
