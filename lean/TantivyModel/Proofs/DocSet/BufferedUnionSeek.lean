import TantivyModel.Proofs.DocSet.BufferedUnion
/-! `BufferedUnionScorer::seek`: the buffered (in-horizon) branch and the far branch -/
namespace TantivyModel.DocSet

/-- the `advance` loop of a seek needs only as much fuel as there are documents below the target -/
theorem loopSeek_law' {σ : Type} {doc : σ → Nat} {adv : σ → σ} {V : σ → List Nat → Prop}
    (hC : Core0 doc adv V) {t : Nat} (ht : t ≤ TERMINATED) :
    ∀ (fuel : Nat) {s : σ} {l : List Nat}, V s l → (l.takeWhile (· < t)).length + 1 ≤ fuel →
      V (loopSeek doc adv t fuel s) (Spec.seek t l) := by
  intro fuel
  induction fuel with
  | zero => intro s l _ hf; omega
  | succ n ih =>
    intro s l hV hf
    have hd := hC.doc_eq hV
    have hs := hC.sorted hV
    simp only [loopSeek]
    by_cases hlt : doc s < t
    · simp only [hlt, if_true]
      cases l with
      | nil => simp only [Spec.doc, List.headD_nil] at hd; omega
      | cons a m =>
        simp only [Spec.doc, List.headD_cons] at hd
        have hat : a < t := by omega
        have hV' := hC.advance hV
        simp only [Spec.advance, List.tail_cons] at hV'
        have := ih hV' (by simpa [List.takeWhile_cons, hat] using hf)
        simpa [Spec.seek, List.dropWhile_cons, hat] using this
    · simp only [hlt, if_false]
      rw [Spec.seek_of_le (by rw [← hd]; omega) hs]
      exact hV

namespace BUnion
variable {σ : Type} {C : DS σ} {VC : σ → List Nat → Prop} {WC : σ → Nat → List Nat → Prop}

theorem seekLoop_eq (H t : Nat) : ∀ (n : Nat) (s : State σ),
    seekLoop C H t n s = loopSeek (fun s : State σ => s.doc) (advance C H) t n s
  | 0, _ => rfl
  | n + 1, s => by
    simp only [seekLoop, loopSeek]
    split
    · exact seekLoop_eq H t n _
    · rfl

theorem inHorizonGap_eq (gap H : Nat) : inHorizonGap gap H = decide (gap < H) := by
  unfold inHorizonGap
  simp [show Gen.UNION_SEEK_IN_HORIZON_STRICT = 1 from rfl]

theorem window_length_le {H : Nat} {w : List Nat} (hp : w.Pairwise (· < ·)) (hb : ∀ δ ∈ w, δ < H) :
    w.length ≤ H := by
  have := length_le_of_sorted (lo := 0) (N := H) hp (fun _ _ => Nat.zero_le _) hb
  omega

/-- the buffered branch of `seek`: drop the whole buckets below the target's bucket, then advance -/
theorem seek_in_horizon (hC : Lawful C VC WC) (hscore : ∀ {c l}, VC c l → VC (C.score c).2 l)
    {H : Nat} (hH : 64 ∣ H) (hH0 : 0 < H) {s : State σ} {l : List Nat} {t : Nat}
    (hV : V VC H s l) (hdt : s.doc < t) (ht : t ≤ TERMINATED) (hgap : t - s.ws < H) :
    V VC H (seekLoop C H t (H + 2)
      { s with window := s.window.filter (fun δ => !(decide (s.bucketIdx ≤ δ / 64) && decide (δ / 64 < (t - s.ws) / 64))),
               scores := if s.sum then clearScores s.scores (s.bucketIdx * 64) ((t - s.ws) / 64 * 64) else s.scores,
               bucketIdx := (t - s.ws) / 64 }) (Spec.seek t l) := by
  obtain ⟨ls, U, h2, hne, hU, hwp, hwb, hUh, hsl, hcase⟩ := hV
  rcases hcase with ⟨hT, _, _, _⟩ | ⟨hws, hdH, hlt, rfl⟩
  · omega
  · -- the filtered window keeps exactly the deltas in buckets ≥ the target's
    have hkeep : ∀ δ ∈ s.window, (!(decide (s.bucketIdx ≤ δ / 64) && decide (δ / 64 < (t - s.ws) / 64))) = true ↔
        (t - s.ws) / 64 ≤ δ / 64 := by
      intro δ hδ
      have := (hwb δ hδ).2
      simp only [Bool.not_eq_true', Bool.and_eq_false_iff, decide_eq_false_iff_not]
      constructor
      · rintro (h | h) <;> omega
      · intro h; exact Or.inr (by omega)
    let w' := s.window.filter (fun δ => !(decide (s.bucketIdx ≤ δ / 64) && decide (δ / 64 < (t - s.ws) / 64)))
    have hw'mem : ∀ δ, δ ∈ w' ↔ δ ∈ s.window ∧ (t - s.ws) / 64 ≤ δ / 64 := by
      intro δ
      simp only [w', List.mem_filter]
      constructor
      · rintro ⟨a, b⟩; exact ⟨a, (hkeep δ a).mp b⟩
      · rintro ⟨a, b⟩; exact ⟨a, (hkeep δ a).mpr b⟩
    -- the state after dropping the buckets is valid for the shortened sequence
    have hl1s : Sorted (s.doc :: (w'.map (s.ws + ·) ++ U)) := by
      refine ⟨?_, ?_⟩
      · refine hsl.1.sublist ?_
        exact List.Sublist.cons_cons _ (List.Sublist.append (List.Sublist.map _ List.filter_sublist) (List.Sublist.refl _))
      · intro x hx
        apply hsl.2 x
        rcases List.mem_cons.mp hx with rfl | hx'
        · simp
        · rcases List.mem_append.mp hx' with h | h
          · obtain ⟨δ, hδ, rfl⟩ := List.mem_map.mp h
            exact List.mem_cons_of_mem _ (List.mem_append_left _ (List.mem_map_of_mem ((hw'mem δ).mp hδ).1))
          · exact List.mem_cons_of_mem _ (List.mem_append_right _ h)
    have hV1 : V VC H ({ s with window := w', scores := (if s.sum then clearScores s.scores (s.bucketIdx * 64) ((t - s.ws) / 64 * 64) else s.scores), bucketIdx := (t - s.ws) / 64 } : State σ)
        (s.doc :: (w'.map (s.ws + ·) ++ U)) := by
      refine ⟨ls, U, h2, hne, hU, hwp.sublist List.filter_sublist, ?_, hUh, hl1s, Or.inr ⟨hws, hdH, ?_, rfl⟩⟩
      · intro δ hδ
        have := (hw'mem δ).mp hδ
        exact ⟨(hwb δ this.1).1, this.2⟩
      · intro δ hδ
        exact hlt δ ((hw'mem δ).mp hδ).1
    -- the advance loop
    have hfuel : ((s.doc :: (w'.map (s.ws + ·) ++ U)).takeWhile (· < t)).length + 1 ≤ H + 2 := by
      have h1 : ((s.doc :: (w'.map (s.ws + ·) ++ U)).takeWhile (· < t)).length ≤ 1 + w'.length := by
        have hsub : ((w'.map (s.ws + ·) ++ U).takeWhile (· < t)).length ≤ (w'.map (s.ws + ·)).length := by
          rw [List.takeWhile_append]
          split
          · rename_i hall
            -- nothing of U is below t
            have : U.takeWhile (· < t) = [] := by
              cases U with
              | nil => rfl
              | cons a m =>
                have := hUh a (by simp)
                have : ¬ a < t := by omega
                simp [List.takeWhile_cons, this]
            simp [this]
          · exact (List.takeWhile_sublist _).length_le
        simp only [List.takeWhile_cons, hdt, decide_true, if_true, List.length_cons, List.length_map] at hsub ⊢
        omega
      have h2 : w'.length ≤ H := window_length_le (hwp.sublist List.filter_sublist)
        (fun δ hδ => (hwb δ ((hw'mem δ).mp hδ).1).1)
      omega
    have hloop := loopSeek_law' (core0 hC hscore hH hH0) ht (H + 2) hV1 hfuel
    rw [seekLoop_eq]
    -- the dropped documents were all below the target
    have heq : Spec.seek t (s.doc :: (w'.map (s.ws + ·) ++ U)) = Spec.seek t (s.doc :: (s.window.map (s.ws + ·) ++ U)) := by
      apply Sorted.ext (hl1s.seek t) (hsl.seek t)
      intro x
      rw [Spec.mem_seek hl1s, Spec.mem_seek hsl]
      simp only [List.mem_cons, List.mem_append, List.mem_map]
      constructor
      · rintro ⟨(h | ⟨δ, hδ, rfl⟩ | h), hx⟩
        · exact ⟨Or.inl h, hx⟩
        · exact ⟨Or.inr (Or.inl ⟨δ, ((hw'mem δ).mp hδ).1, rfl⟩), hx⟩
        · exact ⟨Or.inr (Or.inr h), hx⟩
      · rintro ⟨(h | ⟨δ, hδ, rfl⟩ | h), hx⟩
        · exact ⟨Or.inl h, hx⟩
        · refine ⟨Or.inr (Or.inl ⟨δ, (hw'mem δ).mpr ⟨hδ, ?_⟩, rfl⟩), hx⟩
          exact Nat.div_le_div_right (by omega)
        · exact ⟨Or.inr (Or.inr h), hx⟩
    rw [← heq]
    exact hloop

/-- `refill` on an empty window then `advance_buffered`, with the success of the latter exposed -/
theorem refill_pop_law' (hC : Lawful C VC WC) (hscore : ∀ {c l}, VC c l → VC (C.score c).2 l)
    {H : Nat} (hH : 64 ∣ H) (hH0 : 0 < H) {s' : State σ} {ls : List (List Nat)} {U : List Nat}
    (e2 : s'.window = []) (h2 : All2 VC s'.docsets ls) (hne : ∀ li ∈ ls, li ≠ [])
    (hU : SimpleUnion.IsUnion U ls) :
    match refill C H s' with
      | none => ls = []
      | some s'' => ∃ s3, advBuf H (NB H + 1) s'' = (true, s3) ∧ V VC H s3 U := by
    unfold refill
    rw [all2_isEmpty h2]
    cases ls with
    | nil =>
      -- every child is exhausted: the end
      have hUnil := isUnion_nil hU
      simp only [List.isEmpty_nil, if_true]
    | cons li0 ls0 =>
      simp only [List.isEmpty_cons, Bool.false_eq_true, if_false]
      have hUs := hU.1
      have hss := SimpleUnion.all2_sorted hC h2
      have hmdoc : minDoc C s'.docsets = Spec.doc U := by
        rw [minDoc_eq hC h2, SimpleUnion.doc_union hU hss]
      -- U is not empty
      have hUne : U ≠ [] := by
        obtain ⟨a, m, ham⟩ := List.exists_cons_of_ne_nil (hne li0 (by simp))
        intro h0
        have : a ∈ U := (hU.2 a).mpr ⟨li0, by simp, by rw [ham]; simp⟩
        rw [h0] at this; cases this
      obtain ⟨m, Ut, hUm⟩ := List.exists_cons_of_ne_nil hUne
      have hm : Spec.doc U = m := by rw [hUm]; rfl
      have hmin : ∀ li ∈ (li0 :: ls0), li ≠ [] ∧ ∀ x ∈ li, m ≤ x := by
        intro li hli
        refine ⟨hne li hli, fun x hx => ?_⟩
        have : x ∈ U := (hU.2 x).mpr ⟨li, hli, hx⟩
        rw [← hm]; exact Exclude.all_ge_doc hUs x this
      obtain ⟨ls', r1, r2, r3, r4, r5⟩ := refillAll_law hC hscore (H := H) (m := m) (sum := s'.sum) h2 hmin
        (w := s'.window) (sc := s'.scores) (by rw [e2]; exact List.Pairwise.nil)
      rw [hmdoc, hm]
      -- the refilled window
      generalize hrw : (refillAll C H m s'.sum s'.docsets s'.window s'.scores) = r at r1 r4 r5
      rcases r with ⟨cs', w', sc'⟩
      simp only at r1 r4 r5
      have hwmem : ∀ δ, δ ∈ w' ↔ ∃ x ∈ U, x < m + H ∧ δ = x - m := by
        intro δ
        rw [r5 δ, e2]
        simp only [List.not_mem_nil, false_or]
        constructor
        · rintro ⟨li, hli, x, hx, h1, h2'⟩; exact ⟨x, (hU.2 x).mpr ⟨li, hli, hx⟩, h1, h2'⟩
        · rintro ⟨x, hx, h1, h2'⟩
          obtain ⟨li, hli, hx'⟩ := (hU.2 x).mp hx
          exact ⟨li, hli, x, hx', h1, h2'⟩
      -- its head is delta 0
      have h0mem : 0 ∈ w' := (hwmem 0).mpr ⟨m, by rw [hUm]; simp, by omega, by omega⟩
      obtain ⟨d0, w'', hw'⟩ := List.exists_cons_of_ne_nil (List.ne_nil_of_mem h0mem)
      have hd0 : d0 = 0 := by
        rw [hw'] at h0mem r4
        rcases List.mem_cons.mp h0mem with h | h
        · exact h.symm
        · have := (List.pairwise_cons.mp r4).1 0 h; omega
      subst hd0
      have hp'' := List.pairwise_cons.mp (hw' ▸ r4)
      obtain ⟨s3, f1, f2, f3, f4, f5, f6, _⟩ := advBuf_pop (H := H) (δ := 0) (w := w'') 0
        { s' with ws := m, bucketIdx := 0, doc := m, docsets := cs', window := w', scores := sc' }
        hw' (hw' ▸ r4) (fun x _ => Nat.zero_le _) (div64_lt hH hH0) rfl (NB H + 1) (by omega)
      refine ⟨s3, f1, ?_⟩
      simp only at f2 f3 f4 f5 f6
      -- the new remaining lists and their union
      have hU' : SimpleUnion.IsUnion (Spec.seek (m + H) U) ls' := by
        refine ⟨hUs.seek _, fun x => ?_⟩
        rw [Spec.mem_seek hUs, r3 x]
        constructor
        · rintro ⟨hx, hge⟩
          obtain ⟨li, hli, hx'⟩ := (hU.2 x).mp hx
          exact ⟨li, hli, hx', hge⟩
        · rintro ⟨li, hli, hx, hge⟩
          exact ⟨(hU.2 x).mpr ⟨li, hli, hx⟩, hge⟩
      -- members of the window tail
      have hw''mem : ∀ δ ∈ w'', 0 < δ ∧ δ < H ∧ m + δ ∈ U := by
        intro δ hδ
        have hpos := hp''.1 δ hδ
        obtain ⟨x, hx, h1, h2'⟩ := (hwmem δ).mp (by rw [hw']; exact List.mem_cons_of_mem _ hδ)
        have hmx : m ≤ x := by rw [← hm]; exact Exclude.all_ge_doc hUs x hx
        refine ⟨hpos, by omega, ?_⟩
        have : m + δ = x := by omega
        rw [this]; exact hx
      -- U = m :: window tail ++ the part beyond the horizon
      have hUeq : U = (m + 0) :: (w''.map (m + ·) ++ Spec.seek (m + H) U) := by
        have hmemR : ∀ x, x ∈ (m + 0) :: (w''.map (m + ·) ++ Spec.seek (m + H) U) ↔ x ∈ U := by
          intro x
          simp only [List.mem_cons, List.mem_append, List.mem_map, Nat.add_zero]
          constructor
          · rintro (rfl | ⟨δ, hδ, rfl⟩ | hx)
            · rw [hUm]; simp
            · exact (hw''mem δ hδ).2.2
            · exact ((Spec.mem_seek hUs x).mp hx).1
          · intro hx
            have hmx : m ≤ x := by rw [← hm]; exact Exclude.all_ge_doc hUs x hx
            by_cases hge : m + H ≤ x
            · exact Or.inr (Or.inr ((Spec.mem_seek hUs x).mpr ⟨hx, hge⟩))
            · have hin : x - m ∈ w' := (hwmem (x - m)).mpr ⟨x, hx, by omega, rfl⟩
              rw [hw'] at hin
              rcases List.mem_cons.mp hin with h | h
              · exact Or.inl (by omega)
              · exact Or.inr (Or.inl ⟨x - m, h, by omega⟩)
        have hpwR : ((m + 0) :: (w''.map (m + ·) ++ Spec.seek (m + H) U)).Pairwise (· < ·) := by
          refine List.pairwise_cons.mpr ⟨?_, ?_⟩
          · intro x hx
            rcases List.mem_append.mp hx with h | h
            · obtain ⟨δ, hδ, rfl⟩ := List.mem_map.mp h
              have := (hw''mem δ hδ).1; omega
            · have := ((Spec.mem_seek hUs x).mp h).2; omega
          · refine List.pairwise_append.mpr ⟨?_, (hUs.seek _).1, ?_⟩
            · exact List.pairwise_map.mpr (hp''.2.imp (fun h => by omega))
            · intro a ha b hb
              obtain ⟨δ, hδ, rfl⟩ := List.mem_map.mp ha
              have := (hw''mem δ hδ).2.1
              have := ((Spec.mem_seek hUs b).mp hb).2
              omega
        exact (pairwise_ext hpwR hUs.1 hmemR).symm
      refine ⟨ls', Spec.seek (m + H) U, ?_, r2, hU', ?_, ?_, ?_, hUs, Or.inr ⟨by rw [f3, f5]; omega, by rw [f3, f5]; omega, ?_, ?_⟩⟩
      · rw [f6]; exact r1
      · rw [f2]; exact hp''.2
      · intro δ hδ
        rw [f2] at hδ
        rw [f4]
        exact ⟨(hw''mem δ hδ).2.1, by simp⟩
      · intro x hx
        rw [f5]
        exact ((Spec.mem_seek hUs x).mp hx).2
      · intro δ hδ
        rw [f2] at hδ
        rw [f3, f5]
        have := (hw''mem δ hδ).1; omega
      · rw [f2, f3, f5]; exact hUeq




theorem filter_nonempty (hC : Lawful C VC WC) {cs : List σ} {ls : List (List Nat)} (h : All2 VC cs ls) :
    ∃ ls', All2 VC (cs.filter (fun c => C.doc c != TERMINATED)) ls' ∧ (∀ li ∈ ls', li ≠ [])
      ∧ ∀ x, (∃ li ∈ ls', x ∈ li) ↔ ∃ li ∈ ls, x ∈ li := by
  induction h with
  | nil => exact ⟨[], All2.nil, by simp, fun _ => Iff.rfl⟩
  | @cons c li cs lis h1 _ ih =>
    obtain ⟨ls', i1, i2, i3⟩ := ih
    simp only [List.filter_cons]
    by_cases hT : C.doc c = TERMINATED
    · have hnil : li = [] := (Spec.doc_eq_term_iff (hC.sorted h1)).mp (by rw [← hC.doc_eq h1]; exact hT)
      refine ⟨ls', by simpa [hT] using i1, i2, fun x => ?_⟩
      rw [i3 x]
      constructor
      · rintro ⟨a, ha, hx⟩; exact ⟨a, List.mem_cons_of_mem _ ha, hx⟩
      · rintro ⟨a, ha, hx⟩
        rcases List.mem_cons.mp ha with rfl | ha'
        · rw [hnil] at hx; cases hx
        · exact ⟨a, ha', hx⟩
    · have hne : li ≠ [] := by
        intro h0; rw [h0] at h1; exact hT (by rw [hC.doc_eq h1]; rfl)
      refine ⟨li :: ls', by simpa [hT] using All2.cons h1 i1, ?_, fun x => ?_⟩
      · intro lj hlj
        rcases List.mem_cons.mp hlj with rfl | h'
        · exact hne
        · exact i2 lj h'
      · constructor
        · rintro ⟨a, ha, hx⟩
          rcases List.mem_cons.mp ha with rfl | ha'
          · exact ⟨a, by simp, hx⟩
          · obtain ⟨b, hb, hx'⟩ := (i3 x).mp ⟨a, ha', hx⟩
            exact ⟨b, List.mem_cons_of_mem _ hb, hx'⟩
        · rintro ⟨a, ha, hx⟩
          rcases List.mem_cons.mp ha with rfl | ha'
          · exact ⟨a, by simp, hx⟩
          · obtain ⟨b, hb, hx'⟩ := (i3 x).mpr ⟨a, ha', hx⟩
            exact ⟨b, List.mem_cons_of_mem _ hb, hx'⟩

/-- children re-validated by `seek(max(doc, t))` are valid for `seek t` of their lists -/
theorem revalidate_all (hC : Lawful C VC WC) {t : Nat} (ht : t ≤ TERMINATED) {cs : List σ}
    {ls : List (List Nat)} (h : All2 VC cs ls) :
    All2 VC (cs.map (fun c => C.seek (max (C.doc c) t) c)) (ls.map (Spec.seek t)) := by
  induction h with
  | nil => exact All2.nil
  | @cons c li cs lis h1 _ ih =>
    refine All2.cons ?_ ih
    have hs := hC.sorted h1
    have hd := hC.doc_eq h1
    have hdT : C.doc c ≤ TERMINATED := by rw [hd]; exact Spec.doc_le hs
    have hV := hC.seek h1 (Nat.le_max_left (C.doc c) t) (Nat.max_le.mpr ⟨hdT, ht⟩)
    have e : Spec.seek (max (C.doc c) t) li = Spec.seek t li := by
      by_cases hlt : C.doc c ≤ t
      · rw [Nat.max_eq_right hlt]
      · have hgt : t ≤ C.doc c := by omega
        rw [Nat.max_eq_left hgt, Spec.seek_of_le (by rw [← hd]; exact Nat.le_refl _) hs,
          Spec.seek_of_le (by rw [← hd]; exact hgt) hs]
    show VC (C.seek (max (C.doc c) t) c) (Spec.seek t li)
    rw [← e]; exact hV

theorem revalidate_guard : decide (Gen.UNION_SEEK_REVALIDATES_CHILDREN = 1) = true := by decide

/-- `BufferedUnionScorer::seek` (the code as it is now: children re-validated in the far branch) -/
theorem seek_law (hC : Lawful C VC WC) (hscore : ∀ {c l}, VC c l → VC (C.score c).2 l)
    {H : Nat} (hH : 64 ∣ H) (hH0 : 0 < H) (fx : Fix) {s : State σ} {l : List Nat} {t : Nat}
    (hV : V VC H s l) (hd : s.doc ≤ t) (ht : t ≤ TERMINATED) :
    V VC H (seek fx C H t s) (Spec.seek t l) := by
  have hcore := core0 hC hscore hH hH0
  have hsl := hcore.sorted hV
  have hdoc := hcore.doc_eq hV
  unfold seek
  by_cases hge : s.doc ≥ t
  · simp only [hge, if_true]
    rw [Spec.seek_of_le (by rw [← hdoc]; exact hge) hsl]
    exact hV
  · simp only [hge, if_false]
    have hdt : s.doc < t := by omega
    rw [inHorizonGap_eq]
    by_cases hgap : t - s.ws < H
    · simp only [hgap, decide_true, if_true]
      exact seek_in_horizon hC hscore hH hH0 hV hdt ht hgap
    · simp only [hgap, decide_false, Bool.false_eq_true, if_false, revalidate_guard, Bool.or_true, if_true]
      obtain ⟨ls, U, h2, hne, hU, hwp, hwb, hUh, _, hcase⟩ := hV
      rcases hcase with ⟨hT, _, _, _⟩ | ⟨hws, hdH, hlt, rfl⟩
      · omega
      · have htfar : s.ws + H ≤ t := by omega
        have hss := SimpleUnion.all2_sorted hC h2
        have hUs := hU.1
        -- the remaining sequence from t on is the union's part from t on
        have hseekl : Spec.seek t (s.doc :: (s.window.map (s.ws + ·) ++ U)) = Spec.seek t U := by
          apply Sorted.ext (hsl.seek t) (hUs.seek t)
          intro x
          rw [Spec.mem_seek hsl, Spec.mem_seek hUs]
          simp only [List.mem_cons, List.mem_append, List.mem_map]
          constructor
          · rintro ⟨(h | ⟨δ, hδ, rfl⟩ | h), hx⟩
            · omega
            · have := (hwb δ hδ).1; omega
            · exact ⟨h, hx⟩
          · rintro ⟨h, hx⟩; exact ⟨Or.inr (Or.inr h), hx⟩
        rw [hseekl]
        have h2' := revalidate_all hC ht h2
        obtain ⟨ls', i1, i2, i3⟩ := filter_nonempty hC h2'
        have hU' : SimpleUnion.IsUnion (Spec.seek t U) ls' := by
          refine ⟨hUs.seek t, fun x => ?_⟩
          rw [Spec.mem_seek hUs, i3 x, hU.2 x]
          constructor
          · rintro ⟨⟨li, hli, hx⟩, hge'⟩
            exact ⟨Spec.seek t li, List.mem_map_of_mem hli, (Spec.mem_seek (hss li hli) x).mpr ⟨hx, hge'⟩⟩
          · rintro ⟨li', hli', hx⟩
            obtain ⟨li, hli, rfl⟩ := List.mem_map.mp hli'
            have := (Spec.mem_seek (hss li hli) x).mp hx
            exact ⟨⟨li, hli, this.1⟩, this.2⟩
        have key := refill_pop_law' hC hscore hH hH0
          (s' := ({ s with window := [], scores := (if s.sum then Array.replicate s.scores.size 0 else s.scores), docsets := (s.docsets.map (fun c => C.seek (max (C.doc c) t) c)).filter (fun c => C.doc c != TERMINATED) } : State σ))
          rfl i1 i2 hU'
        revert key
        generalize refill C H ({ s with window := [], scores := (if s.sum then Array.replicate s.scores.size 0 else s.scores), docsets := (s.docsets.map (fun c => C.seek (max (C.doc c) t) c)).filter (fun c => C.doc c != TERMINATED) } : State σ) = r
        cases r with
        | none =>
          intro hnil
          simp only at hnil ⊢
          subst hnil
          have hUnil := isUnion_nil hU'
          rw [hUnil]
          exact ⟨[], [], i1, by simp, ⟨Sorted.nil, by simp⟩, List.Pairwise.nil, by simp, by simp, Sorted.nil,
            Or.inl ⟨rfl, rfl, rfl, rfl⟩⟩
        | some s2 =>
          rintro ⟨s3, f1, hV3⟩
          simp only [advance, f1]
          exact hV3

theorem core (hC : Lawful C VC WC) (hscore : ∀ {c l}, VC c l → VC (C.score c).2 l)
    {H : Nat} (hH : 64 ∣ H) (hH0 : 0 < H) (fx : Fix) :
    Core (fun s : State σ => s.doc) (advance C H) (seek fx C H) (V VC H) where
  toCore0 := core0 hC hscore hH hH0
  seek := fun h hd ht => seek_law hC hscore hH hH0 fx h hd ht


/-- what `refill` does on an empty window (without the following pop) -/
theorem refill_law (hC : Lawful C VC WC) (hscore : ∀ {c l}, VC c l → VC (C.score c).2 l)
    {H : Nat} (hH0 : 0 < H) {s' : State σ} {ls : List (List Nat)} {U : List Nat}
    (e2 : s'.window = []) (h2 : All2 VC s'.docsets ls) (hne : ∀ li ∈ ls, li ≠ [])
    (hU : SimpleUnion.IsUnion U ls) :
    match refill C H s' with
      | none => ls = []
      | some s'' => ∃ ls' m, U ≠ [] ∧ m = Spec.doc U ∧ All2 VC s''.docsets ls' ∧ (∀ li ∈ ls', li ≠ [])
          ∧ SimpleUnion.IsUnion (Spec.seek (m + H) U) ls' ∧ s''.window.Pairwise (· < ·)
          ∧ (∀ δ, δ ∈ s''.window ↔ ∃ x ∈ U, x < m + H ∧ δ = x - m) ∧ s''.ws = m ∧ s''.bucketIdx = 0
          ∧ s''.sum = s'.sum := by
    unfold refill
    rw [all2_isEmpty h2]
    cases ls with
    | nil =>
      -- every child is exhausted: the end
      have hUnil := isUnion_nil hU
      simp only [List.isEmpty_nil, if_true]
    | cons li0 ls0 =>
      simp only [List.isEmpty_cons, Bool.false_eq_true, if_false]
      have hUs := hU.1
      have hss := SimpleUnion.all2_sorted hC h2
      have hmdoc : minDoc C s'.docsets = Spec.doc U := by
        rw [minDoc_eq hC h2, SimpleUnion.doc_union hU hss]
      -- U is not empty
      have hUne : U ≠ [] := by
        obtain ⟨a, m, ham⟩ := List.exists_cons_of_ne_nil (hne li0 (by simp))
        intro h0
        have : a ∈ U := (hU.2 a).mpr ⟨li0, by simp, by rw [ham]; simp⟩
        rw [h0] at this; cases this
      obtain ⟨m, Ut, hUm⟩ := List.exists_cons_of_ne_nil hUne
      have hm : Spec.doc U = m := by rw [hUm]; rfl
      have hmin : ∀ li ∈ (li0 :: ls0), li ≠ [] ∧ ∀ x ∈ li, m ≤ x := by
        intro li hli
        refine ⟨hne li hli, fun x hx => ?_⟩
        have : x ∈ U := (hU.2 x).mpr ⟨li, hli, hx⟩
        rw [← hm]; exact Exclude.all_ge_doc hUs x this
      obtain ⟨ls', r1, r2, r3, r4, r5⟩ := refillAll_law hC hscore (H := H) (m := m) (sum := s'.sum) h2 hmin
        (w := s'.window) (sc := s'.scores) (by rw [e2]; exact List.Pairwise.nil)
      rw [hmdoc, hm]
      -- the refilled window
      generalize hrw : (refillAll C H m s'.sum s'.docsets s'.window s'.scores) = r at r1 r4 r5
      rcases r with ⟨cs', w', sc'⟩
      simp only at r1 r4 r5
      have hwmem : ∀ δ, δ ∈ w' ↔ ∃ x ∈ U, x < m + H ∧ δ = x - m := by
        intro δ
        rw [r5 δ, e2]
        simp only [List.not_mem_nil, false_or]
        constructor
        · rintro ⟨li, hli, x, hx, h1, h2'⟩; exact ⟨x, (hU.2 x).mpr ⟨li, hli, hx⟩, h1, h2'⟩
        · rintro ⟨x, hx, h1, h2'⟩
          obtain ⟨li, hli, hx'⟩ := (hU.2 x).mp hx
          exact ⟨li, hli, x, hx', h1, h2'⟩
      have hU' : SimpleUnion.IsUnion (Spec.seek (m + H) U) ls' := by
        refine ⟨hUs.seek _, fun x => ?_⟩
        rw [Spec.mem_seek hUs, r3 x]
        constructor
        · rintro ⟨hx, hge⟩
          obtain ⟨li, hli, hx'⟩ := (hU.2 x).mp hx
          exact ⟨li, hli, hx', hge⟩
        · rintro ⟨li, hli, hx, hge⟩
          exact ⟨(hU.2 x).mpr ⟨li, hli, hx⟩, hge⟩
      exact ⟨ls', m, hUne, rfl, r1, r2, hU', r4, hwmem, rfl, by simp⟩


/-- the refilled window has as many deltas as the union has documents below the new horizon -/
theorem window_length_eq {U w : List Nat} {m H : Nat} (hUs : Sorted U) (hm : ∀ x ∈ U, m ≤ x)
    (hw : w.Pairwise (· < ·)) (hmem : ∀ δ, δ ∈ w ↔ ∃ x ∈ U, x < m + H ∧ δ = x - m) :
    w.length = (U.takeWhile (· < m + H)).length := by
  have hpw : ((U.takeWhile (· < m + H)).map (· - m)).Pairwise (· < ·) := by
    rw [List.pairwise_map]
    have hp : (U.takeWhile (· < m + H)).Pairwise (· < ·) := hUs.1.sublist (List.takeWhile_sublist _)
    refine hp.imp_of_mem ?_
    intro a b ha hb hab
    have h1 := hm a ((mem_takeWhile_sorted hUs _ a).mp ha).1
    have h2 := hm b ((mem_takeWhile_sorted hUs _ b).mp hb).1
    omega
  have : w = (U.takeWhile (· < m + H)).map (· - m) := by
    apply pairwise_ext hw hpw
    intro δ
    rw [hmem δ, List.mem_map]
    constructor
    · rintro ⟨x, hx, h1, rfl⟩; exact ⟨x, (mem_takeWhile_sorted hUs _ x).mpr ⟨hx, h1⟩, rfl⟩
    · rintro ⟨x, hx, rfl⟩
      have := (mem_takeWhile_sorted hUs _ x).mp hx
      exact ⟨x, this.1, this.2, rfl⟩
  rw [this, List.length_map]

/-- `while self.refill() { count += window; clear }` adds the number of documents of the children -/
theorem countLoop_law (hC : Lawful C VC WC) (hscore : ∀ {c l}, VC c l → VC (C.score c).2 l)
    {H : Nat} (hH0 : 0 < H) :
    ∀ (fuel : Nat) {s : State σ} {cnt : Nat} {ls : List (List Nat)} {U : List Nat},
      U.length + 1 ≤ fuel → s.window = [] → All2 VC s.docsets ls → (∀ li ∈ ls, li ≠ []) →
      SimpleUnion.IsUnion U ls → (countLoop C H fuel s cnt).1 = cnt + U.length := by
  intro fuel
  induction fuel with
  | zero => intro s cnt ls U hf; omega
  | succ n ih =>
    intro s cnt ls U hf hw h2 hne hU
    have key := refill_law hC hscore hH0 hw h2 hne hU
    simp only [countLoop]
    revert key
    generalize refill C H s = r
    cases r with
    | none =>
      intro hnil
      simp only at hnil ⊢
      subst hnil
      rw [isUnion_nil hU]; simp
    | some s' =>
      rintro ⟨ls', m, hUne, hm, r1, r2, hU', r4, r5, _, _, _⟩
      simp only
      have hUs := hU.1
      have hge : ∀ x ∈ U, m ≤ x := by rw [hm]; exact Exclude.all_ge_doc hUs
      have hlen := window_length_eq hUs hge r4 r5
      have hsplit : U.length = (U.takeWhile (· < m + H)).length + (Spec.seek (m + H) U).length := by
        have := congrArg List.length (List.takeWhile_append_dropWhile (p := (· < m + H)) (l := U))
        rw [List.length_append] at this
        exact this.symm
      have hpos : 0 < (U.takeWhile (· < m + H)).length := by
        obtain ⟨a, t, hUm⟩ := List.exists_cons_of_ne_nil hUne
        have ha : m = a := by rw [hm, hUm]; rfl
        rw [hUm, List.takeWhile_cons]
        have : a < m + H := by omega
        simp [this]
      have := ih (s := { s' with window := [] }) (cnt := cnt + s'.window.length) (ls := ls')
        (U := Spec.seek (m + H) U) (by omega) rfl r1 r2 hU'
      rw [this, hlen]
      omega

/-- `count_including_deleted` returns the number of documents still to come (it leaves `doc()`
stale: KNOWN_FINDINGS `C13:union-count-doc-not-terminated`; only the value is claimed) -/
theorem count_law (hC : Lawful C VC WC) (hscore : ∀ {c l}, VC c l → VC (C.score c).2 l)
    {H : Nat} (hH : 64 ∣ H) (hH0 : 0 < H) (fx : Fix) {s : State σ} {l : List Nat} (hV : V VC H s l) :
    (count fx C H s).1 = Spec.count l := by
  obtain ⟨ls, U, h2, hne, hU, hwp, hwb, hUh, hsl, hcase⟩ := hV
  unfold count Spec.count
  rcases hcase with ⟨hT, _, _, rfl⟩ | ⟨_, _, _, rfl⟩
  · simp [hT]
  · have hdT : s.doc ≠ TERMINATED := by
      have := hsl.2 s.doc (by simp); omega
    simp only [hdT, if_false]
    have hfilter : s.window.filter (fun δ => decide (s.bucketIdx ≤ δ / 64) && decide (δ / 64 < NB H)) = s.window := by
      apply List.filter_eq_self.mpr
      intro δ hδ
      have := hwb δ hδ
      have := div64_lt hH this.1
      simp only [Bool.and_eq_true, decide_eq_true_eq]
      omega
    rw [hfilter]
    have hUlen : U.length + 1 ≤ FUEL := by have := hU.1.length_le; unfold FUEL; omega
    rw [countLoop_law hC hscore hH0 FUEL (s := { s with window := [] }) hUlen rfl h2 hne hU]
    simp only [List.length_cons, List.length_append, List.length_map]
    omega


end BUnion
end TantivyModel.DocSet
