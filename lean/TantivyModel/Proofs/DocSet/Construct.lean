import TantivyModel.Proofs.DocSet.BufferedUnionFill
/-! the constructors establish the invariants -/
namespace TantivyModel.DocSet

namespace BUnion
variable {σ : Type} {C : DS σ} {VC : σ → List Nat → Prop} {WC : σ → Nat → List Nat → Prop}

/-- `BufferedUnionScorer::build` over valid children enumerates their sorted union -/
theorem build_V (hC : Lawful C VC WC) (hscore : ∀ {c l}, VC c l → VC (C.score c).2 l)
    {H : Nat} (hH : 64 ∣ H) (hH0 : 0 < H) (sum : Bool) {cs : List σ} {ls : List (List Nat)} {U : List Nat}
    (h : All2 VC cs ls) (hU : SimpleUnion.IsUnion U ls) : V VC H (build C H sum cs) U := by
  obtain ⟨ls', i1, i2, i3⟩ := filter_nonempty hC h
  have hU' : SimpleUnion.IsUnion U ls' := ⟨hU.1, fun x => by rw [hU.2 x, i3 x]⟩
  unfold build
  have key := refill_pop_law' hC hscore hH hH0
    (s' := ({ docsets := cs.filter (fun c => C.doc c != TERMINATED), window := [], bucketIdx := NB H, scores := Array.replicate H 0, ws := 0, doc := 0, score := 0, sum := sum } : State σ))
    rfl i1 i2 hU'
  revert key
  simp only
  generalize refill C H ({ docsets := cs.filter (fun c => C.doc c != TERMINATED), window := [], bucketIdx := NB H, scores := Array.replicate H 0, ws := 0, doc := 0, score := 0, sum := sum } : State σ) = r
  cases r with
  | none =>
    intro hnil
    simp only at hnil ⊢
    subst hnil
    rw [isUnion_nil hU']
    exact ⟨[], [], i1, by simp, ⟨Sorted.nil, by simp⟩, List.Pairwise.nil, by simp, by simp, Sorted.nil,
      Or.inl ⟨rfl, rfl, rfl, rfl⟩⟩
  | some s1 =>
    rintro ⟨s3, f1, hV3⟩
    simp only [advance, f1]
    exact hV3

end BUnion

namespace Inter
variable {σ : Type} {C : DS σ} {VC : σ → List Nat → Prop} {WC : σ → Nat → List Nat → Prop}

theorem all2_V_DSt {c : Nat} {es : List σ} {les : List (List Nat)} (h : All2 VC es les) :
    All2 (DSt VC WC c) es les := by
  induction h with
  | nil => exact All2.nil
  | cons a _ ih => exact All2.cons (Or.inl a) ih

/-- `Intersection::new` (`go_to_first_doc` over valid children) enumerates the common documents -/
theorem new_V (hC : Lawful C VC WC) (dense : Bool) {l r : σ} {os : List σ} {ll lr : List Nat}
    {los : List (List Nat)} (hL' : VC l ll) (hR0 : VC r lr) (hO0 : All2 VC os los) :
    V VC WC (new C dense l r os) (Common ll lr los) := by
  have hR : DSt VC WC (Spec.doc ll) r lr := Or.inl hR0
  have hO : All2 (DSt VC WC (Spec.doc ll)) os los := all2_V_DSt hO0
  have hsr := hR.sorted hC
  have hsl' := hC.sorted hL'
  have hdl' := hC.doc_eq hL'
  -- the children as a list
  have hall : All2 (DSt VC WC (Spec.doc (ll))) (l :: r :: os) (ll :: lr :: los) :=
    All2.cons (Or.inl hL') (All2.cons hR hO)
  have hslist : ∀ lo ∈ (ll :: lr :: los), Sorted lo := by
    intro lo hlo
    rcases List.mem_cons.mp hlo with rfl | h'
    · exact hsl'
    · rcases List.mem_cons.mp h' with rfl | h''
      · exact hsr
      · exact all2_DSt_sorted hC hO lo h''
  let es := l :: r :: os
  have hc0t' : Spec.doc (ll) ≤ maxDoc C es := by rw [← hdl']; exact maxDoc_ge C es _ (by simp [es])
  have hc0T : maxDoc C es ≤ TERMINATED := by
    apply maxDoc_le
    intro e he
    -- every (weak) doc is below the end marker
    have : ∀ {es' : List σ} {les' : List (List Nat)}, All2 (DSt VC WC (Spec.doc (ll))) es' les' → ∀ e ∈ es', C.doc e ≤ TERMINATED := by
      intro es' les' h
      induction h with
      | nil => intro e he; cases he
      | cons h1 _ ih =>
        intro e he
        rcases List.mem_cons.mp he with rfl | h'
        · exact Nat.le_trans (h1.doc_le hC) (Spec.doc_le (h1.sorted hC))
        · exact ih e h'
    exact this hall e he
  have hPS := all2_DSt_PS (C := C) hc0t' hall (maxDoc_ge C es)
  obtain ⟨cf, j1, j2, j3, j4, j5, j6⟩ := goLoop_law hC FUEL (c := maxDoc C es) (by unfold FUEL; omega) hc0T hPS
  -- shape of the result
  simp only [new, goToFirstDoc, toList]
  show V VC WC (ofList dense _ (goLoop C FUEL (maxDoc C es) es).2) _
  generalize (goLoop C FUEL (maxDoc C es) es).2 = esf at j4
  simp only [List.map_cons] at j4
  cases j4 with
  | cons hLf j4' =>
    cases j4' with
    | cons hRf hOf =>
      simp only [ofList]
      have hdl : Spec.doc (Spec.seek cf (ll)) = cf := j5 _ (by simp)
      have hdr : Spec.doc (Spec.seek cf lr) = cf := j5 _ (by simp)
      have hdo : ∀ lo ∈ los, Spec.doc (Spec.seek cf lo) = cf := fun lo hlo => j5 lo (by simp [hlo])
      refine ⟨Spec.seek cf (ll), Spec.seek cf lr, los.map (Spec.seek cf), hLf, ?_, ?_, ?_, ?_⟩
      · exact Or.inl ⟨hRf, by rw [hdl, hdr]; exact Nat.le_refl _⟩
      · apply all2_V_CS hOf
        intro lo' hlo'
        obtain ⟨lo, hlo, rfl⟩ := List.mem_map.mp hlo'
        rw [hdl, hdo lo hlo]; exact Nat.le_refl _
      · intro hne
        have hlt : cf < TERMINATED := by
          rw [← hdl]
          obtain ⟨a, m, ham⟩ := List.exists_cons_of_ne_nil hne
          rw [ham]; simp only [Spec.doc, List.headD_cons]
          exact ((hsl'.seek cf).2 a (by rw [ham]; simp))
        rw [hdl]
        refine ⟨?_, ?_, ⟨hRf, by rw [hdr]; exact Nat.le_refl _⟩, ?_, hdr, ?_⟩
        · have := Spec.doc_mem (l := Spec.seek cf lr) (by rw [hdr]; exact hlt)
          rw [hdr] at this; exact this
        · intro lo' hlo'
          obtain ⟨lo, hlo, rfl⟩ := List.mem_map.mp hlo'
          have := Spec.doc_mem (l := Spec.seek cf lo) (by rw [hdo lo hlo]; exact hlt)
          rw [hdo lo hlo] at this; exact this
        · apply all2_V_VB hOf
          intro lo' hlo'
          obtain ⟨lo, hlo, rfl⟩ := List.mem_map.mp hlo'
          rw [hdo lo hlo]; exact Nat.le_refl _
        · intro lo' hlo'
          obtain ⟨lo, hlo, rfl⟩ := List.mem_map.mp hlo'
          exact hdo lo hlo
      · have hso : ∀ lo ∈ los, Sorted lo := fun lo hlo => hslist lo (by simp [hlo])
        apply Sorted.ext (common_sorted hsl') (common_sorted (hsl'.seek cf))
        intro x
        rw [mem_common, mem_common, Spec.mem_seek hsl', Spec.mem_seek hsr]
        constructor
        · rintro ⟨h1, h2, h3⟩
          have hxin : InAll (ll :: lr :: los) x := by
            intro lo hlo
            rcases List.mem_cons.mp hlo with rfl | h'
            · exact h1
            · rcases List.mem_cons.mp h' with rfl | h''
              · exact h2
              · exact h3 lo h''
          have hc0x : maxDoc C es ≤ x := maxDoc_le C es (all2_doc_le_of_inall hC hall hxin)
          have hcfx := j6 x hc0x hxin
          exact ⟨⟨h1, hcfx⟩, ⟨h2, hcfx⟩, (inall_map_seek hso hcfx).mpr h3⟩
        · rintro ⟨⟨h1, hcfx⟩, ⟨h2, _⟩, h3⟩
          exact ⟨h1, h2, (inall_map_seek hso hcfx).mp h3⟩


end Inter
end TantivyModel.DocSet
