import TantivyModel.Proofs.DocSet.Default
import TantivyModel.Model.DocSet.BitSet
/-! `BitSetDocSet` (src/query/bitset/mod.rs) refines the sorted-list cursor -/
namespace TantivyModel.DocSet.BitSet

/-- the members after the current one: rest of the cursor bucket, then the later buckets -/
def Rem (s : State) : List Nat := s.cursorTiny ++ s.all.filter (fun d => d / 64 ≥ s.cursorBucket + 1)

def V (s : State) (l : List Nat) : Prop :=
  Sorted s.all ∧ (∀ d ∈ s.all, d < s.maxValue) ∧ Sorted l ∧ l.length ≤ s.all.length
    ∧ (∀ x ∈ l, x < s.maxValue) ∧ (∀ d ∈ s.cursorTiny, d / 64 = s.cursorBucket)
    ∧ ((l = [] ∧ s.doc = TERMINATED ∧ Rem s = []) ∨ (l = s.doc :: Rem s ∧ s.doc / 64 ≤ s.cursorBucket))

theorem advance_all (s : State) : (advance s).all = s.all ∧ (advance s).maxValue = s.maxValue
    ∧ (advance s).score = s.score := by
  unfold advance
  split
  · exact ⟨rfl, rfl, rfl⟩
  · split
    · simp only
      split <;> exact ⟨rfl, rfl, rfl⟩
    · exact ⟨rfl, rfl, rfl⟩

/-- bucket `b`, then the later buckets = everything from bucket `b` on -/
theorem bucket_split {all : List Nat} (hp : all.Pairwise (· < ·)) (b : Nat) :
    bucketOf all b ++ all.filter (fun d => d / 64 ≥ b + 1) = all.filter (fun d => d / 64 ≥ b) := by
  apply pairwise_ext
  · rw [List.pairwise_append]
    refine ⟨hp.sublist List.filter_sublist, hp.sublist List.filter_sublist, ?_⟩
    intro x hx y hy
    simp only [bucketOf, List.mem_filter, beq_iff_eq, decide_eq_true_eq] at hx hy
    omega
  · exact hp.sublist List.filter_sublist
  · intro x
    simp only [bucketOf, List.mem_append, List.mem_filter, beq_iff_eq, decide_eq_true_eq]
    constructor
    · rintro (⟨h1, h2⟩ | ⟨h1, h2⟩)
      · exact ⟨h1, by omega⟩
      · exact ⟨h1, by omega⟩
    · rintro ⟨h1, h2⟩
      by_cases h : x / 64 = b
      · exact Or.inl ⟨h1, h⟩
      · exact Or.inr ⟨h1, by omega⟩

theorem adv_rem (s : State) (hs : Sorted s.all) (hct : ∀ d ∈ s.cursorTiny, d / 64 = s.cursorBucket) :
    (∀ d ∈ (advance s).cursorTiny, d / 64 = (advance s).cursorBucket)
      ∧ ((Rem s = [] ∧ (advance s).doc = TERMINATED ∧ Rem (advance s) = [])
        ∨ ((advance s).doc :: Rem (advance s) = Rem s ∧ (advance s).doc / 64 ≤ (advance s).cursorBucket)) := by
  unfold advance
  cases hc : s.cursorTiny with
  | cons d rest =>
    simp only
    refine ⟨fun x hx => hct x (by rw [hc]; exact List.mem_cons_of_mem _ hx), Or.inr ⟨?_, ?_⟩⟩
    · simp only [Rem, hc, List.cons_append]
    · exact Nat.le_of_eq (hct d (by rw [hc]; simp))
  | nil =>
    simp only
    cases hf : s.all.find? (fun d => d / 64 ≥ s.cursorBucket + 1) with
    | none =>
      simp only
      refine ⟨(by intro d hd; cases hd), Or.inl ?_⟩
      have hfil : s.all.filter (fun d => d / 64 ≥ s.cursorBucket + 1) = [] := by
        rw [List.filter_eq_nil_iff]
        intro x hx
        exact List.find?_eq_none.mp hf x hx
      exact ⟨by simp only [Rem, hc, List.nil_append]; exact hfil, trivial,
        by simp only [Rem, List.nil_append]; exact hfil⟩
    | some d =>
      obtain ⟨hpd, as, bs, hall, has⟩ := List.find?_eq_some_iff_append.mp hf
      simp only [decide_eq_true_eq] at hpd
      have hdmem : d ∈ bucketOf s.all (d / 64) := by
        simp only [bucketOf, List.mem_filter, beq_self_eq_true, and_true]
        rw [hall]; simp
      simp only
      cases hb : bucketOf s.all (d / 64) with
      | nil => rw [hb] at hdmem; cases hdmem
      | cons x rest =>
        simp only
        have hxm : ∀ y ∈ x :: rest, y / 64 = d / 64 := by
          intro y hy
          rw [← hb] at hy
          simpa [bucketOf] using (List.mem_filter.mp hy).2
        refine ⟨fun y hy => hxm y (List.mem_cons_of_mem _ hy), Or.inr ⟨?_, Nat.le_of_eq (hxm x (by simp))⟩⟩
        simp only [Rem, hc, List.nil_append]
        rw [← List.cons_append, ← hb, bucket_split hs.1]
        apply List.filter_congr
        intro y hy
        have hp := hs.1
        rw [hall] at hy hp
        rw [List.pairwise_append] at hp
        have hp2 := List.pairwise_cons.mp hp.2.1
        simp only [List.mem_append, List.mem_cons] at hy
        rcases hy with hy | rfl | hy
        · have h1 := has y hy
          simp only [decide_eq_true_eq, Bool.not_eq_true', decide_eq_false_iff_not] at h1
          simp only [decide_eq_decide]
          omega
        · simp only [decide_eq_decide]; omega
        · have := hp2.1 y hy
          simp only [decide_eq_decide]
          omega

theorem core0 : Core0 (fun s : State => s.doc) advance V where
  sorted := fun h => h.2.2.1
  doc_eq := by
    rintro s l ⟨_, _, _, _, _, _, h | h⟩
    · rw [h.1, h.2.1]; rfl
    · rw [h.1]; rfl
  advance := by
    rintro s l ⟨hs, hm, hsl, hlen, hlm, hct, hcase⟩
    obtain ⟨a1, a2, _⟩ := advance_all s
    obtain ⟨b1, b2⟩ := adv_rem s hs hct
    have htl : (Spec.advance l).length ≤ l.length := by simp [Spec.advance]
    refine ⟨by rw [a1]; exact hs, by rw [a1, a2]; exact hm, hsl.tail, by rw [a1]; omega,
      fun x hx => by rw [a2]; exact hlm x (List.mem_of_mem_tail hx), b1, ?_⟩
    rcases hcase with ⟨h1, h2, h3⟩ | ⟨h1, h2⟩
    · rcases b2 with ⟨c1, c2, c3⟩ | ⟨c1, c2⟩
      · exact Or.inl ⟨by rw [h1]; rfl, c2, c3⟩
      · rw [h3] at c1; cases c1
    · rcases b2 with ⟨c1, c2, c3⟩ | ⟨c1, c2⟩
      · exact Or.inl ⟨by rw [h1, c1]; rfl, c2, c3⟩
      · exact Or.inr ⟨by rw [h1, c1]; rfl, c2⟩

theorem seekLoop_eq (t : Nat) : ∀ (n : Nat) (s : State),
    seekLoop t n s = loopSeek (fun s : State => s.doc) advance t n s
  | 0, _ => rfl
  | n + 1, s => by simp only [seekLoop, loopSeek, seekLoop_eq t n]

/-- the part of bucket `t / 64` from `t` on, then the later buckets = everything from `t` on -/
theorem target_split {all : List Nat} (hp : all.Pairwise (· < ·)) (t : Nat) :
    (bucketOf all (t / 64)).filter (fun d => d ≥ t) ++ all.filter (fun d => d / 64 ≥ t / 64 + 1)
      = all.filter (fun d => d ≥ t) := by
  apply pairwise_ext
  · rw [List.pairwise_append]
    refine ⟨(hp.sublist List.filter_sublist).sublist List.filter_sublist, hp.sublist List.filter_sublist, ?_⟩
    intro x hx y hy
    simp only [bucketOf, List.mem_filter, beq_iff_eq, decide_eq_true_eq] at hx hy
    omega
  · exact hp.sublist List.filter_sublist
  · intro x
    simp only [bucketOf, List.mem_append, List.mem_filter, beq_iff_eq, decide_eq_true_eq]
    constructor
    · rintro (⟨⟨h1, _⟩, h2⟩ | ⟨h1, h2⟩)
      · exact ⟨h1, h2⟩
      · exact ⟨h1, by omega⟩
    · rintro ⟨h1, h2⟩
      by_cases h : x / 64 = t / 64
      · exact Or.inl ⟨⟨h1, h⟩, h2⟩
      · exact Or.inr ⟨h1, by omega⟩

/-- `seek`, with the cursor exhausted on a target past `max_value` (the repaired behaviour; read from
the source through the extracted guard) -/
theorem seek_law (fx : Fix)
    (hg : (fx.bitsetSticky || decide (Gen.BITSET_SEEK_PAST_MAX_EXHAUSTS_CURSOR = 1)) = true)
    {s : State} {l : List Nat} {t : Nat} (hV : V s l) (ht : t ≤ TERMINATED) :
    V (seek fx t s) (Spec.seek t l) := by
  have hV' := hV
  obtain ⟨hs, hm, hsl, hlen, hlm, hct, hcase⟩ := hV
  unfold seek
  by_cases h1 : t ≥ s.maxValue
  · simp only [h1, if_true, hg]
    have hnil : Spec.seek t l = [] := by
      apply List.eq_nil_iff_forall_not_mem.mpr
      intro x hx
      have h' := (Spec.mem_seek hsl x).mp hx
      have := hlm x h'.1
      omega
    rw [hnil]
    refine ⟨hs, hm, Sorted.nil, Nat.zero_le _, (fun x hx => by cases hx), (fun x hx => by cases hx),
      Or.inl ⟨rfl, rfl, ?_⟩⟩
    simp only [Rem, List.nil_append, List.filter_eq_nil_iff, decide_eq_true_eq]
    intro x hx; have := hm x hx; omega
  · simp only [h1, if_false]
    by_cases h2 : t / 64 > s.cursorBucket
    · simp only [h2, if_true]
      have hL : Spec.seek t l = s.all.filter (fun d => d ≥ t) := by
        apply Sorted.ext (hsl.seek t) (hs.filter _)
        intro x
        rw [Spec.mem_seek hsl, List.mem_filter, decide_eq_true_eq]
        rcases hcase with ⟨c1, _, c3⟩ | ⟨c1, c2⟩
        · rw [c1]
          constructor
          · rintro ⟨h, _⟩; cases h
          · rintro ⟨hx, hge⟩
            have : x ∈ Rem s := by
              simp only [Rem, List.mem_append, List.mem_filter, decide_eq_true_eq]
              exact Or.inr ⟨hx, by omega⟩
            rw [c3] at this; cases this
        · rw [c1]
          simp only [Rem, List.mem_cons, List.mem_append, List.mem_filter, decide_eq_true_eq]
          constructor
          · rintro ⟨h | h | h, hge⟩
            · omega
            · have := hct x h; omega
            · exact ⟨h.1, hge⟩
          · rintro ⟨hx, hge⟩
            exact ⟨Or.inr (Or.inr ⟨hx, by omega⟩), hge⟩
      rw [hL]
      have hs1 := advance_all ({ s with cursorBucket := t / 64, cursorTiny := (bucketOf s.all (t / 64)).filter (fun d => d ≥ t) } : State)
      have hr1 := adv_rem ({ s with cursorBucket := t / 64, cursorTiny := (bucketOf s.all (t / 64)).filter (fun d => d ≥ t) } : State) hs
        (by
          intro d hd
          simp only [bucketOf, List.mem_filter, beq_iff_eq] at hd
          exact hd.1.2)
      have hR1 : Rem ({ s with cursorBucket := t / 64, cursorTiny := (bucketOf s.all (t / 64)).filter (fun d => d ≥ t) } : State)
          = s.all.filter (fun d => d ≥ t) := target_split hs.1 t
      revert hs1 hr1
      generalize advance ({ s with cursorBucket := t / 64, cursorTiny := (bucketOf s.all (t / 64)).filter (fun d => d ≥ t) } : State) = s2
      rw [hR1]
      simp only
      rintro ⟨a1, a2, _⟩ ⟨b1, b2⟩
      refine ⟨by rw [a1]; exact hs, by rw [a1, a2]; exact hm, hs.filter _,
        by rw [a1]; exact List.length_filter_le _ _,
        fun x hx => by rw [a2]; exact hm x (List.mem_filter.mp hx).1, b1, ?_⟩
      rcases b2 with ⟨c1, c2, c3⟩ | ⟨c1, c2⟩
      · exact Or.inl ⟨c1, c2, c3⟩
      · exact Or.inr ⟨c1.symm, c2⟩
    · simp only [h2, if_false]
      rw [seekLoop_eq]
      exact loopSeek_law core0 ht _ hV' (by omega)

theorem guard_now : ∀ fx : Fix,
    (fx.bitsetSticky || decide (Gen.BITSET_SEEK_PAST_MAX_EXHAUSTS_CURSOR = 1)) = true := by
  intro fx; rw [Bool.or_eq_true]; exact Or.inr (by decide)

theorem core (fx : Fix) : Core (fun s : State => s.doc) advance (seek fx) V where
  toCore0 := core0
  seek := fun h _ ht => seek_law fx (guard_now fx) h ht

/-- `BitSetDocSet` (every method of the model) is lawful -/
theorem lawful (fx : Fix) : Lawful (ds fx) V (defaultW V) :=
  lawful_ofCore _ _ _ _ V (core fx)

/-- `From<BitSet>`: a bitset holding the sorted list `docs` (all below `max_value`) starts as `docs` -/
theorem init_V {docs : List Nat} {maxValue score : Nat} (hs : Sorted docs)
    (hm : ∀ d ∈ docs, d < maxValue) : V (init docs maxValue score) docs := by
  unfold init
  have hmv : maxValue ≠ 0 ∨ docs = [] := by
    cases docs with
    | nil => exact Or.inr rfl
    | cons a r => have := hm a (by simp); exact Or.inl (by omega)
  have hct : ∀ d ∈ (if maxValue = 0 then [] else bucketOf docs 0), d / 64 = 0 := by
    intro d hd
    split at hd
    · cases hd
    · simpa [bucketOf] using (List.mem_filter.mp hd).2
  have hR0 : Rem ({ all := docs, maxValue := maxValue, cursorBucket := 0, cursorTiny := if maxValue = 0 then [] else bucketOf docs 0, doc := 0, score := score } : State) = docs := by
    rcases hmv with h | h
    · simp only [Rem, h, if_false]
      rw [bucket_split hs.1 0]
      apply List.filter_eq_self.mpr
      intro x _; simp
    · subst h; simp [Rem, bucketOf]
  have hs1 := advance_all ({ all := docs, maxValue := maxValue, cursorBucket := 0, cursorTiny := if maxValue = 0 then [] else bucketOf docs 0, doc := 0, score := score } : State)
  have hr1 := adv_rem ({ all := docs, maxValue := maxValue, cursorBucket := 0, cursorTiny := if maxValue = 0 then [] else bucketOf docs 0, doc := 0, score := score } : State) hs hct
  revert hs1 hr1
  generalize advance ({ all := docs, maxValue := maxValue, cursorBucket := 0, cursorTiny := if maxValue = 0 then [] else bucketOf docs 0, doc := 0, score := score } : State) = s2
  rw [hR0]
  simp only
  rintro ⟨a1, a2, _⟩ ⟨b1, b2⟩
  refine ⟨by rw [a1]; exact hs, by rw [a1, a2]; exact hm, hs, by rw [a1]; exact Nat.le_refl _,
    fun x hx => by rw [a2]; exact hm x hx, b1, ?_⟩
  rcases b2 with ⟨c1, c2, c3⟩ | ⟨c1, c2⟩
  · exact Or.inl ⟨c1, c2, c3⟩
  · exact Or.inr ⟨c1.symm, c2⟩

end TantivyModel.DocSet.BitSet

namespace TantivyModel.DocSet

/-- valid leaf states -/
def Leaf.V : Leaf → List Nat → Prop
  | .vec s, l => Vec.V s l
  | .bits s, l => BitSet.V s l

def Leaf.W : Leaf → Nat → List Nat → Prop
  | .vec s, t, l => defaultW Vec.V s t l
  | .bits s, t, l => defaultW BitSet.V s t l

theorem Vec.lawful : Lawful Vec.ds Vec.V (defaultW Vec.V) := lawful_ofCore _ _ _ _ _ Vec.core

/-- the leaves of the scorer trees the driver builds (sorted vector / bitset) are lawful -/
theorem Leaf.lawful (fx : Fix) : Lawful (Leaf.ds fx) Leaf.V Leaf.W where
  sorted := by
    intro s l h
    cases s with
    | vec s => exact Vec.lawful.sorted h
    | bits s => exact (BitSet.lawful fx).sorted h
  doc_eq := by
    intro s l h
    cases s with
    | vec s => exact Vec.lawful.doc_eq h
    | bits s => exact (BitSet.lawful fx).doc_eq h
  advance := by
    intro s l h
    cases s with
    | vec s => exact Vec.lawful.advance h
    | bits s => exact (BitSet.lawful fx).advance h
  seek := by
    intro s l t h hd ht
    cases s with
    | vec s => exact Vec.lawful.seek h hd ht
    | bits s => exact (BitSet.lawful fx).seek h hd ht
  fillBuffer := by
    intro s l h
    cases s with
    | vec s => exact Vec.lawful.fillBuffer h
    | bits s => exact (BitSet.lawful fx).fillBuffer h
  fillBitset := by
    intro s l m h hd hm
    cases s with
    | vec s => exact Vec.lawful.fillBitset h hd hm
    | bits s => exact (BitSet.lawful fx).fillBitset h hd hm
  count := by
    intro s l h
    cases s with
    | vec s => exact Vec.lawful.count h
    | bits s => exact (BitSet.lawful fx).count h
  wsorted := by
    intro s t0 l h
    cases s with
    | vec s => exact Vec.lawful.wsorted h
    | bits s => exact (BitSet.lawful fx).wsorted h
  wdoc := by
    intro s t0 l h
    cases s with
    | vec s => exact Vec.lawful.wdoc h
    | bits s => exact (BitSet.lawful fx).wdoc h
  wseek := by
    intro s t0 l t h h0 hd ht
    cases s with
    | vec s => exact Vec.lawful.wseek h h0 hd ht
    | bits s => exact (BitSet.lawful fx).wseek h h0 hd ht
  sdV := by
    intro s l t h ht
    cases s with
    | vec s => exact SDPost.map Leaf.vec (fun _ _ h => h) (fun _ _ _ h => h) (Vec.lawful.sdV h ht)
    | bits s => exact SDPost.map Leaf.bits (fun _ _ h => h) (fun _ _ _ h => h) ((BitSet.lawful fx).sdV h ht)
  sdW := by
    intro s t0 l t h h0 ht
    cases s with
    | vec s => exact SDPost.map Leaf.vec (fun _ _ h => h) (fun _ _ _ h => h) (Vec.lawful.sdW h h0 ht)
    | bits s => exact SDPost.map Leaf.bits (fun _ _ h => h) (fun _ _ _ h => h) ((BitSet.lawful fx).sdW h h0 ht)

end TantivyModel.DocSet
