import TantivyModel.Proofs.DocSet.Exclude
import TantivyModel.Model.DocSet.SimpleUnion
/-! `SimpleUnion` refines the cursor over the union of its (lawful) children. -/
namespace TantivyModel.DocSet.SimpleUnion
open TantivyModel.DocSet

variable {σ : Type} {C : DS σ} {VC : σ → List Nat → Prop} {WC : σ → Nat → List Nat → Prop}

/-- smallest head of a family of sequences -/
def minHead (ls : List (List Nat)) : Nat := ls.foldr (fun li m => min (Spec.doc li) m) TERMINATED

/-- `l` is the sorted union of the family `ls` -/
def IsUnion (l : List Nat) (ls : List (List Nat)) : Prop :=
  Sorted l ∧ ∀ x, x ∈ l ↔ ∃ li ∈ ls, x ∈ li

def V (VC : σ → List Nat → Prop) (s : State σ) (l : List Nat) : Prop :=
  ∃ ls, All2 VC s.docsets ls ∧ s.doc = minHead ls ∧ IsUnion l ls

theorem minDoc_eq (hC : Lawful C VC WC) {ds : List σ} {ls : List (List Nat)} (h : All2 VC ds ls) :
    minDoc C ds = minHead ls := by
  induction h with
  | nil => rfl
  | cons h1 _ ih => simp only [minDoc, minHead, List.foldr_cons] at *; rw [ih, hC.doc_eq h1]

theorem minHead_le_term (ls : List (List Nat)) : minHead ls ≤ TERMINATED := by
  induction ls with
  | nil => exact Nat.le_refl _
  | cons li ls ih => simp only [minHead, List.foldr_cons] at *; omega

theorem minHead_le_of_mem {ls : List (List Nat)} {li : List Nat} (h : li ∈ ls) :
    minHead ls ≤ Spec.doc li := by
  induction ls with
  | nil => cases h
  | cons a ls ih =>
    simp only [minHead, List.foldr_cons] at *
    rcases List.mem_cons.mp h with rfl | h'
    · omega
    · have := ih h'; omega

theorem le_minHead {ls : List (List Nat)} {d : Nat} (hd : d ≤ TERMINATED)
    (h : ∀ li ∈ ls, d ≤ Spec.doc li) : d ≤ minHead ls := by
  induction ls with
  | nil => exact hd
  | cons a ls ih =>
    simp only [minHead, List.foldr_cons] at *
    have := h a (by simp)
    have := ih (fun li hli => h li (List.mem_cons_of_mem _ hli))
    omega

theorem all2_sorted (hC : Lawful C VC WC) {ds : List σ} {ls : List (List Nat)} (h : All2 VC ds ls) :
    ∀ li ∈ ls, Sorted li := by
  induction h with
  | nil => intro li h; cases h
  | cons h1 _ ih =>
    intro li hli
    rcases List.mem_cons.mp hli with rfl | h'
    · exact hC.sorted h1
    · exact ih li h'

/-- the head of the union is the smallest head -/
theorem doc_union {l : List Nat} {ls : List (List Nat)} (hu : IsUnion l ls)
    (hs : ∀ li ∈ ls, Sorted li) : Spec.doc l = minHead ls := by
  apply Nat.le_antisymm
  · apply le_minHead (Spec.doc_le hu.1)
    intro li hli
    cases hli' : li with
    | nil => simpa [Spec.doc] using Spec.doc_le hu.1
    | cons a m =>
      simp only [Spec.doc, List.headD_cons]
      have : a ∈ l := (hu.2 a).mpr ⟨li, hli, by simp [hli']⟩
      exact Exclude.all_ge_doc hu.1 a this
  · cases hl : l with
    | nil => simpa [Spec.doc] using minHead_le_term ls
    | cons a m =>
      simp only [Spec.doc, List.headD_cons]
      obtain ⟨li, hli, ha⟩ := (hu.2 a).mp (by simp [hl])
      exact Nat.le_trans (minHead_le_of_mem hli) (Exclude.all_ge_doc (hs li hli) a ha)

/-- one step of `advance_to_next` on a child's sequence -/
theorem mem_step {li : List Nat} (hs : Sorted li) {d : Nat} (hd : d ≤ Spec.doc li) (x : Nat) :
    x ∈ (if Spec.doc li ≤ d then li.tail else li) ↔ x ∈ li ∧ x ≠ d := by
  cases li with
  | nil => simp
  | cons a m =>
    obtain ⟨_, hlt, _⟩ := hs.of_cons
    simp only [Spec.doc, List.headD_cons] at hd ⊢
    by_cases h : a ≤ d
    · have : a = d := by omega
      subst this
      simp only [Nat.le_refl, if_true, List.tail_cons, List.mem_cons]
      constructor
      · intro hx; exact ⟨Or.inr hx, by have := hlt x hx; omega⟩
      · rintro ⟨h1 | h1, h2⟩
        · exact absurd h1 h2
        · exact h1
    · simp only [h, if_false, List.mem_cons]
      constructor
      · intro hx
        refine ⟨hx, ?_⟩
        rcases hx with rfl | hx
        · omega
        · have := hlt x hx; omega
      · exact fun hx => hx.1

theorem mem_tail_sorted {l : List Nat} (h : Sorted l) (x : Nat) :
    x ∈ l.tail ↔ x ∈ l ∧ x ≠ Spec.doc l := by
  cases l with
  | nil => simp
  | cons a m =>
    obtain ⟨_, hlt, _⟩ := h.of_cons
    simp only [List.tail_cons, Spec.doc, List.headD_cons, List.mem_cons]
    constructor
    · intro hx; exact ⟨Or.inr hx, by have := hlt x hx; omega⟩
    · rintro ⟨h1 | h1, h2⟩
      · exact absurd h1 h2
      · exact h1

theorem all2_map {R : σ → List Nat → Prop} {ds : List σ} {ls : List (List Nat)}
    (h : All2 R ds ls) (f : σ → σ) (g : List Nat → List Nat)
    (hfg : ∀ c li, R c li → R (f c) (g li)) : All2 R (ds.map f) (ls.map g) := by
  induction h with
  | nil => exact All2.nil
  | cons h1 _ ih => exact All2.cons (hfg _ _ h1) ih

theorem all2_map_congr {ds : List σ} {ls : List (List Nat)} (h : All2 VC ds ls)
    (f f' : σ → σ) (hff : ∀ c li, VC c li → f c = f' c) : ds.map f = ds.map f' := by
  induction h with
  | nil => rfl
  | cons h1 _ ih => simp only [List.map_cons, ih, hff _ _ h1]

theorem core (hC : Lawful C VC WC) :
    Core (fun s : State σ => s.doc) (advance C) (seek C) (V VC) where
  sorted := by rintro s l ⟨ls, _, _, hu⟩; exact hu.1
  doc_eq := by
    rintro s l ⟨ls, h2, hd, hu⟩
    show s.doc = _
    rw [hd, doc_union hu (all2_sorted hC h2)]
  advance := by
    rintro s l ⟨ls, h2, hd, hu⟩
    have hss := all2_sorted hC h2
    have hdl : s.doc = Spec.doc l := by rw [hd, doc_union hu hss]
    let g : List Nat → List Nat := fun li => if Spec.doc li ≤ s.doc then li.tail else li
    have h2' : All2 VC (s.docsets.map (fun c => if C.doc c ≤ s.doc then C.advance c else c))
        (ls.map g) := by
      apply all2_map h2
      intro c li hc
      show VC (if C.doc c ≤ s.doc then C.advance c else c) (if Spec.doc li ≤ s.doc then li.tail else li)
      rw [hC.doc_eq hc]
      split
      · exact hC.advance hc
      · exact hc
    refine ⟨ls.map g, h2', minDoc_eq hC h2', hu.1.tail, ?_⟩
    intro x
    simp only [Spec.advance]
    rw [mem_tail_sorted hu.1, hu.2, ← hdl]
    constructor
    · rintro ⟨⟨li, hli, hx⟩, hne⟩
      refine ⟨g li, List.mem_map_of_mem hli, ?_⟩
      exact (mem_step (hss li hli) (by rw [hd]; exact minHead_le_of_mem hli) x).mpr ⟨hx, hne⟩
    · rintro ⟨li', hli', hx⟩
      obtain ⟨li, hli, rfl⟩ := List.mem_map.mp hli'
      have := (mem_step (hss li hli) (by rw [hd]; exact minHead_le_of_mem hli) x).mp hx
      exact ⟨⟨li, hli, this.1⟩, this.2⟩
  seek := by
    rintro s l t ⟨ls, h2, hd, hu⟩ _ ht
    have hss := all2_sorted hC h2
    have h2' : All2 VC (s.docsets.map (fun c => if C.doc c < t then C.seek t c else c))
        (ls.map (Spec.seek t)) := by
      apply all2_map h2
      intro c li hc
      show VC (if C.doc c < t then C.seek t c else c) (Spec.seek t li)
      split
      · rename_i h; exact hC.seek hc (Nat.le_of_lt h) ht
      · rename_i h
        rw [Spec.seek_of_le (by rw [← hC.doc_eq hc]; omega) (hC.sorted hc)]
        exact hc
    refine ⟨ls.map (Spec.seek t), h2', minDoc_eq hC h2', hu.1.seek t, ?_⟩
    intro x
    rw [Spec.mem_seek hu.1, hu.2]
    constructor
    · rintro ⟨⟨li, hli, hx⟩, hge⟩
      exact ⟨Spec.seek t li, List.mem_map_of_mem hli, (Spec.mem_seek (hss li hli) x).mpr ⟨hx, hge⟩⟩
    · rintro ⟨li', hli', hx⟩
      obtain ⟨li, hli, rfl⟩ := List.mem_map.mp hli'
      have := (Spec.mem_seek (hss li hli) x).mp hx
      exact ⟨⟨li, hli, this.1⟩, this.2⟩

theorem countLoop_law (hC : Lawful C VC WC) :
    ∀ (fuel : Nat) {s : State σ} {l : List Nat}, V VC s l → l.length ≤ fuel + 1 →
      (countLoop C fuel s).1 = l.length - 1 := by
  intro fuel
  induction fuel with
  | zero => intro s l _ hl; simp only [countLoop]; omega
  | succ n ih =>
    intro s l hV hl
    have hV' := (core hC).advance hV
    have hd' := (core hC).doc_eq hV'
    have hs' := (core hC).sorted hV'
    simp only [countLoop]
    simp only [Spec.advance] at hV' hd' hs'
    have hlen : l.tail.length = l.length - 1 := List.length_tail
    by_cases hT : (advance C s).doc = TERMINATED
    · simp only [hT, if_true]
      have : l.tail = [] := (Spec.doc_eq_term_iff hs').mp (by rw [← hd']; exact hT)
      rw [this] at hlen; simp at hlen; omega
    · simp only [hT, if_false]
      have hne : l.tail ≠ [] := by
        intro h0; rw [h0] at hd'; exact hT hd'
      have := ih hV' (by omega)
      have hpos : 0 < l.tail.length := List.length_pos_iff.mpr hne
      omega

theorem count_law (hC : Lawful C VC WC) {s : State σ} {l : List Nat} (hV : V VC s l) :
    (count C s).1 = Spec.count l := by
  have hd := (core hC).doc_eq hV
  have hs := (core hC).sorted hV
  unfold count Spec.count
  by_cases hT : s.doc = TERMINATED
  · simp only [hT, if_true]
    have : l = [] := (Spec.doc_eq_term_iff hs).mp (by rw [← hd]; exact hT)
    simp [this]
  · simp only [hT, if_false]
    have hne : l ≠ [] := by intro h0; rw [h0] at hd; exact hT hd
    have hlen : l.length ≤ FUEL + 1 := by have := hs.length_le; unfold FUEL; omega
    have := countLoop_law hC FUEL hV hlen
    have hpos : 0 < l.length := List.length_pos_iff.mpr hne
    omega

theorem lawful (hC : Lawful C VC WC) : Lawful (ds C) (V VC) (defaultW (V VC)) :=
  lawful_of_parts (ds C) (V VC) (core hC) rfl
    (fun h => defaultFillBuffer_law (core hC).toCore0 h)
    (fun h hd hm => defaultFillBitset_law (core hC) h hd hm)
    (fun h => count_law hC h)

theorem filter_terminated (hC : Lawful C VC WC) {ds : List σ} {ls : List (List Nat)}
    (h : All2 VC ds ls) :
    ∃ ls', All2 VC (ds.filter (fun c => C.doc c != TERMINATED)) ls'
      ∧ ∀ x, (∃ li ∈ ls', x ∈ li) ↔ ∃ li ∈ ls, x ∈ li := by
    induction h with
    | nil => exact ⟨[], All2.nil, fun _ => Iff.rfl⟩
    | @cons c li cs lis h1 _ ih =>
      obtain ⟨ls', i1, i2⟩ := ih
      simp only [List.filter_cons]
      by_cases hT : C.doc c = TERMINATED
      · have hnil : li = [] := (Spec.doc_eq_term_iff (hC.sorted h1)).mp (by rw [← hC.doc_eq h1]; exact hT)
        refine ⟨ls', by simpa [hT] using i1, fun x => ?_⟩
        rw [i2 x]
        constructor
        · rintro ⟨a, ha, hx⟩; exact ⟨a, List.mem_cons_of_mem _ ha, hx⟩
        · rintro ⟨a, ha, hx⟩
          rcases List.mem_cons.mp ha with rfl | ha'
          · rw [hnil] at hx; cases hx
          · exact ⟨a, ha', hx⟩
      · refine ⟨li :: ls', by simpa [hT] using All2.cons h1 i1, fun x => ?_⟩
        constructor
        · rintro ⟨a, ha, hx⟩
          rcases List.mem_cons.mp ha with rfl | ha'
          · exact ⟨a, by simp, hx⟩
          · obtain ⟨b, hb, hx'⟩ := (i2 x).mp ⟨a, ha', hx⟩
            exact ⟨b, List.mem_cons_of_mem _ hb, hx'⟩
        · rintro ⟨a, ha, hx⟩
          rcases List.mem_cons.mp ha with rfl | ha'
          · exact ⟨a, by simp, hx⟩
          · obtain ⟨b, hb, hx'⟩ := (i2 x).mpr ⟨a, ha', hx⟩
            exact ⟨b, List.mem_cons_of_mem _ hb, hx'⟩

/-- `SimpleUnion::build` establishes the invariant (children that are already exhausted are
dropped; they contribute nothing to the union) -/
theorem build_V (hC : Lawful C VC WC) {ds : List σ} {ls : List (List Nat)} {l : List Nat}
    (h : All2 VC ds ls) (hu : IsUnion l ls) : V VC (build C ds) l := by
  obtain ⟨ls', i1, i2⟩ := filter_terminated hC h
  exact ⟨ls', i1, minDoc_eq hC i1, hu.1, fun x => by rw [hu.2 x, i2 x]⟩

end TantivyModel.DocSet.SimpleUnion
