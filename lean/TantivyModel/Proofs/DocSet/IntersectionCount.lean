import TantivyModel.Proofs.DocSet.Intersection
import TantivyModel.Proofs.DocSet.BufferedUnion
/-! the dense `count_including_deleted` of the intersection counts the common documents -/
namespace TantivyModel.DocSet.Inter
open TantivyModel.DocSet

variable {σ : Type} {C : DS σ} {VC : σ → List Nat → Prop} {WC : σ → Nat → List Nat → Prop}

/-- the documents of `l` inside the block `[base, base + BLOCK_WINDOW)` -/
def blockOf (base : Nat) (l : List Nat) : List Nat := (Spec.seek base l).takeWhile (· < base + BLOCK_WINDOW)

theorem mem_blockOf {l : List Nat} (h : Sorted l) (base x : Nat) :
    x ∈ blockOf base l ↔ x ∈ l ∧ base ≤ x ∧ x < base + BLOCK_WINDOW := by
  unfold blockOf
  rw [BUnion.mem_takeWhile_sorted (h.seek base), Spec.mem_seek h]
  exact ⟨fun ⟨⟨a, b⟩, c⟩ => ⟨a, b, c⟩, fun ⟨a, b, c⟩ => ⟨⟨a, b⟩, c⟩⟩

theorem contains_dec (b : List Nat) (x : Nat) : b.contains x = decide (x ∈ b) := by simp

theorem mem_inter (a b : List Nat) (x : Nat) : x ∈ inter a b ↔ x ∈ a ∧ x ∈ b := by
  simp [inter, List.mem_filter]

/-- what `fill_bitset_block(base)` delivers for a valid child positioned at or before `base` -/
theorem fill_law (hC : Lawful C VC WC) {c : σ} {l : List Nat} {base : Nat} (hV : VC c l)
    (hd : Spec.doc l ≤ base) (hb : base + BLOCK_WINDOW ≤ TERMINATED) :
    (C.fillBitset base c).1.1 = blockOf base l
      ∧ (C.fillBitset base c).1.2 = Spec.doc (Spec.seek (base + BLOCK_WINDOW) l)
      ∧ VC (C.fillBitset base c).2 (Spec.seek (base + BLOCK_WINDOW) l) := by
  have h := hC.fillBitset hV (by rw [hC.doc_eq hV]; exact hd) hb
  have e : (Spec.fillBitset base l).2 = Spec.seek (base + BLOCK_WINDOW) l := by
    simp only [Spec.fillBitset]
    exact Spec.seek_seek (by omega)
  rw [e] at h
  refine ⟨?_, ?_, h.2⟩
  · rw [h.1]; rfl
  · rw [h.1]

/-- the `for other in &mut self.others` of the dense count -/
theorem denseOthers_law (hC : Lawful C VC WC) {base : Nat} (hb : base + BLOCK_WINDOW ≤ TERMINATED) :
    ∀ {os : List σ} {los : List (List Nat)}, All2 (VB VC base) os los → ∀ (mask : List Nat) (nb : Nat),
      (∀ x ∈ mask, base ≤ x ∧ x < base + BLOCK_WINDOW) →
      (denseOthers C base os mask nb).1.1 = mask.filter (fun x => decide (InAll los x))
      ∧ All2 VC (denseOthers C base os mask nb).2 (los.map (Spec.seek (base + BLOCK_WINDOW)))
      ∧ nb ≤ (denseOthers C base os mask nb).1.2
      ∧ (∀ lo ∈ los, Spec.doc (Spec.seek (base + BLOCK_WINDOW) lo) ≤ (denseOthers C base os mask nb).1.2)
      ∧ ((denseOthers C base os mask nb).1.2 = nb
          ∨ ∃ lo ∈ los, (denseOthers C base os mask nb).1.2 = Spec.doc (Spec.seek (base + BLOCK_WINDOW) lo)) := by
  intro os los h
  induction h with
  | nil =>
    intro mask nb _
    have e : denseOthers C base [] mask nb = ((mask, nb), []) := rfl
    rw [e]
    exact ⟨by simp only [InAll, List.not_mem_nil, false_imp_iff, imp_true_iff, forall_const, decide_true]; exact (List.filter_eq_self.mpr (fun _ _ => rfl)).symm, All2.nil, Nat.le_refl _, by simp, Or.inl rfl⟩
  | @cons o lo os los h1 _ ih =>
    intro mask nb hm
    obtain ⟨f1, f2, f3⟩ := fill_law hC h1.1 h1.2 hb
    have hs := hC.sorted h1.1
    simp only [denseOthers]
    have hm' : ∀ x ∈ inter mask (C.fillBitset base o).1.1, base ≤ x ∧ x < base + BLOCK_WINDOW := by
      intro x hx; exact hm x ((mem_inter _ _ x).mp hx).1
    obtain ⟨i1, i2, i3, i4, i5⟩ := ih (inter mask (C.fillBitset base o).1.1) (max nb (C.fillBitset base o).1.2) hm'
    refine ⟨?_, ?_, ?_, ?_, ?_⟩
    · rw [i1]
      simp only [inter, List.filter_filter]
      apply List.filter_congr
      intro x hx
      have hx' := hm x hx
      have hblk : x ∈ (C.fillBitset base o).1.1 ↔ x ∈ lo := by
        rw [f1, mem_blockOf hs]; exact ⟨fun h => h.1, fun h => ⟨h, hx'.1, hx'.2⟩⟩
      have hall : InAll (lo :: los) x ↔ x ∈ lo ∧ InAll los x := by simp [InAll]
      rw [contains_dec]
      by_cases h1 : x ∈ lo <;> by_cases h2 : InAll los x <;> simp [h1, h2, hall, hblk]
    · simp only [List.map_cons]; exact All2.cons f3 i2
    · omega
    · intro lo' hlo'
      rcases List.mem_cons.mp hlo' with rfl | h'
      · rw [← f2]; omega
      · exact i4 lo' h'
    · rcases i5 with h | ⟨lo', hlo', h⟩
      · rw [h]
        by_cases hmx : nb ≤ (C.fillBitset base o).1.2
        · exact Or.inr ⟨lo, by simp, by rw [← f2]; omega⟩
        · exact Or.inl (by omega)
      · exact Or.inr ⟨lo', List.mem_cons_of_mem _ hlo', h⟩

theorem doc_term_or_mem (l : List Nat) : Spec.doc l = TERMINATED ∨ Spec.doc l ∈ l := by
  cases l with
  | nil => exact Or.inl rfl
  | cons a m => exact Or.inr (by simp [Spec.doc])

theorem bw_pos : 0 < BLOCK_WINDOW := by decide

/-- `x` common and beyond the block: it is at or beyond every child's next document -/
theorem ge_next {l : List Nat} (hs : Sorted l) {b x : Nat} (hx : x ∈ l) (hb : b ≤ x) :
    Spec.doc (Spec.seek b l) ≤ x :=
  Exclude.all_ge_doc (hs.seek b) x ((Spec.mem_seek hs x).mpr ⟨hx, hb⟩)

/-- the block loop of `count_including_deleted_dense` adds exactly the common documents `≥ nb` -/
theorem denseLoop_law (hC : Lawful C VC WC) :
    ∀ (fuel : Nat) {s : State σ} {nb cnt : Nat} {ll lr : List Nat} {los : List (List Nat)},
      TERMINATED + 1 ≤ fuel + nb → VC s.left ll → VC s.right lr → All2 VC s.others los →
      Spec.doc ll ≤ nb → Spec.doc lr ≤ nb → (∀ lo ∈ los, Spec.doc lo ≤ nb) →
      (nb < TERMINATED → nb + BLOCK_WINDOW ≤ TERMINATED) →
      (∀ x, (x ∈ ll ∨ x ∈ lr ∨ ∃ lo ∈ los, x ∈ lo) → x + BLOCK_WINDOW ≤ TERMINATED) →
      (denseLoop C fuel nb cnt s).1 = cnt + (Spec.seek nb (Common ll lr los)).length := by
  intro fuel
  induction fuel with
  | zero =>
    intro s nb cnt ll lr los hf hL _ _ _ _ _ _ _
    simp only [denseLoop]
    rw [seek_nil_of_term (common_sorted (hC.sorted hL)) (by omega)]
    simp
  | succ n ih =>
    intro s nb cnt ll lr los hf hL hR hO hdl hdr hdo hnb hsm
    have hsl := hC.sorted hL
    have hsr := hC.sorted hR
    simp only [denseLoop]
    by_cases hT : nb < TERMINATED
    · simp only [hT, if_true]
      have hb := hnb hT
      obtain ⟨l1, l2, l3⟩ := fill_law hC hL hdl hb
      obtain ⟨r1, r2, r3⟩ := fill_law hC hR hdr hb
      have hsl' := hsl.seek (nb + BLOCK_WINDOW)
      have hsr' := hsr.seek (nb + BLOCK_WINDOW)
      have hnl : nb + BLOCK_WINDOW ≤ (C.fillBitset nb s.left).1.2 := by rw [l2]; exact Spec.seek_head_ge hb
      have hnlT : (C.fillBitset nb s.left).1.2 ≤ TERMINATED := by rw [l2]; exact Spec.doc_le hsl'
      have hnrT : (C.fillBitset nb s.right).1.2 ≤ TERMINATED := by rw [r2]; exact Spec.doc_le hsr'
      have hpos := bw_pos
      -- smallness of a next document
      have small_next : ∀ {l : List Nat}, (∀ x ∈ l, x + BLOCK_WINDOW ≤ TERMINATED) →
          Spec.doc (Spec.seek (nb + BLOCK_WINDOW) l) < TERMINATED →
          Spec.doc (Spec.seek (nb + BLOCK_WINDOW) l) + BLOCK_WINDOW ≤ TERMINATED := by
        intro l hl hlt
        rcases doc_term_or_mem (Spec.seek (nb + BLOCK_WINDOW) l) with h | h
        · omega
        · exact hl _ (Spec.seek_ge _ _ _ h)
      have hsm' : ∀ x, (x ∈ Spec.seek (nb + BLOCK_WINDOW) ll ∨ x ∈ Spec.seek (nb + BLOCK_WINDOW) lr
          ∨ ∃ lo ∈ los, x ∈ lo) → x + BLOCK_WINDOW ≤ TERMINATED := by
        rintro x (h | h | h)
        · exact hsm x (Or.inl (Spec.seek_ge _ _ _ h))
        · exact hsm x (Or.inr (Or.inl (Spec.seek_ge _ _ _ h)))
        · exact hsm x (Or.inr (Or.inr h))
      -- membership in the mask
      have hmask : ∀ x, x ∈ inter (C.fillBitset nb s.left).1.1 (C.fillBitset nb s.right).1.1 ↔
          x ∈ ll ∧ x ∈ lr ∧ nb ≤ x ∧ x < nb + BLOCK_WINDOW := by
        intro x
        rw [mem_inter, l1, r1, mem_blockOf hsl, mem_blockOf hsr]
        exact ⟨fun ⟨⟨a, b, c⟩, ⟨d, _, _⟩⟩ => ⟨a, d, b, c⟩, fun ⟨a, d, b, c⟩ => ⟨⟨a, b, c⟩, ⟨d, b, c⟩⟩⟩
      by_cases hE : (inter (C.fillBitset nb s.left).1.1 (C.fillBitset nb s.right).1.1).isEmpty = true
      · simp only [hE, if_true]
        have hnone : ∀ x, ¬ (x ∈ ll ∧ x ∈ lr ∧ nb ≤ x ∧ x < nb + BLOCK_WINDOW) := by
          intro x hx
          have := (hmask x).mpr hx
          rw [List.isEmpty_iff.mp hE] at this; cases this
        have key := ih (s := { s with left := (C.fillBitset nb s.left).2, right := (C.fillBitset nb s.right).2 })
          (nb := max (max nb (C.fillBitset nb s.left).1.2) (C.fillBitset nb s.right).1.2) (cnt := cnt)
          (by omega) l3 r3 hO (by rw [← l2]; omega) (by rw [← r2]; omega)
          (fun lo hlo => by have := hdo lo hlo; omega)
          (by
            intro hlt
            have h1 : (C.fillBitset nb s.left).1.2 < TERMINATED := by omega
            have h2 : (C.fillBitset nb s.right).1.2 < TERMINATED := by omega
            have a := small_next (l := ll) (fun x hx => hsm x (Or.inl hx)) (by rw [← l2]; exact h1)
            have b := small_next (l := lr) (fun x hx => hsm x (Or.inr (Or.inl hx))) (by rw [← r2]; exact h2)
            rw [← l2] at a; rw [← r2] at b
            omega)
          hsm'
        rw [key]
        congr 2
        apply Sorted.ext ((common_sorted hsl').seek _) ((common_sorted hsl).seek _)
        intro x
        rw [Spec.mem_seek (common_sorted hsl'), Spec.mem_seek (common_sorted hsl), mem_common, mem_common,
          Spec.mem_seek hsl, Spec.mem_seek hsr]
        constructor
        · rintro ⟨⟨⟨h1, _⟩, ⟨h2, _⟩, h3⟩, h4⟩
          exact ⟨⟨h1, h2, h3⟩, by omega⟩
        · rintro ⟨⟨h1, h2, h3⟩, h4⟩
          have hge : nb + BLOCK_WINDOW ≤ x :=
            Nat.le_of_not_lt (fun hlt => hnone x ⟨h1, h2, h4, hlt⟩)
          have a := ge_next hsl h1 hge
          have b := ge_next hsr h2 hge
          rw [← l2] at a; rw [← r2] at b
          exact ⟨⟨⟨h1, hge⟩, ⟨h2, hge⟩, h3⟩, by omega⟩
      · simp only [hE, Bool.false_eq_true, if_false]
        have hOV : All2 (VB VC nb) s.others los := all2_V_VB hO hdo
        have hmr : ∀ x ∈ inter (C.fillBitset nb s.left).1.1 (C.fillBitset nb s.right).1.1, nb ≤ x ∧ x < nb + BLOCK_WINDOW :=
          fun x hx => ⟨((hmask x).mp hx).2.2.1, ((hmask x).mp hx).2.2.2⟩
        obtain ⟨q1, q2, q3, q4, q5⟩ := denseOthers_law hC hb hOV
          (inter (C.fillBitset nb s.left).1.1 (C.fillBitset nb s.right).1.1)
          (max (max nb (C.fillBitset nb s.left).1.2) (C.fillBitset nb s.right).1.2) hmr
        have hso := SimpleUnion.all2_sorted hC hO
        generalize hq : denseOthers C nb s.others (inter (C.fillBitset nb s.left).1.1 (C.fillBitset nb s.right).1.1)
          (max (max nb (C.fillBitset nb s.left).1.2) (C.fillBitset nb s.right).1.2) = q at q1 q2 q3 q4 q5
        have hq5T : q.1.2 ≤ TERMINATED := by
          rcases q5 with h | ⟨lo, hlo, h⟩
          · rw [h]; omega
          · rw [h]; exact Spec.doc_le ((hso lo hlo).seek _)
        have key := ih (s := { s with left := (C.fillBitset nb s.left).2, right := (C.fillBitset nb s.right).2, others := q.2 })
          (nb := q.1.2) (cnt := cnt + q.1.1.length) (ll := Spec.seek (nb + BLOCK_WINDOW) ll)
          (lr := Spec.seek (nb + BLOCK_WINDOW) lr) (los := los.map (Spec.seek (nb + BLOCK_WINDOW)))
          (by omega) l3 r3 q2 (by rw [← l2]; omega) (by rw [← r2]; omega)
          (by
            intro lo' hlo'
            obtain ⟨lo, hlo, rfl⟩ := List.mem_map.mp hlo'
            exact q4 lo hlo)
          (by
            intro hlt
            rcases q5 with h | ⟨lo, hlo, h⟩
            · have h1 : (C.fillBitset nb s.left).1.2 < TERMINATED := by omega
              have h2 : (C.fillBitset nb s.right).1.2 < TERMINATED := by omega
              have a := small_next (l := ll) (fun x hx => hsm x (Or.inl hx)) (by rw [← l2]; exact h1)
              have b := small_next (l := lr) (fun x hx => hsm x (Or.inr (Or.inl hx))) (by rw [← r2]; exact h2)
              rw [← l2] at a; rw [← r2] at b
              omega
            · rw [h] at hlt ⊢
              exact small_next (l := lo) (fun x hx => hsm x (Or.inr (Or.inr ⟨lo, hlo, hx⟩))) hlt)
          (by
            rintro x (h | h | ⟨lo', hlo', h⟩)
            · exact hsm x (Or.inl (Spec.seek_ge _ _ _ h))
            · exact hsm x (Or.inr (Or.inl (Spec.seek_ge _ _ _ h)))
            · obtain ⟨lo, hlo, rfl⟩ := List.mem_map.mp hlo'
              exact hsm x (Or.inr (Or.inr ⟨lo, hlo, Spec.seek_ge _ _ _ h⟩)))
        rw [key]
        -- split the remaining common documents at the end of the block
        have hCs := common_sorted (lr := lr) (los := los) hsl
        have hsplit : Spec.seek nb (Common ll lr los)
            = (Spec.seek nb (Common ll lr los)).takeWhile (· < nb + BLOCK_WINDOW)
              ++ (Spec.seek nb (Common ll lr los)).dropWhile (· < nb + BLOCK_WINDOW) :=
          (List.takeWhile_append_dropWhile).symm
        have htake : (Spec.seek nb (Common ll lr los)).takeWhile (· < nb + BLOCK_WINDOW) = q.1.1 := by
          apply pairwise_ext ((hCs.seek nb).1.sublist (List.takeWhile_sublist _))
          · rw [q1]
            have : (inter (C.fillBitset nb s.left).1.1 (C.fillBitset nb s.right).1.1).Pairwise (· < ·) := by
              rw [l1]
              exact ((hsl.seek nb).1.sublist (List.takeWhile_sublist _)).sublist List.filter_sublist
            exact this.sublist List.filter_sublist
          · intro x
            rw [BUnion.mem_takeWhile_sorted (hCs.seek nb), Spec.mem_seek hCs, mem_common, q1, List.mem_filter, hmask]
            simp only [decide_eq_true_eq]
            constructor
            · rintro ⟨⟨⟨a, b, c⟩, d⟩, e⟩; exact ⟨⟨a, b, d, e⟩, c⟩
            · rintro ⟨⟨a, b, d, e⟩, c⟩; exact ⟨⟨⟨a, b, c⟩, d⟩, e⟩
        have hdrop : (Spec.seek nb (Common ll lr los)).dropWhile (· < nb + BLOCK_WINDOW)
            = Spec.seek q.1.2 (Common (Spec.seek (nb + BLOCK_WINDOW) ll) (Spec.seek (nb + BLOCK_WINDOW) lr)
                (los.map (Spec.seek (nb + BLOCK_WINDOW)))) := by
          have e1 : (Spec.seek nb (Common ll lr los)).dropWhile (· < nb + BLOCK_WINDOW)
              = Spec.seek (nb + BLOCK_WINDOW) (Common ll lr los) := Spec.seek_seek (by omega)
          rw [e1]
          apply Sorted.ext (hCs.seek _) ((common_sorted hsl').seek _)
          intro x
          rw [Spec.mem_seek hCs, Spec.mem_seek (common_sorted hsl'), mem_common, mem_common,
            Spec.mem_seek hsl, Spec.mem_seek hsr]
          constructor
          · rintro ⟨⟨h1, h2, h3⟩, hge⟩
            have a := ge_next hsl h1 hge
            have b := ge_next hsr h2 hge
            rw [← l2] at a; rw [← r2] at b
            have hq : q.1.2 ≤ x := by
              rcases q5 with h | ⟨lo, hlo, h⟩
              · rw [h]; omega
              · rw [h]; exact ge_next (hso lo hlo) (h3 lo hlo) hge
            exact ⟨⟨⟨h1, hge⟩, ⟨h2, hge⟩, (inall_map_seek hso hge).mpr h3⟩, hq⟩
          · rintro ⟨⟨⟨h1, hge⟩, ⟨h2, _⟩, h3⟩, _⟩
            exact ⟨⟨h1, h2, (inall_map_seek hso hge).mp h3⟩, hge⟩
        rw [hsplit, List.length_append, htake, hdrop]
        omega
    · simp only [hT, if_false]
      rw [seek_nil_of_term (common_sorted hsl) (by omega)]
      simp


theorem all2_VB_V {d : Nat} {es : List σ} {les : List (List Nat)} (h : All2 (VB VC d) es les) :
    All2 VC es les := by
  induction h with
  | nil => exact All2.nil
  | cons x _ ih => exact All2.cons x.1 ih

theorem all2_VB_bound {d : Nat} {es : List σ} {les : List (List Nat)} (h : All2 (VB VC d) es les) :
    ∀ lo ∈ les, Spec.doc lo ≤ d := by
  induction h with
  | nil => intro lo h; cases h
  | cons x _ ih =>
    intro lo hlo
    rcases List.mem_cons.mp hlo with rfl | h'
    · exact x.2
    · exact ih lo h'

theorem all2_small (hsmallC : ∀ {c l}, VC c l → ∀ x ∈ l, x + BLOCK_WINDOW ≤ TERMINATED)
    {es : List σ} {les : List (List Nat)} (h : All2 VC es les) :
    ∀ lo ∈ les, ∀ x ∈ lo, x + BLOCK_WINDOW ≤ TERMINATED := by
  induction h with
  | nil => intro lo h; cases h
  | cons y _ ih =>
    intro lo hlo x hx
    rcases List.mem_cons.mp hlo with rfl | h'
    · exact hsmallC y x hx
    · exact ih lo h' x hx

/-- `count_including_deleted` of the intersection (both branches) returns the number of common
documents still to come; needs the children's documents to stay `BLOCK_WINDOW` below the end marker
(the default `fill_bitset_block` is only specified there) -/
theorem count_law (hC : Lawful C VC WC)
    (hsmallC : ∀ {c l}, VC c l → ∀ x ∈ l, x + BLOCK_WINDOW ≤ TERMINATED) (fx : Fix)
    {s : State σ} {l : List Nat} (hV : V VC WC s l) : (count fx C s).1 = Spec.count l := by
  unfold count
  by_cases hd : s.dense = true
  · simp only [hd, if_true]
    have hfst : ∀ r : Nat × State σ,
        (if fx.interCountEnd = true then (r.1, { r.2 with left := C.seek TERMINATED r.2.left }) else r).1 = r.1 := by
      intro r; split <;> rfl
    rw [hfst]
    obtain ⟨ll, lr, los, hL, _, _, ha, rfl⟩ := hV
    have hsl := hC.sorted hL
    have hdl := hC.doc_eq hL
    unfold Spec.count
    cases hll : ll with
    | nil =>
      subst hll
      have : C.doc s.left = TERMINATED := by rw [hdl]; rfl
      rw [this]
      cases hf : FUEL with
      | zero => simp [denseLoop, Common]
      | succ n => simp [denseLoop, Common]
    | cons a m =>
      have hne : ll ≠ [] := by rw [hll]; simp
      obtain ⟨h1, h2, hRB, hOB, _, _⟩ := ha hne
      have hOV : All2 VC s.others los := all2_VB_V hOB
      have hObound : ∀ lo ∈ los, Spec.doc lo ≤ Spec.doc ll := all2_VB_bound hOB
      have hdmem : Spec.doc ll ∈ ll := by rw [hll]; simp [Spec.doc]
      have hsmall_d := hsmallC hL _ hdmem
      have key := denseLoop_law hC FUEL (s := s) (nb := C.doc s.left) (cnt := 0) (ll := ll) (lr := lr) (los := los)
        (by unfold FUEL; omega) hL hRB.1 hOV (by rw [hdl]; exact Nat.le_refl _) (by rw [hdl]; exact hRB.2)
        (by rw [hdl]; exact hObound) (by rw [hdl]; intro _; exact hsmall_d)
        (by
          rintro x (h | h | ⟨lo, hlo, h⟩)
          · exact hsmallC hL x h
          · exact hsmallC hRB.1 x h
          · exact all2_small hsmallC hOV lo hlo x h)
      rw [← hll, key, hdl]
      have : Spec.seek (Spec.doc ll) (Common ll lr los) = Common ll lr los :=
        Spec.seek_of_le (doc_le_doc_filter hsl _) (common_sorted hsl)
      rw [this]; simp
  · have hd' : s.dense = false := by simpa using hd
    simp only [hd', Bool.false_eq_true, if_false]
    exact defaultCount_law (core hC).toCore0 hV

/-- the intersection (with both `count_including_deleted` branches) over lawful children is lawful -/
theorem lawful (hC : Lawful C VC WC)
    (hsmallC : ∀ {c l}, VC c l → ∀ x ∈ l, x + BLOCK_WINDOW ≤ TERMINATED) (fx : Fix) :
    Lawful (ds C fx) (V VC WC) (W VC WC) where
  sorted := (core hC).sorted
  doc_eq := (core hC).doc_eq
  advance := (core hC).advance
  seek := (core hC).seek
  fillBuffer := fun h => defaultFillBuffer_law (core hC).toCore0 h
  fillBitset := fun h hd hm => defaultFillBitset_law (core hC) h hd hm
  count := fun h => count_law hC hsmallC fx h
  wsorted := (lawful_sparse hC).wsorted
  wdoc := (lawful_sparse hC).wdoc
  wseek := (lawful_sparse hC).wseek
  sdV := (lawful_sparse hC).sdV
  sdW := (lawful_sparse hC).sdW


end TantivyModel.DocSet.Inter
