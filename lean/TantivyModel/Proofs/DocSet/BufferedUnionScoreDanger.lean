import TantivyModel.Proofs.DocSet.BufferedUnionScore
/-! the score invariant of the SUM union through `seek_danger` and its danger zones -/
namespace TantivyModel.DocSet.BUnion
open TantivyModel.DocSet

variable {σ : Type} {C : DS σ} {VC : σ → List Nat → Prop} {WC : σ → Nat → List Nat → Prop}
  {g : σ → Nat → Nat}

theorem gsum_congr : ∀ {cs cs' : List σ}, cs.map g = cs'.map g → ∀ (ls : List (List Nat)) (x : Nat),
    gsum g cs ls x = gsum g cs' ls x
  | [], [], _, _, _ => rfl
  | [], _ :: _, h, _, _ => by simp at h
  | _ :: _, [], h, _, _ => by simp at h
  | c :: cs, c' :: cs', h, [], _ => rfl
  | c :: cs, c' :: cs', h, li :: ls, x => by
    simp only [List.map_cons, List.cons.injEq] at h
    rw [gsum_cons, gsum_cons, h.1, gsum_congr h.2 ls x]

theorem dangerChildren_ghost (hG : Inter.Ghost C g) (t : Nat) : ∀ (cs : List σ) (m : Nat),
    (dangerChildren C t cs m).2.map g = cs.map g
  | [], _ => rfl
  | c :: cs, m => by
    simp only [dangerChildren]
    have h := hG.seekDanger t c
    revert h
    generalize C.seekDanger t c = r
    rcases r with ⟨r1, c'⟩
    cases r1 with
    | found => intro h; simp only [List.map_cons] at h ⊢; rw [h]
    | lower b => intro h; simp only [List.map_cons] at h ⊢; rw [h, dangerChildren_ghost hG t cs (min m b)]

theorem gsum_seek' (hG : Inter.Ghost C g) {t x : Nat} (hx : t ≤ x) : ∀ (cs : List σ) (ls : List (List Nat)),
    (∀ li ∈ ls, Sorted li) →
    gsum g (cs.map (fun c => C.seek (max (C.doc c) t) c)) (ls.map (Spec.seek t)) x = gsum g cs ls x
  | [], _, _ => rfl
  | _ :: _, [], _ => rfl
  | c :: cs, li :: ls, hs => by
    simp only [List.map_cons, gsum_cons, hG.seek]
    rw [gsum_seek' hG hx cs ls (fun l hl => hs l (List.mem_cons_of_mem _ hl))]
    have := Inter.seek_agree (hs li (by simp)) t x hx
    by_cases hxl : x ∈ li
    · rw [if_pos (this.mpr hxl), if_pos hxl]
    · rw [if_neg (fun h => hxl (this.mp h)), if_neg hxl]

/-- the score invariant in a danger zone of the union for target `t`: the slots are as in a valid
state; the children (valid or themselves in danger zones) still account for every document `≥ t` -/
def SIW (g : σ → Nat → Nat) (G : Nat → Nat) (VC : σ → List Nat → Prop) (WC : σ → Nat → List Nat → Prop)
    (H : Nat) (s : State σ) (t : Nat) : Prop :=
  s.sum = true ∧ s.scores.size = H
    ∧ (∀ δ ∈ s.window, s.scores.getD δ 0 = G (s.ws + δ))
    ∧ (∀ δ, δ ∉ s.window → s.scores.getD δ 0 = 0)
    ∧ ∃ ls ls' U, All2 (Inter.DSt VC WC t) s.docsets ls' ∧ Exclude.Agree t ls ls' ∧ (∀ li ∈ ls, Sorted li)
        ∧ SimpleUnion.IsUnion U ls ∧ ∀ x, t ≤ x → (∃ li ∈ ls, x ∈ li) → G x = gsum g s.docsets ls x

theorem SIW_of_SI (hC : Lawful C VC WC) {G : Nat → Nat} {H : Nat} {s : State σ} {l : List Nat} (hV : V VC H s l)
    (hS : SI0 g G VC H s) (t : Nat) : SIW g G VC WC H s t := by
  obtain ⟨ls, U, h2, _, hU, _⟩ := hV
  obtain ⟨k1, k2, k3, k4, k5⟩ := hS
  exact ⟨k1, k2, k3, k4, ls, ls, U, all2_V_dst h2, Exclude.Agree.refl t ls, SimpleUnion.all2_sorted hC h2, hU,
    fun x _ hx => k5 ls h2 x hx⟩

theorem SIW.mono {G : Nat → Nat} {H : Nat} {s : State σ} {t t' : Nat} (h : SIW g G VC WC H s t) (htt : t ≤ t') :
    SIW g G VC WC H s t' := by
  obtain ⟨k1, k2, k3, k4, ls, ls', U, h2, hag, hss, hU, hF⟩ := h
  exact ⟨k1, k2, k3, k4, ls, ls', U, all2_dst_mono h2 htt, Agree.mono hag htt, hss, hU,
    fun x hx hxl => hF x (Nat.le_trans htt hx) hxl⟩

/-- the tail of the far branch of `seek` (all slots cleared) -/
theorem far_SI (hC : Lawful C VC WC) (hscore : ∀ {c l}, VC c l → VC (C.score c).2 l)
    (hG : Inter.Ghost C g) (hg : ∀ {c l}, VC c l → l ≠ [] → (C.score c).1 = g c (C.doc c)) {G : Nat → Nat}
    {H : Nat} (hH : 64 ∣ H) (hH0 : 0 < H) (s : State σ) (sc : Array Nat) {ds1 : List σ}
    {lsT : List (List Nat)} {UT : List Nat} (h1 : All2 VC ds1 lsT) (hU : SimpleUnion.IsUnion UT lsT)
    (hsum : s.sum = true) (hsz : sc.size = H) (hz : ∀ δ, sc.getD δ 0 = 0)
    (hF : ∀ x, (∃ li ∈ lsT, x ∈ li) → G x = gsum g ds1 lsT x) :
    SI g G VC H (match refill C H ({ s with window := [], scores := sc, docsets := ds1.filter (fun c => C.doc c != TERMINATED) } : State σ) with
      | none => { ({ s with window := [], scores := sc, docsets := ds1.filter (fun c => C.doc c != TERMINATED) } : State σ) with doc := TERMINATED }
      | some s2 => advance C H s2) := by
  obtain ⟨ls', i1, i2, i3⟩ := filter_nonempty hC h1
  have hU' : SimpleUnion.IsUnion UT ls' := ⟨hU.1, fun x => by rw [hU.2 x, i3 x]⟩
  have hS0 : SI0 g G VC H ({ s with window := [], scores := sc, docsets := ds1.filter (fun c => C.doc c != TERMINATED) } : State σ) := by
    refine ⟨hsum, hsz, ?_, fun δ _ => hz δ, ?_⟩
    · intro δ hδ; cases hδ
    · intro ls2 hls2 x hx
      have e := all2_unique hC hls2 i1
      subst e
      show G x = gsum g (ds1.filter (fun c => C.doc c != TERMINATED)) ls2 x
      rw [gsum_filter hC h1 ls2 hls2 x]
      exact hF x ((i3 x).mp hx)
  have key := refill_pop_scores hC hscore hG hg hH hH0
    (s' := ({ s with window := [], scores := sc, docsets := ds1.filter (fun c => C.doc c != TERMINATED) } : State σ))
    rfl i1 i2 hU' hS0
  revert key
  generalize refill C H ({ s with window := [], scores := sc, docsets := ds1.filter (fun c => C.doc c != TERMINATED) } : State σ) = r
  cases r with
  | none =>
    intro _
    exact ⟨hS0.congr rfl rfl rfl rfl rfl, fun h => absurd h (Nat.lt_irrefl _)⟩
  | some s2 =>
    rintro ⟨s3, f1, hS3⟩
    simp only [advance, f1]
    exact hS3

/-- `seek(t')` from a danger zone of a target `≤ t'` (or from any state whose buffered part lies below
`t'`): everything is cleared and rebuilt from the re-validated children -/
theorem seek_far_SI (hC : Lawful C VC WC) (hscore : ∀ {c l}, VC c l → VC (C.score c).2 l)
    (hG : Inter.Ghost C g) (hg : ∀ {c l}, VC c l → l ≠ [] → (C.score c).1 = g c (C.doc c)) {G : Nat → Nat}
    {H : Nat} (hH : 64 ∣ H) (hH0 : 0 < H) (fx : Fix) {s : State σ} {t t' : Nat}
    (htt : t ≤ t') (ht : t' ≤ TERMINATED) (hdoc : s.doc < t') (hfar : s.ws + H ≤ t')
    (hS : SIW g G VC WC H s t) : SI g G VC H (seek fx C H t' s) := by
  obtain ⟨k1, k2, _, _, ls, ls', U, h2, hag, hss, hU, hF⟩ := hS
  unfold seek
  have hge : ¬ s.doc ≥ t' := by omega
  have hgap : ¬ t' - s.ws < H := by omega
  simp only [hge, if_false, inHorizonGap_eq, hgap, decide_false, Bool.false_eq_true, revalidate_guard, Bool.or_true, if_true]
  have h3 := revalidate_dst hC htt ht h2
  rw [Inter.agree_map_seek hag htt hss (all2_dst_sorted hC h2)] at h3
  have hsc : (if s.sum then Array.replicate s.scores.size 0 else s.scores) = Array.replicate s.scores.size 0 := by
    rw [k1]; rfl
  refine far_SI hC hscore hG hg hH hH0 s _ h3 (isUnion_seek hU hss t') k1 (by rw [hsc]; simpa using k2)
    (fun δ => by rw [hsc]; exact getD_replicate _ _) ?_
  intro x hx
  obtain ⟨lj, hlj, hxj⟩ := hx
  obtain ⟨li, hli, rfl⟩ := List.mem_map.mp hlj
  have hxl := (Spec.mem_seek (hss li hli) x).mp hxj
  rw [gsum_seek' hG hxl.2 s.docsets ls hss]
  exact hF x (Nat.le_trans htt hxl.2) ⟨li, hli, hxl.1⟩

/-- danger zones of the union with the score invariant -/
def WS (g : σ → Nat → Nat) (G : Nat → Nat) (VC : σ → List Nat → Prop) (WC : σ → Nat → List Nat → Prop)
    (H : Nat) (s : State σ) (t : Nat) (l : List Nat) : Prop :=
  (∃ l0, VS g G VC H s l0 ∧ t ∉ l0 ∧ l = Spec.seek t l0)
  ∨ ((∃ ls ls' U, All2 (Inter.DSt VC WC t) s.docsets ls' ∧ Exclude.Agree t ls ls' ∧ (∀ li ∈ ls, Sorted li)
      ∧ SimpleUnion.IsUnion U ls ∧ s.doc < t ∧ s.ws + H ≤ t ∧ t ≤ TERMINATED
      ∧ (∀ x ∈ Spec.seek t U, t < x) ∧ l = Spec.seek t U) ∧ SIW g G VC WC H s t)

theorem WS.toW {G : Nat → Nat} {H : Nat} {s : State σ} {t : Nat} {l : List Nat}
    (h : WS g G VC WC H s t l) : W VC WC H s t l := by
  rcases h with ⟨l0, h, a, b⟩ | ⟨h, _⟩
  · exact Or.inl ⟨l0, h.1, a, b⟩
  · exact Or.inr h

section
variable (hC : Lawful C VC WC) (hscore : ∀ {c l}, VC c l → VC (C.score c).2 l)
  (hG : Inter.Ghost C g) (hg : ∀ {c l}, VC c l → l ≠ [] → (C.score c).1 = g c (C.doc c)) {G : Nat → Nat}
  {H : Nat} (hH : 64 ∣ H) (hH0 : 0 < H)
include hC hscore hG hg hH hH0

theorem seek_VS_any (fx : Fix) {s : State σ} {l : List Nat} {t : Nat}
    (hV : VS g G VC H s l) (ht : t ≤ TERMINATED) : VS g G VC H (seek fx C H t s) (Spec.seek t l) := by
  by_cases hd : s.doc ≤ t
  · exact ⟨seek_law hC hscore hH hH0 fx hV.1 hd ht, seek_SI hC hscore hG hg hH hH0 fx hV.1 hV.2 hd ht⟩
  · have hcore := core0 hC hscore hH hH0
    have hge : s.doc ≥ t := by omega
    unfold seek
    simp only [hge, if_true]
    rw [Spec.seek_of_le (by rw [← hcore.doc_eq hV.1]; exact hge) (hcore.sorted hV.1)]
    exact hV

theorem sd_buffered_S {s' : State σ} {l : List Nat} {t : Nat}
    (hs : Sorted l) (htlt : t < TERMINATED) (hV' : VS g G VC H s' (Spec.seek t l)) :
    SDPost (VS g G VC H) (WS g G VC WC H) l t True (if s'.doc = t then (SD.found, s') else (SD.lower s'.doc, s')) := by
  have hcore := core0 hC hscore hH hH0
  have hd' := hcore.doc_eq hV'.1
  have ht : t ≤ TERMINATED := Nat.le_of_lt htlt
  have hge : t ≤ Spec.doc (Spec.seek t l) := Spec.seek_head_ge ht
  by_cases hf : s'.doc = t
  · simp only [hf, if_true, SDPost]
    have : Spec.doc (Spec.seek t l) ∈ Spec.seek t l := Spec.doc_mem (by rw [← hd', hf]; exact htlt)
    rw [← hd', hf] at this
    exact ⟨Spec.seek_ge t l t this, hV'⟩
  · simp only [hf, if_false, SDPost]
    have hnm : t ∉ l := by
      intro h; exact hf (by rw [hd', Spec.doc_seek_of_mem hs h])
    refine ⟨hnm, Or.inl ⟨Spec.seek t l, hV', ?_, (Spec.seek_seek (Nat.le_refl t)).symm⟩, Or.inl ?_, ?_, fun _ => ?_⟩
    · intro h; exact hnm (Spec.seek_ge t l t h)
    · have : s'.doc ≠ t := hf
      rw [hd'] at this ⊢; omega
    · rw [hd']; exact Spec.doc_le (hs.seek t)
    · rw [hd']; exact Nat.le_refl _

/-- the danger-zone state the far path of `seek_danger` leaves keeps the score invariant -/
theorem danger_SIW {s : State σ} {t t0 : Nat} (ht0 : t0 ≤ t) (ht : t ≤ TERMINATED)
    (hS : SIW g G VC WC H s t0) :
    SIW g G VC WC H ({ s with docsets := (dangerChildren C t s.docsets TERMINATED).2 } : State σ) t := by
  obtain ⟨k1, k2, k3, k4, ls, ls', U, h2, hag, hss, hU, hF⟩ := hS
  obtain ⟨ls'', i1, i2, _, _⟩ := dangerChildren_law hC ht (all2_dst_mono h2 ht0) TERMINATED
  refine ⟨k1, k2, k3, k4, ls, ls'', U, i1, Agree.trans (Agree.mono hag ht0) i2, hss, hU, ?_⟩
  intro x hx hxl
  show G x = gsum g (dangerChildren C t s.docsets TERMINATED).2 ls x
  rw [gsum_congr (dangerChildren_ghost hG t s.docsets TERMINATED) ls x]
  exact hF x (Nat.le_trans ht0 hx) hxl

theorem sd_far_S (fx : Fix) {s : State σ} {t t0 : Nat}
    {ls ls' : List (List Nat)} {U l : List Nat} (ht0 : t0 ≤ t) (htlt : t < TERMINATED)
    (hdoc : s.doc < t) (hfar : s.ws + H ≤ t) (h2 : All2 (Inter.DSt VC WC t0) s.docsets ls')
    (hag : Exclude.Agree t0 ls ls') (hss : ∀ li ∈ ls, Sorted li) (hU : SimpleUnion.IsUnion U ls)
    (hmem : t ∈ l ↔ t ∈ U) (hseek : Spec.seek t l = Spec.seek t U) (hS : SIW g G VC WC H s t0) :
    SDPost (VS g G VC H) (WS g G VC WC H) l t True
      (if (dangerChildren C t s.docsets TERMINATED).1.1 then
          (SD.found, seek fx C H t { s with docsets := (dangerChildren C t s.docsets TERMINATED).2 })
        else (SD.lower (dangerChildren C t s.docsets TERMINATED).1.2,
          { s with docsets := (dangerChildren C t s.docsets TERMINATED).2 })) := by
  have ht : t ≤ TERMINATED := Nat.le_of_lt htlt
  have hS1 := danger_SIW hC hscore hG hg hH hH0 ht0 ht hS
  obtain ⟨ls'', i1, i2, i3, i4⟩ := dangerChildren_law hC ht (all2_dst_mono h2 ht0) TERMINATED
  have hag' : Exclude.Agree t ls ls'' := Agree.trans (Agree.mono hag ht0) i2
  have hss' := all2_dst_sorted hC h2
  by_cases hhit : (dangerChildren C t s.docsets TERMINATED).1.1 = true
  · simp only [hhit, if_true, SDPost]
    obtain ⟨li', hli', hx⟩ := i3 hhit
    have hinU : t ∈ U := by
      obtain ⟨li, hli, hx'⟩ := (agree_union (Agree.mono hag ht0) (Nat.le_refl t)).mp ⟨li', hli', hx⟩
      exact (hU.2 t).mpr ⟨li, hli, hx'⟩
    refine ⟨hmem.mpr hinU, ?_⟩
    rw [hseek]
    exact ⟨seek_far_agree hC hscore hH hH0 fx (s := { s with docsets := (dangerChildren C t s.docsets TERMINATED).2 })
        (Nat.le_refl t) ht hdoc hfar i1 hag' hss hU,
      seek_far_SI hC hscore hG hg hH hH0 fx (s := { s with docsets := (dangerChildren C t s.docsets TERMINATED).2 })
        (Nat.le_refl t) ht hdoc hfar hS1⟩
  · have hmiss : (dangerChildren C t s.docsets TERMINATED).1.1 = false := by simpa using hhit
    simp only [hmiss, Bool.false_eq_true, if_false, SDPost]
    obtain ⟨j1, j2, j3, j4⟩ := i4 hmiss
    have hnotU : t ∉ U := by
      intro h
      obtain ⟨li, hli, hx⟩ := (hU.2 t).mp h
      obtain ⟨li', hli', hx'⟩ := (agree_union (Agree.mono hag ht0) (Nat.le_refl t)).mpr ⟨li, hli, hx⟩
      exact j1 li' hli' hx'
    have hgt : ∀ x ∈ Spec.seek t U, t < x := by
      intro x hx
      have := (Spec.mem_seek hU.1 x).mp hx
      have : x ≠ t := by rintro rfl; exact hnotU this.1
      omega
    refine ⟨fun h => hnotU (hmem.mp h), Or.inr ⟨⟨ls, ls'', U, i1, hag', hss, hU, hdoc, hfar, ht, hgt, hseek⟩, hS1⟩,
      j3 (Or.inr rfl), by omega, fun _ => ?_⟩
    rw [hseek]
    apply Spec.doc_ge_of_all _ (by omega)
    intro x hx
    have hxm := (Spec.mem_seek hU.1 x).mp hx
    obtain ⟨li, hli, hxl⟩ := (hU.2 x).mp hxm.1
    obtain ⟨li', hli', hxl'⟩ := (agree_union (Agree.mono hag ht0) hxm.2).mpr ⟨li, hli, hxl⟩
    exact Nat.le_trans (j4 li' hli') (Inter.ge_next (hss' li' hli') hxl' hxm.2)

/-- `seek_danger` from a valid state, with the scores -/
theorem sdV_S (fx : Fix) {s : State σ} {l : List Nat} {t : Nat}
    (hVS : VS g G VC H s l) (ht : t ≤ TERMINATED) :
    SDPost (VS g G VC H) (WS g G VC WC H) l t True (seekDanger fx C H t s) := by
  have hV := hVS.1
  have hcore := core0 hC hscore hH hH0
  have hsl := hcore.sorted hV
  unfold seekDanger
  by_cases hT : t ≥ TERMINATED
  · have hte : t = TERMINATED := by omega
    simp only [hT, if_true, SDPost]
    have hnm : t ∉ l := by intro h; have := hsl.2 t h; omega
    exact ⟨hnm, Or.inl ⟨l, hVS, hnm, rfl⟩, (by first | exact Or.inr rfl | exact Or.inr trivial), Nat.le_refl _, fun _ => by rw [← hte]; exact Spec.seek_head_ge ht⟩
  · simp only [hT, if_false]
    have htlt : t < TERMINATED := by omega
    rw [dangerBuffered_eq]
    by_cases hb : (decide (t < s.ws) || (decide (s.ws ≤ t) && decide (t - s.ws < H))) = true
    · simp only [hb, if_true]
      exact sd_buffered_S hC hscore hG hg hH hH0 hsl htlt (seek_VS_any hC hscore hG hg hH hH0 fx hVS ht)
    · simp only [hb, Bool.false_eq_true, if_false]
      have hfar : s.ws + H ≤ t := by
        simp only [Bool.or_eq_true, Bool.and_eq_true, decide_eq_true_eq, not_or, not_and] at hb
        omega
      have hSW := SIW_of_SI (WC := WC) hC hV hVS.2.1 t
      obtain ⟨ls, U, h2, hne, hU, hwp, hwb, hUh, _, hcase⟩ := hV
      rcases hcase with ⟨hdT, hw0, hls, rfl⟩ | ⟨hws, hdH, hlt, rfl⟩
      · subst hls
        have hd0 : s.docsets = [] := all2_nil_right h2
        simp only [hd0, dangerChildren, Bool.false_eq_true, if_false, SDPost]
        have hV0 : VS g G VC H { s with docsets := [] } [] :=
          ⟨⟨[], U, All2.nil, by simp, hU, hwp, hwb, hUh, Sorted.nil, Or.inl ⟨hdT, hw0, rfl, rfl⟩⟩,
            hVS.2.1.congr rfl rfl rfl rfl hd0.symm, hVS.2.2⟩
        exact ⟨by simp, Or.inl ⟨[], hV0, by simp, rfl⟩, (by first | exact Or.inr rfl | exact Or.inr trivial), Nat.le_refl _, fun _ => by simp [Spec.seek, Spec.doc]⟩
      · have hss := SimpleUnion.all2_sorted hC h2
        have h2d : All2 (Inter.DSt VC WC t) s.docsets ls := all2_V_dst h2
        have hmem : t ∈ s.doc :: (s.window.map (s.ws + ·) ++ U) ↔ t ∈ U := by
          simp only [List.mem_cons, List.mem_append, List.mem_map]
          constructor
          · rintro (h | ⟨δ, hδ, h⟩ | h)
            · omega
            · have := (hwb δ hδ).1; omega
            · exact h
          · intro h; exact Or.inr (Or.inr h)
        have hseek : Spec.seek t (s.doc :: (s.window.map (s.ws + ·) ++ U)) = Spec.seek t U := by
          apply Sorted.ext (hsl.seek t) (hU.1.seek t)
          intro x
          rw [Spec.mem_seek hsl, Spec.mem_seek hU.1]
          simp only [List.mem_cons, List.mem_append, List.mem_map]
          constructor
          · rintro ⟨(h | ⟨δ, hδ, rfl⟩ | h), hx⟩
            · omega
            · have := (hwb δ hδ).1; omega
            · exact ⟨h, hx⟩
          · rintro ⟨h, hx⟩; exact ⟨Or.inr (Or.inr h), hx⟩
        exact sd_far_S hC hscore hG hg hH hH0 fx (Nat.le_refl t) htlt (by omega) hfar h2d (Exclude.Agree.refl t ls) hss hU hmem hseek hSW

/-- `seek_danger` from a danger zone, with the scores -/
theorem sdW_S (fx : Fix) {s : State σ} {l : List Nat} {t0 t : Nat}
    (hW : WS g G VC WC H s t0 l) (h0 : t0 ≤ t) (ht : t ≤ TERMINATED) :
    SDPost (VS g G VC H) (WS g G VC WC H) l t True (seekDanger fx C H t s) := by
  rcases hW with ⟨l0, hV, hn, rfl⟩ | ⟨⟨ls, ls', U, h2, hag, hss, hU, hdoc, hfar, ht0, hgt, rfl⟩, hS⟩
  · have hs := (core0 hC hscore hH hH0).sorted hV.1
    refine SDPost.congr_list (sdV_S hC hscore hG hg hH hH0 fx hV ht) ?_ (Spec.seek_seek h0)
    rw [Spec.mem_seek hs]
    exact ⟨fun h => h.1, fun h => ⟨h, h0⟩⟩
  · have hUs := hU.1
    unfold seekDanger
    by_cases hT : t ≥ TERMINATED
    · have hte : t = TERMINATED := by omega
      simp only [hT, if_true, SDPost]
      have hnm : t ∉ Spec.seek t0 U := by
        intro h; have := (hUs.seek t0).2 t h; omega
      refine ⟨hnm, Or.inr ⟨⟨ls, ls', U, all2_dst_mono h2 h0, Agree.mono hag h0, hss, hU, by omega, by omega, ht, ?_,
        Spec.seek_seek h0⟩, hS.mono h0⟩, (by first | exact Or.inr rfl | exact Or.inr trivial), Nat.le_refl _, fun _ => by rw [← hte]; exact Spec.seek_head_ge ht⟩
      intro x hx
      have := (Spec.mem_seek hUs x).mp hx
      have := hUs.2 x this.1
      omega
    · simp only [hT, if_false]
      have htlt : t < TERMINATED := by omega
      rw [dangerBuffered_eq]
      have hb : (decide (t < s.ws) || (decide (s.ws ≤ t) && decide (t - s.ws < H))) = false := by
        simp only [Bool.or_eq_false_iff, Bool.and_eq_false_iff, decide_eq_false_iff_not]
        constructor
        · omega
        · right; omega
      simp only [hb, Bool.false_eq_true, if_false]
      refine sd_far_S hC hscore hG hg hH hH0 fx h0 htlt (by omega) (by omega) h2 hag hss hU ?_ (Spec.seek_seek h0) hS
      rw [Spec.mem_seek hUs]
      exact ⟨fun h => h.1, fun h => ⟨h, h0⟩⟩

theorem wseek_S (fx : Fix) {s : State σ} {l : List Nat} {t0 t : Nat}
    (hW : WS g G VC WC H s t0 l) (h0 : t0 ≤ t) (hd : s.doc ≤ t) (ht : t ≤ TERMINATED) :
    VS g G VC H (seek fx C H t s) (Spec.seek t l) := by
  rcases hW with ⟨l0, hV, hn, rfl⟩ | ⟨⟨ls, ls', U, h2, hag, hss, hU, hdoc, hfar, ht0, hgt, rfl⟩, hS⟩
  · rw [Spec.seek_seek h0]
    exact ⟨seek_law hC hscore hH hH0 fx hV.1 hd ht, seek_SI hC hscore hG hg hH hH0 fx hV.1 hV.2 hd ht⟩
  · rw [Spec.seek_seek h0]
    exact ⟨seek_far_agree hC hscore hH hH0 fx h0 ht (by omega) (by omega) h2 hag hss hU,
      seek_far_SI hC hscore hG hg hH hH0 fx h0 ht (by omega) (by omega) hS⟩

/-- **the SUM union with its scores is lawful** (its own `fill_buffer` replaced by the trait default):
every method keeps "valid and scoring the total of the children" / the danger zones with scores -/
theorem lawful_S (fx : Fix) : Lawful (dsNF C H fx) (VS g G VC H) (WS g G VC WC H) where
  sorted := (coreVS hC hscore hG hg G hH hH0).sorted
  doc_eq := (coreVS hC hscore hG hg G hH hH0).doc_eq
  advance := (coreVS hC hscore hG hg G hH hH0).advance
  seek := fun h hd ht => ⟨seek_law hC hscore hH hH0 fx h.1 hd ht, seek_SI hC hscore hG hg hH hH0 fx h.1 h.2 hd ht⟩
  fillBuffer := fun h => defaultFillBuffer_law (coreVS hC hscore hG hg G hH hH0) h
  fillBitset := fun h hd hm => defaultFillBitset_law
    (seek := seek fx C H)
    { toCore0 := coreVS hC hscore hG hg G hH hH0
      seek := fun h hd ht => ⟨seek_law hC hscore hH hH0 fx h.1 hd ht, seek_SI hC hscore hG hg hH hH0 fx h.1 h.2 hd ht⟩ } h hd hm
  count := fun h => count_law hC hscore hH hH0 fx h.1
  wsorted := fun h => wsorted_law hC hscore hH hH0 h.toW
  wdoc := fun h => wdoc_law hC hscore hH hH0 h.toW
  wseek := fun h h0 hd ht => wseek_S hC hscore hG hg hH hH0 fx h h0 hd ht
  sdV := fun h ht => sdV_S hC hscore hG hg hH hH0 fx h ht
  sdW := fun h h0 ht => sdW_S hC hscore hG hg hH hH0 fx h h0 ht

end

end TantivyModel.DocSet.BUnion

namespace TantivyModel.DocSet

/-- the implementation state after a call program -/
def implFinal {σ : Type} (D : DS σ) (s : σ) : List Op → σ
  | [] => s
  | op :: rest => implFinal D (implStep D s op).2 rest

/-- the specification state after a call program -/
def specFinal (a : SpecState) : List Op → SpecState
  | [] => a
  | op :: rest => specFinal (specStep a op).2 rest

/-- a lawful implementation stays related to the specification cursor along every legal program -/
theorem program_inv {σ : Type} (D : DS σ) (V : σ → List Nat → Prop) (W : σ → Nat → List Nat → Prop)
    (hD : Lawful D V W) : ∀ (prog : List Op) (s : σ) (a : SpecState), Inv V W s a →
      legalProg a prog = true → (∀ op ∈ prog, op ≠ Op.count) →
      Inv V W (implFinal D s prog) (specFinal a prog) := by
  intro prog
  induction prog with
  | nil => intro s a h _ _; exact h
  | cons op rest ih =>
    intro s a hI hl hnc
    simp only [legalProg, Bool.and_eq_true] at hl
    obtain ⟨⟨h1, _⟩, h3⟩ := hl
    obtain ⟨_, e2⟩ := step_equiv D V W hD op s a hI h1
    exact ih _ _ (e2 (hnc op (by simp))) h3 (fun o ho => hnc o (List.mem_cons_of_mem _ ho))

end TantivyModel.DocSet

namespace TantivyModel.DocSet.BUnion
variable {σ : Type} {C : DS σ} {VC : σ → List Nat → Prop} {WC : σ → Nat → List Nat → Prop}
  {g : σ → Nat → Nat}

/-- the SUM union built over valid children, after ANY legal call program of doc / advance / seek /
seek_danger sequences / fill_bitset_block / (default) fill_buffer: the observations are the
specification cursor's, and whenever the cursor is not in a danger zone the union sits on the
specification's document and scores the total of the children containing it -/
theorem score_after_program (hC : Lawful C VC WC) (hscore : ∀ {c l}, VC c l → VC (C.score c).2 l)
    (hG : Inter.Ghost C g) (hg : ∀ {c l}, VC c l → l ≠ [] → (C.score c).1 = g c (C.doc c))
    {H : Nat} (hH : 64 ∣ H) (hH0 : 0 < H) (fx : Fix) {cs : List σ} {ls : List (List Nat)} {U : List Nat}
    (h : All2 VC cs ls) (hU : SimpleUnion.IsUnion U ls) (prog : List Op)
    (hl : legalProg ⟨U, none⟩ prog = true) (hnc : ∀ op ∈ prog, op ≠ Op.count) :
    implRun (dsNF C H fx) (build C H true cs) prog = specRun ⟨U, none⟩ prog
      ∧ ((specFinal ⟨U, none⟩ prog).danger = none →
          (implFinal (dsNF C H fx) (build C H true cs) prog).doc = Spec.doc (specFinal ⟨U, none⟩ prog).rest
            ∧ ((implFinal (dsNF C H fx) (build C H true cs) prog).doc < TERMINATED →
                ((dsNF C H fx).score (implFinal (dsNF C H fx) (build C H true cs) prog)).1
                  = gsum g cs ls (implFinal (dsNF C H fx) (build C H true cs) prog).doc)) := by
  have hL := lawful_S (WC := WC) hC hscore hG hg (G := gsum g cs ls) hH hH0 fx
  have h0 : VS g (gsum g cs ls) VC H (build C H true cs) U :=
    ⟨build_V hC hscore hH hH0 true h hU, build_SI hC hscore hG hg hH hH0 h hU⟩
  have hI : Inv (VS g (gsum g cs ls) VC H) (WS g (gsum g cs ls) VC WC H) (build C H true cs) ⟨U, none⟩ :=
    Or.inl ⟨rfl, h0⟩
  refine ⟨program_equiv _ _ _ hL prog _ _ hI hl, fun hnd => ?_⟩
  have hF := program_inv _ _ _ hL prog _ _ hI hl hnc
  rcases hF with ⟨_, hV⟩ | ⟨t0, hd, _⟩
  · exact ⟨(core0 hC hscore hH hH0).doc_eq hV.1, hV.2.2⟩
  · rw [hnd] at hd; cases hd

end TantivyModel.DocSet.BUnion
