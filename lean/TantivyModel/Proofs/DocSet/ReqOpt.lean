import TantivyModel.Proofs.DocSet.Default
import TantivyModel.Model.DocSet.ReqOpt
import TantivyModel.Proofs.DocSet.Exclude
/-! `RequiredOptionalScorer` refines the cursor of its required child (whatever the optional is). -/
namespace TantivyModel.DocSet.ReqOpt
open TantivyModel.DocSet

variable {σ τ : Type} {R : DS σ} {O : DS τ} {VR : σ → List Nat → Prop}
  {WR : σ → Nat → List Nat → Prop}

def V (VR : σ → List Nat → Prop) (s : State σ τ) (l : List Nat) : Prop := VR s.req l
def W (WR : σ → Nat → List Nat → Prop) (s : State σ τ) (t : Nat) (l : List Nat) : Prop := WR s.req t l

theorem core (hR : Lawful R VR WR) : Core (doc (τ := τ) R) (advance R) (seek R) (V VR) where
  sorted := fun h => hR.sorted h
  doc_eq := fun h => hR.doc_eq h
  advance := fun h => hR.advance h
  seek := fun h hd ht => hR.seek h hd ht

theorem lawful (hR : Lawful R VR WR) : Lawful (ds R O) (V VR) (W (τ := τ) WR) where
  sorted := fun h => hR.sorted h
  doc_eq := fun h => hR.doc_eq h
  advance := fun h => hR.advance h
  seek := fun h hd ht => hR.seek h hd ht
  fillBuffer := fun h => defaultFillBuffer_law (core hR).toCore0 h
  fillBitset := fun h hd hm => defaultFillBitset_law (core hR) h hd hm
  count := fun h => defaultCount_law (core hR).toCore0 h
  wsorted := fun h => hR.wsorted h
  wdoc := fun h => hR.wdoc h
  wseek := fun h h0 hd ht => hR.wseek h h0 hd ht
  sdV := by
    intro s l t hV ht
    exact SDPost.map (V := VR) (W := WR) (V' := V VR) (W' := W WR) (fun r => { s with req := r, cache := none })
      (fun _ _ h => h) (fun _ _ _ h => h) (hR.sdV hV ht)
  sdW := by
    intro s t0 l t hW h0 ht
    exact SDPost.map (V := VR) (W := WR) (V' := V VR) (W' := W WR) (fun r => { s with req := r, cache := none })
      (fun _ _ h => h) (fun _ _ _ h => h) (hR.sdW hW h0 ht)

/-- `score()` never changes the document sequence: it only touches the optional child and the
cache (and the required child's own `score`, which must preserve its abstraction) -/
theorem score_preserves
    (hscore : ∀ {r l}, VR r l → VR (R.score r).2 l) {s : State σ τ} {l : List Nat}
    (hV : V VR s l) : V VR (score R O s).2 l := by
  unfold score
  cases hc : s.cache with
  | some v => simpa [hc] using hV
  | none =>
    simp only [hc]
    have := hscore hV
    split <;> (try split) <;> exact this

/-- score path independence: with an empty cache, `score()` is the required child's score plus the
optional child's score iff the optional child contains the current document — whatever the
positions the two children were brought to (the optional child only has to be valid and not
beyond the current document's successors, i.e. its remaining list still holds every optional
document `≥ doc`) -/
theorem score_value {VO : τ → List Nat → Prop} {WO : τ → Nat → List Nat → Prop}
    (hO : Lawful O VO WO) {fR fO : Nat → Nat}
    (hfR : ∀ {r}, (R.score r).1 = fR (R.doc r))
    (hfO : ∀ {o}, (O.score o).1 = fO (O.doc o))
    {s : State σ τ} {lo : List Nat} (hVO : VO s.opt lo) (hc : s.cache = none) (hsum : s.sum = true)
    (hd : R.doc s.req < TERMINATED) :
    (score R O s).1 = fR (R.doc s.req) + (if R.doc s.req ∈ lo then fO (R.doc s.req) else 0) := by
  have hso := hO.sorted hVO
  unfold score
  simp only [hc, hsum, if_true]
  by_cases h1 : O.doc s.opt ≤ R.doc s.req
  · simp only [h1, if_true]
    have hV' := hO.seek hVO h1 (Nat.le_of_lt hd)
    have hd' := hO.doc_eq hV'
    by_cases h2 : O.doc (O.seek (R.doc s.req) s.opt) = R.doc s.req
    · simp only [h2, if_true]
      have hmem : R.doc s.req ∈ lo := by
        have : Spec.doc (Spec.seek (R.doc s.req) lo) ∈ Spec.seek (R.doc s.req) lo :=
          Spec.doc_mem (by rw [← hd', h2]; exact hd)
        rw [← hd', h2] at this
        exact Spec.seek_ge _ _ _ this
      simp only [hmem, if_true, hfR, hfO, h2]
    · simp only [h2, if_false]
      have hnm : R.doc s.req ∉ lo := by
        intro hm; exact h2 (by rw [hd', Spec.doc_seek_of_mem hso hm])
      simp only [hnm, if_false, hfR, Nat.add_zero]
  · simp only [h1, if_false]
    have hnm : R.doc s.req ∉ lo := by
      intro hm
      have := Exclude.all_ge_doc hso _ hm
      rw [← hO.doc_eq hVO] at this
      omega
    simp only [hnm, if_false, hfR, Nat.add_zero]

end TantivyModel.DocSet.ReqOpt
