import TantivyModel.Proofs.DocSet.Default
import TantivyModel.Model.DocSet.ReqOpt
/-! `RequiredOptionalScorer` refines the cursor of its required child (whatever the optional is). -/
namespace TantivyModel.DocSet.ReqOpt
open TantivyModel.DocSet

variable {σ τ : Type} {R : DS σ} {O : DS τ} {VR : σ → List Nat → Prop}
  {WR : σ → Nat → List Nat → Prop}

def V (VR : σ → List Nat → Prop) (s : State σ τ) (l : List Nat) : Prop := VR s.req l
def W (WR : σ → Nat → List Nat → Prop) (s : State σ τ) (t : Nat) (l : List Nat) : Prop := WR s.req t l

theorem core (hR : Lawful R VR WR) : Core (doc (τ := τ) R) (advance R) (seek R) (V VR) where
  sorted := fun h => hR.sorted h
  doc_eq := fun h => hR.doc_eq h
  advance := fun h => hR.advance h
  seek := fun h hd ht => hR.seek h hd ht

theorem lawful (hR : Lawful R VR WR) : Lawful (ds R O) (V VR) (W (τ := τ) WR) where
  sorted := fun h => hR.sorted h
  doc_eq := fun h => hR.doc_eq h
  advance := fun h => hR.advance h
  seek := fun h hd ht => hR.seek h hd ht
  fillBuffer := fun h => defaultFillBuffer_law (core hR).toCore0 h
  fillBitset := fun h hd hm => defaultFillBitset_law (core hR) h hd hm
  count := fun h => defaultCount_law (core hR).toCore0 h
  wsorted := fun h => hR.wsorted h
  wdoc := fun h => hR.wdoc h
  wseek := fun h h0 hd ht => hR.wseek h h0 hd ht
  sdV := by
    intro s l t hV ht
    exact SDPost.map (V := VR) (W := WR) (V' := V VR) (W' := W WR) (fun r => { s with req := r, cache := none })
      (fun _ _ h => h) (fun _ _ _ h => h) (hR.sdV hV ht)
  sdW := by
    intro s t0 l t hW h0 ht
    exact SDPost.map (V := VR) (W := WR) (V' := V VR) (W' := W WR) (fun r => { s with req := r, cache := none })
      (fun _ _ h => h) (fun _ _ _ h => h) (hR.sdW hW h0 ht)

/-- `score()` never changes the document sequence: it only touches the optional child and the
cache (and the required child's own `score`, which must preserve its abstraction) -/
theorem score_preserves
    (hscore : ∀ {r l}, VR r l → VR (R.score r).2 l) {s : State σ τ} {l : List Nat}
    (hV : V VR s l) : V VR (score R O s).2 l := by
  unfold score
  cases hc : s.cache with
  | some v => simpa [hc] using hV
  | none =>
    simp only [hc]
    have := hscore hV
    split <;> (try split) <;> exact this

end TantivyModel.DocSet.ReqOpt
