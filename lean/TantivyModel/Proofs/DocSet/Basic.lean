import TantivyModel.Model.DocSet.Spec
/-! helper lemmas about the specification cursor and the trait's default method bodies -/
namespace TantivyModel.DocSet

/-- pointwise relation between two lists of the same length -/
inductive All2 {α β : Type} (R : α → β → Prop) : List α → List β → Prop where
  | nil : All2 R [] []
  | cons {a : α} {b : β} {as : List α} {bs : List β} : R a b → All2 R as bs → All2 R (a :: as) (b :: bs)

theorem Sorted.nil : Sorted [] := ⟨List.Pairwise.nil, by simp⟩

theorem Sorted.tail {l : List Nat} (h : Sorted l) : Sorted l.tail := by
  cases l with
  | nil => exact h
  | cons a l =>
    obtain ⟨h1, h2⟩ := h
    exact ⟨(List.pairwise_cons.mp h1).2, fun x hx => h2 x (List.mem_cons_of_mem _ hx)⟩

theorem Sorted.of_cons {a : Nat} {l : List Nat} (h : Sorted (a :: l)) :
    a < TERMINATED ∧ (∀ x ∈ l, a < x) ∧ Sorted l := by
  obtain ⟨h1, h2⟩ := h
  have := List.pairwise_cons.mp h1
  exact ⟨h2 a (by simp), this.1, this.2, fun x hx => h2 x (List.mem_cons_of_mem _ hx)⟩

theorem Sorted.drop {l : List Nat} (h : Sorted l) (n : Nat) : Sorted (l.drop n) := by
  induction n generalizing l with
  | zero => simpa using h
  | succ n ih =>
    cases l with
    | nil => simpa using h
    | cons a l => simpa using ih h.of_cons.2.2

theorem Sorted.dropWhile {l : List Nat} (h : Sorted l) (p : Nat → Bool) : Sorted (l.dropWhile p) := by
  induction l with
  | nil => exact h
  | cons a l ih =>
    simp only [List.dropWhile_cons]
    split
    · exact ih h.of_cons.2.2
    · exact h

theorem Sorted.seek {l : List Nat} (h : Sorted l) (t : Nat) : Sorted (Spec.seek t l) :=
  h.dropWhile _

theorem Spec.doc_le {l : List Nat} (h : Sorted l) : Spec.doc l ≤ TERMINATED := by
  cases l with
  | nil => simp [Spec.doc]
  | cons a l => simp only [Spec.doc, List.headD_cons]; exact Nat.le_of_lt h.of_cons.1

/-- the seek result is the first document `≥ t` … -/
theorem Spec.seek_ge (t : Nat) (l : List Nat) : ∀ x ∈ Spec.seek t l, x ∈ l := by
  intro x hx
  exact (List.dropWhile_sublist _).subset hx

theorem Spec.seek_head_ge {t : Nat} {l : List Nat} (ht : t ≤ TERMINATED) :
    t ≤ Spec.doc (Spec.seek t l) := by
  induction l with
  | nil => simpa [Spec.seek, Spec.doc] using ht
  | cons a l ih =>
    simp only [Spec.seek, List.dropWhile_cons]
    split
    · exact ih
    · rename_i hlt
      simp only [Spec.doc, List.headD_cons]
      simpa using hlt

/-- … and nothing `≥ t` is skipped -/
theorem Spec.mem_seek {t : Nat} {l : List Nat} (h : Sorted l) (x : Nat) :
    x ∈ Spec.seek t l ↔ x ∈ l ∧ t ≤ x := by
  induction l with
  | nil => simp [Spec.seek]
  | cons a l ih =>
    obtain ⟨_, hlt, hs⟩ := h.of_cons
    simp only [Spec.seek, List.dropWhile_cons]
    split
    · rename_i hat
      have hat' : a < t := by simpa using hat
      have := ih hs
      simp only [Spec.seek] at this
      rw [this]
      constructor
      · rintro ⟨h1, h2⟩; exact ⟨List.mem_cons_of_mem _ h1, h2⟩
      · rintro ⟨h1, h2⟩
        rcases List.mem_cons.mp h1 with rfl | h1
        · omega
        · exact ⟨h1, h2⟩
    · rename_i hat
      have hat' : t ≤ a := by simpa using hat
      constructor
      · intro hx
        refine ⟨hx, ?_⟩
        rcases List.mem_cons.mp hx with rfl | h1
        · exact hat'
        · have := hlt x h1; omega
      · exact fun hx => hx.1

theorem Spec.seek_of_le {t : Nat} {l : List Nat} (h : t ≤ Spec.doc l) (hl : Sorted l) :
    Spec.seek t l = l := by
  cases l with
  | nil => rfl
  | cons a l =>
    simp only [Spec.doc, List.headD_cons] at h
    simp only [Spec.seek, List.dropWhile_cons]
    have : ¬ (a < t) := by omega
    simp [this]

theorem Spec.seek_seek {t u : Nat} {l : List Nat} (htu : t ≤ u) :
    Spec.seek u (Spec.seek t l) = Spec.seek u l := by
  induction l with
  | nil => rfl
  | cons a l ih =>
    simp only [Spec.seek, List.dropWhile_cons]
    split
    · rename_i hat
      have : a < u := by have : a < t := by simpa using hat
                         omega
      simp only [Spec.seek] at ih
      simpa [this] using ih
    · simp [List.dropWhile_cons]

/-- a strictly increasing list of ids in `[lo, N)` has at most `N - lo` elements -/
theorem length_le_of_sorted {l : List Nat} {lo N : Nat} (hp : l.Pairwise (· < ·))
    (hlo : ∀ x ∈ l, lo ≤ x) (hN : ∀ x ∈ l, x < N) : l.length ≤ N - lo := by
  induction l generalizing lo with
  | nil => simp
  | cons a l ih =>
    have h1 := List.pairwise_cons.mp hp
    have h2 := ih (lo := a + 1) h1.2 (fun x hx => h1.1 x hx) (fun x hx => hN x (List.mem_cons_of_mem _ hx))
    have h3 := hlo a (by simp)
    have h4 := hN a (by simp)
    simp only [List.length_cons]
    omega

theorem Sorted.length_le {l : List Nat} (h : Sorted l) : l.length ≤ TERMINATED := by
  have := length_le_of_sorted (lo := 0) h.1 (fun _ _ => Nat.zero_le _) h.2
  simpa using this

/-- a strictly increasing list is determined by its members -/
theorem pairwise_ext : ∀ {l1 l2 : List Nat}, l1.Pairwise (· < ·) → l2.Pairwise (· < ·) →
    (∀ x, x ∈ l1 ↔ x ∈ l2) → l1 = l2
  | [], [], _, _, _ => rfl
  | [], b :: l2, _, _, h => by have := (h b).mpr (by simp); cases this
  | a :: l1, [], _, _, h => by have := (h a).mp (by simp); cases this
  | a :: l1, b :: l2, h1, h2, h => by
    have p1 := List.pairwise_cons.mp h1
    have p2 := List.pairwise_cons.mp h2
    have hab : a = b := by
      have ha : a ∈ b :: l2 := (h a).mp (by simp)
      have hb : b ∈ a :: l1 := (h b).mpr (by simp)
      rcases List.mem_cons.mp ha with e | ha'
      · exact e
      · rcases List.mem_cons.mp hb with e | hb'
        · exact e.symm
        · have := p2.1 a ha'; have := p1.1 b hb'; omega
    subst hab
    congr 1
    apply pairwise_ext p1.2 p2.2
    intro x
    constructor
    · intro hx
      have : x ∈ a :: l2 := (h x).mp (List.mem_cons_of_mem _ hx)
      rcases List.mem_cons.mp this with e | h'
      · subst e; have := p1.1 x hx; omega
      · exact h'
    · intro hx
      have : x ∈ a :: l1 := (h x).mpr (List.mem_cons_of_mem _ hx)
      rcases List.mem_cons.mp this with e | h'
      · subst e; have := p2.1 x hx; omega
      · exact h'

theorem Sorted.ext {l1 l2 : List Nat} (h1 : Sorted l1) (h2 : Sorted l2)
    (h : ∀ x, x ∈ l1 ↔ x ∈ l2) : l1 = l2 := pairwise_ext h1.1 h2.1 h

theorem Sorted.filter {l : List Nat} (h : Sorted l) (p : Nat → Bool) : Sorted (l.filter p) :=
  ⟨h.1.sublist List.filter_sublist, fun x hx => h.2 x (List.mem_filter.mp hx).1⟩

theorem Spec.seek_filter {l : List Nat} (h : Sorted l) (p : Nat → Bool) (t : Nat) :
    Spec.seek t (l.filter p) = (Spec.seek t l).filter p := by
  apply Sorted.ext ((h.filter p).seek t) ((h.seek t).filter p)
  intro x
  rw [Spec.mem_seek (h.filter p), List.mem_filter, List.mem_filter, Spec.mem_seek h]
  constructor
  · rintro ⟨⟨a, b⟩, c⟩; exact ⟨⟨a, c⟩, b⟩
  · rintro ⟨⟨a, c⟩, b⟩; exact ⟨⟨a, b⟩, c⟩

end TantivyModel.DocSet
