import TantivyModel.Proofs.DocSet.BufferedUnionScoreDanger
import TantivyModel.Proofs.DocSet.DisjunctionScore
import TantivyModel.Proofs.DocSet.ScoreMoves
/-! composition of the score clause: what a scoring parent needs from a child (`Scored`) is provided
again by the SUM union and by the minimum-should-match disjunction over such children -/
namespace TantivyModel.DocSet
variable {σ : Type}

/-- what a scoring parent needs from a child: it refines the cursor, `score()` does not move it, and
on a document its score is `g c d` for a function `g c` that none of its methods changes -/
structure Scored (C : DS σ) (VC : σ → List Nat → Prop) (WC : σ → Nat → List Nat → Prop)
    (g : σ → Nat → Nat) : Prop where
  lawful : Lawful C VC WC
  hscore : ∀ {c l}, VC c l → VC (C.score c).2 l
  ghost : Inter.Ghost C g
  hg : ∀ {c l}, VC c l → l ≠ [] → (C.score c).1 = g c (C.doc c)

/-- carry a ghost value (the total score function) next to a state -/
def DS.withGhost {α : Type} (D : DS σ) : DS (σ × α) where
  doc := fun p => D.doc p.1
  advance := fun p => (D.advance p.1, p.2)
  seek := fun t p => (D.seek t p.1, p.2)
  seekDanger := fun t p => ((D.seekDanger t p.1).1, ((D.seekDanger t p.1).2, p.2))
  fillBuffer := fun p => ((D.fillBuffer p.1).1, ((D.fillBuffer p.1).2, p.2))
  fillBitset := fun m p => ((D.fillBitset m p.1).1, ((D.fillBitset m p.1).2, p.2))
  count := fun p => ((D.count p.1).1, ((D.count p.1).2, p.2))
  score := fun p => ((D.score p.1).1, ((D.score p.1).2, p.2))

theorem Lawful.withGhost {α : Type} {D : DS σ} {V : α → σ → List Nat → Prop}
    {W : α → σ → Nat → List Nat → Prop} (h : ∀ a, Lawful D (V a) (W a)) :
    Lawful (D.withGhost (α := α)) (fun p l => V p.2 p.1 l) (fun p t l => W p.2 p.1 t l) where
  sorted := fun {p _} hv => (h p.2).sorted hv
  doc_eq := fun {p _} hv => (h p.2).doc_eq hv
  advance := fun {p _} hv => (h p.2).advance hv
  seek := fun {p _ _} hv hd ht => (h p.2).seek hv hd ht
  fillBuffer := fun {p _} hv => (h p.2).fillBuffer hv
  fillBitset := fun {p _ _} hv hd hm => (h p.2).fillBitset hv hd hm
  count := fun {p _} hv => (h p.2).count hv
  wsorted := fun {p _ _} hw => (h p.2).wsorted hw
  wdoc := fun {p _ _} hw => (h p.2).wdoc hw
  wseek := fun {p _ _ _} hw h0 hd ht => (h p.2).wseek hw h0 hd ht
  sdV := fun {p _ _} hv ht =>
    SDPost.map (fun s => (s, p.2)) (fun _ _ h' => h') (fun _ _ _ h' => h') ((h p.2).sdV hv ht)
  sdW := fun {p _ _ _} hw h0 ht =>
    SDPost.map (fun s => (s, p.2)) (fun _ _ h' => h') (fun _ _ _ h' => h') ((h p.2).sdW hw h0 ht)

theorem withGhost_ghost {α : Type} (D : DS σ) : Inter.Ghost (D.withGhost (α := α)) (fun p => p.2) :=
  ⟨fun _ => rfl, fun _ _ => rfl, fun _ _ => rfl, fun _ => rfl⟩

theorem doc_lt_of_ne_nil {l : List Nat} (hs : Sorted l) (hne : l ≠ []) : Spec.doc l < TERMINATED := by
  obtain ⟨a, m, rfl⟩ := List.exists_cons_of_ne_nil hne
  exact hs.of_cons.1

/-- the sorted-vector leaf with its constant score -/
theorem Vec.scored : Scored Vec.ds Vec.V (defaultW Vec.V) (fun c (_ : Nat) => c.score) where
  lawful := lawful_ofCore _ _ _ _ _ Vec.core
  hscore := fun h => h
  ghost := Inter.vec_ghost
  hg := fun _ _ => rfl

variable {C : DS σ} {VC : σ → List Nat → Prop} {WC : σ → Nat → List Nat → Prop} {g : σ → Nat → Nat}

/-- **closure under the SUM union**: over scored children, the buffered union (paired with its total
score function) is again a scored child -/
theorem BUnion.scored (hS : Scored C VC WC g) {H : Nat} (hH : 64 ∣ H) (hH0 : 0 < H) (fx : Fix) :
    Scored ((BUnion.dsNF C H fx).withGhost (α := Nat → Nat))
      (fun p l => BUnion.VS g p.2 VC H p.1 l) (fun p t l => BUnion.WS g p.2 VC WC H p.1 t l)
      (fun p => p.2) where
  lawful := Lawful.withGhost (V := fun G s l => BUnion.VS g G VC H s l) (W := fun G s t l => BUnion.WS g G VC WC H s t l)
    (fun G => BUnion.lawful_S hS.lawful hS.hscore hS.ghost hS.hg (G := G) hH hH0 fx)
  hscore := fun h => h
  ghost := withGhost_ghost _
  hg := by
    intro p l hV hne
    have hd := (BUnion.core0 hS.lawful hS.hscore hH hH0).doc_eq hV.1
    have hs := (BUnion.core0 hS.lawful hS.hscore hH hH0).sorted hV.1
    have hlt : p.1.doc < TERMINATED := by rw [hd]; exact doc_lt_of_ne_nil hs hne
    have := hV.2.2 hlt
    show p.1.score = p.2 p.1.doc
    exact this

/-- the minimum-should-match disjunction with its scores is lawful -/
theorem Disj.lawful_S (hS : Scored C VC WC g) (G : Nat → Nat) :
    Lawful (Disj.ds C) (Disj.VS g G VC) (defaultW (Disj.VS g G VC)) :=
  lawful_ofCore _ _ _ _ _
    { toCore0 := Disj.core0VS hS.lawful hS.hscore hS.ghost hS.hg G
      seek := by
        intro s l t hV _ ht
        have hc := Disj.core0VS hS.lawful hS.hscore hS.ghost hS.hg G
        have hlen : l.length ≤ FUEL := by
          have := (hc.sorted hV).length_le; unfold FUEL; omega
        exact loopSeek_law hc ht FUEL hV hlen }

/-- **closure under Disjunction** -/
theorem Disj.scored (hS : Scored C VC WC g) :
    Scored ((Disj.ds C).withGhost (α := Nat → Nat))
      (fun p l => Disj.VS g p.2 VC p.1 l) (fun p t l => defaultW (Disj.VS g p.2 VC) p.1 t l)
      (fun p => p.2) where
  lawful := Lawful.withGhost (V := fun G s l => Disj.VS g G VC s l) (W := fun G s t l => defaultW (Disj.VS g G VC) s t l)
    (fun G => Disj.lawful_S hS G)
  hscore := fun h => h
  ghost := withGhost_ghost _
  hg := by
    intro p l hV hne
    have hd := (Disj.core0 hS.lawful hS.hscore).doc_eq hV.1
    have hs := (Disj.core0 hS.lawful hS.hscore).sorted hV.1
    have hlt : p.1.currentDoc < TERMINATED := by
      have : Disj.doc p.1 = Spec.doc l := hd
      simp only [Disj.doc] at this
      rw [this]; exact doc_lt_of_ne_nil hs hne
    exact hV.2.1 hlt

/-- the score clause for every legal call program, for a SUM union over scored children -/
theorem BUnion.score_program_scored (hS : Scored C VC WC g) {H : Nat} (hH : 64 ∣ H) (hH0 : 0 < H) (fx : Fix)
    {cs : List σ} {ls : List (List Nat)} {U : List Nat} (h : All2 VC cs ls) (hU : SimpleUnion.IsUnion U ls)
    (prog : List Op) (hl : legalProg ⟨U, none⟩ prog = true) (hnc : ∀ op ∈ prog, op ≠ Op.count) :
    implRun (BUnion.dsNF C H fx) (BUnion.build C H true cs) prog = specRun ⟨U, none⟩ prog
      ∧ ((specFinal ⟨U, none⟩ prog).danger = none →
          (implFinal (BUnion.dsNF C H fx) (BUnion.build C H true cs) prog).doc = Spec.doc (specFinal ⟨U, none⟩ prog).rest
            ∧ ((implFinal (BUnion.dsNF C H fx) (BUnion.build C H true cs) prog).doc < TERMINATED →
                ((BUnion.dsNF C H fx).score (implFinal (BUnion.dsNF C H fx) (BUnion.build C H true cs) prog)).1
                  = BUnion.gsum g cs ls (implFinal (BUnion.dsNF C H fx) (BUnion.build C H true cs) prog).doc)) :=
  BUnion.score_after_program hS.lawful hS.hscore hS.ghost hS.hg hH hH0 fx h hU prog hl hnc

/-- a SUM union built over scored children, paired with its total score function, is a valid scored
child for the list it denotes -/
theorem BUnion.build_scored (hS : Scored C VC WC g) {H : Nat} (hH : 64 ∣ H) (hH0 : 0 < H)
    {cs : List σ} {ls : List (List Nat)} {U : List Nat} (h : All2 VC cs ls) (hU : SimpleUnion.IsUnion U ls) :
    BUnion.VS g (BUnion.gsum g cs ls) VC H (BUnion.build C H true cs) U :=
  ⟨BUnion.build_V hS.lawful hS.hscore hH hH0 true h hU, BUnion.build_SI hS.lawful hS.hscore hS.ghost hS.hg hH hH0 h hU⟩

/-- the score function of the sorted-vector leaves -/
def vecScore : Vec.State → Nat → Nat := fun c _ => c.score

/-- a SUM union of sorted vectors as a scored child: the built state with its total score function -/
def unionChild (H : Nat) (grp : List (List Nat × Nat)) : BUnion.State Vec.State × (Nat → Nat) :=
  (BUnion.build Vec.ds H true (grp.map (fun p => Vec.init p.1 p.2)),
    BUnion.gsum vecScore (grp.map (fun p => Vec.init p.1 p.2)) (grp.map (·.1)))

theorem unionChildren_valid {H : Nat} (hH : 64 ∣ H) (hH0 : 0 < H) :
    ∀ {groups : List (List (List Nat × Nat))} {Us : List (List Nat)},
      (∀ grp ∈ groups, ∀ p ∈ grp, Sorted p.1) →
      All2 (fun grp U => SimpleUnion.IsUnion U (grp.map (·.1))) groups Us →
      All2 (fun (p : BUnion.State Vec.State × (Nat → Nat)) l => BUnion.VS vecScore p.2 Vec.V H p.1 l)
        (groups.map (unionChild H)) Us := by
  intro groups Us hs h
  induction h with
  | nil => exact All2.nil
  | @cons grp U groups' Us' hU _ ih =>
    refine All2.cons ?_ (ih (fun g hg => hs g (List.mem_cons_of_mem _ hg)))
    exact BUnion.build_scored Vec.scored hH hH0 (BUnion.all2_vec_init grp (hs grp (by simp))) hU

/-- **a SUM union of SUM unions of sorted vectors** (two levels of `BufferedUnionScorer`, the inner
ones driven through advance / seek / seek_danger by the outer one), after every legal call program on
the outer union: `score()` at the current document is the sum over the inner unions containing it of
their totals — i.e. of the scores of all leaves containing it -/
theorem union_of_unions_score {H : Nat} (hH : 64 ∣ H) (hH0 : 0 < H) (fx : Fix)
    (groups : List (List (List Nat × Nat))) (hs : ∀ grp ∈ groups, ∀ p ∈ grp, Sorted p.1)
    (Us : List (List Nat)) (hUs : All2 (fun grp U => SimpleUnion.IsUnion U (grp.map (·.1))) groups Us)
    (U : List Nat) (hU : SimpleUnion.IsUnion U Us) (prog : List Op)
    (hl : legalProg ⟨U, none⟩ prog = true) (hnc : ∀ op ∈ prog, op ≠ Op.count)
    (hnd : (specFinal ⟨U, none⟩ prog).danger = none) :
    let D := BUnion.dsNF ((BUnion.dsNF Vec.ds H fx).withGhost (α := Nat → Nat)) H fx
    let s := implFinal D (BUnion.build ((BUnion.dsNF Vec.ds H fx).withGhost (α := Nat → Nat)) H true (groups.map (unionChild H))) prog
    s.doc = Spec.doc (specFinal ⟨U, none⟩ prog).rest
      ∧ (s.doc < TERMINATED →
          (D.score s).1 = BUnion.gsum (fun p => p.2) (groups.map (unionChild H)) Us s.doc) := by
  have hS := BUnion.scored Vec.scored hH hH0 fx
  exact (BUnion.score_program_scored hS hH hH0 fx (unionChildren_valid hH hH0 hs hUs) hU prog hl hnc).2 hnd

end TantivyModel.DocSet
