import TantivyModel.Proofs.DocSet.BufferedUnionScoreDanger
import TantivyModel.Proofs.DocSet.DisjunctionScore
import TantivyModel.Proofs.DocSet.ScoreMoves
import TantivyModel.Proofs.DocSet.Tree
/-! composition of the score clause: what a scoring parent needs from a child (`Scored`) is provided
again by the SUM union and by the minimum-should-match disjunction over such children -/
namespace TantivyModel.DocSet
variable {σ : Type}

/-- what a scoring parent needs from a child: it refines the cursor, `score()` does not move it, and
on a document its score is `g c d` for a function `g c` that none of its methods changes -/
structure Scored (C : DS σ) (VC : σ → List Nat → Prop) (WC : σ → Nat → List Nat → Prop)
    (g : σ → Nat → Nat) : Prop where
  lawful : Lawful C VC WC
  hscore : ∀ {c l}, VC c l → VC (C.score c).2 l
  wscore : ∀ {c t l}, WC c t l → WC (C.score c).2 t l
  ghost : Inter.Ghost C g
  hg : ∀ {c l}, VC c l → l ≠ [] → (C.score c).1 = g c (C.doc c)

/-- carry a ghost value (the total score function) next to a state -/
def DS.withGhost {α : Type} (D : DS σ) : DS (σ × α) where
  doc := fun p => D.doc p.1
  advance := fun p => (D.advance p.1, p.2)
  seek := fun t p => (D.seek t p.1, p.2)
  seekDanger := fun t p => ((D.seekDanger t p.1).1, ((D.seekDanger t p.1).2, p.2))
  fillBuffer := fun p => ((D.fillBuffer p.1).1, ((D.fillBuffer p.1).2, p.2))
  fillBitset := fun m p => ((D.fillBitset m p.1).1, ((D.fillBitset m p.1).2, p.2))
  count := fun p => ((D.count p.1).1, ((D.count p.1).2, p.2))
  score := fun p => ((D.score p.1).1, ((D.score p.1).2, p.2))

theorem Lawful.withGhost {α : Type} {D : DS σ} {V : α → σ → List Nat → Prop}
    {W : α → σ → Nat → List Nat → Prop} (h : ∀ a, Lawful D (V a) (W a)) :
    Lawful (D.withGhost (α := α)) (fun p l => V p.2 p.1 l) (fun p t l => W p.2 p.1 t l) where
  sorted := fun {p _} hv => (h p.2).sorted hv
  doc_eq := fun {p _} hv => (h p.2).doc_eq hv
  advance := fun {p _} hv => (h p.2).advance hv
  seek := fun {p _ _} hv hd ht => (h p.2).seek hv hd ht
  fillBuffer := fun {p _} hv => (h p.2).fillBuffer hv
  fillBitset := fun {p _ _} hv hd hm => (h p.2).fillBitset hv hd hm
  count := fun {p _} hv => (h p.2).count hv
  wsorted := fun {p _ _} hw => (h p.2).wsorted hw
  wdoc := fun {p _ _} hw => (h p.2).wdoc hw
  wseek := fun {p _ _ _} hw h0 hd ht => (h p.2).wseek hw h0 hd ht
  sdV := fun {p _ _} hv ht =>
    SDPost.map (fun s => (s, p.2)) (fun _ _ h' => h') (fun _ _ _ h' => h') ((h p.2).sdV hv ht)
  sdW := fun {p _ _ _} hw h0 ht =>
    SDPost.map (fun s => (s, p.2)) (fun _ _ h' => h') (fun _ _ _ h' => h') ((h p.2).sdW hw h0 ht)

theorem withGhost_ghost {α : Type} (D : DS σ) : Inter.Ghost (D.withGhost (α := α)) (fun p => p.2) :=
  ⟨fun _ => rfl, fun _ _ => rfl, fun _ _ => rfl, fun _ => rfl⟩

theorem doc_lt_of_ne_nil {l : List Nat} (hs : Sorted l) (hne : l ≠ []) : Spec.doc l < TERMINATED := by
  obtain ⟨a, m, rfl⟩ := List.exists_cons_of_ne_nil hne
  exact hs.of_cons.1

/-- the sorted-vector leaf with its constant score -/
theorem Vec.scored : Scored Vec.ds Vec.V (defaultW Vec.V) (fun c (_ : Nat) => c.score) where
  lawful := lawful_ofCore _ _ _ _ _ Vec.core
  hscore := fun h => h
  wscore := fun h => h
  ghost := Inter.vec_ghost
  hg := fun _ _ => rfl

variable {C : DS σ} {VC : σ → List Nat → Prop} {WC : σ → Nat → List Nat → Prop} {g : σ → Nat → Nat}

/-- **closure under the SUM union**: over scored children, the buffered union (paired with its total
score function) is again a scored child -/
theorem BUnion.scored (hS : Scored C VC WC g) {H : Nat} (hH : 64 ∣ H) (hH0 : 0 < H) (fx : Fix) :
    Scored ((BUnion.dsNF C H fx).withGhost (α := Nat → Nat))
      (fun p l => BUnion.VS g p.2 VC H p.1 l) (fun p t l => BUnion.WS g p.2 VC WC H p.1 t l)
      (fun p => p.2) where
  lawful := Lawful.withGhost (V := fun G s l => BUnion.VS g G VC H s l) (W := fun G s t l => BUnion.WS g G VC WC H s t l)
    (fun G => BUnion.lawful_S hS.lawful hS.hscore hS.ghost hS.hg (G := G) hH hH0 fx)
  hscore := fun h => h
  wscore := fun h => h
  ghost := withGhost_ghost _
  hg := by
    intro p l hV hne
    have hd := (BUnion.core0 hS.lawful hS.hscore hH hH0).doc_eq hV.1
    have hs := (BUnion.core0 hS.lawful hS.hscore hH hH0).sorted hV.1
    have hlt : p.1.doc < TERMINATED := by rw [hd]; exact doc_lt_of_ne_nil hs hne
    have := hV.2.2 hlt
    show p.1.score = p.2 p.1.doc
    exact this

/-- the minimum-should-match disjunction with its scores is lawful -/
theorem Disj.lawful_S (hS : Scored C VC WC g) (G : Nat → Nat) :
    Lawful (Disj.ds C) (Disj.VS g G VC) (defaultW (Disj.VS g G VC)) :=
  lawful_ofCore _ _ _ _ _
    { toCore0 := Disj.core0VS hS.lawful hS.hscore hS.ghost hS.hg G
      seek := by
        intro s l t hV _ ht
        have hc := Disj.core0VS hS.lawful hS.hscore hS.ghost hS.hg G
        have hlen : l.length ≤ FUEL := by
          have := (hc.sorted hV).length_le; unfold FUEL; omega
        exact loopSeek_law hc ht FUEL hV hlen }

/-- **closure under Disjunction** -/
theorem Disj.scored (hS : Scored C VC WC g) :
    Scored ((Disj.ds C).withGhost (α := Nat → Nat))
      (fun p l => Disj.VS g p.2 VC p.1 l) (fun p t l => defaultW (Disj.VS g p.2 VC) p.1 t l)
      (fun p => p.2) where
  lawful := Lawful.withGhost (V := fun G s l => Disj.VS g G VC s l) (W := fun G s t l => defaultW (Disj.VS g G VC) s t l)
    (fun G => Disj.lawful_S hS G)
  hscore := fun h => h
  wscore := fun h => h
  ghost := withGhost_ghost _
  hg := by
    intro p l hV hne
    have hd := (Disj.core0 hS.lawful hS.hscore).doc_eq hV.1
    have hs := (Disj.core0 hS.lawful hS.hscore).sorted hV.1
    have hlt : p.1.currentDoc < TERMINATED := by
      have : Disj.doc p.1 = Spec.doc l := hd
      simp only [Disj.doc] at this
      rw [this]; exact doc_lt_of_ne_nil hs hne
    exact hV.2.1 hlt

/-- the score clause for every legal call program, for a SUM union over scored children -/
theorem BUnion.score_program_scored (hS : Scored C VC WC g) {H : Nat} (hH : 64 ∣ H) (hH0 : 0 < H) (fx : Fix)
    {cs : List σ} {ls : List (List Nat)} {U : List Nat} (h : All2 VC cs ls) (hU : SimpleUnion.IsUnion U ls)
    (prog : List Op) (hl : legalProg ⟨U, none⟩ prog = true) (hnc : ∀ op ∈ prog, op ≠ Op.count) :
    implRun (BUnion.dsNF C H fx) (BUnion.build C H true cs) prog = specRun ⟨U, none⟩ prog
      ∧ ((specFinal ⟨U, none⟩ prog).danger = none →
          (implFinal (BUnion.dsNF C H fx) (BUnion.build C H true cs) prog).doc = Spec.doc (specFinal ⟨U, none⟩ prog).rest
            ∧ ((implFinal (BUnion.dsNF C H fx) (BUnion.build C H true cs) prog).doc < TERMINATED →
                ((BUnion.dsNF C H fx).score (implFinal (BUnion.dsNF C H fx) (BUnion.build C H true cs) prog)).1
                  = BUnion.gsum g cs ls (implFinal (BUnion.dsNF C H fx) (BUnion.build C H true cs) prog).doc)) :=
  BUnion.score_after_program hS.lawful hS.hscore hS.ghost hS.hg hH hH0 fx h hU prog hl hnc

/-- a SUM union built over scored children, paired with its total score function, is a valid scored
child for the list it denotes -/
theorem BUnion.build_scored (hS : Scored C VC WC g) {H : Nat} (hH : 64 ∣ H) (hH0 : 0 < H)
    {cs : List σ} {ls : List (List Nat)} {U : List Nat} (h : All2 VC cs ls) (hU : SimpleUnion.IsUnion U ls) :
    BUnion.VS g (BUnion.gsum g cs ls) VC H (BUnion.build C H true cs) U :=
  ⟨BUnion.build_V hS.lawful hS.hscore hH hH0 true h hU, BUnion.build_SI hS.lawful hS.hscore hS.ghost hS.hg hH hH0 h hU⟩

/-- the score function of the sorted-vector leaves -/
def vecScore : Vec.State → Nat → Nat := fun c _ => c.score

/-- a SUM union of sorted vectors as a scored child: the built state with its total score function -/
def unionChild (H : Nat) (grp : List (List Nat × Nat)) : BUnion.State Vec.State × (Nat → Nat) :=
  (BUnion.build Vec.ds H true (grp.map (fun p => Vec.init p.1 p.2)),
    BUnion.gsum vecScore (grp.map (fun p => Vec.init p.1 p.2)) (grp.map (·.1)))

theorem unionChildren_valid {H : Nat} (hH : 64 ∣ H) (hH0 : 0 < H) :
    ∀ {groups : List (List (List Nat × Nat))} {Us : List (List Nat)},
      (∀ grp ∈ groups, ∀ p ∈ grp, Sorted p.1) →
      All2 (fun grp U => SimpleUnion.IsUnion U (grp.map (·.1))) groups Us →
      All2 (fun (p : BUnion.State Vec.State × (Nat → Nat)) l => BUnion.VS vecScore p.2 Vec.V H p.1 l)
        (groups.map (unionChild H)) Us := by
  intro groups Us hs h
  induction h with
  | nil => exact All2.nil
  | @cons grp U groups' Us' hU _ ih =>
    refine All2.cons ?_ (ih (fun g hg => hs g (List.mem_cons_of_mem _ hg)))
    exact BUnion.build_scored Vec.scored hH hH0 (BUnion.all2_vec_init grp (hs grp (by simp))) hU

/-- **a SUM union of SUM unions of sorted vectors** (two levels of `BufferedUnionScorer`, the inner
ones driven through advance / seek / seek_danger by the outer one), after every legal call program on
the outer union: `score()` at the current document is the sum over the inner unions containing it of
their totals — i.e. of the scores of all leaves containing it -/
theorem union_of_unions_score {H : Nat} (hH : 64 ∣ H) (hH0 : 0 < H) (fx : Fix)
    (groups : List (List (List Nat × Nat))) (hs : ∀ grp ∈ groups, ∀ p ∈ grp, Sorted p.1)
    (Us : List (List Nat)) (hUs : All2 (fun grp U => SimpleUnion.IsUnion U (grp.map (·.1))) groups Us)
    (U : List Nat) (hU : SimpleUnion.IsUnion U Us) (prog : List Op)
    (hl : legalProg ⟨U, none⟩ prog = true) (hnc : ∀ op ∈ prog, op ≠ Op.count)
    (hnd : (specFinal ⟨U, none⟩ prog).danger = none) :
    let D := BUnion.dsNF ((BUnion.dsNF Vec.ds H fx).withGhost (α := Nat → Nat)) H fx
    let s := implFinal D (BUnion.build ((BUnion.dsNF Vec.ds H fx).withGhost (α := Nat → Nat)) H true (groups.map (unionChild H))) prog
    s.doc = Spec.doc (specFinal ⟨U, none⟩ prog).rest
      ∧ (s.doc < TERMINATED →
          (D.score s).1 = BUnion.gsum (fun p => p.2) (groups.map (unionChild H)) Us s.doc) := by
  have hS := BUnion.scored Vec.scored hH hH0 fx
  exact (BUnion.score_program_scored hS hH hH0 fx (unionChildren_valid hH hH0 hs hUs) hU prog hl hnc).2 hnd


/-! ### closure under Intersection -/

theorem loopFill_inv {τ : Type} {P : τ → Prop} (doc : τ → Nat) (adv : τ → τ) (hP : ∀ s, P s → P (adv s)) :
    ∀ (n : Nat) (s : τ), P s → P (loopFill doc adv n s).2
  | 0, _, h => h
  | n + 1, s, h => by
    simp only [loopFill]
    split
    · exact hP s h
    · exact loopFill_inv doc adv hP n (adv s) (hP s h)

theorem defaultFillBuffer_inv {τ : Type} {P : τ → Prop} (doc : τ → Nat) (adv : τ → τ)
    (hP : ∀ s, P s → P (adv s)) (s : τ) (h : P s) : P (defaultFillBuffer doc adv s).2 := by
  unfold defaultFillBuffer
  split
  · exact h
  · exact loopFill_inv doc adv hP _ s h

theorem loopBitset_inv {τ : Type} {P : τ → Prop} (doc : τ → Nat) (adv : τ → τ) (hz : Nat)
    (hP : ∀ s, P s → P (adv s)) : ∀ (n : Nat) (s : τ), P s → P (loopBitset doc adv hz n s).2
  | 0, _, h => h
  | n + 1, s, h => by
    simp only [loopBitset]
    split
    · exact h
    · split
      · exact hP s h
      · exact loopBitset_inv doc adv hz hP n (adv s) (hP s h)

theorem defaultFillBitset_inv {τ : Type} {P : τ → Prop} (doc : τ → Nat) (adv : τ → τ) (seek : Nat → τ → τ)
    (hP : ∀ s, P s → P (adv s)) (hS : ∀ t s, P s → P (seek t s)) (m : Nat) (s : τ) (h : P s) :
    P (defaultFillBitset doc adv seek m s).2 :=
  loopBitset_inv doc adv _ hP _ _ (hS m s h)

/-- a state predicate kept by every state-changing method can be added to both relations -/
theorem Lawful.and_inv {D : DS σ} {V : σ → List Nat → Prop} {W : σ → Nat → List Nat → Prop}
    (h : Lawful D V W) {P : σ → Prop} (ha : ∀ s, P s → P (D.advance s)) (hs : ∀ t s, P s → P (D.seek t s))
    (hsd : ∀ t s, P s → P (D.seekDanger t s).2) (hfb : ∀ s, P s → P (D.fillBuffer s).2)
    (hbs : ∀ m s, P s → P (D.fillBitset m s).2) :
    Lawful D (fun s l => V s l ∧ P s) (fun s t l => W s t l ∧ P s) where
  sorted := fun h' => h.sorted h'.1
  doc_eq := fun h' => h.doc_eq h'.1
  advance := fun h' => ⟨h.advance h'.1, ha _ h'.2⟩
  seek := fun h' hd ht => ⟨h.seek h'.1 hd ht, hs _ _ h'.2⟩
  fillBuffer := fun h' => ⟨(h.fillBuffer h'.1).1, (h.fillBuffer h'.1).2, hfb _ h'.2⟩
  fillBitset := fun h' hd hm => ⟨(h.fillBitset h'.1 hd hm).1, (h.fillBitset h'.1 hd hm).2, hbs _ _ h'.2⟩
  count := fun h' => h.count h'.1
  wsorted := fun h' => h.wsorted h'.1
  wdoc := fun h' => h.wdoc h'.1
  wseek := fun h' h0 hd ht => ⟨h.wseek h'.1 h0 hd ht, hs _ _ h'.2⟩
  sdV := by
    intro s l t h' ht
    have k := h.sdV h'.1 ht
    have kp := hsd t s h'.2
    revert k kp
    generalize D.seekDanger t s = r
    rcases r with ⟨r1, s'⟩
    cases r1 with
    | found => intro k kp; exact ⟨k.1, k.2, kp⟩
    | lower b => intro k kp; exact ⟨k.1, ⟨k.2.1, kp⟩, k.2.2⟩
  sdW := by
    intro s t0 l t h' h0 ht
    have k := h.sdW h'.1 h0 ht
    have kp := hsd t s h'.2
    revert k kp
    generalize D.seekDanger t s = r
    rcases r with ⟨r1, s'⟩
    cases r1 with
    | found => intro k kp; exact ⟨k.1, k.2, kp⟩
    | lower b => intro k kp; exact ⟨k.1, ⟨k.2.1, kp⟩, k.2.2⟩

/-- `F` is the sum of the score functions of all children of the intersection -/
def Inter.PF (g : σ → Nat → Nat) (F : Nat → Nat) (s : Inter.State σ) : Prop :=
  F = fun x => (((Inter.toList s).map g).map (fun f => f x)).sum

theorem Inter.PF.congr {F : Nat → Nat} {s s' : Inter.State σ} (h : Inter.PF g F s)
    (e : (Inter.toList s').map g = (Inter.toList s).map g) : Inter.PF g F s' := by
  unfold Inter.PF at *; rw [e]; exact h

/-- **closure under Intersection**: over scored children (holding small documents) the intersection
(paired with the sum of its children's score functions) is again a scored child -/
theorem Inter.scored (hS : Scored C VC WC g)
    (hsmall : ∀ {c l}, VC c l → ∀ x ∈ l, x + BLOCK_WINDOW ≤ TERMINATED) (fx : Fix) :
    Scored ((Inter.ds C fx).withGhost (α := Nat → Nat))
      (fun p l => Inter.V VC WC p.1 l ∧ Inter.PF g p.2 p.1) (fun p t l => Inter.W VC WC p.1 t l ∧ Inter.PF g p.2 p.1)
      (fun p => p.2) where
  lawful := Lawful.withGhost (V := fun F s l => Inter.V VC WC s l ∧ Inter.PF g F s)
      (W := fun F s t l => Inter.W VC WC s t l ∧ Inter.PF g F s)
    (fun F => (Inter.lawful hS.lawful hsmall fx).and_inv (P := Inter.PF g F)
      (fun s h => h.congr (Inter.advance_ghost hS.ghost s))
      (fun t s h => h.congr (Inter.seek_ghost hS.ghost t s))
      (fun t s h => h.congr (Inter.seekDanger_ghost hS.ghost t s))
      (fun s h => defaultFillBuffer_inv (P := Inter.PF g F) (Inter.doc C) (Inter.advance C)
        (fun s h => h.congr (Inter.advance_ghost hS.ghost s)) s h)
      (fun m s h => defaultFillBitset_inv (P := Inter.PF g F) (Inter.doc C) (Inter.advance C) (Inter.seek C)
        (fun s h => h.congr (Inter.advance_ghost hS.ghost s))
        (fun t s h => h.congr (Inter.seek_ghost hS.ghost t s)) m s h))
  hscore := fun {p _} h =>
    ⟨(Inter.scoreOK ⟨hS.hscore, hS.wscore⟩ fx).v h.1, h.2.congr (Inter.score_ghost hS.ghost fx p.1)⟩
  wscore := fun {p _ _} h =>
    ⟨(Inter.scoreOK ⟨hS.hscore, hS.wscore⟩ fx).w h.1, h.2.congr (Inter.score_ghost hS.ghost fx p.1)⟩
  ghost := withGhost_ghost _
  hg := by
    intro p l hV hne
    have hd := (Inter.core hS.lawful).doc_eq hV.1
    have hv := Inter.score_value hS.lawful fx g hS.hg hV.1 hne
    show ((Inter.ds C fx).score p.1).1 = p.2 (Inter.doc C p.1)
    rw [hv, hd, hV.2]

/-- `Intersection::new` over valid scored children, paired with the sum of their score functions -/
theorem Inter.new_scored (hS : Scored C VC WC g) (dense : Bool) {l r : σ} {os : List σ} {ll lr : List Nat}
    {los : List (List Nat)} (hL : VC l ll) (hR : VC r lr) (hO : All2 VC os los) :
    Inter.V VC WC (Inter.new C dense l r os) (Inter.Common ll lr los)
      ∧ Inter.PF g (fun x => (((l :: r :: os).map g).map (fun f => f x)).sum) (Inter.new C dense l r os) := by
  refine ⟨Inter.new_V hS.lawful dense hL hR hO, ?_⟩
  unfold Inter.PF
  rw [Inter.new_ghost hS.ghost]


/-- restriction to lists of small documents (what an Intersection parent asks of its children) -/
theorem Scored.restrict (hS : Scored C VC WC g) : Scored C (RV VC) (RW WC) g where
  lawful := hS.lawful.restrict
  hscore := fun h => ⟨hS.hscore h.1, h.2⟩
  wscore := fun h => ⟨hS.wscore h.1, h.2⟩
  ghost := hS.ghost
  hg := fun h hne => hS.hg h.1 hne

/-! ### closure under Exclude (the score is the underlying scorer's) -/

namespace Exclude
variable {τ : Type} {U : DS σ} {E : DS τ} {gu : σ → Nat → Nat}

theorem advLoop_ghost (hG : Inter.Ghost U gu) : ∀ (n : Nat) (s : State σ τ), gu (advLoop U E n s).u = gu s.u
  | 0, _ => rfl
  | n + 1, s => by
    simp only [advLoop]
    split
    · exact hG.advance s.u
    · split
      · rw [advLoop_ghost hG n]; exact hG.advance s.u
      · exact hG.advance s.u

theorem advance_ghost (hG : Inter.Ghost U gu) (s : State σ τ) : gu (advance U E s).u = gu s.u :=
  advLoop_ghost hG _ s

theorem seek_ghost (hG : Inter.Ghost U gu) (t : Nat) (s : State σ τ) : gu (seek U E t s).u = gu s.u := by
  simp only [seek]
  split
  · exact hG.seek t s.u
  · split
    · rw [advance_ghost hG]; exact hG.seek t s.u
    · exact hG.seek t s.u

theorem ghost (hG : Inter.Ghost U gu) : Inter.Ghost (ds U E) (fun s => gu s.u) where
  advance := fun s => advance_ghost hG s
  seek := fun t s => seek_ghost hG t s
  seekDanger := fun t s => by
    show gu (defaultSeekDanger (doc U) (seek U E) t s).2.u = gu s.u
    unfold defaultSeekDanger
    split
    · rfl
    · by_cases h : doc U s < t
      · simp only [h, if_true]
        split <;> exact seek_ghost hG t s
      · simp only [h, if_false]
        split <;> rfl
  score := fun s => hG.score s.u

end Exclude

/-- **closure under Exclude**: a scored underlying scorer minus lawful exclusion sets is a scored
child with the underlying scorer's score function -/
theorem Exclude.scored {τ : Type} {E : DS τ} {VE : τ → List Nat → Prop} {WE : τ → Nat → List Nat → Prop}
    (hS : Scored C VC WC g) (hE : Lawful E VE WE) :
    Scored (Exclude.ds C E) (Exclude.V VC VE WE) (defaultW (Exclude.V VC VE WE)) (fun s => g s.u) where
  lawful := Exclude.lawful hS.lawful hE
  hscore := by
    rintro c l ⟨lu, les, h1, h2, h3, h4⟩
    exact ⟨lu, les, hS.hscore h1, h2, h3, h4⟩
  wscore := by
    rintro c t l ⟨l0, ⟨lu, les, h1, h2, h3, h4⟩, h5, h6⟩
    exact ⟨l0, ⟨lu, les, hS.hscore h1, h2, h3, h4⟩, h5, h6⟩
  ghost := Exclude.ghost hS.ghost
  hg := by
    rintro c l ⟨lu, les, h1, _, _, rfl⟩ hne
    have hlu : lu ≠ [] := by
      intro h0; apply hne; rw [h0]; rfl
    exact hS.hg h1 hlu


/-! ### closure under RequiredOptionalScorer (SumCombiner): required score plus the optional score on
the documents the optional scorer contains -/

namespace ReqOpt
variable {τ : Type} {R : DS σ} {O : DS τ} {VR : σ → List Nat → Prop} {WR : σ → Nat → List Nat → Prop}
  {VO : τ → List Nat → Prop} {WO : τ → Nat → List Nat → Prop} {gR : σ → Nat → Nat} {gO : τ → Nat → Nat}

/-- for the documents of `l`, `F` is the required scorer's score plus the optional scorer's where it
has the document (`lo`: what the optional scorer is currently valid for) -/
def FC (gR : σ → Nat → Nat) (gO : τ → Nat → Nat) (VO : τ → List Nat → Prop) (F : Nat → Nat) (s : State σ τ)
    (l : List Nat) : Prop :=
  ∃ lo, VO s.opt lo ∧ ∀ x ∈ l, F x = gR s.req x + (if x ∈ lo then gO s.opt x else 0)

def RS (gR : σ → Nat → Nat) (gO : τ → Nat → Nat) (VR : σ → List Nat → Prop) (VO : τ → List Nat → Prop)
    (F : Nat → Nat) (s : State σ τ) (l : List Nat) : Prop :=
  VR s.req l ∧ s.sum = true ∧ FC gR gO VO F s l ∧ (∀ v, s.cache = some v → l ≠ [] → v = F (Spec.doc l))

def RSW (gR : σ → Nat → Nat) (gO : τ → Nat → Nat) (WR : σ → Nat → List Nat → Prop) (VO : τ → List Nat → Prop)
    (F : Nat → Nat) (s : State σ τ) (t : Nat) (l : List Nat) : Prop :=
  WR s.req t l ∧ s.sum = true ∧ FC gR gO VO F s l

theorem FC.sub {F : Nat → Nat} {s s' : State σ τ} {l l' : List Nat} (h : FC gR gO VO F s l)
    (hsub : ∀ x ∈ l', x ∈ l) (e1 : gR s'.req = gR s.req) (e2 : s'.opt = s.opt) : FC gR gO VO F s' l' := by
  obtain ⟨lo, h1, h2⟩ := h
  exact ⟨lo, by rw [e2]; exact h1, fun x hx => by rw [e1, e2]; exact h2 x (hsub x hx)⟩

/-- `score()` keeps `FC` for every list lying at or beyond the required scorer's document -/
theorem score_state (hSR : Scored R VR WR gR) (hSO : Scored O VO WO gO) {F : Nat → Nat} {s : State σ τ}
    {l : List Nat} (hsum : s.sum = true) (hdT : R.doc s.req ≤ TERMINATED)
    (hge : ∀ x ∈ l, R.doc s.req ≤ x) (hF : FC gR gO VO F s l) :
    FC gR gO VO F (score R O s).2 l ∧ (score R O s).2.sum = true
      ∧ gR (score R O s).2.req = gR s.req
      ∧ (∀ l', VR s.req l' → VR (score R O s).2.req l')
      ∧ (∀ t l', WR s.req t l' → WR (score R O s).2.req t l') := by
  obtain ⟨lo, hVO, hFx⟩ := hF
  have hso := hSO.lawful.sorted hVO
  unfold score
  cases hc : s.cache with
  | some v => simp only; exact ⟨⟨lo, hVO, hFx⟩, (by first | trivial | exact hsum), (by first | trivial | rfl), fun _ h => h, fun _ _ h => h⟩
  | none =>
    simp only [hsum, if_true]
    have hgr : gR (R.score s.req).2 = gR s.req := hSR.ghost.score s.req
    by_cases h1 : O.doc s.opt ≤ R.doc s.req
    · simp only [h1, if_true]
      have hV' := hSO.lawful.seek hVO h1 hdT
      have hgo : gO (O.seek (R.doc s.req) s.opt) = gO s.opt := hSO.ghost.seek _ _
      have hmem : ∀ x ∈ l, (x ∈ Spec.seek (R.doc s.req) lo ↔ x ∈ lo) := fun x hx =>
        Inter.seek_agree hso _ x (hge x hx)
      by_cases h2 : O.doc (O.seek (R.doc s.req) s.opt) = R.doc s.req
      · simp only [h2, if_true]
        refine ⟨⟨Spec.seek (R.doc s.req) lo, hSO.hscore hV', fun x hx => ?_⟩, (by first | trivial | exact hsum), hgr, fun _ h => hSR.hscore h, fun _ _ h => hSR.wscore h⟩
        show F x = gR (R.score s.req).2 x + (if x ∈ Spec.seek (R.doc s.req) lo then gO (O.score (O.seek (R.doc s.req) s.opt)).2 x else 0)
        rw [hgr, hSO.ghost.score, hgo, hFx x hx]
        by_cases hxl : x ∈ lo
        · rw [if_pos hxl, if_pos ((hmem x hx).mpr hxl)]
        · rw [if_neg hxl, if_neg (fun h => hxl ((hmem x hx).mp h))]
      · simp only [h2, if_false]
        refine ⟨⟨Spec.seek (R.doc s.req) lo, hV', fun x hx => ?_⟩, (by first | trivial | exact hsum), hgr, fun _ h => hSR.hscore h, fun _ _ h => hSR.wscore h⟩
        show F x = gR (R.score s.req).2 x + (if x ∈ Spec.seek (R.doc s.req) lo then gO (O.seek (R.doc s.req) s.opt) x else 0)
        rw [hgr, hgo, hFx x hx]
        by_cases hxl : x ∈ lo
        · rw [if_pos hxl, if_pos ((hmem x hx).mpr hxl)]
        · rw [if_neg hxl, if_neg (fun h => hxl ((hmem x hx).mp h))]
    · simp only [h1, if_false]
      refine ⟨⟨lo, hVO, fun x hx => ?_⟩, (by first | trivial | exact hsum), hgr, fun _ h => hSR.hscore h, fun _ _ h => hSR.wscore h⟩
      show F x = gR (R.score s.req).2 x + (if x ∈ lo then gO s.opt x else 0)
      rw [hgr, hFx x hx]

/-- with an empty cache on a document, `score()` returns (and caches) `F` of the document -/
theorem score_val (hSR : Scored R VR WR gR) (hSO : Scored O VO WO gO) {F : Nat → Nat} {s : State σ τ}
    {l : List Nat} (hsum : s.sum = true) (hc : s.cache = none) (hlt : R.doc s.req < TERMINATED)
    (hdl : R.doc s.req ∈ l) (hr : (R.score s.req).1 = gR s.req (R.doc s.req)) (hF : FC gR gO VO F s l) :
    (score R O s).1 = F (R.doc s.req) ∧ (score R O s).2.cache = some (score R O s).1 := by
  obtain ⟨lo, hVO, hFx⟩ := hF
  have hso := hSO.lawful.sorted hVO
  have hFd := hFx _ hdl
  unfold score
  simp only [hc, hsum, if_true]
  by_cases h1 : O.doc s.opt ≤ R.doc s.req
  · simp only [h1, if_true]
    have hV' := hSO.lawful.seek hVO h1 (Nat.le_of_lt hlt)
    have hd' := hSO.lawful.doc_eq hV'
    by_cases h2 : O.doc (O.seek (R.doc s.req) s.opt) = R.doc s.req
    · simp only [h2, if_true]
      have hne : Spec.seek (R.doc s.req) lo ≠ [] := by
        intro h0; rw [h0] at hd'; simp only [Spec.doc, List.headD_nil] at hd'; omega
      have hmem : R.doc s.req ∈ lo := by
        have : Spec.doc (Spec.seek (R.doc s.req) lo) ∈ Spec.seek (R.doc s.req) lo :=
          Spec.doc_mem (by rw [← hd', h2]; exact hlt)
        rw [← hd', h2] at this
        exact Spec.seek_ge _ _ _ this
      have hq : (O.score (O.seek (R.doc s.req) s.opt)).1 = gO s.opt (R.doc s.req) := by
        rw [hSO.hg hV' hne, hSO.ghost.seek, h2]
      refine ⟨?_, (by first | trivial | rfl)⟩
      rw [hFd, if_pos hmem, hr, hq]
    · simp only [h2, if_false]
      have hnm : R.doc s.req ∉ lo := by
        intro hm; exact h2 (by rw [hd', Spec.doc_seek_of_mem hso hm])
      refine ⟨?_, (by first | trivial | rfl)⟩
      rw [hFd, if_neg hnm, hr]; rfl
  · simp only [h1, if_false]
    have hnm : R.doc s.req ∉ lo := by
      intro hm
      have := Exclude.all_ge_doc hso _ hm
      rw [← hSO.lawful.doc_eq hVO] at this
      omega
    refine ⟨?_, (by first | trivial | rfl)⟩
    rw [hFd, if_neg hnm, hr]; rfl

theorem score_cached {s : State σ τ} {v : Nat} (hc : s.cache = some v) :
    (score R O s).1 = v ∧ (score R O s).2 = s := by
  unfold score; simp only [hc]; exact ⟨(by first | trivial | rfl), (by first | trivial | rfl)⟩

theorem core_RS (hSR : Scored R VR WR gR) (F : Nat → Nat) :
    Core (doc (τ := τ) R) (advance R) (seek R) (RS gR gO VR VO F) where
  sorted := fun h => hSR.lawful.sorted h.1
  doc_eq := fun h => hSR.lawful.doc_eq h.1
  advance := by
    rintro s l ⟨h1, h2, h3, _⟩
    exact ⟨hSR.lawful.advance h1, h2, h3.sub (fun x hx => List.mem_of_mem_tail hx) (hSR.ghost.advance _) rfl,
      fun v hv => by cases hv⟩
  seek := by
    rintro s l t ⟨h1, h2, h3, _⟩ hd ht
    exact ⟨hSR.lawful.seek h1 hd ht, h2,
      h3.sub (fun x hx => (List.dropWhile_sublist _).subset hx) (hSR.ghost.seek _ _) rfl, fun v hv => by cases hv⟩

/-- the required/optional scorer with its scores is lawful -/
theorem lawful_RS (hSR : Scored R VR WR gR) (F : Nat → Nat) :
    Lawful (ds R O) (RS gR gO VR VO F) (RSW gR gO WR VO F) where
  sorted := (core_RS hSR F).sorted
  doc_eq := (core_RS hSR F).doc_eq
  advance := (core_RS hSR F).advance
  seek := (core_RS hSR F).seek
  fillBuffer := fun h => defaultFillBuffer_law (core_RS hSR F).toCore0 h
  fillBitset := fun h hd hm => defaultFillBitset_law (core_RS hSR F) h hd hm
  count := fun h => defaultCount_law (core_RS hSR F).toCore0 h
  wsorted := fun h => hSR.lawful.wsorted h.1
  wdoc := fun h => hSR.lawful.wdoc h.1
  wseek := by
    rintro s t0 l t ⟨h1, h2, h3⟩ h0 hd ht
    exact ⟨hSR.lawful.wseek h1 h0 hd ht, h2,
      h3.sub (fun x hx => (List.dropWhile_sublist _).subset hx) (hSR.ghost.seek _ _) rfl, fun v hv => by cases hv⟩
  sdV := by
    rintro s l t ⟨h1, h2, h3, _⟩ ht
    have k := hSR.lawful.sdV h1 ht
    have kg := hSR.ghost.seekDanger t s.req
    show SDPost _ _ l t True ((R.seekDanger t s.req).1, ({ s with req := (R.seekDanger t s.req).2, cache := none } : State σ τ))
    revert k kg
    generalize R.seekDanger t s.req = r
    rcases r with ⟨r1, r'⟩
    cases r1 with
    | found =>
      intro k kg
      exact ⟨k.1, k.2, h2, h3.sub (fun x hx => (List.dropWhile_sublist _).subset hx) kg rfl, fun v hv => by cases hv⟩
    | lower b =>
      intro k kg
      exact ⟨k.1, ⟨k.2.1, h2, h3.sub (fun x hx => (List.dropWhile_sublist _).subset hx) kg rfl⟩, k.2.2⟩
  sdW := by
    rintro s t0 l t ⟨h1, h2, h3⟩ h0 ht
    have k := hSR.lawful.sdW h1 h0 ht
    have kg := hSR.ghost.seekDanger t s.req
    show SDPost _ _ l t True ((R.seekDanger t s.req).1, ({ s with req := (R.seekDanger t s.req).2, cache := none } : State σ τ))
    revert k kg
    generalize R.seekDanger t s.req = r
    rcases r with ⟨r1, r'⟩
    cases r1 with
    | found =>
      intro k kg
      exact ⟨k.1, k.2, h2, h3.sub (fun x hx => (List.dropWhile_sublist _).subset hx) kg rfl, fun v hv => by cases hv⟩
    | lower b =>
      intro k kg
      exact ⟨k.1, ⟨k.2.1, h2, h3.sub (fun x hx => (List.dropWhile_sublist _).subset hx) kg rfl⟩, k.2.2⟩

end ReqOpt

/-- **closure under RequiredOptionalScorer** (SumCombiner): a scored required child plus a scored
optional child give a scored child whose score function is the required score plus the optional
score on the optional scorer's documents -/
theorem ReqOpt.scored {τ : Type} {O : DS τ} {VO : τ → List Nat → Prop} {WO : τ → Nat → List Nat → Prop}
    {gO : τ → Nat → Nat} (hSR : Scored C VC WC g) (hSO : Scored O VO WO gO) :
    Scored ((ReqOpt.ds C O).withGhost (α := Nat → Nat))
      (fun p l => ReqOpt.RS g gO VC VO p.2 p.1 l) (fun p t l => ReqOpt.RSW g gO WC VO p.2 p.1 t l)
      (fun p => p.2) where
  lawful := Lawful.withGhost (V := fun F s l => ReqOpt.RS g gO VC VO F s l)
      (W := fun F s t l => ReqOpt.RSW g gO WC VO F s t l) (fun F => ReqOpt.lawful_RS hSR F)
  hscore := by
    rintro p l ⟨h1, h2, h3, h4⟩
    have hs := hSR.lawful.sorted h1
    have hd := hSR.lawful.doc_eq h1
    have hdT : C.doc p.1.req ≤ TERMINATED := by rw [hd]; exact Spec.doc_le hs
    have hge : ∀ x ∈ l, C.doc p.1.req ≤ x := by rw [hd]; exact Exclude.all_ge_doc hs
    obtain ⟨a1, a2, _, a4, _⟩ := ReqOpt.score_state hSR hSO h2 hdT hge h3
    refine ⟨a4 l h1, a2, a1, ?_⟩
    intro v hv hne
    cases hc : p.1.cache with
    | some v0 =>
      obtain ⟨_, e2⟩ := ReqOpt.score_cached (R := C) (O := O) hc
      have hv' : (ReqOpt.score C O p.1).2.cache = some v := hv
      rw [e2] at hv'
      exact h4 v hv' hne
    | none =>
      have hlt : C.doc p.1.req < TERMINATED := by rw [hd]; exact doc_lt_of_ne_nil hs hne
      have hdl : C.doc p.1.req ∈ l := by rw [hd]; exact Spec.doc_mem (by rw [← hd]; exact hlt)
      obtain ⟨b1, b2⟩ := ReqOpt.score_val hSR hSO h2 hc hlt hdl (hSR.hg h1 hne) h3
      have hv' : (ReqOpt.score C O p.1).2.cache = some v := hv
      rw [b2] at hv'
      cases hv'
      rw [b1, hd]
      rfl
  wscore := by
    rintro p t l ⟨h1, h2, h3⟩
    have hws := hSR.lawful.wsorted h1
    have hwd := hSR.lawful.wdoc h1
    have hdT : C.doc p.1.req ≤ TERMINATED := Nat.le_trans hwd (Spec.doc_le hws.1)
    have hge : ∀ x ∈ l, C.doc p.1.req ≤ x := fun x hx => Nat.le_trans hwd (Exclude.all_ge_doc hws.1 x hx)
    obtain ⟨a1, a2, _, _, a5⟩ := ReqOpt.score_state hSR hSO h2 hdT hge h3
    exact ⟨a5 t l h1, a2, a1⟩
  ghost := withGhost_ghost _
  hg := by
    rintro p l ⟨h1, h2, h3, h4⟩ hne
    have hs := hSR.lawful.sorted h1
    have hd := hSR.lawful.doc_eq h1
    show (ReqOpt.score C O p.1).1 = p.2 (C.doc p.1.req)
    cases hc : p.1.cache with
    | some v0 =>
      obtain ⟨e1, _⟩ := ReqOpt.score_cached (R := C) (O := O) hc
      rw [e1, hd]; exact h4 v0 hc hne
    | none =>
      have hlt : C.doc p.1.req < TERMINATED := by rw [hd]; exact doc_lt_of_ne_nil hs hne
      have hdl : C.doc p.1.req ∈ l := by rw [hd]; exact Spec.doc_mem (by rw [← hd]; exact hlt)
      exact (ReqOpt.score_val hSR hSO h2 hc hlt hdl (hSR.hg h1 hne) h3).1



/-! ### the bitset leaf (constant score) -/

namespace BitSet

theorem seekLoop_score (t : Nat) : ∀ (n : Nat) (s : State), (seekLoop t n s).score = s.score
  | 0, _ => rfl
  | n + 1, s => by
    simp only [seekLoop]
    split
    · rw [seekLoop_score t n, (advance_all s).2.2]
    · rfl

theorem seek_score (fx : Fix) (t : Nat) (s : State) : (seek fx t s).score = s.score := by
  unfold seek
  split
  · split <;> rfl
  · simp only
    split
    · rw [(advance_all _).2.2]
    · exact seekLoop_score t _ s

theorem ghost (fx : Fix) : Inter.Ghost (ds fx) (fun c (_ : Nat) => c.score) where
  advance := fun s => congrArg (fun (x : Nat) (_ : Nat) => x) (advance_all s).2.2
  seek := fun t s => congrArg (fun (x : Nat) (_ : Nat) => x) (seek_score fx t s)
  seekDanger := fun t s => by
    have key : (defaultSeekDanger (fun s : State => s.doc) (seek fx) t s).2.score = s.score := by
      unfold defaultSeekDanger
      by_cases h1 : t ≥ TERMINATED
      · simp only [h1, if_true]
      · simp only [h1, if_false]
        by_cases h2 : s.doc < t
        · simp only [h2, if_true]
          split <;> exact seek_score fx t s
        · simp only [h2, if_false]
          split <;> rfl
    exact congrArg (fun (x : Nat) (_ : Nat) => x) key
  score := fun _ => rfl

end BitSet

/-- the bitset leaf with its constant score -/
theorem BitSet.scored (fx : Fix) :
    Scored (BitSet.ds fx) BitSet.V (defaultW BitSet.V) (fun c (_ : Nat) => c.score) where
  lawful := BitSet.lawful fx
  hscore := fun h => h
  wscore := fun h => h
  ghost := BitSet.ghost fx
  hg := fun _ _ => rfl

/-! ### every nesting -/

/-- the scorer types that can be assembled, at any depth, from the sorted-vector leaf with the scoring
node kinds (each inner node paired with its total score function as ghost data) -/
inductive ScoredNode : (σ : Type) → DS σ → (σ → List Nat → Prop) → (σ → Nat → List Nat → Prop) →
    (σ → Nat → Nat) → Prop where
  | vec : ScoredNode Vec.State Vec.ds Vec.V (defaultW Vec.V) (fun c _ => c.score)
  | bits (fx : Fix) : ScoredNode BitSet.State (BitSet.ds fx) BitSet.V (defaultW BitSet.V) (fun c _ => c.score)
  | small {σ : Type} {C : DS σ} {V : σ → List Nat → Prop} {W : σ → Nat → List Nat → Prop} {g : σ → Nat → Nat} :
      ScoredNode σ C V W g → ScoredNode σ C (RV V) (RW W) g
  | union {σ : Type} {C : DS σ} {V : σ → List Nat → Prop} {W : σ → Nat → List Nat → Prop} {g : σ → Nat → Nat}
      (H : Nat) (hH : 64 ∣ H) (hH0 : 0 < H) (fx : Fix) : ScoredNode σ C V W g →
      ScoredNode _ ((BUnion.dsNF C H fx).withGhost (α := Nat → Nat))
        (fun p l => BUnion.VS g p.2 V H p.1 l) (fun p t l => BUnion.WS g p.2 V W H p.1 t l) (fun p => p.2)
  | disj {σ : Type} {C : DS σ} {V : σ → List Nat → Prop} {W : σ → Nat → List Nat → Prop} {g : σ → Nat → Nat} :
      ScoredNode σ C V W g →
      ScoredNode _ ((Disj.ds C).withGhost (α := Nat → Nat))
        (fun p l => Disj.VS g p.2 V p.1 l) (fun p t l => defaultW (Disj.VS g p.2 V) p.1 t l) (fun p => p.2)
  | inter {σ : Type} {C : DS σ} {V : σ → List Nat → Prop} {W : σ → Nat → List Nat → Prop} {g : σ → Nat → Nat}
      (fx : Fix) : ScoredNode σ C V W g →
      ScoredNode _ ((Inter.ds C fx).withGhost (α := Nat → Nat))
        (fun p l => Inter.V (RV V) (RW W) p.1 l ∧ Inter.PF g p.2 p.1)
        (fun p t l => Inter.W (RV V) (RW W) p.1 t l ∧ Inter.PF g p.2 p.1) (fun p => p.2)
  | excl {σ τ : Type} {C : DS σ} {V : σ → List Nat → Prop} {W : σ → Nat → List Nat → Prop} {g : σ → Nat → Nat}
      {E : DS τ} {VE : τ → List Nat → Prop} {WE : τ → Nat → List Nat → Prop} {gE : τ → Nat → Nat} :
      ScoredNode σ C V W g → ScoredNode τ E VE WE gE →
      ScoredNode _ (Exclude.ds C E) (Exclude.V V VE WE) (defaultW (Exclude.V V VE WE)) (fun s => g s.u)
  | reqopt {σ τ : Type} {C : DS σ} {V : σ → List Nat → Prop} {W : σ → Nat → List Nat → Prop} {g : σ → Nat → Nat}
      {O : DS τ} {VO : τ → List Nat → Prop} {WO : τ → Nat → List Nat → Prop} {gO : τ → Nat → Nat} :
      ScoredNode σ C V W g → ScoredNode τ O VO WO gO →
      ScoredNode _ ((ReqOpt.ds C O).withGhost (α := Nat → Nat))
        (fun p l => ReqOpt.RS g gO V VO p.2 p.1 l) (fun p t l => ReqOpt.RSW g gO W VO p.2 p.1 t l) (fun p => p.2)

/-- **the score clause composes**: every scorer type assembled from these node kinds, at any depth,
provides what a scoring parent needs — in particular, on every valid state sitting on a document,
`score()` is the node's score function at that document, whatever calls led there -/
theorem ScoredNode.scored {σ : Type} {C : DS σ} {V : σ → List Nat → Prop} {W : σ → Nat → List Nat → Prop}
    {g : σ → Nat → Nat} (h : ScoredNode σ C V W g) : Scored C V W g := by
  induction h with
  | vec => exact Vec.scored
  | bits fx => exact BitSet.scored fx
  | small _ ih => exact ih.restrict
  | union H hH hH0 fx _ ih => exact BUnion.scored ih hH hH0 fx
  | disj _ ih => exact Disj.scored ih
  | inter fx _ ih => exact Inter.scored ih.restrict (fun h => h.2) fx
  | excl _ _ ih1 ih2 => exact Exclude.scored ih1 ih2.lawful
  | reqopt _ _ ih1 ih2 => exact ReqOpt.scored ih1 ih2

end TantivyModel.DocSet
