import TantivyModel.Proofs.TinySet
import TantivyModel.Proofs.DocSet.BufferedUnion
import TantivyModel.Proofs.DocSet.BitSet
/-!
The bucket arrays of the doc-set models (`BUnion.State.window`, `BitSet.State.all`) are sorted lists
of set bits. This file ties those list operations to the functions translated from
common/src/bitset.rs (`Gen/PureFns.lean`, `tinyset_*`): under the abstraction "word ↦ sorted list of
its set bits", `TinySet::insert_mut`, `pop_lowest`, `intersect(range_greater_or_equal)` compute
exactly `insertDelta`, `popBucket`, and the bucket filters of the models.
-/
namespace TantivyModel.DocSet.Bridge
open TantivyModel.TinySet TantivyModel.Gen.Fn

/-- the sorted list of the members of a `TinySet` word -/
def elems (s : BitVec 64) : List Nat := (List.range 64).filter (fun i => mem s i)

theorem mem_lt (s : BitVec 64) {i : Nat} (h : mem s i = true) : i < 64 := by
  apply Nat.lt_of_not_le
  intro hge
  have : s.getLsbD i = false := BitVec.getLsbD_of_ge s i hge
  simp [mem, this] at h

theorem mem_elems {s : BitVec 64} {i : Nat} : i ∈ elems s ↔ mem s i = true := by
  simp only [elems, List.mem_filter, List.mem_range]
  exact ⟨fun h => h.2, fun h => ⟨mem_lt s h, h⟩⟩

theorem elems_sorted (s : BitVec 64) : (elems s).Pairwise (· < ·) :=
  List.Pairwise.sublist List.filter_sublist List.pairwise_lt_range

theorem elems_lt (s : BitVec 64) : ∀ i ∈ elems s, i < 64 := fun _ h => mem_lt s (mem_elems.mp h)

/-- `TinySet::pop_lowest` pops the head of the member list -/
theorem elems_pop (s : BitVec 64) :
    (elems s = [] → tinyset_pop_lowest s = (none, s))
    ∧ (elems s ≠ [] → ∃ l s', tinyset_pop_lowest s = (some l, s') ∧ elems s = l.toNat :: elems s') := by
  constructor
  · intro h
    apply pop_lowest_empty
    intro i
    cases hm : mem s i with
    | false => rfl
    | true => have : i ∈ elems s := mem_elems.mpr hm; rw [h] at this; cases this
  · intro h
    obtain ⟨a, m, ham⟩ := List.exists_cons_of_ne_nil h
    have ha : mem s a = true := mem_elems.mp (by rw [ham]; simp)
    obtain ⟨l, s', e, hl, hml, hmin, hs'⟩ := pop_lowest_spec s ⟨a, ha⟩
    refine ⟨l, s', e, ?_⟩
    apply pairwise_ext (elems_sorted s)
    · refine List.pairwise_cons.mpr ⟨?_, elems_sorted s'⟩
      intro x hx
      have hx' := mem_elems.mp hx
      rw [hs' x] at hx'
      simp only [Bool.and_eq_true, Bool.not_eq_true', decide_eq_false_iff_not] at hx'
      have : ¬ x < l.toNat := fun hlt => by have := hmin x hlt; rw [this] at hx'; exact absurd hx'.1 (by simp)
      omega
    · intro x
      rw [mem_elems, List.mem_cons, mem_elems, hs' x]
      by_cases hx : x = l.toNat
      · subst hx; simp [hml]
      · simp [hx]

/-- `TinySet::insert_mut` is the sorted insertion of the models -/
theorem elems_insert (s : BitVec 64) (el : BitVec 32) (h : el.toNat < 64) :
    elems (tinyset_insert s el) = BUnion.insertDelta el.toNat (elems s) := by
  apply pairwise_ext (elems_sorted _) (BUnion.insertDelta_sorted _ (elems_sorted s))
  intro x
  rw [mem_elems, BUnion.mem_insertDelta, mem_elems, mem_insert s el h x]
  by_cases hx : x = el.toNat
  · simp [hx]
  · simp [hx]

/-- `tinyset.intersect(TinySet::range_greater_or_equal(lo))` keeps the members `≥ lo` -/
theorem elems_range_ge (s : BitVec 64) (lo : BitVec 32) (h : lo.toNat < 64) :
    elems (tinyset_intersect s (tinyset_range_greater_or_equal lo))
      = (elems s).filter (fun i => decide (lo.toNat ≤ i)) := by
  apply pairwise_ext (elems_sorted _) ((elems_sorted s).sublist List.filter_sublist)
  intro x
  rw [mem_elems, List.mem_filter, mem_elems, mem_intersect, mem_range_greater_or_equal lo h x]
  constructor
  · intro hx
    simp only [Bool.and_eq_true, decide_eq_true_eq] at hx
    exact ⟨hx.1, by simpa using hx.2.1⟩
  · rintro ⟨h1, h2⟩
    simp only [Bool.and_eq_true, decide_eq_true_eq]
    exact ⟨h1, by simpa using h2, mem_lt s h1⟩

/-! ### arrays of buckets -/

/-- the sorted list of the set bits of a bucket array, first bucket number `b0` -/
def windowFrom : Nat → List (BitVec 64) → List Nat
  | _, [] => []
  | b0, s :: r => (elems s).map (64 * b0 + ·) ++ windowFrom (b0 + 1) r

def window (bs : List (BitVec 64)) : List Nat := windowFrom 0 bs

theorem mem_windowFrom : ∀ (bs : List (BitVec 64)) (b0 x : Nat),
    x ∈ windowFrom b0 bs ↔ b0 ≤ x / 64 ∧ x / 64 - b0 < bs.length ∧ mem (bs.getD (x / 64 - b0) 0#64) (x % 64) = true
  | [], b0, x => by simp [windowFrom]
  | s :: r, b0, x => by
    simp only [windowFrom, List.mem_append, List.mem_map, mem_windowFrom r (b0 + 1) x, List.length_cons]
    constructor
    · rintro (⟨i, hi, rfl⟩ | ⟨h1, h2, h3⟩)
      · have hlt := elems_lt s i hi
        have e1 : (64 * b0 + i) / 64 = b0 := by omega
        have e2 : (64 * b0 + i) % 64 = i := by omega
        rw [e1, e2]
        refine ⟨Nat.le_refl _, by omega, ?_⟩
        simp only [Nat.sub_self, List.getD_cons_zero]
        exact mem_elems.mp hi
      · refine ⟨by omega, by omega, ?_⟩
        have e : x / 64 - b0 = (x / 64 - (b0 + 1)) + 1 := by omega
        rw [e, List.getD_cons_succ]; exact h3
    · rintro ⟨h1, h2, h3⟩
      by_cases hb : x / 64 = b0
      · left
        refine ⟨x % 64, mem_elems.mpr ?_, by omega⟩
        rw [hb] at h3
        simpa using h3
      · right
        refine ⟨by omega, by omega, ?_⟩
        have e : x / 64 - b0 = (x / 64 - (b0 + 1)) + 1 := by omega
        rw [e, List.getD_cons_succ] at h3; exact h3

theorem windowFrom_sorted : ∀ (bs : List (BitVec 64)) (b0 : Nat), (windowFrom b0 bs).Pairwise (· < ·)
  | [], _ => List.Pairwise.nil
  | s :: r, b0 => by
    simp only [windowFrom]
    rw [List.pairwise_append]
    refine ⟨List.pairwise_map.mpr ((elems_sorted s).imp (fun h => by omega)), windowFrom_sorted r (b0 + 1), ?_⟩
    intro a ha b hb
    obtain ⟨i, hi, rfl⟩ := List.mem_map.mp ha
    have := elems_lt s i hi
    have hb' := (mem_windowFrom r (b0 + 1) b).mp hb
    omega

theorem mem_window (bs : List (BitVec 64)) (x : Nat) :
    x ∈ window bs ↔ x / 64 < bs.length ∧ mem (bs.getD (x / 64) 0#64) (x % 64) = true := by
  simp [window, mem_windowFrom]

theorem window_sorted (bs : List (BitVec 64)) : (window bs).Pairwise (· < ·) := windowFrom_sorted bs 0

theorem getD_set (bs : List (BitVec 64)) (k j : Nat) (v : BitVec 64) :
    (bs.set k v).getD j 0#64 = if j = k ∧ k < bs.length then v else bs.getD j 0#64 := by
  simp only [List.getD_eq_getElem?_getD, List.getElem?_set]
  by_cases h : k = j
  · subst h
    by_cases hk : k < bs.length
    · simp [hk]
    · have : bs[k]? = none := List.getElem?_eq_none (by omega)
      simp [hk, this]
  · have : ¬ j = k := fun h' => h h'.symm
    simp [h, this]

/-- `self.bitsets[delta / 64].insert_mut(delta % 64)` (refill) is `insertDelta` on the window -/
theorem window_insert (bs : List (BitVec 64)) (k : Nat) (e : BitVec 32) (hk : k < bs.length) (he : e.toNat < 64) :
    window (bs.set k (tinyset_insert (bs.getD k 0#64) e)) = BUnion.insertDelta (64 * k + e.toNat) (window bs) := by
  apply pairwise_ext (window_sorted _) (BUnion.insertDelta_sorted _ (window_sorted bs))
  intro x
  rw [mem_window, BUnion.mem_insertDelta, mem_window, List.length_set, getD_set]
  by_cases hb : x / 64 = k
  · rw [if_pos ⟨hb, hk⟩, mem_insert _ e he, hb]
    constructor
    · rintro ⟨_, h⟩
      simp only [Bool.or_eq_true, decide_eq_true_eq] at h
      rcases h with h | h
      · exact Or.inr ⟨hk, h⟩
      · exact Or.inl (by omega)
    · rintro (h | ⟨_, h⟩)
      · refine ⟨hk, ?_⟩
        have : x % 64 = e.toNat := by omega
        simp [this]
      · exact ⟨hk, by rw [h, Bool.true_or]⟩
  · rw [if_neg (fun h => hb h.1)]
    constructor
    · intro h; exact Or.inr h
    · rintro (h | h)
      · exfalso; apply hb; omega
      · exact h

/-- what `popBucket` computes on a sorted window -/
theorem popBucket_spec (b : Nat) : ∀ (w : List Nat), w.Pairwise (· < ·) →
    (BUnion.popBucket b w = none → ∀ δ ∈ w, δ / 64 ≠ b)
    ∧ (∀ δ w', BUnion.popBucket b w = some (δ, w') →
        δ ∈ w ∧ δ / 64 = b ∧ (∀ x ∈ w, x / 64 = b → δ ≤ x) ∧ w'.Pairwise (· < ·) ∧ ∀ x, x ∈ w' ↔ x ∈ w ∧ x ≠ δ)
  | [], _ => ⟨fun _ δ h => (by cases h), fun δ w' h => (by simp [BUnion.popBucket] at h)⟩
  | a :: r, hp => by
    have hp' := List.pairwise_cons.mp hp
    obtain ⟨i1, i2⟩ := popBucket_spec b r hp'.2
    simp only [BUnion.popBucket]
    by_cases ha : a / 64 = b
    · simp only [ha, if_true]
      refine ⟨fun h => (by cases h), fun δ w' h => ?_⟩
      simp only [Option.some.injEq, Prod.mk.injEq] at h
      obtain ⟨rfl, rfl⟩ := h
      refine ⟨by simp, ha, ?_, hp'.2, ?_⟩
      · intro x hx _
        rcases List.mem_cons.mp hx with rfl | h'
        · exact Nat.le_refl _
        · exact Nat.le_of_lt (hp'.1 x h')
      · intro x
        simp only [List.mem_cons]
        constructor
        · intro h; exact ⟨Or.inr h, fun e => by have := hp'.1 x h; omega⟩
        · rintro ⟨h | h, hne⟩
          · exact absurd h hne
          · exact h
    · simp only [ha, if_false]
      cases hq : BUnion.popBucket b r with
      | none =>
        simp only
        refine ⟨fun _ δ hδ => ?_, fun δ w' h => (by cases h)⟩
        rcases List.mem_cons.mp hδ with rfl | h'
        · exact ha
        · exact i1 hq δ h'
      | some q =>
        rcases q with ⟨y, ys⟩
        simp only
        refine ⟨fun h => (by cases h), fun δ w' h => ?_⟩
        simp only [Option.some.injEq, Prod.mk.injEq] at h
        obtain ⟨rfl, rfl⟩ := h
        obtain ⟨j1, j2, j3, j4, j5⟩ := i2 y ys hq
        refine ⟨List.mem_cons_of_mem _ j1, j2, ?_, ?_, ?_⟩
        · intro x hx hxb
          rcases List.mem_cons.mp hx with rfl | h'
          · exact absurd hxb ha
          · exact j3 x h' hxb
        · refine List.pairwise_cons.mpr ⟨fun x hx => hp'.1 x ((j5 x).mp hx).1, j4⟩
        · intro x
          simp only [List.mem_cons, j5 x]
          constructor
          · rintro (rfl | ⟨h1, h2⟩)
            · exact ⟨Or.inl rfl, fun e => by rw [e] at ha; exact ha j2⟩
            · exact ⟨Or.inr h1, h2⟩
          · rintro ⟨rfl | h1, h2⟩
            · exact Or.inl rfl
            · exact Or.inr ⟨h1, h2⟩

/-- `self.bitsets[bucket].pop_lowest()` (advance_buffered, fill_buffer) is `popBucket` on the window -/
theorem window_pop (bs : List (BitVec 64)) (b : Nat) (hb : b < bs.length) :
    BUnion.popBucket b (window bs) =
      match tinyset_pop_lowest (bs.getD b 0#64) with
      | (none, _) => none
      | (some l, s') => some (64 * b + l.toNat, window (bs.set b s')) := by
  obtain ⟨p1, p2⟩ := popBucket_spec b (window bs) (window_sorted bs)
  obtain ⟨e1, e2⟩ := elems_pop (bs.getD b 0#64)
  by_cases hemp : elems (bs.getD b 0#64) = []
  · rw [e1 hemp]
    simp only
    cases hq : BUnion.popBucket b (window bs) with
    | none => rfl
    | some q =>
      exfalso
      obtain ⟨j1, j2, _⟩ := p2 q.1 q.2 hq
      have := (mem_window bs q.1).mp j1
      rw [j2] at this
      have : q.1 % 64 ∈ elems (bs.getD b 0#64) := mem_elems.mpr this.2
      rw [hemp] at this; cases this
  · obtain ⟨l, s', f1, f2⟩ := e2 hemp
    rw [f1]
    simp only
    have hlm : mem (bs.getD b 0#64) l.toNat = true := mem_elems.mp (by rw [f2]; simp)
    have hl64 := mem_lt _ hlm
    have hin : 64 * b + l.toNat ∈ window bs := by
      rw [mem_window]
      have e1' : (64 * b + l.toNat) / 64 = b := by omega
      have e2' : (64 * b + l.toNat) % 64 = l.toNat := by omega
      rw [e1', e2']; exact ⟨hb, hlm⟩
    cases hq : BUnion.popBucket b (window bs) with
    | none =>
      exfalso
      exact p1 hq _ hin (by omega)
    | some q =>
      rcases q with ⟨δ, w'⟩
      obtain ⟨j1, j2, j3, j4, j5⟩ := p2 δ w' hq
      have hδm := (mem_window bs δ).mp j1
      rw [j2] at hδm
      have hδe : δ % 64 ∈ elems (bs.getD b 0#64) := mem_elems.mpr hδm.2
      have hmin : ∀ i ∈ elems (bs.getD b 0#64), l.toNat ≤ i := by
        intro i hi
        rw [f2] at hi
        rcases List.mem_cons.mp hi with rfl | h'
        · exact Nat.le_refl _
        · have := (List.pairwise_cons.mp (f2 ▸ elems_sorted (bs.getD b 0#64))).1 i h'
          omega
      have hδ : δ = 64 * b + l.toNat := by
        have h1 := j3 _ hin (by omega)
        have h2 := hmin _ hδe
        omega
      subst hδ
      congr 2
      apply pairwise_ext j4 (window_sorted _)
      intro x
      rw [j5 x, mem_window, mem_window, List.length_set, getD_set]
      have hs' : ∀ i, mem s' i = true ↔ (i ∈ elems (bs.getD b 0#64) ∧ i ≠ l.toNat) := by
        intro i
        rw [← mem_elems, f2]
        have hnd : l.toNat ∉ elems s' := by
          intro h
          have := (List.pairwise_cons.mp (f2 ▸ elems_sorted (bs.getD b 0#64))).1 _ h
          omega
        simp only [List.mem_cons]
        constructor
        · intro h; exact ⟨Or.inr h, fun e => hnd (e ▸ h)⟩
        · rintro ⟨h | h, hne⟩
          · exact absurd h hne
          · exact h
      by_cases hxb : x / 64 = b
      · rw [if_pos ⟨hxb, hb⟩, hxb, hs' (x % 64), mem_elems]
        constructor
        · rintro ⟨⟨h1, h2⟩, h3⟩; exact ⟨h1, h2, fun e => h3 (by omega)⟩
        · rintro ⟨h1, h2, h3⟩; exact ⟨⟨h1, h2⟩, fun e => h3 (by omega)⟩
      · rw [if_neg (fun h => hxb h.1)]
        constructor
        · rintro ⟨h1, _⟩; exact h1
        · intro h; exact ⟨h, fun e => hxb (by omega)⟩

/-- `BitSet::tinyset(bucket)`: the members of a `BitSet` in bucket `b` are the bucket's word -/
theorem bucketOf_window (ws : List (BitVec 64)) (b : Nat) :
    BitSet.bucketOf (window ws) b = (elems (ws.getD b 0#64)).map (64 * b + ·) := by
  apply pairwise_ext ((window_sorted ws).sublist List.filter_sublist)
    (List.pairwise_map.mpr ((elems_sorted _).imp (fun h => by omega)))
  intro x
  simp only [BitSet.bucketOf, List.mem_filter, mem_window, beq_iff_eq, List.mem_map]
  constructor
  · rintro ⟨⟨_, h2⟩, h3⟩
    rw [h3] at h2
    exact ⟨x % 64, mem_elems.mpr h2, by omega⟩
  · rintro ⟨i, hi, rfl⟩
    have hlt := elems_lt _ i hi
    have e1 : (64 * b + i) / 64 = b := by omega
    have e2 : (64 * b + i) % 64 = i := by omega
    rw [e1, e2]
    refine ⟨⟨?_, mem_elems.mp hi⟩, rfl⟩
    apply Nat.lt_of_not_le
    intro hge
    have : ws.getD b 0#64 = 0#64 := by
      rw [List.getD_eq_getElem?_getD, List.getElem?_eq_none hge]; rfl
    rw [this] at hi
    have := mem_elems.mp hi
    simp [mem] at this

/-- `BitSetDocSet::seek` into a later bucket:
`docs.tinyset(bucket).intersect(TinySet::range_greater_or_equal(target % 64))` is the model's
"members of the bucket from the target on" -/
theorem seek_mask (ws : List (BitVec 64)) (t : Nat) (lo : BitVec 32) (hlo : lo.toNat = t % 64) :
    (BitSet.bucketOf (window ws) (t / 64)).filter (fun d => decide (d ≥ t))
      = (elems (tinyset_intersect (ws.getD (t / 64) 0#64) (tinyset_range_greater_or_equal lo))).map (64 * (t / 64) + ·) := by
  have hl : lo.toNat < 64 := by omega
  rw [bucketOf_window, elems_range_ge _ lo hl, List.filter_map, hlo]
  congr 1
  apply List.filter_congr
  intro i hi
  have := elems_lt _ i hi
  simp only [Function.comp, decide_eq_decide]
  omega

end TantivyModel.DocSet.Bridge
