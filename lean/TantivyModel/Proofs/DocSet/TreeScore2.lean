import TantivyModel.Proofs.DocSet.TreeScore1
/-!
Nesting depth 2 on the driver's model, for the conjunction-of-disjunctions shape: an `Intersection`
whose children are SUM `BufferedUnionScorer`s over leaves. The score theorems live on scorer types
whose inner nodes carry their total score function as ghost data; `Hom` (erasing the ghost data
commutes with every method the parent uses) carries them over to the model the driver runs.
-/
namespace TantivyModel.DocSet

/-- `ψ` maps states of `C'` to states of `C` commuting with every method a parent node uses -/
structure Hom {σ' σ : Type} (C' : DS σ') (C : DS σ) (ψ : σ' → σ) : Prop where
  doc : ∀ c, C.doc (ψ c) = C'.doc c
  advance : ∀ c, C.advance (ψ c) = ψ (C'.advance c)
  seek : ∀ t c, C.seek t (ψ c) = ψ (C'.seek t c)
  seekDanger : ∀ t c, C.seekDanger t (ψ c) = ((C'.seekDanger t c).1, ψ (C'.seekDanger t c).2)
  fillBitset : ∀ m c, C.fillBitset m (ψ c) = ((C'.fillBitset m c).1, ψ (C'.fillBitset m c).2)
  score : ∀ c, C.score (ψ c) = ((C'.score c).1, ψ (C'.score c).2)

/-- along programs without `count` and `fill_buffer` the two run alike -/
theorem Hom.run {σ' σ : Type} {D' : DS σ'} {D : DS σ} {Ψ : σ' → σ} (h : Hom D' D Ψ) :
    ∀ (prog : List Op) (s : σ'), (∀ op ∈ prog, op ≠ Op.count) → noFill prog →
      DocSet.implFinal D (Ψ s) prog = Ψ (DocSet.implFinal D' s prog) := by
  intro prog
  induction prog with
  | nil => intro s _ _; rfl
  | cons op rest ih =>
    intro s hnc hnf
    have hnc' : ∀ o ∈ rest, o ≠ Op.count := fun o ho => hnc o (List.mem_cons_of_mem _ ho)
    have hnf' : noFill rest := fun o ho => hnf o (List.mem_cons_of_mem _ ho)
    cases op with
    | count => exact absurd rfl (hnc _ (by simp))
    | fillBuffer => exact absurd rfl (hnf _ (by simp))
    | doc => exact ih s hnc' hnf'
    | advance =>
      show DocSet.implFinal D (D.advance (Ψ s)) rest = _
      rw [h.advance]; exact ih _ hnc' hnf'
    | seek t =>
      show DocSet.implFinal D (D.seek t (Ψ s)) rest = _
      rw [h.seek]; exact ih _ hnc' hnf'
    | fillBitset m =>
      show DocSet.implFinal D (D.fillBitset m (Ψ s)).2 rest = _
      rw [h.fillBitset]; exact ih _ hnc' hnf'
    | seekDanger t =>
      simp only [DocSet.implFinal, implStep]
      rw [h.seekDanger]
      generalize D'.seekDanger t s = r
      rcases r with ⟨r1, s'⟩
      cases r1 <;> exact ih _ hnc' hnf'

namespace Inter
variable {σ' σ : Type} {C' : DS σ'} {C : DS σ} {ψ : σ' → σ}

def State.map (ψ : σ' → σ) (s : State σ') : State σ :=
  { left := ψ s.left, right := ψ s.right, others := s.others.map ψ, dense := s.dense }

theorem toList_map (s : State σ') : toList (s.map ψ) = (toList s).map ψ := rfl

theorem ofList_map (dense : Bool) (dflt : State σ') : ∀ es : List σ',
    ofList dense (dflt.map ψ) (es.map ψ) = (ofList dense dflt es).map ψ
  | [] => rfl
  | [_] => rfl
  | _ :: _ :: _ => rfl

theorem maxDoc_map (h : Hom C' C ψ) : ∀ es : List σ', maxDoc C (es.map ψ) = maxDoc C' es
  | [] => rfl
  | e :: es => by
    simp only [maxDoc, List.map_cons, List.foldr_cons, h.doc]
    have := maxDoc_map h es
    simp only [maxDoc] at this
    rw [this]

theorem seekAll_map (h : Hom C' C ψ) (cand : Nat) : ∀ es : List σ',
    seekAll C cand (es.map ψ) = ((seekAll C' cand es).1, (seekAll C' cand es).2.map ψ)
  | [] => rfl
  | e :: es => by
    simp only [seekAll, List.map_cons, h.seek, h.doc]
    split
    · rfl
    · rw [seekAll_map h cand es]; rfl

theorem goLoop_map (h : Hom C' C ψ) : ∀ (n cand : Nat) (es : List σ'),
    goLoop C n cand (es.map ψ) = ((goLoop C' n cand es).1, (goLoop C' n cand es).2.map ψ)
  | 0, _, _ => rfl
  | n + 1, cand, es => by
    simp only [goLoop, seekAll_map h]
    generalize seekAll C' cand es = r
    rcases r with ⟨r1, es'⟩
    cases r1 with
    | none => rfl
    | some c' => exact goLoop_map h n c' es'

theorem dangerAll_map (h : Hom C' C ψ) (cand : Nat) : ∀ es : List σ',
    dangerAll C cand (es.map ψ) = ((dangerAll C' cand es).1, (dangerAll C' cand es).2.map ψ)
  | [] => rfl
  | e :: es => by
    simp only [dangerAll, List.map_cons, h.seekDanger]
    generalize C'.seekDanger cand e = r
    rcases r with ⟨r1, e'⟩
    cases r1 with
    | lower b => rfl
    | found => simp only [dangerAll_map h cand es]; rfl

theorem new_map (h : Hom C' C ψ) (dense : Bool) (l r : σ') (os : List σ') :
    new C dense (ψ l) (ψ r) (os.map ψ) = (new C' dense l r os).map ψ := by
  simp only [new, goToFirstDoc]
  have e : toList ({ left := ψ l, right := ψ r, others := os.map ψ, dense := dense } : State σ)
      = (toList ({ left := l, right := r, others := os, dense := dense } : State σ')).map ψ := rfl
  rw [e, maxDoc_map h, goLoop_map h]
  exact ofList_map dense ({ left := l, right := r, others := os, dense := dense } : State σ') _

theorem map_left (s : State σ') : (s.map ψ).left = ψ s.left := rfl
theorem map_right (s : State σ') : (s.map ψ).right = ψ s.right := rfl
theorem map_others (s : State σ') : (s.map ψ).others = s.others.map ψ := rfl
theorem map_dense (s : State σ') : (s.map ψ).dense = s.dense := rfl

theorem advLoop_map (h : Hom C' C ψ) : ∀ (n cand : Nat) (s : State σ'),
    advLoop C n cand (s.map ψ) = (advLoop C' n cand s).map ψ
  | 0, _, _ => rfl
  | n + 1, cand, s => by
    simp only [advLoop]
    by_cases hc : cand < TERMINATED
    · simp only [hc, if_true, map_left, map_right, map_others, h.seek, h.doc, h.seekDanger, dangerAll_map h]
      generalize C'.seekDanger (C'.doc (C'.seek cand s.left)) s.right = r
      rcases r with ⟨r1, r'⟩
      cases r1 with
      | lower b =>
        exact advLoop_map h n b ({ s with left := C'.seek cand s.left, right := r' } : State σ')
      | found =>
        simp only
        generalize dangerAll C' (C'.doc (C'.seek cand s.left)) s.others = q
        rcases q with ⟨q1, os'⟩
        cases q1 with
        | some b =>
          exact advLoop_map h n b ({ s with left := C'.seek cand s.left, right := r', others := os' } : State σ')
        | none => rfl
    · simp only [hc, if_false, map_left, h.seek]
      rfl

theorem advance_map (h : Hom C' C ψ) (s : State σ') : advance C (s.map ψ) = (advance C' s).map ψ := by
  simp only [advance]
  have : C.doc (s.map ψ).left = C'.doc s.left := h.doc s.left
  rw [this]; exact advLoop_map h _ _ s

theorem seek_map (h : Hom C' C ψ) (t : Nat) (s : State σ') : seek C t (s.map ψ) = (seek C' t s).map ψ := by
  simp only [seek, goToFirstDoc]
  have e : toList ({ s.map ψ with left := C.seek t (s.map ψ).left } : State σ)
      = (toList ({ s with left := C'.seek t s.left } : State σ')).map ψ := by
    simp only [toList, State.map, List.map_cons, h.seek]
  rw [e, maxDoc_map h, goLoop_map h]
  have e2 : ({ s.map ψ with left := C.seek t (s.map ψ).left } : State σ)
      = ({ s with left := C'.seek t s.left } : State σ').map ψ := by
    simp only [State.map, h.seek]
  rw [e2]
  exact ofList_map s.dense _ _

theorem seekDanger_map (h : Hom C' C ψ) (t : Nat) (s : State σ') :
    seekDanger C t (s.map ψ) = ((seekDanger C' t s).1, (seekDanger C' t s).2.map ψ) := by
  simp only [seekDanger, State.map, h.seekDanger]
  generalize C'.seekDanger t s.left = r
  rcases r with ⟨r1, l'⟩
  cases r1 with
  | lower b => rfl
  | found =>
    simp only
    generalize C'.seekDanger t s.right = r
    rcases r with ⟨r1, r'⟩
    cases r1 with
    | lower b => rfl
    | found =>
      simp only [dangerAll_map h]
      generalize dangerAll C' t s.others = q
      rcases q with ⟨q1, os'⟩
      cases q1 <;> rfl

theorem scoreAll_map (h : Hom C' C ψ) : ∀ es : List σ',
    scoreAll C (es.map ψ) = ((scoreAll C' es).1, (scoreAll C' es).2.map ψ)
  | [] => rfl
  | e :: es => by simp only [scoreAll, List.map_cons, h.score, scoreAll_map h es]

theorem loopBitset_map (h : Hom C' C ψ) (hz : Nat) : ∀ (n : Nat) (s : State σ'),
    loopBitset (doc C) (advance C) hz n (s.map ψ)
      = ((loopBitset (doc C') (advance C') hz n s).1, (loopBitset (doc C') (advance C') hz n s).2.map ψ)
  | 0, s => by
    simp only [loopBitset]
    have : doc C (s.map ψ) = doc C' s := h.doc s.left
    rw [this]
  | n + 1, s => by
    have hd : ∀ s : State σ', doc C (s.map ψ) = doc C' s := fun s => h.doc s.left
    simp only [loopBitset, hd, advance_map h]
    split
    · rfl
    · split
      · rfl
      · rw [loopBitset_map h hz n]

/-- erasing through `ψ` commutes with every method of the intersection a parent (or a program) uses -/
theorem hom (h : Hom C' C ψ) (fx : Fix) : Hom (ds C' fx) (ds C fx) (State.map ψ) where
  doc := fun s => h.doc s.left
  advance := fun s => advance_map h s
  seek := fun t s => seek_map h t s
  seekDanger := fun t s => seekDanger_map h t s
  fillBitset := fun m s => by
    show defaultFillBitset (doc C) (advance C) (seek C) m (s.map ψ) = _
    simp only [defaultFillBitset, seek_map h]
    exact loopBitset_map h _ _ _
  score := fun s => by
    show (let r := scoreAll C (toList (s.map ψ)); (r.1, ofList (s.map ψ).dense (s.map ψ) r.2)) = _
    simp only [toList_map, scoreAll_map h]
    show (_, ofList s.dense (s.map ψ) ((scoreAll C' (toList s)).2.map ψ)) = _
    rw [ofList_map]
    rfl

end Inter

/-! ### conjunction of disjunctions at nesting depth 2 -/

/-- a SUM union over leaves as a scored child (with its total score function) -/
abbrev UChild := BUnion.State Leaf × (Nat → Nat)

/-- erasing the ghost data of a union child gives the driver's depth-1 state -/
def eraseU (p : UChild) : Comb Leaf := .bunion p.1

theorem eraseU_hom (fx : Fix) :
    Hom ((BUnion.dsNF (Leaf.ds fx) Comb.H fx).withGhost (α := Nat → Nat)) (Comb.ds (Leaf.ds fx) fx) eraseU where
  doc := fun _ => rfl
  advance := fun _ => rfl
  seek := fun _ _ => rfl
  seekDanger := fun _ _ => rfl
  fillBitset := fun _ _ => rfl
  score := fun _ => rfl

/-- a group: the leaf descriptions of one union, their lists, and the union of the lists -/
abbrev Group := List Tree × List (List Nat) × List Nat

def GroupOK (g : Group) : Prop := All2 (Den 0) g.1 g.2.1 ∧ SimpleUnion.IsUnion g.2.2 g.2.1

/-- the score a union group gives a document: the scores of its leaves containing it -/
def groupScore (g : Group) (x : Nat) : Nat := tsum g.1 g.2.1 x

/-- valid scored union children -/
def UV (p : UChild) (l : List Nat) : Prop := RV (fun (p : UChild) l => BUnion.VS leafScore p.2 Leaf.V Comb.H p.1 l) p l

theorem group_built (fx : Fix) (g : Group) (h : GroupOK g) :
    ∃ p : UChild, buildTree fx 1 (.bunion true g.1) = some (eraseU p) ∧ UV p g.2.2 ∧ p.2 = groupScore g := by
  obtain ⟨hA, hU⟩ := h
  obtain ⟨ss, hss, hAs, hB⟩ := leaves_built fx hA
  have hAs' : All2 Leaf.V ss g.2.1 := hAs.imp (fun _ _ h => h.1)
  refine ⟨(BUnion.build (Leaf.ds fx) Comb.H true ss, BUnion.gsum leafScore ss g.2.1),
    (by simp only [buildTree, hss]; rfl), ⟨?_, ?_⟩, ?_⟩
  · exact BUnion.build_scored (Leaf.scored fx) (show 64 ∣ Gen.UNION_HORIZON by decide)
      (show 0 < Gen.UNION_HORIZON by decide) hAs' hU
  · exact small_union hU (hAs.right_all (fun _ _ h => h.2))
  · funext x
    exact gsum_tsum fx hB g.2.1 x

theorem groups_built (fx : Fix) : ∀ (gs : List Group), (∀ g ∈ gs, GroupOK g) →
    ∃ ps : List UChild, (gs.map (fun g => Tree.bunion true g.1)).mapM (buildTree fx 1) = some (ps.map eraseU)
      ∧ All2 UV ps (gs.map (·.2.2)) ∧ ps.map (·.2) = gs.map groupScore
  | [], _ => ⟨[], rfl, All2.nil, rfl⟩
  | g :: gs, h => by
    obtain ⟨p, hp, vp, ep⟩ := group_built fx g (h g (by simp))
    obtain ⟨ps, hps, vps, eps⟩ := groups_built fx gs (fun g' hg' => h g' (List.mem_cons_of_mem _ hg'))
    refine ⟨p :: ps, ?_, All2.cons vp vps, by simp only [List.map_cons, ep, eps]⟩
    simp only [List.map_cons, List.mapM_cons, hp, hps]
    rfl

theorem buildTree_inter (fx : Fix) (n : Nat) (dense : Bool) (cs : List Tree) (l r : Level n) (os : List (Level n))
    (h : cs.mapM (buildTree fx n) = some (l :: r :: os)) :
    buildTree fx (n + 1) (.inter dense cs) = some (Comb.inter (Inter.new (levelDS fx n) dense l r os)) := by
  simp only [buildTree, h]
  rfl

/-- **Intersection of SUM unions of leaves — two levels, on the model the driver builds and runs.**
For the tree description `+(a b …) +(c d …) …`: `buildTree` at depth 2 succeeds and, after every legal
call program without `count` / `fill_buffer`, outside danger zones, the scorer sits on the
specification's document and `score()` is the sum over the unions of the scores of their leaves
containing the document. The inner unions are driven by the intersection through seek / seek_danger. -/
theorem tree2_inter_of_unions_score (fx : Fix) (dense : Bool) (g1 g2 : Group) (gs : List Group)
    (h1 : GroupOK g1) (h2 : GroupOK g2) (hs : ∀ g ∈ gs, GroupOK g) (prog : List Op)
    (hl : legalProg ⟨Inter.Common g1.2.2 g2.2.2 (gs.map (·.2.2)), none⟩ prog = true)
    (hnc : ∀ op ∈ prog, op ≠ Op.count) (hnf : noFill prog)
    (hnd : (specFinal ⟨Inter.Common g1.2.2 g2.2.2 (gs.map (·.2.2)), none⟩ prog).danger = none) :
    ∃ s, buildTree fx 2 (.inter dense (.bunion true g1.1 :: .bunion true g2.1 :: gs.map (fun g => Tree.bunion true g.1))) = some s
      ∧ (levelDS fx 2).doc (implFinal (levelDS fx 2) s prog)
          = Spec.doc (specFinal ⟨Inter.Common g1.2.2 g2.2.2 (gs.map (·.2.2)), none⟩ prog).rest
      ∧ ((levelDS fx 2).doc (implFinal (levelDS fx 2) s prog) < TERMINATED →
          ((levelDS fx 2).score (implFinal (levelDS fx 2) s prog)).1
            = ((g1 :: g2 :: gs).map (fun g => groupScore g ((levelDS fx 2).doc (implFinal (levelDS fx 2) s prog)))).sum) := by
  obtain ⟨p1, hp1, v1, e1⟩ := group_built fx g1 h1
  obtain ⟨p2, hp2, v2, e2⟩ := group_built fx g2 h2
  obtain ⟨ps, hps, vps, eps⟩ := groups_built fx gs hs
  -- the scored children and the scored intersection over them
  have hS := (BUnion.scored (Leaf.scored fx) (H := Comb.H) (show 64 ∣ Gen.UNION_HORIZON by decide)
    (show 0 < Gen.UNION_HORIZON by decide) fx).restrict
  have hψ := eraseU_hom fx
  have hH := Inter.hom hψ fx
  have h0 := Inter.new_scored hS dense v1 v2 vps
  have key := score_of_lawful
    (Inter.lawful_S hS (fun h => h.2) fx (fun x => (((p1 :: p2 :: ps).map (fun p : UChild => p.2)).map (fun f => f x)).sum))
    (F := fun x => (((p1 :: p2 :: ps).map (fun p : UChild => p.2)).map (fun f => f x)).sum)
    (fun {s l} hV hne => by
      have hd : (Inter.ds ((BUnion.dsNF (Leaf.ds fx) Comb.H fx).withGhost (α := Nat → Nat)) fx).doc s = Spec.doc l :=
        (Inter.core hS.lawful).doc_eq hV.1
      have hv := Inter.score_value hS.lawful fx (fun p : UChild => p.2) hS.hg hV.1 hne
      rw [hv, hd]
      exact (congrFun hV.2 (Spec.doc l)).symm) h0 prog hl hnc hnd
  -- the state the driver builds is the erasure of the scored one
  have hm : (Tree.bunion true g1.1 :: Tree.bunion true g2.1 :: gs.map (fun g => Tree.bunion true g.1)).mapM (buildTree fx 1)
      = some ((eraseU p1 : Level 1) :: (eraseU p2 : Level 1) :: (ps.map eraseU : List (Level 1))) := by
    simp only [List.mapM_cons, hp1, hp2, hps]
    rfl
  have hbuild := buildTree_inter fx 1 dense _ _ _ _ hm
  have hnew : Inter.new (levelDS fx 1) dense (eraseU p1) (eraseU p2) (ps.map eraseU)
      = (Inter.new ((BUnion.dsNF (Leaf.ds fx) Comb.H fx).withGhost (α := Nat → Nat)) dense p1 p2 ps).map eraseU :=
    Inter.new_map hψ dense p1 p2 ps
  refine ⟨_, hbuild, ?_⟩
  have e : implFinal (levelDS fx 2) (Comb.inter (Inter.new (levelDS fx 1) dense (eraseU p1) (eraseU p2) (ps.map eraseU))) prog
      = Comb.inter ((implFinal (Inter.ds ((BUnion.dsNF (Leaf.ds fx) Comb.H fx).withGhost (α := Nat → Nat)) fx)
          (Inter.new ((BUnion.dsNF (Leaf.ds fx) Comb.H fx).withGhost (α := Nat → Nat)) dense p1 p2 ps) prog).map eraseU) :=
    (Comb.implFinal_inter (levelDS fx 1) fx prog _).trans
      (congrArg Comb.inter ((congrArg (fun z => implFinal (Inter.ds (levelDS fx 1) fx) z prog) hnew).trans (hH.run prog _ hnc hnf)))
  revert key e
  generalize implFinal (Inter.ds ((BUnion.dsNF (Leaf.ds fx) Comb.H fx).withGhost (α := Nat → Nat)) fx)
      (Inter.new ((BUnion.dsNF (Leaf.ds fx) Comb.H fx).withGhost (α := Nat → Nat)) dense p1 p2 ps) prog = Y
  intro key e
  have hdoc' : (levelDS fx 2).doc (implFinal (levelDS fx 2) (Comb.inter (Inter.new (levelDS fx 1) dense (eraseU p1) (eraseU p2) (ps.map eraseU))) prog)
      = (Inter.ds ((BUnion.dsNF (Leaf.ds fx) Comb.H fx).withGhost (α := Nat → Nat)) fx).doc Y :=
    (congrArg (levelDS fx 2).doc e).trans (hH.doc Y)
  have hsc' : ((levelDS fx 2).score (implFinal (levelDS fx 2) (Comb.inter (Inter.new (levelDS fx 1) dense (eraseU p1) (eraseU p2) (ps.map eraseU))) prog)).1
      = ((Inter.ds ((BUnion.dsNF (Leaf.ds fx) Comb.H fx).withGhost (α := Nat → Nat)) fx).score Y).1 :=
    (congrArg (fun y => ((levelDS fx 2).score y).1) e).trans (congrArg Prod.fst (hH.score Y))
  refine ⟨hdoc'.trans key.1, fun hlt => ?_⟩
  have hlt' := hdoc' ▸ hlt
  have hlist : (p1 :: p2 :: ps).map (fun p : UChild => p.2) = (g1 :: g2 :: gs).map groupScore := by
    simp only [List.map_cons, e1, e2, eps]
  refine hsc'.trans ((key.2 hlt').trans ?_)
  rw [hlist, List.map_map]
  exact congrArg (fun d => ((g1 :: g2 :: gs).map (fun g => groupScore g d)).sum) hdoc'.symm

end TantivyModel.DocSet
