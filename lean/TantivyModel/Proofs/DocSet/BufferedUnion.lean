import TantivyModel.Proofs.DocSet.SimpleUnion
import TantivyModel.Model.DocSet.BufferedUnion
/-!
`BufferedUnionScorer`: the window (bucket array) holds exactly the not yet consumed members of the
children inside `[window_start, window_start + H)`; `advance` pops the smallest one, and when the
window is empty `refill` moves it to the smallest child document.
-/
namespace TantivyModel.DocSet.BUnion
open TantivyModel.DocSet

variable {σ : Type} {C : DS σ} {VC : σ → List Nat → Prop} {WC : σ → Nat → List Nat → Prop}

/-! ### the window as a sorted list of deltas -/

theorem mem_insertDelta (δ x : Nat) : ∀ (w : List Nat), x ∈ insertDelta δ w ↔ x = δ ∨ x ∈ w
  | [] => by simp [insertDelta]
  | y :: ys => by
    simp only [insertDelta]
    split
    · simp
    · split
      · rename_i h; subst h; simp
      · simp only [List.mem_cons, mem_insertDelta δ x ys]
        constructor
        · rintro (h | h | h)
          · exact Or.inr (Or.inl h)
          · exact Or.inl h
          · exact Or.inr (Or.inr h)
        · rintro (h | h | h)
          · exact Or.inr (Or.inl h)
          · exact Or.inl h
          · exact Or.inr (Or.inr h)

theorem insertDelta_sorted (δ : Nat) : ∀ {w : List Nat}, w.Pairwise (· < ·) →
    (insertDelta δ w).Pairwise (· < ·)
  | [], _ => by simp [insertDelta]
  | y :: ys, h => by
    have hp := List.pairwise_cons.mp h
    simp only [insertDelta]
    split
    · rename_i hlt
      refine List.pairwise_cons.mpr ⟨?_, h⟩
      intro a ha
      rcases List.mem_cons.mp ha with rfl | ha'
      · exact hlt
      · have := hp.1 a ha'; omega
    · split
      · exact h
      · rename_i h1 h2
        refine List.pairwise_cons.mpr ⟨?_, insertDelta_sorted δ hp.2⟩
        intro a ha
        rcases (mem_insertDelta δ a ys).mp ha with rfl | ha'
        · omega
        · exact hp.1 a ha'

/-- in a sorted window whose deltas all lie in buckets `≥ b`, bucket `b` is a prefix -/
theorem popBucket_cons {b δ : Nat} {w : List Nat} (h : δ / 64 = b) :
    popBucket b (δ :: w) = some (δ, w) := by
  simp [popBucket, h]

theorem popBucket_none {b : Nat} : ∀ {w : List Nat}, (∀ δ ∈ w, b < δ / 64) → popBucket b w = none
  | [], _ => rfl
  | x :: xs, h => by
    have hx := h x (by simp)
    have : ¬ x / 64 = b := by omega
    simp only [popBucket, this, if_false]
    rw [popBucket_none (fun δ hδ => h δ (List.mem_cons_of_mem _ hδ))]

/-- `advance_buffered` on a non-empty window pops its smallest delta -/
theorem advBuf_pop {H : Nat} {δ : Nat} {w : List Nat} :
    ∀ (k : Nat) (s : State σ), s.window = δ :: w → (δ :: w).Pairwise (· < ·) →
      (∀ x ∈ (δ :: w), s.bucketIdx ≤ x / 64) → δ / 64 < NB H → s.bucketIdx + k = δ / 64 →
      ∀ fuel, k + 1 ≤ fuel →
      ∃ s', advBuf H fuel s = (true, s') ∧ s'.window = w ∧ s'.doc = s.ws + δ ∧ s'.bucketIdx = δ / 64
        ∧ s'.ws = s.ws ∧ s'.docsets = s.docsets ∧ s'.sum = s.sum := by
  intro k
  induction k with
  | zero =>
    intro s hw hp hb hnb hk fuel hf
    cases fuel with
    | zero => omega
    | succ n =>
      have hbi : s.bucketIdx = δ / 64 := by omega
      simp only [advBuf, hbi, hnb, if_true, hw, popBucket_cons rfl]
      exact ⟨_, rfl, rfl, rfl, hbi.symm ▸ rfl, rfl, rfl, rfl⟩
  | succ k ih =>
    intro s hw hp hb hnb hk fuel hf
    cases fuel with
    | zero => omega
    | succ n =>
      have hlt : s.bucketIdx < NB H := by omega
      have hnone : popBucket s.bucketIdx s.window = none := by
        rw [hw]
        apply popBucket_none
        intro x hx
        have hp' := List.pairwise_cons.mp hp
        rcases List.mem_cons.mp hx with rfl | hx'
        · omega
        · have := hp'.1 x hx'
          have : δ / 64 ≤ x / 64 := Nat.div_le_div_right (Nat.le_of_lt this)
          omega
      simp only [advBuf, hlt, if_true, hnone]
      obtain ⟨s', h1, h2, h3, h4, h5, h6, h7⟩ := ih { s with bucketIdx := s.bucketIdx + 1 } hw hp
        (fun x hx => by
          have hp' := List.pairwise_cons.mp hp
          show s.bucketIdx + 1 ≤ x / 64
          rcases List.mem_cons.mp hx with rfl | hx'
          · omega
          · have := hp'.1 x hx'
            have : δ / 64 ≤ x / 64 := Nat.div_le_div_right (Nat.le_of_lt this)
            omega) hnb (by show s.bucketIdx + 1 + k = δ / 64; omega) n (by omega)
      exact ⟨s', h1, h2, h3, h4, h5, h6, h7⟩

/-- `advance_buffered` on an empty window fails and only moves the bucket cursor -/
theorem advBuf_empty {H : Nat} : ∀ (fuel : Nat) (s : State σ), s.window = [] →
    ∃ s', advBuf H fuel s = (false, s') ∧ s'.window = [] ∧ s'.docsets = s.docsets ∧ s'.ws = s.ws
      ∧ s'.doc = s.doc ∧ s'.sum = s.sum ∧ s'.scores = s.scores := by
  intro fuel
  induction fuel with
  | zero => intro s hw; exact ⟨s, rfl, hw, rfl, rfl, rfl, rfl, rfl⟩
  | succ n ih =>
    intro s hw
    simp only [advBuf]
    by_cases h : s.bucketIdx < NB H
    · simp only [h, if_true, hw, popBucket]
      obtain ⟨s', h1, h2, h3, h4, h5, h6, h7⟩ := ih { s with bucketIdx := s.bucketIdx + 1 } hw
      exact ⟨s', by simpa [hw] using h1, h2, h3, h4, h5, h6, h7⟩
    · simp only [h, if_false]
      exact ⟨s, rfl, hw, rfl, rfl, rfl, rfl, rfl⟩

theorem refillStop_eq (d hz : Nat) : refillStop d hz = decide (hz ≤ d) := by
  unfold refillStop
  simp [show Gen.UNION_REFILL_STOP_INCLUSIVE = 1 from rfl]

/-- what `refill` does with one child: the members below the horizon go into the window, the
child is kept (positioned on its first document at or beyond the horizon) unless exhausted -/
theorem drain_law (hC : Lawful C VC WC) (hscore : ∀ {c l}, VC c l → VC (C.score c).2 l)
    {H m : Nat} {sum : Bool} :
    ∀ (fuel : Nat) {c : σ} {li w : List Nat} {sc : Array Nat}, VC c li → li ≠ [] →
      (li.takeWhile (· < m + H)).length + 1 ≤ fuel → w.Pairwise (· < ·) →
      (match (drain C H m sum fuel c w sc).1 with
        | some c' => VC c' (li.dropWhile (· < m + H)) ∧ li.dropWhile (· < m + H) ≠ []
        | none => li.dropWhile (· < m + H) = [])
      ∧ (drain C H m sum fuel c w sc).2.1.Pairwise (· < ·)
      ∧ ∀ δ, δ ∈ (drain C H m sum fuel c w sc).2.1 ↔ δ ∈ w ∨ ∃ x ∈ li.takeWhile (· < m + H), δ = x - m := by
  intro fuel
  induction fuel with
  | zero => intro c li w sc _ _ hf; omega
  | succ n ih =>
    intro c li w sc hV hne hf hw
    obtain ⟨a, rest, rfl⟩ := List.exists_cons_of_ne_nil hne
    have hd : C.doc c = a := by rw [hC.doc_eq hV]; rfl
    have hs := hC.sorted hV
    simp only [drain, refillStop_eq, hd]
    by_cases hst : m + H ≤ a
    · have hna : ¬ a < m + H := by omega
      simp only [hst, decide_true, if_true, List.dropWhile_cons, List.takeWhile_cons, hna, decide_false]
      refine ⟨⟨hV, by simp⟩, hw, fun δ => by simp⟩
    · have hlt : a < m + H := by omega
      simp only [hst, decide_false, List.dropWhile_cons, List.takeWhile_cons, hlt, decide_true, if_true,
        Bool.false_eq_true, ↓reduceIte]
      -- the child after `score` (if any) and `advance`
      have hV1 : VC (if sum then C.score c else (0, c)).2 (a :: rest) := by
        cases sum
        · simpa using hV
        · simpa using hscore hV
      have hV2 := hC.advance hV1
      simp only [Spec.advance, List.tail_cons] at hV2
      have hs2 := hC.sorted hV2
      have hd2 := hC.doc_eq hV2
      by_cases hT : C.doc (C.advance (if sum then C.score c else (0, c)).2) = TERMINATED
      · have hnil : rest = [] := (Spec.doc_eq_term_iff hs2).mp (by rw [← hd2]; exact hT)
        simp only [hT, if_true]
        subst hnil
        refine ⟨by simp, insertDelta_sorted _ hw, fun δ => ?_⟩
        rw [mem_insertDelta]
        simp only [List.takeWhile_nil, List.mem_cons, List.mem_nil_iff, or_false, exists_eq_left]
        constructor
        · rintro (h | h)
          · exact Or.inr h
          · exact Or.inl h
        · rintro (h | h)
          · exact Or.inr h
          · exact Or.inl h
      · simp only [hT, if_false]
        have hne2 : rest ≠ [] := by
          intro h0; rw [h0] at hd2; exact hT hd2
        simp only [List.takeWhile_cons, hlt, decide_true, if_true, List.length_cons] at hf
        obtain ⟨i1, i2, i3⟩ := ih (w := insertDelta (a - m) w) (sc := if sum then sc.modify (a - m) (· + (if sum then C.score c else (0, c)).1) else sc)
          hV2 hne2 (by omega) (insertDelta_sorted _ hw)
        refine ⟨i1, i2, fun δ => ?_⟩
        rw [i3 δ, mem_insertDelta]
        simp only [List.mem_cons, exists_eq_or_imp]
        constructor
        · rintro ((h | h) | h)
          · exact Or.inr (Or.inl h)
          · exact Or.inl h
          · exact Or.inr (Or.inr h)
        · rintro (h | h | h)
          · exact Or.inl (Or.inr h)
          · exact Or.inl (Or.inl h)
          · exact Or.inr h


theorem mem_takeWhile_sorted {l : List Nat} (h : Sorted l) (hz x : Nat) :
    x ∈ l.takeWhile (· < hz) ↔ x ∈ l ∧ x < hz := by
  induction l with
  | nil => simp
  | cons a m ih =>
    obtain ⟨_, hlt, hs⟩ := h.of_cons
    simp only [List.takeWhile_cons]
    by_cases ha : a < hz
    · simp only [ha, decide_true, if_true, List.mem_cons, ih hs]
      constructor
      · rintro (rfl | ⟨h1, h2⟩)
        · exact ⟨Or.inl rfl, ha⟩
        · exact ⟨Or.inr h1, h2⟩
      · rintro ⟨rfl | h1, h2⟩
        · exact Or.inl rfl
        · exact Or.inr ⟨h1, h2⟩
    · simp only [ha, decide_false, Bool.false_eq_true, if_false, List.not_mem_nil, false_iff, List.mem_cons]
      rintro ⟨rfl | h1, h2⟩
      · exact ha h2
      · have := hlt x h1; omega

theorem takeWhile_length_le {l : List Nat} (h : Sorted l) {m H : Nat} (hm : ∀ x ∈ l, m ≤ x) :
    (l.takeWhile (· < m + H)).length ≤ H := by
  have hp : (l.takeWhile (· < m + H)).Pairwise (· < ·) := h.1.sublist (List.takeWhile_sublist _)
  have := length_le_of_sorted (lo := m) (N := m + H) hp
    (fun x hx => hm x ((mem_takeWhile_sorted h _ x).mp hx).1)
    (fun x hx => ((mem_takeWhile_sorted h _ x).mp hx).2)
  omega

/-- `refill`'s pass over all children -/
theorem refillAll_law (hC : Lawful C VC WC) (hscore : ∀ {c l}, VC c l → VC (C.score c).2 l)
    {H m : Nat} {sum : Bool} :
    ∀ {cs : List σ} {ls : List (List Nat)}, All2 VC cs ls →
      (∀ li ∈ ls, li ≠ [] ∧ ∀ x ∈ li, m ≤ x) →
      ∀ {w : List Nat} {sc : Array Nat}, w.Pairwise (· < ·) →
      ∃ ls', All2 VC (refillAll C H m sum cs w sc).1 ls' ∧ (∀ li' ∈ ls', li' ≠ [])
        ∧ (∀ x, (∃ li' ∈ ls', x ∈ li') ↔ ∃ li ∈ ls, x ∈ li ∧ m + H ≤ x)
        ∧ (refillAll C H m sum cs w sc).2.1.Pairwise (· < ·)
        ∧ ∀ δ, δ ∈ (refillAll C H m sum cs w sc).2.1 ↔
            δ ∈ w ∨ ∃ li ∈ ls, ∃ x ∈ li, x < m + H ∧ δ = x - m := by
  intro cs ls h
  induction h with
  | nil =>
    intro _ w sc hw
    exact ⟨[], All2.nil, by simp, by simp, hw, by simp [refillAll]⟩
  | @cons c li cs ls h1 h2 ih =>
    intro hls w sc hw
    have hli := hls li (by simp)
    have hs := hC.sorted h1
    have hfuel : (li.takeWhile (· < m + H)).length + 1 ≤ H + 1 := by
      have := takeWhile_length_le hs hli.2 (H := H); omega
    obtain ⟨d1, d2, d3⟩ := drain_law hC hscore (H := H) (m := m) (sum := sum) (H + 1) (w := w) (sc := sc) h1 hli.1 hfuel hw
    simp only [refillAll]
    revert d1 d2 d3
    generalize drain C H m sum (H + 1) c w sc = r
    rcases r with ⟨r1, w', sc'⟩
    intro d1 d2 d3
    simp only at d1 d2 d3
    obtain ⟨ls', i1, i2, i3, i4, i5⟩ := ih (fun l hl => hls l (List.mem_cons_of_mem _ hl)) (w := w') (sc := sc') d2
    have hwmem : ∀ δ, (δ ∈ w' ∨ ∃ lj ∈ ls, ∃ x ∈ lj, x < m + H ∧ δ = x - m) ↔
        (δ ∈ w ∨ ∃ lj ∈ li :: ls, ∃ x ∈ lj, x < m + H ∧ δ = x - m) := by
      intro δ
      rw [d3 δ]
      simp only [List.mem_cons, exists_eq_or_imp]
      constructor
      · rintro ((h | ⟨x, hx, rfl⟩) | h)
        · exact Or.inl h
        · exact Or.inr (Or.inl ⟨x, ((mem_takeWhile_sorted hs _ x).mp hx).1, ((mem_takeWhile_sorted hs _ x).mp hx).2, rfl⟩)
        · exact Or.inr (Or.inr h)
      · rintro (h | ⟨x, hx, hlt, rfl⟩ | h)
        · exact Or.inl (Or.inl h)
        · exact Or.inl (Or.inr ⟨x, (mem_takeWhile_sorted hs _ x).mpr ⟨hx, hlt⟩, rfl⟩)
        · exact Or.inr h
    cases r1 with
    | none =>
      simp only at d1 ⊢
      refine ⟨ls', i1, i2, fun x => ?_, i4, fun δ => by rw [i5 δ]; exact hwmem δ⟩
      rw [i3 x]
      constructor
      · rintro ⟨lj, hlj, hx⟩; exact ⟨lj, List.mem_cons_of_mem _ hlj, hx⟩
      · rintro ⟨lj, hlj, hx⟩
        rcases List.mem_cons.mp hlj with rfl | h'
        · exfalso
          have : x ∈ lj.dropWhile (· < m + H) := (Spec.mem_seek hs x).mpr hx
          rw [d1] at this; cases this
        · exact ⟨lj, h', hx⟩
    | some c' =>
      simp only at d1 ⊢
      refine ⟨li.dropWhile (· < m + H) :: ls', All2.cons d1.1 i1, ?_, fun x => ?_, i4,
        fun δ => by rw [i5 δ]; exact hwmem δ⟩
      · intro lj hlj
        rcases List.mem_cons.mp hlj with rfl | h'
        · exact d1.2
        · exact i2 lj h'
      · constructor
        · rintro ⟨lj, hlj, hx⟩
          rcases List.mem_cons.mp hlj with rfl | h'
          · have := (Spec.mem_seek hs x).mp hx
            exact ⟨li, by simp, this⟩
          · obtain ⟨lk, hlk, hx'⟩ := (i3 x).mp ⟨lj, h', hx⟩
            exact ⟨lk, List.mem_cons_of_mem _ hlk, hx'⟩
        · rintro ⟨lj, hlj, hx⟩
          rcases List.mem_cons.mp hlj with rfl | h'
          · exact ⟨lj.dropWhile (· < m + H), by simp, (Spec.mem_seek hs x).mpr hx⟩
          · obtain ⟨lk, hlk, hx'⟩ := (i3 x).mpr ⟨lj, h', hx⟩
            exact ⟨lk, List.mem_cons_of_mem _ hlk, hx'⟩


/-! ### the invariant and `advance` -/

theorem minDoc_eq (hC : Lawful C VC WC) {cs : List σ} {ls : List (List Nat)} (h : All2 VC cs ls) :
    minDoc C cs = SimpleUnion.minHead ls := by
  induction h with
  | nil => rfl
  | @cons c li cs ls h1 h2 ih =>
    cases h2 with
    | nil =>
      simp only [minDoc, SimpleUnion.minHead, List.foldr_cons, List.foldr_nil]
      rw [hC.doc_eq h1]
      have := Spec.doc_le (hC.sorted h1); omega
    | cons h3 h4 =>
      simp only [minDoc] at ih ⊢
      rw [ih, hC.doc_eq h1]
      simp only [SimpleUnion.minHead, List.foldr_cons]

/-- valid states of the buffered union with horizon `H` -/
def V (VC : σ → List Nat → Prop) (H : Nat) (s : State σ) (l : List Nat) : Prop :=
  ∃ ls U, All2 VC s.docsets ls ∧ (∀ li ∈ ls, li ≠ []) ∧ SimpleUnion.IsUnion U ls
    ∧ s.window.Pairwise (· < ·) ∧ (∀ δ ∈ s.window, δ < H ∧ s.bucketIdx ≤ δ / 64)
    ∧ (∀ x ∈ U, s.ws + H ≤ x) ∧ Sorted l
    ∧ ((s.doc = TERMINATED ∧ s.window = [] ∧ ls = [] ∧ l = [])
        ∨ (s.ws ≤ s.doc ∧ s.doc < s.ws + H ∧ (∀ δ ∈ s.window, s.doc < s.ws + δ)
            ∧ l = s.doc :: (s.window.map (s.ws + ·) ++ U)))

theorem isUnion_nil {U : List Nat} (h : SimpleUnion.IsUnion U []) : U = [] := by
  cases U with
  | nil => rfl
  | cons a m => have := (h.2 a).mp (by simp); simp at this

theorem all2_nil_right {R : σ → List Nat → Prop} {cs : List σ} (h : All2 R cs []) : cs = [] := by
  cases h; rfl

theorem all2_isEmpty {R : σ → List Nat → Prop} {cs : List σ} {ls : List (List Nat)} (h : All2 R cs ls) :
    cs.isEmpty = ls.isEmpty := by
  cases h <;> rfl

theorem div64_lt {H δ : Nat} (hH : 64 ∣ H) (h : δ < H) : δ / 64 < NB H := by
  obtain ⟨k, rfl⟩ := hH
  simp only [NB, Nat.mul_div_cancel_left k (by decide : 0 < 64)]
  exact Nat.div_lt_of_lt_mul h

/-- `refill` on an empty window followed by `advance_buffered`: the window moves to the smallest
child document `m`, receives every child member below `m + H`, and `m` becomes the current doc -/
theorem refill_pop_law (hC : Lawful C VC WC) (hscore : ∀ {c l}, VC c l → VC (C.score c).2 l)
    {H : Nat} (hH : 64 ∣ H) (hH0 : 0 < H) {s' : State σ} {ls : List (List Nat)} {U : List Nat}
    (e2 : s'.window = []) (h2 : All2 VC s'.docsets ls) (hne : ∀ li ∈ ls, li ≠ [])
    (hU : SimpleUnion.IsUnion U ls) :
    V VC H (match refill C H s' with
      | none => { s' with doc := TERMINATED }
      | some s'' => (advBuf H (NB H + 1) s'').2) U := by
    unfold refill
    rw [all2_isEmpty h2]
    cases ls with
    | nil =>
      -- every child is exhausted: the end
      have hUnil := isUnion_nil hU
      simp only [List.isEmpty_nil, if_true]
      rw [hUnil]
      refine ⟨[], U, h2, by simp, hU, by simp [e2], by simp [e2], by simp [hUnil], Sorted.nil,
        Or.inl ⟨rfl, e2, rfl, rfl⟩⟩
    | cons li0 ls0 =>
      simp only [List.isEmpty_cons, Bool.false_eq_true, if_false]
      have hUs := hU.1
      have hss := SimpleUnion.all2_sorted hC h2
      have hmdoc : minDoc C s'.docsets = Spec.doc U := by
        rw [minDoc_eq hC h2, SimpleUnion.doc_union hU hss]
      -- U is not empty
      have hUne : U ≠ [] := by
        obtain ⟨a, m, ham⟩ := List.exists_cons_of_ne_nil (hne li0 (by simp))
        intro h0
        have : a ∈ U := (hU.2 a).mpr ⟨li0, by simp, by rw [ham]; simp⟩
        rw [h0] at this; cases this
      obtain ⟨m, Ut, hUm⟩ := List.exists_cons_of_ne_nil hUne
      have hm : Spec.doc U = m := by rw [hUm]; rfl
      have hmin : ∀ li ∈ (li0 :: ls0), li ≠ [] ∧ ∀ x ∈ li, m ≤ x := by
        intro li hli
        refine ⟨hne li hli, fun x hx => ?_⟩
        have : x ∈ U := (hU.2 x).mpr ⟨li, hli, hx⟩
        rw [← hm]; exact Exclude.all_ge_doc hUs x this
      obtain ⟨ls', r1, r2, r3, r4, r5⟩ := refillAll_law hC hscore (H := H) (m := m) (sum := s'.sum) h2 hmin
        (w := s'.window) (sc := s'.scores) (by rw [e2]; exact List.Pairwise.nil)
      rw [hmdoc, hm]
      -- the refilled window
      generalize hrw : (refillAll C H m s'.sum s'.docsets s'.window s'.scores) = r at r1 r4 r5
      rcases r with ⟨cs', w', sc'⟩
      simp only at r1 r4 r5
      have hwmem : ∀ δ, δ ∈ w' ↔ ∃ x ∈ U, x < m + H ∧ δ = x - m := by
        intro δ
        rw [r5 δ, e2]
        simp only [List.not_mem_nil, false_or]
        constructor
        · rintro ⟨li, hli, x, hx, h1, h2'⟩; exact ⟨x, (hU.2 x).mpr ⟨li, hli, hx⟩, h1, h2'⟩
        · rintro ⟨x, hx, h1, h2'⟩
          obtain ⟨li, hli, hx'⟩ := (hU.2 x).mp hx
          exact ⟨li, hli, x, hx', h1, h2'⟩
      -- its head is delta 0
      have h0mem : 0 ∈ w' := (hwmem 0).mpr ⟨m, by rw [hUm]; simp, by omega, by omega⟩
      obtain ⟨d0, w'', hw'⟩ := List.exists_cons_of_ne_nil (List.ne_nil_of_mem h0mem)
      have hd0 : d0 = 0 := by
        rw [hw'] at h0mem r4
        rcases List.mem_cons.mp h0mem with h | h
        · exact h.symm
        · have := (List.pairwise_cons.mp r4).1 0 h; omega
      subst hd0
      have hp'' := List.pairwise_cons.mp (hw' ▸ r4)
      obtain ⟨s3, f1, f2, f3, f4, f5, f6, _⟩ := advBuf_pop (H := H) (δ := 0) (w := w'') 0
        { s' with ws := m, bucketIdx := 0, doc := m, docsets := cs', window := w', scores := sc' }
        hw' (hw' ▸ r4) (fun x _ => Nat.zero_le _) (div64_lt hH hH0) rfl (NB H + 1) (by omega)
      rw [f1]
      simp only at f2 f3 f4 f5 f6 ⊢
      -- the new remaining lists and their union
      have hU' : SimpleUnion.IsUnion (Spec.seek (m + H) U) ls' := by
        refine ⟨hUs.seek _, fun x => ?_⟩
        rw [Spec.mem_seek hUs, r3 x]
        constructor
        · rintro ⟨hx, hge⟩
          obtain ⟨li, hli, hx'⟩ := (hU.2 x).mp hx
          exact ⟨li, hli, hx', hge⟩
        · rintro ⟨li, hli, hx, hge⟩
          exact ⟨(hU.2 x).mpr ⟨li, hli, hx⟩, hge⟩
      -- members of the window tail
      have hw''mem : ∀ δ ∈ w'', 0 < δ ∧ δ < H ∧ m + δ ∈ U := by
        intro δ hδ
        have hpos := hp''.1 δ hδ
        obtain ⟨x, hx, h1, h2'⟩ := (hwmem δ).mp (by rw [hw']; exact List.mem_cons_of_mem _ hδ)
        have hmx : m ≤ x := by rw [← hm]; exact Exclude.all_ge_doc hUs x hx
        refine ⟨hpos, by omega, ?_⟩
        have : m + δ = x := by omega
        rw [this]; exact hx
      -- U = m :: window tail ++ the part beyond the horizon
      have hUeq : U = (m + 0) :: (w''.map (m + ·) ++ Spec.seek (m + H) U) := by
        have hmemR : ∀ x, x ∈ (m + 0) :: (w''.map (m + ·) ++ Spec.seek (m + H) U) ↔ x ∈ U := by
          intro x
          simp only [List.mem_cons, List.mem_append, List.mem_map, Nat.add_zero]
          constructor
          · rintro (rfl | ⟨δ, hδ, rfl⟩ | hx)
            · rw [hUm]; simp
            · exact (hw''mem δ hδ).2.2
            · exact ((Spec.mem_seek hUs x).mp hx).1
          · intro hx
            have hmx : m ≤ x := by rw [← hm]; exact Exclude.all_ge_doc hUs x hx
            by_cases hge : m + H ≤ x
            · exact Or.inr (Or.inr ((Spec.mem_seek hUs x).mpr ⟨hx, hge⟩))
            · have hin : x - m ∈ w' := (hwmem (x - m)).mpr ⟨x, hx, by omega, rfl⟩
              rw [hw'] at hin
              rcases List.mem_cons.mp hin with h | h
              · exact Or.inl (by omega)
              · exact Or.inr (Or.inl ⟨x - m, h, by omega⟩)
        have hpwR : ((m + 0) :: (w''.map (m + ·) ++ Spec.seek (m + H) U)).Pairwise (· < ·) := by
          refine List.pairwise_cons.mpr ⟨?_, ?_⟩
          · intro x hx
            rcases List.mem_append.mp hx with h | h
            · obtain ⟨δ, hδ, rfl⟩ := List.mem_map.mp h
              have := (hw''mem δ hδ).1; omega
            · have := ((Spec.mem_seek hUs x).mp h).2; omega
          · refine List.pairwise_append.mpr ⟨?_, (hUs.seek _).1, ?_⟩
            · exact List.pairwise_map.mpr (hp''.2.imp (fun h => by omega))
            · intro a ha b hb
              obtain ⟨δ, hδ, rfl⟩ := List.mem_map.mp ha
              have := (hw''mem δ hδ).2.1
              have := ((Spec.mem_seek hUs b).mp hb).2
              omega
        exact (pairwise_ext hpwR hUs.1 hmemR).symm
      refine ⟨ls', Spec.seek (m + H) U, ?_, r2, hU', ?_, ?_, ?_, hUs, Or.inr ⟨by rw [f3, f5]; omega, by rw [f3, f5]; omega, ?_, ?_⟩⟩
      · rw [f6]; exact r1
      · rw [f2]; exact hp''.2
      · intro δ hδ
        rw [f2] at hδ
        rw [f4]
        exact ⟨(hw''mem δ hδ).2.1, by simp⟩
      · intro x hx
        rw [f5]
        exact ((Spec.mem_seek hUs x).mp hx).2
      · intro δ hδ
        rw [f2] at hδ
        rw [f3, f5]
        have := (hw''mem δ hδ).1; omega
      · rw [f2, f3, f5]; exact hUeq



theorem advance_law (hC : Lawful C VC WC) (hscore : ∀ {c l}, VC c l → VC (C.score c).2 l)
    {H : Nat} (hH : 64 ∣ H) (hH0 : 0 < H) {s : State σ} {l : List Nat} (hV : V VC H s l) :
    V VC H (advance C H s) (Spec.advance l) := by
  obtain ⟨ls, U, h2, hne, hU, hwp, hwb, hUh, hsl, hcase⟩ := hV
  unfold advance
  cases hw : s.window with
  | cons δ w =>
    -- pop the smallest buffered document
    rcases hcase with ⟨_, hw0, _, _⟩ | ⟨_, _, hlt, rfl⟩
    · rw [hw] at hw0; cases hw0
    · have hδ := hwb δ (by rw [hw]; simp)
      obtain ⟨s', e1, e2, e3, e4, e5, e6, _⟩ := advBuf_pop (H := H) (δ / 64 - s.bucketIdx) s hw
        (hw ▸ hwp) (fun x hx => (hwb x (by rw [hw]; exact hx)).2) (div64_lt hH hδ.1) (by omega)
        (NB H + 1) (by have := div64_lt hH hδ.1; omega)
      rw [e1]
      simp only
      have hp' := List.pairwise_cons.mp (hw ▸ hwp)
      refine ⟨ls, U, e6 ▸ h2, hne, hU, e2 ▸ hp'.2, ?_, e5 ▸ hUh, ?_, Or.inr ⟨by rw [e3, e5]; omega, by rw [e3, e5]; have := hδ.1; omega, ?_, ?_⟩⟩
      · intro x hx
        rw [e2] at hx
        have hx' := hwb x (by rw [hw]; exact List.mem_cons_of_mem _ hx)
        refine ⟨hx'.1, ?_⟩
        rw [e4]
        exact Nat.div_le_div_right (Nat.le_of_lt (hp'.1 x hx))
      · simpa [Spec.advance, hw] using hsl.tail
      · intro x hx
        rw [e2] at hx
        rw [e3, e5]
        have := hp'.1 x hx; omega
      · simp [Spec.advance, hw, e2, e3, e5]
  | nil =>
    obtain ⟨s', e1, e2, e3, e4, e5, e6, e7⟩ := advBuf_empty (H := H) (NB H + 1) s hw
    rw [e1]
    simp only
    have hl : Spec.advance l = U := by
      rcases hcase with ⟨_, _, h0, rfl⟩ | ⟨_, _, _, rfl⟩
      · subst h0; exact (isUnion_nil hU).symm
      · simp [Spec.advance, hw]
    rw [hl]
    exact refill_pop_law hC hscore hH hH0 e2 (e3 ▸ h2) hne hU

theorem core0 (hC : Lawful C VC WC) (hscore : ∀ {c l}, VC c l → VC (C.score c).2 l)
    {H : Nat} (hH : 64 ∣ H) (hH0 : 0 < H) :
    Core0 (fun s : State σ => s.doc) (advance C H) (V VC H) where
  sorted := by rintro s l ⟨_, _, _, _, _, _, _, _, hs, _⟩; exact hs
  doc_eq := by
    rintro s l ⟨_, _, _, _, _, _, _, _, _, hc⟩
    rcases hc with ⟨h1, _, _, rfl⟩ | ⟨_, _, _, rfl⟩
    · exact h1
    · rfl
  advance := fun h => advance_law hC hscore hH hH0 h

end TantivyModel.DocSet.BUnion
