import TantivyModel.Proofs.DocSet.Exclude
import TantivyModel.Model.DocSet.Disjunction
/-! `Disjunction` (minimum-should-match, src/query/disjunction.rs) refines the sorted-list cursor over
the documents contained in at least `minimum_matches_required` of the children -/
namespace TantivyModel.DocSet.Disj
variable {σ : Type} {C : DS σ} {VC : σ → List Nat → Prop} {WC : σ → Nat → List Nat → Prop}

/-- number of lists containing `x` -/
def cnt (x : Nat) (ls : List (List Nat)) : Nat := (ls.filter (fun li => decide (x ∈ li))).length

/-- termination measure of the pop loop -/
def mu : List (List Nat) → Nat
  | [] => 0
  | li :: ls => li.length + 1 + mu ls

theorem cnt_nil (x : Nat) : cnt x [] = 0 := rfl

theorem cnt_cons (x : Nat) (li : List Nat) (ls : List (List Nat)) :
    cnt x (li :: ls) = (if x ∈ li then 1 else 0) + cnt x ls := by
  unfold cnt
  by_cases h : x ∈ li
  · simp [List.filter_cons, h]; omega
  · simp [List.filter_cons, h]

theorem cnt_le_length (x : Nat) (ls : List (List Nat)) : cnt x ls ≤ ls.length :=
  List.length_filter_le _ _

theorem cnt_pos {x : Nat} {ls : List (List Nat)} (h : 0 < cnt x ls) : ∃ li ∈ ls, x ∈ li := by
  unfold cnt at h
  obtain ⟨li, hli⟩ := List.exists_mem_of_length_pos h
  have := List.mem_filter.mp hli
  exact ⟨li, this.1, by simpa using this.2⟩

theorem cnt_zero {x : Nat} {ls : List (List Nat)} (h : ∀ li ∈ ls, x ∉ li) : cnt x ls = 0 := by
  unfold cnt
  rw [List.length_eq_zero_iff, List.filter_eq_nil_iff]
  intro li hli
  simpa using h li hli

/-- the same lists up to order -/
structure Same (ls ls' : List (List Nat)) : Prop where
  cnt : ∀ x, cnt x ls = cnt x ls'
  mem : ∀ li, li ∈ ls ↔ li ∈ ls'
  mu : mu ls = mu ls'

theorem minDoc_le (C : DS σ) : ∀ (cs : List σ) (c : σ), c ∈ cs → minDoc C cs ≤ C.doc c
  | [], _, h => by cases h
  | d :: cs, c, h => by
    simp only [minDoc]
    rcases List.mem_cons.mp h with rfl | h'
    · exact Nat.min_le_left _ _
    · exact Nat.le_trans (Nat.min_le_right _ _) (minDoc_le C cs c h')

theorem minDoc_attained (C : DS σ) : ∀ (cs : List σ), cs ≠ [] → (∀ c ∈ cs, C.doc c ≤ TERMINATED) →
    ∃ c ∈ cs, C.doc c = minDoc C cs
  | [], h, _ => absurd rfl h
  | [d], _, hd => by
    refine ⟨d, by simp, ?_⟩
    have := hd d (by simp)
    simp only [minDoc]; omega
  | d :: e :: cs, _, hd => by
    obtain ⟨c, hc, he⟩ := minDoc_attained C (e :: cs) (by simp) (fun c hc => hd c (List.mem_cons_of_mem _ hc))
    by_cases h : C.doc d ≤ minDoc C (e :: cs)
    · exact ⟨d, by simp, by rw [minDoc]; omega⟩
    · exact ⟨c, List.mem_cons_of_mem _ hc, by rw [minDoc, he]; omega⟩

/-- `BinaryHeap::pop` -/
theorem popAt_law {m : Nat} : ∀ {cs : List σ} {ls : List (List Nat)}, All2 VC cs ls →
    (∃ c ∈ cs, C.doc c = m) →
    ∃ c rest lc lrest, popAt C m cs = some (c, rest) ∧ VC c lc ∧ All2 VC rest lrest ∧ C.doc c = m
      ∧ Same ls (lc :: lrest) := by
  intro cs ls h
  induction h with
  | nil => rintro ⟨c, hc, _⟩; cases hc
  | @cons d ld cs0 ls0 hd _ ih =>
    intro hex
    simp only [popAt]
    by_cases hm : C.doc d = m
    · simp only [hm, if_true]
      exact ⟨d, cs0, ld, ls0, rfl, hd, by assumption, hm, ⟨fun _ => rfl, fun _ => Iff.rfl, rfl⟩⟩
    · simp only [hm, if_false]
      have hex' : ∃ c ∈ cs0, C.doc c = m := by
        obtain ⟨c, hc, he⟩ := hex
        rcases List.mem_cons.mp hc with rfl | h'
        · exact absurd he hm
        · exact ⟨c, h', he⟩
      obtain ⟨c, rest, lc, lrest, e1, e2, e3, e4, e5⟩ := ih hex'
      rw [e1]
      refine ⟨c, d :: rest, lc, ld :: lrest, rfl, e2, All2.cons hd e3, e4, ?_, ?_, ?_⟩
      · intro x
        have := e5.cnt x
        simp only [cnt_cons] at this ⊢
        omega
      · intro li
        have := e5.mem li
        simp only [List.mem_cons] at this ⊢
        rw [this]
        constructor
        · rintro (h | h | h)
          · exact Or.inr (Or.inl h)
          · exact Or.inl h
          · exact Or.inr (Or.inr h)
        · rintro (h | h | h)
          · exact Or.inr (Or.inl h)
          · exact Or.inl h
          · exact Or.inr (Or.inr h)
      · have := e5.mu
        simp only [mu] at this ⊢
        omega

theorem all2_doc_le (hC : Lawful C VC WC) {cs : List σ} {ls : List (List Nat)} (h : All2 VC cs ls) :
    ∀ c ∈ cs, C.doc c ≤ TERMINATED := by
  induction h with
  | nil => intro c hc; cases hc
  | cons x _ ih =>
    intro c hc
    rcases List.mem_cons.mp hc with rfl | h'
    · rw [hC.doc_eq x]; exact Spec.doc_le (hC.sorted x)
    · exact ih c h'

theorem all2_heads (hC : Lawful C VC WC) {m : Nat} {cs : List σ} {ls : List (List Nat)} (h : All2 VC cs ls) :
    (∀ c ∈ cs, m ≤ C.doc c) → ∀ li ∈ ls, m ≤ Spec.doc li := by
  induction h with
  | nil => intro _ li hli; cases hli
  | cons x _ ih =>
    intro hm li hli
    rcases List.mem_cons.mp hli with rfl | h'
    · rw [← hC.doc_eq x]; exact hm _ (by simp)
    · exact ih (fun c hc => hm c (List.mem_cons_of_mem _ hc)) li h'

theorem all2_sorted (hC : Lawful C VC WC) {cs : List σ} {ls : List (List Nat)} (h : All2 VC cs ls) :
    ∀ li ∈ ls, Sorted li := by
  induction h with
  | nil => intro li hli; cases hli
  | cons x _ ih =>
    intro li hli
    rcases List.mem_cons.mp hli with rfl | h'
    · exact hC.sorted x
    · exact ih li h'

theorem cnt_tail {lc : List Nat} (hs : Sorted lc) (hne : lc ≠ []) (lrest : List (List Nat)) :
    (∀ x, x ≠ Spec.doc lc → cnt x (lc.tail :: lrest) = cnt x (lc :: lrest))
      ∧ cnt (Spec.doc lc) (lc :: lrest) = 1 + cnt (Spec.doc lc) lrest
      ∧ cnt (Spec.doc lc) (lc.tail :: lrest) = cnt (Spec.doc lc) lrest := by
  cases lc with
  | nil => exact absurd rfl hne
  | cons a t =>
    have hat : a ∉ t := fun h => Nat.lt_irrefl _ (hs.of_cons.2.1 a h)
    simp only [Spec.doc, List.headD_cons, List.tail_cons, cnt_cons, List.mem_cons, true_or, if_true, hat,
      if_false, Nat.zero_add, and_self, and_true]
    intro x hx
    simp only [hx, false_or]

/-- total matches of `x` in the current round -/
def tot (d k1 : Nat) (ls : List (List Nat)) (x : Nat) : Nat := (if x = d then k1 else 0) + cnt x ls

def Post (VC : σ → List Nat → Prop) (m : Nat) (T : Nat → Nat) (ls : List (List Nat)) (s' : State σ) : Prop :=
  ∃ ls', All2 VC s'.chains ls' ∧ s'.minMatch = m ∧
    ((s'.currentDoc = TERMINATED ∧ (∀ x, T x < m) ∧ ∀ y, cnt y ls' < m)
      ∨ (s'.currentDoc < TERMINATED ∧ m ≤ T s'.currentDoc ∧ (∀ x, x < s'.currentDoc → T x < m)
          ∧ (∀ li ∈ ls', ∀ y ∈ li, s'.currentDoc < y) ∧ ∀ y, s'.currentDoc < y → cnt y ls' = cnt y ls))

theorem Post.transfer {m : Nat} {T T' : Nat → Nat} {ls ls2 : List (List Nat)} {s' : State σ}
    (h : Post VC m T' ls2 s') (ha : ∀ x, T' x < m → T x < m) (hb : ∀ x, m ≤ T' x → m ≤ T x)
    (hc : ∀ x y, m ≤ T' x → x < y → cnt y ls2 = cnt y ls) : Post VC m T ls s' := by
  obtain ⟨ls', h1, h2, h3⟩ := h
  refine ⟨ls', h1, h2, ?_⟩
  rcases h3 with ⟨a1, a2, a3⟩ | ⟨a1, a2, a3, a4, a5⟩
  · exact Or.inl ⟨a1, fun x => ha x (a2 x), a3⟩
  · exact Or.inr ⟨a1, hb _ a2, fun x hx => ha x (a3 x hx), a4, fun y hy => by rw [a5 y hy, hc _ y a2 hy]⟩

theorem finish_post {s : State σ} {k1 : Nat} (h1 : 1 ≤ s.minMatch) (hch : s.chains = [])
    (hk : k1 ≠ 0 → s.currentDoc < TERMINATED) :
    Post VC s.minMatch (tot s.currentDoc k1 []) [] (finish s k1) := by
  unfold finish
  by_cases hk' : k1 < s.minMatch
  · simp only [hk', if_true]
    refine ⟨[], by rw [hch]; exact All2.nil, rfl, Or.inl ⟨rfl, ?_, ?_⟩⟩
    · intro x; simp only [tot, cnt_nil]; split <;> omega
    · intro y; simp only [cnt_nil]; omega
  · simp only [hk', if_false]
    refine ⟨[], by rw [hch]; exact All2.nil, rfl, Or.inr ⟨hk (by omega), ?_, ?_, ?_, ?_⟩⟩
    · simp only [tot, cnt_nil, if_true]; omega
    · intro x hx
      have hx' : x < s.currentDoc := hx
      simp only [tot, cnt_nil]; split <;> omega
    · intro li hli; cases hli
    · intro y _; rfl

/-- the pop loop of `advance` -/
theorem advLoop_law (hC : Lawful C VC WC) (hscore : ∀ {c l}, VC c l → VC (C.score c).2 l) :
    ∀ (fuel : Nat) {s : State σ} {k1 : Nat} {ls : List (List Nat)}, All2 VC s.chains ls → mu ls < fuel →
      1 ≤ s.minMatch → (k1 = 0 → ∀ li ∈ ls, s.currentDoc ∉ li) →
      (k1 ≠ 0 → (∀ li ∈ ls, ∀ x ∈ li, s.currentDoc ≤ x) ∧ s.currentDoc < TERMINATED) →
      Post VC s.minMatch (tot s.currentDoc k1 ls) ls (advLoop C fuel s k1) := by
  intro fuel
  induction fuel with
  | zero => intro s k1 ls _ hf; omega
  | succ n ih =>
    intro s k1 ls hA hf hm hpre hmain
    simp only [advLoop]
    by_cases hch : s.chains = []
    · have hls : ls = [] := by
        rw [hch] at hA; cases hA; rfl
      subst hls
      simp only [popMin, hch, popAt]
      exact finish_post hm hch (fun h => (hmain h).2)
    · obtain ⟨c0, hc0, hc0m⟩ := minDoc_attained C s.chains hch (all2_doc_le hC hA)
      obtain ⟨c, rest, lc, lrest, e1, e2, e3, e4, e5⟩ := popAt_law (C := C) hA ⟨c0, hc0, hc0m⟩
      have hslc := hC.sorted e2
      have hdc := hC.doc_eq e2
      have hsl := all2_sorted hC hA
      have hlcmem : lc ∈ ls := (e5.mem lc).mpr (by simp)
      have hmin : ∀ li ∈ ls, Spec.doc lc ≤ Spec.doc li := by
        rw [← hdc, e4]
        exact all2_heads hC hA (fun c' hc' => minDoc_le C s.chains c' hc')
      have hall : ∀ li ∈ ls, ∀ x ∈ li, Spec.doc lc ≤ x := fun li hli x hx =>
        Nat.le_trans (hmin li hli) (Exclude.all_ge_doc (hsl li hli) x hx)
      simp only [popMin, e1]
      by_cases hT : C.doc c = TERMINATED
      · -- an exhausted scorer is dropped
        simp only [hT, if_true]
        have hnil : lc = [] := (Spec.doc_eq_term_iff hslc).mp (by rw [← hdc]; exact hT)
        have hcnt : ∀ x, cnt x ls = cnt x lrest := by
          intro x; rw [e5.cnt x, cnt_cons, hnil]; simp
        have hmu : mu lrest < n := by
          have := e5.mu; rw [hnil] at this; simp only [mu, List.length_nil] at this; omega
        have hsub : ∀ li ∈ lrest, li ∈ ls := fun li hli => (e5.mem li).mpr (List.mem_cons_of_mem _ hli)
        have key := ih (s := { s with chains := rest }) (k1 := k1) (ls := lrest) e3 hmu hm
          (fun h li hli => hpre h li (hsub li hli))
          (fun h => ⟨fun li hli => (hmain h).1 li (hsub li hli), (hmain h).2⟩)
        refine key.transfer ?_ ?_ ?_
        · intro x hx; simp only [tot] at hx ⊢; rw [hcnt]; exact hx
        · intro x hx; simp only [tot] at hx ⊢; rw [hcnt]; exact hx
        · intro x y _ _; exact (hcnt y).symm
      · simp only [hT, if_false]
        have hne : lc ≠ [] := fun h0 => hT (by rw [hdc, h0]; rfl)
        have halt : Spec.doc lc < TERMINATED := by
          have := Spec.doc_le hslc
          have : Spec.doc lc ≠ TERMINATED := by rw [← hdc]; exact hT
          omega
        have hamem : Spec.doc lc ∈ lc := Spec.doc_mem halt
        obtain ⟨t1, t2, t3⟩ := cnt_tail hslc hne lrest
        by_cases hret : s.currentDoc ≠ C.doc c ∧ k1 ≥ s.minMatch
        · -- enough matches on the current document: push the candidate back and return
          rw [if_pos hret]
          have hk0 : k1 ≠ 0 := by omega
          obtain ⟨hge, hdT⟩ := hmain hk0
          have hda : s.currentDoc < Spec.doc lc := by
            have := hge lc hlcmem _ hamem
            have := hret.1
            rw [hdc] at this
            omega
          refine ⟨lc :: lrest, All2.cons e2 e3, rfl, Or.inr ⟨hdT, ?_, ?_, ?_, ?_⟩⟩
          · show s.minMatch ≤ tot s.currentDoc k1 ls s.currentDoc
            simp only [tot, if_true]; omega
          · intro x hx
            have hx' : x < s.currentDoc := hx
            have : cnt x ls = 0 := cnt_zero (fun li hli hxl => by have := hge li hli x hxl; omega)
            simp only [tot, this]; split <;> omega
          · intro li hli y hy
            show s.currentDoc < y
            have := hall li ((e5.mem li).mpr hli) y hy
            omega
          · intro y _; exact (e5.cnt y).symm
        · rw [if_neg hret]
          -- count the candidate and advance it
          have hc2 : ∀ b : Bool, VC (C.advance (if b then C.score c else (0, c)).2) (Spec.advance lc) := by
            intro b
            cases b with
            | true => exact hC.advance (hscore e2)
            | false => exact hC.advance e2
          have hmu : mu (lc.tail :: lrest) < n := by
            have := e5.mu
            have hl : lc.tail.length + 1 = lc.length := by
              cases lc with
              | nil => exact absurd rfl hne
              | cons a t => simp
            simp only [mu] at this ⊢; omega
          have hge2 : ∀ li ∈ lc.tail :: lrest, ∀ x ∈ li, Spec.doc lc ≤ x := by
            intro li hli x hx
            rcases List.mem_cons.mp hli with rfl | h'
            · exact hall lc hlcmem x (List.mem_of_mem_tail hx)
            · exact hall li ((e5.mem li).mpr (List.mem_cons_of_mem _ h')) x hx
          have hbelow : ∀ x, x < Spec.doc lc → cnt x (lc.tail :: lrest) = 0 := fun x hx =>
            cnt_zero (fun li hli hxl => by have := hge2 li hli x hxl; omega)
          have hcy : ∀ k' x y, s.minMatch ≤ tot (Spec.doc lc) k' (lc.tail :: lrest) x → x < y →
              cnt y (lc.tail :: lrest) = cnt y ls := by
            intro k' x y hx hxy
            have hxa : Spec.doc lc ≤ x := by
              apply Nat.le_of_not_lt
              intro hlt
              have h0 := hbelow x hlt
              simp only [tot, h0] at hx
              have : x ≠ Spec.doc lc := by omega
              simp only [this, if_false] at hx
              omega
            rw [e5.cnt y]
            exact t1 y (by omega)
          by_cases hne' : s.currentDoc ≠ C.doc c
          · -- a new candidate document
            have hk : k1 < s.minMatch := by
              apply Nat.lt_of_not_le
              intro h; exact hret ⟨hne', h⟩
            simp only [if_pos hne']
            have key := ih (s := { s with currentDoc := C.doc c, comb := 0 + (if s.sum then C.score c else (0, c)).1, chains := C.advance (if s.sum then C.score c else (0, c)).2 :: rest })
              (k1 := 0 + 1) (ls := lc.tail :: lrest) (All2.cons (hc2 s.sum) e3) hmu hm (fun h => by omega)
              (fun _ => ⟨by rw [hdc]; exact hge2, by rw [hdc]; exact halt⟩)
            have hd' : s.currentDoc ≠ Spec.doc lc := by rw [← hdc]; exact hne'
            have hT' : ∀ x, tot (Spec.doc lc) (0 + 1) (lc.tail :: lrest) x = cnt x ls := by
              intro x
              simp only [tot]
              by_cases hx : x = Spec.doc lc
              · subst hx; simp only [if_true]; rw [t3, e5.cnt, t2]
              · simp only [hx, if_false, Nat.zero_add]; rw [t1 x hx, e5.cnt]
            have hd0 : k1 ≠ 0 → cnt s.currentDoc ls = 0 := by
              intro h0
              obtain ⟨hge, _⟩ := hmain h0
              apply cnt_zero
              intro li hli hxl
              have h1 := hge lc hlcmem _ hamem
              have h2 := hall li hli _ hxl
              omega
            rw [hdc] at key ⊢
            refine key.transfer ?_ ?_ (hcy (0 + 1))
            · intro x hx0
              have hx : tot (Spec.doc lc) (0 + 1) (lc.tail :: lrest) x < s.minMatch := hx0
              show tot s.currentDoc k1 ls x < s.minMatch
              rw [hT'] at hx
              simp only [tot]
              by_cases hxd : x = s.currentDoc
              · subst hxd
                simp only [if_true]
                by_cases h0 : k1 = 0
                · omega
                · rw [hd0 h0]; omega
              · simp only [hxd, if_false]; omega
            · intro x hx0
              have hx : s.minMatch ≤ tot (Spec.doc lc) (0 + 1) (lc.tail :: lrest) x := hx0
              show s.minMatch ≤ tot s.currentDoc k1 ls x
              rw [hT'] at hx
              simp only [tot]; omega
          · -- one more match on the current document
            simp only [if_neg hne']
            have hd' : s.currentDoc = Spec.doc lc := by
              rw [← hdc]; exact Decidable.of_not_not hne'
            have key := ih (s := { s with comb := s.comb + (if s.sum then C.score c else (0, c)).1, chains := C.advance (if s.sum then C.score c else (0, c)).2 :: rest })
              (k1 := k1 + 1) (ls := lc.tail :: lrest) (All2.cons (hc2 s.sum) e3) hmu hm (fun h => by omega)
              (fun _ => ⟨by show ∀ li ∈ lc.tail :: lrest, ∀ x ∈ li, s.currentDoc ≤ x; rw [hd']; exact hge2,
                by show s.currentDoc < TERMINATED; rw [hd']; exact halt⟩)
            have hT' : ∀ x, tot s.currentDoc (k1 + 1) (lc.tail :: lrest) x = tot s.currentDoc k1 ls x := by
              intro x
              simp only [tot]
              by_cases hx : x = Spec.doc lc
              · subst hx; simp only [hd', if_true]; rw [t3, e5.cnt, t2]; omega
              · have : x ≠ s.currentDoc := by rw [hd']; exact hx
                simp only [this, if_false]; rw [t1 x hx, e5.cnt]
            refine key.transfer ?_ ?_ ?_
            · intro x hx; rw [← hT']; exact hx
            · intro x hx; rw [← hT']; exact hx
            · intro x y hx hxy
              have hx' : s.minMatch ≤ tot (Spec.doc lc) (k1 + 1) (lc.tail :: lrest) x := by rw [← hd']; exact hx
              exact hcy (k1 + 1) x y hx' hxy

/-- valid states: the scorers in the heap are beyond the current document; what follows it are the
documents contained in at least `minimum_matches_required` of them -/
def V (VC : σ → List Nat → Prop) (s : State σ) (l : List Nat) : Prop :=
  ∃ ls, All2 VC s.chains ls ∧ 1 ≤ s.minMatch ∧ Sorted l ∧
    ((s.currentDoc = TERMINATED ∧ l = [] ∧ ∀ x, cnt x ls < s.minMatch)
      ∨ (s.currentDoc < TERMINATED ∧ (∀ li ∈ ls, ∀ x ∈ li, s.currentDoc < x) ∧ l ≠ []
          ∧ Spec.doc l = s.currentDoc ∧ ∀ x, x ∈ l.tail ↔ s.minMatch ≤ cnt x ls))

theorem all2_length {α β : Type} {R : α → β → Prop} {as : List α} {bs : List β} (h : All2 R as bs) :
    as.length = bs.length := by
  induction h with
  | nil => rfl
  | cons _ _ ih => simp [ih]

theorem mu_le (hC : Lawful C VC WC) {cs : List σ} {ls : List (List Nat)} (h : All2 VC cs ls) :
    mu ls ≤ FUEL * cs.length := by
  induction h with
  | nil => simp [mu]
  | cons x _ ih =>
    have := (hC.sorted x).length_le
    have hF : FUEL = TERMINATED + 1 := rfl
    simp only [mu, List.length_cons, Nat.mul_succ]
    omega

theorem not_term_mem (hC : Lawful C VC WC) {cs : List σ} {ls : List (List Nat)} (h : All2 VC cs ls) :
    ∀ li ∈ ls, TERMINATED ∉ li := by
  intro li hli hx
  exact Nat.lt_irrefl _ ((all2_sorted hC h li hli).2 _ hx)

/-- `advance` from a state none of whose scorers sits on the current document -/
theorem adv_from_pre (hC : Lawful C VC WC) (hscore : ∀ {c l}, VC c l → VC (C.score c).2 l)
    {s : State σ} {ls : List (List Nat)} {t : List Nat} (hA : All2 VC s.chains ls) (hm : 1 ≤ s.minMatch)
    (hpre : ∀ li ∈ ls, s.currentDoc ∉ li) (hst : Sorted t)
    (hmem : ∀ x, x ∈ t ↔ s.minMatch ≤ cnt x ls) : V VC (advance C s) t := by
  have hfuel : mu ls < FUEL * (s.chains.length + 1) := by
    have := mu_le hC hA
    have hF : FUEL = TERMINATED + 1 := rfl
    rw [Nat.mul_succ]
    omega
  have key := advLoop_law hC hscore (FUEL * (s.chains.length + 1)) (s := s) (k1 := 0) hA hfuel hm
    (fun _ => hpre) (fun h => absurd rfl h)
  have hT : ∀ x, tot s.currentDoc 0 ls x = cnt x ls := by
    intro x; simp only [tot]; split <;> omega
  unfold advance
  obtain ⟨ls', h1, h2, h3⟩ := key
  refine ⟨ls', h1, by rw [h2]; exact hm, hst, ?_⟩
  rw [h2]
  rcases h3 with ⟨a1, a2, a3⟩ | ⟨a1, a2, a3, a4, a5⟩
  · left
    refine ⟨a1, ?_, a3⟩
    apply List.eq_nil_iff_forall_not_mem.mpr
    intro x hx
    have h1 := (hmem x).mp hx
    have h2 := a2 x
    rw [hT] at h2
    omega
  · right
    rw [hT] at a2
    have hxt := (hmem _).mpr a2
    have hmin : ∀ x ∈ t, (advLoop C (FUEL * (s.chains.length + 1)) s 0).currentDoc ≤ x := by
      intro x hx
      apply Nat.le_of_not_lt
      intro hlt
      have h1 := a3 x hlt
      rw [hT] at h1
      have h2 := (hmem x).mp hx
      omega
    revert hxt hmin a4 a5 a2 a3
    generalize (advLoop C (FUEL * (s.chains.length + 1)) s 0).currentDoc = xs at a1 ⊢
    intro a2 a3 a4 a5 hxt hmin
    cases t with
    | nil => cases hxt
    | cons a t' =>
      obtain ⟨_, hgt, _⟩ := hst.of_cons
      have hax : a = xs := by
        have h1 := hmin a (by simp)
        rcases List.mem_cons.mp hxt with h | h
        · exact h.symm
        · have := hgt xs h; omega
      subst hax
      refine ⟨a1, a4, by simp, rfl, ?_⟩
      intro x
      simp only [List.tail_cons]
      constructor
      · intro hx
        rw [a5 x (hgt x hx)]
        exact (hmem x).mp (List.mem_cons_of_mem _ hx)
      · intro hx
        obtain ⟨li, hli, hxl⟩ := cnt_pos (x := x) (ls := ls') (by omega)
        have hg := a4 li hli x hxl
        rw [a5 x hg] at hx
        rcases List.mem_cons.mp ((hmem x).mpr hx) with h | h
        · omega
        · exact h

theorem core0 (hC : Lawful C VC WC) (hscore : ∀ {c l}, VC c l → VC (C.score c).2 l) :
    Core0 (doc (σ := σ)) (advance C) (V VC) where
  sorted := fun h => by obtain ⟨_, _, _, hs, _⟩ := h; exact hs
  doc_eq := by
    rintro s l ⟨ls, _, _, _, ⟨h1, h2, _⟩ | ⟨_, _, _, h4, _⟩⟩
    · rw [h2]; exact h1
    · exact h4.symm
  advance := by
    rintro s l ⟨ls, hA, hm, hs, h⟩
    rcases h with ⟨h1, h2, h3⟩ | ⟨h1, h2, h3, h4, h5⟩
    · subst h2
      apply adv_from_pre hC hscore hA hm (by rw [h1]; exact not_term_mem hC hA) Sorted.nil
      intro x
      have := h3 x
      simp only [Spec.advance, List.tail_nil, List.not_mem_nil, false_iff]
      omega
    · apply adv_from_pre hC hscore hA hm _ hs.tail h5
      intro li hli hx
      exact Nat.lt_irrefl _ (h2 li hli _ hx)

theorem core (hC : Lawful C VC WC) (hscore : ∀ {c l}, VC c l → VC (C.score c).2 l) :
    Core (doc (σ := σ)) (advance C) (defaultSeek doc (advance C)) (V VC) where
  toCore0 := core0 hC hscore
  seek := by
    intro s l t hV _ ht
    have hlen : l.length ≤ FUEL := by
      have := ((core0 hC hscore).sorted hV).length_le; unfold FUEL; omega
    exact loopSeek_law (core0 hC hscore) ht FUEL hV hlen

/-- **Disjunction** over lawful children is lawful -/
theorem lawful (hC : Lawful C VC WC) (hscore : ∀ {c l}, VC c l → VC (C.score c).2 l) :
    Lawful (ds C) (V VC) (defaultW (V VC)) :=
  lawful_ofCore _ _ _ _ _ (core hC hscore)

/-- `Disjunction::new` -/
theorem new_V (hC : Lawful C VC WC) (hscore : ∀ {c l}, VC c l → VC (C.score c).2 l) (sum : Bool)
    {k : Nat} (hk : 1 ≤ k) {cs : List σ} {ls : List (List Nat)} {L : List Nat} (hA : All2 VC cs ls)
    (hst : Sorted L) (hmem : ∀ x, x ∈ L ↔ k ≤ cnt x ls) : V VC (new C sum k cs) L := by
  unfold new
  by_cases h : k > cs.length
  · simp only [h, if_true]
    have hlt : ∀ x, cnt x ls < k := by
      intro x
      have := cnt_le_length x ls
      have := all2_length hA
      omega
    refine ⟨ls, hA, hk, hst, Or.inl ⟨rfl, ?_, hlt⟩⟩
    apply List.eq_nil_iff_forall_not_mem.mpr
    intro x hx
    have := (hmem x).mp hx
    have := hlt x
    omega
  · simp only [h, if_false]
    exact adv_from_pre hC hscore (s := { chains := cs, minMatch := k, currentDoc := TERMINATED, currentScore := 0, comb := 0, sum := sum }) hA hk
      (not_term_mem hC hA) hst hmem

end TantivyModel.DocSet.Disj
