import TantivyModel.Proofs.DocSet.BufferedUnionScore
import TantivyModel.Proofs.DocSet.Construct
/-! score of the intersection after any mix of `advance` and `seek`, from `Intersection::new`;
the SUM union over sorted-vector leaves -/
namespace TantivyModel.DocSet.Inter
variable {σ : Type} {C : DS σ} {VC : σ → List Nat → Prop} {WC : σ → Nat → List Nat → Prop}
  {g : σ → Nat → Nat}

/-- `Intersection::new` leaves the children's ghost data alone -/
theorem new_ghost {α : Type} {g : σ → α} (hG : Ghost C g) (dense : Bool) (l r : σ) (os : List σ) :
    (toList (new C dense l r os)).map g = (l :: r :: os).map g := by
  simp only [new, goToFirstDoc]
  have h := goLoop_ghost hG FUEL (maxDoc C (toList ({ left := l, right := r, others := os, dense := dense } : State σ)))
    (toList ({ left := l, right := r, others := os, dense := dense } : State σ))
  have hlen : 2 ≤ (goLoop C FUEL (maxDoc C (toList ({ left := l, right := r, others := os, dense := dense } : State σ)))
      (toList ({ left := l, right := r, others := os, dense := dense } : State σ))).2.length := by
    have := congrArg List.length h
    simp only [List.length_map] at this
    rw [this]; simp [toList]
  rw [toList_ofList _ _ _ hlen, h]
  rfl

def implMove (C : DS σ) (s : State σ) : BUnion.Move → State σ
  | .advance => advance C s
  | .seek t => seek C t s

def runMoves (C : DS σ) (s : State σ) (ms : List BUnion.Move) : State σ := ms.foldl (implMove C) s

theorem moves_V (hC : Lawful C VC WC) {α : Type} {ga : σ → α} (hG : Ghost C ga) :
    ∀ (ms : List BUnion.Move) {s : State σ} {l : List Nat}, V VC WC s l → BUnion.legalMoves l ms →
      V VC WC (runMoves C s ms) (BUnion.specMoves l ms) ∧ (toList (runMoves C s ms)).map ga = (toList s).map ga := by
  intro ms
  induction ms with
  | nil => intro s l h _; exact ⟨h, rfl⟩
  | cons m ms ih =>
    intro s l h hl
    obtain ⟨hl1, hl2⟩ := hl
    simp only [runMoves, BUnion.specMoves, List.foldl_cons]
    cases m with
    | advance =>
      obtain ⟨i1, i2⟩ := ih ((core hC).advance h) hl2
      exact ⟨i1, by rw [show (toList (List.foldl (implMove C) (implMove C s BUnion.Move.advance) ms)).map ga = _ from i2]; exact advance_ghost hG s⟩
    | seek t =>
      have hd : doc C s ≤ t := by rw [(core hC).doc_eq h]; exact hl1.1
      obtain ⟨i1, i2⟩ := ih ((core hC).seek h hd hl1.2) hl2
      exact ⟨i1, by rw [show (toList (List.foldl (implMove C) (implMove C s (BUnion.Move.seek t)) ms)).map ga = _ from i2]; exact seek_ghost hG t s⟩

/-- the intersection built by `Intersection::new`, after any legal mix of `advance` and `seek`:
`score()` at the current document `d` is the sum of `g c d` over ALL its children -/
theorem score_after_moves (hC : Lawful C VC WC) (hG : Ghost C g) (hg : ∀ {c l}, VC c l → l ≠ [] → (C.score c).1 = g c (C.doc c))
    (fx : Fix) (dense : Bool) {l r : σ} {os : List σ} {ll lr : List Nat} {los : List (List Nat)}
    (hL : VC l ll) (hR : VC r lr) (hO : All2 VC os los) (ms : List BUnion.Move)
    (hl : BUnion.legalMoves (Common ll lr los) ms) :
    doc C (runMoves C (new C dense l r os) ms) = Spec.doc (BUnion.specMoves (Common ll lr los) ms)
      ∧ (doc C (runMoves C (new C dense l r os) ms) < TERMINATED →
          ((ds C fx).score (runMoves C (new C dense l r os) ms)).1
            = (((l :: r :: os).map g).map (fun f => f (doc C (runMoves C (new C dense l r os) ms)))).sum) := by
  obtain ⟨hV, hgh⟩ := moves_V hC hG ms (new_V hC dense hL hR hO) hl
  have hd := (core hC).doc_eq hV
  refine ⟨hd, fun hlt => ?_⟩
  have hne : BUnion.specMoves (Common ll lr los) ms ≠ [] := by
    intro h0; rw [hd, h0] at hlt; exact Nat.lt_irrefl _ hlt
  rw [score_value hC fx g hg hV hne, hgh, new_ghost hG, hd]

end TantivyModel.DocSet.Inter

namespace TantivyModel.DocSet.BUnion

theorem all2_vec_init : ∀ (children : List (List Nat × Nat)), (∀ p ∈ children, Sorted p.1) →
    All2 Vec.V (children.map (fun p => Vec.init p.1 p.2)) (children.map (·.1))
  | [], _ => All2.nil
  | p :: ps, h => All2.cons ⟨rfl, h p (by simp)⟩ (all2_vec_init ps (fun q hq => h q (List.mem_cons_of_mem _ hq)))

/-- the SUM union over sorted-vector leaves with constant scores: after any legal mix of `advance`
and `seek`, `score()` is the sum of the scores of the leaves containing the current document -/
theorem vecs_score {H : Nat} (hH : 64 ∣ H) (hH0 : 0 < H) (fx : Fix) (children : List (List Nat × Nat))
    (hs : ∀ p ∈ children, Sorted p.1) {U : List Nat} (hU : SimpleUnion.IsUnion U (children.map (·.1)))
    (ms : List Move) (hl : legalMoves U ms) :
    let s := runMoves fx Vec.ds H (build Vec.ds H true (children.map (fun p => Vec.init p.1 p.2))) ms
    s.doc = Spec.doc (specMoves U ms) ∧ (s.doc < TERMINATED →
      ((ds Vec.ds H fx).score s).1
        = gsum (fun c (_ : Nat) => c.score) (children.map (fun p => Vec.init p.1 p.2)) (children.map (·.1)) s.doc) :=
  score_after_moves (C := Vec.ds) (VC := Vec.V) (WC := defaultW Vec.V) (lawful_ofCore _ _ _ _ _ Vec.core)
    (fun h => h) Inter.vec_ghost (fun _ _ => rfl) hH hH0 fx (all2_vec_init children hs) hU ms hl

end TantivyModel.DocSet.BUnion
