import TantivyModel.Proofs.DocSet.ScoreCompose
/-!
The score clause on the model the DRIVER runs (`levelDS`, `buildTree`), for the trees of nesting depth 1
(one scoring node over vector / bitset leaves): after every legal call program without `count` and
without `fill_buffer`, outside danger zones, `score()` of the built scorer is what the tree
description denotes.
-/
namespace TantivyModel.DocSet

/-- the constant score of a leaf -/
def leafScore : Leaf → Nat → Nat
  | .vec s => fun _ => s.score
  | .bits s => fun _ => s.score

theorem Leaf.ghost (fx : Fix) : Inter.Ghost (Leaf.ds fx) leafScore where
  advance := fun c => by
    cases c with
    | vec s => exact Inter.vec_ghost.advance s
    | bits s => exact (BitSet.ghost fx).advance s
  seek := fun t c => by
    cases c with
    | vec s => exact Inter.vec_ghost.seek t s
    | bits s => exact (BitSet.ghost fx).seek t s
  seekDanger := fun t c => by
    cases c with
    | vec s => exact Inter.vec_ghost.seekDanger t s
    | bits s => exact (BitSet.ghost fx).seekDanger t s
  score := fun c => by
    cases c with
    | vec s => rfl
    | bits s => rfl

theorem Leaf.scored (fx : Fix) : Scored (Leaf.ds fx) Leaf.V Leaf.W leafScore where
  lawful := Leaf.lawful fx
  hscore := (Leaf.scoreOK fx).v
  wscore := (Leaf.scoreOK fx).w
  ghost := Leaf.ghost fx
  hg := by
    intro c l _ _
    cases c with
    | vec s => rfl
    | bits s => rfl

/-- a lawful implementation whose valid states score `F` of their document scores `F` after every
legal program, outside danger zones -/
theorem score_of_lawful {σ : Type} {D : DS σ} {V : σ → List Nat → Prop} {W : σ → Nat → List Nat → Prop}
    (hD : Lawful D V W) {F : Nat → Nat} (hF : ∀ {s l}, V s l → l ≠ [] → (D.score s).1 = F (D.doc s))
    {s0 : σ} {l0 : List Nat} (h0 : V s0 l0) (prog : List Op) (hl : legalProg ⟨l0, none⟩ prog = true)
    (hnc : ∀ op ∈ prog, op ≠ Op.count) (hnd : (specFinal ⟨l0, none⟩ prog).danger = none) :
    D.doc (implFinal D s0 prog) = Spec.doc (specFinal ⟨l0, none⟩ prog).rest
      ∧ (D.doc (implFinal D s0 prog) < TERMINATED →
          (D.score (implFinal D s0 prog)).1 = F (D.doc (implFinal D s0 prog))) := by
  have hI := program_inv D V W hD prog s0 ⟨l0, none⟩ (Or.inl ⟨rfl, h0⟩) hl hnc
  rcases hI with ⟨_, hV⟩ | ⟨t0, hd, _⟩
  · have hd := hD.doc_eq hV
    refine ⟨hd, fun hlt => hF hV ?_⟩
    intro h0'
    rw [hd, h0'] at hlt
    exact Nat.lt_irrefl _ hlt
  · rw [hnd] at hd; cases hd

/-- programs without `fill_buffer` -/
def noFill (prog : List Op) : Prop := ∀ op ∈ prog, op ≠ Op.fillBuffer

/-- the buffered union and its variant with the default `fill_buffer` run alike on such programs -/
theorem BUnion.implFinal_nf {σ : Type} (C : DS σ) (H : Nat) (fx : Fix) :
    ∀ (prog : List Op) (s : BUnion.State σ), noFill prog →
      implFinal (BUnion.ds C H fx) s prog = implFinal (BUnion.dsNF C H fx) s prog := by
  intro prog
  induction prog with
  | nil => intro s _; rfl
  | cons op rest ih =>
    intro s hnf
    have hrest : noFill rest := fun o ho => hnf o (List.mem_cons_of_mem _ ho)
    cases op with
    | fillBuffer => exact absurd rfl (hnf _ (by simp))
    | doc => exact ih _ hrest
    | advance => exact ih _ hrest
    | seek t => exact ih _ hrest
    | seekDanger t => exact ih _ hrest
    | fillBitset m => exact ih _ hrest
    | count => exact ih _ hrest


namespace Comb
variable {σ : Type}

theorem implFinal_bunion (C : DS σ) (fx : Fix) : ∀ (prog : List Op) (u : BUnion.State σ),
    implFinal (Comb.ds C fx) (.bunion u) prog = .bunion (implFinal (BUnion.ds C Comb.H fx) u prog) := by
  intro prog
  induction prog with
  | nil => intro u; rfl
  | cons op rest ih =>
    intro u
    cases op with
    | seekDanger t =>
      simp only [implFinal, implStep, Comb.ds, Comb.lift1]
      generalize (BUnion.ds C Comb.H fx).seekDanger t u = r
      rcases r with ⟨r1, s'⟩
      cases r1 <;> exact ih _
    | doc => exact ih _
    | advance => exact ih _
    | seek t => exact ih _
    | fillBuffer => exact ih _
    | fillBitset m => exact ih _
    | count => exact ih _

theorem implFinal_inter (C : DS σ) (fx : Fix) : ∀ (prog : List Op) (u : Inter.State σ),
    implFinal (Comb.ds C fx) (.inter u) prog = .inter (implFinal (Inter.ds C fx) u prog) := by
  intro prog
  induction prog with
  | nil => intro u; rfl
  | cons op rest ih =>
    intro u
    cases op with
    | seekDanger t =>
      simp only [implFinal, implStep, Comb.ds, Comb.lift1]
      generalize (Inter.ds C fx).seekDanger t u = r
      rcases r with ⟨r1, s'⟩
      cases r1 <;> exact ih _
    | doc => exact ih _
    | advance => exact ih _
    | seek t => exact ih _
    | fillBuffer => exact ih _
    | fillBitset m => exact ih _
    | count => exact ih _

theorem implFinal_excl (C : DS σ) (fx : Fix) : ∀ (prog : List Op) (u : Exclude.State σ σ),
    implFinal (Comb.ds C fx) (.excl u) prog = .excl (implFinal (Exclude.ds C C) u prog) := by
  intro prog
  induction prog with
  | nil => intro u; rfl
  | cons op rest ih =>
    intro u
    cases op with
    | seekDanger t =>
      simp only [implFinal, implStep, Comb.ds, Comb.lift1]
      generalize (Exclude.ds C C).seekDanger t u = r
      rcases r with ⟨r1, s'⟩
      cases r1 <;> exact ih _
    | doc => exact ih _
    | advance => exact ih _
    | seek t => exact ih _
    | fillBuffer => exact ih _
    | fillBitset m => exact ih _
    | count => exact ih _

theorem implFinal_reqopt (C : DS σ) (fx : Fix) : ∀ (prog : List Op) (u : ReqOpt.State σ σ),
    implFinal (Comb.ds C fx) (.reqopt u) prog = .reqopt (implFinal (ReqOpt.ds C C) u prog) := by
  intro prog
  induction prog with
  | nil => intro u; rfl
  | cons op rest ih =>
    intro u
    cases op with
    | seekDanger t =>
      simp only [implFinal, implStep, Comb.ds, Comb.lift1]
      generalize (ReqOpt.ds C C).seekDanger t u = r
      rcases r with ⟨r1, s'⟩
      cases r1 <;> exact ih _
    | doc => exact ih _
    | advance => exact ih _
    | seek t => exact ih _
    | fillBuffer => exact ih _
    | fillBitset m => exact ih _
    | count => exact ih _

theorem implFinal_disj (C : DS σ) (fx : Fix) : ∀ (prog : List Op) (u : Disj.State σ),
    implFinal (Comb.ds C fx) (.disj u) prog = .disj (implFinal (Disj.ds C) u prog) := by
  intro prog
  induction prog with
  | nil => intro u; rfl
  | cons op rest ih =>
    intro u
    cases op with
    | seekDanger t =>
      simp only [implFinal, implStep, Comb.ds, Comb.lift1]
      generalize (Disj.ds C).seekDanger t u = r
      rcases r with ⟨r1, s'⟩
      cases r1 <;> exact ih _
    | doc => exact ih _
    | advance => exact ih _
    | seek t => exact ih _
    | fillBuffer => exact ih _
    | fillBitset m => exact ih _
    | count => exact ih _

end Comb

/-! ### what the depth-1 tree descriptions denote as scores -/

/-- the constant score of a leaf description -/
def scoreOf : Tree → Nat
  | .vec _ sc => sc
  | .bits _ _ sc => sc
  | _ => 0

/-- sum of the scores of the leaf descriptions whose list holds `x` -/
def tsum : List Tree → List (List Nat) → Nat → Nat
  | c :: cs, li :: ls, x => (if x ∈ li then scoreOf c else 0) + tsum cs ls x
  | _, _, _ => 0

theorem leafScore_build (fx : Fix) : ∀ (c : Tree) (s : Leaf), buildTree fx 0 c = some s →
    leafScore s = fun _ => scoreOf c
  | .vec docs sc, s, h => by
    simp only [buildTree] at h
    cases h; rfl
  | .bits docs mx sc, s, h => by
    simp only [buildTree] at h
    cases h
    show (fun (_ : Nat) => (BitSet.init docs mx sc).score) = _
    unfold BitSet.init
    rw [(BitSet.advance_all _).2.2]
    rfl
  | .bunion _ _, _, h => by simp [buildTree] at h
  | .sunion _, _, h => by simp [buildTree] at h
  | .inter _ _, _, h => by simp [buildTree] at h
  | .excl _ _, _, h => by simp [buildTree] at h
  | .reqopt _ _ _, _, h => by simp [buildTree] at h
  | .disj _ _ _, _, h => by simp [buildTree] at h

theorem mapM_some_all2 {α β : Type} {f : α → Option β} : ∀ {as : List α} {bs : List β},
    as.mapM f = some bs → All2 (fun a b => f a = some b) as bs
  | [], bs, h => by
    simp at h; subst h; exact All2.nil
  | a :: as, bs, h => by
    simp only [List.mapM_cons, Option.bind_eq_bind, Option.bind_eq_some_iff, Option.pure_def,
      Option.some.injEq] at h
    obtain ⟨b, hb, bs', hbs', rfl⟩ := h
    exact All2.cons hb (mapM_some_all2 hbs')

theorem gsum_tsum (fx : Fix) : ∀ {cs : List Tree} {ss : List Leaf},
    All2 (fun c (s : Leaf) => buildTree fx 0 c = some s) cs ss → ∀ (ls : List (List Nat)) (x : Nat),
      BUnion.gsum leafScore ss ls x = tsum cs ls x
  | [], _, h, ls, x => by cases h; rfl
  | c :: cs, _, h, [], x => by cases h; rfl
  | c :: cs, _, h, li :: ls, x => by
    cases h with
    | cons h1 h2 =>
      rw [BUnion.gsum_cons, tsum, gsum_tsum fx h2 ls x, leafScore_build fx c _ h1]

theorem disj_gsum_tsum (fx : Fix) : ∀ {cs : List Tree} {ss : List Leaf},
    All2 (fun c (s : Leaf) => buildTree fx 0 c = some s) cs ss → ∀ (ls : List (List Nat)) (x : Nat),
      Disj.gsum leafScore ss ls x = tsum cs ls x
  | [], _, h, ls, x => by cases h; rfl
  | c :: cs, _, h, [], x => by cases h; rfl
  | c :: cs, _, h, li :: ls, x => by
    cases h with
    | cons h1 h2 =>
      rw [Disj.gsum_cons, tsum, disj_gsum_tsum fx h2 ls x, leafScore_build fx c _ h1]

/-- the leaves of a depth-1 tree, built -/
theorem leaves_built (fx : Fix) {cs : List Tree} {ls : List (List Nat)} (hA : All2 (Den 0) cs ls) :
    ∃ ss : List Leaf, cs.mapM (buildTree fx 0) = some ss ∧ All2 (RV Leaf.V) ss ls
      ∧ All2 (fun c (s : Leaf) => buildTree fx 0 c = some s) cs ss := by
  obtain ⟨ss, hss, hAs⟩ := mapM_all2 (hA.imp (fun t l h => build_valid fx 0 t l h))
  exact ⟨ss, hss, hAs, mapM_some_all2 hss⟩

/-- **SUM union over leaves, as the driver builds and runs it** -/
theorem tree1_union_score (fx : Fix) (cs : List Tree) (ls : List (List Nat)) (U : List Nat)
    (hA : All2 (Den 0) cs ls) (hU : SimpleUnion.IsUnion U ls) (prog : List Op)
    (hl : legalProg ⟨U, none⟩ prog = true) (hnc : ∀ op ∈ prog, op ≠ Op.count) (hnf : noFill prog)
    (hnd : (specFinal ⟨U, none⟩ prog).danger = none) :
    ∃ s, buildTree fx 1 (.bunion true cs) = some s
      ∧ (levelDS fx 1).doc (implFinal (levelDS fx 1) s prog) = Spec.doc (specFinal ⟨U, none⟩ prog).rest
      ∧ ((levelDS fx 1).doc (implFinal (levelDS fx 1) s prog) < TERMINATED →
          ((levelDS fx 1).score (implFinal (levelDS fx 1) s prog)).1
            = tsum cs ls ((levelDS fx 1).doc (implFinal (levelDS fx 1) s prog))) := by
  obtain ⟨ss, hss, hAs, hB⟩ := leaves_built fx hA
  have hAs' : All2 Leaf.V ss ls := hAs.imp (fun _ _ h => h.1)
  refine ⟨.bunion (BUnion.build (Leaf.ds fx) Comb.H true ss), (by simp only [buildTree, hss]; rfl), ?_⟩
  have key := (BUnion.score_program_scored (Leaf.scored fx) (H := Comb.H)
    (show 64 ∣ Gen.UNION_HORIZON by decide) (show 0 < Gen.UNION_HORIZON by decide) fx hAs' hU prog hl hnc).2 hnd
  have e : implFinal (levelDS fx 1) (Comb.bunion (BUnion.build (Leaf.ds fx) Comb.H true ss)) prog
      = Comb.bunion (implFinal (BUnion.dsNF (Leaf.ds fx) Comb.H fx) (BUnion.build (Leaf.ds fx) Comb.H true ss) prog) :=
    (Comb.implFinal_bunion (Leaf.ds fx) fx prog _).trans (congrArg Comb.bunion (BUnion.implFinal_nf _ _ _ _ _ hnf))
  revert e
  generalize implFinal (levelDS fx 1) (Comb.bunion (BUnion.build (Leaf.ds fx) Comb.H true ss)) prog = y
  intro e
  subst e
  refine ⟨key.1, fun hlt => ?_⟩
  have := key.2 hlt
  rw [gsum_tsum fx hB] at this
  exact this

/-- **minimum-should-match disjunction (SumCombiner) over leaves, as the driver builds and runs it** -/
theorem tree1_disj_score (fx : Fix) (k : Nat) (cs : List Tree) (ls : List (List Nat)) (L : List Nat)
    (hA : All2 (Den 0) cs ls) (hk : 1 ≤ k) (hL : Sorted L) (hmem : ∀ x, x ∈ L ↔ k ≤ Disj.cnt x ls)
    (prog : List Op) (hl : legalProg ⟨L, none⟩ prog = true) (hnc : ∀ op ∈ prog, op ≠ Op.count)
    (hnd : (specFinal ⟨L, none⟩ prog).danger = none) :
    ∃ s, buildTree fx 1 (.disj true k cs) = some s
      ∧ (levelDS fx 1).doc (implFinal (levelDS fx 1) s prog) = Spec.doc (specFinal ⟨L, none⟩ prog).rest
      ∧ ((levelDS fx 1).doc (implFinal (levelDS fx 1) s prog) < TERMINATED →
          ((levelDS fx 1).score (implFinal (levelDS fx 1) s prog)).1
            = tsum cs ls ((levelDS fx 1).doc (implFinal (levelDS fx 1) s prog))) := by
  obtain ⟨ss, hss, hAs, hB⟩ := leaves_built fx hA
  have hAs' : All2 Leaf.V ss ls := hAs.imp (fun _ _ h => h.1)
  have hS := Leaf.scored fx
  refine ⟨.disj (Disj.new (Leaf.ds fx) true k ss), (by simp only [buildTree, hss]; rfl), ?_⟩
  have h0 : Disj.VS leafScore (Disj.gsum leafScore ss ls) Leaf.V (Disj.new (Leaf.ds fx) true k ss) L :=
    ⟨Disj.new_V hS.lawful hS.hscore true hk hAs' hL hmem, Disj.new_R hS.lawful hS.hscore hS.ghost hS.hg hk hAs'⟩
  have key := score_of_lawful (Disj.lawful_S hS (Disj.gsum leafScore ss ls))
    (F := Disj.gsum leafScore ss ls)
    (fun {s l} hV hne => by
      have hd := (Disj.core0 hS.lawful hS.hscore).doc_eq hV.1
      have hs := (Disj.core0 hS.lawful hS.hscore).sorted hV.1
      have hlt : s.currentDoc < TERMINATED := by
        have : Disj.doc s = Spec.doc l := hd
        simp only [Disj.doc] at this
        rw [this]; exact doc_lt_of_ne_nil hs hne
      exact hV.2.1 hlt) h0 prog hl hnc hnd
  have e : implFinal (levelDS fx 1) (Comb.disj (Disj.new (Leaf.ds fx) true k ss)) prog
      = Comb.disj (implFinal (Disj.ds (Leaf.ds fx)) (Disj.new (Leaf.ds fx) true k ss) prog) :=
    Comb.implFinal_disj (Leaf.ds fx) fx prog _
  revert e
  generalize implFinal (levelDS fx 1) (Comb.disj (Disj.new (Leaf.ds fx) true k ss)) prog = y
  intro e
  subst e
  refine ⟨key.1, fun hlt => ?_⟩
  have := key.2 hlt
  rw [disj_gsum_tsum fx hB] at this
  exact this

theorem map_leafScore (fx : Fix) : ∀ {cs : List Tree} {ss : List Leaf},
    All2 (fun c (s : Leaf) => buildTree fx 0 c = some s) cs ss → ∀ x : Nat,
      (ss.map leafScore).map (fun f => f x) = cs.map scoreOf
  | [], _, h, _ => by cases h; rfl
  | c :: cs, _, h, x => by
    cases h with
    | cons h1 h2 =>
      simp only [List.map_cons, map_leafScore fx h2 x, leafScore_build fx c _ h1]

/-- the intersection with its scores, plain states -/
theorem Inter.lawful_S {σ : Type} {C : DS σ} {VC : σ → List Nat → Prop} {WC : σ → Nat → List Nat → Prop}
    {g : σ → Nat → Nat} (hS : Scored C VC WC g)
    (hsmall : ∀ {c l}, VC c l → ∀ x ∈ l, x + BLOCK_WINDOW ≤ TERMINATED) (fx : Fix) (F : Nat → Nat) :
    Lawful (Inter.ds C fx) (fun s l => Inter.V VC WC s l ∧ Inter.PF g F s)
      (fun s t l => Inter.W VC WC s t l ∧ Inter.PF g F s) :=
  (Inter.lawful hS.lawful hsmall fx).and_inv (P := Inter.PF g F)
    (fun s h => h.congr (Inter.advance_ghost hS.ghost s))
    (fun t s h => h.congr (Inter.seek_ghost hS.ghost t s))
    (fun t s h => h.congr (Inter.seekDanger_ghost hS.ghost t s))
    (fun s h => defaultFillBuffer_inv (P := Inter.PF g F) (Inter.doc C) (Inter.advance C)
      (fun s h => h.congr (Inter.advance_ghost hS.ghost s)) s h)
    (fun m s h => defaultFillBitset_inv (P := Inter.PF g F) (Inter.doc C) (Inter.advance C) (Inter.seek C)
      (fun s h => h.congr (Inter.advance_ghost hS.ghost s))
      (fun t s h => h.congr (Inter.seek_ghost hS.ghost t s)) m s h)

/-- **intersection over leaves, as the driver builds and runs it**: the score is the sum of the scores
of all its leaves -/
theorem tree1_inter_score (fx : Fix) (dense : Bool) (tl tr : Tree) (tos : List Tree) (ll lr : List Nat)
    (los : List (List Nat)) (hl0 : Den 0 tl ll) (hr0 : Den 0 tr lr) (ho0 : All2 (Den 0) tos los)
    (prog : List Op) (hl : legalProg ⟨Inter.Common ll lr los, none⟩ prog = true)
    (hnc : ∀ op ∈ prog, op ≠ Op.count) (hnd : (specFinal ⟨Inter.Common ll lr los, none⟩ prog).danger = none) :
    ∃ s, buildTree fx 1 (.inter dense (tl :: tr :: tos)) = some s
      ∧ (levelDS fx 1).doc (implFinal (levelDS fx 1) s prog)
          = Spec.doc (specFinal ⟨Inter.Common ll lr los, none⟩ prog).rest
      ∧ ((levelDS fx 1).doc (implFinal (levelDS fx 1) s prog) < TERMINATED →
          ((levelDS fx 1).score (implFinal (levelDS fx 1) s prog)).1 = ((tl :: tr :: tos).map scoreOf).sum) := by
  obtain ⟨ss, hss, hAs, hB⟩ := leaves_built fx (All2.cons hl0 (All2.cons hr0 ho0))
  cases hAs with
  | @cons sl _ ss1 _ vl hAs1 =>
    cases hAs1 with
    | @cons sr _ sos _ vr vo =>
      have hS := (Leaf.scored fx).restrict
      refine ⟨.inter (Inter.new (Leaf.ds fx) dense sl sr sos), (by simp only [buildTree, hss]; rfl), ?_⟩
      have h0 := Inter.new_scored hS dense vl vr vo
      have key := score_of_lawful
        (Inter.lawful_S hS (fun h => h.2) fx (fun x => (((sl :: sr :: sos).map leafScore).map (fun f => f x)).sum))
        (F := fun x => (((sl :: sr :: sos).map leafScore).map (fun f => f x)).sum)
        (fun {s l} hV hne => by
          have hd : (Inter.ds (Leaf.ds fx) fx).doc s = Spec.doc l := (Inter.core hS.lawful).doc_eq hV.1
          have hv := Inter.score_value hS.lawful fx leafScore hS.hg hV.1 hne
          rw [hv, hd]
          exact (congrFun hV.2 (Spec.doc l)).symm) h0 prog hl hnc hnd
      have e : implFinal (levelDS fx 1) (Comb.inter (Inter.new (Leaf.ds fx) dense sl sr sos)) prog
          = Comb.inter (implFinal (Inter.ds (Leaf.ds fx) fx) (Inter.new (Leaf.ds fx) dense sl sr sos) prog) :=
        Comb.implFinal_inter (Leaf.ds fx) fx prog _
      revert e
      generalize implFinal (levelDS fx 1) (Comb.inter (Inter.new (Leaf.ds fx) dense sl sr sos)) prog = y
      intro e
      subst e
      refine ⟨key.1, fun hlt => ?_⟩
      have := key.2 hlt
      rw [map_leafScore fx hB] at this
      exact this

theorem build_valid0 (fx : Fix) (t : Tree) (l : List Nat) (h : Den 0 t l) :
    ∃ s : Leaf, buildTree fx 0 t = some s ∧ RV Leaf.V s l := build_valid fx 0 t l h

/-- **RequiredOptionalScorer (SumCombiner) over two leaves, as the driver builds and runs it** -/
theorem tree1_reqopt_score (fx : Fix) (treq topt : Tree) (l lo : List Nat) (hr0 : Den 0 treq l)
    (ho0 : Den 0 topt lo) (prog : List Op) (hl : legalProg ⟨l, none⟩ prog = true)
    (hnc : ∀ op ∈ prog, op ≠ Op.count) (hnd : (specFinal ⟨l, none⟩ prog).danger = none) :
    ∃ s, buildTree fx 1 (.reqopt true treq topt) = some s
      ∧ (levelDS fx 1).doc (implFinal (levelDS fx 1) s prog) = Spec.doc (specFinal ⟨l, none⟩ prog).rest
      ∧ ((levelDS fx 1).doc (implFinal (levelDS fx 1) s prog) < TERMINATED →
          ((levelDS fx 1).score (implFinal (levelDS fx 1) s prog)).1
            = scoreOf treq + (if (levelDS fx 1).doc (implFinal (levelDS fx 1) s prog) ∈ lo then scoreOf topt else 0)) := by
  obtain ⟨sr, hsr, vr⟩ := build_valid0 fx treq l hr0
  obtain ⟨so, hso, vo⟩ := build_valid0 fx topt lo ho0
  have hS := Leaf.scored fx
  have gr := leafScore_build fx treq sr hsr
  have go := leafScore_build fx topt so hso
  refine ⟨(Comb.reqopt ({ req := sr, opt := so, cache := none, sum := true } : ReqOpt.State Leaf Leaf) : Comb Leaf), (by simp only [buildTree, hsr, hso]; rfl), ?_⟩
  have h0 : ReqOpt.RS leafScore leafScore Leaf.V Leaf.V
      (fun x => scoreOf treq + (if x ∈ lo then scoreOf topt else 0))
      ({ req := sr, opt := so, cache := none, sum := true } : ReqOpt.State Leaf Leaf) l :=
    ⟨vr.1, rfl, ⟨lo, vo.1, fun x _ => by
      show _ = leafScore sr x + (if x ∈ lo then leafScore so x else 0)
      rw [gr, go]⟩, fun v hv => by cases hv⟩
  have key := score_of_lawful
    (ReqOpt.lawful_RS (O := Leaf.ds fx) (VO := Leaf.V) (gO := leafScore) hS
      (fun x => scoreOf treq + (if x ∈ lo then scoreOf topt else 0)))
    (F := fun x => scoreOf treq + (if x ∈ lo then scoreOf topt else 0))
    (fun {s l'} hV hne =>
      (ReqOpt.scored hS hS).hg (c := (s, fun x => scoreOf treq + (if x ∈ lo then scoreOf topt else 0))) hV hne)
    h0 prog hl hnc hnd
  have e : implFinal (levelDS fx 1) (Comb.reqopt ({ req := sr, opt := so, cache := none, sum := true } : ReqOpt.State Leaf Leaf)) prog
      = Comb.reqopt (implFinal (ReqOpt.ds (Leaf.ds fx) (Leaf.ds fx)) { req := sr, opt := so, cache := none, sum := true } prog) :=
    Comb.implFinal_reqopt (Leaf.ds fx) fx prog _
  have hdoc : (levelDS fx 1).doc (implFinal (levelDS fx 1) (Comb.reqopt ({ req := sr, opt := so, cache := none, sum := true } : ReqOpt.State Leaf Leaf)) prog)
      = (ReqOpt.ds (Leaf.ds fx) (Leaf.ds fx)).doc (implFinal (ReqOpt.ds (Leaf.ds fx) (Leaf.ds fx)) { req := sr, opt := so, cache := none, sum := true } prog) :=
    congrArg (levelDS fx 1).doc e
  have hsc : ((levelDS fx 1).score (implFinal (levelDS fx 1) (Comb.reqopt ({ req := sr, opt := so, cache := none, sum := true } : ReqOpt.State Leaf Leaf)) prog)).1
      = ((ReqOpt.ds (Leaf.ds fx) (Leaf.ds fx)).score (implFinal (ReqOpt.ds (Leaf.ds fx) (Leaf.ds fx)) { req := sr, opt := so, cache := none, sum := true } prog)).1 :=
    congrArg (fun y => ((levelDS fx 1).score y).1) e
  refine ⟨hdoc.trans key.1, fun hlt => ?_⟩
  have hlt' := hdoc ▸ hlt
  exact hsc.trans ((key.2 hlt').trans (congrArg (fun d => scoreOf treq + (if d ∈ lo then scoreOf topt else 0)) hdoc.symm))

theorem Exclude.newLoop_ghost {σ τ : Type} {U : DS σ} {E : DS τ} {gu : σ → Nat → Nat} (hG : Inter.Ghost U gu) :
    ∀ (n : Nat) (s : Exclude.State σ τ), gu (Exclude.newLoop U E n s).u = gu s.u
  | 0, _ => rfl
  | n + 1, s => by
    simp only [Exclude.newLoop]
    split
    · rfl
    · split
      · rw [Exclude.newLoop_ghost hG n]; exact hG.advance s.u
      · rfl

/-- **Exclude over leaves, as the driver builds and runs it**: the score is the underlying leaf's -/
theorem tree1_excl_score (fx : Fix) (tu : Tree) (tes : List Tree) (lu : List Nat) (les : List (List Nat))
    (hu0 : Den 0 tu lu) (he0 : All2 (Den 0) tes les) (prog : List Op)
    (hl : legalProg ⟨lu.filter (Exclude.ok les), none⟩ prog = true) (hnc : ∀ op ∈ prog, op ≠ Op.count)
    (hnd : (specFinal ⟨lu.filter (Exclude.ok les), none⟩ prog).danger = none) :
    ∃ s, buildTree fx 1 (.excl tu tes) = some s
      ∧ (levelDS fx 1).doc (implFinal (levelDS fx 1) s prog)
          = Spec.doc (specFinal ⟨lu.filter (Exclude.ok les), none⟩ prog).rest
      ∧ ((levelDS fx 1).doc (implFinal (levelDS fx 1) s prog) < TERMINATED →
          ((levelDS fx 1).score (implFinal (levelDS fx 1) s prog)).1 = scoreOf tu) := by
  obtain ⟨su, hsu, vu⟩ := build_valid0 fx tu lu hu0
  obtain ⟨ss, hss, hAs, _⟩ := leaves_built fx he0
  have hS := Leaf.scored fx
  have gu := leafScore_build fx tu su hsu
  refine ⟨(Comb.excl (Exclude.new (Leaf.ds fx) (Leaf.ds fx) su ss) : Comb Leaf), (by simp only [buildTree, hsu, hss]; rfl), ?_⟩
  have hL := (Exclude.lawful hS.lawful hS.lawful).and_inv
    (P := fun s : Exclude.State Leaf Leaf => leafScore s.u = fun _ => scoreOf tu)
    (fun s h => (Exclude.advance_ghost (E := Leaf.ds fx) hS.ghost s).trans h)
    (fun t s h => (Exclude.seek_ghost (E := Leaf.ds fx) hS.ghost t s).trans h)
    (fun t s h => ((Exclude.ghost (E := Leaf.ds fx) hS.ghost).seekDanger t s).trans h)
    (fun s h => defaultFillBuffer_inv (P := fun s : Exclude.State Leaf Leaf => leafScore s.u = fun _ => scoreOf tu)
      (Exclude.doc (Leaf.ds fx)) (Exclude.advance (Leaf.ds fx) (Leaf.ds fx))
      (fun s h => (Exclude.advance_ghost (E := Leaf.ds fx) hS.ghost s).trans h) s h)
    (fun m s h => defaultFillBitset_inv (P := fun s : Exclude.State Leaf Leaf => leafScore s.u = fun _ => scoreOf tu)
      (Exclude.doc (Leaf.ds fx)) (Exclude.advance (Leaf.ds fx) (Leaf.ds fx)) (Exclude.seek (Leaf.ds fx) (Leaf.ds fx))
      (fun s h => (Exclude.advance_ghost (E := Leaf.ds fx) hS.ghost s).trans h)
      (fun t s h => (Exclude.seek_ghost (E := Leaf.ds fx) hS.ghost t s).trans h) m s h)
  have h0 : Exclude.V Leaf.V Leaf.V Leaf.W (Exclude.new (Leaf.ds fx) (Leaf.ds fx) su ss) (lu.filter (Exclude.ok les))
      ∧ leafScore (Exclude.new (Leaf.ds fx) (Leaf.ds fx) su ss).u = fun _ => scoreOf tu :=
    ⟨Exclude.new_V hS.lawful hS.lawful vu.1 (hAs.imp (fun _ _ h => h.1)),
      (Exclude.newLoop_ghost (E := Leaf.ds fx) hS.ghost _ _).trans gu⟩
  have key := score_of_lawful hL (F := fun _ => scoreOf tu)
    (fun {s l'} hV hne => by
      have := (Exclude.scored hS hS.lawful).hg hV.1 hne
      rw [this, hV.2]) h0 prog hl hnc hnd
  have e : implFinal (levelDS fx 1) (Comb.excl (Exclude.new (Leaf.ds fx) (Leaf.ds fx) su ss)) prog
      = Comb.excl (implFinal (Exclude.ds (Leaf.ds fx) (Leaf.ds fx)) (Exclude.new (Leaf.ds fx) (Leaf.ds fx) su ss) prog) :=
    Comb.implFinal_excl (Leaf.ds fx) fx prog _
  have hdoc : (levelDS fx 1).doc (implFinal (levelDS fx 1) (Comb.excl (Exclude.new (Leaf.ds fx) (Leaf.ds fx) su ss)) prog)
      = (Exclude.ds (Leaf.ds fx) (Leaf.ds fx)).doc (implFinal (Exclude.ds (Leaf.ds fx) (Leaf.ds fx)) (Exclude.new (Leaf.ds fx) (Leaf.ds fx) su ss) prog) :=
    congrArg (levelDS fx 1).doc e
  have hsc : ((levelDS fx 1).score (implFinal (levelDS fx 1) (Comb.excl (Exclude.new (Leaf.ds fx) (Leaf.ds fx) su ss)) prog)).1
      = ((Exclude.ds (Leaf.ds fx) (Leaf.ds fx)).score (implFinal (Exclude.ds (Leaf.ds fx) (Leaf.ds fx)) (Exclude.new (Leaf.ds fx) (Leaf.ds fx) su ss) prog)).1 :=
    congrArg (fun y => ((levelDS fx 1).score y).1) e
  refine ⟨hdoc.trans key.1, fun hlt => ?_⟩
  have hlt' := hdoc ▸ hlt
  exact hsc.trans (key.2 hlt')

end TantivyModel.DocSet
