import TantivyModel.Proofs.DocSet.SimpleUnion
import TantivyModel.Model.DocSet.Intersection
/-!
`Intersection` (leap-frog `advance` over `left.seek` / `right.seek_danger` / `others.seek_danger`)
refines the cursor over the common documents of its children, for *any* lawful children, which
may sit in their danger zones between iterations and after the end was reached.
-/
namespace TantivyModel.DocSet.Inter
open TantivyModel.DocSet

variable {σ : Type} {C : DS σ} {VC : σ → List Nat → Prop} {WC : σ → Nat → List Nat → Prop}

/-- `x` is in every list of the family -/
def InAll (los : List (List Nat)) (x : Nat) : Prop := ∀ lo ∈ los, x ∈ lo

instance (los : List (List Nat)) (x : Nat) : Decidable (InAll los x) := by
  unfold InAll; exact inferInstance

/-- documents common to `ll`, `lr` and every list of `los` -/
def Common (ll lr : List Nat) (los : List (List Nat)) : List Nat :=
  ll.filter (fun x => decide (x ∈ lr) && decide (InAll los x))

theorem mem_common {ll lr : List Nat} {los : List (List Nat)} {x : Nat} :
    x ∈ Common ll lr los ↔ x ∈ ll ∧ x ∈ lr ∧ InAll los x := by
  simp [Common, List.mem_filter]

/-- a child that can be asked `seek_danger c` with the full guarantee (incl. the upper bound):
valid and not beyond `c`, or in the danger zone of a target `≤ c` -/
def CS (VC : σ → List Nat → Prop) (WC : σ → Nat → List Nat → Prop) (c : Nat) (e : σ)
    (le : List Nat) : Prop := (VC e le ∧ Spec.doc le ≤ c) ∨ ∃ t0, t0 ≤ c ∧ t0 ≤ TERMINATED ∧ WC e t0 le

theorem CS.mono {c c' : Nat} {e : σ} {le : List Nat} (h : CS VC WC c e le) (hc : c ≤ c') :
    CS VC WC c' e le := by
  rcases h with ⟨h1, h2⟩ | ⟨t0, h0, hT, hW⟩
  · exact Or.inl ⟨h1, Nat.le_trans h2 hc⟩
  · exact Or.inr ⟨t0, Nat.le_trans h0 hc, hT, hW⟩

theorem CS.sorted (hC : Lawful C VC WC) {c : Nat} {e : σ} {le : List Nat} (h : CS VC WC c e le) :
    Sorted le := by
  rcases h with ⟨h1, _⟩ | ⟨t0, _, _, hW⟩
  · exact hC.sorted h1
  · exact (hC.wsorted hW).1

/-- beyond the end marker the bound does not matter -/
theorem CS.cap (hC : Lawful C VC WC) {c : Nat} {e : σ} {le : List Nat} (h : CS VC WC c e le) :
    CS VC WC TERMINATED e le := by
  rcases h with ⟨h1, _⟩ | ⟨t0, _, hT, hW⟩
  · exact Or.inl ⟨h1, Spec.doc_le (hC.sorted h1)⟩
  · exact Or.inr ⟨t0, hT, hT, hW⟩

theorem CS.sd (hC : Lawful C VC WC) {c : Nat} {e : σ} {le : List Nat} (h : CS VC WC c e le)
    (hc : c ≤ TERMINATED) : SDPost VC WC le c True (C.seekDanger c e) := by
  rcases h with ⟨h1, h2⟩ | ⟨t0, h0, _, hW⟩
  · exact hC.sdV h1 hc
  · exact hC.sdW hW h0 hc

/-- what one `seek_danger(c)` does to a child list, seen from documents `≥ c` -/
theorem seek_agree {le : List Nat} (hs : Sorted le) (c x : Nat) (hx : c ≤ x) :
    x ∈ Spec.seek c le ↔ x ∈ le := by
  rw [Spec.mem_seek hs]; exact ⟨fun h => h.1, fun h => ⟨h, hx⟩⟩

/-- a miss: nothing of the list lies in `[c, b)` -/
theorem miss_ge {le : List Nat} (hs : Sorted le) {c b x : Nat} (hm : c ∉ le)
    (hb : b ≤ Spec.doc (Spec.seek c le)) (hx : c ≤ x) (hxl : x ∈ le) : b ≤ x := by
  have : x ∈ Spec.seek c le := (seek_agree hs c x hx).mpr hxl
  exact Nat.le_trans hb (Exclude.all_ge_doc (hs.seek c) x this)

theorem all2_CS_cap (hC : Lawful C VC WC) {c : Nat} {es : List σ} {les : List (List Nat)}
    (h : All2 (CS VC WC c) es les) : All2 (CS VC WC TERMINATED) es les := by
  induction h with
  | nil => exact All2.nil
  | cons h1 _ ih => exact All2.cons (h1.cap hC) ih

theorem all2_CS_sorted (hC : Lawful C VC WC) {c : Nat} {es : List σ} {les : List (List Nat)}
    (h : All2 (CS VC WC c) es les) : ∀ lo ∈ les, Sorted lo := by
  induction h with
  | nil => intro lo h; cases h
  | cons h1 _ ih =>
    intro lo hlo
    rcases List.mem_cons.mp hlo with rfl | h'
    · exact h1.sorted hC
    · exact ih lo h'

theorem inall_map_seek {los : List (List Nat)} (hs : ∀ lo ∈ los, Sorted lo) {c x : Nat} (hx : c ≤ x) :
    InAll (los.map (Spec.seek c)) x ↔ InAll los x := by
  simp only [InAll, List.mem_map, forall_exists_index, and_imp, forall_apply_eq_imp_iff₂]
  constructor
  · intro h lo hlo; exact (seek_agree (hs lo hlo) c x hx).mp (h lo hlo)
  · intro h lo hlo; exact (seek_agree (hs lo hlo) c x hx).mpr (h lo hlo)

/-- all found: every other child is valid and positioned on `c` -/
theorem all2_found {c : Nat} : ∀ {es : List σ} {los : List (List Nat)},
    All2 VC es (los.map (Spec.seek c)) → InAll los c → (∀ lo ∈ los, Sorted lo) →
    All2 (CS VC WC c) es (los.map (Spec.seek c))
  | [], [], _, _, _ => All2.nil
  | _ :: _, [], h, _, _ => by cases h
  | [], _ :: _, h, _, _ => by cases h
  | e :: es, lo :: los, h, hin, hs => by
    cases h with
    | cons h1 h2 =>
      refine All2.cons (Or.inl ⟨h1, ?_⟩) (all2_found h2 (fun x hx => hin x (List.mem_cons_of_mem _ hx))
        (fun x hx => hs x (List.mem_cons_of_mem _ hx)))
      rw [Spec.doc_seek_of_mem (hs lo (by simp)) (hin lo (by simp))]
      exact Nat.le_refl _

theorem seek_nil_of_term {l : List Nat} (h : Sorted l) {c : Nat} (hc : TERMINATED ≤ c) :
    Spec.seek c l = [] := by
  cases hl : Spec.seek c l with
  | nil => rfl
  | cons a m =>
    have ha : a ∈ Spec.seek c l := by rw [hl]; simp
    have := (Spec.mem_seek h a).mp ha
    have := h.2 a this.1
    omega

theorem all2_CS_mono {c c' : Nat} {es : List σ} {les : List (List Nat)}
    (h : All2 (CS VC WC c) es les) (hc : c ≤ c') : All2 (CS VC WC c') es les := by
  induction h with
  | nil => exact All2.nil
  | cons h1 _ ih => exact All2.cons (h1.mono hc) ih

/-- `dangerAll`: `seek_danger(c)` on the others, stopping at the first miss -/
theorem dangerAll_law (hC : Lawful C VC WC) {c : Nat} (hc : c ≤ TERMINATED) :
    ∀ {es : List σ} {les : List (List Nat)}, All2 (CS VC WC c) es les →
      match dangerAll C c es with
      | (none, es') => All2 VC es' (les.map (Spec.seek c)) ∧ InAll les c
      | (some b, es') => ∃ les', All2 (CS VC WC c) es' les' ∧ (c < b ∨ b = TERMINATED) ∧ b ≤ TERMINATED
          ∧ (∀ x, c ≤ x → (InAll les' x ↔ InAll les x)) ∧ (∀ x, c ≤ x → InAll les x → b ≤ x) := by
  intro es les h
  induction h with
  | nil => simp [dangerAll, InAll]; exact All2.nil
  | @cons e le es les h1 h2 ih =>
    have hs := h1.sorted hC
    have key := h1.sd hC hc
    simp only [dangerAll]
    revert key
    generalize C.seekDanger c e = r
    rcases r with ⟨r1, e'⟩
    cases r1 with
    | lower b =>
      simp only [SDPost]
      rintro ⟨hm, hW, hb1, hb2, hb3⟩
      have hcb : c ≤ b := by rcases hb1 with h | h <;> omega
      refine ⟨Spec.seek c le :: les, All2.cons (Or.inr ⟨c, Nat.le_refl c, hc, hW⟩) h2, hb1, hb2, ?_, ?_⟩
      · intro x hx
        simp only [InAll, List.mem_cons, forall_eq_or_imp]
        rw [seek_agree hs c x hx]
      · intro x hx hall
        exact miss_ge hs hm (hb3 trivial) hx (hall le (by simp))
    | found =>
      simp only [SDPost]
      rintro ⟨hm, hV⟩
      revert ih
      generalize dangerAll C c es = q
      rcases q with ⟨q1, es'⟩
      cases q1 with
      | none =>
        rintro ⟨i1, i2⟩
        refine ⟨All2.cons hV i1, ?_⟩
        intro lo hlo
        rcases List.mem_cons.mp hlo with rfl | h'
        · exact hm
        · exact i2 lo h'
      | some b =>
        rintro ⟨les', i1, i2, i3, i4, i5⟩
        have hdoc : Spec.doc (Spec.seek c le) ≤ c := by rw [Spec.doc_seek_of_mem hs hm]; exact Nat.le_refl _
        refine ⟨Spec.seek c le :: les', All2.cons (Or.inl ⟨hV, hdoc⟩) i1, i2, i3, ?_, ?_⟩
        · intro x hx
          simp only [InAll, List.mem_cons, forall_eq_or_imp]
          rw [seek_agree hs c x hx]
          have := i4 x hx
          simp only [InAll] at this
          rw [this]
        · intro x hx hall
          exact i5 x hx (fun lo hlo => hall lo (List.mem_cons_of_mem _ hlo))

/-- valid and not beyond `d` -/
def VB (VC : σ → List Nat → Prop) (d : Nat) (e : σ) (le : List Nat) : Prop := VC e le ∧ Spec.doc le ≤ d

theorem all2_found_VB {c : Nat} : ∀ {es : List σ} {los : List (List Nat)},
    All2 VC es (los.map (Spec.seek c)) → InAll los c → (∀ lo ∈ los, Sorted lo) →
    All2 (VB VC c) es (los.map (Spec.seek c))
  | [], [], _, _, _ => All2.nil
  | _ :: _, [], h, _, _ => by cases h
  | [], _ :: _, h, _, _ => by cases h
  | e :: es, lo :: los, h, hin, hs => by
    cases h with
    | cons h1 h2 =>
      refine All2.cons ⟨h1, ?_⟩ (all2_found_VB h2 (fun x hx => hin x (List.mem_cons_of_mem _ hx))
        (fun x hx => hs x (List.mem_cons_of_mem _ hx)))
      rw [Spec.doc_seek_of_mem (hs lo (by simp)) (hin lo (by simp))]
      exact Nat.le_refl _

theorem all2_V_VB {c : Nat} : ∀ {es : List σ} {les : List (List Nat)}, All2 VC es les →
    (∀ lo ∈ les, Spec.doc lo ≤ c) → All2 (VB VC c) es les := by
  intro es les h
  induction h with
  | nil => intro _; exact All2.nil
  | cons h1 _ ih =>
    intro hd
    exact All2.cons ⟨h1, hd _ (by simp)⟩ (ih (fun lo hlo => hd lo (List.mem_cons_of_mem _ hlo)))

theorem all_doc_seek {los : List (List Nat)} {c : Nat} (hs : ∀ lo ∈ los, Sorted lo) (hin : InAll los c) :
    ∀ lo' ∈ los.map (Spec.seek c), Spec.doc lo' = c := by
  intro lo' hlo'
  obtain ⟨lo, hlo, rfl⟩ := List.mem_map.mp hlo'
  exact Spec.doc_seek_of_mem (hs lo hlo) (hin lo hlo)

/-- valid states -/
def V (VC : σ → List Nat → Prop) (WC : σ → Nat → List Nat → Prop) (s : State σ) (l : List Nat) :
    Prop :=
  ∃ ll lr los, VC s.left ll ∧ CS VC WC (Spec.doc ll) s.right lr
    ∧ All2 (CS VC WC (Spec.doc ll)) s.others los
    ∧ (ll ≠ [] → Spec.doc ll ∈ lr ∧ InAll los (Spec.doc ll) ∧ VB VC (Spec.doc ll) s.right lr
        ∧ All2 (VB VC (Spec.doc ll)) s.others los
        ∧ Spec.doc lr = Spec.doc ll ∧ ∀ lo ∈ los, Spec.doc lo = Spec.doc ll) ∧ l = Common ll lr los

theorem common_sorted {ll lr : List Nat} {los : List (List Nat)} (h : Sorted ll) :
    Sorted (Common ll lr los) := h.filter _

theorem doc_common {ll lr : List Nat} {los : List (List Nat)}
    (h : ll ≠ [] → Spec.doc ll ∈ lr ∧ InAll los (Spec.doc ll)) :
    Spec.doc (Common ll lr los) = Spec.doc ll := by
  cases ll with
  | nil => rfl
  | cons a m =>
    have := h (by simp)
    simp only [Spec.doc, List.headD_cons] at this
    simp [Common, List.filter_cons, this.1, this.2, Spec.doc]

/-- the leap-frog loop -/
theorem advLoop_law (hC : Lawful C VC WC) :
    ∀ (fuel : Nat) {s : State σ} {cand : Nat} {ll lr : List Nat} {los : List (List Nat)},
      (Spec.seek cand ll).length + 2 ≤ fuel → VC s.left ll → Spec.doc ll ≤ cand →
      CS VC WC cand s.right lr → All2 (CS VC WC cand) s.others los →
      V VC WC (advLoop C fuel cand s) (Spec.seek cand (Common ll lr los)) := by
  intro fuel
  induction fuel with
  | zero => intro s cand ll lr los hf; omega
  | succ n ih =>
    intro s cand ll lr los hf hL hLd hR hO
    have hsl := hC.sorted hL
    simp only [advLoop]
    by_cases hcT : cand < TERMINATED
    · simp only [hcT, if_true]
      have hL' := hC.seek hL (by rw [hC.doc_eq hL]; exact hLd) (Nat.le_of_lt hcT)
      have hsl' := hC.sorted hL'
      have hd' := hC.doc_eq hL'
      have hc'le : C.doc (C.seek cand s.left) ≤ TERMINATED := by rw [hd']; exact Spec.doc_le hsl'
      have hcc' : cand ≤ C.doc (C.seek cand s.left) := by rw [hd']; exact Spec.seek_head_ge (Nat.le_of_lt hcT)
      -- members of the remaining left list are ≥ c'
      have hge' : ∀ x ∈ Spec.seek cand ll, C.doc (C.seek cand s.left) ≤ x := by
        rw [hd']; exact Exclude.all_ge_doc hsl'
      have hsr := hR.sorted hC
      have keyR := (hR.mono hcc').sd hC hc'le
      revert keyR
      generalize hr : C.seekDanger (C.doc (C.seek cand s.left)) s.right = r
      rcases r with ⟨r1, r'⟩
      cases r1 with
      | lower b =>
        simp only [SDPost]
        rintro ⟨hm, hW, hb1, hb2, hb3⟩
        have hc'b : C.doc (C.seek cand s.left) ≤ b := by rcases hb1 with h | h <;> omega
        -- measure
        have hmeas : (Spec.seek b (Spec.seek cand ll)).length + 2 ≤ n ∨ Spec.seek cand ll = [] := by
          by_cases hnil : Spec.seek cand ll = []
          · exact Or.inr hnil
          · left
            obtain ⟨a, m, ham⟩ := List.exists_cons_of_ne_nil hnil
            have ha : C.doc (C.seek cand s.left) = a := by rw [hd', ham]; rfl
            have hab : a < b := by
              rcases hb1 with h | h
              · omega
              · have := (hsl'.2 a (by rw [ham]; simp)); omega
            have : (Spec.seek b (a :: m)).length ≤ m.length := by
              simp only [Spec.seek, List.dropWhile_cons, hab, decide_true, if_true]
              exact (List.dropWhile_sublist _).length_le
            rw [ham] at hf ⊢
            simp only [List.length_cons] at hf
            omega
        have hgoal : Spec.seek b (Common (Spec.seek cand ll) (Spec.seek (C.doc (C.seek cand s.left)) lr) los)
            = Spec.seek cand (Common ll lr los) := by
          apply Sorted.ext ((common_sorted hsl').seek b) ((common_sorted hsl).seek cand)
          intro x
          rw [Spec.mem_seek (common_sorted hsl'), Spec.mem_seek (common_sorted hsl), mem_common, mem_common,
            Spec.mem_seek hsl, Spec.mem_seek hsr]
          constructor
          · rintro ⟨⟨⟨h1, _⟩, ⟨h2, _⟩, h3⟩, h4⟩
            exact ⟨⟨h1, h2, h3⟩, by omega⟩
          · rintro ⟨⟨h1, h2, h3⟩, h4⟩
            have hx' : C.doc (C.seek cand s.left) ≤ x := hge' x ((Spec.mem_seek hsl x).mpr ⟨h1, h4⟩)
            have hbx : b ≤ x := miss_ge hsr hm (hb3 trivial) hx' h2
            exact ⟨⟨⟨h1, h4⟩, ⟨h2, hx'⟩, h3⟩, hbx⟩
        rw [← hgoal]
        rcases hmeas with hmeas | hnil
        · exact ih (s := { s with left := C.seek cand s.left, right := r' }) hmeas hL'
            (by rw [← hd']; exact hc'b) (Or.inr ⟨_, hc'b, hc'le, hW⟩)
            (all2_CS_mono hO (Nat.le_trans hcc' hc'b))
        · -- the left child is exhausted: c' = TERMINATED = b, the next iteration leaves the loop
          have hc'T : C.doc (C.seek cand s.left) = TERMINATED := by rw [hd', hnil]; rfl
          have hbT : b = TERMINATED := by omega
          cases n with
          | zero => omega
          | succ n' =>
            simp only [advLoop, hbT, Nat.lt_irrefl, if_false]
            have hL'' := hC.seek hL' (by rw [hc'T]; exact Nat.le_refl _) (Nat.le_refl TERMINATED)
            rw [hnil] at hL''
            refine ⟨[], Spec.seek (C.doc (C.seek cand s.left)) lr, los, by simpa [Spec.seek] using hL'', ?_, ?_, by simp, ?_⟩
            · exact Or.inr ⟨_, by rw [hc'T]; simp [Spec.doc], hc'le, hW⟩
            · exact all2_CS_mono hO (by simp only [Spec.doc, List.headD_nil]; omega)
            · rw [hnil]; simp [Common, Spec.seek]
      | found =>
        simp only [SDPost]
        rintro ⟨hmR, hVR⟩
        have keyO := dangerAll_law hC hc'le (all2_CS_mono hO hcc')
        revert keyO
        generalize hq : dangerAll C (C.doc (C.seek cand s.left)) s.others = q
        rcases q with ⟨q1, os'⟩
        cases q1 with
        | none =>
          rintro ⟨i1, i2⟩
          -- every child is on c'
          have hc'lt : C.doc (C.seek cand s.left) < TERMINATED := hsr.2 _ hmR
          have hne : Spec.seek cand ll ≠ [] := by
            intro h0; rw [hd', h0] at hc'lt; simp [Spec.doc] at hc'lt
          have hdocR : Spec.doc (Spec.seek (C.doc (C.seek cand s.left)) lr) = C.doc (C.seek cand s.left) :=
            Spec.doc_seek_of_mem hsr hmR
          refine ⟨Spec.seek cand ll, Spec.seek (C.doc (C.seek cand s.left)) lr,
            los.map (Spec.seek (C.doc (C.seek cand s.left))), hL', ?_, ?_, ?_, ?_⟩
          · rw [← hd']; exact Or.inl ⟨hVR, by rw [hdocR]; exact Nat.le_refl _⟩
          · rw [← hd']
            exact all2_found i1 i2 (all2_CS_sorted hC hO)
          · intro _
            rw [← hd']
            exact ⟨(Spec.mem_seek hsr _).mpr ⟨hmR, Nat.le_refl _⟩,
              (inall_map_seek (all2_CS_sorted hC hO) (Nat.le_refl _)).mpr i2,
              ⟨hVR, by rw [hdocR]; exact Nat.le_refl _⟩, all2_found_VB i1 i2 (all2_CS_sorted hC hO),
              hdocR, all_doc_seek (all2_CS_sorted hC hO) i2⟩
          · apply Sorted.ext ((common_sorted hsl).seek cand) (common_sorted hsl')
            intro x
            rw [Spec.mem_seek (common_sorted hsl), mem_common, mem_common, Spec.mem_seek hsl, Spec.mem_seek hsr]
            constructor
            · rintro ⟨⟨h1, h2, h3⟩, h4⟩
              have hx' : C.doc (C.seek cand s.left) ≤ x := hge' x ((Spec.mem_seek hsl x).mpr ⟨h1, h4⟩)
              exact ⟨⟨h1, h4⟩, ⟨h2, hx'⟩, (inall_map_seek (all2_CS_sorted hC hO) hx').mpr h3⟩
            · rintro ⟨⟨h1, h4⟩, ⟨h2, hx'⟩, h3⟩
              exact ⟨⟨h1, h2, (inall_map_seek (all2_CS_sorted hC hO) hx').mp h3⟩, h4⟩
        | some b =>
          rintro ⟨les', i1, i2, i3, i4, i5⟩
          have hc'b : C.doc (C.seek cand s.left) ≤ b := by rcases i2 with h | h <;> omega
          have hc'lt : C.doc (C.seek cand s.left) < TERMINATED := hsr.2 _ hmR
          have hnil : Spec.seek cand ll ≠ [] := by
            intro h0; rw [hd', h0] at hc'lt; simp [Spec.doc] at hc'lt
          obtain ⟨a, m, ham⟩ := List.exists_cons_of_ne_nil hnil
          have ha : C.doc (C.seek cand s.left) = a := by rw [hd', ham]; rfl
          have hab : a < b := by
            rcases i2 with h | h
            · omega
            · omega
          have hmeas : (Spec.seek b (Spec.seek cand ll)).length + 2 ≤ n := by
            have : (Spec.seek b (a :: m)).length ≤ m.length := by
              simp only [Spec.seek, List.dropWhile_cons, hab, decide_true, if_true]
              exact (List.dropWhile_sublist _).length_le
            rw [ham] at hf ⊢
            simp only [List.length_cons] at hf
            omega
          have hdocR : Spec.doc (Spec.seek (C.doc (C.seek cand s.left)) lr) = C.doc (C.seek cand s.left) :=
            Spec.doc_seek_of_mem hsr hmR
          have hgoal : Spec.seek b (Common (Spec.seek cand ll) (Spec.seek (C.doc (C.seek cand s.left)) lr) les')
              = Spec.seek cand (Common ll lr los) := by
            apply Sorted.ext ((common_sorted hsl').seek b) ((common_sorted hsl).seek cand)
            intro x
            rw [Spec.mem_seek (common_sorted hsl'), Spec.mem_seek (common_sorted hsl), mem_common, mem_common,
              Spec.mem_seek hsl, Spec.mem_seek hsr]
            constructor
            · rintro ⟨⟨⟨h1, _⟩, ⟨h2, hx'⟩, h3⟩, h4⟩
              exact ⟨⟨h1, h2, (i4 x hx').mp h3⟩, by omega⟩
            · rintro ⟨⟨h1, h2, h3⟩, h4⟩
              have hx' : C.doc (C.seek cand s.left) ≤ x := hge' x ((Spec.mem_seek hsl x).mpr ⟨h1, h4⟩)
              exact ⟨⟨⟨h1, h4⟩, ⟨h2, hx'⟩, (i4 x hx').mpr h3⟩, i5 x hx' h3⟩
          rw [← hgoal]
          exact ih (s := { s with left := C.seek cand s.left, right := r', others := os' }) hmeas hL'
            (by rw [← hd']; exact hc'b) (Or.inl ⟨hVR, by rw [hdocR]; exact hc'b⟩) (all2_CS_mono i1 hc'b)
    · simp only [hcT, if_false]
      have hcT' : TERMINATED ≤ cand := by omega
      have hL' := hC.seek hL (by rw [hC.doc_eq hL]; exact Spec.doc_le hsl) (Nat.le_refl TERMINATED)
      rw [seek_nil_of_term hsl (Nat.le_refl _)] at hL'
      rw [seek_nil_of_term (common_sorted hsl) hcT']
      exact ⟨[], lr, los, hL', hR.cap hC, all2_CS_cap hC hO, by simp, by simp [Common]⟩


theorem seek_succ_doc {l : List Nat} (h : Sorted l) : Spec.seek (Spec.doc l + 1) l = l.tail := by
  cases l with
  | nil => rfl
  | cons a m =>
    obtain ⟨_, hlt, hs⟩ := h.of_cons
    simp only [Spec.doc, List.headD_cons, Spec.seek, List.dropWhile_cons, List.tail_cons]
    have : a < a + 1 := Nat.lt_succ_self a
    simp only [this, decide_true, if_true]
    have := Spec.seek_of_le (t := a + 1) (l := m)
      (Spec.doc_ge_of_all (fun x hx => hlt x hx) (by have := h.2 a (by simp); omega)) hs
    simp only [Spec.seek] at this
    exact this

theorem core0 (hC : Lawful C VC WC) : Core0 (doc C) (advance C) (V VC WC) where
  sorted := by
    rintro s l ⟨ll, lr, los, hL, _, _, _, rfl⟩
    exact common_sorted (hC.sorted hL)
  doc_eq := by
    rintro s l ⟨ll, lr, los, hL, _, _, ha, rfl⟩
    rw [doc_common (fun h => ⟨(ha h).1, (ha h).2.1⟩)]
    exact hC.doc_eq hL
  advance := by
    rintro s l ⟨ll, lr, los, hL, hR, hO, ha, rfl⟩
    have hsl := hC.sorted hL
    have hlen : (Spec.seek (C.doc s.left + 1) ll).length + 2 ≤ FUEL := by
      rw [hC.doc_eq hL, seek_succ_doc hsl]
      have h1 : ll.tail.length = ll.length - 1 := List.length_tail
      have h2 := hsl.length_le
      have h3 : 1 ≤ TERMINATED := by decide
      unfold FUEL
      cases ll with
      | nil => simp; omega
      | cons a m => simp only [List.length_cons, List.tail_cons] at *; omega
    have hd := hC.doc_eq hL
    have := advLoop_law hC FUEL (s := s) (cand := C.doc s.left + 1) hlen hL (by rw [hd]; omega)
      (hR.mono (by rw [hd]; omega)) (all2_CS_mono hO (by rw [hd]; omega))
    have e : Spec.seek (Spec.doc ll + 1) (Common ll lr los) = (Common ll lr los).tail := by
      rw [← doc_common (fun h => ⟨(ha h).1, (ha h).2.1⟩)]; exact seek_succ_doc (common_sorted hsl)
    unfold advance
    rw [hd] at this ⊢
    rw [e] at this
    exact this

/-! ### `seek` = `left.seek(target)` + `go_to_first_doc` -/

/-- a child that `go_to_first_doc` may `seek` to `c` -/
def PS (C : DS σ) (VC : σ → List Nat → Prop) (WC : σ → Nat → List Nat → Prop) (c : Nat) (e : σ)
    (le : List Nat) : Prop :=
  C.doc e ≤ c ∧ (VC e le ∨ ∃ t0, t0 ≤ c ∧ WC e t0 le)

theorem PS.mono {c c' : Nat} {e : σ} {le : List Nat} (h : PS C VC WC c e le) (hc : c ≤ c') :
    PS C VC WC c' e le := by
  obtain ⟨h1, h2⟩ := h
  refine ⟨Nat.le_trans h1 hc, ?_⟩
  rcases h2 with h2 | ⟨t0, h0, hW⟩
  · exact Or.inl h2
  · exact Or.inr ⟨t0, Nat.le_trans h0 hc, hW⟩

theorem PS.sorted (hC : Lawful C VC WC) {c : Nat} {e : σ} {le : List Nat} (h : PS C VC WC c e le) :
    Sorted le := by
  rcases h.2 with h1 | ⟨t0, _, hW⟩
  · exact hC.sorted h1
  · exact (hC.wsorted hW).1

/-- the (possibly weak) `doc` is a lower bound of the remaining list -/
theorem PS.doc_le (hC : Lawful C VC WC) {c : Nat} {e : σ} {le : List Nat} (h : PS C VC WC c e le) :
    C.doc e ≤ Spec.doc le := by
  rcases h.2 with h1 | ⟨t0, _, hW⟩
  · rw [hC.doc_eq h1]; exact Nat.le_refl _
  · exact hC.wdoc hW

theorem PS.seek (hC : Lawful C VC WC) {c : Nat} {e : σ} {le : List Nat} (h : PS C VC WC c e le)
    (hc : c ≤ TERMINATED) : VC (C.seek c e) (Spec.seek c le) := by
  rcases h.2 with h1 | ⟨t0, h0, hW⟩
  · exact hC.seek h1 h.1 hc
  · exact hC.wseek hW h0 h.1 hc

theorem all2_PS_mono {c c' : Nat} {es : List σ} {les : List (List Nat)}
    (h : All2 (PS C VC WC c) es les) (hc : c ≤ c') : All2 (PS C VC WC c') es les := by
  induction h with
  | nil => exact All2.nil
  | cons h1 _ ih => exact All2.cons (h1.mono hc) ih

theorem agree_inall {c : Nat} {les les' : List (List Nat)} (h : Exclude.Agree c les les') {x : Nat}
    (hx : c ≤ x) : InAll les' x ↔ InAll les x := by
  induction h with
  | nil => simp [InAll]
  | cons h1 _ ih =>
    simp only [InAll, List.mem_cons, forall_eq_or_imp] at *
    rw [h1 x hx, ih]

theorem agree_map_seek {c cf : Nat} {les les' : List (List Nat)} (h : Exclude.Agree c les les')
    (hc : c ≤ cf) (hs : ∀ lo ∈ les, Sorted lo) (hs' : ∀ lo ∈ les', Sorted lo) :
    les'.map (Spec.seek cf) = les.map (Spec.seek cf) := by
  induction h with
  | nil => rfl
  | @cons lo lo' los los' h1 _ ih =>
    simp only [List.map_cons]
    congr 1
    · apply Sorted.ext ((hs' lo' (by simp)).seek cf) ((hs lo (by simp)).seek cf)
      intro x
      rw [Spec.mem_seek (hs' lo' (by simp)), Spec.mem_seek (hs lo (by simp))]
      constructor
      · rintro ⟨a, b⟩; exact ⟨(h1 x (by omega)).mp a, b⟩
      · rintro ⟨a, b⟩; exact ⟨(h1 x (by omega)).mpr a, b⟩
    · exact ih (fun x hx => hs x (List.mem_cons_of_mem _ hx)) (fun x hx => hs' x (List.mem_cons_of_mem _ hx))

theorem all2_PS_sorted (hC : Lawful C VC WC) {c : Nat} {es : List σ} {les : List (List Nat)}
    (h : All2 (PS C VC WC c) es les) : ∀ lo ∈ les, Sorted lo := by
  induction h with
  | nil => intro lo h; cases h
  | cons h1 _ ih =>
    intro lo hlo
    rcases List.mem_cons.mp hlo with rfl | h'
    · exact h1.sorted hC
    · exact ih lo h'

/-- one pass of `go_to_first_doc` -/
theorem seekAll_law (hC : Lawful C VC WC) {c : Nat} (hc : c ≤ TERMINATED) :
    ∀ {es : List σ} {les : List (List Nat)}, All2 (PS C VC WC c) es les →
      match seekAll C c es with
      | (none, es') => All2 VC es' (les.map (Spec.seek c)) ∧ ∀ lo ∈ les, Spec.doc (Spec.seek c lo) = c
      | (some c', es') => ∃ les', All2 (PS C VC WC c') es' les' ∧ c < c' ∧ c' ≤ TERMINATED
          ∧ Exclude.Agree c les les' ∧ (∀ x, c ≤ x → InAll les x → c' ≤ x) := by
  intro es les h
  induction h with
  | nil => simp [seekAll]; exact All2.nil
  | @cons e le es les h1 h2 ih =>
    have hs := h1.sorted hC
    have hV := h1.seek hC hc
    have hd := hC.doc_eq hV
    have hge : c ≤ Spec.doc (Spec.seek c le) := Spec.seek_head_ge hc
    simp only [seekAll]
    by_cases hov : C.doc (C.seek c e) > c
    · simp only [hov, if_true]
      have hcle : C.doc (C.seek c e) ≤ TERMINATED := by rw [hd]; exact Spec.doc_le (hs.seek c)
      refine ⟨Spec.seek c le :: les, All2.cons ⟨Nat.le_refl _, Or.inl hV⟩ (all2_PS_mono h2 (Nat.le_of_lt hov)),
        (by first | exact hov | trivial), hcle, ?_, ?_⟩
      · exact All2.cons (fun x hx => seek_agree hs c x hx) (Exclude.Agree.refl c les)
      · intro x hx hall
        rw [hd]
        exact Exclude.all_ge_doc (hs.seek c) x ((seek_agree hs c x hx).mpr (hall le (by simp)))
    · simp only [hov, if_false]
      have hdc : Spec.doc (Spec.seek c le) = c := by rw [← hd]; rw [hd] at hov; omega
      revert ih
      generalize seekAll C c es = q
      rcases q with ⟨q1, es'⟩
      cases q1 with
      | none =>
        rintro ⟨i1, i2⟩
        refine ⟨All2.cons hV i1, ?_⟩
        intro lo hlo
        rcases List.mem_cons.mp hlo with rfl | h'
        · exact hdc
        · exact i2 lo h'
      | some c' =>
        rintro ⟨les', i1, i2, i3, i4, i5⟩
        refine ⟨Spec.seek c le :: les', All2.cons ⟨by rw [hd, hdc]; exact Nat.le_of_lt i2, Or.inl hV⟩ i1, i2, i3, ?_, ?_⟩
        · exact All2.cons (fun x hx => seek_agree hs c x hx) i4
        · intro x hx hall
          exact i5 x hx (fun lo hlo => hall lo (List.mem_cons_of_mem _ hlo))

/-- `go_to_first_doc`'s outer loop: ends with every child valid and positioned on the same
candidate `cf`, the first common document `≥ c` (or `TERMINATED`) -/
theorem goLoop_law (hC : Lawful C VC WC) :
    ∀ (fuel : Nat) {c : Nat} {es : List σ} {les : List (List Nat)}, TERMINATED + 1 ≤ fuel + c →
      c ≤ TERMINATED → All2 (PS C VC WC c) es les →
      ∃ cf, (goLoop C fuel c es).1 = cf ∧ c ≤ cf ∧ cf ≤ TERMINATED
        ∧ All2 VC (goLoop C fuel c es).2 (les.map (Spec.seek cf))
        ∧ (∀ lo ∈ les, Spec.doc (Spec.seek cf lo) = cf)
        ∧ (∀ x, c ≤ x → InAll les x → cf ≤ x) := by
  intro fuel
  induction fuel with
  | zero => intro c es les hf hc; omega
  | succ n ih =>
    intro c es les hf hc h
    have hsl := all2_PS_sorted hC h
    have key := seekAll_law hC hc h
    simp only [goLoop]
    revert key
    generalize seekAll C c es = q
    rcases q with ⟨q1, es'⟩
    cases q1 with
    | none =>
      rintro ⟨i1, i2⟩
      exact ⟨c, rfl, Nat.le_refl _, hc, i1, i2, fun x hx _ => hx⟩
    | some c' =>
      rintro ⟨les', i1, i2, i3, i4, i5⟩
      obtain ⟨cf, j1, j2, j3, j4, j5, j6⟩ := ih (c := c') (by omega) i3 i1
      refine ⟨cf, j1, by omega, j3, ?_, ?_, ?_⟩
      · rw [← agree_map_seek i4 (by omega) hsl (all2_PS_sorted hC i1)]; exact j4
      · -- the lists reached through `les'` are the seeks of the original ones
        have hmap := agree_map_seek i4 (Nat.le_trans (Nat.le_of_lt i2) j2) hsl (all2_PS_sorted hC i1)
        intro lo hlo
        have : Spec.seek cf lo ∈ les.map (Spec.seek cf) := List.mem_map_of_mem hlo
        rw [← hmap] at this
        obtain ⟨lo', hlo', he⟩ := List.mem_map.mp this
        rw [← he]; exact j5 lo' hlo'
      · intro x hx hall
        have hx' := i5 x hx hall
        exact j6 x hx' ((agree_inall i4 hx).mpr hall)


/-- valid, or in the danger zone of a target `≤ c` (no bound on `doc`) -/
def DSt (VC : σ → List Nat → Prop) (WC : σ → Nat → List Nat → Prop) (c : Nat) (e : σ)
    (le : List Nat) : Prop := VC e le ∨ ∃ t0, t0 ≤ c ∧ WC e t0 le

theorem CS.toDSt {c c' : Nat} {e : σ} {le : List Nat} (h : CS VC WC c e le) (hc : c ≤ c') :
    DSt VC WC c' e le := by
  rcases h with ⟨h1, _⟩ | ⟨t0, h0, _, hW⟩
  · exact Or.inl h1
  · exact Or.inr ⟨t0, Nat.le_trans h0 hc, hW⟩

theorem DSt.sorted (hC : Lawful C VC WC) {c : Nat} {e : σ} {le : List Nat} (h : DSt VC WC c e le) :
    Sorted le := by
  rcases h with h1 | ⟨t0, _, hW⟩
  · exact hC.sorted h1
  · exact (hC.wsorted hW).1

theorem DSt.doc_le (hC : Lawful C VC WC) {c : Nat} {e : σ} {le : List Nat} (h : DSt VC WC c e le) :
    C.doc e ≤ Spec.doc le := by
  rcases h with h1 | ⟨t0, _, hW⟩
  · rw [hC.doc_eq h1]; exact Nat.le_refl _
  · exact hC.wdoc hW

theorem maxDoc_ge (C : DS σ) : ∀ (es : List σ) (e : σ), e ∈ es → C.doc e ≤ maxDoc C es
  | [], _, h => by cases h
  | a :: es, e, h => by
    simp only [maxDoc, List.foldr_cons]
    rcases List.mem_cons.mp h with rfl | h'
    · omega
    · have := maxDoc_ge C es e h'; simp only [maxDoc] at this; omega

theorem maxDoc_le (C : DS σ) {x : Nat} : ∀ (es : List σ), (∀ e ∈ es, C.doc e ≤ x) → maxDoc C es ≤ x
  | [], _ => by simp [maxDoc]
  | a :: es, h => by
    simp only [maxDoc, List.foldr_cons]
    have h1 := h a (by simp)
    have h2 := maxDoc_le C es (fun e he => h e (List.mem_cons_of_mem _ he))
    simp only [maxDoc] at h2
    omega

theorem all2_DSt_PS {c c0 : Nat} (hc : c ≤ c0) : ∀ {es : List σ} {les : List (List Nat)},
    All2 (DSt VC WC c) es les → (∀ e ∈ es, C.doc e ≤ c0) → All2 (PS C VC WC c0) es les := by
  intro es les h
  induction h with
  | nil => intro _; exact All2.nil
  | cons h1 _ ih =>
    intro hd
    refine All2.cons ⟨hd _ (by simp), ?_⟩ (ih (fun e he => hd e (List.mem_cons_of_mem _ he)))
    rcases h1 with h1 | ⟨t0, h0, hW⟩
    · exact Or.inl h1
    · exact Or.inr ⟨t0, Nat.le_trans h0 hc, hW⟩

theorem all2_doc_le_of_inall (hC : Lawful C VC WC) {c : Nat} {x : Nat} :
    ∀ {es : List σ} {les : List (List Nat)}, All2 (DSt VC WC c) es les → InAll les x →
      ∀ e ∈ es, C.doc e ≤ x := by
  intro es les h
  induction h with
  | nil => intro _ e he; cases he
  | @cons e le es les h1 _ ih =>
    intro hin e' he'
    rcases List.mem_cons.mp he' with rfl | h'
    · exact Nat.le_trans (h1.doc_le hC) (Exclude.all_ge_doc (h1.sorted hC) x (hin le (by simp)))
    · exact ih (fun lo hlo => hin lo (List.mem_cons_of_mem _ hlo)) e' h'

theorem all2_V_CS {c : Nat} : ∀ {es : List σ} {les : List (List Nat)}, All2 VC es les →
    (∀ lo ∈ les, Spec.doc lo ≤ c) → All2 (CS VC WC c) es les := by
  intro es les h
  induction h with
  | nil => intro _; exact All2.nil
  | cons h1 _ ih =>
    intro hd
    exact All2.cons (Or.inl ⟨h1, hd _ (by simp)⟩) (ih (fun lo hlo => hd lo (List.mem_cons_of_mem _ hlo)))

theorem all2_DSt_mono {c c' : Nat} {es : List σ} {les : List (List Nat)}
    (h : All2 (DSt VC WC c) es les) (hc : c ≤ c') : All2 (DSt VC WC c') es les := by
  induction h with
  | nil => exact All2.nil
  | cons h1 _ ih =>
    refine All2.cons ?_ ih
    rcases h1 with h1 | ⟨t0, h0, hW⟩
    · exact Or.inl h1
    · exact Or.inr ⟨t0, Nat.le_trans h0 hc, hW⟩

theorem all2_DSt_sorted (hC : Lawful C VC WC) {c : Nat} {es : List σ} {les : List (List Nat)}
    (h : All2 (DSt VC WC c) es les) : ∀ lo ∈ les, Sorted lo := by
  induction h with
  | nil => intro lo h; cases h
  | cons h1 _ ih =>
    intro lo hlo
    rcases List.mem_cons.mp hlo with rfl | h'
    · exact h1.sorted hC
    · exact ih lo h'

theorem all2_CS_DSt {c c' : Nat} {es : List σ} {les : List (List Nat)}
    (h : All2 (CS VC WC c) es les) (hc : c ≤ c') : All2 (DSt VC WC c') es les := by
  induction h with
  | nil => exact All2.nil
  | cons h1 _ ih => exact All2.cons (h1.toDSt hc) ih

/-- `seek(t)` from any state whose children are valid or in a danger zone of a target `≤ t`:
every child ends valid on the first common document `≥ t` -/
theorem seek_law (hC : Lawful C VC WC) {s : State σ} {t : Nat} {ll lr : List Nat}
    {los : List (List Nat)} (ht : t ≤ TERMINATED) (hL : PS C VC WC t s.left ll)
    (hR : DSt VC WC (Spec.doc (Spec.seek t ll)) s.right lr)
    (hO : All2 (DSt VC WC (Spec.doc (Spec.seek t ll))) s.others los) :
    V VC WC (seek C t s) (Spec.seek t (Common ll lr los)) := by
  have hsl := hL.sorted hC
  have hsr := hR.sorted hC
  have hL' := hL.seek hC ht
  have hsl' := hC.sorted hL'
  have hdl' := hC.doc_eq hL'
  have htl' : t ≤ C.doc (C.seek t s.left) := by rw [hdl']; exact Spec.seek_head_ge ht
  -- the children as a list
  have hall : All2 (DSt VC WC (Spec.doc (Spec.seek t ll))) (C.seek t s.left :: s.right :: s.others) (Spec.seek t ll :: lr :: los) :=
    All2.cons (Or.inl hL') (All2.cons hR hO)
  have hslist : ∀ lo ∈ (Spec.seek t ll :: lr :: los), Sorted lo := by
    intro lo hlo
    rcases List.mem_cons.mp hlo with rfl | h'
    · exact hsl'
    · rcases List.mem_cons.mp h' with rfl | h''
      · exact hsr
      · exact all2_DSt_sorted hC hO lo h''
  let es := C.seek t s.left :: s.right :: s.others
  have hc0t' : Spec.doc (Spec.seek t ll) ≤ maxDoc C es := by rw [← hdl']; exact maxDoc_ge C es _ (by simp [es])
  have hc0t : t ≤ maxDoc C es := Nat.le_trans htl' (maxDoc_ge C es _ (by simp [es]))
  have hc0T : maxDoc C es ≤ TERMINATED := by
    apply maxDoc_le
    intro e he
    -- every (weak) doc is below the end marker
    have : ∀ {es' : List σ} {les' : List (List Nat)}, All2 (DSt VC WC (Spec.doc (Spec.seek t ll))) es' les' → ∀ e ∈ es', C.doc e ≤ TERMINATED := by
      intro es' les' h
      induction h with
      | nil => intro e he; cases he
      | cons h1 _ ih =>
        intro e he
        rcases List.mem_cons.mp he with rfl | h'
        · exact Nat.le_trans (h1.doc_le hC) (Spec.doc_le (h1.sorted hC))
        · exact ih e h'
    exact this hall e he
  have hPS := all2_DSt_PS (C := C) hc0t' hall (maxDoc_ge C es)
  obtain ⟨cf, j1, j2, j3, j4, j5, j6⟩ := goLoop_law hC FUEL (c := maxDoc C es) (by unfold FUEL; omega) hc0T hPS
  have htcf : t ≤ cf := Nat.le_trans hc0t j2
  -- shape of the result
  simp only [seek, goToFirstDoc, toList]
  show V VC WC (ofList s.dense _ (goLoop C FUEL (maxDoc C es) es).2) _
  generalize (goLoop C FUEL (maxDoc C es) es).2 = esf at j4
  simp only [List.map_cons] at j4
  cases j4 with
  | cons hLf j4' =>
    cases j4' with
    | cons hRf hOf =>
      simp only [ofList]
      have hdl : Spec.doc (Spec.seek cf (Spec.seek t ll)) = cf := j5 _ (by simp)
      have hdr : Spec.doc (Spec.seek cf lr) = cf := j5 _ (by simp)
      have hdo : ∀ lo ∈ los, Spec.doc (Spec.seek cf lo) = cf := fun lo hlo => j5 lo (by simp [hlo])
      refine ⟨Spec.seek cf (Spec.seek t ll), Spec.seek cf lr, los.map (Spec.seek cf), hLf, ?_, ?_, ?_, ?_⟩
      · exact Or.inl ⟨hRf, by rw [hdl, hdr]; exact Nat.le_refl _⟩
      · apply all2_V_CS hOf
        intro lo' hlo'
        obtain ⟨lo, hlo, rfl⟩ := List.mem_map.mp hlo'
        rw [hdl, hdo lo hlo]; exact Nat.le_refl _
      · intro hne
        have hlt : cf < TERMINATED := by
          rw [← hdl]
          obtain ⟨a, m, ham⟩ := List.exists_cons_of_ne_nil hne
          rw [ham]; simp only [Spec.doc, List.headD_cons]
          exact ((hsl'.seek cf).2 a (by rw [ham]; simp))
        rw [hdl]
        refine ⟨?_, ?_, ⟨hRf, by rw [hdr]; exact Nat.le_refl _⟩, ?_, hdr, ?_⟩
        · have := Spec.doc_mem (l := Spec.seek cf lr) (by rw [hdr]; exact hlt)
          rw [hdr] at this; exact this
        · intro lo' hlo'
          obtain ⟨lo, hlo, rfl⟩ := List.mem_map.mp hlo'
          have := Spec.doc_mem (l := Spec.seek cf lo) (by rw [hdo lo hlo]; exact hlt)
          rw [hdo lo hlo] at this; exact this
        · apply all2_V_VB hOf
          intro lo' hlo'
          obtain ⟨lo, hlo, rfl⟩ := List.mem_map.mp hlo'
          rw [hdo lo hlo]; exact Nat.le_refl _
        · intro lo' hlo'
          obtain ⟨lo, hlo, rfl⟩ := List.mem_map.mp hlo'
          exact hdo lo hlo
      · have hso : ∀ lo ∈ los, Sorted lo := fun lo hlo => hslist lo (by simp [hlo])
        apply Sorted.ext ((common_sorted hsl).seek t) (common_sorted (hsl'.seek cf))
        intro x
        rw [Spec.mem_seek (common_sorted hsl), mem_common, mem_common, Spec.mem_seek hsl', Spec.mem_seek hsl,
          Spec.mem_seek hsr]
        constructor
        · rintro ⟨⟨h1, h2, h3⟩, h4⟩
          have hxin : InAll (Spec.seek t ll :: lr :: los) x := by
            intro lo hlo
            rcases List.mem_cons.mp hlo with rfl | h'
            · exact (Spec.mem_seek hsl x).mpr ⟨h1, h4⟩
            · rcases List.mem_cons.mp h' with rfl | h''
              · exact h2
              · exact h3 lo h''
          have hc0x : maxDoc C es ≤ x := maxDoc_le C es (all2_doc_le_of_inall hC hall hxin)
          have hcfx := j6 x hc0x hxin
          exact ⟨⟨⟨h1, h4⟩, hcfx⟩, ⟨h2, hcfx⟩, (inall_map_seek hso hcfx).mpr h3⟩
        · rintro ⟨⟨⟨h1, h4⟩, hcfx⟩, ⟨h2, _⟩, h3⟩
          exact ⟨⟨h1, h2, (inall_map_seek hso hcfx).mp h3⟩, h4⟩

theorem core (hC : Lawful C VC WC) : Core (doc C) (advance C) (seek C) (V VC WC) where
  toCore0 := core0 hC
  seek := by
    rintro s l t ⟨ll, lr, los, hL, hR, hO, ha, rfl⟩ hd ht
    have hdl := hC.doc_eq hL
    have hdt : Spec.doc ll ≤ Spec.doc (Spec.seek t ll) := Spec.doc_le_doc_seek (hC.sorted hL) t
    exact seek_law hC ht ⟨hd, Or.inl hL⟩ (hR.toDSt hdt) (all2_CS_DSt hO hdt)


/-! ### `seek_danger` and the danger zone of the intersection itself -/

/-- danger zone left by `Intersection::seek_danger(t)`: the left child is valid or in the danger
zone of a target `≤ t`, the others are usable from the left child's next document on, and no
common document `≤ t` remains -/
def W (VC : σ → List Nat → Prop) (WC : σ → Nat → List Nat → Prop) (s : State σ) (t : Nat)
    (l : List Nat) : Prop :=
  ∃ ll lr los, CS VC WC t s.left ll ∧ CS VC WC (Spec.doc ll) s.right lr
    ∧ All2 (CS VC WC (Spec.doc ll)) s.others los ∧ (∀ x ∈ Common ll lr los, t < x)
    ∧ l = Common ll lr los

theorem doc_le_doc_filter {l : List Nat} (h : Sorted l) (p : Nat → Bool) :
    Spec.doc l ≤ Spec.doc (l.filter p) := by
  apply Spec.doc_ge_of_all _ (Spec.doc_le h)
  intro x hx
  exact Exclude.all_ge_doc h x (List.mem_filter.mp hx).1

theorem sd_law (hC : Lawful C VC WC) {s : State σ} {t : Nat} {ll lr : List Nat}
    {los : List (List Nat)} {ub : Prop} (ht : t ≤ TERMINATED) (hsl : Sorted ll)
    (hLsd : SDPost VC WC ll t ub (C.seekDanger t s.left))
    (hR : CS VC WC (Spec.doc ll) s.right lr) (hO : All2 (CS VC WC (Spec.doc ll)) s.others los) :
    SDPost (V VC WC) (W VC WC) (Common ll lr los) t ub (seekDanger C t s) := by
  have hsr := hR.sorted hC
  have hso := all2_CS_sorted hC hO
  have hdll : Spec.doc ll ≤ Spec.doc (Spec.seek t ll) := Spec.doc_le_doc_seek hsl t
  simp only [seekDanger]
  revert hLsd
  generalize C.seekDanger t s.left = r
  rcases r with ⟨r1, l'⟩
  cases r1 with
  | lower b =>
    simp only [SDPost]
    rintro ⟨hm, hW, hb1, hb2, hb3⟩
    refine ⟨fun h => hm (mem_common.mp h).1, ?_, hb1, hb2, ?_⟩
    · refine ⟨Spec.seek t ll, lr, los, Or.inr ⟨t, Nat.le_refl _, ht, hW⟩, hR.mono hdll, all2_CS_mono hO hdll, ?_, ?_⟩
      · intro x hx
        have h1 := (Spec.mem_seek hsl x).mp (mem_common.mp hx).1
        have : x ≠ t := by rintro rfl; exact hm h1.1
        omega
      · exact Spec.seek_filter hsl _ t
    · intro hu
      rw [show Spec.seek t (Common ll lr los) = Common (Spec.seek t ll) lr los from Spec.seek_filter hsl _ t]
      exact Nat.le_trans (hb3 hu) (doc_le_doc_filter (hsl.seek t) _)
  | found =>
    simp only [SDPost]
    rintro ⟨hmL, hVL⟩
    have hdt : Spec.doc ll ≤ t := Exclude.all_ge_doc hsl t hmL
    have hdl' : Spec.doc (Spec.seek t ll) = t := Spec.doc_seek_of_mem hsl hmL
    have keyR := (hR.mono hdt).sd hC ht
    revert keyR
    generalize C.seekDanger t s.right = r
    rcases r with ⟨r1, r'⟩
    cases r1 with
    | lower b =>
      simp only [SDPost]
      rintro ⟨hm, hW, hb1, hb2, hb3⟩
      have hleq : Spec.seek t (Common ll lr los) = Common (Spec.seek t ll) (Spec.seek t lr) los := by
        apply Sorted.ext ((common_sorted hsl).seek t) (common_sorted (hsl.seek t))
        intro x
        rw [Spec.mem_seek (common_sorted hsl), mem_common, mem_common, Spec.mem_seek hsl, Spec.mem_seek hsr]
        constructor
        · rintro ⟨⟨h1, h2, h3⟩, h4⟩; exact ⟨⟨h1, h4⟩, ⟨h2, h4⟩, h3⟩
        · rintro ⟨⟨h1, h4⟩, ⟨h2, _⟩, h3⟩; exact ⟨⟨h1, h2, h3⟩, h4⟩
      refine ⟨fun h => hm (mem_common.mp h).2.1, ?_, hb1, hb2, ?_⟩
      · refine ⟨Spec.seek t ll, Spec.seek t lr, los, Or.inl ⟨hVL, by rw [hdl']; exact Nat.le_refl _⟩, ?_, ?_, ?_, hleq⟩
        · rw [hdl']; exact Or.inr ⟨t, Nat.le_refl _, ht, hW⟩
        · rw [hdl']; exact all2_CS_mono hO hdt
        · intro x hx
          have h1 := (Spec.mem_seek hsr x).mp (mem_common.mp hx).2.1
          have : x ≠ t := by rintro rfl; exact hm h1.1
          omega
      · intro _
        rw [hleq]
        apply Spec.doc_ge_of_all _ hb2
        intro x hx
        exact Nat.le_trans (hb3 trivial) (Exclude.all_ge_doc (hsr.seek t) x (mem_common.mp hx).2.1)
    | found =>
      simp only [SDPost]
      rintro ⟨hmR, hVR⟩
      have keyO := dangerAll_law hC ht (all2_CS_mono hO hdt)
      revert keyO
      generalize dangerAll C t s.others = q
      rcases q with ⟨q1, os'⟩
      cases q1 with
      | none =>
        rintro ⟨i1, i2⟩
        have hleq : Spec.seek t (Common ll lr los) = Common (Spec.seek t ll) (Spec.seek t lr) (los.map (Spec.seek t)) := by
          apply Sorted.ext ((common_sorted hsl).seek t) (common_sorted (hsl.seek t))
          intro x
          rw [Spec.mem_seek (common_sorted hsl), mem_common, mem_common, Spec.mem_seek hsl, Spec.mem_seek hsr]
          constructor
          · rintro ⟨⟨h1, h2, h3⟩, h4⟩; exact ⟨⟨h1, h4⟩, ⟨h2, h4⟩, (inall_map_seek hso h4).mpr h3⟩
          · rintro ⟨⟨h1, h4⟩, ⟨h2, _⟩, h3⟩; exact ⟨⟨h1, h2, (inall_map_seek hso h4).mp h3⟩, h4⟩
        refine ⟨mem_common.mpr ⟨hmL, hmR, i2⟩, ?_⟩
        refine ⟨Spec.seek t ll, Spec.seek t lr, los.map (Spec.seek t), hVL, ?_, ?_, ?_, hleq⟩
        · rw [hdl']; exact Or.inl ⟨hVR, by rw [Spec.doc_seek_of_mem hsr hmR]; exact Nat.le_refl _⟩
        · rw [hdl']; exact all2_found i1 i2 hso
        · intro _
          rw [hdl']
          exact ⟨(Spec.mem_seek hsr t).mpr ⟨hmR, Nat.le_refl _⟩, (inall_map_seek hso (Nat.le_refl _)).mpr i2,
            ⟨hVR, by rw [Spec.doc_seek_of_mem hsr hmR]; exact Nat.le_refl _⟩, all2_found_VB i1 i2 hso,
            Spec.doc_seek_of_mem hsr hmR, all_doc_seek hso i2⟩
      | some b =>
        rintro ⟨les', i1, i2, i3, i4, i5⟩
        have hleq : Spec.seek t (Common ll lr los) = Common (Spec.seek t ll) (Spec.seek t lr) les' := by
          apply Sorted.ext ((common_sorted hsl).seek t) (common_sorted (hsl.seek t))
          intro x
          rw [Spec.mem_seek (common_sorted hsl), mem_common, mem_common, Spec.mem_seek hsl, Spec.mem_seek hsr]
          constructor
          · rintro ⟨⟨h1, h2, h3⟩, h4⟩; exact ⟨⟨h1, h4⟩, ⟨h2, h4⟩, (i4 x h4).mpr h3⟩
          · rintro ⟨⟨h1, h4⟩, ⟨h2, _⟩, h3⟩; exact ⟨⟨h1, h2, (i4 x h4).mp h3⟩, h4⟩
        have hnot : ¬ InAll los t := by
          intro h
          have := i5 t (Nat.le_refl _) h
          have := hsl.2 t hmL
          rcases i2 with h' | h' <;> omega
        refine ⟨fun h => hnot (mem_common.mp h).2.2, ?_, i2, i3, ?_⟩
        · refine ⟨Spec.seek t ll, Spec.seek t lr, les', Or.inl ⟨hVL, by rw [hdl']; exact Nat.le_refl _⟩, ?_, ?_, ?_, hleq⟩
          · rw [hdl']; exact Or.inl ⟨hVR, by rw [Spec.doc_seek_of_mem hsr hmR]; exact Nat.le_refl _⟩
          · rw [hdl']; exact i1
          · intro x hx
            rw [← hleq] at hx
            have h1 := (Spec.mem_seek (common_sorted hsl) x).mp hx
            have : x ≠ t := by rintro rfl; exact hnot (mem_common.mp h1.1).2.2
            omega
        · intro _
          apply Spec.doc_ge_of_all _ i3
          intro x hx
          have h1 := (Spec.mem_seek (common_sorted hsl) x).mp hx
          exact i5 x h1.2 (mem_common.mp h1.1).2.2

/-- the intersection with the default (`advance`-driven) `count_including_deleted`, i.e. the
sparse branch; the dense block-counting branch is exercised by the harness only -/
def dsSparse (C : DS σ) : DS (State σ) :=
  { ds C with count := defaultCount (doc C) (advance C) }

theorem lawful_sparse (hC : Lawful C VC WC) : Lawful (dsSparse C) (V VC WC) (W VC WC) where
  sorted := (core hC).sorted
  doc_eq := (core hC).doc_eq
  advance := (core hC).advance
  seek := (core hC).seek
  fillBuffer := fun h => defaultFillBuffer_law (core hC).toCore0 h
  fillBitset := fun h hd hm => defaultFillBitset_law (core hC) h hd hm
  count := fun h => defaultCount_law (core hC).toCore0 h
  wsorted := by
    rintro s t0 l ⟨ll, lr, los, hL, _, _, hgt, rfl⟩
    exact ⟨common_sorted (hL.sorted hC), hgt⟩
  wdoc := by
    rintro s t0 l ⟨ll, lr, los, hL, _, _, _, rfl⟩
    exact Nat.le_trans ((hL.toDSt (Nat.le_refl _)).doc_le hC) (doc_le_doc_filter (hL.sorted hC) _)
  wseek := by
    rintro s t0 l t ⟨ll, lr, los, hL, hR, hO, _, rfl⟩ h0 hd ht
    have hsl := hL.sorted hC
    have hb : Spec.doc ll ≤ Spec.doc (Spec.seek t ll) := Spec.doc_le_doc_seek hsl t
    exact seek_law hC ht ⟨hd, hL.toDSt h0⟩ (hR.toDSt hb) (all2_CS_DSt hO hb)
  sdV := by
    rintro s l t ⟨ll, lr, los, hL, hR, hO, _, rfl⟩ ht
    exact sd_law hC ht (hC.sorted hL) (hC.sdV hL ht) hR hO
  sdW := by
    rintro s t0 l t ⟨ll, lr, los, hL, hR, hO, _, rfl⟩ h0 ht
    exact sd_law hC ht (hL.sorted hC) ((hL.mono h0).sd hC ht) hR hO


end TantivyModel.DocSet.Inter
