import TantivyModel.Proofs.DocSet.IntersectionCount
/-! score of the intersection: a function of the current document and of the children's (ghost)
score functions only -/
namespace TantivyModel.DocSet.Inter
variable {σ : Type} {C : DS σ} {VC : σ → List Nat → Prop} {WC : σ → Nat → List Nat → Prop}

theorem scoreAll_fst (g : σ → Nat → Nat) :
    ∀ es : List σ, (∀ c ∈ es, (C.score c).1 = g c (C.doc c)) →
      (scoreAll C es).1 = (es.map (fun c => g c (C.doc c))).sum
  | [], _ => rfl
  | e :: es, h => by
    simp only [scoreAll, List.map_cons, List.sum_cons, h e (by simp),
      scoreAll_fst g es (fun c hc => h c (List.mem_cons_of_mem _ hc))]

theorem all2_VB_doc (hC : Lawful C VC WC) {d : Nat} {es : List σ} {les : List (List Nat)}
    (h : All2 (VB VC d) es les) : (∀ lo ∈ les, Spec.doc lo = d) → ∀ e ∈ es, C.doc e = d := by
  induction h with
  | nil => intro _ e he; cases he
  | cons x _ ih =>
    intro hd e he
    rcases List.mem_cons.mp he with rfl | h'
    · rw [hC.doc_eq x.1]; exact hd _ (by simp)
    · exact ih (fun lo hlo => hd lo (List.mem_cons_of_mem _ hlo)) e h'

/-- on a document (not at the end) every child of a valid intersection state sits on that document -/
theorem children_doc (hC : Lawful C VC WC) {s : State σ} {l : List Nat} (hV : V VC WC s l) (hne : l ≠ []) :
    ∀ c ∈ toList s, C.doc c = Spec.doc l := by
  obtain ⟨ll, lr, los, hL, _, _, ha, rfl⟩ := hV
  have hll : ll ≠ [] := by
    intro h0; apply hne; rw [h0]; rfl
  obtain ⟨h1, h2, hRB, hOB, e1, e2⟩ := ha hll
  rw [doc_common (fun _ => ⟨h1, h2⟩)]
  intro c hc
  simp only [toList, List.mem_cons] at hc
  rcases hc with rfl | rfl | hc
  · exact hC.doc_eq hL
  · rw [hC.doc_eq hRB.1]; exact e1
  · exact all2_VB_doc hC hOB e2 c hc

theorem all2_VB_valid {d : Nat} (hd : d < TERMINATED) {es : List σ} {les : List (List Nat)}
    (h : All2 (VB VC d) es les) : (∀ lo ∈ les, Spec.doc lo = d) → ∀ e ∈ es, ∃ le, VC e le ∧ le ≠ [] := by
  induction h with
  | nil => intro _ e he; cases he
  | @cons a b _ _ x _ ih =>
    intro hdoc e he
    rcases List.mem_cons.mp he with rfl | h'
    · refine ⟨b, x.1, ?_⟩
      intro h0
      have := hdoc b (by simp)
      rw [h0] at this
      simp only [Spec.doc, List.headD_nil] at this
      omega
    · exact ih (fun lo hlo => hdoc lo (List.mem_cons_of_mem _ hlo)) e h'

/-- on a document every child of a valid intersection state is itself valid and on a document -/
theorem children_valid (hC : Lawful C VC WC) {s : State σ} {l : List Nat} (hV : V VC WC s l) (hne : l ≠ []) :
    ∀ c ∈ toList s, ∃ lc, VC c lc ∧ lc ≠ [] := by
  obtain ⟨ll, lr, los, hL, _, _, ha, rfl⟩ := hV
  have hll : ll ≠ [] := by
    intro h0; apply hne; rw [h0]; rfl
  obtain ⟨h1, h2, hRB, hOB, e1, e2⟩ := ha hll
  have hlt : Spec.doc ll < TERMINATED := by
    obtain ⟨a, m, rfl⟩ := List.exists_cons_of_ne_nil hll
    exact (hC.sorted hL).of_cons.1
  intro c hc
  simp only [toList, List.mem_cons] at hc
  rcases hc with rfl | rfl | hc
  · exact ⟨ll, hL, hll⟩
  · refine ⟨lr, hRB.1, ?_⟩
    intro h0
    rw [h0] at e1
    simp only [Spec.doc, List.headD_nil] at e1
    simp only [Spec.doc] at hlt
    omega
  · exact all2_VB_valid hlt hOB e2 c hc

/-- the score at the current document is the sum of the children's score functions at it -/
theorem score_value (hC : Lawful C VC WC) (fx : Fix) (g : σ → Nat → Nat)
    (hg : ∀ {c l}, VC c l → l ≠ [] → (C.score c).1 = g c (C.doc c)) {s : State σ} {l : List Nat} (hV : V VC WC s l)
    (hne : l ≠ []) :
    ((ds C fx).score s).1 = (((toList s).map g).map (fun f => f (Spec.doc l))).sum := by
  show (scoreAll C (toList s)).1 = _
  rw [scoreAll_fst g _ (fun c hc => by obtain ⟨lc, a1, a2⟩ := children_valid hC hV hne c hc; exact hg a1 a2), List.map_map]
  congr 1
  apply List.map_congr_left
  intro c hc
  simp only [Function.comp]
  rw [children_doc hC hV hne c hc]


/-! ### ghost data of the children (e.g. their score functions) is untouched by every move -/

/-- `g` is data of a child that none of its methods changes -/
structure Ghost {α : Type} (C : DS σ) (g : σ → α) : Prop where
  advance : ∀ c, g (C.advance c) = g c
  seek : ∀ t c, g (C.seek t c) = g c
  seekDanger : ∀ t c, g (C.seekDanger t c).2 = g c
  score : ∀ c, g (C.score c).2 = g c

variable {α : Type} {g : σ → α}

theorem seekAll_ghost (hG : Ghost C g) (cand : Nat) :
    ∀ es : List σ, (seekAll C cand es).2.map g = es.map g
  | [] => rfl
  | e :: es => by
    simp only [seekAll]
    split
    · simp only [List.map_cons, hG.seek]
    · simp only [List.map_cons, hG.seek, seekAll_ghost hG cand es]

theorem goLoop_ghost (hG : Ghost C g) :
    ∀ (n cand : Nat) (es : List σ), (goLoop C n cand es).2.map g = es.map g
  | 0, _, _ => rfl
  | n + 1, cand, es => by
    simp only [goLoop]
    have h := seekAll_ghost hG cand es
    revert h
    generalize seekAll C cand es = r
    rcases r with ⟨r1, es'⟩
    cases r1 with
    | none => intro h; exact h
    | some c' => intro h; simp only; rw [goLoop_ghost hG n c' es']; exact h

theorem dangerAll_ghost (hG : Ghost C g) (cand : Nat) :
    ∀ es : List σ, (dangerAll C cand es).2.map g = es.map g
  | [] => rfl
  | e :: es => by
    simp only [dangerAll]
    have h := hG.seekDanger cand e
    revert h
    generalize C.seekDanger cand e = r
    rcases r with ⟨r1, e'⟩
    cases r1 with
    | lower b => intro h; simp only [List.map_cons] at h ⊢; rw [h]
    | found => intro h; simp only [List.map_cons] at h ⊢; rw [h, dangerAll_ghost hG cand es]

theorem toList_ofList (dense : Bool) (dflt : State σ) :
    ∀ es : List σ, 2 ≤ es.length → toList (ofList dense dflt es) = es
  | [], h => by simp at h
  | [_], h => by simp at h
  | _ :: _ :: _, _ => rfl

theorem advLoop_ghost (hG : Ghost C g) :
    ∀ (n cand : Nat) (s : State σ), (toList (advLoop C n cand s)).map g = (toList s).map g
  | 0, _, _ => rfl
  | n + 1, cand, s => by
    simp only [advLoop]
    split
    · have hR := hG.seekDanger (C.doc (C.seek cand s.left)) s.right
      revert hR
      generalize C.seekDanger (C.doc (C.seek cand s.left)) s.right = r
      rcases r with ⟨r1, r'⟩
      cases r1 with
      | lower b =>
        intro hR
        simp only at hR ⊢
        rw [advLoop_ghost hG n b]
        simp only [toList, List.map_cons, hG.seek, hR]
      | found =>
        intro hR
        simp only at hR ⊢
        have hO := dangerAll_ghost hG (C.doc (C.seek cand s.left)) s.others
        revert hO
        generalize dangerAll C (C.doc (C.seek cand s.left)) s.others = q
        rcases q with ⟨q1, os'⟩
        cases q1 with
        | some b =>
          intro hO
          simp only at hO ⊢
          rw [advLoop_ghost hG n b]
          simp only [toList, List.map_cons, hG.seek, hR, hO]
        | none =>
          intro hO
          simp only at hO ⊢
          simp only [toList, List.map_cons, hG.seek, hR, hO]
    · simp only [toList, List.map_cons, hG.seek]

/-- `advance` leaves the children's ghost data alone -/
theorem advance_ghost (hG : Ghost C g) (s : State σ) :
    (toList (advance C s)).map g = (toList s).map g := advLoop_ghost hG _ _ s

/-- `seek` leaves the children's ghost data alone -/
theorem seek_ghost (hG : Ghost C g) (t : Nat) (s : State σ) :
    (toList (seek C t s)).map g = (toList s).map g := by
  simp only [seek, goToFirstDoc]
  have h := goLoop_ghost hG FUEL (maxDoc C (toList ({ s with left := C.seek t s.left } : State σ)))
    (toList ({ s with left := C.seek t s.left } : State σ))
  have hlen : 2 ≤ (goLoop C FUEL (maxDoc C (toList ({ s with left := C.seek t s.left } : State σ)))
      (toList ({ s with left := C.seek t s.left } : State σ))).2.length := by
    have := congrArg List.length h
    simp only [List.length_map] at this
    rw [this]; simp [toList]
  rw [toList_ofList _ _ _ hlen, h]
  simp only [toList, List.map_cons, hG.seek]

/-- `seek_danger` leaves the children's ghost data alone -/
theorem seekDanger_ghost (hG : Ghost C g) (t : Nat) (s : State σ) :
    (toList (seekDanger C t s).2).map g = (toList s).map g := by
  simp only [seekDanger]
  have hL := hG.seekDanger t s.left
  revert hL
  generalize C.seekDanger t s.left = r
  rcases r with ⟨r1, l'⟩
  cases r1 with
  | lower b => intro hL; simp only at hL ⊢; simp only [toList, List.map_cons, hL]
  | found =>
    intro hL
    simp only at hL ⊢
    have hR := hG.seekDanger t s.right
    revert hR
    generalize C.seekDanger t s.right = r
    rcases r with ⟨r1, r'⟩
    cases r1 with
    | lower b => intro hR; simp only at hR ⊢; simp only [toList, List.map_cons, hL, hR]
    | found =>
      intro hR
      simp only at hR ⊢
      have hO := dangerAll_ghost hG t s.others
      revert hO
      generalize dangerAll C t s.others = q
      rcases q with ⟨q1, os'⟩
      cases q1 with
      | some b => intro hO; simp only at hO ⊢; simp only [toList, List.map_cons, hL, hR, hO]
      | none => intro hO; simp only at hO ⊢; simp only [toList, List.map_cons, hL, hR, hO]


theorem scoreAll_ghost (hG : Ghost C g) : ∀ es : List σ, (scoreAll C es).2.map g = es.map g
  | [] => rfl
  | e :: es => by simp only [scoreAll, List.map_cons, hG.score, scoreAll_ghost hG es]

/-- `score` leaves the children's ghost data alone -/
theorem score_ghost (hG : Ghost C g) (fx : Fix) (s : State σ) :
    (toList ((ds C fx).score s).2).map g = (toList s).map g := by
  show (toList (ofList s.dense s (scoreAll C (toList s)).2)).map g = _
  have h := scoreAll_ghost hG (toList s)
  have hlen : 2 ≤ (scoreAll C (toList s)).2.length := by
    have := congrArg List.length h
    simp only [List.length_map] at this
    rw [this]; simp [toList]
  rw [toList_ofList _ _ _ hlen, h]

/-- the constant score of a `VecDocSet` leaf is ghost data -/
theorem loopSeek_vec_score (t : Nat) : ∀ (n : Nat) (c : Vec.State),
    (loopSeek Vec.doc Vec.advance t n c).score = c.score
  | 0, _ => rfl
  | n + 1, c => by
    simp only [loopSeek]
    split
    · rw [loopSeek_vec_score t n]; rfl
    · rfl

theorem vec_ghost : Ghost Vec.ds (fun c (_ : Nat) => c.score) where
  advance := fun _ => rfl
  seek := fun t c => by
    show (fun (_ : Nat) => (loopSeek Vec.doc Vec.advance t FUEL c).score) = _
    rw [loopSeek_vec_score]
  seekDanger := fun t c => by
    have key : (defaultSeekDanger Vec.doc (defaultSeek Vec.doc Vec.advance) t c).2.score = c.score := by
      unfold defaultSeekDanger
      by_cases h1 : t ≥ TERMINATED
      · simp only [h1, if_true]
      · simp only [h1, if_false]
        by_cases h2 : Vec.doc c < t
        · simp only [h2, if_true]
          split <;> exact loopSeek_vec_score t FUEL c
        · simp only [h2, if_false]
          split <;> rfl
    exact congrArg (fun (x : Nat) (_ : Nat) => x) key
  score := fun _ => rfl

end TantivyModel.DocSet.Inter
