import TantivyModel.Proofs.DocSet.Basic
import TantivyModel.Model.DocSet.Vec
/-!
The trait's default method bodies refine the specification cursor whenever `doc`/`advance`/`seek`
do (`lawful_ofCore`), and the generic program-equivalence theorem (`program_equiv`).
-/
namespace TantivyModel.DocSet

/-- the part of the contract that concerns the three overridden methods -/
structure Core0 (doc : σ → Nat) (adv : σ → σ) (V : σ → List Nat → Prop) : Prop where
  sorted : ∀ {s l}, V s l → Sorted l
  doc_eq : ∀ {s l}, V s l → doc s = Spec.doc l
  advance : ∀ {s l}, V s l → V (adv s) (Spec.advance l)

structure Core (doc : σ → Nat) (adv : σ → σ) (seek : Nat → σ → σ) (V : σ → List Nat → Prop) : Prop
    extends Core0 doc adv V where
  seek : ∀ {s l t}, V s l → doc s ≤ t → t ≤ TERMINATED → V (seek t s) (Spec.seek t l)

/-- danger zone of an implementation without one: a valid state that missed `t0` -/
def defaultW (V : σ → List Nat → Prop) : σ → Nat → List Nat → Prop :=
  fun s t0 l => ∃ l0, V s l0 ∧ t0 ∉ l0 ∧ l = Spec.seek t0 l0

theorem Spec.doc_ge_of_all {a : Nat} {m : List Nat} (h : ∀ x ∈ m, a ≤ x) (ha : a ≤ TERMINATED) :
    a ≤ Spec.doc m := by
  cases m with
  | nil => simpa [Spec.doc] using ha
  | cons b m => simpa [Spec.doc] using h b (by simp)

theorem Spec.doc_le_doc_seek {l : List Nat} (h : Sorted l) (t : Nat) :
    Spec.doc l ≤ Spec.doc (Spec.seek t l) := by
  cases l with
  | nil => simp [Spec.seek, Spec.doc]
  | cons a l =>
    obtain ⟨ha, hlt, _⟩ := h.of_cons
    simp only [Spec.doc, List.headD_cons]
    apply Spec.doc_ge_of_all _ (Nat.le_of_lt ha)
    intro x hx
    have := Spec.seek_ge t _ x hx
    rcases List.mem_cons.mp this with rfl | h1
    · exact Nat.le_refl _
    · exact Nat.le_of_lt (hlt x h1)

theorem Spec.doc_eq_term_iff {l : List Nat} (h : Sorted l) : Spec.doc l = TERMINATED ↔ l = [] := by
  cases l with
  | nil => simp [Spec.doc]
  | cons a l =>
    have := h.of_cons.1
    simp only [Spec.doc, List.headD_cons]
    constructor
    · intro h'; omega
    · intro h'; cases h'

theorem Spec.doc_mem {l : List Nat} (h : Spec.doc l < TERMINATED) : Spec.doc l ∈ l := by
  cases l with
  | nil => simp [Spec.doc] at h
  | cons a l => simp [Spec.doc]

theorem Spec.doc_seek_of_mem {l : List Nat} (h : Sorted l) {t : Nat} (ht : t ∈ l) :
    Spec.doc (Spec.seek t l) = t := by
  induction l with
  | nil => cases ht
  | cons a l ih =>
    obtain ⟨_, hlt, hs⟩ := h.of_cons
    simp only [Spec.seek, List.dropWhile_cons]
    split
    · rename_i hat
      have hat' : a < t := by simpa using hat
      rcases List.mem_cons.mp ht with rfl | h1
      · omega
      · exact ih hs h1
    · rename_i hat
      have hat' : t ≤ a := by simpa using hat
      simp only [Spec.doc, List.headD_cons]
      rcases List.mem_cons.mp ht with rfl | h1
      · rfl
      · have := hlt t h1; omega

section loops
variable {doc : σ → Nat} {adv : σ → σ} {seek : Nat → σ → σ} {V : σ → List Nat → Prop}

theorem loopSeek_law (hC : Core0 doc adv V) {t : Nat} (ht : t ≤ TERMINATED) :
    ∀ (fuel : Nat) {s : σ} {l : List Nat}, V s l → l.length ≤ fuel →
      V (loopSeek doc adv t fuel s) (Spec.seek t l) := by
  intro fuel
  induction fuel with
  | zero =>
    intro s l hV hl
    have : l = [] := List.eq_nil_of_length_eq_zero (Nat.le_zero.mp hl)
    subst this
    simpa [loopSeek, Spec.seek] using hV
  | succ n ih =>
    intro s l hV hl
    have hd := hC.doc_eq hV
    have hs := hC.sorted hV
    simp only [loopSeek]
    cases l with
    | nil =>
      have : ¬ doc s < t := by rw [hd]; simp only [Spec.doc, List.headD_nil]; omega
      simpa [this, Spec.seek] using hV
    | cons a l =>
      simp only [Spec.doc, List.headD_cons] at hd
      by_cases hat : a < t
      · have h1 : doc s < t := by omega
        simp only [h1, if_true]
        have h2 := ih (hC.advance hV) (by simpa [Spec.advance] using hl)
        simpa [Spec.seek, Spec.advance, List.dropWhile_cons, hat] using h2
      · have h1 : ¬ doc s < t := by omega
        simp only [h1, if_false]
        simpa [Spec.seek, List.dropWhile_cons, hat] using hV

theorem loopFill_law (hC : Core0 doc adv V) :
    ∀ (n : Nat) {s : σ} {l : List Nat}, V s l → l ≠ [] →
      (loopFill doc adv n s).1 = l.take n ∧ V (loopFill doc adv n s).2 (l.drop n) := by
  intro n
  induction n with
  | zero => intro s l hV _; simpa [loopFill] using hV
  | succ n ih =>
    intro s l hV hne
    cases l with
    | nil => exact absurd rfl hne
    | cons a l =>
      have hd := hC.doc_eq hV
      simp only [Spec.doc, List.headD_cons] at hd
      have hV' := hC.advance hV
      simp only [Spec.advance, List.tail_cons] at hV'
      have hs' := hC.sorted hV'
      simp only [loopFill]
      by_cases he : doc (adv s) = TERMINATED
      · have : l = [] := (Spec.doc_eq_term_iff hs').mp (by rw [← hC.doc_eq hV']; exact he)
        subst this
        simp [he, hd, hV']
      · have hne' : l ≠ [] := by
          intro h; subst h
          exact he (by rw [hC.doc_eq hV']; rfl)
        obtain ⟨h1, h2⟩ := ih hV' hne'
        simp [he, hd, h1, h2]

theorem loopCount_law (hC : Core0 doc adv V) :
    ∀ (fuel : Nat) {s : σ} {l : List Nat}, V s l → l.length ≤ fuel →
      (loopCount doc adv fuel s).1 = l.length := by
  intro fuel
  induction fuel with
  | zero =>
    intro s l _ hl
    have : l = [] := List.eq_nil_of_length_eq_zero (Nat.le_zero.mp hl)
    subst this; simp [loopCount]
  | succ n ih =>
    intro s l hV hl
    have hd := hC.doc_eq hV
    have hs := hC.sorted hV
    simp only [loopCount]
    cases l with
    | nil => simp [hd, Spec.doc]
    | cons a l =>
      have : doc s ≠ TERMINATED := by
        rw [hd]; simp only [Spec.doc, List.headD_cons]; have := hs.of_cons.1; omega
      simp only [this, if_false]
      have := ih (hC.advance hV) (by simpa [Spec.advance] using hl)
      simp only [Spec.advance, List.tail_cons] at this
      simp [this]

theorem loopBitset_law (hC : Core0 doc adv V) {hz : Nat} (hhz : hz ≤ TERMINATED) :
    ∀ (fuel : Nat) {s : σ} {l : List Nat}, V s l → l.length ≤ fuel →
      (loopBitset doc adv hz fuel s).1 = (l.takeWhile (· < hz), Spec.doc (l.dropWhile (· < hz)))
        ∧ V (loopBitset doc adv hz fuel s).2 (l.dropWhile (· < hz)) := by
  intro fuel
  induction fuel with
  | zero =>
    intro s l hV hl
    have : l = [] := List.eq_nil_of_length_eq_zero (Nat.le_zero.mp hl)
    subst this
    have hd := hC.doc_eq hV
    simp [loopBitset, hd, hV]
  | succ n ih =>
    intro s l hV hl
    have hd := hC.doc_eq hV
    have hs := hC.sorted hV
    simp only [loopBitset]
    cases l with
    | nil =>
      have h1 : hz ≤ doc s := by rw [hd]; simp only [Spec.doc, List.headD_nil]; omega
      simp only [ge_iff_le, h1, if_true]
      exact ⟨by simp [hd, Spec.doc], by simpa using hV⟩
    | cons a l =>
      simp only [Spec.doc, List.headD_cons] at hd
      by_cases hah : a < hz
      · have h1 : ¬ hz ≤ doc s := by omega
        simp only [ge_iff_le, h1, if_false]
        have hV' := hC.advance hV
        simp only [Spec.advance, List.tail_cons] at hV'
        have hs' := hC.sorted hV'
        by_cases he : doc (adv s) = TERMINATED
        · have : l = [] := (Spec.doc_eq_term_iff hs').mp (by rw [← hC.doc_eq hV']; exact he)
          subst this
          simp [he, hd, hah, hV', Spec.doc]
        · obtain ⟨h2, h3⟩ := ih hV' (by simpa [Spec.advance] using hl)
          simp [he, hd, hah, h2, h3, List.takeWhile_cons, List.dropWhile_cons]
      · have h1 : hz ≤ doc s := by omega
        simp only [ge_iff_le, h1, if_true]
        exact ⟨by simp [hd, hah, List.takeWhile_cons, List.dropWhile_cons, Spec.doc],
          by simpa [hah, List.dropWhile_cons] using hV⟩

/-- the default `seek_danger` (no danger zone): exact result, bound always exact -/
theorem defaultSeekDanger_law (hC : Core doc adv seek V) {s : σ} {l : List Nat} {t : Nat}
    (hV : V s l) (ht : t ≤ TERMINATED) :
    SDPost V (defaultW V) l t True (defaultSeekDanger doc seek t s) := by
  have hs := hC.sorted hV
  unfold defaultSeekDanger
  by_cases hT : t ≥ TERMINATED
  · have hte : t = TERMINATED := by omega
    simp only [hT, if_true, SDPost]
    refine ⟨?_, ⟨l, hV, ?_, rfl⟩, Or.inr hte, ht, fun _ => Spec.seek_head_ge ht⟩
    · intro h; have := hs.2 t h; omega
    · intro h; have := hs.2 t h; omega
  · simp only [hT, if_false]
    have hV' : V (if doc s < t then seek t s else s) (Spec.seek t l) := by
      by_cases h : doc s < t
      · simp only [h, if_true]; exact hC.seek hV (Nat.le_of_lt h) ht
      · simp only [h, if_false]
        rw [Spec.seek_of_le (by rw [← hC.doc_eq hV]; omega) hs]; exact hV
    generalize (if doc s < t then seek t s else s) = s' at hV'
    have hd' := hC.doc_eq hV'
    have hge : t ≤ Spec.doc (Spec.seek t l) := Spec.seek_head_ge ht
    by_cases hf : doc s' = t
    · simp only [hf, if_true, SDPost]
      refine ⟨?_, hV'⟩
      have : Spec.doc (Spec.seek t l) ∈ Spec.seek t l := Spec.doc_mem (by rw [← hd', hf]; omega)
      rw [← hd', hf] at this
      exact Spec.seek_ge t l t this
    · simp only [hf, if_false, SDPost]
      have hnm : t ∉ l := by
        intro h; exact hf (by rw [hd', Spec.doc_seek_of_mem hs h])
      refine ⟨hnm, ⟨Spec.seek t l, hV', ?_, (Spec.seek_seek (Nat.le_refl t)).symm⟩, Or.inl ?_, ?_, fun _ => ?_⟩
      · intro h; exact hnm (Spec.seek_ge t l t h)
      · rw [hd']; rw [hd'] at hf; omega
      · rw [hd']; exact Spec.doc_le (hs.seek t)
      · rw [hd']; exact Nat.le_refl _

theorem SDPost.weaken {W : σ → Nat → List Nat → Prop} {l : List Nat} {t : Nat} {p q : Prop}
    {r : SD × σ} (h : SDPost V W l t p r) (hq : q → p) : SDPost V W l t q r := by
  unfold SDPost at *
  rcases r with ⟨r1, s'⟩
  cases r1 with
  | found => exact h
  | lower b => exact ⟨h.1, h.2.1, h.2.2.1, h.2.2.2.1, fun x => h.2.2.2.2 (hq x)⟩

end loops

section defaults
variable {doc : σ → Nat} {adv : σ → σ} {seek : Nat → σ → σ} {V : σ → List Nat → Prop}

theorem defaultFillBuffer_law (hC : Core0 doc adv V) {s : σ} {l : List Nat} (hV : V s l) :
    (defaultFillBuffer doc adv s).1 = (Spec.fillBuffer l).1
      ∧ V (defaultFillBuffer doc adv s).2 (Spec.fillBuffer l).2 := by
  have hs := hC.sorted hV
  unfold defaultFillBuffer Spec.fillBuffer
  by_cases h : doc s = TERMINATED
  · have : l = [] := (Spec.doc_eq_term_iff hs).mp (by rw [← hC.doc_eq hV]; exact h)
    subst this
    simpa [h] using hV
  · have hne : l ≠ [] := by
      intro h'; subst h'; exact h (by rw [hC.doc_eq hV]; rfl)
    simpa [h] using loopFill_law hC BUFLEN hV hne

theorem defaultFillBitset_law (hC : Core doc adv seek V) {s : σ} {l : List Nat} {m : Nat}
    (hV : V s l) (hdm : doc s ≤ m) (hm : m + BLOCK_WINDOW ≤ TERMINATED) :
    (defaultFillBitset doc adv seek m s).1
        = ((Spec.fillBitset m l).1, Spec.doc (Spec.fillBitset m l).2)
      ∧ V (defaultFillBitset doc adv seek m s).2 (Spec.fillBitset m l).2 := by
  have hV' := hC.seek hV hdm (by omega : m ≤ TERMINATED)
  have hlen : (Spec.seek m l).length ≤ FUEL := by
    have := (hC.sorted hV').length_le; unfold FUEL; omega
  exact loopBitset_law hC.toCore0 hm FUEL hV' hlen

theorem defaultCount_law (hC : Core0 doc adv V) {s : σ} {l : List Nat} (hV : V s l) :
    (defaultCount doc adv s).1 = Spec.count l := by
  have hlen : l.length ≤ FUEL := by
    have := (hC.sorted hV).length_le; unfold FUEL; omega
  exact loopCount_law hC FUEL hV hlen

/-- after the default `count_including_deleted` the state is valid for the empty sequence -/
theorem loopCount_end (hC : Core0 doc adv V) :
    ∀ (fuel : Nat) {s : σ} {l : List Nat}, V s l → l.length ≤ fuel →
      V (loopCount doc adv fuel s).2 [] := by
  intro fuel
  induction fuel with
  | zero =>
    intro s l hV hl
    have : l = [] := List.eq_nil_of_length_eq_zero (Nat.le_zero.mp hl)
    subst this; simpa [loopCount] using hV
  | succ n ih =>
    intro s l hV hl
    have hd := hC.doc_eq hV
    have hs := hC.sorted hV
    simp only [loopCount]
    cases l with
    | nil => simpa [hd, Spec.doc] using hV
    | cons a l =>
      have : doc s ≠ TERMINATED := by
        rw [hd]; simp only [Spec.doc, List.headD_cons]; have := hs.of_cons.1; omega
      simp only [this, if_false]
      exact ih (hC.advance hV) (by simpa [Spec.advance] using hl)

theorem SDPost.map {τ : Type} {W : σ → Nat → List Nat → Prop} {V' : τ → List Nat → Prop}
    {W' : τ → Nat → List Nat → Prop} (f : σ → τ) (hV : ∀ x l, V x l → V' (f x) l)
    (hW : ∀ x t l, W x t l → W' (f x) t l) {l : List Nat} {t : Nat} {ub : Prop} {r : SD × σ}
    (h : SDPost V W l t ub r) : SDPost V' W' l t ub (r.1, f r.2) := by
  rcases r with ⟨r1, s'⟩
  cases r1 with
  | found => exact ⟨h.1, hV _ _ h.2⟩
  | lower b => exact ⟨h.1, hW _ _ _ h.2.1, h.2.2⟩

end defaults

/-- the danger-zone part of the contract for any implementation whose `seek_danger` is the trait
default -/
theorem default_danger_laws {doc : σ → Nat} {adv : σ → σ} {seek : Nat → σ → σ}
    {V : σ → List Nat → Prop} (hC : Core doc adv seek V) :
    (∀ {s t0 l}, defaultW V s t0 l → Sorted l ∧ ∀ x ∈ l, t0 < x)
    ∧ (∀ {s t0 l}, defaultW V s t0 l → doc s ≤ Spec.doc l)
    ∧ (∀ {s t0 l t}, defaultW V s t0 l → t0 ≤ t → doc s ≤ t → t ≤ TERMINATED →
        V (seek t s) (Spec.seek t l))
    ∧ (∀ {s l t}, V s l → t ≤ TERMINATED →
        SDPost V (defaultW V) l t True (defaultSeekDanger doc seek t s))
    ∧ (∀ {s t0 l t}, defaultW V s t0 l → t0 ≤ t → t ≤ TERMINATED →
        SDPost V (defaultW V) l t True (defaultSeekDanger doc seek t s)) := by
  refine ⟨?_, ?_, ?_, ?_, ?_⟩
  · rintro s t0 l ⟨l0, hV, hn, rfl⟩
    have hs := hC.sorted hV
    refine ⟨hs.seek t0, fun x hx => ?_⟩
    have := (Spec.mem_seek hs x).mp hx
    have hne : x ≠ t0 := by rintro rfl; exact hn this.1
    omega
  · rintro s t0 l ⟨l0, hV, _, rfl⟩
    rw [hC.doc_eq hV]
    exact Spec.doc_le_doc_seek (hC.sorted hV) t0
  · rintro s t0 l t ⟨l0, hV, _, rfl⟩ h0 hd ht
    rw [Spec.seek_seek h0]
    exact hC.seek hV hd ht
  · intro s l t hV ht
    exact defaultSeekDanger_law hC hV ht
  · rintro s t0 l t ⟨l0, hV, hn, rfl⟩ h0 ht
    have hs := hC.sorted hV
    have h := defaultSeekDanger_law hC hV ht
    revert h
    generalize defaultSeekDanger doc seek t s = r
    rcases r with ⟨r1, s'⟩
    cases r1 with
    | found =>
      simp only [SDPost]
      rintro ⟨h1, h2⟩
      exact ⟨(Spec.mem_seek hs t).mpr ⟨h1, h0⟩, by rw [Spec.seek_seek h0]; exact h2⟩
    | lower b =>
      simp only [SDPost]
      rintro ⟨h1, h2, h3, h4, h5⟩
      refine ⟨fun h => h1 (Spec.seek_ge _ _ _ h), ?_, h3, h4, fun _ => ?_⟩
      · rw [Spec.seek_seek h0]; exact h2
      · rw [Spec.seek_seek h0]; exact h5 trivial

/-- assemble `Lawful` for an implementation with the default `seek_danger` from its parts -/
theorem lawful_of_parts (D : DS σ) (V : σ → List Nat → Prop)
    (hC : Core D.doc D.advance D.seek V)
    (hsd : D.seekDanger = defaultSeekDanger D.doc D.seek)
    (hfb : ∀ {s l}, V s l →
      (D.fillBuffer s).1 = (Spec.fillBuffer l).1 ∧ V (D.fillBuffer s).2 (Spec.fillBuffer l).2)
    (hbs : ∀ {s l m}, V s l → D.doc s ≤ m → m + BLOCK_WINDOW ≤ TERMINATED →
      (D.fillBitset m s).1 = ((Spec.fillBitset m l).1, Spec.doc (Spec.fillBitset m l).2)
        ∧ V (D.fillBitset m s).2 (Spec.fillBitset m l).2)
    (hcount : ∀ {s l}, V s l → (D.count s).1 = Spec.count l) :
    Lawful D V (defaultW V) where
  sorted := hC.sorted
  doc_eq := hC.doc_eq
  advance := hC.advance
  seek := hC.seek
  fillBuffer := hfb
  fillBitset := hbs
  count := hcount
  wsorted := (default_danger_laws hC).1
  wdoc := (default_danger_laws hC).2.1
  wseek := (default_danger_laws hC).2.2.1
  sdV := by rw [hsd]; exact (default_danger_laws hC).2.2.2.1
  sdW := by rw [hsd]; exact (default_danger_laws hC).2.2.2.2

theorem lawful_ofCore (doc : σ → Nat) (adv : σ → σ) (seek : Nat → σ → σ) (score : σ → Nat × σ)
    (V : σ → List Nat → Prop) (hC : Core doc adv seek V) :
    Lawful (DS.ofCore doc adv seek score) V (defaultW V) :=
  lawful_of_parts (DS.ofCore doc adv seek score) V hC rfl
    (fun h => defaultFillBuffer_law hC.toCore0 h)
    (fun h hd hm => defaultFillBitset_law hC h hd hm)
    (fun h => defaultCount_law hC.toCore0 h)

/-! ## program equivalence -/

/-- simulation invariant between an implementation state and the specification state -/
def Inv (V : σ → List Nat → Prop) (W : σ → Nat → List Nat → Prop) (s : σ) (a : SpecState) : Prop :=
  (a.danger = none ∧ V s a.rest) ∨ (∃ t0, a.danger = some t0 ∧ W s t0 a.rest)

theorem step_equiv (D : DS σ) (V : σ → List Nat → Prop) (W : σ → Nat → List Nat → Prop)
    (hD : Lawful D V W) (op : Op) (s : σ) (a : SpecState) (hI : Inv V W s a)
    (hl : legalOp a op = true) :
    (implStep D s op).1 = (specStep a op).1 ∧
      (op ≠ .count → Inv V W (implStep D s op).2 (specStep a op).2) := by
  rcases a with ⟨rest, danger⟩
  cases op with
  | doc =>
    simp only [legalOp, Option.isNone_iff_eq_none] at hl
    subst hl
    rcases hI with ⟨_, hV⟩ | ⟨t0, h, _⟩
    · exact ⟨by simp [implStep, specStep, hD.doc_eq hV], fun _ => Or.inl ⟨rfl, hV⟩⟩
    · cases h
  | advance =>
    simp only [legalOp, Option.isNone_iff_eq_none] at hl
    subst hl
    rcases hI with ⟨_, hV⟩ | ⟨t0, h, _⟩
    · have := hD.advance hV
      exact ⟨by simp [implStep, specStep, hD.doc_eq this], fun _ => Or.inl ⟨rfl, this⟩⟩
    · cases h
  | seek t =>
    simp only [legalOp, Bool.and_eq_true, Option.isNone_iff_eq_none, decide_eq_true_eq] at hl
    obtain ⟨⟨h1, h2⟩, h3⟩ := hl
    subst h1
    rcases hI with ⟨_, hV⟩ | ⟨t0, h, _⟩
    · have := hD.seek hV (by rw [hD.doc_eq hV]; exact h2) h3
      exact ⟨by simp [implStep, specStep, hD.doc_eq this], fun _ => Or.inl ⟨rfl, this⟩⟩
    · cases h
  | fillBuffer =>
    simp only [legalOp, Option.isNone_iff_eq_none] at hl
    subst hl
    rcases hI with ⟨_, hV⟩ | ⟨t0, h, _⟩
    · have := hD.fillBuffer hV
      exact ⟨by simp [implStep, specStep, this.1], fun _ => Or.inl ⟨rfl, this.2⟩⟩
    · cases h
  | fillBitset m =>
    simp only [legalOp, Bool.and_eq_true, Option.isNone_iff_eq_none, decide_eq_true_eq] at hl
    obtain ⟨⟨h1, h2⟩, h3⟩ := hl
    subst h1
    rcases hI with ⟨_, hV⟩ | ⟨t0, h, _⟩
    · have := hD.fillBitset hV (by rw [hD.doc_eq hV]; exact h2) h3
      refine ⟨?_, fun _ => Or.inl ⟨rfl, this.2⟩⟩
      simp only [implStep, specStep]
      rw [this.1]
    · cases h
  | count =>
    simp only [legalOp, Option.isNone_iff_eq_none] at hl
    subst hl
    rcases hI with ⟨_, hV⟩ | ⟨t0, h, _⟩
    · exact ⟨by simp [implStep, specStep, hD.count hV], fun h => absurd rfl h⟩
    · cases h
  | seekDanger t =>
    simp only [legalOp, Bool.and_eq_true, decide_eq_true_eq] at hl
    obtain ⟨ht, hl2⟩ := hl
    have key : SDPost V W rest t False (D.seekDanger t s) := by
      rcases hI with ⟨h, hV⟩ | ⟨t0, h, hW⟩
      · exact (hD.sdV hV ht).weaken (fun x => x.elim)
      · simp only at h; subst h
        simp only [decide_eq_true_eq] at hl2
        exact (hD.sdW hW (Nat.le_of_lt hl2) ht).weaken (fun x => x.elim)
    simp only [implStep, specStep]
    revert key
    generalize D.seekDanger t s = r
    rcases r with ⟨r1, s'⟩
    cases r1 with
    | found =>
      simp only [SDPost]
      rintro ⟨h1, h2⟩
      simp only [h1, if_true]
      exact ⟨trivial, fun _ => Or.inl ⟨rfl, h2⟩⟩
    | lower b =>
      simp only [SDPost]
      rintro ⟨h1, h2, _⟩
      simp only [h1, if_false]
      exact ⟨trivial, fun _ => Or.inr ⟨t, rfl, h2⟩⟩

theorem program_equiv (D : DS σ) (V : σ → List Nat → Prop) (W : σ → Nat → List Nat → Prop)
    (hD : Lawful D V W) : ∀ (prog : List Op) (s : σ) (a : SpecState), Inv V W s a →
      legalProg a prog = true → implRun D s prog = specRun a prog := by
  intro prog
  induction prog with
  | nil => intros; rfl
  | cons op rest ih =>
    intro s a hI hl
    simp only [legalProg, Bool.and_eq_true] at hl
    obtain ⟨⟨h1, h2⟩, h3⟩ := hl
    obtain ⟨e1, e2⟩ := step_equiv D V W hD op s a hI h1
    simp only [implRun, specRun, e1]
    congr 1
    by_cases hc : op = .count
    · subst hc
      have : rest = [] := by simpa using h2
      subst this
      rfl
    · exact ih _ _ (e2 hc) h3

/-- programs that only read the current document and advance -/
def advOnly : List Op → Bool
  | [] => true
  | .doc :: r => advOnly r
  | .advance :: r => advOnly r
  | _ :: _ => false

/-- for an implementation whose `doc`/`advance` refine the cursor, every program of `doc` and
`advance` calls observes the specification's sequence (no other method is needed) -/
theorem core0_program_equiv (D : DS σ) (V : σ → List Nat → Prop)
    (hC : Core0 D.doc D.advance V) : ∀ (prog : List Op) (s : σ) (l : List Nat), V s l →
      advOnly prog = true → implRun D s prog = specRun ⟨l, none⟩ prog := by
  intro prog
  induction prog with
  | nil => intros; rfl
  | cons op rest ih =>
    intro s l hV hp
    cases op with
    | doc =>
      simp only [implRun, specRun, implStep, specStep, hC.doc_eq hV]
      congr 1
      exact ih s l hV (by simpa [advOnly] using hp)
    | advance =>
      have hV' := hC.advance hV
      simp only [implRun, specRun, implStep, specStep, hC.doc_eq hV']
      congr 1
      exact ih _ _ hV' (by simpa [advOnly] using hp)
    | seek t => simp [advOnly] at hp
    | seekDanger t => simp [advOnly] at hp
    | fillBuffer => simp [advOnly] at hp
    | fillBitset m => simp [advOnly] at hp
    | count => simp [advOnly] at hp

/-- programs of `doc`, `advance`, `seek` and `fill_bitset_block` calls -/
def coreOnly : List Op → Bool
  | [] => true
  | .doc :: r => coreOnly r
  | .advance :: r => coreOnly r
  | .seek _ :: r => coreOnly r
  | .fillBitset _ :: r => coreOnly r
  | _ :: _ => false

/-- for an implementation whose `doc`/`advance`/`seek` refine the cursor and whose
`fill_bitset_block` is the trait default, every legal program of those four calls observes the
specification's sequence -/
theorem core_program_equiv (D : DS σ) (V : σ → List Nat → Prop)
    (hC : Core D.doc D.advance D.seek V)
    (hbs : D.fillBitset = defaultFillBitset D.doc D.advance D.seek) :
    ∀ (prog : List Op) (s : σ) (l : List Nat), V s l → coreOnly prog = true →
      legalProg ⟨l, none⟩ prog = true → implRun D s prog = specRun ⟨l, none⟩ prog := by
  intro prog
  induction prog with
  | nil => intros; rfl
  | cons op rest ih =>
    intro s l hV hp hl
    simp only [legalProg, Bool.and_eq_true] at hl
    obtain ⟨⟨h1, _⟩, h3⟩ := hl
    cases op with
    | doc =>
      simp only [implRun, specRun, implStep, specStep, hC.doc_eq hV]
      congr 1
      exact ih s l hV (by simpa [coreOnly] using hp) h3
    | advance =>
      have hV' := hC.advance hV
      simp only [implRun, specRun, implStep, specStep, hC.doc_eq hV']
      congr 1
      exact ih _ _ hV' (by simpa [coreOnly] using hp) h3
    | seek t =>
      simp only [legalOp, Bool.and_eq_true, decide_eq_true_eq] at h1
      have hV' := hC.seek hV (by rw [hC.doc_eq hV]; exact h1.1.2) h1.2
      simp only [implRun, specRun, implStep, specStep, hC.doc_eq hV']
      congr 1
      exact ih _ _ hV' (by simpa [coreOnly] using hp) h3
    | fillBitset m =>
      simp only [legalOp, Bool.and_eq_true, decide_eq_true_eq] at h1
      have h := defaultFillBitset_law hC hV (by rw [hC.doc_eq hV]; exact h1.1.2) h1.2
      simp only [implRun, specRun, implStep, specStep, hbs]
      rw [h.1]
      congr 1
      exact ih _ _ h.2 (by simpa [coreOnly] using hp) h3
    | seekDanger t => simp [coreOnly] at hp
    | fillBuffer => simp [coreOnly] at hp
    | count => simp [coreOnly] at hp

/-! ## the vector leaf -/
namespace Vec

def V (s : State) (l : List Nat) : Prop := s.rest = l ∧ Sorted l

theorem core0 : Core0 doc advance V where
  sorted := fun h => h.2
  doc_eq := by rintro s l ⟨rfl, _⟩; rfl
  advance := by rintro s l ⟨rfl, hs⟩; exact ⟨rfl, hs.tail⟩

theorem core : Core doc advance (defaultSeek doc advance) V where
  toCore0 := core0
  seek := by
    intro s l t hV _ ht
    have hlen : l.length ≤ FUEL := by have := hV.2.length_le; unfold FUEL; omega
    exact loopSeek_law core0 ht FUEL hV hlen

end Vec

end TantivyModel.DocSet
