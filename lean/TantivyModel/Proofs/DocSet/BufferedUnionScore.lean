import TantivyModel.Proofs.DocSet.BufferedUnionFill
import TantivyModel.Proofs.DocSet.Construct
import TantivyModel.Proofs.DocSet.IntersectionScore
/-! score clause of the SUM buffered union -/
namespace TantivyModel.DocSet.BUnion

theorem getD_modify (a : Array Nat) (i j : Nat) (f : Nat → Nat) (hi : i < a.size) :
    (a.modify i f).getD j 0 = if j = i then f (a.getD i 0) else a.getD j 0 := by
  simp only [Array.getD_eq_getD_getElem?, Array.getElem?_modify]
  by_cases h : j = i
  · subst h; simp [hi]
  · have : ¬ i = j := fun h' => h h'.symm
    simp [h, this]

theorem getD_setIfInBounds (a : Array Nat) (i j v : Nat) :
    (a.setIfInBounds i v).getD j 0 = if j = i ∧ i < a.size then v else a.getD j 0 := by
  simp only [Array.getD_eq_getD_getElem?, Array.getElem?_setIfInBounds]
  by_cases h : i = j
  · subst h
    by_cases hs : i < a.size
    · simp [hs]
    · simp [hs]
  · have : ¬ j = i := fun h' => h h'.symm
    simp [h, this]

theorem getD_replicate (n j : Nat) : (Array.replicate n 0).getD j 0 = 0 := by
  simp only [Array.getD_eq_getD_getElem?, Array.getElem?_replicate]
  split <;> rfl

variable {σ : Type} {C : DS σ} {VC : σ → List Nat → Prop} {WC : σ → Nat → List Nat → Prop}
  {g : σ → Nat → Nat}

/-- a state is valid for at most one list -/
theorem valid_unique (hC : Lawful C VC WC) : ∀ (n : Nat) {c : σ} {l l' : List Nat}, l.length ≤ n →
    VC c l → VC c l' → l = l' := by
  intro n
  induction n with
  | zero =>
    intro c l l' hn h h'
    have hl : l = [] := List.length_eq_zero_iff.mp (by omega)
    subst hl
    have hd : C.doc c = TERMINATED := by rw [hC.doc_eq h]; rfl
    exact ((Spec.doc_eq_term_iff (hC.sorted h')).mp (by rw [← hC.doc_eq h']; exact hd)).symm
  | succ n ih =>
    intro c l l' hn h h'
    cases l with
    | nil =>
      have hd : C.doc c = TERMINATED := by rw [hC.doc_eq h]; rfl
      exact ((Spec.doc_eq_term_iff (hC.sorted h')).mp (by rw [← hC.doc_eq h']; exact hd)).symm
    | cons a t =>
      have hd : C.doc c = a := by rw [hC.doc_eq h]; rfl
      have haT := (hC.sorted h).of_cons.1
      cases l' with
      | nil =>
        have : C.doc c = TERMINATED := by rw [hC.doc_eq h']; rfl
        omega
      | cons a' t' =>
        have hd' : C.doc c = a' := by rw [hC.doc_eq h']; rfl
        have e : a = a' := by omega
        subst e
        have := ih (c := C.advance c) (l := t) (l' := t') (by simp at hn; omega) (hC.advance h) (hC.advance h')
        rw [this]

theorem all2_unique (hC : Lawful C VC WC) {cs : List σ} {ls ls' : List (List Nat)} (h : All2 VC cs ls)
    (h' : All2 VC cs ls') : ls = ls' := by
  induction h generalizing ls' with
  | nil => cases h'; rfl
  | cons x _ ih =>
    cases h' with
    | cons x' h'' => rw [valid_unique hC _ (Nat.le_refl _) x x', ih h'']

/-- sum of the score functions of the children whose list holds `x` -/
def gsum (g : σ → Nat → Nat) : List σ → List (List Nat) → Nat → Nat
  | c :: cs, li :: ls, x => (if x ∈ li then g c x else 0) + gsum g cs ls x
  | _, _, _ => 0

/-- what `refill` does to the score slots with one child -/
theorem drain_scores (hC : Lawful C VC WC) (hscore : ∀ {c l}, VC c l → VC (C.score c).2 l)
    (hG : Inter.Ghost C g) (hg : ∀ {c l}, VC c l → l ≠ [] → (C.score c).1 = g c (C.doc c)) {H m : Nat} :
    ∀ (fuel : Nat) {c : σ} {li w : List Nat} {sc : Array Nat}, VC c li → li ≠ [] → (∀ x ∈ li, m ≤ x) →
      (li.takeWhile (· < m + H)).length + 1 ≤ fuel → sc.size = H →
      (drain C H m true fuel c w sc).2.2.size = H
      ∧ (∀ δ, (drain C H m true fuel c w sc).2.2.getD δ 0
            = sc.getD δ 0 + (if m + δ ∈ li.takeWhile (· < m + H) then g c (m + δ) else 0))
      ∧ (∀ c', (drain C H m true fuel c w sc).1 = some c' → g c' = g c) := by
  intro fuel
  induction fuel with
  | zero => intro c li w sc _ _ _ hf; omega
  | succ n ih =>
    intro c li w sc hV hne hge hf hsz
    obtain ⟨a, rest, rfl⟩ := List.exists_cons_of_ne_nil hne
    have hd : C.doc c = a := by rw [hC.doc_eq hV]; rfl
    have hs := hC.sorted hV
    have ham : m ≤ a := hge a (by simp)
    simp only [drain, refillStop_eq, hd]
    by_cases hst : m + H ≤ a
    · have hna : ¬ a < m + H := by omega
      simp only [hst, decide_true, if_true, List.takeWhile_cons, hna, decide_false]
      refine ⟨hsz, fun δ => by simp, fun c' hc' => by simp at hc'; rw [← hc']⟩
    · have hlt : a < m + H := by omega
      simp only [hst, decide_false, List.takeWhile_cons, hlt, decide_true, if_true,
        Bool.false_eq_true, ↓reduceIte]
      have hV2 := hC.advance (hscore hV)
      simp only [Spec.advance, List.tail_cons] at hV2
      have hs2 := hC.sorted hV2
      have hd2 := hC.doc_eq hV2
      have hg2 : g (C.advance (C.score c).2) = g c := by rw [hG.advance, hG.score]
      have hsc1 : (C.score c).1 = g c a := by rw [hg hV (List.cons_ne_nil _ _), hd]
      have hsz' : (sc.modify (a - m) (· + (C.score c).1)).size = H := by simp [hsz]
      have hget : ∀ δ, (sc.modify (a - m) (· + (C.score c).1)).getD δ 0
          = sc.getD δ 0 + (if m + δ = a then g c a else 0) := by
        intro δ
        rw [getD_modify _ _ _ _ (by omega), hsc1]
        by_cases h : δ = a - m
        · subst h
          have e : m + (a - m) = a := by omega
          rw [if_pos rfl, if_pos e]
        · have e : m + δ ≠ a := by omega
          rw [if_neg h, if_neg e]; rfl
      have hanr : ∀ x ∈ rest.takeWhile (· < m + H), x ≠ a := by
        intro x hx
        have := hs.of_cons.2.1 x ((List.takeWhile_sublist _).subset hx)
        omega
      by_cases hT : C.doc (C.advance (C.score c).2) = TERMINATED
      · have hnil : rest = [] := (Spec.doc_eq_term_iff hs2).mp (by rw [← hd2]; exact hT)
        simp only [hT, if_true]
        subst hnil
        refine ⟨hsz', fun δ => ?_, fun c' hc' => by simp at hc'⟩
        rw [hget δ]
        simp only [List.takeWhile_nil, List.mem_cons, List.not_mem_nil, or_false]
        by_cases h : m + δ = a
        · rw [if_pos h, if_pos h, h]
        · rw [if_neg h, if_neg h]
      · simp only [hT, if_false]
        have hne2 : rest ≠ [] := by
          intro h0; rw [h0] at hd2; exact hT hd2
        simp only [List.takeWhile_cons, hlt, decide_true, if_true, List.length_cons] at hf
        obtain ⟨i1, i2, i3⟩ := ih (w := insertDelta (a - m) w) (sc := sc.modify (a - m) (· + (C.score c).1))
          hV2 hne2 (fun x hx => hge x (List.mem_cons_of_mem _ hx)) (by omega) hsz'
        refine ⟨i1, fun δ => ?_, fun c' hc' => by rw [i3 c' hc', hg2]⟩
        rw [i2 δ, hget δ, hg2]
        by_cases h : m + δ = a
        · have hn' : a ∉ rest.takeWhile (· < m + H) := fun hx => hanr _ hx rfl
          rw [h]
          simp only [if_true, List.mem_cons, true_or, hn', if_false, Nat.add_zero]
        · simp only [h, if_false, Nat.add_zero, List.mem_cons, false_or]

theorem gsum_cons (c : σ) (cs : List σ) (li : List Nat) (ls : List (List Nat)) (x : Nat) :
    gsum g (c :: cs) (li :: ls) x = (if x ∈ li then g c x else 0) + gsum g cs ls x := rfl

theorem gsum_zero {x : Nat} : ∀ (cs : List σ) (ls : List (List Nat)), (∀ li ∈ ls, x ∉ li) → gsum g cs ls x = 0
  | [], _, _ => by simp [gsum]
  | _ :: _, [], _ => by simp [gsum]
  | c :: cs, li :: ls, h => by
    rw [gsum_cons, if_neg (h li (by simp)), gsum_zero cs ls (fun l hl => h l (List.mem_cons_of_mem _ hl))]

theorem getD_oob (a : Array Nat) (j : Nat) (h : a.size ≤ j) : a.getD j 0 = 0 := by
  simp only [Array.getD_eq_getD_getElem?]
  rw [Array.getElem?_eq_none h]; rfl

theorem clearScores_size (sc : Array Nat) (lo hi : Nat) : (clearScores sc lo hi).size = sc.size := by
  unfold clearScores
  generalize List.range (hi - lo) = r
  induction r generalizing sc with
  | nil => rfl
  | cons i r ih => simp only [List.foldl_cons]; rw [ih]; simp

theorem clearScores_getD (sc : Array Nat) (lo hi j : Nat) :
    (clearScores sc lo hi).getD j 0 = if lo ≤ j ∧ j < hi then 0 else sc.getD j 0 := by
  unfold clearScores
  have key : ∀ (r : List Nat) (sc : Array Nat),
      (r.foldl (fun a i => a.setIfInBounds (lo + i) 0) sc).getD j 0
        = if (∃ i ∈ r, j = lo + i) then 0 else sc.getD j 0 := by
    intro r
    induction r with
    | nil => intro sc; simp
    | cons i r ih =>
      intro sc
      simp only [List.foldl_cons]
      rw [ih, getD_setIfInBounds]
      by_cases h1 : ∃ i' ∈ r, j = lo + i'
      · have : ∃ i' ∈ i :: r, j = lo + i' := by
          obtain ⟨i', hi', e⟩ := h1; exact ⟨i', List.mem_cons_of_mem _ hi', e⟩
        rw [if_pos h1, if_pos this]
      · rw [if_neg h1]
        by_cases h2 : j = lo + i
        · have : ∃ i' ∈ i :: r, j = lo + i' := ⟨i, by simp, h2⟩
          rw [if_pos this]
          by_cases h3 : lo + i < sc.size
          · rw [if_pos ⟨h2, h3⟩]
          · rw [if_neg (fun h => h3 h.2)]
            exact getD_oob _ _ (by omega)
        · have : ¬ ∃ i' ∈ i :: r, j = lo + i' := by
            rintro ⟨i', hi', e⟩
            rcases List.mem_cons.mp hi' with rfl | h'
            · exact h2 e
            · exact h1 ⟨i', h', e⟩
          rw [if_neg this, if_neg (fun h => h2 h.1)]
  rw [key]
  by_cases h : lo ≤ j ∧ j < hi
  · rw [if_pos h, if_pos ⟨j - lo, List.mem_range.mpr (by omega), by omega⟩]
  · rw [if_neg h, if_neg]
    rintro ⟨i, hi', e⟩
    have := List.mem_range.mp hi'
    exact h ⟨by omega, by omega⟩

/-- what `refill`'s pass over all children does to the score slots, and to the remaining children -/
theorem refillAll_scores (hC : Lawful C VC WC) (hscore : ∀ {c l}, VC c l → VC (C.score c).2 l)
    (hG : Inter.Ghost C g) (hg : ∀ {c l}, VC c l → l ≠ [] → (C.score c).1 = g c (C.doc c)) {H m : Nat} :
    ∀ {cs : List σ} {ls : List (List Nat)}, All2 VC cs ls →
      (∀ li ∈ ls, li ≠ [] ∧ ∀ x ∈ li, m ≤ x) →
      ∀ {w : List Nat} {sc : Array Nat}, w.Pairwise (· < ·) → sc.size = H →
      (refillAll C H m true cs w sc).2.2.size = H
      ∧ (∀ δ, δ < H → (refillAll C H m true cs w sc).2.2.getD δ 0 = sc.getD δ 0 + gsum g cs ls (m + δ))
      ∧ (∀ ls', All2 VC (refillAll C H m true cs w sc).1 ls' → ∀ x, m + H ≤ x →
            gsum g (refillAll C H m true cs w sc).1 ls' x = gsum g cs ls x) := by
  intro cs ls h
  induction h with
  | nil =>
    intro _ w sc _ hsz
    refine ⟨hsz, fun δ _ => by simp [refillAll, gsum], fun ls' h' x _ => ?_⟩
    simp only [refillAll] at h' ⊢
    cases h'; rfl
  | @cons c li cs ls h1 h2 ih =>
    intro hls w sc hw hsz
    have hli := hls li (by simp)
    have hs := hC.sorted h1
    have hfuel : (li.takeWhile (· < m + H)).length + 1 ≤ H + 1 := by
      have := takeWhile_length_le hs hli.2 (H := H); omega
    obtain ⟨d1, d2, _⟩ := drain_law hC hscore (H := H) (m := m) (sum := true) (H + 1) (w := w) (sc := sc) h1 hli.1 hfuel hw
    obtain ⟨e1, e2, e3⟩ := drain_scores hC hscore hG hg (H := H) (m := m) (H + 1) (w := w) (sc := sc) h1 hli.1 hli.2 hfuel hsz
    simp only [refillAll]
    revert d1 d2 e1 e2 e3
    generalize drain C H m true (H + 1) c w sc = r
    rcases r with ⟨r1, w', sc'⟩
    intro d1 d2 e1 e2 e3
    simp only at d1 d2 e1 e2 e3
    obtain ⟨i1, i2, i3⟩ := ih (fun l hl => hls l (List.mem_cons_of_mem _ hl)) (w := w') (sc := sc') d2 e1
    have hslot : ∀ δ, δ < H → sc'.getD δ 0 + gsum g cs ls (m + δ) = sc.getD δ 0 + gsum g (c :: cs) (li :: ls) (m + δ) := by
      intro δ hδ
      rw [e2 δ, gsum_cons]
      have : m + δ ∈ li.takeWhile (· < m + H) ↔ m + δ ∈ li := by
        rw [mem_takeWhile_sorted hs]; constructor
        · exact fun h => h.1
        · exact fun h => ⟨h, by omega⟩
      by_cases hx : m + δ ∈ li
      · rw [if_pos (this.mpr hx), if_pos hx]; omega
      · rw [if_neg (fun h => hx (this.mp h)), if_neg hx]; omega
    cases r1 with
    | none =>
      simp only at d1 ⊢
      refine ⟨i1, fun δ hδ => by rw [i2 δ hδ, hslot δ hδ], fun ls' h' x hx => ?_⟩
      rw [i3 ls' h' x hx, gsum_cons]
      have : x ∉ li := by
        intro hxl
        have : x ∈ li.dropWhile (· < m + H) := (Spec.mem_seek hs x).mpr ⟨hxl, hx⟩
        rw [d1] at this; cases this
      rw [if_neg this]; omega
    | some c' =>
      simp only at d1 ⊢
      refine ⟨i1, fun δ hδ => by rw [i2 δ hδ, hslot δ hδ], fun ls' h' x hx => ?_⟩
      cases h' with
      | @cons _ l0 _ ls'' x0 h'' =>
        have hl0 : l0 = li.dropWhile (· < m + H) := valid_unique hC _ (Nat.le_refl _) x0 d1.1
        rw [gsum_cons, gsum_cons, i3 ls'' h'' x hx, e3 c' rfl, hl0]
        have : x ∈ li.dropWhile (· < m + H) ↔ x ∈ li := by
          have := Spec.mem_seek (t := m + H) hs x
          simp only [Spec.seek] at this
          rw [this]
          constructor
          · exact fun h => h.1
          · exact fun h => ⟨h, hx⟩
        by_cases hxl : x ∈ li
        · rw [if_pos (this.mpr hxl), if_pos hxl]
        · rw [if_neg (fun h => hxl (this.mp h)), if_neg hxl]

/-- score invariant of the SUM union relative to the total score function `G`: buffered documents
hold their complete sums, every other slot is zero, and for the documents still in the children `G`
is the sum of the score functions of the children holding them -/
def SI0 (g : σ → Nat → Nat) (G : Nat → Nat) (VC : σ → List Nat → Prop) (H : Nat) (s : State σ) : Prop :=
  s.sum = true ∧ s.scores.size = H
    ∧ (∀ δ ∈ s.window, s.scores.getD δ 0 = G (s.ws + δ))
    ∧ (∀ δ, δ ∉ s.window → s.scores.getD δ 0 = 0)
    ∧ (∀ ls, All2 VC s.docsets ls → ∀ x, (∃ li ∈ ls, x ∈ li) → G x = gsum g s.docsets ls x)

def SI (g : σ → Nat → Nat) (G : Nat → Nat) (VC : σ → List Nat → Prop) (H : Nat) (s : State σ) : Prop :=
  SI0 g G VC H s ∧ (s.doc < TERMINATED → s.score = G s.doc)

theorem advBuf_pop_scores {H : Nat} {δ : Nat} {w : List Nat} :
    ∀ (k : Nat) (s : State σ), s.window = δ :: w → (δ :: w).Pairwise (· < ·) →
      (∀ x ∈ (δ :: w), s.bucketIdx ≤ x / 64) → δ / 64 < NB H → s.bucketIdx + k = δ / 64 →
      ∀ fuel, k + 1 ≤ fuel →
      (advBuf H fuel s).2.score = (if s.sum then s.scores.getD δ 0 else 1)
        ∧ (advBuf H fuel s).2.scores = (if s.sum then s.scores.setIfInBounds δ 0 else s.scores) := by
  intro k
  induction k with
  | zero =>
    intro s hw hp hb hnb hk fuel hf
    cases fuel with
    | zero => omega
    | succ n =>
      have hbi : s.bucketIdx = δ / 64 := by omega
      simp only [advBuf, hbi, hnb, if_true, hw, popBucket_cons rfl]
      refine ⟨?_, ?_⟩ <;> trivial
  | succ k ih =>
    intro s hw hp hb hnb hk fuel hf
    cases fuel with
    | zero => omega
    | succ n =>
      have hlt : s.bucketIdx < NB H := by omega
      have hnone : popBucket s.bucketIdx s.window = none := by
        rw [hw]
        apply popBucket_none
        intro x hx
        have hp' := List.pairwise_cons.mp hp
        rcases List.mem_cons.mp hx with rfl | hx'
        · omega
        · have := hp'.1 x hx'
          have : δ / 64 ≤ x / 64 := Nat.div_le_div_right (Nat.le_of_lt this)
          omega
      simp only [advBuf, hlt, if_true, hnone]
      exact ih { s with bucketIdx := s.bucketIdx + 1 } hw hp
        (fun x hx => by
          have hp' := List.pairwise_cons.mp hp
          show s.bucketIdx + 1 ≤ x / 64
          rcases List.mem_cons.mp hx with rfl | hx'
          · omega
          · have := hp'.1 x hx'
            have : δ / 64 ≤ x / 64 := Nat.div_le_div_right (Nat.le_of_lt this)
            omega) hnb (by show s.bucketIdx + 1 + k = δ / 64; omega) n (by omega)

/-- `advance_buffered` popping the smallest buffered delta reads the document's complete sum and
clears its slot -/
theorem pop_SI {G : Nat → Nat} {H : Nat} (hH : 64 ∣ H) (hH0 : 0 < H) {s : State σ} {δ : Nat} {w : List Nat}
    (hS : SI0 g G VC H s) (hw : s.window = δ :: w) (hp : s.window.Pairwise (· < ·))
    (hb : ∀ x ∈ s.window, x < H ∧ s.bucketIdx ≤ x / 64) :
    ∃ s', advBuf H (NB H + 1) s = (true, s') ∧ SI g G VC H s' := by
  obtain ⟨h1, h2, h3, h4, h5⟩ := hS
  have hδ : δ ∈ s.window := by rw [hw]; simp
  have hδH := (hb δ hδ).1
  have hnb : δ / 64 < NB H := by
    unfold NB
    obtain ⟨q, rfl⟩ := hH
    rw [Nat.mul_div_cancel_left _ (by decide : 0 < 64)]
    exact Nat.div_lt_of_lt_mul hδH
  have hbk := (hb δ hδ).2
  obtain ⟨s', f1, f2, f3, f4, f5, f6, f7⟩ := advBuf_pop (H := H) (δ := δ) (w := w) (δ / 64 - s.bucketIdx) s hw
    (hw ▸ hp) (fun x hx => (hb x (hw ▸ hx)).2) hnb (by omega) (NB H + 1) (by omega)
  obtain ⟨g1, g2⟩ := advBuf_pop_scores (H := H) (δ := δ) (w := w) (δ / 64 - s.bucketIdx) s hw
    (hw ▸ hp) (fun x hx => (hb x (hw ▸ hx)).2) hnb (by omega) (NB H + 1) (by omega)
  rw [f1] at g1 g2
  simp only [h1, if_true] at g1 g2
  have hp' := List.pairwise_cons.mp (hw ▸ hp)
  refine ⟨s', f1, ⟨by rw [f7]; exact h1, by rw [g2]; simpa using h2, ?_, ?_, ?_⟩, ?_⟩
  · intro δ' hδ'
    rw [f2] at hδ'
    have hne : δ' ≠ δ := by have := hp'.1 δ' hδ'; omega
    rw [g2, getD_setIfInBounds, if_neg (fun h => hne h.1), f5]
    exact h3 δ' (by rw [hw]; exact List.mem_cons_of_mem _ hδ')
  · intro δ' hδ'
    rw [f2] at hδ'
    rw [g2, getD_setIfInBounds]
    by_cases he : δ' = δ
    · rw [if_pos ⟨he, by omega⟩]
    · rw [if_neg (fun h => he h.1)]
      apply h4
      rw [hw]
      intro hm
      rcases List.mem_cons.mp hm with h | h
      · exact he h
      · exact hδ' h
  · rw [f6]; exact h5
  · intro _
    rw [g1, f3]
    exact h3 δ hδ

/-- `refill` on an empty window (all slots zero) followed by `advance_buffered` -/
theorem refill_pop_scores (hC : Lawful C VC WC) (hscore : ∀ {c l}, VC c l → VC (C.score c).2 l)
    (hG : Inter.Ghost C g) (hg : ∀ {c l}, VC c l → l ≠ [] → (C.score c).1 = g c (C.doc c)) {G : Nat → Nat}
    {H : Nat} (hH : 64 ∣ H) (hH0 : 0 < H) {s' : State σ} {ls : List (List Nat)} {U : List Nat}
    (e2 : s'.window = []) (h2 : All2 VC s'.docsets ls) (hne : ∀ li ∈ ls, li ≠ [])
    (hU : SimpleUnion.IsUnion U ls) (hS : SI0 g G VC H s') :
    match refill C H s' with
      | none => True
      | some s'' => ∃ s3, advBuf H (NB H + 1) s'' = (true, s3) ∧ SI g G VC H s3 := by
    obtain ⟨k1, k2, k3, k4, k5⟩ := hS
    unfold refill
    rw [all2_isEmpty h2]
    cases ls with
    | nil => simp only [List.isEmpty_nil, if_true]
    | cons li0 ls0 =>
      simp only [List.isEmpty_cons, Bool.false_eq_true, if_false]
      have hUs := hU.1
      have hss := SimpleUnion.all2_sorted hC h2
      have hmdoc : minDoc C s'.docsets = Spec.doc U := by
        rw [minDoc_eq hC h2, SimpleUnion.doc_union hU hss]
      have hUne : U ≠ [] := by
        obtain ⟨a, m, ham⟩ := List.exists_cons_of_ne_nil (hne li0 (by simp))
        intro h0
        have : a ∈ U := (hU.2 a).mpr ⟨li0, by simp, by rw [ham]; simp⟩
        rw [h0] at this; cases this
      obtain ⟨m, Ut, hUm⟩ := List.exists_cons_of_ne_nil hUne
      have hm : Spec.doc U = m := by rw [hUm]; rfl
      have hmin : ∀ li ∈ (li0 :: ls0), li ≠ [] ∧ ∀ x ∈ li, m ≤ x := by
        intro li hli
        refine ⟨hne li hli, fun x hx => ?_⟩
        have : x ∈ U := (hU.2 x).mpr ⟨li, hli, hx⟩
        rw [← hm]; exact Exclude.all_ge_doc hUs x this
      obtain ⟨ls', r1, r2, r3, r4, r5⟩ := refillAll_law hC hscore (H := H) (m := m) (sum := s'.sum) h2 hmin
        (w := s'.window) (sc := s'.scores) (by rw [e2]; exact List.Pairwise.nil)
      rw [k1] at r1 r4 r5
      obtain ⟨q1, q2, q3⟩ := refillAll_scores hC hscore hG hg (H := H) (m := m) h2 hmin
        (w := s'.window) (sc := s'.scores) (by rw [e2]; exact List.Pairwise.nil) k2
      rw [hmdoc, hm, k1]
      generalize hrw : (refillAll C H m true s'.docsets s'.window s'.scores) = r at r1 r4 r5 q1 q2 q3
      rcases r with ⟨cs', w', sc'⟩
      simp only at r1 r4 r5 q1 q2 q3
      have hwmem : ∀ δ, δ ∈ w' ↔ ∃ li ∈ li0 :: ls0, ∃ x ∈ li, x < m + H ∧ δ = x - m := by
        intro δ
        rw [r5 δ, e2]
        simp only [List.not_mem_nil, false_or]
      have h0mem : 0 ∈ w' := by
        obtain ⟨li, hli, hx⟩ := (hU.2 m).mp (by rw [hUm]; simp)
        exact (hwmem 0).mpr ⟨li, hli, m, hx, by omega, by omega⟩
      obtain ⟨d0, w'', hw'⟩ := List.exists_cons_of_ne_nil (List.ne_nil_of_mem h0mem)
      have hall0 : ∀ δ, s'.scores.getD δ 0 = 0 := fun δ => k4 δ (by rw [e2]; simp)
      have hS'' : SI0 g G VC H ({ s' with ws := m, bucketIdx := 0, doc := m, docsets := cs', window := w', scores := sc', sum := true } : State σ) := by
        refine ⟨rfl, q1, ?_, ?_, ?_⟩
        · intro δ hδ
          obtain ⟨li, hli, x, hx, hlt, rfl⟩ := (hwmem δ).mp hδ
          have hmx := (hmin li hli).2 x hx
          show sc'.getD (x - m) 0 = G (m + (x - m))
          rw [q2 (x - m) (by omega), hall0, Nat.zero_add]
          have e : m + (x - m) = x := by omega
          rw [e]
          exact (k5 _ h2 x ⟨li, hli, hx⟩).symm
        · intro δ hδ
          show sc'.getD δ 0 = 0
          by_cases hlt : δ < H
          · rw [q2 δ hlt, hall0, Nat.zero_add]
            apply gsum_zero
            intro li hli hx
            exact hδ ((hwmem δ).mpr ⟨li, hli, m + δ, hx, by omega, by omega⟩)
          · exact getD_oob _ _ (by omega)
        · intro ls2 h2' x hx
          obtain ⟨li2, hli2, hx2⟩ := hx
          have e := all2_unique hC h2' r1
          subst e
          obtain ⟨li, hli, hxl, hge⟩ := (r3 x).mp ⟨li2, hli2, hx2⟩
          show G x = gsum g cs' ls2 x
          rw [q3 ls2 r1 x hge]
          exact k5 _ h2 x ⟨li, hli, hxl⟩
      exact pop_SI hH hH0 hS'' hw' r4 (fun x hx => by
        obtain ⟨li, hli, y, hy, hlt, rfl⟩ := (hwmem x).mp hx
        have := (hmin li hli).2 y hy
        exact ⟨by omega, Nat.zero_le _⟩)

theorem SI0.congr {G : Nat → Nat} {H : Nat} {s s1 : State σ} (hS : SI0 g G VC H s) (e1 : s1.sum = s.sum)
    (e2 : s1.scores = s.scores) (e3 : s1.window = s.window) (e4 : s1.ws = s.ws) (e5 : s1.docsets = s.docsets) :
    SI0 g G VC H s1 := by
  obtain ⟨k1, k2, k3, k4, k5⟩ := hS
  refine ⟨by rw [e1]; exact k1, by rw [e2]; exact k2, ?_, ?_, ?_⟩
  · intro δ hδ; rw [e2, e4]; exact k3 δ (by rw [← e3]; exact hδ)
  · intro δ hδ; rw [e2]; exact k4 δ (by rw [← e3]; exact hδ)
  · rw [e5]; exact k5

/-- `advance` keeps the score invariant -/
theorem advance_SI (hC : Lawful C VC WC) (hscore : ∀ {c l}, VC c l → VC (C.score c).2 l)
    (hG : Inter.Ghost C g) (hg : ∀ {c l}, VC c l → l ≠ [] → (C.score c).1 = g c (C.doc c)) {G : Nat → Nat}
    {H : Nat} (hH : 64 ∣ H) (hH0 : 0 < H) {s : State σ} {l : List Nat} (hV : V VC H s l)
    (hS : SI0 g G VC H s) : SI g G VC H (advance C H s) := by
  obtain ⟨ls, U, h2, hne, hU, hwp, hwb, hUh, hsl, hcase⟩ := hV
  unfold advance
  cases hw : s.window with
  | cons δ w =>
    obtain ⟨s', f1, hS'⟩ := pop_SI hH hH0 hS hw hwp hwb
    simp only [f1]
    exact hS'
  | nil =>
    obtain ⟨s1, f1, f2, f3, f4, f5, f6, f7⟩ := advBuf_empty (H := H) (NB H + 1) s hw
    simp only [f1]
    have hS1 : SI0 g G VC H s1 := hS.congr f6 f7 (by rw [f2, hw]) f4 f3
    have key := refill_pop_scores hC hscore hG hg hH hH0 (s' := s1) f2 (by rw [f3]; exact h2) hne hU hS1
    revert key
    generalize refill C H s1 = r
    cases r with
    | none =>
      intro _
      exact ⟨hS1.congr rfl rfl rfl rfl rfl, fun h => absurd h (Nat.lt_irrefl _)⟩
    | some s2 =>
      rintro ⟨s3, g1, hS3⟩
      simp only [g1]
      exact hS3

/-- valid for `l` and with the scores of the SUM combiner right -/
def VS (g : σ → Nat → Nat) (G : Nat → Nat) (VC : σ → List Nat → Prop) (H : Nat) (s : State σ)
    (l : List Nat) : Prop := V VC H s l ∧ SI g G VC H s

theorem coreVS (hC : Lawful C VC WC) (hscore : ∀ {c l}, VC c l → VC (C.score c).2 l)
    (hG : Inter.Ghost C g) (hg : ∀ {c l}, VC c l → l ≠ [] → (C.score c).1 = g c (C.doc c)) (G : Nat → Nat)
    {H : Nat} (hH : 64 ∣ H) (hH0 : 0 < H) :
    Core0 (fun s : State σ => s.doc) (advance C H) (VS g G VC H) where
  sorted := fun h => (core0 hC hscore hH hH0).sorted h.1
  doc_eq := fun h => (core0 hC hscore hH hH0).doc_eq h.1
  advance := fun h => ⟨(core0 hC hscore hH hH0).advance h.1, advance_SI hC hscore hG hg hH hH0 h.1 h.2.1⟩

/-- the state the buffered branch of `seek` hands to its advance loop -/
theorem in_horizon_state (hC : Lawful C VC WC) (hscore : ∀ {c l}, VC c l → VC (C.score c).2 l)
    {H : Nat} (hH : 64 ∣ H) (hH0 : 0 < H) {s : State σ} {l : List Nat} {t : Nat}
    (hV : V VC H s l) (hdt : s.doc < t) (ht : t ≤ TERMINATED) (hgap : t - s.ws < H) :
    ∃ l1, V VC H ({ s with window := s.window.filter (fun δ => !(decide (s.bucketIdx ≤ δ / 64) && decide (δ / 64 < (t - s.ws) / 64))), scores := (if s.sum then clearScores s.scores (s.bucketIdx * 64) ((t - s.ws) / 64 * 64) else s.scores), bucketIdx := (t - s.ws) / 64 } : State σ) l1
      ∧ (l1.takeWhile (· < t)).length + 1 ≤ H + 2 := by
  obtain ⟨ls, U, h2, hne, hU, hwp, hwb, hUh, hsl, hcase⟩ := hV
  rcases hcase with ⟨hT, _, _, _⟩ | ⟨hws, hdH, hlt, rfl⟩
  · omega
  · -- the filtered window keeps exactly the deltas in buckets ≥ the target's
    have hkeep : ∀ δ ∈ s.window, (!(decide (s.bucketIdx ≤ δ / 64) && decide (δ / 64 < (t - s.ws) / 64))) = true ↔
        (t - s.ws) / 64 ≤ δ / 64 := by
      intro δ hδ
      have := (hwb δ hδ).2
      simp only [Bool.not_eq_true', Bool.and_eq_false_iff, decide_eq_false_iff_not]
      constructor
      · rintro (h | h) <;> omega
      · intro h; exact Or.inr (by omega)
    let w' := s.window.filter (fun δ => !(decide (s.bucketIdx ≤ δ / 64) && decide (δ / 64 < (t - s.ws) / 64)))
    have hw'mem : ∀ δ, δ ∈ w' ↔ δ ∈ s.window ∧ (t - s.ws) / 64 ≤ δ / 64 := by
      intro δ
      simp only [w', List.mem_filter]
      constructor
      · rintro ⟨a, b⟩; exact ⟨a, (hkeep δ a).mp b⟩
      · rintro ⟨a, b⟩; exact ⟨a, (hkeep δ a).mpr b⟩
    -- the state after dropping the buckets is valid for the shortened sequence
    have hl1s : Sorted (s.doc :: (w'.map (s.ws + ·) ++ U)) := by
      refine ⟨?_, ?_⟩
      · refine hsl.1.sublist ?_
        exact List.Sublist.cons_cons _ (List.Sublist.append (List.Sublist.map _ List.filter_sublist) (List.Sublist.refl _))
      · intro x hx
        apply hsl.2 x
        rcases List.mem_cons.mp hx with rfl | hx'
        · simp
        · rcases List.mem_append.mp hx' with h | h
          · obtain ⟨δ, hδ, rfl⟩ := List.mem_map.mp h
            exact List.mem_cons_of_mem _ (List.mem_append_left _ (List.mem_map_of_mem ((hw'mem δ).mp hδ).1))
          · exact List.mem_cons_of_mem _ (List.mem_append_right _ h)
    have hV1 : V VC H ({ s with window := w', scores := (if s.sum then clearScores s.scores (s.bucketIdx * 64) ((t - s.ws) / 64 * 64) else s.scores), bucketIdx := (t - s.ws) / 64 } : State σ)
        (s.doc :: (w'.map (s.ws + ·) ++ U)) := by
      refine ⟨ls, U, h2, hne, hU, hwp.sublist List.filter_sublist, ?_, hUh, hl1s, Or.inr ⟨hws, hdH, ?_, rfl⟩⟩
      · intro δ hδ
        have := (hw'mem δ).mp hδ
        exact ⟨(hwb δ this.1).1, this.2⟩
      · intro δ hδ
        exact hlt δ ((hw'mem δ).mp hδ).1
    -- the advance loop
    have hfuel : ((s.doc :: (w'.map (s.ws + ·) ++ U)).takeWhile (· < t)).length + 1 ≤ H + 2 := by
      have h1 : ((s.doc :: (w'.map (s.ws + ·) ++ U)).takeWhile (· < t)).length ≤ 1 + w'.length := by
        have hsub : ((w'.map (s.ws + ·) ++ U).takeWhile (· < t)).length ≤ (w'.map (s.ws + ·)).length := by
          rw [List.takeWhile_append]
          split
          · rename_i hall
            -- nothing of U is below t
            have : U.takeWhile (· < t) = [] := by
              cases U with
              | nil => rfl
              | cons a m =>
                have := hUh a (by simp)
                have : ¬ a < t := by omega
                simp [List.takeWhile_cons, this]
            simp [this]
          · exact (List.takeWhile_sublist _).length_le
        simp only [List.takeWhile_cons, hdt, decide_true, if_true, List.length_cons, List.length_map] at hsub ⊢
        omega
      have h2 : w'.length ≤ H := window_length_le (hwp.sublist List.filter_sublist)
        (fun δ hδ => (hwb δ ((hw'mem δ).mp hδ).1).1)
      omega
    exact ⟨_, hV1, hfuel⟩

theorem gsum_filter (hC : Lawful C VC WC) : ∀ {cs : List σ} {ls : List (List Nat)}, All2 VC cs ls →
    ∀ ls', All2 VC (cs.filter (fun c => C.doc c != TERMINATED)) ls' → ∀ x,
      gsum g (cs.filter (fun c => C.doc c != TERMINATED)) ls' x = gsum g cs ls x := by
  intro cs ls h
  induction h with
  | nil =>
    intro ls' h' x
    simp only [List.filter_nil] at h' ⊢
    cases h'; rfl
  | @cons c li cs lis h1 _ ih =>
    intro ls' h' x
    by_cases hT : C.doc c = TERMINATED
    · have hnil : li = [] := (Spec.doc_eq_term_iff (hC.sorted h1)).mp (by rw [← hC.doc_eq h1]; exact hT)
      have e : (c :: cs).filter (fun c => C.doc c != TERMINATED) = cs.filter (fun c => C.doc c != TERMINATED) := by
        simp [List.filter_cons, hT]
      rw [e] at h' ⊢
      rw [ih ls' h' x, gsum_cons, hnil, if_neg (by simp)]; omega
    · have e : (c :: cs).filter (fun c => C.doc c != TERMINATED) = c :: cs.filter (fun c => C.doc c != TERMINATED) := by
        simp [List.filter_cons, hT]
      rw [e] at h' ⊢
      cases h' with
      | @cons _ l0 _ ls'' x0 h'' =>
        have hl0 : l0 = li := valid_unique hC _ (Nat.le_refl _) x0 h1
        rw [gsum_cons, gsum_cons, ih ls'' h'' x, hl0]

theorem gsum_seek (hC : Lawful C VC WC) (hG : Inter.Ghost C g) {t : Nat} : ∀ {cs : List σ} {ls : List (List Nat)},
    All2 VC cs ls → ∀ x, t ≤ x →
      gsum g (cs.map (fun c => C.seek (max (C.doc c) t) c)) (ls.map (Spec.seek t)) x = gsum g cs ls x := by
  intro cs ls h
  induction h with
  | nil => intro x _; rfl
  | @cons c li cs lis h1 _ ih =>
    intro x hx
    simp only [List.map_cons, gsum_cons, hG.seek, ih x hx]
    have : x ∈ Spec.seek t li ↔ x ∈ li := by
      rw [Spec.mem_seek (hC.sorted h1)]
      exact ⟨fun h => h.1, fun h => ⟨h, hx⟩⟩
    by_cases hxl : x ∈ li
    · rw [if_pos (this.mpr hxl), if_pos hxl]
    · rw [if_neg (fun h => hxl (this.mp h)), if_neg hxl]

/-- `seek` keeps the score invariant: the buffered branch clears exactly the slots of the buckets it
drops, the far branch clears all -/
theorem seek_SI (hC : Lawful C VC WC) (hscore : ∀ {c l}, VC c l → VC (C.score c).2 l)
    (hG : Inter.Ghost C g) (hg : ∀ {c l}, VC c l → l ≠ [] → (C.score c).1 = g c (C.doc c)) {G : Nat → Nat}
    {H : Nat} (hH : 64 ∣ H) (hH0 : 0 < H) (fx : Fix) {s : State σ} {l : List Nat} {t : Nat}
    (hV : V VC H s l) (hS : SI g G VC H s) (hd : s.doc ≤ t) (ht : t ≤ TERMINATED) :
    SI g G VC H (seek fx C H t s) := by
  have hV0 := hV
  obtain ⟨⟨k1, k2, k3, k4, k5⟩, kD⟩ := hS
  unfold seek
  by_cases hge : s.doc ≥ t
  · simp only [hge, if_true]; exact ⟨⟨k1, k2, k3, k4, k5⟩, kD⟩
  · simp only [hge, if_false]
    have hdt : s.doc < t := by omega
    rw [inHorizonGap_eq]
    obtain ⟨ls, U, h2, hne, hU, hwp, hwb, hUh, hsl, hcase⟩ := hV
    by_cases hgap : t - s.ws < H
    · simp only [hgap, decide_true, if_true]
      obtain ⟨l1, hV1, hfuel⟩ := in_horizon_state hC hscore hH hH0 hV0 hdt ht hgap
      have hsc : (if s.sum then clearScores s.scores (s.bucketIdx * 64) ((t - s.ws) / 64 * 64) else s.scores)
          = clearScores s.scores (s.bucketIdx * 64) ((t - s.ws) / 64 * 64) := by rw [k1]; rfl
      have hS1 : SI g G VC H ({ s with window := s.window.filter (fun δ => !(decide (s.bucketIdx ≤ δ / 64) && decide (δ / 64 < (t - s.ws) / 64))), scores := (if s.sum then clearScores s.scores (s.bucketIdx * 64) ((t - s.ws) / 64 * 64) else s.scores), bucketIdx := (t - s.ws) / 64 } : State σ) := by
        refine ⟨⟨k1, ?_, ?_, ?_, k5⟩, kD⟩
        · show (if s.sum then clearScores s.scores (s.bucketIdx * 64) ((t - s.ws) / 64 * 64) else s.scores).size = H
          rw [hsc, clearScores_size]; exact k2
        · intro δ hδ
          show (if s.sum then clearScores s.scores (s.bucketIdx * 64) ((t - s.ws) / 64 * 64) else s.scores).getD δ 0 = G (s.ws + δ)
          have hm := List.mem_filter.mp hδ
          have hb := (hwb δ hm.1).2
          have hp := hm.2
          simp only [Bool.not_eq_true', Bool.and_eq_false_iff, decide_eq_false_iff_not] at hp
          rw [hsc, clearScores_getD, if_neg (by omega)]
          exact k3 δ hm.1
        · intro δ hδ
          show (if s.sum then clearScores s.scores (s.bucketIdx * 64) ((t - s.ws) / 64 * 64) else s.scores).getD δ 0 = 0
          rw [hsc, clearScores_getD]
          by_cases hr : s.bucketIdx * 64 ≤ δ ∧ δ < (t - s.ws) / 64 * 64
          · rw [if_pos hr]
          · rw [if_neg hr]
            apply k4
            intro hin
            apply hδ
            apply List.mem_filter.mpr ⟨hin, ?_⟩
            simp only [Bool.not_eq_true', Bool.and_eq_false_iff, decide_eq_false_iff_not]
            have hb := (hwb δ hin).2
            by_cases h3 : δ / 64 < (t - s.ws) / 64
            · exfalso; apply hr; omega
            · exact Or.inr h3
      have hloop := loopSeek_law' (coreVS hC hscore hG hg G hH hH0) ht (H + 2) ⟨hV1, hS1⟩ hfuel
      rw [seekLoop_eq]
      exact hloop.2
    · simp only [hgap, decide_false, Bool.false_eq_true, if_false, revalidate_guard, Bool.or_true, if_true]
      rcases hcase with ⟨hT, _, _, _⟩ | ⟨hws, hdH, hlt, rfl⟩
      · omega
      · have hss := SimpleUnion.all2_sorted hC h2
        have hUs := hU.1
        have h2' := revalidate_all hC ht h2
        obtain ⟨ls', i1, i2, i3⟩ := filter_nonempty hC h2'
        have hU' : SimpleUnion.IsUnion (Spec.seek t U) ls' := by
          refine ⟨hUs.seek t, fun x => ?_⟩
          rw [Spec.mem_seek hUs, i3 x, hU.2 x]
          constructor
          · rintro ⟨⟨li, hli, hx⟩, hge'⟩
            exact ⟨Spec.seek t li, List.mem_map_of_mem hli, (Spec.mem_seek (hss li hli) x).mpr ⟨hx, hge'⟩⟩
          · rintro ⟨li', hli', hx⟩
            obtain ⟨li, hli, rfl⟩ := List.mem_map.mp hli'
            have := (Spec.mem_seek (hss li hli) x).mp hx
            exact ⟨⟨li, hli, this.1⟩, this.2⟩
        have hsc : (if s.sum then Array.replicate s.scores.size 0 else s.scores) = Array.replicate s.scores.size 0 := by
          rw [k1]; rfl
        have hS1 : SI0 g G VC H ({ s with window := [], scores := (if s.sum then Array.replicate s.scores.size 0 else s.scores), docsets := (s.docsets.map (fun c => C.seek (max (C.doc c) t) c)).filter (fun c => C.doc c != TERMINATED) } : State σ) := by
          refine ⟨k1, ?_, ?_, ?_, ?_⟩
          · show (if s.sum then Array.replicate s.scores.size 0 else s.scores).size = H
            rw [hsc]; simpa using k2
          · intro δ hδ; cases hδ
          · intro δ _
            show (if s.sum then Array.replicate s.scores.size 0 else s.scores).getD δ 0 = 0
            rw [hsc]; exact getD_replicate _ _
          · intro ls2 hls2 x hx
            have e := all2_unique hC hls2 i1
            subst e
            obtain ⟨lj, hlj, hxj⟩ := (i3 x).mp hx
            obtain ⟨li, hli, rfl⟩ := List.mem_map.mp hlj
            have hxl := (Spec.mem_seek (hss li hli) x).mp hxj
            show G x = gsum g ((s.docsets.map (fun c => C.seek (max (C.doc c) t) c)).filter (fun c => C.doc c != TERMINATED)) ls2 x
            rw [gsum_filter hC h2' ls2 hls2 x, gsum_seek hC hG h2 x hxl.2]
            exact k5 ls h2 x ⟨li, hli, hxl.1⟩
        have key := refill_pop_scores hC hscore hG hg hH hH0
          (s' := ({ s with window := [], scores := (if s.sum then Array.replicate s.scores.size 0 else s.scores), docsets := (s.docsets.map (fun c => C.seek (max (C.doc c) t) c)).filter (fun c => C.doc c != TERMINATED) } : State σ))
          rfl i1 i2 hU' hS1
        revert key
        generalize refill C H ({ s with window := [], scores := (if s.sum then Array.replicate s.scores.size 0 else s.scores), docsets := (s.docsets.map (fun c => C.seek (max (C.doc c) t) c)).filter (fun c => C.doc c != TERMINATED) } : State σ) = r
        cases r with
        | none =>
          intro _
          exact ⟨hS1.congr rfl rfl rfl rfl rfl, fun h => absurd h (Nat.lt_irrefl _)⟩
        | some s2 =>
          rintro ⟨s3, f1, hS3⟩
          simp only [advance, f1]
          exact hS3

/-- `BufferedUnionScorer::build` (SumCombiner) establishes the score invariant for the total score
function of its children -/
theorem build_SI (hC : Lawful C VC WC) (hscore : ∀ {c l}, VC c l → VC (C.score c).2 l)
    (hG : Inter.Ghost C g) (hg : ∀ {c l}, VC c l → l ≠ [] → (C.score c).1 = g c (C.doc c))
    {H : Nat} (hH : 64 ∣ H) (hH0 : 0 < H) {cs : List σ} {ls : List (List Nat)} {U : List Nat}
    (h : All2 VC cs ls) (hU : SimpleUnion.IsUnion U ls) :
    SI g (gsum g cs ls) VC H (build C H true cs) := by
  obtain ⟨ls', i1, i2, i3⟩ := filter_nonempty hC h
  have hU' : SimpleUnion.IsUnion U ls' := ⟨hU.1, fun x => by rw [hU.2 x, i3 x]⟩
  unfold build
  have hS0 : SI0 g (gsum g cs ls) VC H ({ docsets := cs.filter (fun c => C.doc c != TERMINATED), window := [], bucketIdx := NB H, scores := Array.replicate H 0, ws := 0, doc := 0, score := 0, sum := true } : State σ) := by
    refine ⟨rfl, by simp, ?_, fun δ _ => getD_replicate _ _, ?_⟩
    · intro δ hδ; cases hδ
    · intro ls2 hls2 x _
      exact (gsum_filter hC h ls2 hls2 x).symm
  have key := refill_pop_scores hC hscore hG hg hH hH0
    (s' := ({ docsets := cs.filter (fun c => C.doc c != TERMINATED), window := [], bucketIdx := NB H, scores := Array.replicate H 0, ws := 0, doc := 0, score := 0, sum := true } : State σ))
    rfl i1 i2 hU' hS0
  revert key
  simp only
  generalize refill C H ({ docsets := cs.filter (fun c => C.doc c != TERMINATED), window := [], bucketIdx := NB H, scores := Array.replicate H 0, ws := 0, doc := 0, score := 0, sum := true } : State σ) = r
  cases r with
  | none =>
    intro _
    exact ⟨hS0.congr rfl rfl rfl rfl rfl, fun h => absurd h (Nat.lt_irrefl _)⟩
  | some s1 =>
    rintro ⟨s3, f1, hS3⟩
    simp only [advance, f1]
    exact hS3

/-! ### any mix of `advance` and `seek` -/

inductive Move where
  | advance
  | seek (t : Nat)

def specMove : List Nat → Move → List Nat
  | l, .advance => Spec.advance l
  | l, .seek t => Spec.seek t l

def legalMove (l : List Nat) : Move → Prop
  | .advance => True
  | .seek t => Spec.doc l ≤ t ∧ t ≤ TERMINATED

def implMove (fx : Fix) (C : DS σ) (H : Nat) (s : State σ) : Move → State σ
  | .advance => advance C H s
  | .seek t => seek fx C H t s

def legalMoves : List Nat → List Move → Prop
  | _, [] => True
  | l, m :: ms => legalMove l m ∧ legalMoves (specMove l m) ms

def runMoves (fx : Fix) (C : DS σ) (H : Nat) (s : State σ) (ms : List Move) : State σ :=
  ms.foldl (implMove fx C H) s

def specMoves (l : List Nat) (ms : List Move) : List Nat := ms.foldl specMove l

theorem moves_VS (hC : Lawful C VC WC) (hscore : ∀ {c l}, VC c l → VC (C.score c).2 l)
    (hG : Inter.Ghost C g) (hg : ∀ {c l}, VC c l → l ≠ [] → (C.score c).1 = g c (C.doc c)) (G : Nat → Nat)
    {H : Nat} (hH : 64 ∣ H) (hH0 : 0 < H) (fx : Fix) :
    ∀ (ms : List Move) {s : State σ} {l : List Nat}, VS g G VC H s l → legalMoves l ms →
      VS g G VC H (runMoves fx C H s ms) (specMoves l ms) := by
  intro ms
  induction ms with
  | nil => intro s l h _; exact h
  | cons m ms ih =>
    intro s l h hl
    obtain ⟨hl1, hl2⟩ := hl
    simp only [runMoves, specMoves, List.foldl_cons]
    apply ih _ hl2
    cases m with
    | advance => exact (coreVS hC hscore hG hg G hH hH0).advance h
    | seek t =>
      have hd : s.doc ≤ t := by rw [(core0 hC hscore hH hH0).doc_eq h.1]; exact hl1.1
      exact ⟨seek_law hC hscore hH hH0 fx h.1 hd hl1.2, seek_SI hC hscore hG hg hH hH0 fx h.1 h.2 hd hl1.2⟩

/-- the SUM union built over valid children, after any legal mix of `advance` and `seek`: it sits on
the document the specification cursor sits on, and its score there is the sum of the score
functions of the children containing that document -/
theorem score_after_moves (hC : Lawful C VC WC) (hscore : ∀ {c l}, VC c l → VC (C.score c).2 l)
    (hG : Inter.Ghost C g) (hg : ∀ {c l}, VC c l → l ≠ [] → (C.score c).1 = g c (C.doc c))
    {H : Nat} (hH : 64 ∣ H) (hH0 : 0 < H) (fx : Fix) {cs : List σ} {ls : List (List Nat)} {U : List Nat}
    (h : All2 VC cs ls) (hU : SimpleUnion.IsUnion U ls) (ms : List Move) (hl : legalMoves U ms) :
    (runMoves fx C H (build C H true cs) ms).doc = Spec.doc (specMoves U ms)
      ∧ ((runMoves fx C H (build C H true cs) ms).doc < TERMINATED →
          ((ds C H fx).score (runMoves fx C H (build C H true cs) ms)).1
            = gsum g cs ls (runMoves fx C H (build C H true cs) ms).doc) := by
  have h0 : VS g (gsum g cs ls) VC H (build C H true cs) U :=
    ⟨build_V hC hscore hH hH0 true h hU, build_SI hC hscore hG hg hH hH0 h hU⟩
  have h1 := moves_VS hC hscore hG hg (gsum g cs ls) hH hH0 fx ms h0 hl
  exact ⟨(core0 hC hscore hH hH0).doc_eq h1.1, h1.2.2⟩

end TantivyModel.DocSet.BUnion
