import TantivyModel.Model.OrderEnc
import TantivyModel.Model.QuerySem
/-
Order-preserving encodings: the functions regenerated from common/src/lib.rs are strictly
monotone (no `bv_decide`: bit-level facts about `x ^^^ 2^63` are proved through `Nat.testBit`),
and big-endian byte strings of equal width compare lexicographically as their values.
-/
set_option linter.unusedSimpArgs false
set_option linter.unusedVariables false
namespace TantivyModel.OrderEnc

theorem xor_two_pow_of_lt (x : Nat) (h : x < 2^63) : x ^^^ 2^63 = x + 2^63 := by
  apply Nat.eq_of_testBit_eq
  intro i
  rw [Nat.testBit_xor, Nat.testBit_two_pow, Nat.add_comm]
  by_cases hi : i = 63
  · subst hi
    rw [Nat.testBit_two_pow_add_eq, Nat.testBit_lt_two_pow h]
    simp
  · by_cases hlt : i < 63
    · rw [Nat.testBit_two_pow_add_gt hlt]
      simp [hi, Ne.symm hi]
    · have hgt : 63 < i := by omega
      have h1 : x.testBit i = false :=
        Nat.testBit_lt_two_pow (Nat.lt_of_lt_of_le h (Nat.pow_le_pow_right (by omega) (by omega)))
      have h2 : (2^63 + x).testBit i = false := by
        apply Nat.testBit_lt_two_pow
        calc 2^63 + x < 2^63 + 2^63 := by omega
          _ = 2^64 := by omega
          _ ≤ 2^i := Nat.pow_le_pow_right (by omega) (by omega)
      simp [h1, h2, hi, Ne.symm hi]

theorem xor_two_pow_of_ge (x : Nat) (h : 2^63 ≤ x) (h2 : x < 2^64) : x ^^^ 2^63 = x - 2^63 := by
  have hy : x - 2^63 < 2^63 := by omega
  have e := xor_two_pow_of_lt (x - 2^63) hy
  have e2 : x - 2^63 + 2^63 = x := by omega
  rw [e2] at e
  have e3 : x ^^^ 2^63 = ((x - 2^63) ^^^ 2^63) ^^^ 2^63 := by rw [e]
  rw [e3, Nat.xor_assoc, Nat.xor_self, Nat.xor_zero]

theorem highest_bit : Gen.HIGHEST_BIT = 2^63 := by decide

theorem toNat_xor_highest (x : BitVec 64) :
    (x ^^^ BitVec.ofNat 64 Gen.HIGHEST_BIT).toNat
      = if x.toNat < 2^63 then x.toNat + 2^63 else x.toNat - 2^63 := by
  have hx : x.toNat < 2^64 := x.isLt
  rw [BitVec.toNat_xor, BitVec.toNat_ofNat, highest_bit]
  have : (2:Nat)^63 % 2^64 = 2^63 := by decide
  rw [this]
  split
  · exact xor_two_pow_of_lt _ (by assumption)
  · exact xor_two_pow_of_ge _ (by omega) hx

theorem msb_iff (x : BitVec 64) : x.msb = true ↔ 2^63 ≤ x.toNat := by
  rw [BitVec.msb_eq_decide]; simp

theorem toInt_eq (x : BitVec 64) :
    x.toInt = if x.toNat < 2^63 then (x.toNat : Int) else (x.toNat : Int) - 2^64 := by
  rw [BitVec.toInt_eq_toNat_cond]
  split <;> split <;> omega

/-- `i64_to_u64` adds 2^63 to the signed value -/
theorem i64_to_u64_toNat (x : BitVec 64) : ((i64_to_u64 x).toNat : Int) = x.toInt + 2^63 := by
  have hx : x.toNat < 2^64 := x.isLt
  show ((Gen.i64_to_u64 x).toNat : Int) = _
  unfold Gen.i64_to_u64
  rw [toNat_xor_highest, toInt_eq]
  split <;> omega

/-- sign-magnitude key of an IEEE-754 bit pattern: the order of non-NaN floats (with -0 < +0) -/
def f64Key (b : BitVec 64) : Int :=
  if b.toNat < 2^63 then (b.toNat : Int) else -((b.toNat : Int) - 2^63) - 1

theorem f64_to_u64_toNat (b : BitVec 64) : ((f64_to_u64 b).toNat : Int) = f64Key b + 2^63 := by
  have hb : b.toNat < 2^64 := b.isLt
  show ((Gen.f64_to_u64 b).toNat : Int) = _
  unfold Gen.f64_to_u64 f64Key
  by_cases h : b.toNat < 2^63
  · have hm : b.msb = false := by
      cases hmsb : b.msb
      · rfl
      · have := (msb_iff b).mp hmsb; omega
    simp only [hm, if_true, toNat_xor_highest, h]
    omega
  · have hm : b.msb = true := (msb_iff b).mpr (by omega)
    simp only [hm, Bool.true_eq_false, if_false, h, BitVec.toNat_not]
    omega

/-! ### big-endian bytes -/

open TantivyModel.QuerySem in
/-- equal-width big-endian encodings compare lexicographically as their values -/
theorem blt_be (w : Nat) : ∀ (v1 v2 : Nat), v1 < 256 ^ w → v2 < 256 ^ w →
    blt (be w v1) (be w v2) = decide (v1 < v2) := by
  induction w with
  | zero => intro v1 v2 h1 h2; simp at h1 h2; subst h1; subst h2; simp [be, blt]
  | succ w ih =>
    intro v1 v2 h1 h2
    have hP : 0 < 256 ^ w := Nat.pow_pos (by omega)
    have q1 : v1 / 256 ^ w < 256 := by
      apply (Nat.div_lt_iff_lt_mul hP).mpr; rw [Nat.pow_succ] at h1; rw [Nat.mul_comm]; exact h1
    have q2 : v2 / 256 ^ w < 256 := by
      apply (Nat.div_lt_iff_lt_mul hP).mpr; rw [Nat.pow_succ] at h2; rw [Nat.mul_comm]; exact h2
    have r1 : v1 % 256 ^ w < 256 ^ w := Nat.mod_lt _ hP
    have r2 : v2 % 256 ^ w < 256 ^ w := Nat.mod_lt _ hP
    have d1 := Nat.div_add_mod v1 (256 ^ w)
    have d2 := Nat.div_add_mod v2 (256 ^ w)
    simp only [be, blt, Nat.mod_eq_of_lt q1, Nat.mod_eq_of_lt q2, ih _ _ r1 r2]
    generalize v1 / 256 ^ w = a1 at *
    generalize v2 / 256 ^ w = a2 at *
    generalize v1 % 256 ^ w = b1 at *
    generalize v2 % 256 ^ w = b2 at *
    generalize 256 ^ w = P at *
    subst d1; subst d2
    by_cases hlt : a1 < a2
    · have : P * a1 + b1 < P * a2 + b2 := by
        have : P * (a1 + 1) ≤ P * a2 := Nat.mul_le_mul_left P hlt
        rw [Nat.mul_add, Nat.mul_one] at this
        omega
      simp [hlt, this]
    · by_cases heq : a1 = a2
      · subst heq
        simp
      · have hgt : a2 < a1 := by omega
        have : ¬ (P * a1 + b1 < P * a2 + b2) := by
          have : P * (a2 + 1) ≤ P * a1 := Nat.mul_le_mul_left P hgt
          rw [Nat.mul_add, Nat.mul_one] at this
          omega
        simp [hlt, heq, this]

end TantivyModel.OrderEnc
