import TantivyModel.Model.PhraseSlop
import TantivyModel.Proofs.PhraseAlign
/-
slop = 0, any number of terms: the sorted-merge intersections of `PhraseScorer` (positions folded
term after term, in whatever order the scorer processes them) decide exactly "one value is common
to all adjusted position lists".
-/
set_option linter.unusedSimpArgs false
set_option linter.unusedVariables false
namespace TantivyModel.PhraseSlop
open TantivyModel.QuerySem

abbrev Sorted (l : List Nat) : Prop := l.Pairwise (· ≤ ·)

theorem interSortedF_sublist : ∀ (fuel : Nat) (l r : List Nat), (interSortedF fuel l r).Sublist l := by
  intro fuel
  induction fuel with
  | zero => intro l r; simp [interSortedF]
  | succ fuel ih =>
    intro l r
    match l, r with
    | [], r => simp [interSortedF]
    | a :: l, [] => simp [interSortedF]
    | a :: l, b :: r =>
      simp only [interSortedF]
      split
      · exact (ih l (b :: r)).trans (List.sublist_cons_self a l)
      · split
        · exact (ih l r).cons_cons a
        · exact ih (a :: l) r

theorem interSorted_sorted (l r : List Nat) (hl : Sorted l) : Sorted (interSorted l r) :=
  hl.sublist (interSortedF_sublist _ l r)

theorem mem_interSortedF (x : Nat) : ∀ (fuel : Nat) (l r : List Nat), l.length + r.length ≤ fuel →
    Sorted l → Sorted r → (x ∈ interSortedF fuel l r ↔ x ∈ l ∧ x ∈ r) := by
  intro fuel
  induction fuel with
  | zero =>
    intro l r h _ _
    have hl : l = [] := List.eq_nil_of_length_eq_zero (by omega)
    subst hl; simp [interSortedF]
  | succ fuel ih =>
    intro l r h hl hr
    match l, r with
    | [], r => simp [interSortedF]
    | a :: l, [] => simp [interSortedF]
    | a :: l, b :: r =>
      have hla := List.pairwise_cons.mp hl
      have hrb := List.pairwise_cons.mp hr
      simp only [interSortedF]
      by_cases h1 : a < b
      · simp only [h1, if_true]
        rw [ih l (b :: r) (by simp only [List.length_cons] at h ⊢; omega) hla.2 hr]
        constructor
        · rintro ⟨h2, h3⟩; exact ⟨List.mem_cons_of_mem _ h2, h3⟩
        · rintro ⟨h2, h3⟩
          rcases List.mem_cons.mp h2 with rfl | h2
          · exfalso
            rcases List.mem_cons.mp h3 with rfl | h3
            · omega
            · have := hrb.1 x h3; omega
          · exact ⟨h2, h3⟩
      · simp only [h1, if_false]
        by_cases h2 : a = b
        · subst h2
          simp only [if_true, List.mem_cons]
          rw [ih l r (by simp only [List.length_cons] at h ⊢; omega) hla.2 hrb.2]
          constructor
          · rintro (rfl | ⟨h3, h4⟩)
            · exact ⟨Or.inl rfl, Or.inl rfl⟩
            · exact ⟨Or.inr h3, Or.inr h4⟩
          · rintro ⟨h3 | h3, h4 | h4⟩
            · exact Or.inl h3
            · exact Or.inl h3
            · exact Or.inl h4
            · exact Or.inr ⟨h3, h4⟩
        · simp only [h2, if_false]
          rw [ih (a :: l) r (by simp only [List.length_cons] at h ⊢; omega) hl hrb.2]
          constructor
          · rintro ⟨h3, h4⟩; exact ⟨h3, List.mem_cons_of_mem _ h4⟩
          · rintro ⟨h3, h4⟩
            rcases List.mem_cons.mp h4 with rfl | h4
            · exfalso
              rcases List.mem_cons.mp h3 with rfl | h3
              · omega
              · have := hla.1 x h3; omega
            · exact ⟨h3, h4⟩

theorem mem_interSorted (x : Nat) (l r : List Nat) (hl : Sorted l) (hr : Sorted r) :
    x ∈ interSorted l r ↔ x ∈ l ∧ x ∈ r :=
  mem_interSortedF x _ l r (Nat.le_refl _) hl hr

theorem existsSortedF_iff : ∀ (fuel : Nat) (l r : List Nat), l.length + r.length ≤ fuel →
    Sorted l → Sorted r → (existsSortedF fuel l r = true ↔ ∃ x, x ∈ l ∧ x ∈ r) := by
  intro fuel
  induction fuel with
  | zero =>
    intro l r h _ _
    have hl : l = [] := List.eq_nil_of_length_eq_zero (by omega)
    subst hl; simp [existsSortedF]
  | succ fuel ih =>
    intro l r h hl hr
    match l, r with
    | [], r => simp [existsSortedF]
    | a :: l, [] => simp [existsSortedF]
    | a :: l, b :: r =>
      have hla := List.pairwise_cons.mp hl
      have hrb := List.pairwise_cons.mp hr
      simp only [existsSortedF]
      by_cases h1 : a < b
      · simp only [h1, if_true]
        rw [ih l (b :: r) (by simp only [List.length_cons] at h ⊢; omega) hla.2 hr]
        constructor
        · rintro ⟨x, h2, h3⟩; exact ⟨x, List.mem_cons_of_mem _ h2, h3⟩
        · rintro ⟨x, h2, h3⟩
          rcases List.mem_cons.mp h2 with rfl | h2
          · exfalso
            rcases List.mem_cons.mp h3 with rfl | h3
            · omega
            · have := hrb.1 x h3; omega
          · exact ⟨x, h2, h3⟩
      · simp only [h1, if_false]
        by_cases h2 : a = b
        · subst h2
          simp only [if_true, true_iff]
          exact ⟨a, by simp, by simp⟩
        · simp only [h2, if_false]
          rw [ih (a :: l) r (by simp only [List.length_cons] at h ⊢; omega) hl hrb.2]
          constructor
          · rintro ⟨x, h3, h4⟩; exact ⟨x, h3, List.mem_cons_of_mem _ h4⟩
          · rintro ⟨x, h3, h4⟩
            rcases List.mem_cons.mp h4 with rfl | h4
            · exfalso
              rcases List.mem_cons.mp h3 with rfl | h3
              · omega
              · have := hla.1 x h3; omega
            · exact ⟨x, h3, h4⟩

theorem countSortedF_pos : ∀ (fuel : Nat) (l r : List Nat),
    (0 < countSortedF fuel l r ↔ existsSortedF fuel l r = true) := by
  intro fuel
  induction fuel with
  | zero => intro l r; simp [countSortedF, existsSortedF]
  | succ fuel ih =>
    intro l r
    match l, r with
    | [], r => simp [countSortedF, existsSortedF]
    | a :: l, [] => simp [countSortedF, existsSortedF]
    | a :: l, b :: r =>
      simp only [countSortedF, existsSortedF]
      by_cases h1 : a < b
      · simp only [h1, if_true]; exact ih _ _
      · simp only [h1, if_false]
        by_cases h2 : a = b
        · simp only [h2, if_true, iff_true]; omega
        · simp only [h2, if_false]; exact ih _ _

/-- what `compute_phrase_match` leaves in (left, right): a common value exists iff one value of
the initial left list lies in every later list -/
theorem exactFold_iff : ∀ (rest : List (List Nat)) (L : List Nat), Sorted L → (∀ l ∈ rest, Sorted l) →
    (Sorted (exactFold rest L).1 ∧ Sorted (exactFold rest L).2) ∧
    ((∃ x, x ∈ (exactFold rest L).1 ∧ x ∈ (exactFold rest L).2) ↔
      (rest ≠ [] ∧ ∃ v, v ∈ L ∧ ∀ l ∈ rest, v ∈ l)) := by
  intro rest
  induction rest with
  | nil => intro L hL _; simp [exactFold, hL]
  | cons mid rest ih =>
    intro L hL hrest
    have hmid : Sorted mid := hrest mid (by simp)
    cases rest with
    | nil =>
      simp only [exactFold]
      refine ⟨⟨hL, hmid⟩, ?_⟩
      constructor
      · rintro ⟨x, h1, h2⟩; exact ⟨by simp, x, h1, by simpa using h2⟩
      · rintro ⟨_, v, h1, h2⟩; exact ⟨v, h1, h2 mid (by simp)⟩
    | cons nxt rest' =>
      have hsI : Sorted (interSorted L mid) := interSorted_sorted L mid hL
      have hrest' : ∀ l ∈ nxt :: rest', Sorted l := fun l hl => hrest l (by simp [hl])
      have hrec := ih (interSorted L mid) hsI hrest'
      simp only [exactFold]
      by_cases hemp : (interSorted L mid).isEmpty = true
      · rw [if_pos hemp]
        refine ⟨⟨by simp, by simp⟩, ?_⟩
        constructor
        · rintro ⟨x, h1, _⟩; simp at h1
        · rintro ⟨_, v, h1, h2⟩
          exfalso
          have : v ∈ interSorted L mid := (mem_interSorted v L mid hL hmid).mpr ⟨h1, h2 mid (by simp)⟩
          rw [List.isEmpty_iff.mp hemp] at this
          simp at this
      · rw [if_neg hemp]
        refine ⟨hrec.1, ?_⟩
        rw [hrec.2]
        constructor
        · rintro ⟨_, v, h1, h2⟩
          have hv := (mem_interSorted v L mid hL hmid).mp h1
          refine ⟨by simp, v, hv.1, ?_⟩
          intro l hl
          rcases List.mem_cons.mp hl with rfl | hl
          · exact hv.2
          · exact h2 l hl
        · rintro ⟨_, v, h1, h2⟩
          refine ⟨by simp, v, (mem_interSorted v L mid hL hmid).mpr ⟨h1, h2 mid (by simp)⟩, ?_⟩
          intro l hl
          exact h2 l (by simp [hl])

/-- slop 0, ≥ 2 terms, every list sorted: both real paths = "a value common to all lists" -/
theorem exact_impl_eq_spec (ls : List (List Nat)) (hlen : 2 ≤ ls.length) (hs : ∀ l ∈ ls, Sorted l) :
    exactOff ls = phraseExact ls ∧ exactOn ls = phraseExact ls := by
  match ls, hlen with
  | first :: rest, hlen =>
    have hrne : rest ≠ [] := by
      intro h; subst h; simp at hlen
    have hf : Sorted first := hs first (by simp)
    have hr : ∀ l ∈ rest, Sorted l := fun l hl => hs l (by simp [hl])
    have hfold := exactFold_iff rest first hf hr
    have hex : existsSorted (exactFold rest first).1 (exactFold rest first).2 = true ↔
        ∃ v, v ∈ first ∧ ∀ l ∈ rest, v ∈ l := by
      rw [existsSorted, existsSortedF_iff _ _ _ (Nat.le_refl _) hfold.1.1 hfold.1.2, hfold.2]
      constructor
      · rintro ⟨_, h⟩; exact h
      · intro h; exact ⟨hrne, h⟩
    have hspec : phraseExact (first :: rest) = true ↔ ∃ v, v ∈ first ∧ ∀ l ∈ rest, v ∈ l := by
      simp only [phraseExact, List.any_eq_true, List.all_eq_true, List.contains_iff_mem]
    have hoff : exactOff (first :: rest) = phraseExact (first :: rest) := by
      apply bool_eq_of_iff'
      show existsSorted _ _ = true ↔ _
      rw [hex, hspec]
    refine ⟨hoff, ?_⟩
    apply bool_eq_of_iff'
    show decide (0 < countSorted _ _) = true ↔ _
    rw [decide_eq_true_eq, countSorted, countSortedF_pos, ← existsSorted, hex, hspec]
where
  bool_eq_of_iff' {x y : Bool} (h : x = true ↔ y = true) : x = y := by
    cases x <;> cases y <;> simp_all

/-- a match does not depend on the order in which the terms are processed -/
theorem phraseExact_perm (ls ls' : List (List Nat)) (hne : ls ≠ []) (hp : ls.Perm ls') :
    phraseExact ls = phraseExact ls' := by
  have hne' : ls' ≠ [] := fun h => hne (List.Perm.eq_nil (h ▸ hp))
  cases h1 : phraseExact ls <;> cases h2 : phraseExact ls' <;> try rfl
  · exfalso
    obtain ⟨v, hv⟩ := (phraseExact_iff ls' hne').mp h2
    have : phraseExact ls = true := (phraseExact_iff ls hne).mpr ⟨v, fun l hl => hv l (hp.mem_iff.mp hl)⟩
    rw [h1] at this; cases this
  · exfalso
    obtain ⟨v, hv⟩ := (phraseExact_iff ls hne).mp h1
    have : phraseExact ls' = true := (phraseExact_iff ls' hne').mpr ⟨v, fun l hl => hv l (hp.mem_iff.mpr hl)⟩
    rw [h2] at this; cases this

end TantivyModel.PhraseSlop
