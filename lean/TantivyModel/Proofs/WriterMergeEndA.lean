import TantivyModel.Proofs.WriterMergeStart
/-!
`mergeEnd`, generic part: replacing the sources of a merge by its result in one register keeps the
live documents of that register, whatever else is in it.
-/
namespace TantivyModel.Writer
open TantivyModel.WriterSpec

variable {α : Type} [DecidableEq α]

theorem dead_take_le (log : List (DelOp α)) (a b : Nat) (hab : a ≤ b) (p : α × Nat)
    (h : dead (log.take a) p = true) : dead (log.take b) p = true := by
  have e : log.take a = (log.take b).take a := by
    rw [List.take_take, Nat.min_eq_left hab]
  rw [e] at h
  exact dead_take_mono (log.take b) a p h

theorem filter_absorb {β : Type} (h1 h2 : β → Bool) (l : List β) (himp : ∀ x, h2 x = true → h1 x = true) :
    (l.filter h1).filter h2 = l.filter h2 := by
  rw [List.filter_filter]
  apply List.filter_congr
  intro x _
  cases e : h2 x
  · simp
  · simp [himp x e]

theorem catchUp_basic (log : List (DelOp α)) (B : Nat) (M : Seg α) (h : SegOK log M) :
    SegOK log (catchUp log B M) ∧ segPairs (catchUp log B M) = segPairs M ∧ (catchUp log B M).id = M.id := by
  rcases catchUp_cases log B M with ⟨he, _⟩ | he
  · rw [he]; exact ⟨h, rfl, rfl⟩
  · rw [he]; exact ⟨advance_segOK log B M h, segPairs_advance log B M, rfl⟩

theorem aliveDocs_nil (sg : Seg α) (h : hasAlive sg = false) : aliveDocs sg = [] := by
  simp only [hasAlive, List.any_eq_false] at h
  simp only [aliveDocs, List.map_eq_nil_iff, List.filter_eq_nil_iff]
  intro d hd
  simpa using h d hd

/-- a finished segment without an alive document has no live pair -/
theorem live_nil_of_not_hasAlive (log : List (DelOp α)) (sg : Seg α) (hok : SegOK log sg) (h : hasAlive sg = false) :
    (segPairs sg).filter (fun p => !dead log p) = [] := by
  simp only [hasAlive, List.any_eq_false] at h
  simp only [segPairs, List.filter_eq_nil_iff, List.mem_map]
  rintro p ⟨d, hd, rfl⟩
  have hf := h d hd
  have hb := hok.bits d hd
  have : dead (log.take sg.cursor) (d.doc, d.op) = true := by
    cases hdd : dead (log.take sg.cursor) (d.doc, d.op)
    · rw [hdd] at hb; simp at hb; exact absurd hb hf
    · rfl
  simp [dead_take_mono log sg.cursor _ this]

/-- dropping the segments without alive documents does not change the live pairs -/
theorem live_filter_hasAlive (log : List (DelOp α)) (reg : List (Seg α)) (hok : ∀ sg ∈ reg, SegOK log sg) :
    ((reg.filter hasAlive).flatMap segPairs).filter (fun p => !dead log p)
      = (reg.flatMap segPairs).filter (fun p => !dead log p) := by
  rw [filter_flatMap', filter_flatMap']
  apply flatMap_filter_drop
  intro x hx hn
  exact live_nil_of_not_hasAlive log x (hok x hx) hn

theorem aliveDocs_filter_hasAlive (reg : List (Seg α)) :
    (reg.filter hasAlive).flatMap aliveDocs = reg.flatMap aliveDocs := by
  apply flatMap_filter_drop
  intro x _ hn
  exact aliveDocs_nil x hn

/-- the live pairs of a register after replacing the sources by the merged segment -/
theorem replace_live_some (log : List (DelOp α)) (reg : List (Seg α)) (ids : List Nat) (res : Seg α) (c : Nat)
    (hperm : List.Perm (segPairs res)
      (((srcsOf ids reg).flatMap segPairs).filter (fun p => !dead (log.take c) p))) :
    List.Perm (((replaceIn reg ids (some res)).flatMap segPairs).filter (fun p => !dead log p))
      ((reg.flatMap segPairs).filter (fun p => !dead log p)) := by
  have hsplit := List.Perm.filter (fun p => !dead log p) (List.Perm.flatMap_right segPairs (replace_split ids reg))
  rw [List.flatMap_append, List.filter_append] at hsplit
  have hres : List.Perm ((segPairs res).filter (fun p => !dead log p))
      (((srcsOf ids reg).flatMap segPairs).filter (fun p => !dead log p)) := by
    have := List.Perm.filter (fun p => !dead log p) hperm
    rw [filter_absorb] at this
    · exact this
    · intro x hx
      cases hd : dead (log.take c) x
      · rfl
      · have := dead_take_mono log c x hd
        simp [this] at hx
  simp only [replaceIn, Option.toList, List.flatMap_append, List.flatMap_cons, List.flatMap_nil, List.append_nil,
    List.filter_append]
  exact (List.perm_append_comm.trans (List.Perm.append_right _ hres)).trans hsplit.symm

theorem replace_live_none (log : List (DelOp α)) (reg : List (Seg α)) (ids : List Nat)
    (hdead : ∀ p ∈ (srcsOf ids reg).flatMap segPairs, dead log p = true) :
    List.Perm (((replaceIn reg ids none).flatMap segPairs).filter (fun p => !dead log p))
      ((reg.flatMap segPairs).filter (fun p => !dead log p)) := by
  have hsplit := List.Perm.filter (fun p => !dead log p) (List.Perm.flatMap_right segPairs (replace_split ids reg))
  rw [List.flatMap_append, List.filter_append] at hsplit
  have hnil : ((srcsOf ids reg).flatMap segPairs).filter (fun p => !dead log p) = [] := by
    simp only [List.filter_eq_nil_iff]
    intro p hp
    simp [hdead p hp]
  rw [hnil, List.nil_append] at hsplit
  simp only [replaceIn, Option.toList, List.append_nil]
  exact hsplit.symm

theorem replaceIn_mem (reg : List (Seg α)) (ids : List Nat) (res : Option (Seg α)) (x : Seg α)
    (h : x ∈ replaceIn reg ids res) : (x ∈ reg ∧ x.id ∉ ids) ∨ res = some x := by
  simp only [replaceIn, List.mem_append, List.mem_filter] at h
  rcases h with ⟨h1, h2⟩ | h
  · exact Or.inl ⟨h1, by simpa using h2⟩
  · cases res with
    | none => simp at h
    | some r => simp at h; exact Or.inr (by rw [h])

theorem replaceIn_pairs_sub (reg : List (Seg α)) (ids : List Nat) (res : Option (Seg α))
    (hsub : ∀ r, res = some r → ∀ p ∈ segPairs r, p ∈ reg.flatMap segPairs) :
    ∀ p ∈ (replaceIn reg ids res).flatMap segPairs, p ∈ reg.flatMap segPairs := by
  intro p hp
  obtain ⟨x, hx, hpx⟩ := List.mem_flatMap.mp hp
  rcases replaceIn_mem reg ids res x hx with ⟨h1, _⟩ | h
  · exact List.mem_flatMap.mpr ⟨x, h1, hpx⟩
  · exact hsub x h p hpx

theorem count_resultIds_eraseIdx (ms : List (Merge α)) (k : Nat) (m : Merge α) (h : ms[k]? = some m) (i : Nat) :
    (resultIds (ms.eraseIdx k)).count i + (mergeResultId m).count i = (resultIds ms).count i := by
  induction ms generalizing k with
  | nil => simp at h
  | cons a l ih =>
    cases k with
    | zero => simp at h; subst h; simp [resultIds, List.flatMap_cons, List.count_append]; omega
    | succ k =>
      simp at h
      have := ih k h
      simp only [resultIds, List.eraseIdx_cons_succ, List.flatMap_cons, List.count_append] at this ⊢
      omega

theorem mem_of_mem_eraseIdx {β : Type} (l : List β) (k : Nat) (x : β) (h : x ∈ l.eraseIdx k) : x ∈ l :=
  (List.eraseIdx_sublist l k).subset h

end TantivyModel.Writer
