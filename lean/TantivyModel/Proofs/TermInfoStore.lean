import TantivyModel.Proofs.TermInfoBits
/-! a block of the TermInfoStore returns every TermInfo written to it; the store returns the n-th -/
namespace TantivyModel.TermInfoStore
open TantivyModel.Postings (computeNumBits bitLen lt_two_pow_bitLen bitLen_le_of_lt)

theorem getLastD_mem_gen {α : Type} (l : List α) (d : α) (h : l ≠ []) : l.getLastD d ∈ l := by
  induction l generalizing d with
  | nil => exact absurd rfl h
  | cons a t ih =>
    rw [List.getLastD_cons]
    cases t with
    | nil => simp
    | cons b r => exact List.mem_cons_of_mem _ (ih a (by simp))

theorem getLastD_mem_cons (ref : TermInfo) (others : List TermInfo) :
    others.getLastD ref ∈ ref :: others := by
  cases others with
  | nil => simp
  | cons a r => exact List.mem_cons_of_mem _ (getLastD_mem_gen (a :: r) ref (by simp))

/-! ### widths -/

theorem computeNumBits_small (M : Nat) (hM : M < 2 ^ 56) :
    computeNumBits M = bitLen M ∧ bitLen M ≤ 56 := by
  have hb := bitLen_le_of_lt M 56 hM
  have ht : Gen.Postings.NUM_BITS_THRESHOLD = 56 := by decide
  unfold computeNumBits
  rw [ht]
  simp [hb]

theorem lt_pow_computeNumBits (v M : Nat) (hv : v ≤ M) (hM : M < 2 ^ 56) :
    v < 2 ^ computeNumBits M ∧ computeNumBits M ≤ 56 := by
  have h := computeNumBits_small M hM
  rw [h.1]
  exact ⟨Nat.lt_of_le_of_lt hv (lt_two_pow_bitLen M), h.2⟩

/-! ### the field list of a block -/

def go (m : Meta) (last : TermInfo) : List TermInfo → List (Nat × Nat)
  | [] => [(last.postEnd - m.ref.postStart, m.postBits), (last.posEnd - m.ref.posStart, m.posBits)]
  | t :: ts => triple m t ++ go m last ts

theorem flatMap_append_ends (m : Meta) (last : TermInfo) (l : List TermInfo) :
    l.flatMap (triple m) ++
      [(last.postEnd - m.ref.postStart, m.postBits), (last.posEnd - m.ref.posStart, m.posBits)] =
      go m last l := by
  induction l with
  | nil => rfl
  | cons t ts ih => simp only [List.flatMap_cons, List.append_assoc, go, ih]

theorem blockFields_eq_go (m : Meta) (others : List TermInfo) :
    blockFields m others = go m (others.getLastD m.ref) others :=
  flatMap_append_ends m _ others

theorem go_append (m : Meta) (last : TermInfo) (pre l : List TermInfo) :
    go m last (pre ++ l) = pre.flatMap (triple m) ++ go m last l := by
  induction pre with
  | nil => rfl
  | cons t ts ih => simp only [List.cons_append, go, ih, List.flatMap_cons, List.append_assoc]

theorem totalBits_triple (m : Meta) (t : TermInfo) : totalBits (triple m t) = m.numBits := by
  simp [totalBits, triple, Meta.numBits]; omega

theorem totalBits_flatMap (m : Meta) (l : List TermInfo) :
    totalBits (l.flatMap (triple m)) = m.numBits * l.length := by
  induction l with
  | nil => simp [totalBits]
  | cons t ts ih =>
    rw [List.flatMap_cons, totalBits_append, totalBits_triple, ih, List.length_cons, Nat.mul_succ]
    omega

/-- consecutive ranges touch: the end of one TermInfo is the start of the next -/
def Contig : List TermInfo → Prop
  | [] => True
  | [_] => True
  | a :: b :: r => a.postEnd = b.postStart ∧ a.posEnd = b.posStart ∧ Contig (b :: r)

def Ordered (l : List TermInfo) : Prop := ∀ t ∈ l, t.postStart ≤ t.postEnd ∧ t.posStart ≤ t.posEnd

theorem Contig.tail {a : TermInfo} {l : List TermInfo} (h : Contig (a :: l)) : Contig l := by
  cases l with
  | nil => trivial
  | cons b r => exact h.2.2

/-- after the triple of `t` come the ends of `t`'s ranges (as the next triple, or as the block ends) -/
theorem go_head (m : Meta) (t : TermInfo) (post : List TermInfo) (hc : Contig (t :: post)) :
    ∃ tail, go m (post.getLastD t) (t :: post) =
      [(t.postStart - m.ref.postStart, m.postBits), (t.posStart - m.ref.posStart, m.posBits),
       (t.docFreq, m.dfBits),
       (t.postEnd - m.ref.postStart, m.postBits), (t.posEnd - m.ref.posStart, m.posBits)] ++ tail := by
  cases post with
  | nil => exact ⟨[], by simp [go, triple]⟩
  | cons u post' =>
    refine ⟨(u.docFreq, m.dfBits) :: go m ((u :: post').getLastD t) post', ?_⟩
    simp only [go, triple, hc.1, hc.2.1, List.cons_append, List.nil_append]

theorem chain_mono (a : TermInfo) (l : List TermInfo) (hc : Contig (a :: l)) (ho : Ordered (a :: l)) :
    ∀ t ∈ a :: l, a.postStart ≤ t.postStart ∧ t.postEnd ≤ (l.getLastD a).postEnd ∧
      a.posStart ≤ t.posStart ∧ t.posEnd ≤ (l.getLastD a).posEnd := by
  induction l generalizing a with
  | nil =>
    intro t ht
    simp at ht; subst ht
    simp
  | cons b r ih =>
    have hoa := ho a (by simp)
    have hob := ho b (by simp)
    have ih' := ih b hc.2.2 (fun t ht => ho t (by simp [ht]))
    have hb := ih' b (by simp)
    intro t ht
    simp only [List.getLastD_cons]
    rcases List.mem_cons.mp ht with rfl | ht
    · have := hc.1; have := hc.2.1
      omega
    · have := ih' t ht
      have := hc.1; have := hc.2.1
      omega

theorem le_foldr_max (l : List Nat) : ∀ x ∈ l, x ≤ l.foldr max 0 := by
  induction l with
  | nil => simp
  | cons a r ih =>
    intro x hx
    simp only [List.foldr_cons]
    rcases List.mem_cons.mp hx with rfl | hx
    · exact Nat.le_max_left _ _
    · exact Nat.le_trans (ih x hx) (Nat.le_max_right _ _)

theorem foldr_max_lt (l : List Nat) (B : Nat) (hB : 0 < B) (h : ∀ x ∈ l, x < B) : l.foldr max 0 < B := by
  induction l with
  | nil => simpa
  | cons a r ih =>
    simp only [List.foldr_cons]
    have := h a (by simp)
    have := ih (fun x hx => h x (by simp [hx]))
    omega

/-- hypotheses on the TermInfos of one block -/
structure GoodBlock (ref : TermInfo) (others : List TermInfo) : Prop where
  contig : Contig (ref :: others)
  ordered : Ordered (ref :: others)
  bound : ∀ t ∈ ref :: others, t.postEnd < 2 ^ 56 ∧ t.posEnd < 2 ^ 56 ∧ t.docFreq < 2 ^ 56

theorem mkMeta_widths (off : Nat) (ref : TermInfo) (others : List TermInfo) (G : GoodBlock ref others) :
    (mkMeta off ref others).postBits ≤ 56 ∧ (mkMeta off ref others).posBits ≤ 56 ∧
    (mkMeta off ref others).dfBits ≤ 56 := by
  have hlast : others.getLastD ref ∈ ref :: others := getLastD_mem_cons ref others
  have hb := G.bound _ hlast
  refine ⟨(lt_pow_computeNumBits 0 _ (Nat.zero_le _) (by omega)).2,
    (lt_pow_computeNumBits 0 _ (Nat.zero_le _) (by omega)).2,
    (lt_pow_computeNumBits 0 _ (Nat.zero_le _) ?_).2⟩
  apply foldr_max_lt _ _ (by decide)
  intro x hx
  obtain ⟨t, ht, rfl⟩ := List.mem_map.mp hx
  exact (G.bound t (by simp [ht])).2.2

theorem allLt_blockFields (off : Nat) (ref : TermInfo) (others : List TermInfo) (G : GoodBlock ref others) :
    AllLt (blockFields (mkMeta off ref others) others) := by
  have hmono := chain_mono ref others G.contig G.ordered
  have hlast : others.getLastD ref ∈ ref :: others := getLastD_mem_cons ref others
  have hbl := G.bound _ hlast
  have hdfmax : (others.map (·.docFreq)).foldr max 0 < 2 ^ 56 := by
    apply foldr_max_lt _ _ (by decide)
    intro x hx
    obtain ⟨t, ht, rfl⟩ := List.mem_map.mp hx
    exact (G.bound t (by simp [ht])).2.2
  intro f hf
  unfold blockFields at hf
  rcases List.mem_append.mp hf with hf | hf
  · obtain ⟨t, ht, hft⟩ := List.mem_flatMap.mp hf
    have hm := hmono t (by simp [ht])
    have hot := G.ordered t (by simp [ht])
    simp only [triple, mkMeta, List.mem_cons, List.mem_nil_iff, or_false] at hft
    rcases hft with rfl | rfl | rfl
    · exact (lt_pow_computeNumBits _ _ (by simp only; omega) (by omega)).1
    · exact (lt_pow_computeNumBits _ _ (by simp only; omega) (by omega)).1
    · exact (lt_pow_computeNumBits _ _ (le_foldr_max _ _ (List.mem_map.mpr ⟨t, ht, rfl⟩)) hdfmax).1
  · simp only [mkMeta, List.mem_cons, List.mem_nil_iff, or_false] at hf
    rcases hf with rfl | rfl
    · exact (lt_pow_computeNumBits _ _ (Nat.le_refl _) (by omega)).1
    · exact (lt_pow_computeNumBits _ _ (Nat.le_refl _) (by omega)).1

theorem getLastD_append_cons {α : Type} (pre : List α) (t : α) (post : List α) (d : α) :
    (pre ++ t :: post).getLastD d = post.getLastD t := by
  induction pre generalizing d with
  | nil => rw [List.nil_append, List.getLastD_cons]
  | cons a pre ih => rw [List.cons_append, List.getLastD_cons, ih]

theorem contig_suffix (a : TermInfo) (pre l : List TermInfo) (h : Contig (a :: (pre ++ l))) : Contig l := by
  induction pre generalizing a with
  | nil => exact h.tail
  | cons b pre ih => exact ih b h.2.2

/-- **one block**: the entry after `pre` decodes to the TermInfo written there, whatever bytes
follow the block -/
theorem block_read_split (off : Nat) (ref : TermInfo) (pre : List TermInfo) (t : TermInfo)
    (post : List TermInfo) (G : GoodBlock ref (pre ++ t :: post))
    (rest : List Nat) (hrest : Bytes rest) :
    deserializeTermInfo (mkMeta off ref (pre ++ t :: post))
      (blockBytes (mkMeta off ref (pre ++ t :: post)) (pre ++ t :: post) ++ rest) pre.length = t := by
  generalize hm : mkMeta off ref (pre ++ t :: post) = m
  have hw := mkMeta_widths off ref _ G
  have hall := allLt_blockFields off ref _ G
  have hmono := chain_mono ref _ G.contig G.ordered
  rw [hm] at hw hall
  have href : m.ref = ref := by rw [← hm]; rfl
  have hcj : Contig (t :: post) := contig_suffix ref pre (t :: post) G.contig
  obtain ⟨tail, htail⟩ := go_head m t post hcj
  have hfields : blockFields m (pre ++ t :: post) =
      pre.flatMap (triple m) ++
        ((t.postStart - m.ref.postStart, m.postBits) :: (t.posStart - m.ref.posStart, m.posBits) ::
          (t.docFreq, m.dfBits) ::
          (t.postEnd - m.ref.postStart, m.postBits) :: (t.posEnd - m.ref.posStart, m.posBits) :: tail) := by
    rw [blockFields_eq_go, getLastD_append_cons, go_append, htail]
    simp only [List.cons_append, List.nil_append]
  have hT : totalBits (pre.flatMap (triple m)) = m.numBits * pre.length := totalBits_flatMap m pre
  generalize pre.flatMap (triple m) = P at hfields hT
  unfold blockBytes
  rw [hfields] at hall ⊢
  -- the five reads
  have r1 := extractBits_field P _ _ _ hall hw.1 rest hrest
  have r2 := extractBits_field (P ++ [(t.postStart - m.ref.postStart, m.postBits)]) _ _ _
    (by simpa using hall) hw.2.1 rest hrest
  have r3 := extractBits_field (P ++ [(t.postStart - m.ref.postStart, m.postBits),
      (t.posStart - m.ref.posStart, m.posBits)]) _ _ _ (by simpa using hall) hw.2.2 rest hrest
  have r4 := extractBits_field (P ++ [(t.postStart - m.ref.postStart, m.postBits),
      (t.posStart - m.ref.posStart, m.posBits), (t.docFreq, m.dfBits)]) _ _ _
    (by simpa using hall) hw.1 rest hrest
  have r5 := extractBits_field (P ++ [(t.postStart - m.ref.postStart, m.postBits),
      (t.posStart - m.ref.posStart, m.posBits), (t.docFreq, m.dfBits),
      (t.postEnd - m.ref.postStart, m.postBits)]) _ _ _ (by simpa using hall) hw.2.1 rest hrest
  simp only [List.append_assoc, List.cons_append, List.nil_append, totalBits_append, totalBits_cons, hT] at r1 r2 r3 r4 r5
  simp only [totalBits, List.map_nil, List.sum_nil, Nat.add_zero] at r2 r3 r4 r5
  have hmj := hmono t (by simp)
  have hot := G.ordered t (by simp)
  unfold deserializeTermInfo
  have a2 : m.numBits * pre.length + m.numBits =
      m.numBits * pre.length + (m.postBits + (m.posBits + m.dfBits)) := by
    simp [Meta.numBits]; omega
  have a5 : m.numBits * pre.length + m.postBits + m.numBits =
      m.numBits * pre.length + (m.postBits + (m.posBits + (m.dfBits + m.postBits))) := by
    simp [Meta.numBits]; omega
  have a3 : m.numBits * pre.length + m.postBits + m.posBits =
      m.numBits * pre.length + (m.postBits + m.posBits) := by omega
  simp only
  rw [a2, a5, a3, r1, r2, r3, r4, r5, href]
  cases t with
  | mk df ps pe qs qe =>
    simp only at hmj hot
    simp only [TermInfo.mk.injEq]
    refine ⟨trivial, ?_, ?_, ?_, ?_⟩ <;> omega

theorem block_read (off : Nat) (ref : TermInfo) (others : List TermInfo) (G : GoodBlock ref others)
    (rest : List Nat) (hrest : Bytes rest) (j : Nat) (hj : j < others.length) :
    deserializeTermInfo (mkMeta off ref others)
      (blockBytes (mkMeta off ref others) others ++ rest) j = others[j] := by
  obtain ⟨pre, t, post, rfl, rfl⟩ : ∃ pre t post, others = pre ++ t :: post ∧ pre.length = j :=
    ⟨others.take j, others[j], others.drop (j + 1),
      by rw [List.getElem_cons_drop, List.take_append_drop], by simp; omega⟩
  rw [block_read_split off ref pre t post G rest hrest]
  simp

/-! ### the whole store -/

/-- hypotheses on the TermInfos of a store: ranges are ordered and below `2^56`, and inside a block
of `BL` consecutive terms the end of a range is the start of the next term's range (this is what the
postings / positions serializers produce: terms are written back to back) -/
structure GoodStore (BL : Nat) (tis : List TermInfo) : Prop where
  ordered : Ordered tis
  bound : ∀ t ∈ tis, t.postEnd < 2 ^ 56 ∧ t.posEnd < 2 ^ 56 ∧ t.docFreq < 2 ^ 56
  contig : ∀ i (h : i + 1 < tis.length), (i + 1) % BL ≠ 0 →
    (tis[i]'(by omega)).postEnd = tis[i + 1].postStart ∧ (tis[i]'(by omega)).posEnd = tis[i + 1].posStart

theorem contig_of_index (l : List TermInfo)
    (h : ∀ i (h : i + 1 < l.length), (l[i]'(by omega)).postEnd = l[i + 1].postStart ∧
      (l[i]'(by omega)).posEnd = l[i + 1].posStart) : Contig l := by
  induction l with
  | nil => trivial
  | cons a r ih =>
    cases r with
    | nil => trivial
    | cons b r' =>
      have h0 := h 0 (by simp)
      refine ⟨h0.1, h0.2, ih ?_⟩
      intro i hi
      have := h (i + 1) (by simp at hi ⊢; omega)
      simpa using this

theorem GoodStore.drop {BL : Nat} {tis : List TermInfo} (G : GoodStore BL tis) :
    GoodStore BL (tis.drop BL) := by
  refine ⟨fun t ht => G.ordered t (List.mem_of_mem_drop ht), fun t ht => G.bound t (List.mem_of_mem_drop ht), ?_⟩
  intro i hi hmod
  have hi' : BL + i + 1 < tis.length := by simp at hi; omega
  have := G.contig (BL + i) hi' (by rw [Nat.add_assoc, Nat.add_mod_left]; exact hmod)
  simp only [List.getElem_drop]
  have e : BL + (i + 1) = BL + i + 1 := by omega
  simp only [e]
  exact this

theorem GoodStore.head {BL : Nat} {tis : List TermInfo} (G : GoodStore BL tis) (ref : TermInfo)
    (others : List TermInfo) (h : tis.take BL = ref :: others) : GoodBlock ref others := by
  have hsub : ∀ t ∈ ref :: others, t ∈ tis := fun t ht => List.mem_of_mem_take (h ▸ ht)
  refine ⟨?_, fun t ht => G.ordered t (hsub t ht), fun t ht => G.bound t (hsub t ht)⟩
  rw [← h]
  apply contig_of_index
  intro i hi
  have hlen : (tis.take BL).length = min BL tis.length := by simp
  have hi1 : i + 1 < BL := by omega
  have hi2 : i + 1 < tis.length := by omega
  have := G.contig i hi2 (by rw [Nat.mod_eq_of_lt hi1]; omega)
  simpa [List.getElem_take] using this

theorem writeBlocks_spec (BL : Nat) (hBL : 0 < BL) (k : Nat) :
    ∀ (tis : List TermInfo) (off : Nat), tis.length ≤ k → GoodStore BL tis →
      Bytes (writeBlocks BL k tis off).2 ∧
      ∀ n (hn : n < tis.length), ∃ m, (writeBlocks BL k tis off).1[n / BL]? = some m ∧
        (n % BL = 0 → m.ref = tis[n]) ∧
        (n % BL ≠ 0 → m.postBits ≤ 56 ∧ m.posBits ≤ 56 ∧ m.dfBits ≤ 56 ∧ off ≤ m.offset ∧
          deserializeTermInfo m ((writeBlocks BL k tis off).2.drop (m.offset - off)) (n % BL - 1) = tis[n]) := by
  induction k with
  | zero =>
    intro tis off hk _
    have : tis = [] := List.length_eq_zero_iff.mp (by omega)
    subst this
    exact ⟨by intro b hb; simp [writeBlocks] at hb, fun n hn => by simp at hn⟩
  | succ k ih =>
    intro tis off hk G
    cases htake : tis.take BL with
    | nil =>
      have : tis = [] := by
        rcases List.take_eq_nil_iff.mp htake with h | h
        · omega
        · exact h
      subst this
      exact ⟨by intro b hb; simp [writeBlocks] at hb, fun n hn => by simp at hn⟩
    | cons ref others =>
      have GB := G.head ref others htake
      have hlen : (tis.take BL).length = min BL tis.length := by simp
      rw [htake] at hlen
      simp only [List.length_cons] at hlen
      have hdroplen : (tis.drop BL).length ≤ k := by simp; omega
      have ih' := ih (tis.drop BL) (off + (blockBytes (mkMeta off ref others) others).length) hdroplen G.drop
      simp only [writeBlocks, htake]
      generalize hr : writeBlocks BL k (tis.drop BL) (off + (blockBytes (mkMeta off ref others) others).length) = r at ih'
      refine ⟨?_, ?_⟩
      · intro b hb
        rcases List.mem_append.mp hb with h | h
        · exact natToLe_bytes _ _ b h
        · exact ih'.1 b h
      · intro n hn
        rcases Nat.lt_or_ge n BL with hlt | hge
        · -- in this block
          have hdiv : n / BL = 0 := Nat.div_eq_of_lt hlt
          have hmod : n % BL = n := Nat.mod_eq_of_lt hlt
          have hnl : n < (ref :: others).length := by simp only [List.length_cons]; omega
          have helem : (ref :: others)[n] = tis[n] := by
            have : (tis.take BL)[n]'(by rw [htake]; exact hnl) = tis[n] := by simp [List.getElem_take]
            simpa [htake] using this
          refine ⟨mkMeta off ref others, by simp [hdiv], ?_, ?_⟩
          · intro h0
            have : n = 0 := by omega
            subst this
            simpa [mkMeta] using helem
          · intro hne
            have hw := mkMeta_widths off ref others GB
            obtain ⟨n', rfl⟩ : ∃ n', n = n' + 1 := ⟨n - 1, by omega⟩
            have hj : n' < others.length := by simp only [List.length_cons] at hnl; omega
            refine ⟨hw.1, hw.2.1, hw.2.2, Nat.le_refl _, ?_⟩
            have hoff : (mkMeta off ref others).offset - off = 0 := by simp [mkMeta]
            rw [hoff, List.drop_zero, hmod, Nat.add_sub_cancel,
              block_read off ref others GB r.2 ih'.1 n' hj, ← helem]
            simp
        · -- in a later block
          have hn' : n - BL < (tis.drop BL).length := by simp; omega
          obtain ⟨m, hm1, hm2, hm3⟩ := ih'.2 (n - BL) hn'
          have hdiv : n / BL = (n - BL) / BL + 1 := by
            have e : n = (n - BL) + BL := by omega
            conv => lhs; rw [e, Nat.add_div_right _ hBL]
          have hmod : n % BL = (n - BL) % BL := by
            have e : n = (n - BL) + BL := by omega
            conv => lhs; rw [e, Nat.add_mod_right]
          have helem : (tis.drop BL)[n - BL] = tis[n] := by
            simp only [List.getElem_drop]
            congr 1; omega
          refine ⟨m, by rw [hdiv]; simpa using hm1, ?_, ?_⟩
          · intro h0; rw [← helem]; exact hm2 (by omega)
          · intro hne
            have := hm3 (by omega)
            refine ⟨this.1, this.2.1, this.2.2.1, by omega, ?_⟩
            rw [hmod, ← helem, ← this.2.2.2.2]
            congr 1
            have e : m.offset - off = (blockBytes (mkMeta off ref others) others).length +
                (m.offset - (off + (blockBytes (mkMeta off ref others) others).length)) := by omega
            rw [e, ← List.drop_drop, List.drop_left' rfl]

/-- **the store**: ordinal `n` returns the `n`-th TermInfo written -/
theorem get_write (BL : Nat) (hBL : 0 < BL) (tis : List TermInfo) (G : GoodStore BL tis)
    (n : Nat) (hn : n < tis.length) : get BL (write BL tis) n = some tis[n] := by
  obtain ⟨m, h1, h2, h3⟩ := (writeBlocks_spec BL hBL tis.length tis 0 (Nat.le_refl _) G).2 n hn
  unfold get write
  rw [h1]
  by_cases h0 : n % BL = 0
  · simp [h0, h2 h0]
  · have := h3 h0
    have hg : ¬ (56 < m.postBits ∨ 56 < m.posBits ∨ 56 < m.dfBits) := by omega
    simp only [h0, if_false, hg]
    rw [← this.2.2.2.2]
    simp

end TantivyModel.TermInfoStore
