import TantivyModel.Proofs.GrammarCharsNested
import TantivyModel.Proofs.GrammarCharsHat
namespace TantivyModel.Grammar.Chars
open TantivyModel.Grammar

/-! ## boosts `x^2.5` on operands whose end does not depend on what follows -/

theorem digit_ne_dot (d : Char) (h : d.isDigit = true) : (d != '.') = true := by
  have : d ≠ '.' := by
    intro e; rw [e] at h; exact absurd h (by decide)
  simp [this]

theorem dropWhile_digits (ds x : Str) (hd : ∀ d ∈ ds, d.isDigit = true) :
    (ds ++ x).dropWhile (· != '.') = x.dropWhile (· != '.') := by
  induction ds with
  | nil => rfl
  | cons d rest ih =>
    have h1 := digit_ne_dot d (hd d (by simp))
    simp only [List.cons_append, List.dropWhile_cons, h1, if_true]
    exact ih (fun e he => hd e (List.mem_cons_of_mem _ he))

theorem takeDigits_append_nd (ds x : Str) (hd : ∀ d ∈ ds, d.isDigit = true)
    (hx : ∀ c r, x = c :: r → c.isDigit = false) : takeDigits (ds ++ x) = (ds, x) := by
  induction ds with
  | nil =>
    cases x with
    | nil => rfl
    | cons c r => simp [takeDigits, List.takeWhile, List.dropWhile, hx c r rfl]
  | cons d rest ih =>
    have h1 := hd d (by simp)
    have ih' := ih (fun e he => hd e (List.mem_cons_of_mem _ he))
    simp only [takeDigits, Prod.mk.injEq] at ih' ⊢
    simp [List.takeWhile, List.dropWhile, h1, ih'.1, ih'.2]

theorem rem_not_dot (t : Str) (ht : Rem t) : ∀ r', t ≠ '.' :: r' := by
  intro r' h
  rcases ht with rfl | ⟨t', rfl, _⟩ | ⟨t', rfl⟩
  · cases h
  · exact absurd (List.cons.inj h).1 (by decide)
  · exact absurd (List.cons.inj h).1 (by decide)

theorem decimal_int (s d r : Str) (h : takeDigits s = (d, r)) (hd : d.isEmpty = false)
    (hr : ∀ r', r ≠ '.' :: r') : decimal s = some (d, r) := by
  unfold decimal
  rw [h]
  simp only [hd, Bool.false_eq_true, ↓reduceIte]

theorem decimal_frac (s d r' f r'' : Str) (h : takeDigits s = (d, '.' :: r')) (hd : d.isEmpty = false)
    (h2 : takeDigits r' = (f, r'')) (hf : f.isEmpty = false) : decimal s = some (d ++ '.' :: f, r'') := by
  unfold decimal
  rw [h]
  simp [hd, h2, hf]

theorem decimal_print (b : BoostLit) (hb : WFBoost b) (t : Str) (ht : Rem t) :
    decimal (b.text ++ t) = some (b.text, t) := by
  obtain ⟨hne, hi, hf⟩ := hb
  have hie : b.int.isEmpty = false := by
    cases hb' : b.int with
    | nil => exact absurd hb' hne
    | cons _ _ => rfl
  cases hfr : b.frac with
  | nil =>
    have e : b.text = b.int := by simp [BoostLit.text, hfr]
    rw [e]
    exact decimal_int _ _ _ (takeDigits_append b.int t hi ht) hie (rem_not_dot t ht)
  | cons c fr =>
    have e : b.text = b.int ++ '.' :: (c :: fr) := by simp [BoostLit.text, hfr]
    rw [e]
    have hf' : ∀ d ∈ c :: fr, d.isDigit = true := by rw [← hfr]; exact hf
    have h1 : takeDigits (b.int ++ '.' :: ((c :: fr) ++ t)) = (b.int, '.' :: ((c :: fr) ++ t)) :=
      takeDigits_append_nd b.int _ hi (by
        intro c' r' h'; rw [← (List.cons.inj h').1]; decide)
    have h2 := takeDigits_append (c :: fr) t hf' ht
    have e2 : (b.int ++ '.' :: (c :: fr)) ++ t = b.int ++ '.' :: ((c :: fr) ++ t) := by simp
    rw [e2]
    exact decimal_frac _ _ _ _ _ h1 hie h2 rfl

theorem boost_print (b : BoostLit) (hb : WFBoost b) (t : Str) (ht : Rem t) :
    boost ('^' :: (b.text ++ t)) = (some b.val, t) := by
  have hdec := decimal_print b hb t ht
  obtain ⟨hne, hi, hf⟩ := hb
  have hfi : b.int.filter Char.isDigit = b.int := List.filter_eq_self.mpr hi
  have hff : b.frac.filter Char.isDigit = b.frac := List.filter_eq_self.mpr hf
  unfold boost
  simp only [hdec]
  cases hfr : b.frac with
  | nil =>
    have e : b.text = b.int := by simp [BoostLit.text, hfr]
    have hdw : b.int.dropWhile (· != '.') = [] := by
      have := dropWhile_digits b.int [] hi
      simpa using this
    simp [e, hfi, hdw, BoostLit.val, hfr]
  | cons c fr =>
    have e : b.text = b.int ++ '.' :: (c :: fr) := by simp [BoostLit.text, hfr]
    have hdw : (b.int ++ '.' :: (c :: fr)).dropWhile (· != '.') = '.' :: (c :: fr) := by
      rw [dropWhile_digits b.int _ hi]
      simp [List.dropWhile]
    have hff' : (c :: fr).filter Char.isDigit = c :: fr := by rw [← hfr]; exact hff
    have hdot : Char.isDigit '.' = false := by decide
    simp only [e, hdw, List.filter_append, List.filter_cons, hdot, hfi]
    simp [hff', BoostLit.val, hfr]
    simp [List.filter_cons] at hff'
    simp [hff']

/-- an operand whose parse does not depend on what follows it (it ends with a closing bracket) -/
structure Closed (g : Bool) (o : Opd) : Prop where
  head : ∃ c r, o.text = c :: r ∧ isNomSpace c = false ∧ c ≠ ':' ∧ c ≠ '+' ∧ c ≠ '-' ∧ c ≠ ')'
  noOp : ∀ t, binaryOperand (o.text ++ t) = (none, o.text ++ t)
  parse : ∀ t f, o.cost ≤ f → pLeaf g f (o.text ++ t) = .ok o.leaf t
  small : o.cost ≤ 4 * o.text.length

theorem Closed.toGood {g : Bool} {o : Opd} (h : Closed g o) : GoodOpd g o :=
  ⟨h.head, fun t _ => h.noOp t, fun t _ f hf => h.parse t f hf, h.small⟩

/-- an operand that can be followed by a boost: what the parser does when `^` follows it -/
structure Boostable (g : Bool) (o : Opd) : Prop where
  head : ∃ c r, o.text = c :: r ∧ isNomSpace c = false ∧ c ≠ ':' ∧ c ≠ '+' ∧ c ≠ '-' ∧ c ≠ ')'
  noOp : ∀ x, binaryOperand (o.text ++ '^' :: x) = (none, o.text ++ '^' :: x)
  parse : ∀ x f, o.cost ≤ f → pLeaf g f (o.text ++ '^' :: x) = .ok o.leaf ('^' :: x)
  small : o.cost ≤ 4 * o.text.length

theorem Closed.toBoostable {g : Bool} {o : Opd} (h : Closed g o) : Boostable g o :=
  ⟨h.head, fun x => h.noOp _, fun x f hf => h.parse _ f hf, h.small⟩

/-- a boost after a boostable operand is an item of a list -/
theorem goodItem_boost (g : Bool) (o : Opd) (b : BoostLit) (ho : Boostable g o) (hb : WFBoost b) :
    GoodItem g (boostOpd o b) := by
  obtain ⟨c, r, hcr, h1, h2, h3, h4, h5⟩ := ho.head
  refine ⟨⟨c, r ++ '^' :: b.text, by simp [boostOpd, hcr], h1, h2, h3, h4, h5⟩, ?_, ?_, ?_⟩
  · intro t _
    have e : (boostOpd o b).text ++ t = o.text ++ ('^' :: (b.text ++ t)) := by simp [boostOpd]
    rw [e]
    exact ho.noOp _
  · intro t ht f hf
    have e : (boostOpd o b).text ++ t = o.text ++ ('^' :: (b.text ++ t)) := by simp [boostOpd]
    rw [e]
    have hp := ho.parse (b.text ++ t) f (by simpa [boostOpd] using hf)
    simp [pLeafB, hp, R.bind, boost_print b hb t ht, boostOpd]
  · have := ho.small
    simp only [boostOpd, List.length_append, List.length_cons]
    omega

/-- a plain word can be boosted -/
theorem boostable_word (g : Bool) (w : Str) (hw : PlainWord w) : Boostable g (wordOpd w) := by
  obtain ⟨c, r, rfl⟩ := List.exists_cons_of_ne_nil hw.ne
  have hc : plain c = true := hw.all c (by simp)
  refine ⟨⟨c, r, rfl, (plain_not_space c hc).2, plain_ne c ':' hc (by decide), plain_ne c '+' hc (by decide),
    plain_ne c '-' hc (by decide), plain_ne c ')' hc (by decide)⟩, ?_, ?_, ?_⟩
  · intro x
    exact binaryOperand_hat (c :: r) x hw
  · intro x f hf
    obtain ⟨f', rfl⟩ : ∃ f', f = f' + 1 := ⟨f - 1, by simp [wordOpd] at hf; omega⟩
    exact pLeaf_hat c r x hw g f'
  · simp [wordOpd]; omega

/-- `name:word` can be boosted -/
theorem boostable_fieldWord (g : Bool) (f w : Str) (hf : PlainWord f) (hw : PlainWord w) :
    Boostable g (fieldWordOpd f w) := by
  obtain ⟨c, r, rfl⟩ := List.exists_cons_of_ne_nil hf.ne
  obtain ⟨d, s, rfl⟩ := List.exists_cons_of_ne_nil hw.ne
  have hc : plain c = true := hf.all c (by simp)
  have hd : plain d = true := hw.all d (by simp)
  refine ⟨⟨c, r ++ ':' :: d :: s, rfl, (plain_not_space c hc).2, plain_ne c ':' hc (by decide),
    plain_ne c '+' hc (by decide), plain_ne c '-' hc (by decide), plain_ne c ')' hc (by decide)⟩, ?_, ?_, ?_⟩
  · intro x
    have e : (fieldWordOpd (c :: r) (d :: s)).text ++ '^' :: x = (c :: r) ++ ':' :: (d :: (s ++ '^' :: x)) := by
      simp [fieldWordOpd]
    rw [e]
    exact binaryOperand_field (c :: r) _ hf
  · intro x fu hfu
    obtain ⟨f', rfl⟩ : ∃ f', fu = f' + 1 := ⟨fu - 1, by simp [fieldWordOpd] at hfu; omega⟩
    have e : (fieldWordOpd (c :: r) (d :: s)).text ++ '^' :: x = c :: (r ++ ':' :: (d :: (s ++ '^' :: x))) := by
      simp [fieldWordOpd]
    rw [e]
    have hsk : skip0 (d :: (s ++ '^' :: x)) = d :: (s ++ '^' :: x) := by
      simp [skip0, List.dropWhile, (plain_not_space d hd).2]
    exact pLeaf_field g f' c r _ hf _ _
      (plainLiteral_field g c r _ hf hsk (fieldName_hat d s x hw) _ _ _ _ _ (plainLiteral_hat d s x hw g))
  · simp [fieldWordOpd]; omega

/-- a quoted phrase (any characters, optional slop / prefix star) can be boosted -/
theorem boostable_phrase (g : Bool) (body : Str) (sx : Sfx) (hs : WFSfx sx) :
    Boostable g (phraseEscOpd body sx) := by
  refine ⟨⟨'"', escQuoted body ++ '"' :: sx.text, rfl, by decide, by decide, by decide, by decide, by decide⟩, ?_, ?_, ?_⟩
  · intro x
    simp [phraseEscOpd, binaryOperand, tag, List.isPrefixOf]
  · intro x f hf
    obtain ⟨f', rfl⟩ : ∃ f', f = f' + 1 := ⟨f - 1, by simp [phraseEscOpd] at hf; omega⟩
    have htext : (phraseEscOpd body sx).text ++ '^' :: x = '"' :: (escQuoted body ++ '"' :: (sx.text ++ '^' :: x)) := by
      simp [phraseEscOpd]
    rw [htext]
    have hp := plainLiteral_phraseEsc g body (sx.text ++ '^' :: x) ('^' :: x) _ _ (slopOrPrefix_sfx_hat sx hs x)
    generalize escQuoted body ++ '"' :: (sx.text ++ '^' :: x) = y at hp
    unfold pLeaf
    simp [R.orElse, tag, List.isPrefixOf, hp, phraseEscOpd]
  · simp [phraseEscOpd]; omega

/-- `name:"phrase"` can be boosted -/
theorem boostable_fieldPhrase (g : Bool) (f body : Str) (sx : Sfx) (hf : PlainWord f) (hs : WFSfx sx) :
    Boostable g (fieldPhraseEscOpd f body sx) := by
  obtain ⟨c, r, rfl⟩ := List.exists_cons_of_ne_nil hf.ne
  have hc : plain c = true := hf.all c (by simp)
  refine ⟨⟨c, r ++ ':' :: '"' :: (escQuoted body ++ '"' :: sx.text), rfl, (plain_not_space c hc).2,
    plain_ne c ':' hc (by decide), plain_ne c '+' hc (by decide), plain_ne c '-' hc (by decide),
    plain_ne c ')' hc (by decide)⟩, ?_, ?_, ?_⟩
  · intro x
    have e : (fieldPhraseEscOpd (c :: r) body sx).text ++ '^' :: x
        = (c :: r) ++ ':' :: ('"' :: (escQuoted body ++ '"' :: (sx.text ++ '^' :: x))) := by
      simp [fieldPhraseEscOpd]
    rw [e]
    exact binaryOperand_field (c :: r) _ hf
  · intro x fu hfu
    obtain ⟨f', rfl⟩ : ∃ f', fu = f' + 1 := ⟨fu - 1, by simp [fieldPhraseEscOpd] at hfu; omega⟩
    have e : (fieldPhraseEscOpd (c :: r) body sx).text ++ '^' :: x
        = c :: (r ++ ':' :: ('"' :: (escQuoted body ++ '"' :: (sx.text ++ '^' :: x)))) := by
      simp [fieldPhraseEscOpd]
    rw [e]
    have hp := plainLiteral_phraseEsc g body (sx.text ++ '^' :: x) ('^' :: x) _ _ (slopOrPrefix_sfx_hat sx hs x)
    generalize escQuoted body ++ '"' :: (sx.text ++ '^' :: x) = y at hp
    exact pLeaf_field g f' c r _ hf _ _
      (plainLiteral_field g c r _ hf (by simp [skip0, List.dropWhile, isNomSpace])
        (by simp [fieldName, specialChars]) _ _ _ _ _ hp)
  · simp [fieldPhraseEscOpd]; omega

/-- a parenthesised list of good items is closed -/
theorem closed_group (g : Bool) (lead : Nat) (occ : Option Occur) (o : Opd) (more : List PItem) (k : Nat)
    (ho : GoodItem g o) (hm : ∀ it ∈ more, GoodItem g it.opd) :
    Closed g (groupOpd lead occ o more k) := by
  refine ⟨⟨'(', printList lead occ o more k [')'], rfl, by decide, by decide, by decide, by decide, by decide⟩,
    ?_, ?_, ?_⟩
  · intro t
    simp [groupOpd, binaryOperand, tag, List.isPrefixOf]
  · intro t f hf
    simp only [groupOpd] at hf
    obtain ⟨f', rfl⟩ : ∃ f', f = f' + 1 := ⟨f - 1, by omega⟩
    have hp := pAst_print g lead occ o more k (')' :: t) (Or.inr ⟨t, rfl⟩) ho hm f' (by omega)
    have htext : (groupOpd lead occ o more k).text ++ t = '(' :: printList lead occ o more k (')' :: t) := by
      simp [groupOpd, printList_append]
    rw [htext]
    unfold pLeaf
    simp [hp, R.bind, R.orElse, groupOpd]
  · have h1 := ho.small
    have h2 := needRest_le g more k [')'] hm
    simp only [groupOpd, printList, List.length_cons, List.length_append, List.length_nil] at h2 ⊢
    omega

/-- a bracketed range is closed -/
theorem closed_range (g : Bool) (lo hi : Bool) (w1 w2 : Str) (hw1 : PlainBound w1) (hw2 : PlainBound w2) :
    Closed g (rangeOpd lo hi w1 w2) := by
  obtain ⟨c1, r1, rfl⟩ := List.exists_cons_of_ne_nil hw1.1
  obtain ⟨c2, r2, rfl⟩ := List.exists_cons_of_ne_nil hw2.1
  refine ⟨⟨if lo then '[' else '{', _, rfl, ?_⟩, ?_, ?_, ?_⟩
  · cases lo <;> decide
  · intro t
    cases lo <;> simp [rangeOpd, rangeText, binaryOperand, tag, List.isPrefixOf]
  · intro t f hf
    obtain ⟨f', rfl⟩ : ∃ f', f = f' + 1 := ⟨f - 1, by simp [rangeOpd] at hf; omega⟩
    have e : (rangeOpd lo hi (c1 :: r1) (c2 :: r2)).text ++ t
        = (if lo then '[' else '{') :: (c1 :: (r1 ++ ' ' :: 'T' :: 'O' :: ' ' :: (c2 :: (r2 ++ (if hi then ']' else '}') :: t)))) := by
      simp [rangeOpd, rangeText]
    rw [e]
    exact pLeaf_bracket g f' lo _ _ t (plainLiteral_range g lo hi c1 r1 c2 r2 t hw1.2 hw2.2)
  · simp [rangeOpd, rangeText]; omega

/-- `IN [a b c]` is closed -/
theorem closed_set (g : Bool) (k0 k1 : Nat) (w : Str) (more : List (Nat × Str)) (h : PlainElems w more) :
    Closed g (setOpd k0 k1 w more) := by
  obtain ⟨hw, hm⟩ := h
  obtain ⟨c, r, rfl⟩ := List.exists_cons_of_ne_nil hw.ne
  refine ⟨⟨'I', _, rfl, by decide, by decide, by decide, by decide, by decide⟩, ?_, ?_, ?_⟩
  · intro t
    simp [setOpd, setText, binaryOperand, tag, List.isPrefixOf]
  · intro t f hf
    obtain ⟨f', rfl⟩ : ∃ f', f = f' + 1 := ⟨f - 1, by simp [setOpd] at hf; omega⟩
    have e : (setOpd k0 k1 (c :: r) more).text ++ t
        = 'I' :: 'N' :: ' ' :: (spaces k0 ++ '[' :: (spaces k1 ++ c :: (r ++ (elemsText more ++ ']' :: t)))) := by
      simp [setOpd, setText]
    rw [e]
    have hp := plainLiteral_set g k0 k1 c r more t hw hm
    generalize spaces k0 ++ '[' :: (spaces k1 ++ c :: (r ++ (elemsText more ++ ']' :: t))) = S at hp
    unfold pLeaf
    simp [R.orElse, tag, List.isPrefixOf, hp, setOpd]
  · simp [setOpd, setText]; omega

/-- `name:[a TO b]` is closed -/
theorem closed_fieldRange (g : Bool) (f : Str) (lo hi : Bool) (w1 w2 : Str) (hf : PlainWord f)
    (hw1 : PlainBound w1) (hw2 : PlainBound w2) : Closed g (fieldRangeOpd f lo hi w1 w2) := by
  obtain ⟨c, r, rfl⟩ := List.exists_cons_of_ne_nil hf.ne
  obtain ⟨c1, r1, rfl⟩ := List.exists_cons_of_ne_nil hw1.1
  obtain ⟨c2, r2, rfl⟩ := List.exists_cons_of_ne_nil hw2.1
  have hc : plain c = true := hf.all c (by simp)
  refine ⟨⟨c, _, rfl, (plain_not_space c hc).2, plain_ne c ':' hc (by decide),
    plain_ne c '+' hc (by decide), plain_ne c '-' hc (by decide), plain_ne c ')' hc (by decide)⟩, ?_, ?_, ?_⟩
  · intro t
    have e : (fieldRangeOpd (c :: r) lo hi (c1 :: r1) (c2 :: r2)).text ++ t
        = (c :: r) ++ ':' :: ((if lo then '[' else '{') :: (c1 :: (r1 ++ ' ' :: 'T' :: 'O' :: ' ' :: (c2 :: (r2 ++ (if hi then ']' else '}') :: t))))) := by
      simp [fieldRangeOpd, rangeText]
    rw [e]
    exact binaryOperand_field (c :: r) _ hf
  · intro t fu hfu
    obtain ⟨f', rfl⟩ : ∃ f', fu = f' + 1 := ⟨fu - 1, by simp [fieldRangeOpd] at hfu; omega⟩
    have e : (fieldRangeOpd (c :: r) lo hi (c1 :: r1) (c2 :: r2)).text ++ t
        = c :: (r ++ ':' :: ((if lo then '[' else '{') :: (c1 :: (r1 ++ ' ' :: 'T' :: 'O' :: ' ' :: (c2 :: (r2 ++ (if hi then ']' else '}') :: t)))))) := by
      simp [fieldRangeOpd, rangeText]
    rw [e]
    have hp := plainLiteral_range g lo hi c1 r1 c2 r2 t hw1.2 hw2.2
    generalize c1 :: (r1 ++ ' ' :: 'T' :: 'O' :: ' ' :: (c2 :: (r2 ++ (if hi then ']' else '}') :: t))) = x at hp
    exact pLeaf_field g f' c r _ hf _ t
      (plainLiteral_field_range g c r _ hf (by cases lo <;> simp [skip0, List.dropWhile, isNomSpace])
        (by cases lo <;> simp [fieldName, specialChars]) _ _ t hp)
  · simp [fieldRangeOpd, rangeText]; omega

/-- `name:IN [a b c]` is closed -/
theorem closed_fieldSet (g : Bool) (f : Str) (k0 k1 : Nat) (w : Str) (more : List (Nat × Str))
    (hf : PlainWord f) (h : PlainElems w more) : Closed g (fieldSetOpd f k0 k1 w more) := by
  obtain ⟨hw, hm⟩ := h
  obtain ⟨c, r, rfl⟩ := List.exists_cons_of_ne_nil hw.ne
  obtain ⟨cf, rf, rfl⟩ := List.exists_cons_of_ne_nil hf.ne
  have hc : plain cf = true := hf.all cf (by simp)
  refine ⟨⟨cf, _, rfl, (plain_not_space cf hc).2, plain_ne cf ':' hc (by decide),
    plain_ne cf '+' hc (by decide), plain_ne cf '-' hc (by decide), plain_ne cf ')' hc (by decide)⟩, ?_, ?_, ?_⟩
  · intro t
    have e : (fieldSetOpd (cf :: rf) k0 k1 (c :: r) more).text ++ t
        = (cf :: rf) ++ ':' :: ('I' :: 'N' :: ' ' :: (spaces k0 ++ '[' :: (spaces k1 ++ c :: (r ++ (elemsText more ++ ']' :: t))))) := by
      simp [fieldSetOpd, setText]
    rw [e]
    exact binaryOperand_field (cf :: rf) _ hf
  · intro t fu hfu
    obtain ⟨f', rfl⟩ : ∃ f', fu = f' + 1 := ⟨fu - 1, by simp [fieldSetOpd] at hfu; omega⟩
    have e : (fieldSetOpd (cf :: rf) k0 k1 (c :: r) more).text ++ t
        = cf :: (rf ++ ':' :: ('I' :: 'N' :: ' ' :: (spaces k0 ++ '[' :: (spaces k1 ++ c :: (r ++ (elemsText more ++ ']' :: t)))))) := by
      simp [fieldSetOpd, setText]
    rw [e]
    have hp := plainLiteral_set g k0 k1 c r more t hw hm
    have hfn := fieldName_set k0 (spaces k1 ++ c :: (r ++ (elemsText more ++ ']' :: t)))
    generalize spaces k0 ++ '[' :: (spaces k1 ++ c :: (r ++ (elemsText more ++ ']' :: t))) = S at hp hfn
    exact pLeaf_field g f' cf rf _ hf _ t
      (plainLiteral_field_set g cf rf _ hf (by simp [skip0, List.dropWhile, isNomSpace]) hfn _ t hp)
  · simp [fieldSetOpd, setText]; omega

theorem leafAlt_paren (x : Str) : leafAlt ('(' :: x) = none := by
  have h2 : range ('(' :: x) = none := by
    simp [range, skip0, List.dropWhile, isNomSpace, tag, List.isPrefixOf]
  have h3 : set ('(' :: x) = none := by
    simp [set, skip0, List.dropWhile, isNomSpace, tag, List.isPrefixOf]
  have h4 : exists_ ('(' :: x) = none := by
    simp [exists_, skip0, List.dropWhile, isNomSpace]
  have h5 : regex ('(' :: x) = none := by simp [regex]
  have hn : negativeNumber ('(' :: x) = none := by
    unfold negativeNumber
    split
    · rename_i heq; exact absurd (List.cons.inj heq).1 (by decide)
    · rfl
  have hw : word ('(' :: x) = none := by
    unfold word
    split
    · rename_i heq; exact absurd (List.cons.inj heq).1 (by decide)
    · rename_i heq
      obtain ⟨rfl, rfl⟩ := List.cons.inj heq
      simp [escapeInWord]
    · rfl
  have hst : simpleTerm ('(' :: x) = none := by
    unfold simpleTerm
    rw [hn]
    simp [hw]
  simp [leafAlt, h2, h3, h4, h5, termOrPhrase, hst]

/-- `name:( … )` with a list of good items inside is closed; its tree is the list's tree with the
    field set on every leaf that has none (`set_default_field`) -/
theorem closed_fieldGroup (g : Bool) (f : Str) (lead : Nat) (occ : Option Occur) (o : Opd) (more : List PItem)
    (k : Nat) (hf : PlainWord f) (ho : GoodItem g o) (hm : ∀ it ∈ more, GoodItem g it.opd) :
    Closed g (fieldGroupOpd f lead occ o more k) := by
  obtain ⟨c, r, rfl⟩ := List.exists_cons_of_ne_nil hf.ne
  have hc : plain c = true := hf.all c (by simp)
  refine ⟨⟨c, _, rfl, (plain_not_space c hc).2, plain_ne c ':' hc (by decide),
    plain_ne c '+' hc (by decide), plain_ne c '-' hc (by decide), plain_ne c ')' hc (by decide)⟩, ?_, ?_, ?_⟩
  · intro t
    have e : (fieldGroupOpd (c :: r) lead occ o more k).text ++ t
        = (c :: r) ++ ':' :: ('(' :: printList lead occ o more k (')' :: t)) := by
      simp [fieldGroupOpd, printList_append]
    rw [e]
    exact binaryOperand_field (c :: r) _ hf
  · intro t fu hfu
    simp only [fieldGroupOpd] at hfu
    obtain ⟨f', rfl⟩ : ∃ f', fu = f' + 1 := ⟨fu - 1, by omega⟩
    have e : (fieldGroupOpd (c :: r) lead occ o more k).text ++ t
        = c :: (r ++ ':' :: ('(' :: printList lead occ o more k (')' :: t))) := by
      simp [fieldGroupOpd, printList_append]
    rw [e]
    have hp := pAst_print g 0 occ o more k (')' :: t) (Or.inr ⟨t, rfl⟩) ho hm f' (by omega)
    have hsk : skip0 (printList lead occ o more k (')' :: t)) = printList 0 occ o more k (')' :: t) := by
      have := skip0_printList g lead occ o ho (printRest more k (')' :: t))
      simpa [printList, spaces] using this
    generalize printList lead occ o more k (')' :: t) = X at hsk
    have hfn : fieldName (c :: (r ++ ':' :: ('(' :: X))) = some (c :: r, '(' :: X) :=
      fieldName_field c r ('(' :: X) hf (by simp [skip0, List.dropWhile, isNomSpace])
    have hpl : plainLiteral g (c :: (r ++ ':' :: ('(' :: X))) = .fail := by
      rw [plainLiteral_eq, hfn]
      simp [leafAlt_paren]
    have h1 : c ≠ '(' := plain_ne c '(' hc (by decide)
    have h2 : c ≠ '*' := plain_ne c '*' hc (by decide)
    have hs0 : skip0 ('(' :: X) = '(' :: X := by simp [skip0, List.dropWhile, isNomSpace]
    unfold pLeaf
    cases htag : tag ['N', 'O', 'T'] (c :: (r ++ ':' :: ('(' :: X))) with
    | none => simp [h1, h2, R.orElse, hpl, hfn, hs0, hsk, hp, R.bind, fieldGroupOpd]
    | some rest =>
      have := tag_plain_skip1' ['N', 'O', 'T'] (c :: r) (':' :: ('(' :: X)) rest (by decide) hf.all hf.ne
        (plainWord_ne_keyword _ _ hf (by simp [keywords])) (nph_colon _) (by simpa using htag)
      simp [h1, h2, R.orElse, this, hpl, hfn, hs0, hsk, hp, R.bind, fieldGroupOpd]
  · have h1 := ho.small
    have h2 := needRest_le g more k [')'] hm
    simp only [fieldGroupOpd, printList, List.length_cons, List.length_append, List.length_nil] at h2 ⊢
    omega

theorem quotedBody_escS (body t : Str) :
    quotedBody '\'' (escSingle body ++ '\'' :: t) = some (body, t) := by
  induction body with
  | nil =>
    show quotedBody '\'' ('\'' :: t) = some ([], t)
    unfold quotedBody
    split
    · rename_i heq; cases heq
    · rename_i heq; exact absurd (List.cons.inj heq).1 (by decide)
    · rename_i heq
      obtain ⟨rfl, rfl⟩ := List.cons.inj heq
      simp
  | cons c rest ih =>
    by_cases hc : (c == '\'' || c == '\\') = true
    · have e : escSingle (c :: rest) ++ '\'' :: t = '\\' :: c :: (escSingle rest ++ '\'' :: t) := by
        simp [escSingle, hc]
      rw [e]
      unfold quotedBody
      split
      · rename_i heq; cases heq
      · rename_i heq
        obtain ⟨_, h2⟩ := List.cons.inj heq
        obtain ⟨rfl, rfl⟩ := List.cons.inj h2
        simp [ih]
      · rename_i hne heq
        obtain ⟨rfl, rfl⟩ := List.cons.inj heq
        exact (hne c (escSingle rest ++ '\'' :: t) rfl rfl).elim
    · have hc' : (c == '\'' || c == '\\') = false := by simpa using hc
      have h1 : c ≠ '\'' := by intro h; simp [h] at hc'
      have h2 : c ≠ '\\' := by intro h; simp [h] at hc'
      have e : escSingle (c :: rest) ++ '\'' :: t = c :: (escSingle rest ++ '\'' :: t) := by
        simp [escSingle, hc']
      rw [e]
      unfold quotedBody
      split
      · rename_i heq; cases heq
      · rename_i heq; exact absurd (List.cons.inj heq).1 h2
      · rename_i heq
        obtain ⟨rfl, rfl⟩ := List.cons.inj heq
        simp [h1, ih]

theorem plainLiteral_phraseS (g : Bool) (body u t : Str) (sl : Nat) (px : Bool)
    (hu : slopOrPrefix u = ((sl, px), t)) :
    plainLiteral g ('\'' :: (escSingle body ++ '\'' :: u)) = .ok (.leaf (.literal none body .single sl px)) t := by
  generalize hx : escSingle body ++ '\'' :: u = x
  have h1 : fieldName ('\'' :: x) = none := by simp [fieldName, specialChars]
  have h2 : range ('\'' :: x) = none := by
    simp [range, skip0, List.dropWhile, isNomSpace, tag, List.isPrefixOf]
  have h3 : set ('\'' :: x) = none := by
    simp [set, skip0, List.dropWhile, isNomSpace, tag, List.isPrefixOf]
  have h4 : exists_ ('\'' :: x) = none := by
    simp [exists_, skip0, List.dropWhile, isNomSpace]
  have h5 : regex ('\'' :: x) = none := by simp [regex]
  have hn : negativeNumber ('\'' :: x) = none := by
    unfold negativeNumber
    split
    · rename_i heq; exact absurd (List.cons.inj heq).1 (by decide)
    · rfl
  have hst : simpleTerm ('\'' :: x) = some ((.single, body), u) := by
    have hq : quotedBody '\'' x = some (body, u) := by
      rw [← hx]; exact quotedBody_escS body u
    unfold simpleTerm
    rw [hn]
    simp [hq]
  have h6 : termOrPhrase ('\'' :: x) = some (.literal none body .single sl px, t) := by
    simp [termOrPhrase, hst, hu]
  simp [plainLiteral, h1, h2, h3, h4, h5, h6, setField]

/-- a single-quoted phrase of any characters, printed with escapes, optionally with a slop or the
    prefix star, is a good operand -/
theorem goodOpd_phraseS (g : Bool) (body : Str) (x : Sfx) (hx : WFSfx x) :
    GoodOpd g (phraseSOpd body x) := by
  refine ⟨⟨'\'', escSingle body ++ '\'' :: x.text, rfl, by decide, by decide, by decide, by decide, by decide⟩, ?_, ?_, ?_⟩
  · intro t _
    simp [phraseSOpd, binaryOperand, tag, List.isPrefixOf]
  · intro t ht f hf
    obtain ⟨f', rfl⟩ : ∃ f', f = f' + 1 := ⟨f - 1, by simp [phraseSOpd] at hf; omega⟩
    have htext : (phraseSOpd body x).text ++ t = '\'' :: (escSingle body ++ '\'' :: (x.text ++ t)) := by
      simp [phraseSOpd]
    rw [htext]
    have hp := plainLiteral_phraseS g body (x.text ++ t) t _ _ (slopOrPrefix_sfx x hx t ht)
    generalize escSingle body ++ '\'' :: (x.text ++ t) = y at hp
    unfold pLeaf
    simp [R.orElse, tag, List.isPrefixOf, hp, phraseSOpd]
  · simp [phraseSOpd]; omega

/-- a single-quoted phrase can be boosted -/
theorem boostable_phraseS (g : Bool) (body : Str) (sx : Sfx) (hs : WFSfx sx) :
    Boostable g (phraseSOpd body sx) := by
  refine ⟨⟨'\'', escSingle body ++ '\'' :: sx.text, rfl, by decide, by decide, by decide, by decide, by decide⟩, ?_, ?_, ?_⟩
  · intro x
    simp [phraseSOpd, binaryOperand, tag, List.isPrefixOf]
  · intro x f hf
    obtain ⟨f', rfl⟩ : ∃ f', f = f' + 1 := ⟨f - 1, by simp [phraseSOpd] at hf; omega⟩
    have htext : (phraseSOpd body sx).text ++ '^' :: x = '\'' :: (escSingle body ++ '\'' :: (sx.text ++ '^' :: x)) := by
      simp [phraseSOpd]
    rw [htext]
    have hp := plainLiteral_phraseS g body (sx.text ++ '^' :: x) ('^' :: x) _ _ (slopOrPrefix_sfx_hat sx hs x)
    generalize escSingle body ++ '\'' :: (sx.text ++ '^' :: x) = y at hp
    unfold pLeaf
    simp [R.orElse, tag, List.isPrefixOf, hp, phraseSOpd]
  · simp [phraseSOpd]; omega

/-- `name:'phrase'` is a good operand -/
theorem goodOpd_fieldPhraseS (g : Bool) (f body : Str) (x : Sfx) (hf : PlainWord f) (hx : WFSfx x) :
    GoodOpd g (fieldPhraseSOpd f body x) := by
  obtain ⟨c, r, rfl⟩ := List.exists_cons_of_ne_nil hf.ne
  have hc : plain c = true := hf.all c (by simp)
  refine ⟨⟨c, r ++ ':' :: '\'' :: (escSingle body ++ '\'' :: x.text), rfl, (plain_not_space c hc).2,
    plain_ne c ':' hc (by decide), plain_ne c '+' hc (by decide), plain_ne c '-' hc (by decide),
    plain_ne c ')' hc (by decide)⟩, ?_, ?_, ?_⟩
  · intro t _
    have e : (fieldPhraseSOpd (c :: r) body x).text ++ t
        = (c :: r) ++ ':' :: ('\'' :: (escSingle body ++ '\'' :: (x.text ++ t))) := by
      simp [fieldPhraseSOpd]
    rw [e]
    exact binaryOperand_field (c :: r) _ hf
  · intro t ht f hfu
    obtain ⟨f', rfl⟩ : ∃ f', f = f' + 1 := ⟨f - 1, by simp [fieldPhraseSOpd] at hfu; omega⟩
    have e : (fieldPhraseSOpd (c :: r) body x).text ++ t
        = c :: (r ++ ':' :: ('\'' :: (escSingle body ++ '\'' :: (x.text ++ t)))) := by
      simp [fieldPhraseSOpd]
    rw [e]
    have hp := plainLiteral_phraseS g body (x.text ++ t) t _ _ (slopOrPrefix_sfx x hx t ht)
    generalize escSingle body ++ '\'' :: (x.text ++ t) = y at hp
    exact pLeaf_field g f' c r _ hf _ t
      (plainLiteral_field g c r _ hf (by simp [skip0, List.dropWhile, isNomSpace])
        (by simp [fieldName, specialChars]) _ _ _ _ t hp)
  · simp [fieldPhraseSOpd]; omega

/-- `*` can be boosted -/
theorem boostable_all (g : Bool) : Boostable g allOpd := by
  refine ⟨⟨'*', [], rfl, by decide, by decide, by decide, by decide, by decide⟩, ?_, ?_, ?_⟩
  · intro x
    simp [allOpd, binaryOperand, tag, List.isPrefixOf]
  · intro x f hf
    obtain ⟨f', rfl⟩ : ∃ f', f = f' + 1 := ⟨f - 1, by simp [allOpd] at hf; omega⟩
    show pLeaf g (f' + 1) ('*' :: '^' :: x) = .ok (.leaf .all) ('^' :: x)
    unfold pLeaf
    simp [R.orElse, allAhead, escapeInWord, isNomSpace]
  · simp [allOpd]

theorem leafAlt_star_hat (x : Str) : leafAlt ('*' :: '^' :: x) = some (.exists [], '^' :: x) := by
  have h2 : range ('*' :: '^' :: x) = none := by
    simp [range, skip0, List.dropWhile, isNomSpace, tag, List.isPrefixOf]
  have h3 : set ('*' :: '^' :: x) = none := by
    simp [set, skip0, List.dropWhile, isNomSpace, tag, List.isPrefixOf]
  have h4 : exists_ ('*' :: '^' :: x) = some ('^' :: x) := by
    have : isUniSpace '^' = false := by decide
    simp [exists_, skip0, List.dropWhile, isNomSpace, existsAhead, escapeInWord, this]
  simp [leafAlt, h2, h3, h4]

/-- `name:*` can be boosted -/
theorem boostable_exists (g : Bool) (f : Str) (hf : PlainWord f) : Boostable g (existsOpd f) := by
  obtain ⟨c, r, rfl⟩ := List.exists_cons_of_ne_nil hf.ne
  have hc : plain c = true := hf.all c (by simp)
  refine ⟨⟨c, r ++ [':', '*'], rfl, (plain_not_space c hc).2, plain_ne c ':' hc (by decide),
    plain_ne c '+' hc (by decide), plain_ne c '-' hc (by decide), plain_ne c ')' hc (by decide)⟩, ?_, ?_, ?_⟩
  · intro x
    have e : (existsOpd (c :: r)).text ++ '^' :: x = (c :: r) ++ ':' :: ('*' :: '^' :: x) := by simp [existsOpd]
    rw [e]
    exact binaryOperand_field (c :: r) _ hf
  · intro x fu hfu
    obtain ⟨f', rfl⟩ : ∃ f', fu = f' + 1 := ⟨fu - 1, by simp [existsOpd] at hfu; omega⟩
    have e : (existsOpd (c :: r)).text ++ '^' :: x = c :: (r ++ ':' :: ('*' :: '^' :: x)) := by simp [existsOpd]
    rw [e]
    refine pLeaf_field g f' c r _ hf _ _ ?_
    rw [plainLiteral_eq, fieldName_field c r ('*' :: '^' :: x) hf (by simp [skip0, List.dropWhile, isNomSpace])]
    simp [leafAlt_star_hat x, setField, existsOpd]
  · simp [existsOpd]; omega

/-- `NOT x` can be boosted when `x` can (the boost applies to the `NOT` clause) -/
theorem boostable_not (g : Bool) (k : Nat) (o : Opd) (ho : Boostable g o) : Boostable g (notOpd k o) := by
  refine ⟨⟨'N', 'O' :: 'T' :: ' ' :: (spaces k ++ o.text), rfl, by decide, by decide, by decide, by decide, by decide⟩,
    ?_, ?_, ?_⟩
  · intro x
    simp [notOpd, binaryOperand, tag, List.isPrefixOf]
  · intro x f hf
    simp only [notOpd] at hf
    obtain ⟨f', rfl⟩ : ∃ f', f = f' + 1 := ⟨f - 1, by omega⟩
    have hp := ho.parse x f' (by omega)
    obtain ⟨c, r, hcr, hsp, _⟩ := ho.head
    have hsk : skip0 (' ' :: (spaces k ++ (o.text ++ '^' :: x))) = o.text ++ '^' :: x := by
      have := skip0_spaces (k + 1) (o.text ++ '^' :: x) (by
        intro c' r' h'
        rw [hcr] at h'
        simp only [List.cons_append, List.cons.injEq] at h'
        rw [← h'.1]; exact hsp)
      simpa [spaces, List.replicate_succ] using this
    have htext : (notOpd k o).text ++ '^' :: x = 'N' :: 'O' :: 'T' :: ' ' :: (spaces k ++ (o.text ++ '^' :: x)) := by
      simp [notOpd]
    have hs1 := skip1_space (spaces k ++ (o.text ++ '^' :: x))
    rw [hsk] at hs1
    rw [htext]
    generalize o.text ++ '^' :: x = X at hp hs1
    generalize spaces k ++ X = Y at hs1
    unfold pLeaf
    simp [R.orElse, tag, List.isPrefixOf, hs1, hp, R.map, notOpd]
  · have := ho.small
    simp only [notOpd, List.length_cons, List.length_append]
    omega

/-- operands at leaf level that can be followed by a boost (everything except elastic ranges, whose
    relaxed bound would swallow the `^`, and groups, which have their own constructors) -/
inductive BoostKind : Opd → Prop where
  | word (w : Str) (hw : PlainWord w) : BoostKind (wordOpd w)
  | fieldWord (f w : Str) (hf : PlainWord f) (hw : PlainWord w) : BoostKind (fieldWordOpd f w)
  | phrase (body : Str) (sx : Sfx) (hs : WFSfx sx) : BoostKind (phraseEscOpd body sx)
  | fieldPhrase (f body : Str) (sx : Sfx) (hf : PlainWord f) (hs : WFSfx sx) : BoostKind (fieldPhraseEscOpd f body sx)
  | phraseS (body : Str) (sx : Sfx) (hs : WFSfx sx) : BoostKind (phraseSOpd body sx)
  | all : BoostKind allOpd
  | existsField (f : Str) (hf : PlainWord f) : BoostKind (existsOpd f)
  | range (lo hi : Bool) (w1 w2 : Str) (h1 : PlainBound w1) (h2 : PlainBound w2) : BoostKind (rangeOpd lo hi w1 w2)
  | set (k0 k1 : Nat) (w : Str) (more : List (Nat × Str)) (h : PlainElems w more) : BoostKind (setOpd k0 k1 w more)
  | not (k : Nat) (o : Opd) (h : BoostKind o) : BoostKind (notOpd k o)

theorem boostKind_boostable (g : Bool) (o : Opd) (h : BoostKind o) : Boostable g o := by
  induction h with
  | word w hw => exact boostable_word g w hw
  | fieldWord f w hf hw => exact boostable_fieldWord g f w hf hw
  | phrase body sx hs => exact boostable_phrase g body sx hs
  | fieldPhrase f body sx hf hs => exact boostable_fieldPhrase g f body sx hf hs
  | phraseS body sx hs => exact boostable_phraseS g body sx hs
  | all => exact boostable_all g
  | existsField f hf => exact boostable_exists g f hf
  | range lo hi w1 w2 h1 h2 => exact (closed_range g lo hi w1 w2 h1 h2).toBoostable
  | set k0 k1 w more h => exact (closed_set g k0 k1 w more h).toBoostable
  | not k o _ ih => exact boostable_not g k o ih

/-- items of a list with boosts: `b = false` for an operand at leaf level, `b = true` for a boosted one -/
inductive WFB : Bool → Opd → Prop where
  | base (o : Opd) (h : WFOpd o) : WFB false o
  | group (lead : Nat) (occ : Option Occur) (o : Opd) (more : List PItem) (k : Nat) (bo : Bool)
      (bm : PItem → Bool) (ho : WFB bo o) (hm : ∀ it ∈ more, WFB (bm it) it.opd) :
      WFB false (groupOpd lead occ o more k)
  | fieldGroup (f : Str) (lead : Nat) (occ : Option Occur) (o : Opd) (more : List PItem) (k : Nat) (bo : Bool)
      (bm : PItem → Bool) (hf : PlainWord f) (ho : WFB bo o) (hm : ∀ it ∈ more, WFB (bm it) it.opd) :
      WFB false (fieldGroupOpd f lead occ o more k)
  | boostFieldGroup (f : Str) (lead : Nat) (occ : Option Occur) (o : Opd) (more : List PItem) (k : Nat) (bo : Bool)
      (bm : PItem → Bool) (hf : PlainWord f) (ho : WFB bo o) (hm : ∀ it ∈ more, WFB (bm it) it.opd)
      (b : BoostLit) (hb : WFBoost b) : WFB true (boostOpd (fieldGroupOpd f lead occ o more k) b)
  | not (k : Nat) (o : Opd) (ho : WFB false o) : WFB false (notOpd k o)
  | phraseS (body : Str) (sx : Sfx) (hs : WFSfx sx) : WFB false (phraseSOpd body sx)
  | fieldPhraseS (f body : Str) (sx : Sfx) (hf : PlainWord f) (hs : WFSfx sx) : WFB false (fieldPhraseSOpd f body sx)
  | boostKind (o : Opd) (h : BoostKind o) (b : BoostLit) (hb : WFBoost b) : WFB true (boostOpd o b)
  | boostGroup (lead : Nat) (occ : Option Occur) (o : Opd) (more : List PItem) (k : Nat) (bo : Bool)
      (bm : PItem → Bool) (ho : WFB bo o) (hm : ∀ it ∈ more, WFB (bm it) it.opd) (b : BoostLit) (hb : WFBoost b) :
      WFB true (boostOpd (groupOpd lead occ o more k) b)
  | boostWord (w : Str) (hw : PlainWord w) (b : BoostLit) (hb : WFBoost b) : WFB true (boostOpd (wordOpd w) b)
  | boostFieldWord (f w : Str) (hf : PlainWord f) (hw : PlainWord w) (b : BoostLit) (hb : WFBoost b) :
      WFB true (boostOpd (fieldWordOpd f w) b)
  | boostPhrase (body : Str) (sx : Sfx) (hs : WFSfx sx) (b : BoostLit) (hb : WFBoost b) :
      WFB true (boostOpd (phraseEscOpd body sx) b)
  | boostFieldPhrase (f body : Str) (sx : Sfx) (hf : PlainWord f) (hs : WFSfx sx) (b : BoostLit) (hb : WFBoost b) :
      WFB true (boostOpd (fieldPhraseEscOpd f body sx) b)
  | boostRange (lo hi : Bool) (w1 w2 : Str) (h1 : PlainBound w1) (h2 : PlainBound w2) (b : BoostLit) (hb : WFBoost b) :
      WFB true (boostOpd (rangeOpd lo hi w1 w2) b)
  | boostFieldRange (f : Str) (lo hi : Bool) (w1 w2 : Str) (hf : PlainWord f) (h1 : PlainBound w1)
      (h2 : PlainBound w2) (b : BoostLit) (hb : WFBoost b) : WFB true (boostOpd (fieldRangeOpd f lo hi w1 w2) b)
  | boostSet (k0 k1 : Nat) (w : Str) (more : List (Nat × Str)) (h : PlainElems w more) (b : BoostLit)
      (hb : WFBoost b) : WFB true (boostOpd (setOpd k0 k1 w more) b)
  | boostFieldSet (f : Str) (k0 k1 : Nat) (w : Str) (more : List (Nat × Str)) (hf : PlainWord f)
      (h : PlainElems w more) (b : BoostLit) (hb : WFBoost b) : WFB true (boostOpd (fieldSetOpd f k0 k1 w more) b)

theorem wfb_good (g : Bool) (bo : Bool) (o : Opd) (h : WFB bo o) :
    GoodItem g o ∧ (bo = false → GoodOpd g o) := by
  induction h with
  | base o h => exact ⟨(wf_good g o h).toItem, fun _ => wf_good g o h⟩
  | group lead occ o more k bo bm _ _ iho ihm =>
    have := goodOpd_group g lead occ o more k iho.1 (fun it hi => (ihm it hi).1)
    exact ⟨this.toItem, fun _ => this⟩
  | fieldGroup f lead occ o more k bo bm hf _ _ iho ihm =>
    have := (closed_fieldGroup g f lead occ o more k hf iho.1 (fun it hi => (ihm it hi).1)).toGood
    exact ⟨this.toItem, fun _ => this⟩
  | boostFieldGroup f lead occ o more k bo bm hf _ _ b hb iho ihm =>
    exact ⟨goodItem_boost g _ b
      (closed_fieldGroup g f lead occ o more k hf iho.1 (fun it hi => (ihm it hi).1)).toBoostable hb,
      fun h => Bool.noConfusion h⟩
  | not k o _ ih =>
    have := goodOpd_not g k o (ih.2 rfl)
    exact ⟨this.toItem, fun _ => this⟩
  | phraseS body sx hs =>
    have := goodOpd_phraseS g body sx hs
    exact ⟨this.toItem, fun _ => this⟩
  | fieldPhraseS f body sx hf hs =>
    have := goodOpd_fieldPhraseS g f body sx hf hs
    exact ⟨this.toItem, fun _ => this⟩
  | boostKind o h b hb =>
    exact ⟨goodItem_boost g _ b (boostKind_boostable g o h) hb, fun h => Bool.noConfusion h⟩
  | boostGroup lead occ o more k bo bm _ _ b hb iho ihm =>
    exact ⟨goodItem_boost g _ b (closed_group g lead occ o more k iho.1 (fun it hi => (ihm it hi).1)).toBoostable hb,
      fun h => Bool.noConfusion h⟩
  | boostWord w hw b hb =>
    exact ⟨goodItem_boost g _ b (boostable_word g w hw) hb, fun h => Bool.noConfusion h⟩
  | boostFieldWord f w hf hw b hb =>
    exact ⟨goodItem_boost g _ b (boostable_fieldWord g f w hf hw) hb, fun h => Bool.noConfusion h⟩
  | boostPhrase body sx hs b hb =>
    exact ⟨goodItem_boost g _ b (boostable_phrase g body sx hs) hb, fun h => Bool.noConfusion h⟩
  | boostFieldPhrase f body sx hf hs b hb =>
    exact ⟨goodItem_boost g _ b (boostable_fieldPhrase g f body sx hf hs) hb, fun h => Bool.noConfusion h⟩
  | boostRange lo hi w1 w2 h1 h2 b hb =>
    exact ⟨goodItem_boost g _ b (closed_range g lo hi w1 w2 h1 h2).toBoostable hb, fun h => Bool.noConfusion h⟩
  | boostFieldRange f lo hi w1 w2 hf h1 h2 b hb =>
    exact ⟨goodItem_boost g _ b (closed_fieldRange g f lo hi w1 w2 hf h1 h2).toBoostable hb, fun h => Bool.noConfusion h⟩
  | boostSet k0 k1 w more h b hb =>
    exact ⟨goodItem_boost g _ b (closed_set g k0 k1 w more h).toBoostable hb, fun h => Bool.noConfusion h⟩
  | boostFieldSet f k0 k1 w more hf h b hb =>
    exact ⟨goodItem_boost g _ b (closed_fieldSet g f k0 k1 w more hf h).toBoostable hb, fun h => Bool.noConfusion h⟩

/-- the whole strict parser on a printed list whose items may carry boosts -/
theorem parseStrictWith_printList_boost (g : Bool) (lead : Nat) (occ : Option Occur) (o : Opd)
    (more : List PItem) (k : Nat) (ho : ∃ b, WFB b o) (hm : ∀ it ∈ more, ∃ b, WFB b it.opd) :
    parseStrictWith g (printList lead occ o more k []) = .tree (rewrite (listTree occ o more)) := by
  obtain ⟨b, hb⟩ := ho
  exact parseStrictWith_items g lead occ o more k (wfb_good g b o hb).1
    (fun it hi => by
      obtain ⟨bi, hbi⟩ := hm it hi
      exact (wfb_good g bi it.opd hbi).1)

end TantivyModel.Grammar.Chars
