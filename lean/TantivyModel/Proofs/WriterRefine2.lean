import TantivyModel.Proofs.WriterMergeEndD
/-!
Every run of the writer model — merges included — in which `delete_all_documents` is issued only
in clean states and no delete is stamped with the opstamp of the last commit while committed
segments exist (F8), keeps both invariants with the sequential replay of its history.
-/
namespace TantivyModel.Writer
open TantivyModel.WriterSpec

variable {α : Type} [DecidableEq α]

/-- the hypotheses of the refinement theorem, event by event -/
def okEvent2 (s : WState α) : Event α → Prop
  | .deleteAll => cleanState s
  | .del _ => s.committed = [] ∨ s.metas.opstamp < s.stamper
  | .batch items =>
      s.committed = [] ∨ ∀ del ∈ batchDels (stampItems s.stamper items), s.metas.opstamp < del.op
  | .stamp _ => False
  | .publish _ => False
  | _ => True

def okRun2 (s : WState α) : List (Event α) → Prop
  | [] => True
  | e :: es => okEvent2 s e ∧ ∀ s' r, step s e = some (s', r) → okRun2 s' es

theorem workers_idle_ids (ws : List (Worker α)) (h : ∀ w ∈ ws, w.seg = none) : ws.flatMap workerIds = [] :=
  flatMap_nil_of _ _ (fun w hw => by simp [workerIds, h w hw])

theorem minv_init (n : Nat) : MInv (WState.init n : WState α) := by
  have hw : (WState.init n : WState α).workers.flatMap workerIds = [] := by
    apply workers_idle_ids
    intro w hw
    simp only [WState.init, List.mem_replicate] at hw
    rw [hw.2]
  have hall : allIds (WState.init n : WState α) = [] := by
    simp only [allIds, pipeIds, hw]
    simp [WState.init, segIds, resultIds, regs]
  refine ⟨by rw [hall]; exact List.nodup_nil, by intro i hi; rw [hall] at hi; simp at hi,
    by intro m hm; simp [WState.init] at hm, by intro m hm; simp [WState.init] at hm,
    by intro m hm; simp [WState.init] at hm, by simp [WState.init, segIds],
    by intro sg hsg; simp [WState.init] at hsg, by intro m hm; simp [WState.init] at hm,
    by intro sg hsg; simp [WState.init] at hsg, by intro sg hsg; simp [WState.init] at hsg, Or.inl rfl⟩

/-- both invariants, one step -/
theorem inv_step2 (s s' : WState α) (t : SpecState α) (e : Event α) (r : Nat)
    (hw : WInv s t.pending t.committed) (hm : MInv s) (hok : okEvent2 s e) (hstep : step s e = some (s', r)) :
    WInv s' (specAfter t e).pending (specAfter t e).committed ∧ MInv s' := by
  cases e with
  | add d =>
    refine ⟨inv_step s s' t _ r hw trivial hstep, ?_⟩
    simp only [step, Option.some.injEq, Prod.mk.injEq] at hstep
    obtain ⟨rfl, _⟩ := hstep
    exact minv_frame s _ hm rfl rfl rfl rfl rfl rfl rfl rfl
  | del q =>
    refine ⟨inv_step s s' t _ r hw trivial hstep, ?_⟩
    simp only [step, Option.some.injEq, Prod.mk.injEq] at hstep
    obtain ⟨rfl, _⟩ := hstep
    have := minv_grow s _ _ hw hm [.del q] 0 s.channel (by
      rcases hok with h | h
      · exact Or.inl h
      · right; intro del hd
        simp [stampItems, batchDels] at hd
        rw [hd]; exact h)
    simpa [growState, stampItems, batchDels, batchAdds] using this
  | batch items =>
    refine ⟨inv_step s s' t _ r hw trivial hstep, ?_⟩
    simp only [step, batch_fold, List.nil_append, Option.some.injEq, Prod.mk.injEq] at hstep
    obtain ⟨rfl, _⟩ := hstep
    have := minv_grow s _ _ hw hm items 1
      (if (batchAdds (stampItems s.stamper items)).isEmpty then s.channel
        else s.channel ++ [batchAdds (stampItems s.stamper items)]) hok
    simpa [growState] using this
  | deleteAll =>
    refine ⟨inv_step s s' t _ r hw hok hstep, ?_⟩
    simp only [step, Option.some.injEq, Prod.mk.injEq] at hstep
    obtain ⟨rfl, _⟩ := hstep
    exact minv_deleteAll s hm
  | commit p =>
    refine ⟨inv_step s s' t _ r hw trivial hstep, ?_⟩
    simp only [step] at hstep
    split at hstep
    · rename_i hq
      simp only [Option.some.injEq, Prod.mk.injEq] at hstep
      obtain ⟨rfl, _⟩ := hstep
      exact minv_commit s _ _ hw hm hq p
    · cases hstep
  | rollback =>
    refine ⟨inv_step s s' t _ r hw trivial hstep, ?_⟩
    simp only [step, Option.some.injEq, Prod.mk.injEq] at hstep
    obtain ⟨rfl, _⟩ := hstep
    exact minv_rollback s _ _ hw hm
  | prepare =>
    refine ⟨inv_step s s' t _ r hw trivial hstep, ?_⟩
    simp only [step] at hstep
    split at hstep
    · rename_i hq
      simp only [Option.some.injEq, Prod.mk.injEq] at hstep
      obtain ⟨rfl, _⟩ := hstep
      obtain ⟨_, hwk, _⟩ := quiescent_iff s hq
      refine minv_frame s _ hm ?_ rfl rfl rfl rfl rfl rfl rfl
      rw [workers_idle_ids s.workers hwk]
      apply workers_idle_ids
      intro w hw'
      simp only [List.mem_map] at hw'
      obtain ⟨_, _, rfl⟩ := hw'
      rfl
    · cases hstep
  | recv w =>
    refine ⟨inv_step s s' t _ r hw trivial hstep, ?_⟩
    simp only [step] at hstep
    split at hstep
    · rename_i b rest wk hc hwk
      split at hstep
      · rename_i hseg
        split at hstep
        · cases hstep
        · rename_i first tl
          simp only [Option.some.injEq, Prod.mk.injEq] at hstep
          obtain ⟨rfl, _⟩ := hstep
          exact minv_recv_idle s hm w wk rest _ _ _ hwk hseg
      · rename_i sg hseg
        simp only [Option.some.injEq, Prod.mk.injEq] at hstep
        obtain ⟨rfl, _⟩ := hstep
        refine minv_frame s _ hm ?_ rfl rfl rfl rfl rfl rfl rfl
        apply flatMap_set_same workerIds s.workers w wk _ hwk
        simp [workerIds, hseg]
    · cases hstep
  | cut w =>
    refine ⟨inv_step s s' t _ r hw trivial hstep, ?_⟩
    simp only [step] at hstep
    split at hstep
    · rename_i wk hwk
      split at hstep
      · rename_i sg hseg
        simp only [Option.some.injEq, Prod.mk.injEq] at hstep
        obtain ⟨rfl, _⟩ := hstep
        exact minv_cut s hm w wk sg (finalize s.log sg) _ hwk hseg rfl
      · cases hstep
    · cases hstep
  | register =>
    refine ⟨inv_step s s' t _ r hw trivial hstep, ?_⟩
    simp only [step] at hstep
    split at hstep
    · rename_i sg rest hi
      simp only [Option.some.injEq, Prod.mk.injEq] at hstep
      obtain ⟨rfl, _⟩ := hstep
      exact minv_register s hm sg rest hi
    · cases hstep
  | tick =>
    refine ⟨inv_step s s' t _ r hw trivial hstep, ?_⟩
    simp only [step, Option.some.injEq, Prod.mk.injEq] at hstep
    obtain ⟨rfl, _⟩ := hstep
    exact minv_frame s _ hm rfl rfl rfl rfl rfl rfl rfl rfl
  | flush =>
    refine ⟨inv_step s s' t _ r hw trivial hstep, ?_⟩
    simp only [step, Option.some.injEq, Prod.mk.injEq] at hstep
    obtain ⟨rfl, _⟩ := hstep
    exact minv_frame s _ hm rfl rfl rfl rfl rfl rfl rfl rfl
  | mergeStart ids policy =>
    have hspec : specAfter t (.mergeStart ids policy) = t := rfl
    rw [hspec]
    simp only [step] at hstep
    split at hstep
    · cases hstep
    · rename_i hguard
      simp only [Bool.or_eq_true, Bool.not_eq_true', decide_eq_false_iff_not, not_or, Bool.not_eq_true,
        Decidable.not_not] at hguard
      have hne : ids ≠ [] := by
        intro he; rw [he] at hguard; simp at hguard
      have hnd : ids.Nodup := by
        have := hguard.2; simpa using this
      split at hstep
      · rename_i hcond
        simp only [Bool.and_eq_true] at hcond
        have hp : present ids s.uncommitted := (idsIn_iff ids s.uncommitted).mp hcond.1
        simp only [Option.some.injEq, Prod.mk.injEq] at hstep
        obtain ⟨rfl, _⟩ := hstep
        obtain ⟨hg, hid⟩ := good_start_uncommitted s _ _ hw hm ids hne hnd hp
        constructor
        · exact winv_congr { s with stamper := s.stamper + 1 } _ _ _ (inv_tick s _ _ hw) rfl rfl rfl rfl rfl rfl rfl rfl rfl
        · exact minv_mergeStart s hm (s.stamper + 1) _ hne
            (fun i hi => by obtain ⟨x, hx, he⟩ := hp i hi; exact ⟨x, List.mem_append_left _ hx, he⟩) hg hid
      · split at hstep
        · rename_i hcond
          have hp : present ids s.committed := (idsIn_iff ids s.committed).mp hcond
          simp only [Option.some.injEq, Prod.mk.injEq] at hstep
          obtain ⟨rfl, _⟩ := hstep
          obtain ⟨hg, hid⟩ := good_start_committed s _ _ hw hm ids hne hnd hp
          constructor
          · exact winv_congr s _ _ _ hw rfl rfl rfl rfl rfl rfl rfl rfl rfl
          · exact minv_mergeStart s hm s.stamper _ hne
              (fun i hi => by obtain ⟨x, hx, he⟩ := hp i hi; exact ⟨x, List.mem_append_right _ hx, he⟩) hg hid
        · cases hstep
  | mergeEnd k =>
    have hspec : specAfter t (.mergeEnd k) = t := rfl
    rw [hspec]
    simp only [step] at hstep
    split at hstep
    · cases hstep
    · rename_i m hk
      split at hstep
      · rename_i hcond
        have hp : present m.ids s.uncommitted := (idsIn_iff m.ids s.uncommitted).mp hcond
        simp only [Option.some.injEq, Prod.mk.injEq] at hstep
        obtain ⟨rfl, _⟩ := hstep
        exact ⟨winv_endU s _ _ hw hm k m hk hp, minv_endU s _ _ hw hm k m hk hp⟩
      · split at hstep
        · rename_i hcond
          have hp : present m.ids s.committed := (idsIn_iff m.ids s.committed).mp hcond
          simp only [Option.some.injEq, Prod.mk.injEq] at hstep
          obtain ⟨rfl, _⟩ := hstep
          exact ⟨winv_endC s _ _ hw hm k m hk hp, minv_endC s _ _ hw hm k m hk hp⟩
        · simp only [Option.some.injEq, Prod.mk.injEq] at hstep
          obtain ⟨rfl, _⟩ := hstep
          exact ⟨winv_congr s _ _ _ hw rfl rfl rfl rfl rfl rfl rfl rfl rfl, minv_end0 s hm k⟩
  | stamp op => exact hok.elim
  | publish k => exact hok.elim

theorem inv_run2 (s s' : WState α) (t : SpecState α) (es : List (Event α))
    (hw : WInv s t.pending t.committed) (hm : MInv s) (hok : okRun2 s es) (hrun : run s es = some s') :
    WInv s' (replayFrom t (history es)).pending (replayFrom t (history es)).committed ∧ MInv s' := by
  induction es generalizing s t with
  | nil =>
    simp only [run, Option.some.injEq] at hrun
    subst hrun
    exact ⟨hw, hm⟩
  | cons e es ih =>
    simp only [run] at hrun
    split at hrun
    · rename_i s1 r hstep
      rw [history_cons]
      obtain ⟨hw1, hm1⟩ := inv_step2 s s1 t e r hw hm hok.1 hstep
      exact ih s1 (specAfter t e) hw1 hm1 (hok.2 s1 r hstep) hrun
    · cases hrun

end TantivyModel.Writer
