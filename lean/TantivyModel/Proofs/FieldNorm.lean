import TantivyModel.Model.FieldNorm
/-! helper lemmas: field norm codes over any strictly increasing table, then the extracted one -/
namespace TantivyModel.FieldNorm

theorem fieldnormToId_mono (T : List Nat) {n m : Nat} (h : n ≤ m) :
    fieldnormToId T n ≤ fieldnormToId T m := by
  unfold fieldnormToId
  have : T.countP (· ≤ n) ≤ T.countP (· ≤ m) := by
    apply List.countP_mono_left
    intro x _ hx
    simp at hx ⊢; omega
  omega

/-- in a strictly increasing list the entries `≤ n` form a prefix: the last of them is at index
`count − 1`, and the entry after it (if any) is `> n` -/
theorem count_le_bracket (T : List Nat) (hT : T.Pairwise (· < ·)) (n : Nat) :
    (0 < T.countP (· ≤ n) → T.getD (T.countP (· ≤ n) - 1) 0 ≤ n) ∧
    (T.countP (· ≤ n) < T.length → n < T.getD (T.countP (· ≤ n)) 0) := by
  induction T with
  | nil => simp
  | cons a t ih =>
    have hp := List.pairwise_cons.mp hT
    have ih := ih hp.2
    by_cases ha : a ≤ n
    · have hc : (a :: t).countP (· ≤ n) = t.countP (· ≤ n) + 1 := by simp [List.countP_cons, ha]
      rw [hc]
      constructor
      · intro _
        by_cases h0 : t.countP (· ≤ n) = 0
        · simp [h0, ha]
        · have := ih.1 (by omega)
          have e : t.countP (· ≤ n) + 1 - 1 = (t.countP (· ≤ n) - 1) + 1 := by omega
          rw [e]
          simpa [List.getD_cons_succ] using this
      · intro hl
        have := ih.2 (by simpa using hl)
        simpa [List.getD_cons_succ] using this
    · have hc0 : t.countP (· ≤ n) = 0 := by
        rw [List.countP_eq_zero]
        intro x hx
        have := hp.1 x hx
        simp; omega
      have hc : (a :: t).countP (· ≤ n) = 0 := by simp [List.countP_cons, ha, hc0]
      rw [hc]
      constructor
      · intro h; omega
      · intro _; simp; omega

theorem getD_countP_self (T : List Nat) (hT : T.Pairwise (· < ·)) (i : Nat) (hi : i < T.length) :
    T.countP (· ≤ T.getD i 0) = i + 1 := by
  induction T generalizing i with
  | nil => simp at hi
  | cons a t ih =>
    have hp := List.pairwise_cons.mp hT
    cases i with
    | zero =>
      have : t.countP (· ≤ a) = 0 := by
        rw [List.countP_eq_zero]
        intro x hx
        have := hp.1 x hx
        simp; omega
      simp [List.countP_cons, this]
    | succ i =>
      have hi' : i < t.length := by simpa using hi
      have hmem : t.getD i 0 ∈ t := by
        simp [List.getD_eq_getElem?_getD, List.getElem?_eq_getElem hi']
      have hlt := hp.1 _ hmem
      have := ih hp.2 i hi'
      simp only [List.getD_cons_succ, List.countP_cons, this]
      have : a ≤ t.getD i 0 := by omega
      simpa using this

/-- `fieldnorm_to_id (id_to_fieldnorm i) = i` for every index of a strictly increasing table -/
theorem roundtrip_of_sorted (T : List Nat) (hT : T.Pairwise (· < ·)) (i : Nat) (hi : i < T.length) :
    fieldnormToId T (idToFieldnorm T i) = i := by
  unfold fieldnormToId idToFieldnorm
  rw [getD_countP_self T hT i hi]; omega

/-- the extracted table is strictly increasing, starts at 0 and has 256 entries -/
theorem table_sorted : table.Pairwise (· < ·) := by decide +kernel
theorem table_length : table.length = 256 := by decide +kernel
theorem table_zero : table.getD 0 1 = 0 := by decide +kernel

theorem count_pos (n : Nat) : 0 < table.countP (· ≤ n) := by
  have h : table = 0 :: table.tail := by decide +kernel
  rw [h]; simp [List.countP_cons]

end TantivyModel.FieldNorm
