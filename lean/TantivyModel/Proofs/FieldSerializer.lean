import TantivyModel.Model.FieldSerializer
import TantivyModel.Proofs.TermInfoStore
/-! the TermInfos a FieldSerializer produces are back to back, and slice the files into the terms -/
namespace TantivyModel.FieldSerializer
open TantivyModel.Recorder (TermBytes)
open TantivyModel.TermInfoStore (TermInfo GoodStore Ordered)

def infosFrom : Nat → Nat → List TermBytes → List TermInfo
  | _, _, [] => []
  | p, q, t :: ts =>
    { docFreq := t.docFreq, postStart := p, postEnd := p + t.postings.length,
      posStart := q, posEnd := q + t.positions.length } ::
      infosFrom (p + t.postings.length) (q + t.positions.length) ts

theorem foldl_writeTerm (ts : List TermBytes) :
    ∀ f : Files, (ts.foldl writeTerm f).postings = f.postings ++ ts.flatMap (·.postings) ∧
      (ts.foldl writeTerm f).positions = f.positions ++ ts.flatMap (·.positions) ∧
      (ts.foldl writeTerm f).infos = f.infos ++ infosFrom f.postings.length f.positions.length ts := by
  induction ts with
  | nil => intro f; simp [infosFrom]
  | cons t r ih =>
    intro f
    have := ih (writeTerm f t)
    rw [List.foldl_cons]
    refine ⟨by rw [this.1]; simp [writeTerm], by rw [this.2.1]; simp [writeTerm], ?_⟩
    rw [this.2.2]
    simp [writeTerm, infosFrom]

theorem writeTerms_eq (ts : List TermBytes) :
    (writeTerms ts).postings = ts.flatMap (·.postings) ∧
    (writeTerms ts).positions = ts.flatMap (·.positions) ∧
    (writeTerms ts).infos = infosFrom 0 0 ts := by
  have := foldl_writeTerm ts { postings := [], positions := [], infos := [] }
  simpa [writeTerms] using this

theorem infosFrom_length (ts : List TermBytes) : ∀ p q, (infosFrom p q ts).length = ts.length := by
  induction ts with
  | nil => intro _ _; rfl
  | cons t r ih => intro p q; simp [infosFrom, ih]

/-- the n-th TermInfo slices the n-th term out of the two files -/
theorem slice_infosFrom (ts : List TermBytes) :
    ∀ (A Bq : List Nat) (rest1 rest2 : List Nat) (infos : List TermInfo) (n : Nat) (hn : n < ts.length),
      sliceTerm { postings := A ++ ts.flatMap (·.postings) ++ rest1,
                  positions := Bq ++ ts.flatMap (·.positions) ++ rest2, infos := infos }
        ((infosFrom A.length Bq.length ts)[n]'(by rw [infosFrom_length]; exact hn)) = ts[n] := by
  induction ts with
  | nil => intro _ _ _ _ _ n hn; simp at hn
  | cons t r ih =>
    intro A Bq rest1 rest2 infos n hn
    cases n with
    | zero =>
      simp only [infosFrom, List.getElem_cons_zero, sliceTerm, List.flatMap_cons, List.append_assoc,
        Nat.add_sub_cancel_left, List.drop_left', List.take_left']
    | succ n =>
      have := ih (A ++ t.postings) (Bq ++ t.positions) rest1 rest2 infos n (by simpa using hn)
      simp only [List.length_append, List.append_assoc] at this
      simp only [infosFrom, List.getElem_cons_succ, List.flatMap_cons, List.append_assoc]
      exact this

theorem sliceTerm_congr (f g : Files) (i : TermInfo) (h1 : f.postings = g.postings)
    (h2 : f.positions = g.positions) : sliceTerm f i = sliceTerm g i := by
  simp [sliceTerm, h1, h2]

theorem slice_writeTerms (ts : List TermBytes) (n : Nat) (hn : n < ts.length) :
    sliceTerm (writeTerms ts)
      ((writeTerms ts).infos[n]'(by rw [(writeTerms_eq ts).2.2, infosFrom_length]; exact hn)) = ts[n] := by
  have he := writeTerms_eq ts
  have hs := slice_infosFrom ts [] [] [] [] [] n hn
  simp only [List.nil_append, List.append_nil, List.length_nil] at hs
  rw [List.getElem_of_eq he.2.2]
  rw [sliceTerm_congr (writeTerms ts) ⟨ts.flatMap (fun x => x.postings), ts.flatMap (fun x => x.positions), []⟩
    _ he.1 he.2.1]
  exact hs

theorem infosFrom_props (ts : List TermBytes) :
    ∀ p q, (∀ i ∈ infosFrom p q ts, p ≤ i.postStart ∧ i.postStart ≤ i.postEnd ∧
        i.postEnd ≤ p + (ts.flatMap (·.postings)).length ∧
        q ≤ i.posStart ∧ i.posStart ≤ i.posEnd ∧ i.posEnd ≤ q + (ts.flatMap (·.positions)).length ∧
        ∃ t ∈ ts, i.docFreq = t.docFreq) ∧
      TermInfoStore.Contig (infosFrom p q ts) := by
  induction ts with
  | nil => intro p q; simp [infosFrom, TermInfoStore.Contig]
  | cons t r ih =>
    intro p q
    have ih' := ih (p + t.postings.length) (q + t.positions.length)
    constructor
    · intro i hi
      simp only [infosFrom, List.mem_cons] at hi
      rcases hi with rfl | hi
      · simp only [List.flatMap_cons, List.length_append]
        exact ⟨Nat.le_refl _, by omega, by omega, Nat.le_refl _, by omega, by omega, t, by simp, rfl⟩
      · obtain ⟨h1, h2, h3, h4, h5, h6, t', ht', h7⟩ := ih'.1 i hi
        simp only [List.flatMap_cons, List.length_append]
        exact ⟨by omega, h2, by omega, by omega, h5, by omega, t', by simp [ht'], h7⟩
    · cases r with
      | nil => simp [infosFrom, TermInfoStore.Contig]
      | cons u r' =>
        simp only [infosFrom, TermInfoStore.Contig]
        refine ⟨trivial, trivial, ?_⟩
        have := ih'.2
        simpa [infosFrom] using this

theorem contig_index (l : List TermInfo) (h : TermInfoStore.Contig l) :
    ∀ i (hi : i + 1 < l.length), (l[i]'(by omega)).postEnd = l[i + 1].postStart ∧
      (l[i]'(by omega)).posEnd = l[i + 1].posStart := by
  induction l with
  | nil => intro i hi; simp at hi
  | cons a r ih =>
    intro i hi
    cases r with
    | nil => simp at hi
    | cons b r' =>
      cases i with
      | zero => exact ⟨h.1, h.2.1⟩
      | succ i =>
        have := ih h.2.2 i (by simpa using hi)
        simpa using this

/-- what a FieldSerializer writes is a `GoodStore` (for any block length), as long as the files stay
below `2^56` bytes and the document frequencies fit -/
theorem writeTerms_goodStore (BL : Nat) (ts : List TermBytes)
    (h1 : (ts.flatMap (·.postings)).length < 2 ^ 56) (h2 : (ts.flatMap (·.positions)).length < 2 ^ 56)
    (h3 : ∀ t ∈ ts, t.docFreq < 2 ^ 56) : GoodStore BL (writeTerms ts).infos := by
  rw [(writeTerms_eq ts).2.2]
  have hp := infosFrom_props ts 0 0
  refine ⟨?_, ?_, ?_⟩
  · intro i hi
    have := hp.1 i hi
    exact ⟨this.2.1, this.2.2.2.2.1⟩
  · intro i hi
    obtain ⟨_, _, a3, _, _, a6, t, ht, a7⟩ := hp.1 i hi
    exact ⟨by omega, by omega, by rw [a7]; exact h3 t ht⟩
  · intro i hi _
    exact contig_index _ hp.2 i hi

end TantivyModel.FieldSerializer
