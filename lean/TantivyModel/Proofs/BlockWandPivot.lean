import TantivyModel.Proofs.BlockWandBasic
/-!
`find_pivot_doc` on a scorer array sorted by current document: shape of the array around the
pivot and deadness of every document before it (given `UB_max`).
-/
namespace TantivyModel.BlockWand
open List TantivyModel.Wand

def SortedByDoc (arr : List S) : Prop := arr.Pairwise (fun a b => a.doc ≤ b.doc)

theorem sorted_of_isSorted : ∀ (arr : List S), isSortedByDoc arr = true → SortedByDoc arr
  | [], _ => Pairwise.nil
  | [_], _ => by simp [SortedByDoc]
  | a :: b :: rest, h => by
    simp only [isSortedByDoc, Bool.and_eq_true, decide_eq_true_eq] at h
    have ih := sorted_of_isSorted (b :: rest) h.2
    unfold SortedByDoc at ih ⊢
    rw [pairwise_cons]
    refine ⟨?_, ih⟩
    intro x hx
    rcases mem_cons.mp hx with rfl | hx
    · exact h.1
    · exact Nat.le_trans h.1 ((pairwise_cons.mp ih).1 x hx)

theorem go_some (θ : Nat) : ∀ (l : List S) (acc i bl pd : Nat), acc ≤ θ →
    findPivotDoc.go θ acc i l = some (bl, pd) →
    ∃ pre s post, l = pre ++ s :: post ∧ bl = i + pre.length ∧ pd = s.doc ∧
      acc + (pre.map (·.maxScore)).sum ≤ θ ∧ θ < acc + (pre.map (·.maxScore)).sum + s.maxScore
  | [], _, _, _, _, _, h => by simp [findPivotDoc.go] at h
  | s :: rest, acc, i, bl, pd, hacc, h => by
    unfold findPivotDoc.go at h
    simp only [sc_add, sc_gt] at h
    split at h
    · rename_i hgt
      simp only [decide_eq_true_eq] at hgt
      simp only [Option.some.injEq, Prod.mk.injEq] at h
      exact ⟨[], s, rest, rfl, by simp [h.1], h.2.symm, by simp; omega, by simp; omega⟩
    · rename_i hle
      simp only [decide_eq_true_eq] at hle
      obtain ⟨pre, s', post, hl, hbl, hpd, h1, h2⟩ := go_some θ rest (acc + s.maxScore) (i + 1) bl pd (by omega) h
      refine ⟨s :: pre, s', post, by rw [hl]; rfl, by simp; omega, hpd, ?_, ?_⟩
      · simp only [map_cons, sum_cons]; omega
      · simp only [map_cons, sum_cons]; omega

theorem go_none (θ : Nat) : ∀ (l : List S) (acc i : Nat), acc ≤ θ →
    findPivotDoc.go θ acc i l = none → acc + (l.map (·.maxScore)).sum ≤ θ
  | [], acc, _, hacc, _ => by simpa using hacc
  | s :: rest, acc, i, _, h => by
    unfold findPivotDoc.go at h
    simp only [sc_add, sc_gt] at h
    split at h
    · cases h
    · rename_i hle
      simp only [decide_eq_true_eq] at hle
      have := go_none θ rest (acc + s.maxScore) (i + 1) (by omega) h
      simp only [map_cons, sum_cons]; omega

/-- the shape of a sorted scorer array around the pivot -/
structure PivotShape (θ : Nat) (arr : List S) (bl pl pd : Nat) : Prop where
  split : ∃ pre s mid suf, arr = pre ++ s :: (mid ++ suf) ∧ bl = pre.length ∧ pl = pre.length + 1 + mid.length ∧
    s.doc = pd ∧ (∀ x, x ∈ mid → x.doc = pd) ∧ (∀ x, x ∈ suf → pd < x.doc) ∧ (∀ x, x ∈ pre → x.doc ≤ pd) ∧
    (pre.map (·.maxScore)).sum ≤ θ
  lt : pd < T

theorem dropWhile_first_fails {β : Type} (p : β → Bool) : ∀ (l : List β) (x : β) (xs : List β),
    l.dropWhile p = x :: xs → p x = false
  | [], _, _, h => by simp at h
  | y :: ys, x, xs, h => by
    by_cases hy : p y = true
    · rw [dropWhile_cons_of_pos hy] at h; exact dropWhile_first_fails p ys x xs h
    · rw [dropWhile_cons_of_neg hy] at h
      simp only [cons.injEq] at h
      rw [← h.1]; simpa using hy

theorem takeWhile_all {β : Type} (p : β → Bool) : ∀ (l : List β) (x : β), x ∈ l.takeWhile p → p x = true
  | [], _, h => by simp at h
  | y :: ys, x, h => by
    by_cases hy : p y = true
    · rw [takeWhile_cons_of_pos hy] at h
      rcases mem_cons.mp h with rfl | h
      · exact hy
      · exact takeWhile_all p ys x h
    · rw [takeWhile_cons_of_neg hy] at h; cases h

theorem findPivotDoc_some_lt {θ : Nat} {arr : List S} {bl pl pd : Nat} (hs : SortedByDoc arr)
    (hlt : ∀ s, s ∈ arr → ∀ p, p ∈ s.rest → p.1 < T)
    (h : findPivotDoc θ arr = some (bl, pl, pd)) : PivotShape θ arr bl pl pd := by
  unfold findPivotDoc at h
  simp only [sc_zero] at h
  cases hg : findPivotDoc.go θ 0 0 arr with
  | none => rw [hg] at h; cases h
  | some r =>
    obtain ⟨bl', pd'⟩ := r
    rw [hg] at h
    simp only at h
    split at h
    · cases h
    · rename_i hne
      simp only [Option.some.injEq, Prod.mk.injEq] at h
      obtain ⟨hbl, hpl, hpd⟩ := h
      subst hbl; subst hpd
      obtain ⟨pre, s, post, hl, hbl, hpd, h1, _⟩ := go_some θ arr 0 0 bl' pd' (Nat.zero_le _) hg
      simp only [Nat.zero_add] at hbl h1
      have hdrop : arr.drop (bl' + 1) = post := by
        rw [hl, hbl]
        have : pre ++ s :: post = (pre ++ [s]) ++ post := by simp
        rw [this, drop_left' (by simp)]
      rw [hdrop] at hpl
      unfold SortedByDoc at hs
      rw [hl, pairwise_append, pairwise_cons] at hs
      refine ⟨⟨pre, s, post.takeWhile (fun x => x.doc == pd'), post.dropWhile (fun x => x.doc == pd'),
        by rw [takeWhile_append_dropWhile]; exact hl, hbl, by rw [← hpl, hbl], hpd.symm, ?_, ?_, ?_, h1⟩, ?_⟩
      · intro x hx
        have := takeWhile_all _ post x hx
        simpa using this
      · intro x hx
        -- everything behind the pivot scorer is ≥ pd; the first element kept by dropWhile is ≠ pd
        cases hdw : post.dropWhile (fun x => x.doc == pd') with
        | nil => rw [hdw] at hx; cases hx
        | cons y ys =>
          have hy : (y.doc == pd') = false := dropWhile_first_fails _ post y ys hdw
          have hymem : y ∈ post := (dropWhile_sublist _).subset (by rw [hdw]; simp)
          have hyge : pd' ≤ y.doc := by rw [hpd]; exact hs.2.1.1 y hymem
          have hygt : pd' < y.doc := by
            have : y.doc ≠ pd' := by simpa using hy
            omega
          rw [hdw] at hx
          rcases mem_cons.mp hx with rfl | hx'
          · exact hygt
          · -- later elements are ≥ y
            have hsub : (y :: ys).Sublist post := by rw [← hdw]; exact dropWhile_sublist _
            have hpw : (y :: ys).Pairwise (fun a b => a.doc ≤ b.doc) := Pairwise.sublist hsub hs.2.1.2
            have := (pairwise_cons.mp hpw).1 x hx'
            omega
      · intro x hx
        rw [hpd]; exact hs.2.2 x hx s (by simp)
      · have hslt := hlt s (by rw [hl]; simp)
        by_cases hr : s.rest = []
        · have := doc_eq_T_of_nil hr; omega
        · have := doc_lt_T hslt hr; omega

theorem findPivotDoc_some {θ : Nat} {arr : List S} {bl pl pd : Nat} (hs : SortedByDoc arr)
    (hwf : ∀ s, s ∈ arr → WF s)
    (h : findPivotDoc θ arr = some (bl, pl, pd)) : PivotShape θ arr bl pl pd :=
  findPivotDoc_some_lt hs (fun s hs' => (hwf s hs').lt) h

theorem findPivotDoc_none {θ : Nat} {arr : List S} (hs : SortedByDoc arr)
    (hwf : ∀ s, s ∈ arr → WF s) (h : findPivotDoc θ arr = none) : ∀ d, d < T → tot arr d ≤ θ := by
  intro d hd
  unfold findPivotDoc at h
  simp only [sc_zero] at h
  cases hg : findPivotDoc.go θ 0 0 arr with
  | none =>
    have := go_none θ arr 0 0 (Nat.zero_le _) hg
    have h2 := tot_le_sum_max arr (fun s hs' => (hwf s hs').ubMax) d
    omega
  | some r =>
    obtain ⟨bl', pd'⟩ := r
    rw [hg] at h
    simp only at h
    split at h
    · rename_i hT
      -- the scorer at the pivot position is exhausted: so is everything behind it
      obtain ⟨pre, s, post, hl, _, hpd, h1, _⟩ := go_some θ arr 0 0 bl' pd' (Nat.zero_le _) hg
      simp only [Nat.zero_add] at h1
      unfold SortedByDoc at hs
      rw [hl, pairwise_append, pairwise_cons] at hs
      have hzero : tot (s :: post) d = 0 := by
        apply tot_eq_zero
        intro x hx p hp hpe
        have hxwf : WF x := hwf x (by rw [hl]; exact mem_append_right _ hx)
        have hxdoc : T ≤ x.doc := by
          rcases mem_cons.mp hx with rfl | hx'
          · omega
          · have := hs.2.1.1 x hx'; omega
        have := doc_le_of_mem hxwf.asc hp
        have := hxwf.lt p hp
        omega
      rw [hl, tot_append, hzero]
      have := tot_le_sum_max pre (fun x hx => (hwf x (by rw [hl]; exact mem_append_left _ hx)).ubMax) d
      omega
    · cases h

/-- every document before the pivot is dead -/
theorem PivotShape.dead {θ : Nat} {arr : List S} {bl pl pd : Nat} (hp : PivotShape θ arr bl pl pd)
    (hwf : ∀ s, s ∈ arr → WF s) : ∀ d, d < pd → tot arr d ≤ θ := by
  intro d hd
  obtain ⟨pre, s, mid, suf, hl, _, _, hsd, hmid, hsuf, _, hsum⟩ := hp.split
  have hzero : tot (s :: (mid ++ suf)) d = 0 := by
    apply tot_eq_zero
    intro x hx p hp' hpe
    have hxwf : WF x := hwf x (by rw [hl]; exact mem_append_right _ hx)
    have hxdoc : pd ≤ x.doc := by
      rcases mem_cons.mp hx with rfl | hx'
      · omega
      · rcases mem_append.mp hx' with h' | h'
        · have := hmid x h'; omega
        · have := hsuf x h'; omega
    have := doc_le_of_mem hxwf.asc hp'
    omega
  rw [hl, tot_append, hzero]
  have := tot_le_sum_max pre (fun x hx => (hwf x (by rw [hl]; exact mem_append_left _ hx)).ubMax) d
  omega

end TantivyModel.BlockWand
