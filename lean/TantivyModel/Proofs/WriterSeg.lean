import TantivyModel.Proofs.WriterCore
/-!
Local step conformance: every step that touches the alive bits of a segment — `skip_to` when a
worker starts a segment, `apply_deletes` when it closes it, `advance_deletes` at commit / merge —
computes the opstamp rule `dead` of the core machine, on a queue sorted by opstamp.
-/
namespace TantivyModel.Writer
open TantivyModel.WriterSpec

variable {α : Type}

/-- the queue is sorted by opstamp (stamps are drawn and pushed in one step) -/
def SortedLog (log : List (DelOp α)) : Prop := log.Pairwise (fun a b => a.op < b.op)

/-- a segment under construction: its cursor has skipped only deletes older than all its documents -/
structure BuildOK (log : List (DelOp α)) (sg : Seg α) : Prop where
  cur : sg.cursor ≤ log.length
  alive : ∀ d ∈ sg.docs, d.alive = true
  older : ∀ del ∈ log.take sg.cursor, ∀ d ∈ sg.docs, del.op < d.op

/-- a finished segment: its alive bits are the opstamp rule for the deletes before its cursor, and
every delete at or after the cursor is younger than all its documents -/
structure SegOK (log : List (DelOp α)) (sg : Seg α) : Prop where
  cur : sg.cursor ≤ log.length
  bits : ∀ d ∈ sg.docs, d.alive = !dead (log.take sg.cursor) (d.doc, d.op)
  younger : ∀ del ∈ log.drop sg.cursor, ∀ d ∈ sg.docs, d.op < del.op

theorem sorted_dropWhile (T : Nat) (l : List (DelOp α)) (h : SortedLog l) :
    ∀ x ∈ l.dropWhile (fun del => decide (del.op ≤ T)), T < x.op := by
  induction l with
  | nil => simp
  | cons a l ih =>
    intro x hx
    rw [List.dropWhile_cons] at hx
    have hs := List.pairwise_cons.mp h
    split at hx
    · exact ih hs.2 x hx
    · rename_i hna
      simp at hna
      rcases List.mem_cons.mp hx with rfl | hx'
      · exact hna
      · have := hs.1 x hx'; omega

theorem sorted_drop (l : List (DelOp α)) (n : Nat) (h : SortedLog l) : SortedLog (l.drop n) :=
  List.Pairwise.sublist (List.drop_sublist n l) h

theorem maxOp_ge (docs : List (SDoc α)) : ∀ d ∈ docs, d.op ≤ maxOp docs := by
  have gen : ∀ (docs : List (SDoc α)) (m : Nat),
      m ≤ docs.foldl (fun m d => max m d.op) m ∧ ∀ d ∈ docs, d.op ≤ docs.foldl (fun m d => max m d.op) m := by
    intro docs
    induction docs with
    | nil => intro m; simp
    | cons a l ih =>
      intro m
      obtain ⟨h1, h2⟩ := ih (max m a.op)
      simp only [List.foldl_cons]
      refine ⟨by omega, ?_⟩
      intro d hd
      rcases List.mem_cons.mp hd with rfl | hd'
      · omega
      · exact h2 d hd'
  exact (gen docs 0).2

theorem take_takeWhile_len {β : Type} (p : β → Bool) (l : List β) :
    l.take (l.takeWhile p).length = l.takeWhile p := by
  induction l with
  | nil => rfl
  | cons a l ih => by_cases h : p a <;> simp [List.takeWhile_cons, h, ih]

theorem drop_takeWhile_len {β : Type} (p : β → Bool) (l : List β) :
    l.drop (l.takeWhile p).length = l.dropWhile p := by
  induction l with
  | nil => rfl
  | cons a l ih => by_cases h : p a <;> simp [List.takeWhile_cons, List.dropWhile_cons, h, ih]

theorem takeWhile_all {β : Type} (p : β → Bool) (l : List β) (h : ∀ x ∈ l, p x = true) :
    l.takeWhile p = l := by
  induction l with
  | nil => rfl
  | cons a l ih =>
    simp [List.takeWhile_cons, h a (by simp), ih (fun x hx => h x (by simp [hx]))]

theorem take_add_takeWhile (log : List (DelOp α)) (c : Nat) (p : DelOp α → Bool) :
    log.take (c + ((log.drop c).takeWhile p).length) = log.take c ++ (log.drop c).takeWhile p := by
  induction log generalizing c with
  | nil => simp
  | cons a l ih =>
    cases c with
    | zero => simp [take_takeWhile_len]
    | succ c =>
      have e : c + 1 + ((List.drop (c + 1) (a :: l)).takeWhile p).length
          = (c + ((l.drop c).takeWhile p).length) + 1 := by simp; omega
      rw [e, List.take_succ_cons, ih]
      simp

theorem drop_add_takeWhile (log : List (DelOp α)) (c : Nat) (p : DelOp α → Bool) :
    log.drop (c + ((log.drop c).takeWhile p).length) = (log.drop c).dropWhile p := by
  induction log generalizing c with
  | nil => simp
  | cons a l ih =>
    cases c with
    | zero => simp [drop_takeWhile_len]
    | succ c =>
      have e : c + 1 + ((List.drop (c + 1) (a :: l)).takeWhile p).length
          = (c + ((l.drop c).takeWhile p).length) + 1 := by simp; omega
      rw [e, List.drop_succ_cons, ih]
      simp

theorem hit_false_eq_dead (L : List (DelOp α)) (d : SDoc α) (h : ∀ del ∈ L, d.op < del.op) :
    hit false L d = dead L (d.doc, d.op) := by
  induction L with
  | nil => rfl
  | cons a L ih =>
    have ha := h a (by simp)
    have ih' := ih (fun del hd => h del (by simp [hd]))
    simp only [hit, dead, List.any_cons] at ih' ⊢
    rw [ih']; simp [isDeleted, ha]

theorem takeWhile_length_le (l : List (DelOp α)) (p : DelOp α → Bool) : (l.takeWhile p).length ≤ l.length :=
  (List.takeWhile_sublist p).length_le

/-- `skip_to(first)` from a cursor that has only older deletes behind it -/
theorem skipTo_buildOK (log : List (DelOp α)) (cur first id : Nat) (docs : List (SDoc α))
    (hcur : cur ≤ log.length) (hold : ∀ del ∈ log.take cur, del.op < first)
    (halive : ∀ d ∈ docs, d.alive = true) (hfirst : ∀ d ∈ docs, first ≤ d.op) :
    BuildOK log { id := id, docs := docs, cursor := skipTo first (log.drop cur) cur } := by
  rw [skipTo_spec]
  refine ⟨?_, halive, ?_⟩
  · have := takeWhile_length_le (log.drop cur) (fun del => decide (del.op < first))
    simp at this ⊢; omega
  · intro del hdel d hd
    simp only at hdel
    rw [take_add_takeWhile] at hdel
    have hf := hfirst d hd
    rcases List.mem_append.mp hdel with h | h
    · have := hold del h; omega
    · have := mem_takeWhile_prop h; simp at this; omega

/-- `apply_deletes` (per-document opstamps, target = the youngest document) -/
theorem finalize_segOK (log : List (DelOp α)) (sg : Seg α) (hs : SortedLog log) (h : BuildOK log sg) :
    SegOK log (finalize log sg) := by
  obtain ⟨hc, ha, ho⟩ := h
  unfold finalize
  rw [consume_spec]
  refine ⟨?_, ?_, ?_⟩
  · have := takeWhile_length_le (log.drop sg.cursor) (fun del => decide (del.op ≤ maxOp sg.docs))
    simp [processed] at this ⊢; omega
  · intro d hd
    simp only [List.mem_map] at hd
    obtain ⟨d0, hd0, rfl⟩ := hd
    simp only [processed]
    rw [take_add_takeWhile, dead_append]
    have h1 : dead (log.take sg.cursor) (d0.doc, d0.op) = false := by
      apply dead_of_newer
      intro del hdel
      have := ho del hdel d0 hd0
      simp; omega
    have h2 : hit true ((log.drop sg.cursor).takeWhile (fun del => decide (del.op ≤ maxOp sg.docs))) d0
        = dead ((log.drop sg.cursor).takeWhile (fun del => decide (del.op ≤ maxOp sg.docs))) (d0.doc, d0.op) := by
      simp [hit, dead, isDeleted]
    simp [ha d0 hd0, h1, h2]
  · intro del hdel d hd
    simp only [List.mem_map] at hd
    obtain ⟨d0, hd0, rfl⟩ := hd
    simp only [processed] at hdel
    rw [drop_add_takeWhile] at hdel
    have := sorted_dropWhile (maxOp sg.docs) (log.drop sg.cursor) (sorted_drop log _ hs) del hdel
    have := maxOp_ge sg.docs d0 hd0
    simp; omega

/-- `advance_deletes(target)` on a finished segment: still the opstamp rule -/
theorem advance_segOK (log : List (DelOp α)) (target : Nat) (sg : Seg α) (h : SegOK log sg) :
    SegOK log (advance log target sg) := by
  obtain ⟨hc, hb, hy⟩ := h
  unfold advance
  rw [consume_spec]
  refine ⟨?_, ?_, ?_⟩
  · have := takeWhile_length_le (log.drop sg.cursor) (fun del => decide (del.op ≤ target))
    simp [processed] at this ⊢; omega
  · intro d hd
    simp only [List.mem_map] at hd
    obtain ⟨d0, hd0, rfl⟩ := hd
    simp only [processed]
    rw [take_add_takeWhile, dead_append]
    have h2 : hit false ((log.drop sg.cursor).takeWhile (fun del => decide (del.op ≤ target))) d0
        = dead ((log.drop sg.cursor).takeWhile (fun del => decide (del.op ≤ target))) (d0.doc, d0.op) := by
      apply hit_false_eq_dead
      intro del hdel
      have hm : del ∈ log.drop sg.cursor := (List.takeWhile_sublist _).subset hdel
      exact hy del hm d0 hd0
    simp [hb d0 hd0, h2]
  · intro del hdel d hd
    simp only [List.mem_map] at hd
    obtain ⟨d0, hd0, rfl⟩ := hd
    simp only [processed] at hdel
    rw [drop_add_takeWhile] at hdel
    exact hy del ((List.dropWhile_sublist _).subset hdel) d0 hd0

/-- at commit (a target younger than every queued delete) the whole queue is consumed: the alive
bits of the published segment are exactly the opstamp rule over the entire queue -/
theorem advance_full (log : List (DelOp α)) (target : Nat) (sg : Seg α) (h : SegOK log sg)
    (ht : ∀ del ∈ log, del.op ≤ target) :
    (advance log target sg).cursor = log.length
    ∧ ∀ d ∈ (advance log target sg).docs, d.alive = !dead log (d.doc, d.op) := by
  have hok := advance_segOK log target sg h
  have hcur : (advance log target sg).cursor = log.length := by
    unfold advance
    rw [consume_spec]
    simp only [processed]
    have : (log.drop sg.cursor).takeWhile (fun del => decide (del.op ≤ target)) = log.drop sg.cursor := by
      apply takeWhile_all
      intro del hdel
      have := ht del ((List.drop_sublist _ _).subset hdel)
      simp [this]
    rw [this]
    have := h.cur
    simp; omega
  refine ⟨hcur, ?_⟩
  intro d hd
  have := hok.bits d hd
  rw [hcur, List.take_length] at this
  exact this

/-- a younger delete appended to the queue keeps both invariants -/
theorem buildOK_push (log : List (DelOp α)) (del : DelOp α) (sg : Seg α) (h : BuildOK log sg) :
    BuildOK (log ++ [del]) sg := by
  obtain ⟨hc, ha, ho⟩ := h
  refine ⟨by simp; omega, ha, ?_⟩
  rw [List.take_append_of_le_length hc]
  exact ho

theorem segOK_push (log : List (DelOp α)) (del : DelOp α) (sg : Seg α) (h : SegOK log sg)
    (hy : ∀ d ∈ sg.docs, d.op < del.op) : SegOK (log ++ [del]) sg := by
  obtain ⟨hc, hb, hyo⟩ := h
  refine ⟨by simp; omega, ?_, ?_⟩
  · rw [List.take_append_of_le_length hc]; exact hb
  · rw [List.drop_append_of_le_length hc]
    intro d hd x hx
    rcases List.mem_append.mp hd with h | h
    · exact hyo d h x hx
    · simp at h; subst h; exact hy x hx

end TantivyModel.Writer
