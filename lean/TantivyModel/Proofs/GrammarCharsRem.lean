import TantivyModel.Proofs.GrammarCharsPrint
namespace TantivyModel.Grammar.Chars
open TantivyModel.Grammar

/-! ## step lemmas with a remainder: a plain word followed by the end or by a space -/

/-- what may follow a word in a printed operand list: nothing, a space after which the next
    non-blank character is not a colon (a colon would make the word a field name), or the `)`
    that closes the enclosing group -/
def Rem (t : Str) : Prop :=
  t = [] ∨ (∃ t', t = ' ' :: t' ∧ ∀ r', skip0 t' ≠ ':' :: r') ∨ (∃ t', t = ')' :: t')

theorem wordRest_rem (t : Str) (ht : Rem t) : wordRest t = ([], t) := by
  rcases ht with rfl | ⟨t', rfl, _⟩ | ⟨t', rfl⟩
  · rfl
  · unfold wordRest
    split
    · rename_i heq; cases heq
    · rename_i heq
      have := (List.cons.inj heq).1
      exact absurd this (by decide)
    · rename_i heq
      obtain ⟨rfl, rfl⟩ := List.cons.inj heq
      simp [isUniSpace]
  · unfold wordRest
    split
    · rename_i heq; cases heq
    · rename_i heq
      have := (List.cons.inj heq).1
      exact absurd this (by decide)
    · rename_i heq
      obtain ⟨rfl, rfl⟩ := List.cons.inj heq
      simp [escapeInWord]

theorem wordRest_plain_rem (w t : Str) (hw : ∀ c ∈ w, plain c = true) (ht : Rem t) :
    wordRest (w ++ t) = (w, t) := by
  induction w with
  | nil => simpa using wordRest_rem t ht
  | cons c rest ih =>
    have hc := hw c (by simp)
    have hb : c ≠ '\\' := plain_ne c '\\' hc (by decide)
    have ih' := ih (fun d hd => hw d (List.mem_cons_of_mem _ hd))
    have h1 := (plain_not_space c hc).1
    have h2' : c ∉ escapeInWord := by simpa using (plain_not_special c hc).2
    show wordRest (c :: (rest ++ t)) = (c :: rest, t)
    unfold wordRest
    split
    · rename_i heq; cases heq
    · rename_i heq
      exact absurd (List.cons.inj heq).1 hb
    · rename_i heq
      obtain ⟨rfl, rfl⟩ := List.cons.inj heq
      simp [h1, h2', ih']

theorem fieldRest_rem (t : Str) (ht : Rem t) : fieldRest t = ([], t) := by
  rcases ht with rfl | ⟨t', rfl, _⟩ | ⟨t', rfl⟩
  · rfl
  · unfold fieldRest
    split
    · rename_i heq; cases heq
    · rename_i heq
      exact absurd (List.cons.inj heq).1 (by decide)
    · rename_i heq
      exact absurd (List.cons.inj heq).1 (by decide)
    · rename_i heq
      obtain ⟨rfl, rfl⟩ := List.cons.inj heq
      simp [specialChars]
  · unfold fieldRest
    split
    · rename_i heq; cases heq
    · rename_i heq
      exact absurd (List.cons.inj heq).1 (by decide)
    · rename_i heq
      exact absurd (List.cons.inj heq).1 (by decide)
    · rename_i heq
      obtain ⟨rfl, rfl⟩ := List.cons.inj heq
      simp [specialChars]

theorem fieldRest_plain_rem (w t : Str) (hw : ∀ d ∈ w, plain d = true) (ht : Rem t) :
    fieldRest (w ++ t) = (w, t) := by
  induction w with
  | nil => simpa using fieldRest_rem t ht
  | cons d rest ih =>
    have hd := hw d (by simp)
    have hb : d ≠ '\\' := plain_ne d '\\' hd (by decide)
    have hs : d ∉ specialChars := by simpa using (plain_not_special d hd).1
    have ih' := ih (fun e he => hw e (List.mem_cons_of_mem _ he))
    show fieldRest (d :: (rest ++ t)) = (d :: rest, t)
    unfold fieldRest
    split
    · rename_i heq; cases heq
    · rename_i heq; exact absurd (List.cons.inj heq).1 hb
    · rename_i heq; exact absurd (List.cons.inj heq).1 hb
    · rename_i heq
      obtain ⟨rfl, rfl⟩ := List.cons.inj heq
      simp [hs, ih']

theorem skip0_rem_plain (c : Char) (r t : Str) (hc : plain c = true) : skip0 (c :: (r ++ t)) = c :: (r ++ t) := by
  simp [skip0, List.dropWhile, (plain_not_space c hc).2]

/-- a keyword of plain characters that is a prefix of `w ++ t` (with `w ≠ kw`) is followed by a
    plain character: no whitespace after it -/
theorem prefix_plain_next (kw w t : Str) (hk : ∀ c ∈ kw, plain c = true) (hw : ∀ c ∈ w, plain c = true)
    (hne : w ≠ []) (hd : w ≠ kw) (ht : Rem t) (hp : kw.isPrefixOf (w ++ t) = true) :
    ∃ c rest, (w ++ t).drop kw.length = c :: rest ∧ plain c = true := by
  induction kw generalizing w with
  | nil =>
    obtain ⟨c, r, rfl⟩ := List.exists_cons_of_ne_nil hne
    exact ⟨c, r ++ t, rfl, hw c (by simp)⟩
  | cons k ks ih =>
    obtain ⟨c, r, rfl⟩ := List.exists_cons_of_ne_nil hne
    simp only [List.cons_append, List.isPrefixOf_cons_cons, Bool.and_eq_true, beq_iff_eq] at hp
    obtain ⟨hkc, hp'⟩ := hp
    subst hkc
    by_cases hr : r = []
    · subst hr
      have hks : ks ≠ [] := by
        intro h; subst h; exact hd rfl
      obtain ⟨k2, ks', rfl⟩ := List.exists_cons_of_ne_nil hks
      have hk2 := hk k2 (by simp)
      rcases ht with rfl | ⟨t', rfl, _⟩ | ⟨t', rfl⟩
      · simp [List.isPrefixOf] at hp'
      · simp only [List.nil_append, List.isPrefixOf_cons_cons, Bool.and_eq_true, beq_iff_eq] at hp'
        have := hp'.1
        subst this
        exact absurd hk2 (by decide)
      · simp only [List.nil_append, List.isPrefixOf_cons_cons, Bool.and_eq_true, beq_iff_eq] at hp'
        have := hp'.1
        subst this
        exact absurd hk2 (by decide)
    · have := ih r (fun c hc => hk c (List.mem_cons_of_mem _ hc)) (fun c hc => hw c (List.mem_cons_of_mem _ hc))
        hr (fun h => hd (by rw [h])) hp'
      simpa using this

theorem tag_plain_skip1 (kw w t rest : Str) (hk : ∀ c ∈ kw, plain c = true) (hw : ∀ c ∈ w, plain c = true)
    (hne : w ≠ []) (hd : w ≠ kw) (ht : Rem t) (h : tag kw (w ++ t) = some rest) : skip1 rest = none := by
  unfold tag at h
  split at h
  · rename_i hp
    simp only [Option.some.injEq] at h
    obtain ⟨c, r, hdrop, hc⟩ := prefix_plain_next kw w t hk hw hne hd ht hp
    rw [← h, hdrop]
    simp [skip1, (plain_not_space c hc).2]
  · cases h

/-- `AND ` / `OR ` (a plain keyword followed by a space) is not a prefix of a word that is not the keyword -/
theorem prefix_space_false (ks w t : Str) (hk : ∀ c ∈ ks, plain c = true) (hw : ∀ c ∈ w, plain c = true)
    (ht : Rem t) (hp : (ks ++ [' ']).isPrefixOf (w ++ t) = true) : w = ks := by
  induction ks generalizing w with
  | nil =>
    cases w with
    | nil => rfl
    | cons c r =>
      simp only [List.nil_append, List.cons_append, List.isPrefixOf_cons_cons, Bool.and_eq_true, beq_iff_eq] at hp
      have := hw c (by simp)
      rw [← hp.1] at this
      exact absurd this (by decide)
  | cons k ks' ih =>
    cases w with
    | nil =>
      rcases ht with rfl | ⟨t', rfl, _⟩ | ⟨t', rfl⟩
      · simp [List.isPrefixOf] at hp
      · simp only [List.nil_append, List.cons_append, List.isPrefixOf_cons_cons, Bool.and_eq_true, beq_iff_eq] at hp
        have := hk k (by simp)
        rw [hp.1] at this
        exact absurd this (by decide)
      · simp only [List.nil_append, List.cons_append, List.isPrefixOf_cons_cons, Bool.and_eq_true, beq_iff_eq] at hp
        have := hk k (by simp)
        rw [hp.1] at this
        exact absurd this (by decide)
    | cons c r =>
      simp only [List.cons_append, List.isPrefixOf_cons_cons, Bool.and_eq_true, beq_iff_eq] at hp
      rw [hp.1, ih r (fun c hc => hk c (List.mem_cons_of_mem _ hc)) (fun c hc => hw c (List.mem_cons_of_mem _ hc)) hp.2]

theorem keyword_plain (kw : Str) (h : kw ∈ keywords) : ∀ c ∈ kw, plain c = true := by
  simp only [keywords, List.mem_cons, List.mem_nil_iff, or_false] at h
  rcases h with rfl | rfl | rfl | rfl <;> decide

theorem plainWord_ne_keyword (w kw : Str) (h : PlainWord w) (hk : kw ∈ keywords) : w ≠ kw := by
  intro e
  subst e
  have := List.contains_iff_mem.mpr hk
  rw [h.notKw] at this
  cases this

section
variable (c : Char) (r t : Str) (h : PlainWord (c :: r)) (ht : Rem t)
include h ht

theorem word_rem : word (c :: (r ++ t)) = some (c :: r, t) := by
  have hc := pw_head c r h
  have hb : c ≠ '\\' := plain_ne c '\\' hc (by decide)
  have hm : c ≠ '-' := plain_ne c '-' hc (by decide)
  have h1 := (plain_not_space c hc).1
  have h2 : c ∉ escapeInWord := by simpa using (plain_not_special c hc).2
  have hr := wordRest_plain_rem r t (pw_tail c r h) ht
  have hk : c :: r ∉ keywords := by
    intro hmem
    exact plainWord_ne_keyword _ _ h hmem rfl
  have hnb' : ¬ ('\\' = c ∨ '\\' ∈ r) := by
    intro hh
    have hmem : '\\' ∈ c :: r := by
      rcases hh with rfl | hh
      · simp
      · exact List.mem_cons_of_mem _ hh
    exact absurd (h.all _ hmem) (by decide)
  unfold word
  split
  · rename_i heq
    exact absurd (List.cons.inj heq).1 hb
  · rename_i heq
    obtain ⟨rfl, rfl⟩ := List.cons.inj heq
    simp [h1, h2, hm, hr, hk, hnb']
  · rename_i heq; cases heq

theorem negativeNumber_rem : negativeNumber (c :: (r ++ t)) = none := by
  have hm : c ≠ '-' := plain_ne c '-' (pw_head c r h) (by decide)
  unfold negativeNumber
  split
  · rename_i heq; exact absurd (List.cons.inj heq).1 hm
  · rfl

theorem fieldName_rem : fieldName (c :: (r ++ t)) = none := by
  have hc := pw_head c r h
  have hs : c ∉ specialChars := by simpa using (plain_not_special c hc).1
  have hm : c ≠ '-' := plain_ne c '-' hc (by decide)
  have hfr := fieldRest_plain_rem r t (pw_tail c r h) ht
  simp [fieldName, hs, hm, hfr]
  rcases ht with rfl | ⟨t', rfl, hcol⟩ | ⟨t', rfl⟩
  rotate_left 2
  · simp [skip0, List.dropWhile, isNomSpace]
  · simp [skip0]
  · have e : skip0 (' ' :: t') = skip0 t' := by simp [skip0, List.dropWhile, isNomSpace]
    rw [e]
    cases hsk : skip0 t' with
    | nil => rfl
    | cons d rest =>
      have hd : d ≠ ':' := fun e => hcol rest (by rw [hsk, e])
      split
      · rename_i heq; exact absurd (List.cons.inj heq).1 hd
      · rfl

theorem range_rem : range (c :: (r ++ t)) = none := by
  have hc := pw_head c r h
  have ne : ∀ d, plain d = false → c ≠ d := fun d hd => plain_ne c d hc hd
  simp [range, skip0_rem_plain c r t hc, tag_head_ne _ _ _ _ (ne '>' (by decide)),
    tag_head_ne _ _ _ _ (ne '<' (by decide)), ne '{' (by decide), ne '[' (by decide)]

theorem set_rem : set (c :: (r ++ t)) = none := by
  have hc := pw_head c r h
  unfold set
  rw [skip0_rem_plain c r t hc]
  cases htag : tag ['I', 'N'] (c :: (r ++ t)) with
  | none => rfl
  | some rest =>
    have := tag_plain_skip1 ['I', 'N'] (c :: r) t rest (by decide) h.all h.ne
      (plainWord_ne_keyword _ _ h (by simp [keywords])) ht (by simpa using htag)
    simp [this]

theorem exists_rem : exists_ (c :: (r ++ t)) = none := by
  have hc := pw_head c r h
  have hne : c ≠ '*' := plain_ne c '*' hc (by decide)
  unfold exists_
  rw [skip0_rem_plain c r t hc]
  split
  · rename_i heq; exact absurd (List.cons.inj heq).1 hne
  · rfl

theorem regex_rem : regex (c :: (r ++ t)) = none := by
  have hne : c ≠ '/' := plain_ne c '/' (pw_head c r h) (by decide)
  unfold regex
  split
  · rename_i heq; exact absurd (List.cons.inj heq).1 hne
  · rfl

theorem simpleTerm_rem : simpleTerm (c :: (r ++ t)) = some ((.none, c :: r), t) := by
  have hc := pw_head c r h
  have h1 : c ≠ '\'' := plain_ne c '\'' hc (by decide)
  have h2 : c ≠ '"' := plain_ne c '"' hc (by decide)
  unfold simpleTerm
  rw [negativeNumber_rem c r t h ht]
  simp only
  split
  · rename_i heq; exact absurd (List.cons.inj heq).1 h1
  · rename_i heq; exact absurd (List.cons.inj heq).1 h2
  · simp [word_rem c r t h ht]

theorem slopOrPrefix_rem : slopOrPrefix t = ((0, false), t) := by
  rcases ht with rfl | ⟨t', rfl, _⟩ | ⟨t', rfl⟩
  · rfl
  · unfold slopOrPrefix
    split
    · rename_i heq; exact absurd (List.cons.inj heq).1 (by decide)
    · rename_i heq; exact absurd (List.cons.inj heq).1 (by decide)
    · rfl
  · unfold slopOrPrefix
    split
    · rename_i heq; exact absurd (List.cons.inj heq).1 (by decide)
    · rename_i heq; exact absurd (List.cons.inj heq).1 (by decide)
    · rfl

theorem termOrPhrase_rem :
    termOrPhrase (c :: (r ++ t)) = some (.literal none (c :: r) .none 0 false, t) := by
  simp [termOrPhrase, simpleTerm_rem c r t h ht, slopOrPrefix_rem c r t h ht]

theorem plainLiteral_rem (g : Bool) :
    plainLiteral g (c :: (r ++ t)) = .ok (.leaf (.literal none (c :: r) .none 0 false)) t := by
  simp [plainLiteral, fieldName_rem c r t h ht, range_rem c r t h ht, set_rem c r t h ht,
    exists_rem c r t h ht, regex_rem c r t h ht, termOrPhrase_rem c r t h ht, setField]

theorem pLeaf_rem (g : Bool) (f : Nat) :
    pLeaf g (f + 1) (c :: (r ++ t)) = .ok (.leaf (.literal none (c :: r) .none 0 false)) t := by
  have hc := pw_head c r h
  have h1 : c ≠ '(' := plain_ne c '(' hc (by decide)
  have h2 : c ≠ '*' := plain_ne c '*' hc (by decide)
  unfold pLeaf
  cases htag : tag ['N', 'O', 'T'] (c :: (r ++ t)) with
  | none => simp [h1, h2, R.orElse, plainLiteral_rem c r t h ht g]
  | some rest =>
    have := tag_plain_skip1 ['N', 'O', 'T'] (c :: r) t rest (by decide) h.all h.ne
      (plainWord_ne_keyword _ _ h (by simp [keywords])) ht (by simpa using htag)
    simp [h1, h2, R.orElse, this, plainLiteral_rem c r t h ht g]

theorem boost_rem : boost t = (none, t) := by
  rcases ht with rfl | ⟨t', rfl, _⟩ | ⟨t', rfl⟩
  · rfl
  · unfold boost
    split
    · rename_i heq; exact absurd (List.cons.inj heq).1 (by decide)
    · rfl
  · unfold boost
    split
    · rename_i heq; exact absurd (List.cons.inj heq).1 (by decide)
    · rfl

/-- an operand `[+|-]word` followed by the end or a space -/
theorem pOccurLeaf_rem (g : Bool) (f : Nat) (occ : Option Occur) :
    pOccurLeaf g (f + 2) ((match occ with | some .must => ['+'] | some .mustNot => ['-'] | _ => []) ++ c :: (r ++ t))
      = .ok ((match occ with | some .must => some .must | some .mustNot => some .mustNot | _ => none),
          .leaf (.literal none (c :: r) .none 0 false)) t := by
  have hc := pw_head c r h
  have h1 : c ≠ '-' := plain_ne c '-' hc (by decide)
  have h2 : c ≠ '+' := plain_ne c '+' hc (by decide)
  have ho : occurSymbol (c :: (r ++ t)) = (none, c :: (r ++ t)) := by
    unfold occurSymbol
    split
    · rename_i heq; exact absurd (List.cons.inj heq).1 h1
    · rename_i heq; exact absurd (List.cons.inj heq).1 h2
    · rfl
  unfold pOccurLeaf
  match occ with
  | some .must => simp [occurSymbol, pLeaf_rem c r t h ht g f, R.bind, boost_rem c r t h ht, applyBoost]
  | some .mustNot => simp [occurSymbol, pLeaf_rem c r t h ht g f, R.bind, boost_rem c r t h ht, applyBoost]
  | some .should => simp [ho, pLeaf_rem c r t h ht g f, R.bind, boost_rem c r t h ht, applyBoost]
  | none => simp [ho, pLeaf_rem c r t h ht g f, R.bind, boost_rem c r t h ht, applyBoost]

end

end TantivyModel.Grammar.Chars
