import TantivyModel.Model.Footer
/-! The canonical decimal footer text round-trips: `decimalDec (decimalEnc f) = some f`. -/
namespace TantivyModel.Footer

theorem digitsAux_append (fuel n : Nat) (acc : List Nat) :
    digitsAux fuel n acc = digitsAux fuel n [] ++ acc := by
  induction fuel generalizing n acc with
  | zero => simp [digitsAux]
  | succ k ih =>
    unfold digitsAux
    split
    · simp
    · rw [ih (n / 10) (n % 10 :: acc), ih (n / 10) [n % 10]]; simp

theorem digitsValue_snoc (xs : List Nat) (d : Nat) :
    digitsValue (xs ++ [d]) = digitsValue xs * 10 + d := by
  simp [digitsValue, List.foldl_append]

theorem digitsValue_digitsAux (fuel n : Nat) (h : n < 10 ^ fuel) :
    digitsValue (digitsAux fuel n []) = n := by
  induction fuel generalizing n with
  | zero => simp at h; subst h; simp [digitsAux, digitsValue]
  | succ k ih =>
    unfold digitsAux
    split
    · simp [digitsValue]
    · rw [digitsAux_append, digitsValue_snoc, ih]
      · omega
      · apply Nat.div_lt_of_lt_mul; rw [Nat.pow_succ] at h; omega

theorem digitsAux_lt10 (fuel n : Nat) (acc : List Nat) (hacc : ∀ d ∈ acc, d < 10) :
    ∀ d ∈ digitsAux fuel n acc, d < 10 := by
  induction fuel generalizing n acc with
  | zero => simpa [digitsAux] using hacc
  | succ k ih =>
    unfold digitsAux
    split
    · intro d hd
      rcases List.mem_cons.mp hd with h | h
      · omega
      · exact hacc d h
    · apply ih
      intro d hd
      rcases List.mem_cons.mp hd with h | h
      · omega
      · exact hacc d h

theorem digitsAux_length (fuel n : Nat) (acc : List Nat) :
    (digitsAux fuel n acc).length ≤ fuel + acc.length := by
  induction fuel generalizing n acc with
  | zero => simp [digitsAux]
  | succ k ih =>
    unfold digitsAux
    split
    · simp; omega
    · have := ih (n / 10) (n % 10 :: acc); simp at this; omega

theorem digitsAux_head_ne_zero (fuel n : Nat) (h1 : 1 ≤ n) (h : n < 10 ^ fuel) :
    ∃ d more, digitsAux fuel n [] = d :: more ∧ d ≠ 0 := by
  induction fuel generalizing n with
  | zero => simp at h; omega
  | succ k ih =>
    unfold digitsAux
    split
    · exact ⟨n, [], rfl, by omega⟩
    · rw [digitsAux_append]
      obtain ⟨d, more, he, hd⟩ := ih (n / 10) (by omega)
        (by apply Nat.div_lt_of_lt_mul; rw [Nat.pow_succ] at h; omega)
      exact ⟨d, more ++ [n % 10], by simp [he], hd⟩

theorem digits_nonempty_canonical (n : Nat) (h : n < 10 ^ 10) :
    ∃ d more, digits n = d :: more ∧ ¬ (d = 0 ∧ (!more.isEmpty) = true) := by
  by_cases h0 : n = 0
  · subst h0; exact ⟨0, [], by simp [digits, digitsAux], by simp⟩
  · obtain ⟨d, more, he, hd⟩ := digitsAux_head_ne_zero 10 n (by omega) h
    exact ⟨d, more, he, by simp [hd]⟩

theorem digitByte_toNat (d : Nat) (h : d < 10) : (digitByte d).toNat = 48 + d := by
  simp [digitByte, UInt8.toNat_ofNat']; omega

theorem takeDigits_digits (ds : List Nat) (hds : ∀ d ∈ ds, d < 10) (rest : Bytes)
    (hrest : ∀ b r, rest = b :: r → isDigit b = false) :
    takeDigits (ds.map digitByte ++ rest) = (ds, rest) := by
  induction ds with
  | nil =>
    cases rest with
    | nil => simp [takeDigits]
    | cons b r => simp [takeDigits, hrest b r rfl]
  | cons d ds ih =>
    have hd : d < 10 := hds d (by simp)
    have hdig : isDigit (digitByte d) = true := by
      simp [isDigit, digitByte_toNat d hd]; omega
    simp only [List.map_cons, List.cons_append, takeDigits, hdig, if_true,
      ih (fun x hx => hds x (by simp [hx])), digitByte_toNat d hd]
    simp

theorem expectPrefix_append (p s : Bytes) : expectPrefix p (p ++ s) = some s := by
  simp [expectPrefix]

theorem parseU32_decBytes (v : BitVec 32) (rest : Bytes)
    (hrest : ∀ b r, rest = b :: r → isDigit b = false) :
    parseU32 (decBytes v.toNat ++ rest) = some (v, rest) := by
  have hlt : v.toNat < 10 ^ 10 := by have := v.isLt; omega
  have hds : ∀ d ∈ digits v.toNat, d < 10 := digitsAux_lt10 10 _ [] (by simp)
  obtain ⟨d, more, he, hcanon⟩ := digits_nonempty_canonical v.toNat hlt
  have hval : digitsValue (digits v.toNat) = v.toNat := digitsValue_digitsAux 10 _ hlt
  unfold parseU32 decBytes
  rw [takeDigits_digits _ hds rest hrest]
  simp only [he]
  rw [if_neg hcanon, ← he, hval, if_pos v.isLt]
  simp

theorem decBytes_length (n : Nat) : (decBytes n).length ≤ 10 := by
  have := digitsAux_length 10 n []
  simpa [decBytes, digits] using this

theorem nondigit_head (l : Bytes) (b0 : UInt8) (t : Bytes) (hl : l = b0 :: t)
    (h0 : isDigit b0 = false) (Y : Bytes) : ∀ b r, l ++ Y = b :: r → isDigit b = false := by
  intro b r h
  subst hl
  simp at h
  rw [← h.1]; exact h0

theorem decimal_roundtrip (f : Footer) : decimalDec (decimalEnc f) = some f := by
  unfold decimalDec decimalEnc
  have n2 := fun Y => nondigit_head lit2 44 _ rfl (by decide) Y
  have n3 := fun Y => nondigit_head lit3 44 _ rfl (by decide) Y
  have n4 := fun Y => nondigit_head lit4 44 _ rfl (by decide) Y
  have n5 := fun Y => nondigit_head lit5 125 _ rfl (by decide) Y
  have n6 : ∀ b r, lit6 = b :: r → isDigit b = false := by
    intro b r h; simp [lit6] at h; rw [← h.1]; decide
  simp only [expectPrefix_append, Option.bind_some, parseU32_decBytes _ _ (n2 _),
    parseU32_decBytes _ _ (n3 _), parseU32_decBytes _ _ (n4 _), parseU32_decBytes _ _ (n5 _),
    parseU32_decBytes _ _ n6, if_true]

theorem decimal_short (f : Footer) : (decimalEnc f).length ≤ Gen.FOOTER_MAX_LEN := by
  have h1 := decBytes_length f.version.major.toNat
  have h2 := decBytes_length f.version.minor.toNat
  have h3 := decBytes_length f.version.patch.toNat
  have h4 := decBytes_length f.version.fmt.toNat
  have h5 := decBytes_length f.crc.toNat
  have : Gen.FOOTER_MAX_LEN = 50000 := rfl
  simp only [decimalEnc, List.length_append, lit1, lit2, lit3, lit4, lit5, lit6, List.length_cons,
    List.length_nil]
  omega

end TantivyModel.Footer
