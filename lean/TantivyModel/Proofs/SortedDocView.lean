import TantivyModel.Proofs.Sorted
/-! the document view of a sorted segment: every document keeps its terms (C17) -/
namespace TantivyModel.Sorted
open TantivyModel.Merge

theorem find?_perm_unique {α} (q : α → Bool) (l l' : List α) (hp : l.Perm l')
    (hu : ∀ a ∈ l, ∀ b ∈ l, q a = true → q b = true → a = b) : l.find? q = l'.find? q := by
  cases h : l.find? q with
  | none =>
    symm
    rw [List.find?_eq_none] at h ⊢
    intro x hx
    exact h x (hp.mem_iff.2 hx)
  | some a =>
    have ha := List.mem_of_find?_eq_some h
    have hqa := List.find?_some h
    cases h' : l'.find? q with
    | none =>
      rw [List.find?_eq_none] at h'
      exact absurd hqa (h' a (hp.mem_iff.1 ha))
    | some b =>
      have hb := hp.mem_iff.2 (List.mem_of_find?_eq_some h')
      have hqb := List.find?_some h'
      rw [hu a ha b hb hqa hqb]

theorem nodup_getElem_inj {α} (l : List α) (hnd : l.Nodup) (i j : Nat) (hi : i < l.length)
    (hj : j < l.length) (h : l[i] = l[j]) : i = j := by
  rcases Nat.lt_trichotomy i j with hlt | heq | hgt
  · exact absurd h (List.pairwise_iff_getElem.1 hnd i j hi hj hlt)
  · exact heq
  · exact absurd h.symm (List.pairwise_iff_getElem.1 hnd j i hj hi hgt)

theorem find?_congr' {α} (p q : α → Bool) (l : List α) (h : ∀ x ∈ l, p x = q x) :
    l.find? p = l.find? q := by
  induction l with
  | nil => rfl
  | cons a as ih =>
    simp only [List.find?_cons, h a (by simp)]
    rw [ih (fun x hx => h x (by simp [hx]))]

theorem filterMap_congr_mem {α β} (f g : α → Option β) (l : List α) (h : ∀ x ∈ l, f x = g x) :
    l.filterMap f = l.filterMap g := by
  induction l with
  | nil => rfl
  | cons a as ih =>
    simp only [List.filterMap_cons, h a (by simp)]
    rw [ih (fun x hx => h x (by simp [hx]))]

/-- old→new is defined on every old id and inverts new→old -/
theorem oldToNew_bij (keys : List SKey) (desc : Bool) (d : Nat) (hd : d < keys.length) :
    ∃ n, (sortOrder keys desc)[n]? = some d ∧ (oldToNewOf (sortOrder keys desc))[d]? = some n := by
  have hperm := sortOrder_perm keys desc
  have hmem : d ∈ sortOrder keys desc := hperm.mem_iff.2 (by simpa using hd)
  obtain ⟨n, hn⟩ := List.getElem?_of_mem hmem
  have hnd : (sortOrder keys desc).Nodup := hperm.nodup_iff.2 List.nodup_range
  exact ⟨n, hn, oldToNewOf_inverse _ hnd n d hn⟩

theorem oldToNew_eq_iff (keys : List SKey) (desc : Bool) (d n : Nat) (hd : d < keys.length)
    (hn : n < keys.length) :
    (oldToNewOf (sortOrder keys desc)).getD d 0 = n ↔ (sortOrder keys desc)[n]? = some d := by
  obtain ⟨m, hm1, hm2⟩ := oldToNew_bij keys desc d hd
  have hperm := sortOrder_perm keys desc
  have hnd : (sortOrder keys desc).Nodup := hperm.nodup_iff.2 List.nodup_range
  have hg : (oldToNewOf (sortOrder keys desc)).getD d 0 = m := by
    simp [List.getD_eq_getElem?_getD, hm2]
  rw [hg]
  constructor
  · intro h; subst h; exact hm1
  · intro h
    -- both positions m and n hold d in a duplicate-free list
    have hml := (List.getElem?_eq_some_iff.1 hm1)
    have hnl := (List.getElem?_eq_some_iff.1 h)
    exact nodup_getElem_inj _ hnd m n hml.1 hnl.1 (hml.2.trans hnl.2.symm)

/-- one posting list: looking up new doc `n` in the remapped list finds the posting of old doc
`π n`, with its tf and positions -/
theorem find_remapped (keys : List SKey) (desc : Bool) (ps : List Posting) (n d : Nat)
    (hn : n < keys.length) (hπ : (sortOrder keys desc)[n]? = some d)
    (hnd : (ps.map (·.doc)).Nodup) (hb : ∀ p ∈ ps, p.doc < keys.length) :
    ((remapPostingList (oldToNewOf (sortOrder keys desc)) ps).find? fun p => p.doc == n).map
        (fun p => (p.tf, p.pos))
      = (ps.find? fun p => p.doc == d).map fun p => (p.tf, p.pos) := by
  let f : Posting → Posting := fun p => { p with doc := (oldToNewOf (sortOrder keys desc)).getD p.doc 0 }
  have hd : d < keys.length := by
    have := (sortOrder_perm keys desc).mem_iff.1 (List.mem_of_getElem? hπ)
    simpa using this
  have hinj : ∀ a ∈ ps, ∀ b ∈ ps, (f a).doc = n → (f b).doc = n → a = b := by
    intro a ha b hb' h1 h2
    have e1 := (oldToNew_eq_iff keys desc a.doc n (hb a ha) hn).1 h1
    have e2 := (oldToNew_eq_iff keys desc b.doc n (hb b hb') hn).1 h2
    rw [e1] at e2
    have hdoc : a.doc = b.doc := by simpa using e2
    -- equal doc ids in a list with duplicate-free doc ids: same posting
    obtain ⟨i, hi⟩ := List.getElem?_of_mem ha
    obtain ⟨j, hj⟩ := List.getElem?_of_mem hb'
    have hil := List.getElem?_eq_some_iff.1 hi
    have hjl := List.getElem?_eq_some_iff.1 hj
    have hij : i = j := by
      apply nodup_getElem_inj _ hnd i j (by simpa using hil.1) (by simpa using hjl.1)
      simp only [List.getElem_map, hil.2, hjl.2, hdoc]
    subst hij
    rw [hi] at hj
    exact Option.some.inj hj
  unfold remapPostingList
  rw [find?_perm_unique (fun p => p.doc == n) _ (ps.map f) (List.mergeSort_perm _ _)]
  · rw [List.find?_map, Option.map_map]
    have hcongr : ps.find? ((fun p => p.doc == n) ∘ f) = ps.find? fun p => p.doc == d := by
      apply find?_congr'
      intro p hp
      have := oldToNew_eq_iff keys desc p.doc n (hb p hp) hn
      rw [hπ] at this
      simp only [Function.comp]
      by_cases hpd : p.doc = d
      · have h1 : (f p).doc = n := this.2 (by rw [hpd])
        show ((f p).doc == n) = (p.doc == d)
        rw [h1, hpd]
        simp
      · have h1 : ¬ (f p).doc = n := fun h => hpd (by have := this.1 h; simpa using this.symm)
        show ((f p).doc == n) = (p.doc == d)
        rw [beq_eq_false_iff_ne.2 h1, beq_eq_false_iff_ne.2 hpd]
    rw [hcongr]
    rfl
  · intro a ha b hb' hqa hqb
    have hperm := (List.mergeSort_perm (ps.map f) fun a b => decide (a.doc ≤ b.doc))
    obtain ⟨a0, ha0, rfl⟩ := List.mem_map.1 (hperm.mem_iff.1 ha)
    obtain ⟨b0, hb0, rfl⟩ := List.mem_map.1 (hperm.mem_iff.1 hb')
    rw [hinj a0 ha0 b0 hb0 (by simpa using hqa) (by simpa using hqb)]

end TantivyModel.Sorted
