import TantivyModel.Model.Tokenizer.Stateful
import TantivyModel.Proofs.Tokenizer
/-! C19: the stateful SplitCompoundWords stream against the stateless filter -/
namespace TantivyModel.Tok

theorem onToken_of_fill_nil (g : List Nat → Option (List (List Nat))) (t : Token)
    (h : splitFill g t = []) : (Filter.split g).onToken t = [t] := by
  simp only [Filter.onToken]
  simp only [splitFill] at h
  rcases hx : g t.text with _ | (_ | ⟨p, ps⟩)
  · simp
  · simp
  · rw [hx] at h; simp at h

theorem onToken_of_fill_cons (g : List Nat → Option (List (List Nat))) (t a : Token)
    (as : List Token) (h : splitFill g t = a :: as) : (Filter.split g).onToken t = a :: as := by
  simp only [Filter.onToken]
  simp only [splitFill] at h
  rcases hx : g t.text with _ | (_ | ⟨p, ps⟩)
  · rw [hx] at h; simp at h
  · rw [hx] at h; simp at h
  · rw [hx] at h; simpa using h

/-- what a stream yields from any buffer content: first the leftovers below the top, then the
stateless filter applied to the tail stream — truncated at the number of tokens read -/
theorem splitRun_emits (g : List Nat → Option (List (List Nat))) : ∀ (k : Nat) (P : PartsBuf)
    (inner : List Token),
    (splitRun g k P inner).1 = (P.tail ++ (Filter.split g).apply inner).take k := by
  intro k
  induction k with
  | zero => intro P inner; simp [splitRun]
  | succ k ih =>
    intro P inner
    simp only [splitRun, splitAdvance]
    cases hP : P.tail with
    | cons q P' =>
      simp only [ih, List.tail_cons, List.cons_append, List.take_succ_cons]
    | nil =>
      cases inner with
      | nil => simp [Filter.apply]
      | cons t rest =>
        simp only [ih, List.nil_append, Filter.apply, List.flatMap_cons]
        cases hf : splitFill g t with
        | nil => rw [onToken_of_fill_nil g t hf]; simp [Filter.apply]
        | cons a as => rw [onToken_of_fill_cons g t a as hf]; simp [Filter.apply]

end TantivyModel.Tok
