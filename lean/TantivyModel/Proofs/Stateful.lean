import TantivyModel.Model.Tokenizer.Stateful
import TantivyModel.Proofs.Tokenizer
/-! C19: the stateful SplitCompoundWords stream against the stateless filter -/
namespace TantivyModel.Tok

theorem onToken_of_fill_nil (g : List Nat → Option (List (List Nat))) (t : Token)
    (h : splitFill g t = []) : (Filter.split g).onToken t = [t] := by
  simp only [Filter.onToken]
  simp only [splitFill] at h
  rcases hx : g t.text with _ | (_ | ⟨p, ps⟩)
  · simp
  · simp
  · rw [hx] at h; simp at h

theorem onToken_of_fill_cons (g : List Nat → Option (List (List Nat))) (t a : Token)
    (as : List Token) (h : splitFill g t = a :: as) : (Filter.split g).onToken t = a :: as := by
  simp only [Filter.onToken]
  simp only [splitFill] at h
  rcases hx : g t.text with _ | (_ | ⟨p, ps⟩)
  · rw [hx] at h; simp at h
  · rw [hx] at h; simp at h
  · rw [hx] at h; simpa using h

/-- what a stream yields from any buffer content: first the leftovers below the top, then the
stateless filter applied to the tail stream — truncated at the number of tokens read -/
theorem splitRun_emits (g : List Nat → Option (List (List Nat))) : ∀ (k : Nat) (P : PartsBuf)
    (inner : List Token),
    (splitRun g k P inner).1 = (P.tail ++ (Filter.split g).apply inner).take k := by
  intro k
  induction k with
  | zero => intro P inner; simp [splitRun]
  | succ k ih =>
    intro P inner
    simp only [splitRun, splitAdvance]
    cases hP : P.tail with
    | cons q P' =>
      simp only [ih, List.tail_cons, List.cons_append, List.take_succ_cons]
    | nil =>
      cases inner with
      | nil => simp [Filter.apply]
      | cons t rest =>
        simp only [ih, List.nil_append, Filter.apply, List.flatMap_cons]
        cases hf : splitFill g t with
        | nil => rw [onToken_of_fill_nil g t hf]; simp [Filter.apply]
        | cons a as => rw [onToken_of_fill_cons g t a as hf]; simp [Filter.apply]

end TantivyModel.Tok

namespace TantivyModel.Tok

/-- a step whose text result does not depend on the buffer makes the stream the stateless map -/
theorem bufferedStream_of_step (step : List Nat → List Nat → List Nat × List Nat)
    (h : List Nat → List Nat) (hs : ∀ buf text, (step buf text).1 = h text) :
    ∀ (ts : List Token) (buf : List Nat),
      (bufferedStream step buf ts).1 = ts.map (fun t => { t with text := h t.text }) := by
  intro ts
  induction ts with
  | nil => intro buf; rfl
  | cons t ts ih => intro buf; simp only [bufferedStream, List.map_cons, hs, ih]

theorem lowerStep_text {clears : Nat} (hc : clears ≠ 0) (f : Nat → List Nat) (buf text : List Nat) :
    (lowerStep clears f buf text).1 = lowerText f text := by
  unfold lowerStep lowerText viaBuffer
  split <;> simp [hc]

theorem foldStep_text {clears : Nat} (hc : clears ≠ 0) (f : Nat → Option (List Nat))
    (buf text : List Nat) : (foldStep clears f buf text).1 = foldText f text := by
  unfold foldStep foldText viaBuffer
  split <;> simp [hc]

theorem stemStep_text {clears : Nat} (hc : clears ≠ 0) (g : List Nat → List Nat)
    (owned : List Nat → Bool) (buf text : List Nat) : (stemStep clears g owned buf text).1 = g text := by
  unfold stemStep viaBuffer
  split <;> simp [hc]

theorem apply_lower_eq_map (f : Nat → List Nat) (ts : List Token) :
    (Filter.lower f).apply ts = ts.map (fun t => { t with text := lowerText f t.text }) := by
  induction ts with
  | nil => rfl
  | cons t ts ih => simp only [Filter.apply, List.flatMap_cons, Filter.onToken, List.map_cons] at *; rw [ih]; rfl

theorem apply_fold_eq_map (f : Nat → Option (List Nat)) (ts : List Token) :
    (Filter.fold f).apply ts = ts.map (fun t => { t with text := foldText f t.text }) := by
  induction ts with
  | nil => rfl
  | cons t ts ih => simp only [Filter.apply, List.flatMap_cons, Filter.onToken, List.map_cons] at *; rw [ih]; rfl

theorem apply_stem_eq_map (g : List Nat → List Nat) (ts : List Token) :
    (Filter.stem g).apply ts = ts.map (fun t => { t with text := g t.text }) := by
  induction ts with
  | nil => rfl
  | cons t ts ih => simp only [Filter.apply, List.flatMap_cons, Filter.onToken, List.map_cons] at *; rw [ih]; rfl

end TantivyModel.Tok

namespace TantivyModel.Tok

theorem lower_clears : Gen.LOWERCASER_CLEARS_OUTPUT ≠ 0 := by decide
theorem fold_clears : Gen.ASCII_FOLDING_CLEARS_OUTPUT ≠ 0 := by decide
theorem stem_clears : Gen.STEMMER_CLEARS_BUFFER ≠ 0 := by decide
theorem split_clears : Gen.SPLIT_COMPOUND_CLEARS_PARTS ≠ 0 := by decide

/-- each filter's drained stream, from any state of its buffers, is the stateless filter -/
theorem stream_eq_apply (owned : List Nat → Bool) (f : Filter) (st : FilterState)
    (inner : List Token) : f.stream owned st inner = f.apply inner := by
  cases f with
  | lower g =>
    simp only [Filter.stream]
    rw [apply_lower_eq_map]; exact bufferedStream_of_step _ _ (lowerStep_text lower_clears g) inner st.buf
  | fold g =>
    simp only [Filter.stream]
    rw [apply_fold_eq_map]; exact bufferedStream_of_step _ _ (foldStep_text fold_clears g) inner st.buf
  | stem g =>
    simp only [Filter.stream]
    rw [apply_stem_eq_map]; exact bufferedStream_of_step _ _ (stemStep_text stem_clears g owned) inner st.buf
  | split g =>
    simp only [Filter.stream]
    rw [splitRun_emits]
    simp only [splitNewStream, split_clears, if_false, List.tail_nil, List.nil_append]
    exact List.take_of_length_le (by omega)
  | removeLong l => rfl
  | alnumOnly => rfl
  | stop ws => rfl

theorem chainStream_eq_applyChain (owned : List Nat → Bool) : ∀ (fs : List Filter)
    (sts : List FilterState) (ts : List Token), chainStream owned fs sts ts = applyChain fs ts := by
  intro fs
  induction fs with
  | nil => intro sts ts; cases sts <;> rfl
  | cons f fs ih =>
    intro sts ts
    cases sts with
    | nil => simp only [chainStream, stream_eq_apply, ih]; rfl
    | cons st sts => simp only [chainStream, stream_eq_apply, ih]; rfl

end TantivyModel.Tok
