import TantivyModel.Proofs.FaultsInv
/-! C11: what is known about a writer none of whose calls has failed (`clean`), and about the
lock file when its flush / delete never fail. -/
namespace TantivyModel.Faults

@[simp] theorem content_nil : content [] = [] := rfl
@[simp] theorem content_app (a b : List Seg) : content (a ++ b) = content a ++ content b := by
  simp [content]
@[simp] theorem content_single (n : Nat) (q : List Nat) : content [⟨n, q⟩] = q := by
  simp [content]

/-- facts about a writer that has not reported any error since it was created / rolled back -/
def CleanW (s : St) (w : Writer) : Prop :=
  w.guard = true ∧ w.killed = false ∧ w.workers = true ∧ w.committed = s.metaSegs ∧
  True ∧ w.active = s.metaSegs ∧
  (w.workerErr = false → w.alive = true ∧ content w.uncommitted ++ w.queue = w.acked) ∧
  (w.workerErr = true → w.alive = false)

def K (s : St) : Prop :=
  match s.writer with
  | none => True
  | some w => w.clean = true → CleanW s w

theorem K_init : K init := by simp [K, init]

theorem cleanW_fresh (s : St) (l : Bool) :
    CleanW { s with lockFile := l, writer := some (freshWriter s) } (freshWriter s) := by
  simp [CleanW, freshWriter]

theorem K_updaterCommit (f : Plan) (s : St) (w : Writer)
    (h : w.clean = true → w.guard = true ∧ w.killed = false ∧ w.workers = true ∧
          w.committed = s.metaSegs ∧ w.active = s.metaSegs ∧ w.workerErr = false ∧ w.alive = true ∧ w.queue = []) :
    K (updaterCommit sy f s w).1 := by
  unfold updaterCommit
  split
  · simp [K, markErr]
  · split
    · simp [K, markErr]
    · split
      · simp [K, markErr]
      · split
        · simp [K, markErr]
        · simp only [K, gcRun_writer]
          intro hc
          have hc' : w.clean = true := by simpa [published, commitRegs] using hc
          obtain ⟨h1, h2, h3, h4, h5, h6, h7, h8⟩ := h hc'
          simp [CleanW, published, commitRegs, gcRun_meta, h1, h2, h3, h6, h7, h8]

theorem K_call (sy : Bool) (fx : Fixes) (cap : Nat) (f : Plan) (s : St) (c : Call) (hk : K s) : K (call sy fx cap f s c).1 := by
  cases c with
  | newWriter =>
    simp only [call]
    cases hs : s.writer with
    | some w => simpa [K, hs] using hk
    | none =>
      simp only
      split
      · simp [K, hs]
      · split
        · simp [K, hs]
        · split
          · simp [K, hs]
          · split
            · simp [K, hs, releaseLock]
            · simp only [K]; intro _; exact cleanW_fresh s true
  | add d =>
    simp only [call]
    cases hs : s.writer with
    | none => simp [K, hs]
    | some w =>
      simp only [K, hs] at hk
      simp only
      split
      · simp [K, markErr]
      · rename_i hal
        split
        · rename_i hwk
          split
          · simpa [K, hs] using hk
          · simp only [K]
            intro hc
            have := hk hc
            simp [CleanW] at this hwk
            simp [this.2.2.1] at hwk
        · split
          · simp only [K]
            intro hc
            obtain ⟨h1, h2, h3, h4, h5, h6, _, _⟩ := hk (by simpa [bombed] using hc)
            simp [CleanW, bombed, newFiles, h1, h2, h3, h4, h5, h6]
          · have key : w.clean = true → w.alive = true ∧ w.workerErr = false ∧
                content w.uncommitted ++ w.queue = w.acked := by
              intro hc
              obtain ⟨_, _, _, _, _, _, h7, h8⟩ := hk hc
              have hal' : w.alive = true := by simpa using hal
              have hwe : w.workerErr = false := by
                cases hh : w.workerErr
                · rfl
                · have := h8 hh; simp [this] at hal'
              exact ⟨hal', hwe, (h7 hwe).2⟩
            split
            · simp only [K]
              intro hc
              obtain ⟨h1, h2, h3, h4, h5, h6, _, _⟩ := hk hc
              obtain ⟨hal', hwe, hq⟩ := key hc
              simp [CleanW, newFiles, h1, h2, h3, h4, h6, hwe, hal', ← hq, List.append_assoc]
            · simp only [K]
              intro hc
              obtain ⟨h1, h2, h3, h4, h5, h6, _, _⟩ := hk hc
              obtain ⟨hal', hwe, hq⟩ := key hc
              simp [CleanW, h1, h2, h3, h4, h6, hwe, hal', ← hq, List.append_assoc]
  | commit =>
    simp only [call]
    cases hs : s.writer with
    | none => simp [K, hs]
    | some w =>
      simp only [K, hs] at hk
      simp only
      split
      · rename_i hwk
        apply K_updaterCommit
        intro hc
        have := hk hc
        simp [CleanW] at this
        simp [this.2.2.1] at hwk
      · split
        · simp [K, markErr]
        · rename_i hwe
          split
          · simp [K, markErr]
          · apply K_updaterCommit
            intro hc
            have hc' : w.clean = true := by
              unfold flushW at hc
              split at hc <;> simpa using hc
            obtain ⟨h1, h2, h3, h4, h5, h6, h7, h8⟩ := hk hc'
            have hwe' : w.workerErr = false := by simpa using hwe
            unfold flushW flushS
            split
            · rename_i hq
              have hq' : w.queue = [] := by simpa using hq
              simp [h1, h2, h3, h4, h6, hwe', hq']
            · rename_i hq
              -- a clean writer has no uncommitted segment yet; the new one is published with the rest
              simp [h1, h2, h3, h6, hwe', newFiles]
              -- committed = metaSegs is required of the *input* of updaterCommit; here the state
              -- is `newFiles s`, whose metaSegs is unchanged
              exact h4
  | rollback =>
    simp only [call]
    cases hs : s.writer with
    | none => simp [K, hs]
    | some w =>
      simp only
      split
      · simp only [K]
        intro hc
        simp only [K, hs] at hk
        have := hk (by simpa using hc)
        rename_i hg
        simp [this.1] at hg
      · split
        · split <;> simp [K, markErr, releaseLock]
        · simp only [K]; intro _
          have := cleanW_fresh s s.lockFile
          simpa using this
  | dropWriter =>
    simp only [call]
    cases hs : s.writer with
    | none => simp [K, hs]
    | some w =>
      simp only
      split <;> simp [K, releaseLock]
  | waitMerges =>
    simp only [call]
    cases hs : s.writer with
    | none => simp [K, hs]
    | some w =>
      simp only
      split <;> simp [K, releaseLock]
  | merge =>
    simp only [call]
    cases hs : s.writer with
    | none => simp [K, hs]
    | some w =>
      simp only [K, hs] at hk
      simp only
      split
      · simp [K, markErr]
      · split
        · simp [K, markErr]
        · split
          · simp [K, markErr]
          · split
            · simp [K, markErr]
            · split
              · simp [K, markErr]
              · simp only [K, gcRun_writer]
                intro hc
                obtain ⟨h1, h2, h3, h4, h5, h6, h7, h8⟩ := hk (by simpa [mergedPublished, mergedRegs] using hc)
                simp [CleanW, mergedPublished, mergedRegs, gcRun_meta, h1, h2, h3, h5, newFiles]
                exact ⟨h7, h8⟩
  | gc =>
    simp only [call]
    cases hs : s.writer with
    | none => simp [K, hs]
    | some w =>
      simp only [K, hs] at hk
      simp only
      split
      · simp [K, markErr]
      · split
        · simp only [K, gcRun_writer, hs]
          intro hc
          obtain ⟨h1, h2, h3, h4, h5, h6, h7, h8⟩ := hk hc
          exact ⟨h1, h2, h3, by rw [gcRun_meta]; exact h4, h5, by rw [gcRun_meta]; exact h6, h7, h8⟩
        · simp [K, markErr]
  | reload =>
    simp only [call]
    split
    · exact hk
    · cases hs : s.writer with
      | none => simp [K, hs]
      | some w =>
        simp only [K, hs] at hk ⊢
        intro hc
        exact hk hc
  | removeLock =>
    simp only [call]
    split
    · cases hs : s.writer with
      | none => simp [K, hs]
      | some w =>
        simp only [K, hs] at hk ⊢
        intro hc
        exact hk hc
    · exact hk

theorem K_run (sy : Bool) (fx : Fixes) (cap : Nat) (F : Nat → Plan) (i : Nat) (s : St) (cs : List Call) (h : K s) :
    K (run sy fx cap F i s cs).1 :=
  run_inv K sy fx cap (fun f s c => K_call sy fx cap f s c) F i s cs h

/-! ### a successful commit -/

theorem updaterCommit_ok {sy : Bool} {f : Plan} {s : St} {w : Writer} (h : (updaterCommit sy f s w).2 = .ok) :
    w.killed = false ∧ f .purge = false ∧ f .saveMeta = false ∧ (sy && f .saveSync2) = false ∧
    (updaterCommit sy f s w).1.metaSegs = w.committed ++ w.uncommitted := by
  unfold updaterCommit at h ⊢
  split at h
  · cases h
  · split at h
    · cases h
    · split at h
      · cases h
      · split at h
        · cases h
        · rename_i h1 h2 h3 h4
          simp only [h1, h2, h3, h4, Bool.false_eq_true, ↓reduceIte, gcRun_meta]
          exact ⟨by simpa using h1, by simpa using h2, by simpa using h3, by simpa using h4, rfl⟩

theorem content_append (a b : List Seg) : content (a ++ b) = content a ++ content b := by
  simp [content]

/-- the commit of a clean writer, when it returns `Ok` -/
theorem clean_commit_ok {sy : Bool} {fx : Fixes} {cap : Nat} {f : Plan} {s : St} {w : Writer} (hw : s.writer = some w)
    (hcw : CleanW s w) (hok : (call sy fx cap f s .commit).2 = .ok) :
    f .purge = false ∧ f .saveMeta = false ∧ (sy && f .saveSync2) = false ∧
    (w.queue ≠ [] → f .worker = false) ∧
    content (call sy fx cap f s .commit).1.metaSegs = content s.metaSegs ++ w.acked := by
  obtain ⟨h1, h2, h3, h4, h5, h6, h7, h8⟩ := hcw
  cases hwe : w.workerErr with
  | true => simp [call, hw, h3, hwe] at hok
  | false =>
    obtain ⟨h9, h10⟩ := h7 hwe
    simp only [call, hw, h3, hwe, Bool.not_true, Bool.false_eq_true, ↓reduceIte] at hok ⊢
    split at hok
    · cases hok
    · rename_i hcond
      obtain ⟨_, hp, hsv, hs2, hm⟩ := updaterCommit_ok hok
      refine ⟨hp, hsv, hs2, ?_, ?_⟩
      · intro hne
        cases hq : w.queue with
        | nil => exact absurd hq hne
        | cons a as =>
          have hin : inFlight fx w = true := by simp [inFlight, hq]
          simpa [hin] using hcond
      · rw [if_neg hcond, hm]
        unfold flushW
        split
        · rename_i hq
          have : w.queue = [] := by simpa using hq
          simp [h4, ← h10, this]
        · simp [h4, ← h10, List.append_assoc]

theorem updaterCommit_err {sy : Bool} {f : Plan} {s : St} {w : Writer} (h : (updaterCommit sy f s w).2 = .err) :
    (updaterCommit sy f s w).1.metaSegs = s.metaSegs ∨
    ((updaterCommit sy f s w).1.metaSegs = w.committed ++ w.uncommitted ∧ sy = true ∧
      f .saveSync2 = true ∧ f .purge = false ∧ f .saveMeta = false) := by
  unfold updaterCommit at h ⊢
  split
  · exact Or.inl rfl
  · split
    · exact Or.inl rfl
    · split
      · exact Or.inl rfl
      · rename_i h1 h2 h3
        split
        · rename_i h4
          right
          have : sy = true ∧ f .saveSync2 = true := by simpa using h4
          exact ⟨rfl, this.1, this.2, by simpa using h2, by simpa using h3⟩
        · rename_i h4
          simp [h1, h2, h3, h4] at h

/-- the commit of a clean writer, when it returns `Err`: `meta.json` is what it was, or exactly the
attempted commit (only when the post-rename sync failed) -/
theorem clean_commit_err {sy : Bool} {fx : Fixes} {cap : Nat} {f : Plan} {s : St} {w : Writer} (hw : s.writer = some w)
    (hcw : CleanW s w) (herr : (call sy fx cap f s .commit).2 = .err)
    (hfiles : segsHaveFiles (call sy fx cap f s .commit).1.metaSegs (call sy fx cap f s .commit).1.files) :
    content (call sy fx cap f s .commit).1.metaSegs = content s.metaSegs ∨
    (content (call sy fx cap f s .commit).1.metaSegs = content s.metaSegs ++ w.acked ∧ sy = true ∧
      f .saveSync2 = true ∧ f .purge = false ∧ f .saveMeta = false ∧
      segsHaveFiles (call sy fx cap f s .commit).1.metaSegs (call sy fx cap f s .commit).1.files) := by
  obtain ⟨h1, h2, h3, h4, h5, h6, h7, h8⟩ := hcw
  cases hwe : w.workerErr with
  | true => left; simp [call, hw, h3, hwe]
  | false =>
    obtain ⟨h9, h10⟩ := h7 hwe
    simp only [call, hw, h3, hwe, Bool.not_true, Bool.false_eq_true, ↓reduceIte] at herr hfiles ⊢
    split
    · exact Or.inl rfl
    · rename_i hcond
      rw [if_neg hcond] at herr hfiles
      have hS : (flushS s w).metaSegs = s.metaSegs := by unfold flushS; split <;> rfl
      rcases updaterCommit_err herr with hm | ⟨hm, hsy, hs2, hp, hsv⟩
      · left; rw [hm, hS]
      · right
        refine ⟨?_, hsy, hs2, hp, hsv, hfiles⟩
        rw [hm]
        unfold flushW
        split
        · rename_i hq
          have : w.queue = [] := by simpa using hq
          simp [h4, ← h10, this]
        · simp [h4, ← h10, List.append_assoc]

theorem rollback_noFault (sy : Bool) (fx : Fixes) (cap : Nat) (s1 : St) (w1 : Writer) (h : s1.writer = some w1)
    (hg : w1.guard = true) :
    call sy fx cap noFault s1 .rollback = ({ s1 with writer := some (freshWriter s1) }, .ok) := by
  simp [call, h, hg, noFault]

theorem flushW_killed (s : St) (w : Writer) : (flushW s w).killed = w.killed := by
  unfold flushW; split <;> rfl
theorem flushW_guard (s : St) (w : Writer) : (flushW s w).guard = w.guard := by
  unfold flushW; split <;> rfl

/-- only the post-rename sync fails in the commit of a clean writer -/
theorem commit_sync2_clean {fx : Fixes} {cap : Nat} {f : Plan} {s : St} {w : Writer} (hw : s.writer = some w)
    (hcw : CleanW s w) (hwe : w.workerErr = false)
    (hf : f .saveSync2 = true ∧ f .worker = false ∧ f .purge = false ∧ f .saveMeta = false) :
    (call true fx cap f s .commit).2 = .err ∧
    content (call true fx cap f s .commit).1.metaSegs = content s.metaSegs ++ w.acked ∧
    ∃ w1, (call true fx cap f s .commit).1.writer = some w1 ∧ w1.guard = true := by
  obtain ⟨h1, h2, h3, h4, h5, h6, h7, h8⟩ := hcw
  obtain ⟨hf1, hf2, hf3, hf4⟩ := hf
  obtain ⟨h9, h10⟩ := h7 hwe
  have hk : (flushW s { w with alive := true }).killed = false := by rw [flushW_killed]; exact h2
  have hg : (flushW s { w with alive := true }).guard = true := by rw [flushW_guard]; exact h1
  have hcall : call true fx cap f s .commit
      = updaterCommit true f (flushS s w) (flushW s { w with alive := true }) := by
    simp [call, hw, h3, hwe, hf2]
  have hu : updaterCommit true f (flushS s w) (flushW s { w with alive := true })
      = ({ (flushS s w) with metaSegs := (commitRegs (flushW s { w with alive := true })).committed,
                             writer := some (markErr (commitRegs (flushW s { w with alive := true }))) }, .err) := by
    simp [updaterCommit, hk, hf1, hf3, hf4]
  rw [hcall, hu]
  refine ⟨rfl, ?_, _, rfl, by simpa [markErr, commitRegs] using hg⟩
  show content (commitRegs (flushW s { w with alive := true })).committed = _
  unfold flushW
  split
  · rename_i hq
    have : w.queue = [] := by simpa using hq
    simp [commitRegs, h4, ← h10, this]
  · simp [commitRegs, h4, ← h10, List.append_assoc]

/-! ### the lock file -/

/-- plans in which releasing / flushing the lock file never fails -/
def LockSafe (f : Plan) : Prop := f .lockFlush = false ∧ f .lockDelete = false

theorem stale_call (sy : Bool) (fx : Fixes) (cap : Nat) (f : Plan) (hf : LockSafe f) (s : St) (c : Call)
    (h : stale s = false) : stale (call sy fx cap f s c).1 = false := by
  obtain ⟨hf1, hf2⟩ := hf
  cases c with
  | newWriter =>
    simp only [call]
    cases hs : s.writer with
    | some w => simpa [hs] using h
    | none =>
      simp only
      split
      · exact h
      · split
        · exact h
        · simp only [hf1, Bool.false_eq_true, ↓reduceIte]
          split
          · simp [stale, releaseLock, hf2]
          · simp [stale, freshWriter]
  | add d =>
    simp only [call]
    cases hs : s.writer with
    | none => simpa [hs] using h
    | some w =>
      simp only [stale, hs] at h
      simp only
      split
      · simpa [stale, markErr] using h
      · split
        · split
          · simpa [stale, hs] using h
          · simpa [stale] using h
        · split
          · simpa [stale, bombed, newFiles] using h
          · split
            · simpa [stale, newFiles] using h
            · simpa [stale] using h
  | commit =>
    simp only [call]
    cases hs : s.writer with
    | none => simpa [hs] using h
    | some w =>
      simp only [stale, hs] at h
      have hu : ∀ (s' : St) (w' : Writer), s'.lockFile = s.lockFile → w'.guard = w.guard →
          stale (updaterCommit sy f s' w').1 = false := by
        intro s' w' hl hg
        unfold updaterCommit
        split
        · simpa [stale, markErr, hl, hg] using h
        · split
          · simpa [stale, markErr, hl, hg] using h
          · split
            · simpa [stale, markErr, commitRegs, hl, hg] using h
            · split
              · simpa [stale, markErr, commitRegs, hl, hg] using h
              · simp only [stale, gcRun_lock, gcRun_writer]
                simpa [published, commitRegs, hl, hg] using h
      simp only
      split
      · exact hu _ _ rfl rfl
      · split
        · simpa [stale, markErr] using h
        · split
          · simpa [stale, markErr, newFiles] using h
          · apply hu
            · unfold flushS; split <;> simp [newFiles]
            · unfold flushW; split <;> simp
  | rollback =>
    simp only [call]
    cases hs : s.writer with
    | none => simpa [hs] using h
    | some w =>
      simp only [stale, hs] at h
      simp only
      split
      · rename_i hg
        simp only [Bool.not_eq_eq_eq_not, Bool.not_true] at hg
        simpa [stale, hg] using h
      · rename_i hg
        split
        · split
          · simp only [Bool.not_eq_eq_eq_not, Bool.not_true, Bool.not_eq_false] at hg
            simpa [stale, markErr, hg] using h
          · simp [stale, releaseLock, hf2]
        · simp only [Bool.not_eq_eq_eq_not, Bool.not_true, Bool.not_eq_false] at hg
          simpa [stale, freshWriter, hg] using h
  | dropWriter =>
    simp only [call]
    cases hs : s.writer with
    | none => simpa [hs] using h
    | some w =>
      simp only [stale, hs] at h
      simp only
      split
      · simp [stale, releaseLock, hf2]
      · rename_i hg
        simp only [Bool.not_eq_true] at hg
        simpa [stale, hg] using h
  | waitMerges =>
    simp only [call]
    cases hs : s.writer with
    | none => simpa [hs] using h
    | some w =>
      simp only [stale, hs] at h
      simp only
      split
      · simp [stale, releaseLock, hf2]
      · rename_i hg
        simp only [Bool.not_eq_true] at hg
        simpa [stale, hg] using h
  | merge =>
    simp only [call]
    cases hs : s.writer with
    | none => simpa [hs] using h
    | some w =>
      simp only [stale, hs] at h
      simp only
      split
      · simpa [stale, markErr] using h
      · split
        · simpa [stale, markErr, newFiles] using h
        · split
          · simpa [stale, markErr, newFiles] using h
          · split
            · simpa [stale, markErr, newFiles, mergedRegs] using h
            · split
              · simpa [stale, markErr, newFiles, mergedRegs] using h
              · simp only [stale, gcRun_lock, gcRun_writer]
                simpa [mergedPublished, mergedRegs, newFiles] using h
  | gc =>
    simp only [call]
    cases hs : s.writer with
    | none => simpa [hs] using h
    | some w =>
      have h0 := h
      simp only [stale, hs] at h
      simp only
      split
      · simpa [stale, markErr] using h
      · split
        · simp only [stale, gcRun_lock, gcRun_writer]
          exact h0
        · simp only [stale, gcRun_lock]
          simpa [markErr] using h
  | reload =>
    simp only [call]
    split
    · exact h
    · exact h
  | removeLock =>
    simp only [call]
    split
    · simp [stale]
    · exact h

/-- dropping the writer when no lock file is orphaned and the delete works: the lock is free -/
theorem drop_noFault (sy : Bool) (fx : Fixes) (cap : Nat) (s : St) (h : stale s = false) :
    call sy fx cap noFault s .dropWriter = ({ s with writer := none, lockFile := false }, .ok) := by
  obtain ⟨m, fl, mg, lf, wr, se, nx⟩ := s
  cases wr with
  | none =>
    have : lf = false := by simpa [stale] using h
    simp [call, this]
  | some w =>
    cases hg : w.guard with
    | true => simp [call, hg, releaseLock, noFault]
    | false =>
      have : lf = false := by simpa [stale, hg] using h
      simp [call, hg, this]

end TantivyModel.Faults
