import TantivyModel.Proofs.Bm25Q
import TantivyModel.Proofs.PureFns
/-!
Where `UB_block` comes from: the block-max pair `(fieldnorm_id, term_freq)` the serializer stores
for a block of 128 postings is the arg-max of the tf factor over the block; read back (the tf
through its one-byte code) and evaluated under THE SAME normalisation it bounds every posting of
the block. Exact arithmetic (`ℚ`).
-/
namespace TantivyModel.Bm25Q
open List TantivyModel.PureFns TantivyModel.Gen.Fn

/-- mirrors: src/postings/serializer.rs::close_block — `Iterator::max_by` over the block's
`(fieldnorm_id, term_freq)` pairs with the tf factor as the key (on ties the later element wins) -/
def maxByQ {α : Type} (g : α → ℚ) : List α → Option α
  | [] => none
  | x :: xs => some (xs.foldl (fun best y => if g y < g best then best else y) x)

theorem foldl_maxBy_spec {α : Type} (g : α → ℚ) : ∀ (xs : List α) (x : α),
    (xs.foldl (fun best y => if g y < g best then best else y) x ∈ x :: xs) ∧
      ∀ y, y ∈ x :: xs → g y ≤ g (xs.foldl (fun best y => if g y < g best then best else y) x)
  | [], x => by simp
  | z :: zs, x => by
    simp only [foldl_cons]
    obtain ⟨h1, h2⟩ := foldl_maxBy_spec g zs (if g z < g x then x else z)
    constructor
    · rcases mem_cons.mp h1 with h | h
      · rw [h]; split <;> simp
      · simp [h]
    · intro y hy
      have hb := h2 (if g z < g x then x else z) (by simp)
      rcases mem_cons.mp hy with rfl | hy
      · refine le_trans ?_ hb
        split
        · exact le_refl _
        · rename_i hlt; exact le_of_not_gt hlt
      · rcases mem_cons.mp hy with rfl | hy
        · refine le_trans ?_ hb
          split
          · rename_i hlt; exact le_of_lt hlt
          · exact le_refl _
        · exact h2 y (by simp [hy])

theorem maxByQ_spec {α : Type} (g : α → ℚ) (l : List α) (m : α) (h : maxByQ g l = some m) :
    m ∈ l ∧ ∀ y, y ∈ l → g y ≤ g m := by
  cases l with
  | nil => cases h
  | cons x xs =>
    simp only [maxByQ, Option.some.injEq] at h
    subst h
    exact foldl_maxBy_spec g xs x

/-- the tf the reader decodes from the stored one-byte code is not below the stored pair's tf -/
theorem decoded_tf_ge (tf : BitVec 32) :
    (tf.toNat : ℚ) ≤ ((decode_block_wand_max_tf (encode_block_wand_max_tf tf)).toNat : ℚ) := by
  have := block_wand_tf_upper tf
  rw [BitVec.ule_eq_decide] at this
  exact_mod_cast (by simpa using this : tf.toNat ≤ (decode_block_wand_max_tf (encode_block_wand_max_tf tf)).toNat)

/-- `UB_block` holds when the block-max pair is evaluated under the normalisation it was chosen
with: every posting `(fieldnorm_id, tf)` of the block has a tf factor not above the factor of the
stored pair read back through the one-byte tf code. -/
theorem block_pair_bounds (norm : Nat → ℚ) (hnorm : ∀ f, 0 < norm f) (block : List (Nat × BitVec 32))
    (fstar : Nat) (tstar : BitVec 32)
    (hmax : maxByQ (fun p : Nat × BitVec 32 => tfFactor (p.2.toNat : ℚ) (norm p.1)) block = some (fstar, tstar)) :
    ∀ p, p ∈ block → tfFactor (p.2.toNat : ℚ) (norm p.1)
      ≤ tfFactor ((decode_block_wand_max_tf (encode_block_wand_max_tf tstar)).toNat : ℚ) (norm fstar) := by
  intro p hp
  obtain ⟨_, h2⟩ := maxByQ_spec _ block (fstar, tstar) hmax
  refine le_trans (h2 p hp) ?_
  exact tf_factor_mono_tf (norm fstar) _ _ (hnorm fstar) (by positivity) (decoded_tf_ge tstar)

end TantivyModel.Bm25Q
