import TantivyModel.Model.QuerySem
/-
Alignment arithmetic of phrase and phrase-prefix matching: positions of the term at offset `o` are
shifted by `mx - o` for a common `mx ≥` every offset (`PostingsWithOffset`, and the prefix term of a
phrase-prefix query aligned on the maximum of all offsets incl. its own); a match is a value common
to all shifted lists. Which `mx` is used does not matter, and a match is exactly a choice of
positions whose gaps equal the offset gaps.
-/
set_option linter.unusedSimpArgs false
set_option linter.unusedVariables false
namespace TantivyModel.QuerySem

theorem contains_map_add (r : List Nat) (p k : Nat) : (r.map (· + k)).contains (p + k) = r.contains p := by
  rw [Bool.eq_iff_iff]
  simp only [List.contains_iff_mem, List.mem_map]
  constructor
  · rintro ⟨x, hx, he⟩
    have : x = p := by omega
    subst this; exact hx
  · intro h; exact ⟨p, h, rfl⟩

theorem phraseExact_shift (ls : List (List Nat)) (k : Nat) :
    phraseExact (ls.map (·.map (· + k))) = phraseExact ls := by
  cases ls with
  | nil => rfl
  | cons a rest =>
    simp only [List.map_cons, phraseExact, List.any_map, List.all_map, Function.comp_def, contains_map_add]

theorem dist_add (a b k : Nat) : dist (a + k) (b + k) = dist a b := by
  unfold dist; split <;> split <;> omega

theorem slopChain_shift (k : Nat) : ∀ (rest : List (List Nat)) (prev budget : Nat),
    slopChain (prev + k) budget (rest.map (·.map (· + k))) = slopChain prev budget rest := by
  intro rest
  induction rest with
  | nil => intro prev budget; rfl
  | cons a rest ih =>
    intro prev budget
    simp only [List.map_cons, slopChain, List.any_map, Function.comp_def, dist_add, ih]

theorem phraseSlop_shift (ls : List (List Nat)) (s k : Nat) :
    phraseSlop (ls.map (·.map (· + k))) s = phraseSlop ls s := by
  cases ls with
  | nil => rfl
  | cons a rest =>
    simp only [List.map_cons, phraseSlop, List.any_map, Function.comp_def, slopChain_shift]

theorem le_maxOff {terms : List (Nat × Bytes)} {ot : Nat × Bytes} (h : ot ∈ terms) : ot.1 ≤ maxOff terms := by
  induction terms with
  | nil => cases h
  | cons x r ih =>
    obtain ⟨o, t⟩ := x
    simp only [maxOff]
    rcases List.mem_cons.mp h with h | h
    · subst h; exact Nat.le_max_left _ _
    · exact Nat.le_trans (ih h) (Nat.le_max_right _ _)

/-- aligning on a larger common offset shifts every list by the same amount -/
theorem adjusted_shift (d : ADoc) (f mx k : Nat) (terms : List (Nat × Bytes))
    (hmx : ∀ ot ∈ terms, ot.1 ≤ mx) :
    adjusted d f (mx + k) terms = (adjusted d f mx terms).map (·.map (· + k)) := by
  unfold adjusted
  rw [List.map_map]
  apply List.map_congr_left
  intro ot hot
  obtain ⟨o, t⟩ := ot
  have ho : o ≤ mx := hmx (o, t) hot
  simp only [Function.comp_def, List.map_map]
  apply List.map_congr_left
  intro p _
  omega

/-- a value common to all shifted lists = a choice of one position per term aligned on it -/
theorem phraseExact_iff (ls : List (List Nat)) (hne : ls ≠ []) :
    phraseExact ls = true ↔ ∃ v, ∀ l ∈ ls, v ∈ l := by
  cases ls with
  | nil => exact absurd rfl hne
  | cons a rest =>
    simp only [phraseExact, List.any_eq_true, List.all_eq_true, List.contains_iff_mem]
    constructor
    · rintro ⟨v, hv, hall⟩
      refine ⟨v, ?_⟩
      intro l hl
      rcases List.mem_cons.mp hl with rfl | hl
      · exact hv
      · exact hall l hl
    · rintro ⟨v, h⟩
      exact ⟨v, h a (by simp), fun l hl => h l (by simp [hl])⟩

theorem mem_adjusted_iff (d : ADoc) (f mx : Nat) (terms : List (Nat × Bytes)) (v : Nat) :
    (∀ l ∈ adjusted d f mx terms, v ∈ l) ↔
      ∀ ot ∈ terms, ∃ pos ∈ positionsOf d f ot.2, pos + (mx - ot.1) = v := by
  unfold adjusted
  constructor
  · intro h ot hot
    have := h _ (List.mem_map.mpr ⟨ot, hot, rfl⟩)
    obtain ⟨o, t⟩ := ot
    obtain ⟨pos, hp, he⟩ := List.mem_map.mp this
    exact ⟨pos, hp, he⟩
  · intro h l hl
    obtain ⟨ot, hot, rfl⟩ := List.mem_map.mp hl
    obtain ⟨pos, hp, he⟩ := h ot hot
    obtain ⟨o, t⟩ := ot
    exact List.mem_map.mpr ⟨pos, hp, he⟩

end TantivyModel.QuerySem
