import TantivyModel.Proofs.PostingsBasic
/-! `decBlocks ∘ encBlocks = chunkBlocks`, `decodeTerm ∘ encodeTerm`, flattening of the chunks -/
namespace TantivyModel.Postings
open TantivyModel.Invert (RecOpt)

/-- hypotheses on a posting list: strictly increasing docs that fit 31 bits, one positive tf each -/
structure ValidList (docs tfs : List Nat) : Prop where
  sorted : docs.Pairwise (· < ·)
  bound : ∀ d ∈ docs, d < 2 ^ 31
  len : tfs.length = docs.length
  tfpos : ∀ t ∈ tfs, 1 ≤ t

theorem ValidList.drop {docs tfs : List Nat} (h : ValidList docs tfs) (n : Nat) :
    ValidList (docs.drop n) (tfs.drop n) :=
  ⟨h.sorted.sublist (List.drop_sublist n docs),
   fun d hd => h.bound d (List.mem_of_mem_drop hd),
   by simp [h.len],
   fun t ht => h.tfpos t (List.mem_of_mem_drop ht)⟩

theorem map_pred_succ (l : List Nat) (h : ∀ t ∈ l, 1 ≤ t) :
    (l.map (· - 1)).map (fun x => x + 1) = l := by
  induction l with
  | nil => rfl
  | cons a t ih =>
    have := h a (by simp)
    simp only [List.map_cons, ih (fun x hx => h x (by simp [hx]))]
    congr 1; omega

/-- one full block: the skip entry and the packed block decode to the block, then the rest -/
theorem decBlocks_step (c : Cfg) (o : RecOpt) (hP : GoodPacker c.B c.P)
    (k rem prev : Nat) (bd bt sk da : List Nat) (bs : List Block)
    (hbd : bd.length = c.B) (hbt : bt.length = c.B)
    (hsorted : bd.Pairwise (· < ·)) (hbound : ∀ d ∈ bd, d < 2 ^ 31)
    (hbelow : Below (offsetOpt prev) bd) (htf : ∀ t ∈ bt, 1 ≤ t)
    (hrest : decBlocks c o k (rem - c.B) (bd.getLastD 0) sk da = some bs) :
    decBlocks c o (k + 1) rem prev
      (skipEntry o (bd.getLastD 0) (numBits (strictDeltas (offsetOpt prev) bd))
        (numBits (bt.map (· - 1))) (bt.sum % 2 ^ 32) (0, 0) ++ sk)
      (c.P.pack (numBits (strictDeltas (offsetOpt prev) bd)) (strictDeltas (offsetOpt prev) bd) ++
        (if hasFreq o then c.P.pack (numBits (bt.map (· - 1))) (bt.map (· - 1)) else []) ++ da)
      = some ({ lastDoc := bd.getLastD 0, docs := bd, tfs := if hasFreq o then bt else [],
                tfSum := if o = .positions then bt.sum % 2 ^ 32 else 0, full := true } :: bs) := by
  have hB : 0 < c.B ∨ c.B = 0 := by omega
  have hds_lt : ∀ d ∈ strictDeltas (offsetOpt prev) bd, d < 2 ^ 31 := strictDeltas_le _ _ _ hbound
  have hdb : numBits (strictDeltas (offsetOpt prev) bd) < Gen.Postings.BITWIDTH_LIMIT := by
    have := numBits_le _ 31 hds_lt
    have hl : Gen.Postings.BITWIDTH_LIMIT = 32 := by decide
    omega
  have hds_len : (strictDeltas (offsetOpt prev) bd).length = c.B := by rw [strictDeltas_length, hbd]
  have htfm_len : (bt.map (· - 1)).length = c.B := by simp [hbt]
  have hlast_lt : bd.getLastD 0 < 2 ^ 32 := by
    by_cases hne : bd = []
    · subst hne; simp
    · have := hbound _ (getLastD_mem bd hne); omega
  have hpl := hP.pack_length (numBits (strictDeltas (offsetOpt prev) bd)) _ hds_len
  have hpl2 := hP.pack_length (numBits (bt.map (· - 1))) _ htfm_len
  unfold decBlocks
  simp only [List.length_append, skipEntry_length]
  have hnot : ¬ (entryLen o + sk.length < entryLen o) := by omega
  simp only [hnot, if_false]
  rw [skipEntry_readU32 _ _ _ _ _ _ _ hlast_lt]
  rw [skipEntry_getD4, decode_encode_bitwidth _ _ hdb, skipEntry_drop]
  simp only [if_true]
  cases ho : hasFreq o
  · -- no frequencies
    simp only [Bool.false_eq_true, if_false, List.append_nil, Nat.add_zero]
    have hnot2 : ¬ ((c.P.pack (numBits (strictDeltas (offsetOpt prev) bd))
        (strictDeltas (offsetOpt prev) bd)).length + da.length <
        numBits (strictDeltas (offsetOpt prev) bd) * c.B / 8) := by omega
    rw [if_neg (by simp only [List.length_nil]; omega)]
    rw [hP.unpack_pack _ _ da hds_len (lt_two_pow_numBits _)]
    rw [strictIntegrate_strictDeltas _ _ hsorted hbelow]
    have hdrop : (c.P.pack (numBits (strictDeltas (offsetOpt prev) bd))
        (strictDeltas (offsetOpt prev) bd) ++ da).drop
        (numBits (strictDeltas (offsetOpt prev) bd) * c.B / 8) = da := by
      rw [← hpl]; simp
    rw [hdrop, hrest]
    have ho' : ¬ (o = RecOpt.positions) := by intro h; subst h; simp [hasFreq] at ho
    simp [ho']
  · -- frequencies stored
    simp only [if_true]
    rw [skipEntry_getD5 o ho]
    simp only [List.append_assoc]
    rw [if_neg (by omega)]
    rw [hP.unpack_pack _ _ _ hds_len (lt_two_pow_numBits _)]
    rw [strictIntegrate_strictDeltas _ _ hsorted hbelow]
    have hdrop1 : (c.P.pack (numBits (strictDeltas (offsetOpt prev) bd))
        (strictDeltas (offsetOpt prev) bd) ++
        (c.P.pack (numBits (bt.map (· - 1))) (bt.map (· - 1)) ++ da)).drop
        (numBits (strictDeltas (offsetOpt prev) bd) * c.B / 8) =
        c.P.pack (numBits (bt.map (· - 1))) (bt.map (· - 1)) ++ da := by
      rw [← hpl]; simp
    have hdrop2 : (c.P.pack (numBits (strictDeltas (offsetOpt prev) bd))
        (strictDeltas (offsetOpt prev) bd) ++
        (c.P.pack (numBits (bt.map (· - 1))) (bt.map (· - 1)) ++ da)).drop
        (numBits (strictDeltas (offsetOpt prev) bd) * c.B / 8 +
         numBits (bt.map (· - 1)) * c.B / 8) = da := by
      rw [← List.drop_drop, hdrop1, ← hpl2]; simp
    rw [hdrop1, hdrop2, hP.unpack_pack _ _ da htfm_len (lt_two_pow_numBits _)]
    rw [map_pred_succ _ htf, hrest]
    by_cases hop : o = RecOpt.positions
    · subst hop
      rw [skipEntry_tfSum _ _ _ _ _ _ (Nat.mod_lt _ (by omega))]
    · simp [hop]

theorem decBlocks_encBlocks (c : Cfg) (o : RecOpt) (hB : 0 < c.B) (hS : 2 ≤ c.S)
    (hP : GoodPacker c.B c.P) (k : Nat) :
    ∀ (prev : Nat) (docs tfs : List Nat), k = docs.length / c.B → ValidList docs tfs →
      (prev = 0 ∨ ∀ d ∈ docs, prev < d) →
      decBlocks c o k docs.length prev (encBlocks c o k prev docs tfs).1 (encBlocks c o k prev docs tfs).2
        = some (chunkBlocks c o k docs tfs) := by
  induction k with
  | zero =>
    intro prev docs tfs hk hv hprev
    simp only [decBlocks, encBlocks, chunkBlocks, vintTail]
    by_cases h0 : docs.length = 0
    · have hd : docs = [] := List.length_eq_zero_iff.mp h0
      have ht : tfs = [] := List.length_eq_zero_iff.mp (by rw [hv.len, h0])
      subst hd ht
      simp [emptyTail]
    · simp only [h0, if_false]
      have hle : ∀ v ∈ docs, prev ≤ v := by
        intro v hv'
        rcases hprev with h | h
        · omega
        · exact Nat.le_of_lt (h v hv')
      have e1 := VInt.decList_encList c.S hS (deltas prev docs)
        (if hasFreq o = true then VInt.encList c.S tfs else [])
      rw [deltas_length] at e1
      rw [e1]
      simp only [integrate_deltas prev docs hv.sorted hle]
      cases ho : hasFreq o
      · simp
      · have e2 := VInt.decList_encList c.S hS tfs []
        rw [hv.len, List.append_nil] at e2
        simp [e2]
  | succ k ih =>
    intro prev docs tfs hk hv hprev
    have hlen : c.B ≤ docs.length := by
      rcases Nat.lt_or_ge docs.length c.B with h | h
      · rw [Nat.div_eq_of_lt h] at hk; omega
      · exact h
    have htake : (docs.take c.B).length = c.B := by simp; omega
    have httake : (tfs.take c.B).length = c.B := by simp [hv.len]; omega
    have hne : docs.take c.B ≠ [] := by
      intro h; rw [h] at htake; simp at htake; omega
    have hlast_mem := getLastD_mem (docs.take c.B) hne
    have hbelow : Below (offsetOpt prev) (docs.take c.B) := by
      unfold offsetOpt
      split
      · trivial
      · rename_i hp
        rcases hprev with h | h
        · exact absurd h hp
        · intro v hv'; exact h v (List.mem_of_mem_take hv')
    have hsorted_take : (docs.take c.B).Pairwise (· < ·) := hv.sorted.sublist (List.take_sublist _ _)
    have hk' : k = (docs.drop c.B).length / c.B := by
      simp only [List.length_drop]
      have : docs.length / c.B = (docs.length - c.B) / c.B + 1 := by
        have e : docs.length = (docs.length - c.B) + c.B := by omega
        rw [e, Nat.add_div_right _ hB]; simp
      omega
    have hprev' : (docs.take c.B).getLastD 0 = 0 ∨ ∀ d ∈ docs.drop c.B, (docs.take c.B).getLastD 0 < d :=
      Or.inr (fun d hd => take_lt_drop docs hv.sorted c.B _ hlast_mem d hd)
    have ih' := ih ((docs.take c.B).getLastD 0) (docs.drop c.B) (tfs.drop c.B) hk' (hv.drop c.B) hprev'
    have hremlen : (docs.drop c.B).length = docs.length - c.B := by simp
    rw [hremlen] at ih'
    simp only [encBlocks, chunkBlocks]
    exact decBlocks_step c o hP k docs.length prev (docs.take c.B) (tfs.take c.B) _ _ _ htake httake
      hsorted_take (fun d hd => hv.bound d (List.mem_of_mem_take hd)) hbelow
      (fun t ht => hv.tfpos t (List.mem_of_mem_take ht)) ih'

/-- the chunks of a list flatten back to it -/
theorem allDocs_chunkBlocks (c : Cfg) (o : RecOpt) (k : Nat) (docs tfs : List Nat) :
    allDocs (chunkBlocks c o k docs tfs) = docs := by
  induction k generalizing docs tfs with
  | zero => simp [chunkBlocks, allDocs]
  | succ k ih =>
    have := ih (docs.drop c.B) (tfs.drop c.B)
    simp only [allDocs] at this ⊢
    simp [chunkBlocks, this]

theorem allTfs_chunkBlocks (c : Cfg) (o : RecOpt) (ho : hasFreq o = true) (k : Nat) (docs tfs : List Nat) :
    allTfs (chunkBlocks c o k docs tfs) = tfs := by
  induction k generalizing docs tfs with
  | zero => simp [chunkBlocks, allTfs, ho]
  | succ k ih =>
    have := ih (docs.drop c.B) (tfs.drop c.B)
    simp only [allTfs] at this ⊢
    simp [chunkBlocks, this, ho]

theorem allTfs_chunkBlocks_basic (c : Cfg) (k : Nat) (docs tfs : List Nat) :
    allTfs (chunkBlocks c .basic k docs tfs) = [] := by
  induction k generalizing docs tfs with
  | zero => simp [chunkBlocks, allTfs, hasFreq]
  | succ k ih =>
    have := ih (docs.drop c.B) (tfs.drop c.B)
    simp only [allTfs] at this ⊢
    simp [chunkBlocks, this, hasFreq]

/-- a term's bytes decode to the chunks of its posting list -/
theorem decodeTerm_encodeTerm (c : Cfg) (o : RecOpt) (hB : 0 < c.B) (hS : 2 ≤ c.S)
    (hP : GoodPacker c.B c.P) (docs tfs : List Nat) (hv : ValidList docs tfs) :
    decodeTerm c o docs.length (encodeTerm c o docs tfs) =
      some (chunkBlocks c o (docs.length / c.B) docs tfs) := by
  have main := decBlocks_encBlocks c o hB hS hP (docs.length / c.B) 0 docs tfs rfl hv (Or.inl rfl)
  unfold decodeTerm encodeTerm
  by_cases hlt : docs.length < c.B
  · have hk : docs.length / c.B = 0 := Nat.div_eq_of_lt hlt
    have hnot : ¬ c.B ≤ docs.length := by omega
    rw [hk] at main ⊢
    simp only [hlt, if_true, hnot, if_false, List.nil_append]
    simp only [decBlocks] at main ⊢
    exact main
  · have hle : c.B ≤ docs.length := by omega
    simp only [hlt, if_false, hle, if_true, List.append_assoc]
    rw [VInt.dec_enc c.S hS]
    simp only [List.length_append]
    have : ¬ ((encBlocks c o (docs.length / c.B) 0 docs tfs).1.length +
        (encBlocks c o (docs.length / c.B) 0 docs tfs).2.length <
        (encBlocks c o (docs.length / c.B) 0 docs tfs).1.length) := by omega
    simp only [this, if_false, List.take_left', List.drop_left']
    exact main

end TantivyModel.Postings
