import TantivyModel.Proofs.Faults
/-! C11: the storage invariant `J` is kept by every call under every fault plan. -/
namespace TantivyModel.Faults

/-- installing a writer whose references all have files -/
theorem J_install {s : St} (w : Writer) (hm : segsHaveFiles s.metaSegs s.files)
    (hc : segsHaveFiles w.committed s.files) (hu : segsHaveFiles w.uncommitted s.files)
    (ha : segsHaveFiles w.active s.files) (hk : w.killed = false → w.active = s.metaSegs) :
    J { s with writer := some w } := ⟨hm, hc, hu, ha, hk⟩

theorem J_newFiles_install {s : St} (w : Writer) (hm : segsHaveFiles s.metaSegs s.files)
    (hc : segsHaveFiles w.committed s.files) (hu : segsHaveFiles w.uncommitted s.files)
    (ha : segsHaveFiles w.active s.files) (hk : w.killed = false → w.active = s.metaSegs) :
    J { (newFiles s) with writer := some w } :=
  ⟨segsHaveFiles_cons _ hm, segsHaveFiles_cons _ hc, segsHaveFiles_cons _ hu, segsHaveFiles_cons _ ha, hk⟩

theorem segsHaveFiles_append {a b : List Seg} {files : List Nat}
    (ha : segsHaveFiles a files) (hb : segsHaveFiles b files) : segsHaveFiles (a ++ b) files := by
  intro g hg
  rcases List.mem_append.1 hg with h | h
  · exact ha g h
  · exact hb g h

theorem J_updaterCommit (f : Plan) (s : St) (w : Writer)
    (hm : segsHaveFiles s.metaSegs s.files)
    (hc : segsHaveFiles w.committed s.files) (hu : segsHaveFiles w.uncommitted s.files)
    (ha : segsHaveFiles w.active s.files) (hk : w.killed = false → w.active = s.metaSegs) :
    J (updaterCommit f s w).1 := by
  unfold updaterCommit
  split
  · exact J_install (markErr w) hm hc hu ha hk
  · split
    · exact J_install (markErr w) hm hc hu ha hk
    · split
      · exact J_install (markErr (commitRegs w)) hm (segsHaveFiles_append hc hu)
          (by intro g hg; simp [markErr, commitRegs] at hg) ha hk
      · rename_i hkil _ _
        have hcu := segsHaveFiles_append hc hu
        apply J_gcRun f _ (published w) rfl
        · exact ⟨hcu, hcu, by intro g hg; simp [published, commitRegs] at hg, hcu, fun _ => rfl⟩
        · simpa [published, commitRegs] using hkil

theorem J_call (cap : Nat) (f : Plan) (s : St) (c : Call) (hj : J s) : J (call cap f s c).1 := by
  obtain ⟨hm, hw⟩ := hj
  cases c with
  | newWriter =>
    simp only [call]
    cases hs : s.writer with
    | some w => simpa [J, hs] using And.intro hm (by simpa [hs] using hw)
    | none =>
      simp only
      split
      · simpa [J, hs] using hm
      · split
        · simpa [J, hs] using hm
        · split
          · simpa [J, hs] using hm
          · split
            · simpa [J, hs, releaseLock] using hm
            · exact J_install (freshWriter s) hm hm (by intro g hg; simp [freshWriter] at hg) hm (fun _ => rfl)
  | add d =>
    simp only [call]
    cases hs : s.writer with
    | none => simpa [J, hs] using hm
    | some w =>
      rw [hs] at hw
      obtain ⟨hc, hu, ha, hk⟩ := hw
      simp only
      split
      · exact J_install (markErr w) hm hc hu ha hk
      · split
        · split
          · simpa [J, hs] using ⟨hm, hc, hu, ha, hk⟩
          · exact J_install _ hm hc hu ha hk
        · split
          · exact J_newFiles_install (bombed w d) hm hc hu ha hk
          · exact J_install _ hm hc hu ha hk
  | commit =>
    simp only [call]
    cases hs : s.writer with
    | none => simpa [J, hs] using hm
    | some w =>
      rw [hs] at hw
      obtain ⟨hc, hu, ha, hk⟩ := hw
      simp only
      split
      · exact J_updaterCommit f s _ hm hc hu ha hk
      · split
        · exact J_install _ hm hc hu ha hk
        · split
          · exact J_newFiles_install _ hm hc hu ha hk
          · unfold flushS flushW
            split
            · exact J_updaterCommit f s _ hm hc hu ha hk
            · apply J_updaterCommit f (newFiles s)
              · exact segsHaveFiles_cons _ hm
              · exact segsHaveFiles_cons _ hc
              · apply segsHaveFiles_append (segsHaveFiles_cons _ hu)
                intro g hg
                simp only [List.mem_singleton] at hg
                subst hg
                simp [newFiles]
              · exact segsHaveFiles_cons _ ha
              · exact hk
  | rollback =>
    simp only [call]
    cases hs : s.writer with
    | none => simpa [J, hs] using hm
    | some w =>
      rw [hs] at hw
      obtain ⟨hc, hu, ha, hk⟩ := hw
      simp only
      split
      · exact J_install { w with killed := true } hm hc hu ha (by simp)
      · split
        · exact J_install (markErr { w with guard := false, killed := true }) hm hc hu ha (by simp [markErr])
        · exact J_install (freshWriter s) hm hm (by intro g hg; simp [freshWriter] at hg) hm (fun _ => rfl)
  | dropWriter =>
    simp only [call]
    cases hs : s.writer with
    | none => simpa [J, hs] using hm
    | some w =>
      simp only
      split <;> simpa [J, releaseLock] using hm
  | merge =>
    simp only [call]
    cases hs : s.writer with
    | none => simpa [J, hs] using hm
    | some w =>
      rw [hs] at hw
      obtain ⟨hc, hu, ha, hk⟩ := hw
      simp only
      split
      · exact J_install (markErr w) hm hc hu ha hk
      · rename_i hkil
        have hkil' : w.killed = false := by
          cases hh : w.killed <;> simp [hh] at hkil ⊢
        split
        · exact J_newFiles_install (markErr w) hm hc hu ha hk
        · split
          · exact J_newFiles_install (markErr w) hm hc hu ha hk
          · have hnew : segsHaveFiles [(⟨s.nextSeg, content w.committed⟩ : Seg)] (newFiles s).files := by
              intro g hg
              simp only [List.mem_singleton] at hg
              subst hg
              simp [newFiles]
            split
            · exact ⟨segsHaveFiles_cons _ hm, hnew, segsHaveFiles_cons _ hu, segsHaveFiles_cons _ ha, hk⟩
            · apply J_gcRun f _ (mergedPublished s w) rfl
              · exact ⟨hnew, hnew, segsHaveFiles_cons _ hu, hnew, fun _ => rfl⟩
              · simpa [mergedPublished, mergedRegs] using hkil'
  | gc =>
    simp only [call]
    cases hs : s.writer with
    | none => simpa [J, hs] using hm
    | some w =>
      have hj : J s := ⟨hm, hw⟩
      rw [hs] at hw
      obtain ⟨hc, hu, ha, hk⟩ := hw
      simp only
      split
      · exact J_install (markErr w) hm hc hu ha hk
      · rename_i hkil
        have hkil' : w.killed = false := by simpa using hkil
        have hg := J_gcRun f s w hs hj hkil'
        split
        · exact hg
        · obtain ⟨h1, h2⟩ := hg
          rw [gcRun_writer, hs] at h2
          exact ⟨h1, h2.1, h2.2.1, h2.2.2.1, h2.2.2.2⟩
  | reload =>
    simp only [call]
    split
    · exact ⟨hm, hw⟩
    · exact ⟨hm, hw⟩
  | removeLock =>
    simp only [call]
    split
    · exact ⟨hm, hw⟩
    · exact ⟨hm, hw⟩

theorem J_run (cap : Nat) (F : Nat → Plan) (i : Nat) (s : St) (cs : List Call) (h : J s) :
    J (run cap F i s cs).1 :=
  run_inv J cap (fun f s c => J_call cap f s c) F i s cs h

end TantivyModel.Faults
