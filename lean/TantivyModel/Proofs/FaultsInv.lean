import TantivyModel.Proofs.Faults
/-! C11: the storage invariant `J` is kept by every call under every fault plan — with one
proviso when the code syncs the directory again after the rename of `meta.json` (`sy`): while
`meta.json` is ahead of `active_index_meta` (that barrier failed and nothing was saved since), a
merge must not fail first in `end_merge`'s `save_metas`. -/
namespace TantivyModel.Faults

/-- installing a writer whose references all have files -/
theorem J_install {sy : Bool} {s : St} (w : Writer) (hm : segsHaveFiles s.metaSegs s.files)
    (hc : segsHaveFiles w.committed s.files) (hu : segsHaveFiles w.uncommitted s.files)
    (ha : segsHaveFiles w.active s.files) (hk : w.killed = false → Mirrors sy s w) :
    J sy { s with writer := some w } := ⟨hm, hc, hu, ha, hk⟩

theorem J_newFiles_install {sy : Bool} {s : St} (w : Writer) (hm : segsHaveFiles s.metaSegs s.files)
    (hc : segsHaveFiles w.committed s.files) (hu : segsHaveFiles w.uncommitted s.files)
    (ha : segsHaveFiles w.active s.files) (hk : w.killed = false → Mirrors sy s w) :
    J sy { (newFiles s) with writer := some w } :=
  ⟨segsHaveFiles_cons _ hm, segsHaveFiles_cons _ hc, segsHaveFiles_cons _ hu, segsHaveFiles_cons _ ha, hk⟩

theorem segsHaveFiles_append {a b : List Seg} {files : List Nat}
    (ha : segsHaveFiles a files) (hb : segsHaveFiles b files) : segsHaveFiles (a ++ b) files := by
  intro g hg
  rcases List.mem_append.1 hg with h | h
  · exact ha g h
  · exact hb g h

/-- `segment_manager.commit` only adds to the committed register -/
theorem mirrors_commitRegs {sy : Bool} {s : St} {w : Writer} (h : Mirrors sy s w) :
    Mirrors sy s (commitRegs w) := by
  rcases h with h | ⟨h1, h2⟩
  · exact Or.inl h
  · exact Or.inr ⟨h1, fun g hg => List.mem_append_left _ (h2 g hg)⟩

theorem J_updaterCommit (sy : Bool) (f : Plan) (s : St) (w : Writer)
    (hm : segsHaveFiles s.metaSegs s.files)
    (hc : segsHaveFiles w.committed s.files) (hu : segsHaveFiles w.uncommitted s.files)
    (ha : segsHaveFiles w.active s.files) (hk : w.killed = false → Mirrors sy s w) :
    J sy (updaterCommit sy f s w).1 := by
  have hcu := segsHaveFiles_append hc hu
  unfold updaterCommit
  split
  · exact J_install (markErr w) hm hc hu ha hk
  · split
    · exact J_install (markErr w) hm hc hu ha hk
    · split
      · exact J_install (markErr (commitRegs w)) hm hcu
          (by intro g hg; simp [markErr, commitRegs] at hg) ha (fun h => mirrors_commitRegs (hk h))
      · split
        · rename_i hsy
          have hsy' : sy = true := by
            cases sy <;> simp at hsy ⊢
          exact ⟨hcu, hcu, by intro g hg; simp [markErr, commitRegs] at hg, ha,
            fun _ => Or.inr ⟨hsy', fun g hg => hg⟩⟩
        · rename_i hkil _ _ _
          apply J_gcRun sy f _ (published w) rfl
          · exact ⟨hcu, hcu, by intro g hg; simp [published, commitRegs] at hg, hcu, fun _ => Or.inl rfl⟩
          · simpa [published, commitRegs] using hkil

/-- a merge that fails first in `end_merge`'s `save_metas` (after the registers were swapped) -/
def mergeSaveFirst (f : Plan) : Bool := !f .mergeThread && !f .endMergePurge && f .endMergeSave

/-- the proviso of the invariant for one call in state `s` -/
def SafeStep (s : St) (f : Plan) (c : Call) : Prop :=
  ∀ w, s.writer = some w → w.killed = false → w.active ≠ s.metaSegs → c = .merge → mergeSaveFirst f = false

theorem J_call (sy : Bool) (fx : Fixes) (cap : Nat) (f : Plan) (s : St) (c : Call) (hj : J sy s)
    (hsafe : SafeStep s f c) : J sy (call sy fx cap f s c).1 := by
  obtain ⟨hm, hw⟩ := hj
  cases c with
  | newWriter =>
    simp only [call]
    cases hs : s.writer with
    | some w => simpa [J, hs] using And.intro hm (by simpa [hs] using hw)
    | none =>
      simp only
      split
      · simpa [J, hs] using hm
      · split
        · simpa [J, hs] using hm
        · split
          · simpa [J, hs] using hm
          · split
            · simpa [J, hs, releaseLock] using hm
            · exact J_install (freshWriter s) hm hm (by intro g hg; simp [freshWriter] at hg) hm (fun _ => Or.inl rfl)
  | add d =>
    simp only [call]
    cases hs : s.writer with
    | none => simpa [J, hs] using hm
    | some w =>
      rw [hs] at hw
      obtain ⟨hc, hu, ha, hk⟩ := hw
      simp only
      split
      · exact J_install (markErr w) hm hc hu ha hk
      · split
        · split
          · simpa [J, hs] using ⟨hm, hc, hu, ha, hk⟩
          · exact J_install _ hm hc hu ha hk
        · split
          · exact J_newFiles_install (bombed w d) hm hc hu ha hk
          · split
            · refine ⟨segsHaveFiles_cons _ hm, segsHaveFiles_cons _ hc, ?_, segsHaveFiles_cons _ ha, hk⟩
              apply segsHaveFiles_append (segsHaveFiles_cons _ hu)
              intro g hg
              simp only [List.mem_singleton] at hg
              subst hg
              simp [newFiles]
            · exact J_install _ hm hc hu ha hk
  | commit =>
    simp only [call]
    cases hs : s.writer with
    | none => simpa [J, hs] using hm
    | some w =>
      rw [hs] at hw
      obtain ⟨hc, hu, ha, hk⟩ := hw
      simp only
      split
      · exact J_updaterCommit sy f s _ hm hc hu ha hk
      · split
        · exact J_install _ hm hc hu ha hk
        · split
          · exact J_newFiles_install _ hm hc hu ha hk
          · unfold flushS flushW
            split
            · exact J_updaterCommit sy f s _ hm hc hu ha hk
            · apply J_updaterCommit sy f (newFiles s)
              · exact segsHaveFiles_cons _ hm
              · exact segsHaveFiles_cons _ hc
              · apply segsHaveFiles_append (segsHaveFiles_cons _ hu)
                intro g hg
                simp only [List.mem_singleton] at hg
                subst hg
                simp [newFiles]
              · exact segsHaveFiles_cons _ ha
              · exact hk
  | rollback =>
    simp only [call]
    cases hs : s.writer with
    | none => simpa [J, hs] using hm
    | some w =>
      rw [hs] at hw
      obtain ⟨hc, hu, ha, hk⟩ := hw
      simp only
      split
      · exact J_install { w with killed := true } hm hc hu ha (by simp)
      · split
        · split
          · exact J_install (markErr { w with killed := true }) hm hc hu ha (by simp [markErr])
          · exact J_install (markErr { w with guard := false, killed := true }) hm hc hu ha (by simp [markErr])
        · exact J_install (freshWriter s) hm hm (by intro g hg; simp [freshWriter] at hg) hm (fun _ => Or.inl rfl)
  | dropWriter =>
    simp only [call]
    cases hs : s.writer with
    | none => simpa [J, hs] using hm
    | some w =>
      simp only
      split <;> simpa [J, releaseLock] using hm
  | waitMerges =>
    simp only [call]
    cases hs : s.writer with
    | none => simpa [J, hs] using hm
    | some w =>
      simp only
      split <;> simpa [J, releaseLock] using hm
  | merge =>
    simp only [call]
    cases hs : s.writer with
    | none => simpa [J, hs] using hm
    | some w =>
      rw [hs] at hw
      obtain ⟨hc, hu, ha, hk⟩ := hw
      simp only
      split
      · exact J_install (markErr w) hm hc hu ha hk
      · rename_i hkil
        have hkil' : w.killed = false := by
          cases hh : w.killed <;> simp [hh] at hkil ⊢
        split
        · exact J_newFiles_install (markErr w) hm hc hu ha hk
        · rename_i hmt
          split
          · exact J_newFiles_install (markErr w) hm hc hu ha hk
          · rename_i hep
            have hnew : segsHaveFiles [(⟨s.nextSeg, content w.committed⟩ : Seg)] (newFiles s).files := by
              intro g hg
              simp only [List.mem_singleton] at hg
              subst hg
              simp [newFiles]
            split
            · -- `end_merge` swapped the registers, `save_metas` failed: `meta.json` must still be
              -- mirrored by `active_index_meta`
              rename_i hes
              refine ⟨segsHaveFiles_cons _ hm, hnew, segsHaveFiles_cons _ hu, segsHaveFiles_cons _ ha, ?_⟩
              intro _
              by_cases hact : w.active = s.metaSegs
              · exact Or.inl hact
              · have := hsafe w hs hkil' hact rfl
                simp [mergeSaveFirst, hmt, hep, hes] at this
            · split
              · rename_i hsy
                have hsy' : sy = true := by
                  cases sy <;> simp at hsy ⊢
                exact ⟨hnew, hnew, segsHaveFiles_cons _ hu, segsHaveFiles_cons _ ha,
                  fun _ => Or.inr ⟨hsy', fun g hg => hg⟩⟩
              · apply J_gcRun sy f _ (mergedPublished s w) rfl
                · exact ⟨hnew, hnew, segsHaveFiles_cons _ hu, hnew, fun _ => Or.inl rfl⟩
                · simpa [mergedPublished, mergedRegs] using hkil'
  | gc =>
    simp only [call]
    cases hs : s.writer with
    | none => simpa [J, hs] using hm
    | some w =>
      have hj : J sy s := ⟨hm, hw⟩
      rw [hs] at hw
      obtain ⟨hc, hu, ha, hk⟩ := hw
      simp only
      split
      · exact J_install (markErr w) hm hc hu ha hk
      · rename_i hkil
        have hkil' : w.killed = false := by simpa using hkil
        have hg := J_gcRun sy f s w hs hj hkil'
        split
        · exact hg
        · obtain ⟨h1, h2⟩ := hg
          rw [gcRun_writer, hs] at h2
          exact ⟨h1, h2.1, h2.2.1, h2.2.2.1, h2.2.2.2⟩
  | reload =>
    simp only [call]
    split
    · exact ⟨hm, hw⟩
    · exact ⟨hm, hw⟩
  | removeLock =>
    simp only [call]
    split
    · exact ⟨hm, hw⟩
    · exact ⟨hm, hw⟩

/-- without the second sync `meta.json` never runs ahead of `active_index_meta`: no proviso -/
theorem safeStep_of_nosync {s : St} (hj : J false s) (f : Plan) (c : Call) : SafeStep s f c := by
  intro w hw hk hne
  obtain ⟨_, hrest⟩ := hj
  rw [hw] at hrest
  rcases hrest.2.2.2 hk with h | ⟨h, _⟩
  · exact absurd h hne
  · cases h

/-- the proviso along a run -/
def Safe (sy : Bool) (fx : Fixes) (cap : Nat) (F : Nat → Plan) : Nat → St → List Call → Prop
  | _, _, [] => True
  | i, s, c :: cs => SafeStep s (F i) c ∧ Safe sy fx cap F (i + 1) (call sy fx cap (F i) s c).1 cs

theorem J_run (sy : Bool) (fx : Fixes) (cap : Nat) (F : Nat → Plan) (i : Nat) (s : St) (cs : List Call) (h : J sy s)
    (hs : Safe sy fx cap F i s cs) : J sy (run sy fx cap F i s cs).1 := by
  induction cs generalizing i s with
  | nil => exact h
  | cons c cs ih =>
    rw [run_cons]
    exact ih (i + 1) _ (J_call sy fx cap (F i) s c h hs.1) hs.2

theorem safe_of_nosync (fx : Fixes) (cap : Nat) (F : Nat → Plan) (i : Nat) (s : St) (cs : List Call) (h : J false s) :
    Safe false fx cap F i s cs := by
  induction cs generalizing i s with
  | nil => trivial
  | cons c cs ih =>
    have hs := safeStep_of_nosync h (F i) c
    exact ⟨hs, ih (i + 1) _ (J_call false fx cap (F i) s c h hs)⟩

theorem J_run_nosync (fx : Fixes) (cap : Nat) (F : Nat → Plan) (i : Nat) (s : St) (cs : List Call) (h : J false s) :
    J false (run false fx cap F i s cs).1 :=
  J_run false fx cap F i s cs h (safe_of_nosync fx cap F i s cs h)

end TantivyModel.Faults
