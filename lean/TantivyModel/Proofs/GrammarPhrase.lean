import TantivyModel.Model.Grammar.Phrase
/-!
Lemmas for the phrase-offset theorems of C16.
-/
namespace TantivyModel.Grammar.Phrase
variable {W : Type}

theorem compile_eq (toks : List (Nat × W)) : compile toks = toks := by
  induction toks with
  | nil => rfl
  | cons t ts ih => simp [compile] at ih ⊢

/-- the analysed tokens are exactly the kept words, each at its index (counted from `p`) -/
theorem mem_analyseFrom (keep : W → Bool) (p : Nat) (ws : List W) (q : Nat) (w : W) :
    (q, w) ∈ analyseFrom keep p ws ↔ ∃ i, q = p + i ∧ ws[i]? = some w ∧ keep w = true := by
  induction ws generalizing p with
  | nil => simp [analyseFrom]
  | cons x xs ih =>
    unfold analyseFrom
    constructor
    · intro h
      split at h
      · rename_i hk
        simp only [List.mem_cons, Prod.mk.injEq] at h
        rcases h with ⟨rfl, rfl⟩ | h
        · exact ⟨0, rfl, rfl, hk⟩
        · obtain ⟨i, rfl, hi, hkw⟩ := (ih (p + 1)).mp h
          exact ⟨i + 1, by omega, by simpa using hi, hkw⟩
      · obtain ⟨i, rfl, hi, hkw⟩ := (ih (p + 1)).mp h
        exact ⟨i + 1, by omega, by simpa using hi, hkw⟩
    · rintro ⟨i, rfl, hi, hkw⟩
      cases i with
      | zero =>
        simp only [List.getElem?_cons_zero, Option.some.injEq] at hi
        subst hi
        simp [hkw]
      | succ j =>
        have hj : xs[j]? = some w := by simpa using hi
        have : (p + (j + 1), w) ∈ analyseFrom keep (p + 1) xs :=
          (ih (p + 1)).mpr ⟨j, by omega, hj, hkw⟩
        split
        · exact List.mem_cons_of_mem _ this
        · exact this

/-- the first analysed token has the smallest position -/
theorem analyseFrom_head_le (keep : W → Bool) (p : Nat) (ws : List W) (o0 : Nat) (w0 : W)
    (rest : List (Nat × W)) (h : analyseFrom keep p ws = (o0, w0) :: rest) :
    ∀ t ∈ rest, o0 ≤ t.1 := by
  induction ws generalizing p with
  | nil => simp [analyseFrom] at h
  | cons x xs ih =>
    unfold analyseFrom at h
    split at h
    · simp only [List.cons.injEq, Prod.mk.injEq] at h
      obtain ⟨⟨rfl, rfl⟩, rfl⟩ := h
      intro t ht
      obtain ⟨q, w⟩ := t
      obtain ⟨i, rfl, _, _⟩ := (mem_analyseFrom keep (p + 1) xs q w).mp ht
      simp only
      omega
    · exact ih (p + 1) h

/-- a document that contains the phrase's words verbatim contains every analysed phrase token,
    shifted by the length of what precedes -/
theorem mem_doc_of_mem_phrase (keep : W → Bool) (pre ws post : List W) (o : Nat) (w : W)
    (h : (o, w) ∈ analyse keep ws) : (pre.length + o, w) ∈ analyse keep (pre ++ ws ++ post) := by
  obtain ⟨i, rfl, hi, hk⟩ := (mem_analyseFrom keep 0 ws o w).mp h
  refine (mem_analyseFrom keep 0 _ _ w).mpr ⟨pre.length + (0 + i), by omega, ?_, hk⟩
  have hlt : i < ws.length := by
    rcases Nat.lt_or_ge i ws.length with h | h
    · exact h
    · simp [List.getElem?_eq_none h] at hi
  simp only [Nat.zero_add, List.append_assoc]
  rw [List.getElem?_append_right (by omega)]
  simp only [Nat.add_sub_cancel_left]
  rw [List.getElem?_append_left hlt]
  exact hi

end TantivyModel.Grammar.Phrase
