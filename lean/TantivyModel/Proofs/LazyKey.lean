import TantivyModel.Model.LazyKey
import TantivyModel.Proofs.TopNComputer
import TantivyModel.Proofs.LexOrder
/-!
The lazy evaluation of chained tuple sort keys agrees with the full comparison under each
component's comparator, and collecting through it still yields the best K.
-/
namespace TantivyModel.TopN
open List

variable {κ κ₁ κ₂ : Type}

/-- `compare(a, b) == Greater` -/
def gtOf (cmp : κ → κ → Ordering) (a b : κ) : Bool := cmp a b == .gt

/-- a lazy acceptor decides exactly like the full comparison with `cmp` -/
def Faithful (accept : κ → κ → Option (Ordering × κ)) (cmp : κ → κ → Ordering) : Prop :=
  ∀ key thr, accept key thr = acceptLeaf cmp key thr

theorem faithful_leaf (cmp : κ → κ → Ordering) : Faithful (acceptLeaf cmp) cmp := fun _ _ => rfl

theorem faithful_pair {a₁ : κ₁ → κ₁ → Option (Ordering × κ₁)} {a₂ : κ₂ → κ₂ → Option (Ordering × κ₂)}
    {c₁ : κ₁ → κ₁ → Ordering} {c₂ : κ₂ → κ₂ → Ordering} (h₁ : Faithful a₁ c₁) (h₂ : Faithful a₂ c₂) :
    Faithful (acceptPair a₁ a₂) (lexCmp c₁ c₂) := by
  intro key thr
  unfold acceptPair
  rw [h₁ key.1 thr.1, h₂ key.2 thr.2]
  unfold acceptLeaf lexCmp
  cases h : c₁ key.1 thr.1 <;> cases h' : c₂ key.2 thr.2 <;> simp [Ordering.then]

/-- with the swap law of the head comparator, the pair's `Greater` is the lexicographic `lexGt` -/
theorem gtOf_lexCmp (c₁ : κ₁ → κ₁ → Ordering) (c₂ : κ₂ → κ₂ → Ordering)
    (hsw : ∀ a b, c₁ b a = .gt ↔ c₁ a b = .lt) (a b : κ₁ × κ₂) :
    gtOf (lexCmp c₁ c₂) a b = lexGt (gtOf c₁) (gtOf c₂) a b := by
  unfold gtOf lexCmp lexGt
  simp only []
  cases h : c₁ a.1 b.1 with
  | lt =>
    have := (hsw a.1 b.1).mpr h
    simp [Ordering.then, this]
  | eq =>
    have : c₁ b.1 a.1 ≠ .gt := fun hc => by rw [(hsw a.1 b.1).mp hc] at h; cases h
    cases h2 : c₁ b.1 a.1 <;> simp_all [Ordering.then]
  | gt => simp [Ordering.then]

/-- one lazily collected document keeps the `TopNComputer` invariant -/
theorem inv_collectLazy {cmp : κ → κ → Ordering} (hgt : StrictWeak (gtOf cmp)) {K : Nat}
    {sel : List (Entry κ) → List (Entry κ)} (hsel : SelectNth (gtOf cmp) K sel)
    {accept : κ → κ → Option (Ordering × κ)} (hacc : Faithful accept cmp)
    {xs : List (Entry κ)} {c : Computer κ} {e : Entry κ} (h : Inv (gtOf cmp) K xs c)
    (hasc : AddrAsc (xs ++ [e])) : Inv (gtOf cmp) K (xs ++ [e]) (collectLazy accept sel c e) := by
  unfold collectLazy
  cases ht : c.threshold with
  | none => exact inv_appendDoc hgt hsel h hasc
  | some t =>
    simp only
    rw [hacc e.key t]
    unfold acceptLeaf
    by_cases hlt : cmp e.key t = .lt
    · -- rejected: `TopNComputer::push` would have rejected it as well
      simp only [hlt, if_true]
      have hp := inv_push hgt hsel h hasc
      have hrej : gtOf cmp e.key t = false := by unfold gtOf; rw [hlt]; rfl
      unfold push at hp
      rw [ht] at hp
      simp only [hrej, Bool.false_eq_true, if_false] at hp
      exact hp
    · simp only [hlt, if_false]
      exact inv_appendDoc hgt hsel h hasc

theorem inv_collectLazyAll {cmp : κ → κ → Ordering} (hgt : StrictWeak (gtOf cmp)) {K : Nat}
    {sel : List (Entry κ) → List (Entry κ)} (hsel : SelectNth (gtOf cmp) K sel)
    {accept : κ → κ → Option (Ordering × κ)} (hacc : Faithful accept cmp)
    (es xs : List (Entry κ)) (c : Computer κ) (h : Inv (gtOf cmp) K xs c)
    (hasc : AddrAsc (xs ++ es)) : Inv (gtOf cmp) K (xs ++ es) (es.foldl (collectLazy accept sel) c) := by
  induction es generalizing xs c with
  | nil => simpa using h
  | cons e es ih =>
    have hasc' : AddrAsc ((xs ++ [e]) ++ es) := by simpa using hasc
    have hpre : AddrAsc (xs ++ [e]) := by
      unfold AddrAsc at hasc' ⊢
      exact (pairwise_append.mp hasc').1
    have := ih (xs ++ [e]) (collectLazy accept sel c e) (inv_collectLazy hgt hsel hacc h hpre) hasc'
    simpa using this

end TantivyModel.TopN
