import TantivyModel.Proofs.MergeMulti4
/-! the end of one of several merges; the run theorem for `SysM` -/
namespace TantivyModel.Merge

theorem pairwise_sym_get {α} (R : α → α → Prop) (hsym : ∀ a b, R a b → R b a) (l : List α)
    (hP : l.Pairwise R) (i j : Nat) (hi : i < l.length) (hj : j < l.length) (hne : i ≠ j) :
    R l[i] l[j] := by
  rcases Nat.lt_or_gt_of_ne hne with h | h
  · exact List.pairwise_iff_getElem.1 hP i j hi hj h
  · exact hsym _ _ (List.pairwise_iff_getElem.1 hP j i hj hi h)

theorem runInv_congr (s s' : Sys) (r : Running) (hst : s.st = s'.st) (hid : s.nextId = s'.nextId)
    (h : RunInv s r) : RunInv s' r := by
  cases s; cases s'
  simp only at hst hid
  subst hst; subst hid
  exact ⟨h.srcs_ne, h.srcs_lt, h.mwf, h.pendAll, h.pubC⟩

theorem endMerge_epoch (st : State) (r : Running) : (endMerge st r).epoch = st.epoch := by
  by_cases hep : r.epoch = st.epoch
  · by_cases hu : containsAll st.uncommitted r.sources = true
    · rw [endMerge_unc st r hep hu]
    · have hu' := bool_false_of_not_true hu
      by_cases hc : containsAll st.committed r.sources = true
      · rw [endMerge_com st r hep hu' hc]
      · have : endMerge st r = st := endMergeWith_discard_missing true st r hu' (bool_false_of_not_true hc)
        rw [this]
  · have : endMerge st r = st := endMergeWith_discard_epoch true st r hep
    rw [this]

theorem stepM_end (s : SysM) (a : Abs) (i : Nat) (hI : InvM s) (hR : RelM s a) :
    InvM (s.step (.endMerge i)) ∧ RelM (s.step (.endMerge i)) (a.step .endMerge) := by
  cases hget : s.running[i]? with
  | none =>
    have : s.step (.endMerge i) = s := by simp only [SysM.step, hget]
    rw [this]
    exact ⟨hI, hR⟩
  | some ri =>
    have hs : s.step (.endMerge i) = { s with st := endMerge s.st ri, running := s.running.eraseIdx i } := by
      simp only [SysM.step, hget, endMergeG_eq]
    rw [hs]
    have hil : i < s.running.length := (List.getElem?_eq_some_iff.1 hget).1
    have hiv : s.running[i] = ri := (List.getElem?_eq_some_iff.1 hget).2
    have hmi : ri ∈ s.running := List.mem_of_getElem? hget
    obtain ⟨hIe, hRe⟩ := step_endMerge (s.view (some ri)) a (hI.each ri hmi) hR
    have hstep : (s.view (some ri)).step .endMerge = ⟨endMerge s.st ri, none, s.stamp, s.nextId⟩ := rfl
    rw [hstep] at hIe hRe
    have hsub : ∀ r ∈ s.running.eraseIdx i, r ∈ s.running := fun r hr => (List.eraseIdx_sublist _ _).subset hr
    -- the merged ids of `ri` differ from those of every other running merge
    have hdist : ∀ rj ∈ s.running.eraseIdx i, ∀ m ∈ ri.merged.toList, ∀ m' ∈ rj.merged.toList,
        m.segId ≠ m'.segId := by
      intro rj hrj
      obtain ⟨j, hjl, hji, hjv⟩ := (List.mem_eraseIdx_iff_getElem).1 hrj
      have := pairwise_sym_get
        (fun r r' : Running => ∀ m ∈ r.merged.toList, ∀ m' ∈ r'.merged.toList, m.segId ≠ m'.segId)
        (fun a b h m hm m' hm' => (h m' hm' m hm).symm) s.running hI.distinct i j hil hjl (Ne.symm hji)
      rw [hiv, hjv] at this
      exact this
    constructor
    · refine { base := hIe, each := ?_, fresh := ?_, srclt := ?_, notsrc := ?_, distinct := ?_ }
      · intro rj hrj
        have hmj := hsub rj hrj
        have hIj := hI.each rj hmj
        apply inv_set_running ⟨endMerge s.st ri, none, s.stamp, s.nextId⟩ hIe rj
        · show rj.epoch ≤ (endMerge s.st ri).epoch
          rw [endMerge_epoch]
          exact hIj.repoch rj rfl
        · intro hep
          have hep' : rj.epoch = s.st.epoch := by
            have : rj.epoch = (endMerge s.st ri).epoch := hep
            rwa [endMerge_epoch] at this
          have hj : RunInv (s.view (some rj)) rj := hIj.run rj rfl hep'
          have hi : ri.epoch = (s.view (some rj)).st.epoch → RunInv (s.view (some rj)) ri := by
            intro h
            exact runInv_congr (s.view (some ri)) _ ri rfl rfl ((hI.each ri hmi).run ri rfl h)
          have key := runInv_after_other_end (s.view (some rj)) hIj ri rj hj hi
            (hI.notsrc ri hmi rj hmj) (hdist rj hrj)
          exact runInv_congr { s.view (some rj) with st := endMerge (s.view (some rj)).st ri }
            ⟨endMerge s.st ri, none, s.stamp, s.nextId⟩ rj rfl rfl key
      · intro rj hrj m hm
        obtain ⟨h1, h2⟩ := hI.fresh rj (hsub rj hrj) m hm
        refine ⟨h1, ?_⟩
        intro e he
        rcases endMerge_ids s.st ri e he with ⟨e0, he0, heq⟩ | ⟨mi, hmi', heq⟩
        · rw [← heq]; exact h2 e0 he0
        · rw [heq]; exact hdist rj hrj mi hmi' m hm
      · intro rj hrj
        exact hI.srclt rj (hsub rj hrj)
      · intro r hr r' hr'
        exact hI.notsrc r (hsub r hr) r' (hsub r' hr')
      · exact hI.distinct.sublist (List.eraseIdx_sublist _ _)
    · exact hRe

theorem stepM_all (s : SysM) (a : Abs) (ev : EvM) (hI : InvM s) (hR : RelM s a)
    (hok : ExplicitOk (s.view none) ev.toEv) :
    InvM (s.step ev) ∧ RelM (s.step ev) (a.step ev.toEv) := by
  cases ev with
  | addSeg docs => exact stepM_plain s a (.addSeg docs) rfl hI hR
  | delete key => exact stepM_plain s a (.delete key) rfl hI hR
  | commit => exact stepM_plain s a .commit rfl hI hR
  | rollback => exact stepM_plain s a .rollback rfl hI hR
  | deleteAll => exact stepM_plain s a .deleteAll rfl hI hR
  | removeEmpty => exact stepM_plain s a .removeEmpty rfl hI hR
  | startMerge ids => exact stepM_start s a ids hI hR
  | startMergeExplicit ids => exact stepM_startExplicit s a ids hI hR hok
  | endMerge i => exact stepM_end s a i hI hR

theorem runM_all (evs : List EvM) (s : SysM) (a : Abs) (hI : InvM s) (hR : RelM s a)
    (hok : OkTraceM s evs) :
    InvM (s.run evs) ∧ RelM (s.run evs) (a.run (evs.map EvM.toEv)) := by
  induction evs generalizing s a with
  | nil => exact ⟨hI, hR⟩
  | cons ev rest ih =>
    obtain ⟨h1, h2⟩ := stepM_all s a ev hI hR hok.1
    exact ih (s.step ev) (a.step ev.toEv) h1 h2 hok.2

def noExplicitM : EvM → Bool
  | .startMergeExplicit _ => false
  | _ => true

theorem okTraceM_of_noExplicit (evs : List EvM) (s : SysM) (h : evs.all noExplicitM = true) :
    OkTraceM s evs := by
  induction evs generalizing s with
  | nil => trivial
  | cons ev rest ih =>
    simp only [List.all_cons, Bool.and_eq_true] at h
    refine ⟨?_, ih _ h.2⟩
    cases ev <;> first | trivial | (simp [noExplicitM] at h)

end TantivyModel.Merge
