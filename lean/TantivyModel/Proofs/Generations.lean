import TantivyModel.Model.Generations
/-!
Invariant of the generation / inventory / warmer-GC model.
-/
namespace TantivyModel.Gens

theorem live_iff (s : GSt) (g : Nat) :
    live s g = true ↔ g ∈ s.inflight ∨ s.slot = some g ∨ 0 < s.clients g := by
  simp [live, or_assoc]

/-- no event other than `track` makes a generation live that was not -/
theorem live_step (s : GSt) (e : GEv) (g : Nat) (hok : gok s e = true)
    (h : live (gstep s e) g = true) : live s g = true ∨ (e = .track ∧ g = s.counter) := by
  rw [live_iff] at h
  cases e with
  | track =>
    simp only [gstep, List.mem_cons] at h
    rcases h with (h | h) | h | h
    · exact Or.inr ⟨rfl, h⟩
    · exact Or.inl ((live_iff s g).mpr (Or.inl h))
    · exact Or.inl ((live_iff s g).mpr (Or.inr (Or.inl h)))
    · exact Or.inl ((live_iff s g).mpr (Or.inr (Or.inr h)))
  | warm g0 => exact Or.inl ((live_iff s g).mpr h)
  | store g0 =>
    simp only [gok, List.contains_eq_mem, decide_eq_true_eq] at hok
    simp only [gstep, Option.some.injEq] at h
    left; rw [live_iff]
    rcases h with h | h | h
    · exact Or.inl (List.mem_of_mem_erase h)
    · subst h; exact Or.inl hok
    · exact Or.inr (Or.inr h)
  | abandon g0 =>
    simp only [gstep] at h
    left; rw [live_iff]
    rcases h with h | h | h
    · exact Or.inl (List.mem_of_mem_erase h)
    · exact Or.inr (Or.inl h)
    · exact Or.inr (Or.inr h)
  | take =>
    left; rw [live_iff]
    simp only [gstep] at h
    cases hs : s.slot with
    | none => rw [hs] at h; simpa [hs] using h
    | some g0 =>
      rw [hs] at h
      simp only [bump] at h
      rcases h with h | h | h
      · exact Or.inl h
      · exact Or.inr (Or.inl h)
      · by_cases hg : g = g0
        · subst hg; exact Or.inr (Or.inl rfl)
        · simp only [hg, if_false] at h; exact Or.inr (Or.inr h)
  | drop g0 =>
    left; rw [live_iff]
    simp only [gstep, bump] at h
    rcases h with h | h | h
    · exact Or.inl h
    · exact Or.inr (Or.inl h)
    · by_cases hg : g = g0
      · simp only [hg, if_true] at h; subst hg; exact Or.inr (Or.inr (by omega))
      · simp only [hg, if_false] at h; exact Or.inr (Or.inr h)
  | warmGc =>
    left; rw [live_iff]
    simp only [gstep] at h
    split at h <;> exact h

structure GInv (s : GSt) : Prop where
  /-- a warmed generation that is still live has its artifact -/
  kept : ∀ g, g ∈ s.everWarmed → live s g = true → g ∈ s.artifacts
  bound : ∀ g, live s g = true → g < s.counter
  warmedBound : ∀ g, g ∈ s.everWarmed → g < s.counter
  /-- every list handed to the warmers contained every generation live at that moment; kept as:
  ids are drawn in increasing order without repetition -/
  drawn : s.drawn = (List.range s.counter).reverse

theorem ginv_init : GInv ginit := by
  constructor <;> simp [ginit, live]

theorem mem_liveList (s : GSt) (g : Nat) (hb : g < s.counter) (hl : live s g = true) :
    g ∈ liveList s := by
  simp [liveList, hb, hl]

theorem ginv_step (s : GSt) (e : GEv) (hI : GInv s) (hok : gok s e = true) : GInv (gstep s e) := by
  have hlive := fun g => live_step s e g hok
  cases e with
  | track =>
    refine ⟨?_, ?_, ?_, ?_⟩
    · intro g hw hl
      rcases hlive g hl with h | ⟨_, h⟩
      · exact hI.kept g hw h
      · have := hI.warmedBound g hw; omega
    · intro g hl
      show g < s.counter + 1
      rcases hlive g hl with h | ⟨_, h⟩
      · have := hI.bound g h; omega
      · omega
    · intro g hw
      show g < s.counter + 1
      have := hI.warmedBound g hw; omega
    · show s.counter :: s.drawn = (List.range (s.counter + 1)).reverse
      rw [hI.drawn, List.range_succ, List.reverse_append]; rfl
  | warm g0 =>
    simp only [gok, List.contains_eq_mem, decide_eq_true_eq] at hok
    have hl0 : live s g0 = true := (live_iff s g0).mpr (Or.inl hok)
    refine ⟨?_, ?_, ?_, hI.drawn⟩
    · intro g hw hl
      simp only [gstep, List.mem_cons] at hw ⊢
      rcases hw with hw | hw
      · exact Or.inl hw
      · rcases hlive g hl with h | ⟨h, _⟩
        · exact Or.inr (hI.kept g hw h)
        · cases h
    · intro g hl
      rcases hlive g hl with h | ⟨h, _⟩
      · exact hI.bound g h
      · cases h
    · intro g hw
      simp only [gstep, List.mem_cons] at hw
      rcases hw with hw | hw
      · subst hw; exact hI.bound g hl0
      · exact hI.warmedBound g hw
  | store g0 =>
    refine ⟨?_, ?_, hI.warmedBound, hI.drawn⟩
    · intro g hw hl
      rcases hlive g hl with h | ⟨h, _⟩
      · exact hI.kept g hw h
      · cases h
    · intro g hl
      rcases hlive g hl with h | ⟨h, _⟩
      · exact hI.bound g h
      · cases h
  | abandon g0 =>
    refine ⟨?_, ?_, hI.warmedBound, hI.drawn⟩
    · intro g hw hl
      rcases hlive g hl with h | ⟨h, _⟩
      · exact hI.kept g hw h
      · cases h
    · intro g hl
      rcases hlive g hl with h | ⟨h, _⟩
      · exact hI.bound g h
      · cases h
  | take =>
    have hs : ∀ (x : GSt), (gstep s .take).counter = s.counter ∧
        (gstep s .take).everWarmed = s.everWarmed ∧ (gstep s .take).artifacts = s.artifacts ∧
        (gstep s .take).drawn = s.drawn := by
      intro _; simp only [gstep]; split <;> exact ⟨rfl, rfl, rfl, rfl⟩
    obtain ⟨h1, h2, h3, h4⟩ := hs s
    refine ⟨?_, ?_, ?_, ?_⟩
    · intro g hw hl
      rw [h2] at hw; rw [h3]
      rcases hlive g hl with h | ⟨h, _⟩
      · exact hI.kept g hw h
      · cases h
    · intro g hl
      rw [h1]
      rcases hlive g hl with h | ⟨h, _⟩
      · exact hI.bound g h
      · cases h
    · intro g hw; rw [h2] at hw; rw [h1]; exact hI.warmedBound g hw
    · rw [h4, h1]; exact hI.drawn
  | drop g0 =>
    refine ⟨?_, ?_, hI.warmedBound, hI.drawn⟩
    · intro g hw hl
      rcases hlive g hl with h | ⟨h, _⟩
      · exact hI.kept g hw h
      · cases h
    · intro g hl
      rcases hlive g hl with h | ⟨h, _⟩
      · exact hI.bound g h
      · cases h
  | warmGc =>
    by_cases hc : s.warmedIds.all (fun g => (liveList s).contains g) = true
    · have : gstep s .warmGc = s := by simp only [gstep, hc, if_true]
      rw [this]; exact hI
    · have hA : (gstep s .warmGc).artifacts =
          s.artifacts.filter (fun g => (liveList s).contains g) := by
        simp only [gstep]; rw [if_neg hc]
      have hE : (gstep s .warmGc).everWarmed = s.everWarmed := by
        simp only [gstep]; split <;> rfl
      have hC : (gstep s .warmGc).counter = s.counter := by
        simp only [gstep]; split <;> rfl
      have hD : (gstep s .warmGc).drawn = s.drawn := by
        simp only [gstep]; split <;> rfl
      have hl' : ∀ g, live (gstep s .warmGc) g = live s g := by
        intro g; simp only [live, gstep]; split <;> rfl
      refine ⟨?_, ?_, ?_, ?_⟩
      · intro g hw hl
        rw [hE] at hw; rw [hl'] at hl; rw [hA]
        have hm := mem_liveList s g (hI.bound g hl) hl
        simp only [List.mem_filter, List.contains_eq_mem, decide_eq_true_eq]
        exact ⟨hI.kept g hw hl, hm⟩
      · intro g hl; rw [hl'] at hl; rw [hC]; exact hI.bound g hl
      · intro g hw; rw [hE] at hw; rw [hC]; exact hI.warmedBound g hw
      · rw [hD, hC]; exact hI.drawn

theorem ginv_run (s : GSt) (t : List GEv) (hI : GInv s) (hv : gcheck s t = true) :
    GInv (grun s t) := by
  induction t generalizing s with
  | nil => exact hI
  | cons e t ih =>
    simp only [gcheck, Bool.and_eq_true] at hv
    exact ih (gstep s e) (ginv_step s e hI hv.1) hv.2

end TantivyModel.Gens
