import TantivyModel.Proofs.ReaderSeq
/-!
Publication as an atomic register (`ArcSwap`): what `searcher()` serves, that it only moves
forward when reloads are serialised, and that only warmed searchers are published.
-/
namespace TantivyModel.Reader

/-- the only event that changes the publication list is `publish`, and it appends -/
theorem pubs_step (s : St) (e : Ev) :
    (step s e).pubs = s.pubs ∨
    ∃ r j, e = .publish r ∧ (s.rs r).j = some j ∧ (step s e).pubs = s.pubs ++ [(r, j)] := by
  cases e with
  | publish r =>
    cases hj : (s.rs r).j with
    | none => left; simp [step, hj]
    | some j => right; exact ⟨r, j, rfl, hj, by simp [step, hj]⟩
  | openFile r p => left; simp only [step]; split <;> rfl
  | acquire r => left; rfl
  | loadMeta r => left; rfl
  | release r => left; rfl
  | warm r => left; rfl
  | create p b => left; rfl
  | saveMeta f => left; rfl
  | gcAcquire => left; rfl
  | gcList l => left; rfl
  | gcRelease => left; rfl
  | gcDelete p => left; rfl
  | mLock r => left; rfl
  | mUnlock r => left; rfl

theorem run_append (s : St) (t u : List Ev) : run s (t ++ u) = run (run s t) u := by
  simp [run, List.foldl_append]

/-- publications are never retracted: the list only grows at its end -/
theorem pubs_run_prefix (s : St) (u : List Ev) : ∃ ext, (run s u).pubs = s.pubs ++ ext := by
  induction u generalizing s with
  | nil => exact ⟨[], by simp [run]⟩
  | cons e u ih =>
    obtain ⟨ext, he⟩ := ih (step s e)
    have : run s (e :: u) = run (step s e) u := rfl
    rw [this, he]
    rcases pubs_step s e with h | ⟨r, j, _, _, h⟩
    · exact ⟨ext, by rw [h]⟩
    · exact ⟨(r, j) :: ext, by rw [h]; simp⟩

theorem pubsOf_of_pubs_append (ρ : Nat) (s s' : St) (ext : List (Rid × Nat))
    (h : s'.pubs = s.pubs ++ ext) :
    pubsOf ρ s' = pubsOf ρ s ++ (ext.filter (fun x => x.1.1 == ρ)).map (·.2) := by
  unfold pubsOf
  rw [h, List.filter_append, List.map_append]

/-- last element of a sorted list dominates the last element of any prefix -/
theorem getLast_le_of_pairwise (l1 l2 : List Nat) (hp : List.Pairwise (· ≤ ·) (l1 ++ l2))
    (a b : Nat) (ha : l1.getLast? = some a) (hb : (l1 ++ l2).getLast? = some b) : a ≤ b := by
  cases l2 with
  | nil =>
    rw [List.append_nil] at hb
    rw [ha] at hb
    cases hb
    exact Nat.le_refl _
  | cons x xs =>
    have hb' : (x :: xs).getLast? = some b := by
      rw [List.getLast?_append] at hb
      cases hx : (x :: xs).getLast? with
      | none => simp at hx
      | some y => rw [hx] at hb; simpa using hb
    have ham : a ∈ l1 := List.mem_of_getLast? ha
    have hbm : b ∈ x :: xs := List.mem_of_getLast? hb'
    exact (List.pairwise_append.mp hp).2.2 a ham b hbm

/-! ### warming -/

/-- once set, `warmed` of a reload stays set, except that `acquire` starts the reload afresh -/
theorem warmed_step (s : St) (e : Ev) (x : Rid) (hw : (s.rs x).warmed = true)
    (hne : e ≠ .acquire x) : ((step s e).rs x).warmed = true := by
  cases e with
  | acquire r =>
    have : x ≠ r := fun h => hne (by rw [h])
    simp [step, upd, this, hw]
  | loadMeta r => by_cases h : x = r <;> simp [step, upd, h, hw] <;> (subst h; exact hw)
  | openFile r p =>
    simp only [step]
    split <;> (by_cases h : x = r <;> simp [upd, h, hw] <;> (subst h; exact hw))
  | release r => by_cases h : x = r <;> simp [step, upd, h, hw] <;> (subst h; exact hw)
  | warm r => by_cases h : x = r <;> simp [step, upd, h, hw]
  | publish r =>
    simp only [step]
    split
    · by_cases h : x = r <;> simp [upd, h, hw] <;> (subst h; exact hw)
    · exact hw
  | create p b => exact hw
  | saveMeta f => exact hw
  | gcAcquire => exact hw
  | gcList l => exact hw
  | gcRelease => exact hw
  | gcDelete p => exact hw
  | mLock r => exact hw
  | mUnlock r => exact hw

def WarmInv (ρ : Nat) (s : St) : Prop :=
  ∀ r j, (r, j) ∈ s.pubs → r.1 = ρ → (s.rs r).warmed = true

theorem warm_step (ρ : Nat) (s : St) (e : Ev) (hI : Inv s) (hW : WarmInv ρ s)
    (hok : ok full s e = true) (hq : warmOk ρ s e = true) : WarmInv ρ (step s e) := by
  intro r j hm hr
  have old : (r, j) ∈ s.pubs → ((step s e).rs r).warmed = true := by
    intro hm'
    apply warmed_step s e r (hW r j hm' hr)
    intro he
    subst he
    simp only [ok, Bool.and_eq_true, decide_eq_true_eq] at hok
    have := (hI.pubOk r j hm').1
    rw [hok.2] at this
    exact absurd this (by decide)
  rcases pubs_step s e with h | ⟨r', j', he, hj', h⟩
  · rw [h] at hm; exact old hm
  · rw [h] at hm
    simp only [List.mem_append, List.mem_singleton, Prod.mk.injEq] at hm
    rcases hm with hm | ⟨h1, _⟩
    · exact old hm
    · subst he
      subst h1
      simp only [warmOk, Bool.or_eq_true, bne_iff_ne, ne_eq] at hq
      have hw : (s.rs r).warmed = true := by
        rcases hq with hq | hq
        · exact absurd hr hq
        · exact hq
      simp [step, hj', upd, hw]

theorem warm_run (ρ : Nat) (s : St) (t : List Ev) (hI : Inv s) (hW : WarmInv ρ s)
    (hv : validFrom full s t = true) (hq : check (warmOk ρ) s t = true) :
    WarmInv ρ (run s t) := by
  induction t generalizing s with
  | nil => exact hW
  | cons e t ih =>
    simp only [validFrom, check, Bool.and_eq_true] at hv hq
    exact ih (step s e) (inv_step s e hI hv.1) (warm_step ρ s e hI hW hv.1 hq.1) hv.2 hq.2

theorem warmInv_init (ρ : Nat) : WarmInv ρ init := by
  intro r j hm; simp [init] at hm

/-! ### the register -/

/-- an event that is not a publication of reader `ρ` leaves what `ρ` serves unchanged -/
theorem served_step_other (ρ : Nat) (s : St) (e : Ev) (h : ∀ r, e = .publish r → r.1 ≠ ρ) :
    pubsOf ρ (step s e) = pubsOf ρ s := by
  rcases pubs_step s e with hp | ⟨r, j, he, _, hp⟩
  · unfold pubsOf; rw [hp]
  · have hr := h r he
    rw [pubsOf_of_pubs_append ρ s _ [(r, j)] hp]
    simp [hr]

/-- a publication of reader `ρ` is what `ρ` serves from then on -/
theorem served_step_publish (s : St) (r : Rid) (j : Nat) (hj : (s.rs r).j = some j) :
    served r.1 (step s (.publish r)) = some j ∧ servedReload r.1 (step s (.publish r)) = some r := by
  have hp : (step s (.publish r)).pubs = s.pubs ++ [(r, j)] := by simp [step, hj]
  constructor
  · unfold served
    rw [pubsOf_of_pubs_append r.1 s _ [(r, j)] hp]
    simp
  · unfold servedReload
    rw [hp]
    simp [List.filter_append]

end TantivyModel.Reader
