import TantivyModel.Proofs.BlockWandTotalE
/-!
Part F: `advance_all_scorers_on_pivot` keeps the invariant and drops postings.
-/
namespace TantivyModel.BlockWand
open List TantivyModel.Wand

/-! ### the stable sort by current document sorts -/

theorem mem_insertByDoc {x y : S} {l : List S} (h : y ∈ insertByDoc x l) : y = x ∨ y ∈ l :=
  (mem_cons.mp ((insertByDoc_perm x l).subset h))

theorem insertByDoc_sorted (x : S) : ∀ (l : List S), SortedByDoc l → SortedByDoc (insertByDoc x l)
  | [], _ => by simp [insertByDoc, SortedByDoc]
  | y :: ys, hs => by
    unfold SortedByDoc at hs ⊢
    rw [pairwise_cons] at hs
    unfold insertByDoc
    split
    · rename_i hle
      rw [pairwise_cons, pairwise_cons]
      refine ⟨?_, hs⟩
      intro z hz
      rcases mem_cons.mp hz with rfl | hz
      · exact hle
      · have := hs.1 z hz; omega
    · rename_i hgt
      rw [pairwise_cons]
      refine ⟨?_, insertByDoc_sorted x ys hs.2⟩
      intro z hz
      rcases mem_insertByDoc hz with rfl | hz
      · omega
      · exact hs.1 z hz

theorem sortByDoc_sorted : ∀ (l : List S), SortedByDoc (sortByDoc l)
  | [] => Pairwise.nil
  | x :: xs => by
    have : sortByDoc (x :: xs) = insertByDoc x (sortByDoc xs) := rfl
    rw [this]
    exact insertByDoc_sorted x _ (sortByDoc_sorted xs)

/-! ### removing the exhausted scorers -/

theorem removeTerminated_le : ∀ (fuel i : Nat) (arr : List S),
    (∀ d, massLe (removeTerminated arr i fuel) d ≤ massLe arr d) ∧
      lenSum (removeTerminated arr i fuel) ≤ lenSum arr ∧
      (∀ s, s ∈ removeTerminated arr i fuel → s ∈ arr)
  | 0, _, arr => ⟨fun _ => Nat.le_refl _, Nat.le_refl _, fun _ h => h⟩
  | fuel + 1, i, arr => by
    unfold removeTerminated
    split
    · exact ⟨fun _ => Nat.le_refl _, Nat.le_refl _, fun _ h => h⟩
    · rename_i hlt
      have hlt' : i < arr.length := by omega
      rw [getElem?_eq_getElem hlt']
      simp only
      split
      · have hget : arr[i]? = some arr[i] := getElem?_eq_getElem hlt'
        obtain ⟨h1, h2, h3⟩ := removeTerminated_le fuel i (swapRemove arr i)
        have hl := lenSum_swapRemove hget
        exact ⟨fun d => Nat.le_trans (h1 d) (massLe_swapRemove_le hget d), by omega, fun s hs => mem_swapRemove (h3 s hs)⟩
      · exact removeTerminated_le fuel (i + 1) arr

/-! ### advancing a scorer that sits on the pivot -/

theorem find?_eq_getElem?_takeWhile {β : Type} (p q : β → Bool) (hpq : ∀ x, q x = !p x) : ∀ (l : List β),
    l.find? q = l[(l.takeWhile p).length]?
  | [] => rfl
  | y :: ys => by
    by_cases hy : p y = true
    · rw [takeWhile_cons_of_pos hy, find?_cons_of_neg (by rw [hpq, hy]; simp)]
      simp only [length_cons, getElem?_cons_succ]
      exact find?_eq_getElem?_takeWhile p q hpq ys
    · rw [takeWhile_cons_of_neg hy, find?_cons_of_pos (by rw [hpq]; simpa using hy)]
      simp

theorem advance_maxScore (x : S) : x.advance.maxScore = x.maxScore := by unfold TS.advance; split <;> rfl
theorem advance_blocks (x : S) : x.advance.blocks = x.blocks := by unfold TS.advance; split <;> rfl

/-- a scorer on the pivot `pd < T`: after `advance` it is behind the pivot, one posting shorter,
and its skip reader is not ahead of its new document's block -/
theorem advance_on_pivot (x : S) (hw : WFC x) (pd : Nat) (hd : x.doc = pd) (hpd : pd < T) (hj : JOK pd x) :
    pd < x.advance.doc ∧ x.advance.rest.length + 1 = x.rest.length ∧ JOK pd x.advance := by
  have hne : x.rest ≠ [] := by
    intro hnil
    have := doc_eq_T_of_nil hnil
    omega
  have hrest := advance_rest_seekP x hw.asc hne
  have hgt : pd < x.advance.doc := by
    by_cases hr : x.advance.rest = []
    · rw [doc_eq_T_of_nil hr]; exact hpd
    · obtain ⟨p, hp, hpd'⟩ := doc_mem hr
      rw [hrest] at hp
      have := seekP_ge_of_asc hw.asc _ p hp
      omega
  refine ⟨hgt, ?_, ?_⟩
  · rw [advance_rest]
    cases hr : x.rest with
    | nil => exact absurd hr hne
    | cons p ps => simp
  · unfold JOK at hj ⊢
    rw [hd, Nat.max_self] at hj
    have hbi : ∀ d, x.advance.blockIdx d = x.blockIdx d := fun d => by unfold TS.blockIdx; rw [advance_blocks]
    rw [hbi, Nat.max_eq_left (by omega)]
    have hskip : x.advance.skip = if (x.blockEnd x.doc == some x.doc) = true then x.skip + 1 else x.skip := by
      unfold TS.advance; split <;> rfl
    rw [hskip]
    generalize x.advance.doc = nd at hgt ⊢
    split
    · rename_i hend
      -- the current document is the last of its block: the next one is in a later block
      have hfind : x.blocks[x.blockIdx pd]? = (x.blocks.find? (fun b => decide (pd ≤ b.1))) := by
        unfold TS.blockIdx
        exact (find?_eq_getElem?_takeWhile (fun b : Nat × Nat => decide (b.1 < pd)) (fun b => decide (pd ≤ b.1))
          (fun b => by by_cases h : b.1 < pd <;> simp [h] <;> omega) x.blocks).symm
      unfold TS.blockEnd at hend
      rw [hd] at hend
      cases hf : x.blocks.find? (fun b => decide (pd ≤ b.1)) with
      | none => rw [hf] at hend; simp at hend
      | some b =>
        rw [hf] at hend hfind
        have hb : b.1 = pd := by simpa using hend
        have := takeWhile_length_succ (fun b : Nat × Nat => decide (b.1 < pd)) (fun b => decide (b.1 < nd))
          (fun y hy => by simp only [decide_eq_true_eq] at hy ⊢; omega) x.blocks b hfind
          (by simp only [decide_eq_true_eq]; omega)
        unfold TS.blockIdx at hj ⊢
        omega
    · exact Nat.le_trans hj (blockIdx_mono x (by omega))

/-! ### mapping the prefix -/

theorem massLe_map_le (f : S → S) (d : Nat) : ∀ (l : List S),
    (∀ x, x ∈ l → x.doc ≤ (f x).doc ∧ (f x).maxScore = x.maxScore) → massLe (l.map f) d ≤ massLe l d
  | [], _ => Nat.le_refl _
  | x :: xs, h => by
    obtain ⟨h1, h2⟩ := h x (by simp)
    have ih := massLe_map_le f d xs fun y hy => h y (by simp [hy])
    simp only [map_cons, massLe_cons, h2]
    have : (if (f x).doc ≤ d then x.maxScore else 0) ≤ (if x.doc ≤ d then x.maxScore else 0) := by
      split
      · rw [if_pos (by omega)]; exact Nat.le_refl _
      · exact Nat.zero_le _
    omega

theorem lenSum_map_advance : ∀ (l : List S), (∀ x, x ∈ l → x.advance.rest.length + 1 = x.rest.length) →
    lenSum (l.map TS.advance) + l.length = lenSum l
  | [], _ => rfl
  | x :: xs, h => by
    have := h x (by simp)
    have ih := lenSum_map_advance xs fun y hy => h y (by simp [hy])
    simp only [map_cons, lenSum_cons, length_cons]
    omega

/-- `advance_all_scorers_on_pivot` after a successful alignment -/
theorem advance_total {θ : Nat} {arr2 : List S} {pl pd : Nat} (hpd : pd < T) (hpl : 0 < pl) (hlen : pl ≤ arr2.length)
    (hwf : ∀ x, x ∈ arr2 → WFC x) (hj : ∀ x, x ∈ arr2 → JOK pd x)
    (hdead : ∀ d, d < pd → massLe arr2 d ≤ θ) (hon : ∀ x, x ∈ arr2.take pl → x.doc = pd) :
    TInv pd θ (advanceAllOnPivot arr2 pl) ∧ lenSum (advanceAllOnPivot arr2 pl) < lenSum arr2 := by
  unfold advanceAllOnPivot
  simp only
  obtain ⟨r1, r2, r3⟩ := removeTerminated_le (((arr2.take pl).map TS.advance ++ arr2.drop pl).length + 1) 0
    ((arr2.take pl).map TS.advance ++ arr2.drop pl)
  have hadv : ∀ x, x ∈ arr2.take pl → pd < x.advance.doc ∧ x.advance.rest.length + 1 = x.rest.length ∧ JOK pd x.advance :=
    fun x hx => advance_on_pivot x (hwf x (mem_of_mem_take hx)) pd (hon x hx) hpd (hj x (mem_of_mem_take hx))
  have hmem : ∀ x, x ∈ (arr2.take pl).map TS.advance ++ arr2.drop pl →
      (∃ y, y ∈ arr2.take pl ∧ x = y.advance) ∨ x ∈ arr2.drop pl := by
    intro x hx
    rcases mem_append.mp hx with hx | hx
    · obtain ⟨y, hy, rfl⟩ := mem_map.mp hx
      exact Or.inl ⟨y, hy, rfl⟩
    · exact Or.inr hx
  have hmem' : ∀ x, x ∈ sortByDoc (removeTerminated ((arr2.take pl).map TS.advance ++ arr2.drop pl) 0
      (((arr2.take pl).map TS.advance ++ arr2.drop pl).length + 1)) →
      (∃ y, y ∈ arr2.take pl ∧ x = y.advance) ∨ x ∈ arr2.drop pl :=
    fun x hx => hmem x (r3 x ((sortByDoc_perm _).subset hx))
  have hmass : ∀ d, massLe ((arr2.take pl).map TS.advance ++ arr2.drop pl) d ≤ massLe arr2 d := by
    intro d
    rw [massLe_append]
    have := massLe_map_le TS.advance d (arr2.take pl) fun x hx =>
      ⟨by have := (hadv x hx).1; have := hon x hx; omega, advance_maxScore x⟩
    have h2 : massLe arr2 d = massLe (arr2.take pl) d + massLe (arr2.drop pl) d := by
      rw [← massLe_append, take_append_drop]
    omega
  have hlens : lenSum ((arr2.take pl).map TS.advance ++ arr2.drop pl) + pl = lenSum arr2 := by
    rw [lenSum_append]
    have := lenSum_map_advance (arr2.take pl) fun x hx => (hadv x hx).2.1
    have h2 : lenSum arr2 = lenSum (arr2.take pl) + lenSum (arr2.drop pl) := by
      rw [← lenSum_append, take_append_drop]
    have h3 : (arr2.take pl).length = pl := by rw [length_take]; omega
    omega
  refine ⟨⟨sortByDoc_sorted _, ?_, ?_, ?_⟩, ?_⟩
  · intro x hx
    rcases hmem' x hx with ⟨y, hy, rfl⟩ | hx
    · exact (hwf y (mem_of_mem_take hy)).advance
    · exact hwf x (mem_of_mem_drop hx)
  · intro x hx
    rcases hmem' x hx with ⟨y, hy, rfl⟩ | hx
    · exact (hadv y hy).2.2
    · exact hj x (mem_of_mem_drop hx)
  · intro d hd
    rw [massLe_perm (sortByDoc_perm _) d]
    exact Nat.le_trans (r1 d) (Nat.le_trans (hmass d) (hdead d hd))
  · rw [lenSum_perm (sortByDoc_perm _)]
    omega

end TantivyModel.BlockWand
