import TantivyModel.Proofs.MergeMulti3
/-! every event of `SysM` preserves `InvM` and the refinement relation -/
namespace TantivyModel.Merge

theorem stepM_generic (s : SysM) (ev : EvM) (h : ∀ i, ev ≠ .endMerge i) :
    s.step ev = ⟨((s.view none).step ev.toEv).st,
      s.running ++ ((s.view none).step ev.toEv).running.toList,
      ((s.view none).step ev.toEv).stamp, ((s.view none).step ev.toEv).nextId⟩ := by
  cases ev with
  | endMerge i => exact absurd rfl (h i)
  | _ => simp only [SysM.step, stepG_eq]

theorem explicitOk_of_plain (s : Sys) (ev : Ev) (h : isPlain ev = true) : ExplicitOk s ev := by
  cases ev <;> first | trivial | (simp [isPlain] at h)

theorem sys_eta (s : Sys) : s = ⟨s.st, s.running, s.stamp, s.nextId⟩ := by cases s; rfl

theorem stepM_plain (s : SysM) (a : Abs) (ev : EvM) (hp : isPlain ev.toEv = true)
    (hI : InvM s) (hR : RelM s a) : InvM (s.step ev) ∧ RelM (s.step ev) (a.step ev.toEv) := by
  have hne : ∀ i, ev ≠ .endMerge i := by
    intro i h; subst h; simp [EvM.toEv, isPlain] at hp
  have hrun1 : ((s.view none).step ev.toEv).running = none := step_plain_running _ _ hp
  obtain ⟨hI1, hR1⟩ := step_all (s.view none) a ev.toEv hI.base hR (explicitOk_of_plain _ _ hp)
  obtain ⟨hle, hids⟩ := plain_ids (s.view none) ev.toEv hp
  rw [stepM_generic s ev hne, hrun1]
  simp only [Option.toList_none, List.append_nil]
  have hbase : (⟨((s.view none).step ev.toEv).st, none, ((s.view none).step ev.toEv).stamp,
      ((s.view none).step ev.toEv).nextId⟩ : Sys) = (s.view none).step ev.toEv := by
    conv => rhs; rw [sys_eta ((s.view none).step ev.toEv), hrun1]
  constructor
  · refine { base := ?_, each := ?_, fresh := ?_, srclt := ?_, notsrc := hI.notsrc, distinct := hI.distinct }
    · show Inv (⟨_, none, _, _⟩ : Sys)
      rw [hbase]; exact hI1
    · intro r hr
      show Inv (⟨_, some r, _, _⟩ : Sys)
      rw [← step_plain_view s (some r) ev.toEv hp]
      exact (step_all (s.view (some r)) a ev.toEv (hI.each r hr) hR (explicitOk_of_plain _ _ hp)).1
    · intro r hr m hm
      obtain ⟨h1, h2⟩ := hI.fresh r hr m hm
      refine ⟨Nat.lt_of_lt_of_le h1 hle, ?_⟩
      intro e he
      rcases hids e he with ⟨e0, he0, heq⟩ | ⟨heq, _⟩
      · rw [← heq]; exact h2 e0 he0
      · rw [heq]
        have : m.segId < (s.view none).nextId := h1
        omega
    · intro r hr id hid
      exact Nat.lt_of_lt_of_le (hI.srclt r hr id hid) hle
  · show Rel (⟨_, none, _, _⟩ : Sys) _
    rw [hbase]; exact hR1

theorem stepM_start (s : SysM) (a : Abs) (ids : List Nat) (hI : InvM s) (hR : RelM s a) :
    InvM (s.step (.startMerge ids)) ∧ RelM (s.step (.startMerge ids)) (a.step (.startMerge ids)) := by
  have hnone : (s.view none).running = none := rfl
  obtain ⟨hI1, hR1⟩ := step_all (s.view none) a (.startMerge ids) hI.base hR trivial
  rw [stepM_generic s (.startMerge ids) (fun i h => by cases h)]
  simp only [EvM.toEv]
  cases hrun : ((s.view none).step (.startMerge ids)).running with
  | none =>
    have heq := startMerge_none_eq (s.view none) ids hnone hrun
    rw [heq]
    simp only [Option.toList_none, List.append_nil]
    exact ⟨hI, hR⟩
  | some r0 =>
    obtain ⟨hst, hid, ⟨d, hd⟩, hsrc, hnil, hcont, _, hmid⟩ := startMerge_shape (s.view none) ids hnone r0 hrun
    simp only [Option.toList_some]
    have hstep : (s.view none).step (.startMerge ids) = ⟨s.st, some r0, s.stamp + d, s.nextId + 1⟩ := by
      rw [sys_eta ((s.view none).step (.startMerge ids)), hrun, hst, hid, hd]
      rfl
    rw [hst, hid, hd]
    have hst' : (s.view none).st = s.st := rfl
    have hid' : (s.view none).nextId = s.nextId := rfl
    have hsd' : (s.view none).stamp = s.stamp := rfl
    simp only [hst', hid', hsd']
    rw [hstep] at hI1 hR1
    constructor
    · refine { base := ?_, each := ?_, fresh := ?_, srclt := ?_, notsrc := ?_, distinct := ?_ }
      · exact inv_clear_running _ hI1
      · intro r hr
        rw [List.mem_append, List.mem_singleton] at hr
        rcases hr with hr | rfl
        · exact inv_bump (s.view (some r)) (hI.each r hr) d
        · exact hI1
      · intro r hr m hm
        rw [List.mem_append, List.mem_singleton] at hr
        rcases hr with hr | rfl
        · obtain ⟨h1, h2⟩ := hI.fresh r hr m hm
          exact ⟨Nat.lt_succ_of_lt h1, h2⟩
        · have hm' := hmid m hm
          refine ⟨by rw [hm']; exact Nat.lt_succ_self _, ?_⟩
          intro e he heq
          simp only [allEntries, List.mem_append] at he
          have : e.segId < s.nextId := by
            rcases he with (he | he) | he
            · exact (hI.base.wf e (List.mem_append_left _ he)).2.2
            · exact (hI.base.wf e (List.mem_append_right _ he)).2.2
            · exact (hI.base.pwf e he).2
          rw [heq, hm'] at this
          exact absurd this (Nat.lt_irrefl _)
      · intro r hr id hid
        rw [List.mem_append, List.mem_singleton] at hr
        rcases hr with hr | rfl
        · exact Nat.lt_succ_of_lt (hI.srclt r hr id hid)
        · rw [hsrc] at hid
          obtain ⟨e, he, rfl⟩ := (containsAll_iff _ _).1 hcont id hid
          exact Nat.lt_succ_of_lt (hI.base.wf e he).2.2
      · intro r hr r' hr' m hm
        rw [List.mem_append, List.mem_singleton] at hr hr'
        rcases hr with hr | rfl
        · rcases hr' with hr' | rfl
          · exact hI.notsrc r hr r' hr' m hm
          · rw [hsrc]
            intro hin
            obtain ⟨e, he, heq⟩ := (containsAll_iff _ _).1 hcont _ hin
            exact (hI.fresh r hr m hm).2 e (by
              simp only [allEntries, List.mem_append] at he ⊢
              exact Or.inl he) heq
        · have hm' := hmid m hm
          rcases hr' with hr' | rfl
          · intro hin
            have := hI.srclt r' hr' _ hin
            rw [hm'] at this
            exact absurd this (Nat.lt_irrefl _)
          · rw [hsrc]
            intro hin
            obtain ⟨e, he, heq⟩ := (containsAll_iff _ _).1 hcont _ hin
            have := (hI.base.wf e he).2.2
            rw [heq, hm'] at this
            exact absurd this (Nat.lt_irrefl _)
      · rw [List.pairwise_append]
        refine ⟨hI.distinct, List.pairwise_singleton _ _, ?_⟩
        intro r hr r' hr' m hm m' hm'
        rw [List.mem_singleton] at hr'
        subst hr'
        have h1 := (hI.fresh r hr m hm).1
        rw [hmid m' hm']
        exact Nat.ne_of_lt h1
    · exact hR1

theorem stepM_startExplicit (s : SysM) (a : Abs) (ids : List Nat) (hI : InvM s) (hR : RelM s a)
    (hok : ExplicitOk (s.view none) (.startMergeExplicit ids)) :
    InvM (s.step (.startMergeExplicit ids)) ∧ RelM (s.step (.startMergeExplicit ids)) (a.step (.startMergeExplicit ids)) := by
  have hnone : (s.view none).running = none := rfl
  obtain ⟨hI1, hR1⟩ := step_all (s.view none) a (.startMergeExplicit ids) hI.base hR hok
  rw [stepM_generic s (.startMergeExplicit ids) (fun i h => by cases h)]
  simp only [EvM.toEv]
  cases hrun : ((s.view none).step (.startMergeExplicit ids)).running with
  | none =>
    have heq := startMergeExplicit_none_eq (s.view none) ids hnone hrun
    rw [heq]
    simp only [Option.toList_none, List.append_nil]
    exact ⟨hI, hR⟩
  | some r0 =>
    obtain ⟨hst, hid, ⟨d, hd⟩, hsrc, hnil, hcont, _, hmid⟩ := startMergeExplicit_shape (s.view none) ids hnone r0 hrun
    simp only [Option.toList_some]
    have hstep : (s.view none).step (.startMergeExplicit ids) = ⟨s.st, some r0, s.stamp + d, s.nextId + 1⟩ := by
      rw [sys_eta ((s.view none).step (.startMergeExplicit ids)), hrun, hst, hid, hd]
      rfl
    rw [hst, hid, hd]
    have hst' : (s.view none).st = s.st := rfl
    have hid' : (s.view none).nextId = s.nextId := rfl
    have hsd' : (s.view none).stamp = s.stamp := rfl
    simp only [hst', hid', hsd']
    rw [hstep] at hI1 hR1
    constructor
    · refine { base := ?_, each := ?_, fresh := ?_, srclt := ?_, notsrc := ?_, distinct := ?_ }
      · exact inv_clear_running _ hI1
      · intro r hr
        rw [List.mem_append, List.mem_singleton] at hr
        rcases hr with hr | rfl
        · exact inv_bump (s.view (some r)) (hI.each r hr) d
        · exact hI1
      · intro r hr m hm
        rw [List.mem_append, List.mem_singleton] at hr
        rcases hr with hr | rfl
        · obtain ⟨h1, h2⟩ := hI.fresh r hr m hm
          exact ⟨Nat.lt_succ_of_lt h1, h2⟩
        · have hm' := hmid m hm
          refine ⟨by rw [hm']; exact Nat.lt_succ_self _, ?_⟩
          intro e he heq
          simp only [allEntries, List.mem_append] at he
          have : e.segId < s.nextId := by
            rcases he with (he | he) | he
            · exact (hI.base.wf e (List.mem_append_left _ he)).2.2
            · exact (hI.base.wf e (List.mem_append_right _ he)).2.2
            · exact (hI.base.pwf e he).2
          rw [heq, hm'] at this
          exact absurd this (Nat.lt_irrefl _)
      · intro r hr id hid
        rw [List.mem_append, List.mem_singleton] at hr
        rcases hr with hr | rfl
        · exact Nat.lt_succ_of_lt (hI.srclt r hr id hid)
        · rw [hsrc] at hid
          obtain ⟨e, he, rfl⟩ := (containsAll_iff _ _).1 hcont id hid
          exact Nat.lt_succ_of_lt (hI.base.wf e he).2.2
      · intro r hr r' hr' m hm
        rw [List.mem_append, List.mem_singleton] at hr hr'
        rcases hr with hr | rfl
        · rcases hr' with hr' | rfl
          · exact hI.notsrc r hr r' hr' m hm
          · rw [hsrc]
            intro hin
            obtain ⟨e, he, heq⟩ := (containsAll_iff _ _).1 hcont _ hin
            exact (hI.fresh r hr m hm).2 e (by
              simp only [allEntries, List.mem_append] at he ⊢
              exact Or.inl he) heq
        · have hm' := hmid m hm
          rcases hr' with hr' | rfl
          · intro hin
            have := hI.srclt r' hr' _ hin
            rw [hm'] at this
            exact absurd this (Nat.lt_irrefl _)
          · rw [hsrc]
            intro hin
            obtain ⟨e, he, heq⟩ := (containsAll_iff _ _).1 hcont _ hin
            have := (hI.base.wf e he).2.2
            rw [heq, hm'] at this
            exact absurd this (Nat.lt_irrefl _)
      · rw [List.pairwise_append]
        refine ⟨hI.distinct, List.pairwise_singleton _ _, ?_⟩
        intro r hr r' hr' m hm m' hm'
        rw [List.mem_singleton] at hr'
        subst hr'
        have h1 := (hI.fresh r hr m hm).1
        rw [hmid m' hm']
        exact Nat.ne_of_lt h1
    · exact hR1


end TantivyModel.Merge
