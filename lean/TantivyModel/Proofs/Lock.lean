import TantivyModel.Model.Lock
/-! Helper lemmas for C18: the guard-count invariant and the freshness of writer ids. -/
namespace TantivyModel.Lock

/-- one guard object exists iff the resource is taken -/
def Inv (s : St) : Prop := s.guards.length = (if s.held then 1 else 0)

theorem move_length (gs : List Owner) (a b : Owner) : (move gs a b).length = gs.length := by
  simp [move]

theorem inv_init : Inv init := by simp [Inv, init]

theorem inv_release {s : St} (h : Inv s) (o : Owner) (ho : s.guards.contains o = true)
    (ws : List Writer) (n : Nat) :
    Inv { held := false, guards := s.guards.erase o, writers := ws, next := n } := by
  have hm : o ∈ s.guards := by simpa using ho
  have hl := List.length_erase_of_mem hm
  have hpos : 0 < s.guards.length := List.length_pos_of_mem hm
  have hle : s.guards.length ≤ 1 := by
    unfold Inv at h
    split at h <;> omega
  show (s.guards.erase o).length = (if false = true then 1 else 0)
  simp only [Bool.false_eq_true, ↓reduceIte]
  omega

theorem inv_dropWriter {s : St} (h : Inv s) (w : Nat) : Inv (dropWriter s w).1 := by
  unfold dropWriter
  split
  · exact h
  · split
    · rename_i hc
      exact inv_release h _ hc _ _
    · exact h

theorem inv_step {s : St} (h : Inv s) (e : Ev) : Inv (step s e).1 := by
  cases e with
  | acquire t =>
    simp only [step]
    split
    · exact h
    · split
      · exact h
      · rename_i hh
        unfold Inv at *
        simp [hh] at h ⊢
        exact h
  | construct t a n =>
    simp only [step]
    split
    · rename_i hc
      split
      · exact inv_release h _ hc _ _
      · split
        · exact inv_release h _ hc _ _
        · unfold Inv at *
          simpa [move_length] using h
    · exact h
  | rollbackTake w =>
    simp only [step]
    split
    · exact h
    · split
      · unfold Inv at *
        simpa [move_length] using h
      · exact h
  | rollbackNew w n =>
    simp only [step]
    split
    · rename_i hc
      split
      · unfold Inv at *
        simpa [move_length] using h
      · exact inv_release h _ hc _ _
    · exact h
  | rollbackFailedEarly w =>
    simp only [step]
    split <;> exact h
  | drop w => exact inv_dropWriter h w
  | wait w => exact inv_dropWriter h w
  | kill w =>
    simp only [step]
    split
    · exact h
    · exact h

theorem run_cons (s : St) (e : Ev) (es : List Ev) :
    run s (e :: es) = ((run (step s e).1 es).1, (step s e).2 :: (run (step s e).1 es).2) := rfl

theorem final_cons (s : St) (e : Ev) (es : List Ev) :
    final s (e :: es) = final (step s e).1 es := rfl

theorem final_append (s : St) (h1 h2 : List Ev) :
    final s (h1 ++ h2) = final (final s h1) h2 := by
  induction h1 generalizing s with
  | nil => rfl
  | cons e es ih => simp [final_cons, ih]

theorem inv_final {s : St} (h : Inv s) (es : List Ev) : Inv (final s es) := by
  induction es generalizing s with
  | nil => exact h
  | cons e es ih => exact ih (inv_step h e)

theorem inv_reach (es : List Ev) : Inv (final init es) := inv_final inv_init es

theorem inv_guards_le {s : St} (h : Inv s) : s.guards.length ≤ 1 := by
  unfold Inv at h
  split at h <;> omega

theorem inv_held_iff {s : St} (h : Inv s) : s.held = true ↔ s.guards.length = 1 := by
  unfold Inv at h
  cases hh : s.held
  · rw [hh] at h
    simp only [Bool.false_eq_true, ↓reduceIte] at h
    simp [h]
  · rw [hh] at h
    simp only [↓reduceIte] at h
    simp [h]

theorem inv_free_nil {s : St} (h : Inv s) (hf : s.held = false) : s.guards = [] := by
  unfold Inv at h
  simp [hf] at h
  exact h

theorem inv_mem_held {s : St} (h : Inv s) {o : Owner} (ho : o ∈ s.guards) : s.held = true := by
  have := List.length_pos_of_mem ho
  exact (inv_held_iff h).2 (by have := inv_guards_le h; omega)

/-- with the invariant, a guard list containing `o` is exactly `[o]` -/
theorem inv_mem_eq {s : St} (h : Inv s) {o : Owner} (ho : o ∈ s.guards) : s.guards = [o] := by
  have hl := inv_guards_le h
  match hg : s.guards, ho, hl with
  | [x], ho, _ =>
    simp at ho
    simp [ho]
  | [], ho, _ => simp at ho
  | _ :: _ :: _, _, hl => simp at hl

end TantivyModel.Lock
