import TantivyModel.Proofs.WriterMergeEndA
/-!
`mergeEnd`: `WInv` is kept (the live documents, the published documents).
-/
namespace TantivyModel.Writer
open TantivyModel.WriterSpec

variable {α : Type} [DecidableEq α]

/-- a step that only rewrites the two registers (and possibly `meta.json`), keeping their live pairs -/
theorem winv_regs (s s' : WState α) (P C : List α) (h : WInv s P C)
    (h1 : s'.stamper = s.stamper) (h2 : s'.log = s.log) (h3 : s'.channel = s.channel)
    (h4 : s'.workers = s.workers) (h5 : s'.inflight = s.inflight) (h9 : s'.flushed = s.flushed)
    (hU : List.Perm ((s'.uncommitted.flatMap segPairs).filter (fun p => !dead s.log p))
            ((s.uncommitted.flatMap segPairs).filter (fun p => !dead s.log p)))
    (hC : List.Perm ((s'.committed.flatMap segPairs).filter (fun p => !dead s.log p))
            ((s.committed.flatMap segPairs).filter (fun p => !dead s.log p)))
    (hsubU : ∀ p ∈ s'.uncommitted.flatMap segPairs, p ∈ allPairs s)
    (hsubC : ∀ p ∈ s'.committed.flatMap segPairs, p ∈ allPairs s)
    (hsegs : ∀ sg ∈ s'.uncommitted ++ s'.committed, SegOK s.log sg)
    (hpub : List.Perm (published s') (published s))
    (hmeta : ∀ sg ∈ s'.metas.segs, ∀ d ∈ sg.docs, d.op < s'.metas.opstamp) : WInv s' P C := by
  obtain ⟨a1, a2, a3, a4, a5, a6, a7, a8, a9, _⟩ := h
  have hchan : chanPairs s' = chanPairs s := by simp only [chanPairs, h3]
  refine ⟨?_, hpub.trans a2, ?_, by rw [h2, h1]; exact a4, by rw [h2]; exact a5, by rw [hchan]; exact a6,
    by rw [h9, h2]; exact a7, by rw [h4, h2, hchan]; exact a8, ?_, hmeta⟩
  · refine List.Perm.trans ?_ a1
    simp only [live, h2]
    apply List.Perm.map
    simp only [allPairs, hchan, h4, h5, List.filter_append]
    exact List.Perm.append_right _ (List.Perm.append (List.Perm.append_left _ hU) hC)
  · intro p hp
    rw [h1]
    simp only [allPairs, hchan, h4, h5, List.mem_append] at hp
    rcases hp with (((hp | hp) | hp) | hp) | hp
    · exact a3 p (by simp only [allPairs, List.mem_append]; exact Or.inl (Or.inl (Or.inl (Or.inl hp))))
    · exact a3 p (by simp only [allPairs, List.mem_append]; exact Or.inl (Or.inl (Or.inl (Or.inr hp))))
    · exact a3 p (hsubU p hp)
    · exact a3 p (hsubC p hp)
    · exact a3 p (by simp only [allPairs, List.mem_append]; exact Or.inr hp)
  · rw [h5, h2]
    intro sg hsg
    simp only [List.mem_append] at hsg
    rcases hsg with (hsg | hsg) | hsg
    · exact a9 sg (by simp [hsg])
    · exact hsegs sg (List.mem_append_left _ hsg)
    · exact hsegs sg (List.mem_append_right _ hsg)

def endState0 (s : WState α) (k : Nat) : WState α := { s with merges := s.merges.eraseIdx k }

def endStateU (s : WState α) (k : Nat) (m : Merge α) : WState α :=
  { endState0 s k with
    uncommitted := replaceIn s.uncommitted m.ids (m.result.map (catchUp s.log s.metas.opstamp)) }

def endStateC (s : WState α) (k : Nat) (m : Merge α) : WState α :=
  saveMetas { endState0 s k with
      committed := replaceIn s.committed m.ids (m.result.map (catchUp s.log s.metas.opstamp)) }
    s.metas.opstamp s.metas.payload

/-- the result of a merge, caught up: a finished segment whose pairs are the live pairs of its sources -/
theorem result_facts (s : WState α) (P C : List α) (hw : WInv s P C) (m : Merge α)
    (hg : MergeGood s.log s.uncommitted s.committed s.metas.opstamp m)
    (hp : present m.ids (s.uncommitted ++ s.committed)) (M : Seg α) (hr : m.result = some M) :
    SegOK s.log (catchUp s.log s.metas.opstamp M)
      ∧ List.Perm (segPairs (catchUp s.log s.metas.opstamp M))
          (((srcsOf m.ids (s.uncommitted ++ s.committed)).flatMap segPairs).filter
            (fun p => !dead (s.log.take M.cursor) p))
      ∧ (∀ p ∈ segPairs (catchUp s.log s.metas.opstamp M), p ∈ allPairs s) := by
  obtain ⟨c, _, _, g⟩ := hg hp
  simp only [hr] at g
  obtain ⟨g0, g1, _, g3⟩ := g
  subst g0
  obtain ⟨c1, c2, _⟩ := catchUp_basic s.log s.metas.opstamp M g1
  refine ⟨c1, by rw [c2]; exact g3, ?_⟩
  rw [c2]
  exact merged_pairs_sub s m M M.cursor g3

/-- `mergeEnd` on uncommitted sources keeps `WInv` -/
theorem winv_endU (s : WState α) (P C : List α) (hw : WInv s P C) (hm : MInv s) (k : Nat) (m : Merge α)
    (hk : s.merges[k]? = some m) (hp : present m.ids s.uncommitted) : WInv (endStateU s k m) P C := by
  have hmem : m ∈ s.merges := List.mem_of_getElem? hk
  have hg := hm.good m hmem
  have hRn := regsNodup s hm
  have hpR : present m.ids (s.uncommitted ++ s.committed) := fun i hi => by
    obtain ⟨x, hx, he⟩ := hp i hi; exact ⟨x, List.mem_append_left _ hx, he⟩
  have hsrc : srcsOf m.ids (s.uncommitted ++ s.committed) = srcsOf m.ids s.uncommitted := by
    simp only [srcsOf, List.filter_append]
    have := srcsOf_other_nil m.ids s.uncommitted s.committed hRn hp
    simp only [srcsOf] at this
    rw [this, List.append_nil]
  have hUsub : ∀ p ∈ s.uncommitted.flatMap segPairs, p ∈ allPairs s := by
    intro p hp'
    simp only [allPairs, List.mem_append]; exact Or.inl (Or.inl (Or.inr hp'))
  refine winv_regs s (endStateU s k m) P C hw rfl rfl rfl rfl rfl rfl ?_ (List.Perm.refl _) ?_ ?_ ?_
    (List.Perm.refl _) hw.metaLt
  · -- live pairs of the uncommitted register
    show List.Perm (((replaceIn s.uncommitted m.ids (m.result.map (catchUp s.log s.metas.opstamp))).flatMap segPairs).filter _) _
    cases hr : m.result with
    | none =>
      simp only [Option.map_none]
      apply replace_live_none
      obtain ⟨c, _, _, g⟩ := hg hpR
      simp only [hr, hsrc] at g
      intro p hp'
      exact dead_take_mono s.log c p (g p hp')
    | some M =>
      simp only [Option.map_some]
      obtain ⟨_, r2, _⟩ := result_facts s P C hw m hg hpR M hr
      rw [hsrc] at r2
      exact replace_live_some s.log s.uncommitted m.ids _ M.cursor r2
  · intro p hp'
    apply hUsub
    apply replaceIn_pairs_sub s.uncommitted m.ids _ ?_ p hp'
    intro r hr' q hq
    cases hr : m.result with
    | none => simp [hr] at hr'
    | some M =>
      simp only [hr, Option.map_some, Option.some.injEq] at hr'
      subst hr'
      obtain ⟨_, r2, _⟩ := result_facts s P C hw m hg hpR M hr
      rw [hsrc] at r2
      exact srcsOf_pairs_sub _ _ q (List.mem_filter.mp (r2.mem_iff.mp hq)).1
  · intro p hp'
    simp only [allPairs, List.mem_append]; exact Or.inl (Or.inr hp')
  · intro sg hsg
    rcases List.mem_append.mp hsg with h1 | h1
    · rcases replaceIn_mem s.uncommitted m.ids _ sg h1 with ⟨hx, _⟩ | hres
      · exact hw.segs sg (List.mem_append_left _ (List.mem_append_right _ hx))
      · cases hr : m.result with
        | none => simp [hr] at hres
        | some M =>
          simp only [hr, Option.map_some, Option.some.injEq] at hres
          subst hres
          exact (result_facts s P C hw m hg hpR M hr).1
    · exact hw.segs sg (List.mem_append_right _ h1)

end TantivyModel.Writer
