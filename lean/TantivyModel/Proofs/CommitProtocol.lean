import TantivyModel.Model.CommitProtocol
/-!
Helper lemmas for C01: the protocol invariant and its preservation by disciplined steps.
-/
namespace TantivyModel.CommitProtocol
open TantivyModel.Storage

theorem mem_dropLast_or_getLast {α : Type} (l : List α) (m : α) (h : m ∈ l) :
    m ∈ l.dropLast ∨ l.getLast? = some m := by
  induction l with
  | nil => cases h
  | cons a t ih =>
    cases t with
    | nil =>
      right
      simp at h
      simp [h]
    | cons b t' =>
      rcases List.mem_cons.mp h with rfl | h'
      · left; simp [List.dropLast]
      · rcases ih h' with h1 | h1
        · left; simp only [List.dropLast]; exact List.mem_cons_of_mem _ h1
        · right; simpa [List.getLast?_cons_cons] using h1

theorem cands_getLast (a : AtomSt) : a.cands.getLast? = a.visible := by
  unfold AtomSt.cands AtomSt.visible
  rw [List.getLast?_append]
  cases a.pend.getLast? <;> cases a.dur <;> simp

theorem visible_mem_cands (a : AtomSt) (b : Payload) (h : a.visible = some b) : b ∈ a.cands := by
  rw [← cands_getLast] at h
  exact List.mem_of_getLast? h

theorem cands_sync (a : AtomSt) : a.sync.cands = a.visible.toList := by
  unfold AtomSt.sync AtomSt.cands
  cases a.visible <;> simp

/-- the protocol invariant: a durable `meta.json` exists; every file referenced by a `meta.json`
version that a crash could leave is firmly durable; the commits of those versions lie between
the last acknowledged and the last started commit -/
structure Inv (s : PState) : Prop where
  durable : ∃ m0, (s.dir.atom META).dur = some m0
  refs : ∀ m ∈ metaCands s, ∀ p ∈ m.refs, (s.dir.file p).firm = true
  bounds : ∀ m ∈ metaCands s, s.acked ≤ m.commit ∧ m.commit ≤ s.started

theorem firm_sync (st : FileSt) (h : st.firm = true) : st.sync.firm = true := by
  unfold FileSt.firm FileSt.sync at *
  simp at *
  simp [h]

/-- if `q`'s file is firm then no disciplined create/write/terminate touches it, and flush does
not change what `firm` looks at -/
theorem file_step_firm (s : PState) (op : Op) (q : Path) (hq : (s.dir.file q).firm = true)
    (hD2 : Rule.D2 ∉ violations s op) (hdel : ∀ p, op = .delete p → p ≠ q) :
    ((s.step op).dir.file q).firm = true := by
  have hf := hq
  unfold FileSt.firm at hf
  simp only [Bool.and_eq_true, Bool.not_eq_true'] at hf
  obtain ⟨⟨⟨hdur, hvis⟩, hchurn⟩, hterm⟩ := hf
  cases op with
  | create p =>
    by_cases hp : q = p
    · subst hp
      simp [violations, hvis] at hD2
    · simp [PState.step, Dir.step, upd_other _ _ _ _ hp, hq]
  | write p n =>
    by_cases hp : q = p
    · subst hp
      simp [violations, hvis, hterm] at hD2
    · simp [PState.step, Dir.step, upd_other _ _ _ _ hp, hq]
  | flush p =>
    by_cases hp : q = p
    · subst hp
      simp [PState.step, Dir.step, FileSt.firm, hdur, hvis, hchurn, hterm]
    · simp [PState.step, Dir.step, upd_other _ _ _ _ hp, hq]
  | terminate p =>
    by_cases hp : q = p
    · subst hp
      simp [violations, hvis, hterm] at hD2
    · simp [PState.step, Dir.step, upd_other _ _ _ _ hp, hq]
  | syncDir => simpa [PState.step, Dir.step] using firm_sync _ hq
  | atomicWrite p b => simpa [PState.step, Dir.step] using hq
  | delete p =>
    have hp : q ≠ p := fun e => hdel p rfl e.symm
    simp [PState.step, Dir.step, upd_other _ _ _ _ hp, hq]
  | ack c => simpa [PState.step, Dir.step] using hq

theorem metaCands_step_other (s : PState) (op : Op)
    (h1 : op ≠ .syncDir) (h2 : ∀ b, op ≠ .atomicWrite META b) :
    metaCands (s.step op) = metaCands s := by
  unfold metaCands
  cases op with
  | syncDir => exact absurd rfl h1
  | atomicWrite p b =>
    have hp : META ≠ p := fun e => h2 b (by rw [e])
    simp [PState.step, Dir.step, upd_other _ _ _ _ hp]
  | _ => simp [PState.step, Dir.step]

theorem metaCands_step_write (s : PState) (b : Payload) :
    metaCands (s.step (.atomicWrite META b)) = metaCands s ++ [b] := by
  unfold metaCands
  simp [PState.step, Dir.step, AtomSt.cands, List.append_assoc]

theorem metaCands_step_sync (s : PState) :
    metaCands (s.step .syncDir) = (s.dir.atom META).visible.toList := by
  unfold metaCands
  simp [PState.step, Dir.step, cands_sync]

theorem dur_step_other (s : PState) (op : Op) (h1 : op ≠ .syncDir) :
    ((s.step op).dir.atom META).dur = (s.dir.atom META).dur := by
  cases op with
  | syncDir => exact absurd rfl h1
  | atomicWrite p b =>
    by_cases hp : META = p
    · subst hp; simp [PState.step, Dir.step]
    · simp [PState.step, Dir.step, upd_other _ _ _ _ hp]
  | _ => simp [PState.step, Dir.step]

/-- a durable meta exists ⇒ the visible one exists -/
theorem visible_of_durable (a : AtomSt) (m0 : Payload) (h : a.dur = some m0) :
    ∃ b, a.visible = some b := by
  unfold AtomSt.visible
  cases a.pend.getLast? with
  | some b => exact ⟨b, rfl⟩
  | none => exact ⟨m0, h⟩

theorem acked_le_started (s : PState) (h : Inv s) : s.acked ≤ s.started := by
  obtain ⟨m0, hm0⟩ := h.durable
  have hm : m0 ∈ metaCands s := by
    unfold metaCands AtomSt.cands
    simp [hm0]
  have := h.bounds m0 hm
  omega

/-- **preservation**: a step that breaks no rule keeps the invariant -/
theorem Inv.step {s : PState} (h : Inv s) (op : Op) (hv : violations s op = []) :
    Inv (s.step op) := by
  have hD2 : Rule.D2 ∉ violations s op := by simp [hv]
  by_cases hsync : op = .syncDir
  · -- syncDir: the candidates collapse to the visible version
    subst hsync
    obtain ⟨m0, hm0⟩ := h.durable
    obtain ⟨b, hb⟩ := visible_of_durable _ m0 hm0
    have hbm : b ∈ metaCands s := visible_mem_cands _ b hb
    refine ⟨⟨b, ?_⟩, ?_, ?_⟩
    · simp [PState.step, Dir.step, AtomSt.sync, hb]
    · intro m hm p hp
      rw [metaCands_step_sync, hb] at hm
      simp at hm
      subst hm
      exact file_step_firm s .syncDir p (h.refs m hbm p hp) hD2 (by intro p' e; cases e)
    · intro m hm
      rw [metaCands_step_sync, hb] at hm
      simp at hm
      subst hm
      simpa [PState.step] using h.bounds m hbm
  · by_cases hw : ∃ b, op = .atomicWrite META b
    · -- a new meta.json version: D1 and D0 hold for it
      obtain ⟨b, rfl⟩ := hw
      have hv' := hv
      simp only [violations, if_true] at hv'
      have hfirm : refsAllFirm s b = true := by
        by_cases hf : refsAllFirm s b = true
        · exact hf
        · simp [hf] at hv'
      have hmono : s.started ≤ b.commit := by
        by_cases hf : s.started ≤ b.commit
        · exact hf
        · simp [hf] at hv'
      refine ⟨?_, ?_, ?_⟩
      · rw [dur_step_other _ _ hsync]; exact h.durable
      · intro m hm p hp
        rw [metaCands_step_write] at hm
        have hfq : (s.dir.file p).firm = true := by
          rcases List.mem_append.mp hm with hm | hm
          · exact h.refs m hm p hp
          · simp at hm
            subst hm
            unfold refsAllFirm at hfirm
            exact List.all_eq_true.mp hfirm p hp
        exact file_step_firm s _ p hfq hD2 (by intro p' e; cases e)
      · intro m hm
        rw [metaCands_step_write] at hm
        have hle := acked_le_started s h
        rcases List.mem_append.mp hm with hm | hm
        · have := h.bounds m hm
          simp only [PState.step]
          simp
          omega
        · simp at hm
          subst hm
          simp only [PState.step]
          simp
          omega
    · -- every other operation leaves the candidates alone
      have hw' : ∀ b, op ≠ .atomicWrite META b := fun b e => hw ⟨b, e⟩
      have hc := metaCands_step_other s op hsync hw'
      have hdel : ∀ m ∈ metaCands s, ∀ q ∈ m.refs, ∀ p, op = .delete p → p ≠ q := by
        intro m hm q hq p hop
        subst hop
        intro hpq
        subst hpq
        simp only [violations] at hv
        have h4 : ¬ (p = META || referencedBy ((metaCands s).getLast?.toList) p) = true := by
          intro hh; simp [hh] at hv
        have h3 : ¬ referencedBy (metaCands s).dropLast p = true := by
          intro hh; simp [hh] at hv
        rcases mem_dropLast_or_getLast _ m hm with hd | hl
        · apply h3
          unfold referencedBy
          exact List.any_eq_true.mpr ⟨m, hd, by simpa using hq⟩
        · apply h4
          rw [hl]
          simp [referencedBy, hq]
      refine ⟨?_, ?_, ?_⟩
      · rw [dur_step_other _ _ hsync]; exact h.durable
      · intro m hm p hp
        rw [hc] at hm
        exact file_step_firm s op p (h.refs m hm p hp) hD2 (hdel m hm p hp)
      · intro m hm
        rw [hc] at hm
        have hb := h.bounds m hm
        cases op with
        | ack c =>
          simp only [violations] at hv
          have hall : (metaCands s).all (fun m => decide (c ≤ m.commit)) = true := by
            by_cases hf : (metaCands s).all (fun m => decide (c ≤ m.commit)) = true
            · exact hf
            · simp [hf] at hv
          have hcm := List.all_eq_true.mp hall m hm
          simp at hcm
          simp only [PState.step]
          omega
        | atomicWrite p b =>
          have hp : p ≠ META := fun e => hw' b (by rw [e])
          simp only [PState.step, hp, if_false]
          exact hb
        | _ => simpa [PState.step] using hb

/-- what the invariant gives at a crash -/
theorem Inv.recover {s : PState} (h : Inv s) (img : Image) (hi : CrashImage s.dir img) :
    ∃ m ∈ metaCands s, img.atom META = some m ∧ recover img = some m.commit ∧
      (∀ p ∈ m.refs, img.file p = some ((s.dir.file p).written, true)) := by
  obtain ⟨m0, hm0⟩ := h.durable
  have ho := hi.2 META
  unfold AtomSt.options at ho
  rw [hm0] at ho
  have hex : ∃ m, img.atom META = some m ∧ m ∈ metaCands s := by
    rcases List.mem_cons.mp ho with e | e
    · exact ⟨m0, e, by unfold metaCands AtomSt.cands; simp [hm0]⟩
    · obtain ⟨m, hm, e⟩ := List.mem_map.mp e
      exact ⟨m, e.symm, by unfold metaCands AtomSt.cands; simp [hm]⟩
  obtain ⟨m, hme, hmc⟩ := hex
  have hfiles : ∀ p ∈ m.refs, img.file p = some ((s.dir.file p).written, true) := by
    intro p hp
    have hf := h.refs m hmc p hp
    unfold FileSt.firm at hf
    simp only [Bool.and_eq_true, Bool.not_eq_true'] at hf
    obtain ⟨⟨⟨hdur, hvis⟩, hchurn⟩, hterm⟩ := hf
    have hout := hi.1 p
    cases hfp : img.file p with
    | none => simp [hfp, FileSt.outcome, hdur, hvis, hchurn] at hout
    | some v =>
      obtain ⟨n, sl⟩ := v
      simp [hfp, FileSt.outcome, hdur, hterm] at hout
      simp [hout]
  refine ⟨m, hmc, hme, ?_, hfiles⟩
  unfold CommitProtocol.recover
  rw [hme]
  have : m.refs.all (sealedIn img) = true := by
    apply List.all_eq_true.mpr
    intro p hp
    simp [sealedIn, hfiles p hp]
  simp [this]

theorem disciplined_cons (s : PState) (op : Op) (t : List Op) :
    Disciplined s (op :: t) = true ↔ violations s op = [] ∧ Disciplined (s.step op) t = true := by
  unfold Disciplined
  simp only [disciplinedBy, Bool.and_eq_true]
  constructor
  · rintro ⟨h1, h2⟩
    refine ⟨?_, h2⟩
    cases hv : violations s op with
    | nil => rfl
    | cons r rs => simp [hv] at h1
  · rintro ⟨h1, h2⟩
    exact ⟨by simp [h1], h2⟩

theorem disciplined_take (s : PState) (t : List Op) (k : Nat) (h : Disciplined s t = true) :
    Disciplined s (t.take k) = true := by
  induction t generalizing s k with
  | nil => simpa using h
  | cons op t ih =>
    cases k with
    | zero => simp [Disciplined, disciplinedBy]
    | succ k =>
      rw [List.take_succ_cons]
      rw [disciplined_cons] at h ⊢
      exact ⟨h.1, ih _ _ h.2⟩

theorem Inv.run {s : PState} (h : Inv s) (t : List Op) (hd : Disciplined s t = true) :
    Inv (s.run t) := by
  induction t generalizing s with
  | nil => simpa [PState.run] using h
  | cons op t ih =>
    rw [disciplined_cons] at hd
    simp only [PState.run, List.foldl_cons]
    exact ih (h.step op hd.1) hd.2

theorem run_acked (s : PState) (t : List Op) : (s.run t).acked = lastAcked s.acked t := by
  induction t generalizing s with
  | nil => rfl
  | cons op t ih =>
    simp only [PState.run, List.foldl_cons, lastAcked] at *
    rw [ih]
    cases op <;> rfl

theorem run_started (s : PState) (t : List Op) : (s.run t).started = lastStarted s.started t := by
  induction t generalizing s with
  | nil => rfl
  | cons op t ih =>
    simp only [PState.run, List.foldl_cons, lastStarted] at *
    rw [ih]
    cases op <;> rfl

theorem run_dir (s : PState) (t : List Op) : (s.run t).dir = s.dir.run t := by
  induction t generalizing s with
  | nil => rfl
  | cons op t ih =>
    simp only [PState.run, Dir.run, List.foldl_cons] at *
    rw [ih]
    rfl

/-! ## the modelled protocol (helpers for `C01_protocol_disciplined_partial`) -/

theorem run_append (s : PState) (l1 l2 : List Op) : s.run (l1 ++ l2) = (s.run l1).run l2 := by
  simp [PState.run, List.foldl_append]

theorem run_cons (s : PState) (op : Op) (l : List Op) : s.run (op :: l) = (s.step op).run l := rfl

theorem disciplinedBy_append (sel : Rule → Bool) (s : PState) (l1 l2 : List Op) :
    disciplinedBy sel s (l1 ++ l2) = (disciplinedBy sel s l1 && disciplinedBy sel (s.run l1) l2) := by
  induction l1 generalizing s with
  | nil => simp [disciplinedBy, PState.run]
  | cons op t ih =>
    simp only [List.cons_append, disciplinedBy, run_cons, ih, Bool.and_assoc]

/-- visible and terminated: becomes firm at the next directory sync -/
def _root_.TantivyModel.Storage.FileSt.ready (st : FileSt) : Bool := st.vis && st.term

theorem ready_sync_firm (st : FileSt) (h : st.ready = true) : st.sync.firm = true := by
  unfold FileSt.ready at h
  simp only [Bool.and_eq_true] at h
  simp [FileSt.firm, FileSt.sync, h.1, h.2]

theorem ready_of_firm (st : FileSt) (h : st.firm = true) : st.ready = true := by
  unfold FileSt.firm at h
  simp only [Bool.and_eq_true, Bool.not_eq_true'] at h
  simp [FileSt.ready, h.1.1.2, h.2]

def syncs (k : Nat) : List Op := List.replicate k Op.syncDir

theorem syncs_disciplined (sel : Rule → Bool) (s : PState) (k : Nat) :
    disciplinedBy sel s (syncs k) = true := by
  induction k generalizing s with
  | zero => rfl
  | succ k ih =>
    simp only [syncs, List.replicate_succ, disciplinedBy, violations, List.all_nil, Bool.true_and]
    exact ih _

theorem syncs_firm (s : PState) (k : Nat) (q : Path) (h : (s.dir.file q).firm = true) :
    ((s.run (syncs k)).dir.file q).firm = true := by
  induction k generalizing s with
  | zero => exact h
  | succ k ih =>
    simp only [syncs, List.replicate_succ, run_cons]
    apply ih
    simpa [PState.step, Dir.step] using firm_sync _ h

theorem syncs_succ_ready_firm (s : PState) (k : Nat) (q : Path) (h : (s.dir.file q).ready = true) :
    ((s.run (syncs (k + 1))).dir.file q).firm = true := by
  simp only [syncs, List.replicate_succ, run_cons]
  apply syncs_firm
  simpa [PState.step, Dir.step] using ready_sync_firm _ h

theorem syncs_started (s : PState) (k : Nat) : (s.run (syncs k)).started = s.started := by
  induction k generalizing s with
  | zero => rfl
  | succ k ih =>
    simp only [syncs, List.replicate_succ, run_cons]
    rw [show List.replicate k Op.syncDir = syncs k from rfl, ih]
    rfl

theorem getLast_toList {α : Type} (o : Option α) : o.toList.getLast? = o := by
  cases o <;> rfl

theorem sync_last (s : PState) :
    (metaCands (s.step .syncDir)).getLast? = (metaCands s).getLast? := by
  rw [metaCands_step_sync, getLast_toList]
  unfold metaCands
  rw [cands_getLast]

theorem syncs_last (s : PState) (k : Nat) :
    (metaCands (s.run (syncs k))).getLast? = (metaCands s).getLast? := by
  induction k generalizing s with
  | zero => rfl
  | succ k ih =>
    simp only [syncs, List.replicate_succ, run_cons]
    rw [show List.replicate k Op.syncDir = syncs k from rfl, ih, sync_last]

/-- effect of writing one fresh file -/
theorem writeFile_effect (sel : Rule → Bool) (s : PState) (managed : Payload) (p : Path) (n : Nat)
    (hf : (s.dir.file p).ever = false ∧ (s.dir.file p).vis = false ∧ (s.dir.file p).dur = false) :
    disciplinedBy sel s (writeFileOps managed p n) = true ∧
    ((s.run (writeFileOps managed p n)).dir.file p).ready = true ∧
    (∀ q, q ≠ p → (s.run (writeFileOps managed p n)).dir.file q = s.dir.file q) ∧
    (s.run (writeFileOps managed p n)).started = s.started ∧
    metaCands (s.run (writeFileOps managed p n)) = metaCands s := by
  obtain ⟨h1, h2, h3⟩ := hf
  have hM : MANAGED ≠ META := by decide
  have hM' : META ≠ MANAGED := by decide
  refine ⟨?_, ?_, ?_, ?_, ?_⟩
  · simp [writeFileOps, disciplinedBy, violations, PState.step, Dir.step, h1, h2, h3, hM, upd]
  · simp [writeFileOps, PState.run, PState.step, Dir.step, FileSt.ready, upd]
  · intro q hq
    simp [writeFileOps, PState.run, PState.step, Dir.step, upd, hq]
  · simp [writeFileOps, PState.run, PState.step, hM]
  · simp [writeFileOps, PState.run, PState.step, Dir.step, metaCands, upd, hM']

def writeAll (managed : Payload) (newFiles : List (Path × Nat)) : List Op :=
  newFiles.flatMap (fun f => writeFileOps managed f.1 f.2)

theorem writeAll_effect (sel : Rule → Bool) (managed : Payload) (newFiles : List (Path × Nat)) (s : PState)
    (hfresh : ∀ f ∈ newFiles, (s.dir.file f.1).ever = false ∧ (s.dir.file f.1).vis = false ∧ (s.dir.file f.1).dur = false)
    (hnodup : (newFiles.map Prod.fst).Nodup) :
    disciplinedBy sel s (writeAll managed newFiles) = true ∧
    (∀ f ∈ newFiles, ((s.run (writeAll managed newFiles)).dir.file f.1).ready = true) ∧
    (∀ q, q ∉ newFiles.map Prod.fst → (s.run (writeAll managed newFiles)).dir.file q = s.dir.file q) ∧
    (s.run (writeAll managed newFiles)).started = s.started ∧
    metaCands (s.run (writeAll managed newFiles)) = metaCands s := by
  induction newFiles generalizing s with
  | nil => simp [writeAll, disciplinedBy, PState.run]
  | cons f t ih =>
    have hf := hfresh f (by simp)
    obtain ⟨e1, e2, e3, e4, e5⟩ := writeFile_effect sel s managed f.1 f.2 hf
    simp only [List.map_cons, List.nodup_cons] at hnodup
    let s1 := s.run (writeFileOps managed f.1 f.2)
    have hfresh' : ∀ g ∈ t, (s1.dir.file g.1).ever = false ∧ (s1.dir.file g.1).vis = false ∧ (s1.dir.file g.1).dur = false := by
      intro g hg
      have hne : g.1 ≠ f.1 := by
        intro e
        apply hnodup.1
        rw [← e]
        exact List.mem_map.mpr ⟨g, hg, rfl⟩
      show ((s.run (writeFileOps managed f.1 f.2)).dir.file g.1).ever = false ∧ _
      rw [e3 g.1 hne]
      exact hfresh g (by simp [hg])
    obtain ⟨i1, i2, i3, i4, i5⟩ := ih s1 hfresh' hnodup.2
    have hsplit : writeAll managed (f :: t) = writeFileOps managed f.1 f.2 ++ writeAll managed t := by
      simp [writeAll]
    rw [hsplit, disciplinedBy_append, run_append]
    refine ⟨by simp [e1, i1, s1] , ?_, ?_, ?_, ?_⟩
    · intro g hg
      rcases List.mem_cons.mp hg with rfl | hg
      · by_cases hin : g.1 ∈ t.map Prod.fst
        · obtain ⟨g', hg', e⟩ := List.mem_map.mp hin
          have hh := i2 g' hg'
          rw [e] at hh
          exact hh
        · show ((s1.run (writeAll managed t)).dir.file g.1).ready = true
          rw [i3 g.1 hin]
          exact e2
      · exact i2 g hg
    · intro q hq
      simp only [List.map_cons, List.mem_cons, not_or] at hq
      show (s1.run (writeAll managed t)).dir.file q = _
      rw [i3 q hq.2]
      exact e3 q hq.1
    · show (s1.run (writeAll managed t)).started = _
      rw [i4]; exact e4
    · show metaCands (s1.run (writeAll managed t)) = _
      rw [i5]; exact e5

/-- deletes of unreferenced paths break neither D0, D1, D2 nor D4 -/
theorem deletes_ok (s : PState) (m : Payload) (dels : List Path)
    (hlast : (metaCands s).getLast? = some m) (hdels : ∀ p ∈ dels, p ≠ META ∧ p ∉ m.refs) :
    disciplinedBy (fun r => r != .D3a && r != .D3b) s (dels.map Op.delete) = true ∧
    (metaCands (s.run (dels.map Op.delete))).getLast? = some m := by
  induction dels generalizing s with
  | nil => exact ⟨rfl, hlast⟩
  | cons p t ih =>
    have hp := hdels p (by simp)
    have hc : metaCands (s.step (.delete p)) = metaCands s :=
      metaCands_step_other s _ (by intro e; cases e) (by intro b e; cases e)
    obtain ⟨j1, j2⟩ := ih (s.step (.delete p)) (by rw [hc]; exact hlast) (fun q hq => hdels q (by simp [hq]))
    refine ⟨?_, ?_⟩
    · simp only [List.map_cons, disciplinedBy, Bool.and_eq_true]
      refine ⟨?_, j1⟩
      have h4 : (p = META || referencedBy ((metaCands s).getLast?.toList) p) = false := by
        rw [hlast]
        simp [referencedBy, hp.1, hp.2]
      simp only [violations, h4]
      by_cases h3 : referencedBy (metaCands s).dropLast p = true
      · simp [h3]
      · simp [h3]
    · simpa [List.map_cons, run_cons] using j2

theorem replicate_append_cons_comm {α : Type} (k : Nat) (x : α) (l : List α) :
    List.replicate k x ++ x :: l = x :: (List.replicate k x ++ l) := by
  induction k with
  | zero => rfl
  | succ k ih => simp [List.replicate_succ, ih]

theorem saveMetasOps_shape (a b : Nat) (m : Payload) :
    saveMetasOps (List.replicate a 1 ++ [1, 2] ++ List.replicate b 1) m =
      syncs (a + 1) ++ [Op.atomicWrite META m] ++ syncs b := by
  have h1 : ∀ k, List.filterMap (fun c => if c = 1 then some Op.syncDir else if c = 2 then some (Op.atomicWrite META m) else none) (List.replicate k 1) = syncs k := by
    intro k
    induction k with
    | zero => rfl
    | succ k ih => simp [List.replicate_succ, syncs, ih] at *
  unfold saveMetasOps
  simp only [List.filterMap_append, h1]
  simp [syncs, List.replicate_succ]
  exact replicate_append_cons_comm a _ _

theorem syncs_succ_cands (s : PState) (k : Nat) (m : Payload) (h : (metaCands s).getLast? = some m) :
    metaCands (s.run (syncs (k + 1))) = [m] := by
  induction k generalizing s with
  | zero =>
    simp only [syncs, List.replicate_succ, List.replicate_zero, run_cons]
    show metaCands (s.step .syncDir) = [m]
    rw [metaCands_step_sync]
    unfold metaCands at h
    rw [cands_getLast] at h
    rw [h]; rfl
  | succ k ih =>
    rw [show syncs (k + 1 + 1) = Op.syncDir :: syncs (k + 1) from rfl, run_cons]
    apply ih
    rw [sync_last]; exact h

/-- deletes of unreferenced paths when the only candidate is `m`: no rule is broken -/
theorem deletes_ok_synced (s : PState) (m : Payload) (dels : List Path)
    (hc : metaCands s = [m]) (hdels : ∀ p ∈ dels, p ≠ META ∧ p ∉ m.refs) :
    Disciplined s (dels.map Op.delete) = true ∧ metaCands (s.run (dels.map Op.delete)) = [m] := by
  induction dels generalizing s with
  | nil => exact ⟨rfl, hc⟩
  | cons p t ih =>
    have hp := hdels p (by simp)
    have hc' : metaCands (s.step (.delete p)) = [m] := by
      rw [metaCands_step_other s _ (by intro e; cases e) (by intro b e; cases e)]; exact hc
    obtain ⟨j1, j2⟩ := ih (s.step (.delete p)) hc' (fun q hq => hdels q (by simp [hq]))
    refine ⟨?_, by simpa [List.map_cons, run_cons] using j2⟩
    rw [List.map_cons, disciplined_cons]
    refine ⟨?_, j1⟩
    simp [violations, hc, referencedBy, hp.1, hp.2]

/-! ## the writer model: events of the segment updater and its workers -/

/-- `save_metas` + the collection that follows it, as issued by both `schedule_commit` and
`end_merge` (before the acknowledgement): new files, syncs, meta.json, syncs, GC -/
def coreOps (a b : Nat) (managed m : Payload) (newFiles : List (Path × Nat)) (dels : List Path) : List Op :=
  writeAll managed newFiles ++ (syncs (a + 1) ++ ([Op.atomicWrite META m] ++ (syncs (b + 1) ++
    (dels.map Op.delete ++ (if dels.isEmpty then [] else [.syncDir, .atomicWrite MANAGED managed])))))

/-- the optional tail of a collection (`sync_directory; save_managed_paths`) keeps a synced meta -/
theorem gc_tail (st : PState) (m managed : Payload) (dels : List Path) (hc : metaCands st = [m]) :
    Disciplined st (if dels.isEmpty then [] else [.syncDir, .atomicWrite MANAGED managed]) = true ∧
    metaCands (st.run (if dels.isEmpty then [] else [.syncDir, .atomicWrite MANAGED managed])) = [m] ∧
    (st.run (if dels.isEmpty then [] else [.syncDir, .atomicWrite MANAGED managed])).started = st.started := by
  have hM : MANAGED ≠ META := by decide
  by_cases he : dels.isEmpty = true
  · simp only [he, if_true]
    exact ⟨rfl, hc, rfl⟩
  · simp only [he, Bool.false_eq_true, if_false]
    have h1 : metaCands (st.step .syncDir) = [m] := by
      rw [metaCands_step_sync]
      have : (metaCands st).getLast? = some m := by rw [hc]; rfl
      unfold metaCands at this
      rw [cands_getLast] at this
      rw [this]; rfl
    refine ⟨?_, ?_, ?_⟩
    · simp [Disciplined, disciplinedBy, violations, hM]
    · show metaCands ((st.step .syncDir).step (.atomicWrite MANAGED managed)) = [m]
      rw [metaCands_step_other _ _ (by intro e; cases e) (by intro b' e; cases e)]
      exact h1
    · simp [PState.run, PState.step, hM]

theorem deletes_started (s : PState) (dels : List Path) : (s.run (dels.map Op.delete)).started = s.started := by
  induction dels generalizing s with
  | nil => rfl
  | cons p t ih =>
    simp only [List.map_cons, run_cons]
    rw [ih]; rfl

theorem core_disciplined (a b : Nat) (s : PState) (managed m : Payload)
    (newFiles : List (Path × Nat)) (dels : List Path)
    (hfresh : ∀ f ∈ newFiles, (s.dir.file f.1).ever = false ∧ (s.dir.file f.1).vis = false ∧ (s.dir.file f.1).dur = false)
    (hnodup : (newFiles.map Prod.fst).Nodup)
    (hrefs : ∀ p ∈ m.refs, p ∈ newFiles.map Prod.fst ∨ (s.dir.file p).ready = true)
    (hmono : s.started ≤ m.commit)
    (hdels : ∀ p ∈ dels, p ≠ META ∧ p ∉ m.refs) :
    Disciplined s (coreOps a b managed m newFiles dels) = true ∧
    metaCands (s.run (coreOps a b managed m newFiles dels)) = [m] ∧
    (s.run (coreOps a b managed m newFiles dels)).started = m.commit := by
  let sel : Rule → Bool := fun _ => true
  obtain ⟨w1, w2, w3, w4, _⟩ := writeAll_effect sel managed newFiles s hfresh hnodup
  let s1 := s.run (writeAll managed newFiles)
  have hready : ∀ p ∈ m.refs, (s1.dir.file p).ready = true := by
    intro p hp
    by_cases hin : p ∈ newFiles.map Prod.fst
    · obtain ⟨f, hf, e⟩ := List.mem_map.mp hin
      rw [← e]
      exact w2 f hf
    · rcases hrefs p hp with h | hr
      · exact absurd h hin
      · show ((s.run (writeAll managed newFiles)).dir.file p).ready = true
        rw [w3 p hin]; exact hr
  let s2 := s1.run (syncs (a + 1))
  have hfirm : refsAllFirm s2 m = true := by
    unfold refsAllFirm
    apply List.all_eq_true.mpr
    intro p hp
    exact syncs_succ_ready_firm s1 a p (hready p hp)
  have hstarted : s2.started ≤ m.commit := by
    show (s1.run (syncs (a + 1))).started ≤ _
    rw [syncs_started]
    show (s.run (writeAll managed newFiles)).started ≤ _
    rw [w4]; exact hmono
  have hvw : violations s2 (.atomicWrite META m) = [] := by
    simp [violations, hfirm, hstarted]
  let s3 := s2.step (.atomicWrite META m)
  have hst3 : s3.started = m.commit := by simp [s3, PState.step]
  have hlast3 : (metaCands s3).getLast? = some m := by
    show (metaCands (s2.step (.atomicWrite META m))).getLast? = some m
    rw [metaCands_step_write]
    simp
  let s4 := s3.run (syncs (b + 1))
  have hc4 : metaCands s4 = [m] := syncs_succ_cands s3 b m hlast3
  obtain ⟨d1, d2⟩ := deletes_ok_synced s4 m dels hc4 hdels
  let s5 := s4.run (dels.map Op.delete)
  obtain ⟨t1, t2, t3⟩ := gc_tail s5 m managed dels d2
  refine ⟨?_, ?_, ?_⟩
  · unfold Disciplined coreOps
    rw [disciplinedBy_append, disciplinedBy_append, disciplinedBy_append, disciplinedBy_append,
      disciplinedBy_append]
    simp only [Bool.and_eq_true]
    refine ⟨w1, syncs_disciplined sel s1 (a + 1), ?_, syncs_disciplined sel _ (b + 1), d1, t1⟩
    show disciplinedBy sel s2 [Op.atomicWrite META m] = true
    simp [disciplinedBy, hvw]
  · unfold coreOps
    rw [run_append, run_append, run_append, run_append, run_append]
    exact t2
  · unfold coreOps
    rw [run_append, run_append, run_append, run_append, run_append]
    show (s5.run _).started = m.commit
    rw [t3]
    show (s4.run (dels.map Op.delete)).started = m.commit
    rw [deletes_started]
    show (s3.run (syncs (b + 1))).started = m.commit
    rw [syncs_started]; exact hst3

/-! ## the writer as a sequence of events -/

/-- operations of the file phase: what indexing workers, merge threads and the doc-store
compressor issue while they write segment files (any number of threads, any interleaving) -/
def isFileOp : Op → Bool
  | .create _ | .write _ _ | .flush _ | .terminate _ => true
  | .atomicWrite p _ => p != META
  | _ => false

/-- a sequence of file-phase operations each of which breaks no rule in the state it meets -/
def fileOpsOk : PState → List Op → Bool
  | _, [] => true
  | s, op :: t => isFileOp op && (violations s op).isEmpty && fileOpsOk (s.step op) t

theorem fileOps_effect (s : PState) (ops : List Op) (h : fileOpsOk s ops = true) :
    Disciplined s ops = true ∧ metaCands (s.run ops) = metaCands s := by
  induction ops generalizing s with
  | nil => exact ⟨rfl, rfl⟩
  | cons op t ih =>
    simp only [fileOpsOk, Bool.and_eq_true, List.isEmpty_iff] at h
    obtain ⟨⟨hf, hv⟩, ht⟩ := h
    obtain ⟨i1, i2⟩ := ih (s.step op) ht
    have hc : metaCands (s.step op) = metaCands s := by
      apply metaCands_step_other
      · intro e; subst e; simp [isFileOp] at hf
      · intro b e; subst e; simp [isFileOp] at hf
    refine ⟨(disciplined_cons s op t).mpr ⟨hv, i1⟩, ?_⟩
    rw [run_cons, i2, hc]

/-- what the segment updater and its workers do to storage, one event per task:
a worker or merge thread writes the files of a segment; `schedule_commit`; `end_merge` of
committed segments (same opstamp, new `meta.json`); an explicit or policy-independent collection.
A policy switch (`set_merge_policy`) only changes WHICH of these events occur. -/
inductive WEv
  | files (ops : List Op)
  | flush (managed : Payload) (files : List (Path × Nat))
  | commit (managed : Payload) (files : List (Path × Nat)) (m : Payload) (dels : List Path)
  | endMerge (managed : Payload) (files : List (Path × Nat)) (m : Payload) (dels : List Path)
  | gc (managed : Payload) (dels : List Path)

/-- storage operations of one event, `save_metas` in the shape `sync^(a+1); write; sync^(b+1)`
-- mirrors: segment_updater.rs::schedule_commit, end_merge, garbage_collect_files; index_writer.rs::index_documents -/
def WEv.ops (a b : Nat) : WEv → List Op
  | .files ops => ops
  | .flush mg fs => writeAll mg fs
  | .commit mg fs m dels => coreOps a b mg m fs dels ++ [.ack m.commit]
  | .endMerge mg fs m dels => coreOps a b mg m fs dels
  | .gc mg dels => dels.map Op.delete ++ (if dels.isEmpty then [] else [.syncDir, .atomicWrite MANAGED mg])

def freshFiles (s : PState) (fs : List (Path × Nat)) : Prop :=
  (∀ f ∈ fs, (s.dir.file f.1).ever = false ∧ (s.dir.file f.1).vis = false ∧ (s.dir.file f.1).dur = false) ∧
  (fs.map Prod.fst).Nodup

/-- local side conditions of an event in the state it starts from: new files are fresh; a new
`meta.json` references only those or files already visible and terminated and does not go back
in opstamps; a collection spares `meta.json` and what the newest `meta.json` references (that is
`list_files` ⊇ committed metas ∪ {meta.json}) -/
def WOk (s : PState) : WEv → Prop
  | .files ops => fileOpsOk s ops = true
  | .flush _ fs => freshFiles s fs
  | .commit _ fs m dels | .endMerge _ fs m dels =>
    freshFiles s fs ∧ (∀ p ∈ m.refs, p ∈ fs.map Prod.fst ∨ (s.dir.file p).ready = true) ∧
    s.started ≤ m.commit ∧ (∀ p ∈ dels, p ≠ META ∧ p ∉ m.refs)
  | .gc _ dels => ∀ m, metaCands s = [m] → ∀ p ∈ dels, p ≠ META ∧ p ∉ m.refs

def WRun (a b : Nat) : PState → List WEv → Prop
  | _, [] => True
  | s, e :: es => WOk s e ∧ WRun a b (s.run (e.ops a b)) es

/-- the newest `meta.json` is durable and is the only candidate -/
def Synced (s : PState) : Prop := ∃ m, metaCands s = [m]

theorem wev_step (a b : Nat) (s : PState) (hs : Synced s) (e : WEv) (hok : WOk s e) :
    Disciplined s (e.ops a b) = true ∧ Synced (s.run (e.ops a b)) := by
  obtain ⟨m0, hm0⟩ := hs
  cases e with
  | files ops =>
    obtain ⟨f1, f2⟩ := fileOps_effect s ops hok
    exact ⟨f1, m0, by rw [WEv.ops, f2]; exact hm0⟩
  | flush mg fs =>
    obtain ⟨w1, _, _, _, w5⟩ := writeAll_effect (fun _ => true) mg fs s hok.1 hok.2
    exact ⟨w1, m0, by rw [WEv.ops, w5]; exact hm0⟩
  | commit mg fs m dels =>
    obtain ⟨⟨hf, hn⟩, hr, hmo, hd⟩ := hok
    obtain ⟨c1, c2, _⟩ := core_disciplined a b s mg m fs dels hf hn hr hmo hd
    refine ⟨?_, m, ?_⟩
    · unfold Disciplined WEv.ops
      rw [disciplinedBy_append, Bool.and_eq_true]
      refine ⟨c1, ?_⟩
      simp [disciplinedBy, violations, c2]
    · simp only [WEv.ops, run_append]
      show metaCands ((s.run (coreOps a b mg m fs dels)).step (.ack m.commit)) = [m]
      rw [metaCands_step_other _ _ (by intro e; cases e) (by intro b' e; cases e)]
      exact c2
  | endMerge mg fs m dels =>
    obtain ⟨⟨hf, hn⟩, hr, hmo, hd⟩ := hok
    obtain ⟨c1, c2, _⟩ := core_disciplined a b s mg m fs dels hf hn hr hmo hd
    exact ⟨c1, m, c2⟩
  | gc mg dels =>
    have hd := hok m0 hm0
    obtain ⟨d1, d2⟩ := deletes_ok_synced s m0 dels hm0 hd
    obtain ⟨t1, t2, _⟩ := gc_tail (s.run (dels.map Op.delete)) m0 mg dels d2
    refine ⟨?_, m0, ?_⟩
    · unfold Disciplined WEv.ops
      rw [disciplinedBy_append, Bool.and_eq_true]
      exact ⟨d1, t1⟩
    · simp only [WEv.ops, run_append]
      exact t2

theorem wrun_disciplined (a b : Nat) (s : PState) (hs : Synced s) (evs : List WEv) (h : WRun a b s evs) :
    Disciplined s (evs.flatMap (WEv.ops a b)) = true := by
  induction evs generalizing s with
  | nil => rfl
  | cons e es ih =>
    obtain ⟨h1, h2⟩ := wev_step a b s hs e h.1
    simp only [List.flatMap_cons]
    unfold Disciplined
    rw [disciplinedBy_append, Bool.and_eq_true]
    exact ⟨h1, ih _ h2 h.2⟩

theorem cands_written (s : PState) (t : List Op) :
    ∀ m ∈ metaCands (s.run t), m ∈ metaCands s ∨ Op.atomicWrite META m ∈ t := by
  induction t generalizing s with
  | nil => intro m hm; exact Or.inl hm
  | cons op t ih =>
    intro m hm
    rw [run_cons] at hm
    rcases ih (s.step op) m hm with h | h
    · by_cases hsync : op = .syncDir
      · subst hsync
        rw [metaCands_step_sync] at h
        left
        cases hv : (s.dir.atom META).visible with
        | none => simp [hv] at h
        | some b =>
          simp only [hv, Option.toList_some, List.mem_singleton] at h
          subst h
          exact visible_mem_cands _ _ hv
      · by_cases hw : ∃ b, op = .atomicWrite META b
        · obtain ⟨b, rfl⟩ := hw
          rw [metaCands_step_write] at h
          rcases List.mem_append.mp h with h | h
          · exact Or.inl h
          · simp only [List.mem_singleton] at h
            subst h
            exact Or.inr (by simp)
        · rw [metaCands_step_other s op hsync (fun b e => hw ⟨b, e⟩)] at h
          exact Or.inl h
    · exact Or.inr (List.mem_cons_of_mem _ h)

/-- the protocol invariant as a decidable check (what the driver evaluates on the state a real
log has reached when `Index::create` returned) -/
def invB (s : PState) : Bool :=
  (s.dir.atom META).dur.isSome &&
  (metaCands s).all (fun m => m.refs.all (fun p => (s.dir.file p).firm) &&
    decide (s.acked ≤ m.commit) && decide (m.commit ≤ s.started))

theorem invB_iff (s : PState) : invB s = true ↔ Inv s := by
  constructor
  · intro h
    simp only [invB, Bool.and_eq_true, List.all_eq_true, decide_eq_true_eq] at h
    obtain ⟨hd, hall⟩ := h
    refine ⟨Option.isSome_iff_exists.mp hd, ?_, ?_⟩
    · intro m hm p hp; exact (hall m hm).1.1 p hp
    · intro m hm; exact ⟨(hall m hm).1.2, (hall m hm).2⟩
  · intro h
    simp only [invB, Bool.and_eq_true, List.all_eq_true, decide_eq_true_eq]
    refine ⟨Option.isSome_iff_exists.mpr h.durable, ?_⟩
    intro m hm
    exact ⟨⟨fun p hp => h.refs m hm p hp, (h.bounds m hm).1⟩, (h.bounds m hm).2⟩

theorem lastAcked_mono (a : Nat) (t : List Op) : a ≤ lastAcked a t := by
  induction t generalizing a with
  | nil => exact Nat.le_refl _
  | cons op t ih =>
    simp only [lastAcked, List.foldl_cons]
    cases op with
    | ack c => exact Nat.le_trans (Nat.le_max_left a c) (ih _)
    | _ => exact ih _

theorem le_lastAcked_of_mem (a : Nat) (t : List Op) (c : Nat) (h : Op.ack c ∈ t) : c ≤ lastAcked a t := by
  induction t generalizing a with
  | nil => cases h
  | cons op t ih =>
    simp only [lastAcked, List.foldl_cons]
    rcases List.mem_cons.mp h with e | h'
    · subst e
      exact Nat.le_trans (Nat.le_max_right a c) (lastAcked_mono _ t)
    · cases op with
      | ack c' => exact ih _ h'
      | _ => exact ih _ h'

end TantivyModel.CommitProtocol
