import TantivyModel.Proofs.WriterMergeEndC
/-!
`mergeEnd`: `MInv` is kept (ids stay unique and fresh; the other merges in flight stay good).
-/
namespace TantivyModel.Writer
open TantivyModel.WriterSpec

variable {α : Type} [DecidableEq α]

theorem srcsOf_replace (ids' ids : List Nat) (reg : List (Seg α)) (res : Option (Seg α))
    (hdisj : ∀ x ∈ reg, x.id ∈ ids' → x.id ∉ ids) (hres : ∀ r, res = some r → r.id ∉ ids') :
    srcsOf ids' (replaceIn reg ids res) = srcsOf ids' reg := by
  have h1 : (reg.filter (fun sg => !ids.contains sg.id)).filter (fun sg => ids'.contains sg.id)
      = reg.filter (fun sg => ids'.contains sg.id) := by
    rw [List.filter_filter]
    apply List.filter_congr
    intro x hx
    by_cases hc : x.id ∈ ids'
    · have := hdisj x hx hc
      simp [hc, this]
    · simp [hc]
  have h2 : res.toList.filter (fun sg => ids'.contains sg.id) = [] := by
    cases res with
    | none => rfl
    | some r => simp [hres r rfl]
  simp only [srcsOf, replaceIn, List.filter_append, h1, h2, List.append_nil]

theorem resultIds_sub (ms : List (Merge α)) (k : Nat) : ∀ i ∈ resultIds (ms.eraseIdx k), i ∈ resultIds ms := by
  intro i hi
  obtain ⟨m, hm, him⟩ := List.mem_flatMap.mp hi
  exact List.mem_flatMap.mpr ⟨m, mem_of_mem_eraseIdx ms k m hm, him⟩

theorem pipeIds_end_sub (s s' : WState α) (k : Nat) (hw : s'.workers = s.workers) (hi : s'.inflight = s.inflight)
    (hm : s'.merges = s.merges.eraseIdx k) : ∀ i ∈ pipeIds s', i ∈ pipeIds s := by
  intro i hi'
  simp only [pipeIds, hw, hi, hm, List.mem_append] at hi' ⊢
  rcases hi' with (h | h) | h
  · exact Or.inl (Or.inl h)
  · exact Or.inl (Or.inr h)
  · exact Or.inr (resultIds_sub s.merges k i h)

theorem resultId_in_pipe (s : WState α) (m : Merge α) (hmem : m ∈ s.merges) (M : Seg α) (hr : m.result = some M) :
    M.id ∈ pipeIds s := by
  simp only [pipeIds, List.mem_append]
  right
  exact List.mem_flatMap.mpr ⟨m, hmem, by simp [mergeResultId, hr]⟩

theorem nodup_of_count_le (l l' : List Nat) (h : l.Nodup) (hc : ∀ i, l'.count i ≤ l.count i) : l'.Nodup := by
  rw [List.nodup_iff_count] at h ⊢
  intro i; exact Nat.le_trans (hc i) (h i)

theorem mem_of_count_le (l l' : List Nat) (hc : ∀ i, l'.count i ≤ l.count i) : ∀ i ∈ l', i ∈ l := by
  intro i hi
  have := List.count_pos_iff.mpr hi
  exact List.count_pos_iff.mp (Nat.lt_of_lt_of_le this (hc i))

theorem segIds_res (log : List (DelOp α)) (B : Nat) (m : Merge α) :
    segIds (m.result.map (catchUp log B)).toList = mergeResultId m := by
  cases hr : m.result with
  | none => simp [segIds, mergeResultId, hr]
  | some M =>
    have : (catchUp log B M).id = M.id := by
      rcases catchUp_cases log B M with ⟨he, _⟩ | he <;> rw [he] <;> rfl
    simp [segIds, mergeResultId, hr, this]

theorem count_replaceIn_ids (log : List (DelOp α)) (B : Nat) (reg : List (Seg α)) (m : Merge α) (i : Nat) :
    (segIds (replaceIn reg m.ids (m.result.map (catchUp log B)))).count i
      ≤ (segIds reg).count i + (mergeResultId m).count i := by
  have hsub : List.Sublist (segIds (reg.filter (fun sg => !m.ids.contains sg.id))) (segIds reg) :=
    List.Sublist.map _ List.filter_sublist
  have := hsub.count_le i
  simp only [replaceIn, segIds, List.map_append, List.count_append] at this ⊢
  have e := segIds_res log B m
  simp only [segIds] at e
  rw [e]
  omega

theorem resultIds_erase_count_le (ms : List (Merge α)) (k i : Nat) :
    (resultIds (ms.eraseIdx k)).count i ≤ (resultIds ms).count i := by
  induction ms generalizing k with
  | nil => simp
  | cons a l ih =>
    cases k with
    | zero => simp [resultIds, List.flatMap_cons, List.count_append]
    | succ k =>
      have := ih k
      simp only [resultIds, List.eraseIdx_cons_succ, List.flatMap_cons, List.count_append] at this ⊢
      omega

/-- the merge in flight ends without effect (its sources are gone) -/
theorem minv_end0 (s : WState α) (h : MInv s) (k : Nat) : MInv (endState0 s k) := by
  obtain ⟨h1, h2, h3, h4, h5, h6, h7, h8, h9, h10, h11⟩ := h
  have hpsub := pipeIds_end_sub s (endState0 s k) k rfl rfl rfl
  have hcount : ∀ i, (allIds (endState0 s k)).count i ≤ (allIds s).count i := by
    intro i
    have := resultIds_erase_count_le s.merges k i
    simp only [allIds, pipeIds, regs, endState0, List.count_append]
    omega
  refine ⟨nodup_of_count_le _ _ h1 hcount, fun i hi => h2 i (mem_of_count_le _ _ hcount i hi),
    fun m hm => h3 m (mem_of_mem_eraseIdx _ k m hm), fun m hm => h4 m (mem_of_mem_eraseIdx _ k m hm),
    fun m hm i hi hp => h5 m (mem_of_mem_eraseIdx _ k m hm) i hi (hpsub i hp), h6, h7,
    fun m hm => h8 m (mem_of_mem_eraseIdx _ k m hm), h9, h10, h11⟩

/-- ids of the two registers and of the pipe are disjoint -/
theorem reg_not_pipe (s : WState α) (h : MInv s) (x : Seg α) (hx : x ∈ s.uncommitted ++ s.committed) :
    x.id ∉ pipeIds s := by
  intro hp
  have hn := h.nodup
  simp only [allIds, regs] at hn
  exact (List.nodup_append.mp hn).2.2 x.id hp x.id (mem_segIds hx) rfl

/-- `mergeEnd` on uncommitted sources keeps `MInv` -/
theorem minv_endU (s : WState α) (P C : List α) (hw : WInv s P C) (h : MInv s) (k : Nat) (m : Merge α)
    (hk : s.merges[k]? = some m) (hp : present m.ids s.uncommitted) : MInv (endStateU s k m) := by
  have hmem : m ∈ s.merges := List.mem_of_getElem? hk
  have hRn := regsNodup s h
  let res := m.result.map (catchUp s.log s.metas.opstamp)
  let U' := replaceIn s.uncommitted m.ids res
  have hU : (endStateU s k m).uncommitted = U' := rfl
  have hpsub := pipeIds_end_sub s (endStateU s k m) k rfl rfl rfl
  have hcount : ∀ i, (allIds (endStateU s k m)).count i ≤ (allIds s).count i := by
    intro i
    have c1 := count_resultIds_eraseIdx s.merges k m hk i
    have c2 := count_replaceIn_ids s.log s.metas.opstamp s.uncommitted m i
    simp only [allIds, pipeIds, regs, endStateU, endState0, segIds, List.map_append, List.count_append] at c2 ⊢
    omega
  have hresid : ∀ r, res = some r → r.id ∈ pipeIds s := by
    intro r hr'
    cases hr : m.result with
    | none => simp [res, hr] at hr'
    | some M =>
      simp only [res, hr, Option.map_some, Option.some.injEq] at hr'
      subst hr'
      rw [(catchUp_basic s.log s.metas.opstamp M (by
        have hpR : present m.ids (s.uncommitted ++ s.committed) := fun i hi => by
          obtain ⟨x, hx, he⟩ := hp i hi; exact ⟨x, List.mem_append_left _ hx, he⟩
        obtain ⟨c, _, _, g⟩ := h.good m hmem hpR
        simp only [hr] at g
        exact g.2.1)).2.2]
      exact resultId_in_pipe s m hmem M hr
  refine ⟨nodup_of_count_le _ _ h.nodup hcount, fun i hi => h.idLt i (mem_of_count_le _ _ hcount i hi),
    fun m' hm' => h.idsNe m' (mem_of_mem_eraseIdx _ k m' hm'), fun m' hm' => h.srcLt m' (mem_of_mem_eraseIdx _ k m' hm'),
    fun m' hm' i hi hpi => h.srcFresh m' (mem_of_mem_eraseIdx _ k m' hm') i hi (hpsub i hpi),
    h.metaNodup, h.metaIdLt, ?_, h.cis, h.clt, h.pubInv⟩
  intro m' hm'0
  have hm' : m' ∈ s.merges := mem_of_mem_eraseIdx _ k m' hm'0
  show MergeGood s.log U' s.committed s.metas.opstamp m'
  intro hp'
  have hres' : ∀ r, res = some r → r.id ∉ m'.ids := fun r hr' hin =>
    h.srcFresh m' hm' r.id hin (hresid r hr')
  -- the other merge shares no source with the one that ended
  have hdisj : ∀ i ∈ m'.ids, i ∉ m.ids := by
    intro i hi him
    obtain ⟨y, hy, hye⟩ := hp' i hi
    obtain ⟨u, hu, hue⟩ := hp i him
    rcases List.mem_append.mp hy with hy | hy
    · rcases replaceIn_mem s.uncommitted m.ids res y hy with ⟨_, hn⟩ | hr'
      · exact hn (hye ▸ him)
      · exact hres' y hr' (hye ▸ hi)
    · simp only [segIds, List.map_append] at hRn
      exact (List.nodup_append.mp hRn).2.2 u.id (mem_segIds hu) y.id (mem_segIds hy) (hue.trans hye.symm)
  have hpres : present m'.ids (s.uncommitted ++ s.committed) := by
    intro i hi
    obtain ⟨y, hy, hye⟩ := hp' i hi
    rcases List.mem_append.mp hy with hy | hy
    · rcases replaceIn_mem s.uncommitted m.ids res y hy with ⟨hx, _⟩ | hr'
      · exact ⟨y, List.mem_append_left _ hx, hye⟩
      · exact absurd (hye ▸ hi) (hres' y hr')
    · exact ⟨y, List.mem_append_right _ hy, hye⟩
  have hsrc : srcsOf m'.ids (U' ++ s.committed) = srcsOf m'.ids (s.uncommitted ++ s.committed) := by
    have := srcsOf_replace m'.ids m.ids s.uncommitted res (fun x _ hx => hdisj x.id hx) hres'
    simp only [srcsOf, List.filter_append] at this ⊢
    rw [this]
  rw [hsrc]
  exact h.good m' hm' hpres

/-- `mergeEnd` on committed sources keeps `MInv` -/
theorem minv_endC (s : WState α) (P C : List α) (hw : WInv s P C) (h : MInv s) (k : Nat) (m : Merge α)
    (hk : s.merges[k]? = some m) (hp : present m.ids s.committed) : MInv (endStateC s k m) := by
  have hmem : m ∈ s.merges := List.mem_of_getElem? hk
  have hRn := regsNodup s h
  have hw' := winv_endC s P C hw h k m hk hp
  obtain ⟨rc, hE⟩ := endC_facts s P C hw h m hmem hp
  let res := m.result.map (catchUp s.log s.metas.opstamp)
  let C' := replaceIn s.committed m.ids res
  have hCc : (endStateC s k m).committed = C'.filter hasAlive := rfl
  have hCm : (endStateC s k m).metas.segs = C'.filter hasAlive := rfl
  have hpsub := pipeIds_end_sub s (endStateC s k m) k rfl rfl rfl
  have hsubK : List.Sublist (segIds (C'.filter hasAlive)) (segIds C') := List.Sublist.map _ List.filter_sublist
  have hcountC' : ∀ i, (segIds C').count i + (resultIds (s.merges.eraseIdx k)).count i
      ≤ (segIds s.committed).count i + (resultIds s.merges).count i := by
    intro i
    have c1 := count_resultIds_eraseIdx s.merges k m hk i
    have c2 : (segIds C').count i ≤ (segIds s.committed).count i + (mergeResultId m).count i :=
      count_replaceIn_ids s.log s.metas.opstamp s.committed m i
    omega
  have hcount : ∀ i, (allIds (endStateC s k m)).count i ≤ (allIds s).count i := by
    intro i
    have c3 : (segIds (C'.filter hasAlive)).count i ≤ (segIds C').count i := hsubK.count_le i
    have c4 := hcountC' i
    have e : allIds (endStateC s k m) = (s.workers.flatMap workerIds ++ segIds s.inflight
        ++ resultIds (s.merges.eraseIdx k)) ++ segIds (s.uncommitted ++ C'.filter hasAlive) := rfl
    rw [e]
    simp only [allIds, pipeIds, regs, segIds, List.map_append, List.count_append] at c3 c4 ⊢
    omega
  have hC'nodup : (segIds C').Nodup := by
    rw [List.nodup_iff_count]
    intro i
    have c4 := hcountC' i
    have hn := (List.nodup_iff_count.mp h.nodup) i
    simp only [allIds, pipeIds, regs, segIds, List.map_append, List.count_append] at hn c4 ⊢
    omega
  have hresid : ∀ r, res = some r → r.id ∈ pipeIds s ∧ CommittedAt s.log s.metas.opstamp r := by
    intro r hr'
    have hres := hE.res
    cases hr : m.result with
    | none => simp [res, hr] at hr'
    | some M =>
      simp only [hr] at hres
      simp only [res, hr, Option.map_some, Option.some.injEq] at hr'
      subst hr'
      have hid : (catchUp s.log s.metas.opstamp M).id = M.id := by
        rcases catchUp_cases s.log s.metas.opstamp M with ⟨he, _⟩ | he <;> rw [he] <;> rfl
      exact ⟨hid ▸ resultId_in_pipe s m hmem M hr, hres.2.2.1⟩
  have hnewNodup := nodup_of_count_le _ _ h.nodup hcount
  have hmemAll := mem_of_count_le _ _ hcount
  have hKall : ∀ x ∈ C'.filter hasAlive, x.id ∈ allIds (endStateC s k m) := by
    intro x hx
    simp only [allIds, regs, hCc]
    exact List.mem_append_right _ (by
      simp only [segIds, List.map_append]
      exact List.mem_append_right _ (List.mem_map.mpr ⟨x, hx, rfl⟩))
  refine ⟨hnewNodup, fun i hi => h.idLt i (hmemAll i hi),
    fun m' hm' => h.idsNe m' (mem_of_mem_eraseIdx _ k m' hm'), fun m' hm' => h.srcLt m' (mem_of_mem_eraseIdx _ k m' hm'),
    fun m' hm' i hi hpi => h.srcFresh m' (mem_of_mem_eraseIdx _ k m' hm') i hi (hpsub i hpi),
    ?_, ?_, ?_, ?_, ?_, ?_⟩
  · rw [hCm]; exact hsubK.nodup hC'nodup
  · intro sg hsg
    rw [hCm] at hsg
    exact h.idLt _ (hmemAll _ (hKall sg hsg))
  · -- the other merges in flight
    intro m' hm'0
    have hm' : m' ∈ s.merges := mem_of_mem_eraseIdx _ k m' hm'0
    show MergeGood s.log s.uncommitted (C'.filter hasAlive) s.metas.opstamp m'
    intro hp'
    have hres' : ∀ r, res = some r → r.id ∉ m'.ids := fun r hr' hin =>
      h.srcFresh m' hm' r.id hin (hresid r hr').1
    have hdisj : ∀ i ∈ m'.ids, i ∉ m.ids := by
      intro i hi him
      obtain ⟨y, hy, hye⟩ := hp' i hi
      obtain ⟨u, hu, hue⟩ := hp i him
      rcases List.mem_append.mp hy with hy | hy
      · simp only [segIds, List.map_append] at hRn
        exact (List.nodup_append.mp hRn).2.2 y.id (mem_segIds hy) u.id (mem_segIds hu) (hye.trans hue.symm)
      · rcases replaceIn_mem s.committed m.ids res y (List.mem_filter.mp hy).1 with ⟨_, hn⟩ | hr'
        · exact hn (hye ▸ him)
        · exact hres' y hr' (hye ▸ hi)
    have hpres : present m'.ids (s.uncommitted ++ s.committed) := by
      intro i hi
      obtain ⟨y, hy, hye⟩ := hp' i hi
      rcases List.mem_append.mp hy with hy | hy
      · exact ⟨y, List.mem_append_left _ hy, hye⟩
      · rcases replaceIn_mem s.committed m.ids res y (List.mem_filter.mp hy).1 with ⟨hx, _⟩ | hr'
        · exact ⟨y, List.mem_append_right _ hx, hye⟩
        · exact absurd (hye ▸ hi) (hres' y hr')
    -- no source of the other merge was dropped as empty
    have hkeep : ∀ x ∈ C', x.id ∈ m'.ids → hasAlive x = true := by
      intro x hx hin
      obtain ⟨y, hy, hye⟩ := hp' x.id hin
      rcases List.mem_append.mp hy with hy | hy
      · exfalso
        rcases replaceIn_mem s.committed m.ids res x hx with ⟨hxc, _⟩ | hr'
        · simp only [segIds, List.map_append] at hRn
          exact (List.nodup_append.mp hRn).2.2 y.id (mem_segIds hy) x.id (mem_segIds hxc) hye
        · exact hres' x hr' hin
      · have hyC' := (List.mem_filter.mp hy).1
        have : y = x := eq_of_id_eq C' hC'nodup y x hyC' hx hye
        rw [← this]; exact (List.mem_filter.mp hy).2
    have hsrcK : srcsOf m'.ids (C'.filter hasAlive) = srcsOf m'.ids C' := by
      simp only [srcsOf, List.filter_filter]
      apply List.filter_congr
      intro x hx
      by_cases hc : x.id ∈ m'.ids
      · simp [hc, hkeep x hx hc]
      · simp [hc]
    have hsrcC : srcsOf m'.ids C' = srcsOf m'.ids s.committed :=
      srcsOf_replace m'.ids m.ids s.committed res (fun x _ hx => hdisj x.id hx) hres'
    have hsrc : srcsOf m'.ids (s.uncommitted ++ C'.filter hasAlive)
        = srcsOf m'.ids (s.uncommitted ++ s.committed) := by
      have a := hsrcK
      have b := hsrcC
      simp only [srcsOf, List.filter_append] at a b ⊢
      rw [a, b]
    obtain ⟨c, hc, hr3, g⟩ := h.good m' hm' hpres
    refine ⟨c, hc, ?_, by rw [hsrc]; exact g⟩
    intro hpK
    apply hr3
    intro i hi
    obtain ⟨y, hy, hye⟩ := hpK i hi
    rcases replaceIn_mem s.committed m.ids res y (List.mem_filter.mp hy).1 with ⟨hx, _⟩ | hr'
    · exact ⟨y, hx, hye⟩
    · exact absurd (hye ▸ hi) (hres' y hr')
  · intro x hx
    rw [hCc] at hx
    rcases replaceIn_mem s.committed m.ids res x (List.mem_filter.mp hx).1 with ⟨hxc, _⟩ | hr'
    · exact h.cis x hxc
    · exact (hresid x hr').2
  · intro x hx
    rw [hCc, ← hCm] at hx
    exact hw'.metaLt x hx
  · right
    show List.Perm ((C'.filter hasAlive).flatMap aliveDocs) ((C'.filter hasAlive).flatMap aliveDocs)
    exact List.Perm.refl _

end TantivyModel.Writer
