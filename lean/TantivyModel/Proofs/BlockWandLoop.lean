import TantivyModel.Proofs.BlockWandSteps
/-!
`block_max_was_too_low_advance_one_scorer` passes only dead documents (given `UB_max`, `UB_block`),
and the whole mirrored `block_wand` loop is a run of the pruning machine.
-/
namespace TantivyModel.BlockWand
open List TantivyModel.Wand

/-! ### the block bound of a scorer whose skip reader sits on the pivot's block -/

theorem takeWhile_length_eq {β : Type} (p q : β → Bool) : ∀ (l : List β), (∀ x, x ∈ l → p x = true → q x = true) →
    (∀ x, l[(l.takeWhile p).length]? = some x → q x = false) →
    (l.takeWhile q).length = (l.takeWhile p).length
  | [], _, _ => rfl
  | y :: ys, hpq, hstop => by
    by_cases hy : p y = true
    · have hqy := hpq y (by simp) hy
      rw [takeWhile_cons_of_pos hy, takeWhile_cons_of_pos hqy]
      simp only [length_cons]
      congr 1
      apply takeWhile_length_eq p q ys (fun x hx => hpq x (by simp [hx]))
      intro x hx
      apply hstop x
      rw [takeWhile_cons_of_pos hy]
      simpa using hx
    · rw [takeWhile_cons_of_neg hy] at hstop ⊢
      have := hstop y (by simp)
      rw [takeWhile_cons_of_neg (by simp [this])]

/-- `UB_block` as the loop uses it: with the skip reader on the block of `pd`, every remaining
posting between `pd` and the end of that block scores at most `block_max_score()` -/
theorem blockMax_bound (x : S) (hwf : WF x) (pd : Nat) (hskip : x.skip = x.blockIdx pd)
    (p : Nat × Nat) (hp : p ∈ x.rest) (h1 : pd ≤ p.1) (h2 : p.1 ≤ x.lastDocInBlock) : p.2 ≤ x.blockMax := by
  have hidx : x.blockIdx p.1 = x.blockIdx pd := by
    unfold TS.blockIdx
    apply takeWhile_length_eq
    · intro b _ hb
      simp only [decide_eq_true_eq] at hb ⊢; omega
    · intro b hb
      have hk : x.blocks[x.skip]? = some b := by rw [hskip]; exact hb
      unfold TS.lastDocInBlock at h2
      rw [hk] at h2
      simp only at h2
      simp only [decide_eq_false_iff_not]; omega
  have hub := hwf.ubBlk p hp
  rw [hidx, ← hskip] at hub
  unfold TS.blockMax
  cases hb : x.blocks[x.skip]? with
  | some b =>
    obtain ⟨l, bm⟩ := b
    exact hub.1 l bm hb
  | none =>
    simp only
    split
    · exact hub.2 hb
    · exact hwf.ubMax p hp

theorem scoreIn_le_blockMax (x : S) (hwf : WF x) (pd : Nat) (hskip : x.skip = x.blockIdx pd) (d : Nat)
    (h1 : pd ≤ d) (h2 : d ≤ x.lastDocInBlock) : scoreIn x.rest d ≤ x.blockMax := by
  unfold scoreIn
  cases hf : x.rest.find? (·.1 == d) with
  | none => exact Nat.zero_le _
  | some p =>
    have hp := mem_of_find?_eq_some hf
    have hd : p.1 = d := by simpa using find?_some hf
    exact blockMax_bound x hwf pd hskip p hp (by omega) (by omega)

theorem tot_le_sum_blockMax (P : List S) (hwf : ∀ x, x ∈ P → WF x) (pd : Nat)
    (hskip : ∀ x, x ∈ P → x.skip = x.blockIdx pd) (d : Nat) (h1 : pd ≤ d)
    (h2 : ∀ x, x ∈ P → d ≤ x.lastDocInBlock) : tot P d ≤ (P.map TS.blockMax).sum := by
  induction P with
  | nil => simp [tot, posts, unionTotal]
  | cons x xs ih =>
    rw [tot_cons]
    have := scoreIn_le_blockMax x (hwf x (by simp)) pd (hskip x (by simp)) d h1 (h2 x (by simp))
    have := ih (fun y hy => hwf y (by simp [hy])) (fun y hy => hskip y (by simp [hy])) fun y hy => h2 y (by simp [hy])
    simp only [map_cons, sum_cons]; omega

/-! ### the scan of block_max_was_too_low_advance_one_scorer -/

theorem tooLowScan_spec (pre : List S) (init : Nat × Nat × Nat) :
    (tooLowScan pre init).2.2 ≤ init.2.2 ∧
    (∀ x, x ∈ pre → (tooLowScan pre init).2.2 ≤ x.lastDocInBlock) ∧
    ((tooLowScan pre init).1 = init.1 ∨ (tooLowScan pre init).1 < pre.length) := by
  unfold tooLowScan
  have hmem : ∀ z, z ∈ pre.zipIdx.reverse → z.1 ∈ pre ∧ z.2 < pre.length := by
    intro z hz
    have hz' := mem_reverse.mp hz
    have := mem_zipIdx_iff_getElem?.mp hz'
    exact ⟨mem_of_getElem? this, getElem?_lt_length this⟩
  have hall : ∀ x, x ∈ pre → ∃ z, z ∈ pre.zipIdx.reverse ∧ z.1 = x := by
    intro x hx
    obtain ⟨i, hi, rfl⟩ := getElem_of_mem hx
    exact ⟨(pre[i], i), mem_reverse.mpr (mem_zipIdx_iff_getElem?.mpr (by simp [hi])), rfl⟩
  generalize pre.zipIdx.reverse = zs at hmem hall
  have key : ∀ (zs : List (S × Nat)) (st : Nat × Nat × Nat),
      let r := zs.foldl (fun (st : Nat × Nat × Nat) (si : S × Nat) =>
        let after' := if si.1.lastDocInBlock ≤ st.2.2 then si.1.lastDocInBlock else st.2.2
        if Sc.gt si.1.maxScore st.2.1 then (si.2, si.1.maxScore, after') else (st.1, st.2.1, after')) st
      r.2.2 ≤ st.2.2 ∧ (∀ z, z ∈ zs → r.2.2 ≤ z.1.lastDocInBlock) ∧ (r.1 = st.1 ∨ ∃ z, z ∈ zs ∧ r.1 = z.2) := by
    intro zs
    induction zs with
    | nil => intro st; simp
    | cons z zs ih =>
      intro st
      simp only [foldl_cons]
      have hafter : (if z.1.lastDocInBlock ≤ st.2.2 then z.1.lastDocInBlock else st.2.2) ≤ st.2.2
          ∧ (if z.1.lastDocInBlock ≤ st.2.2 then z.1.lastDocInBlock else st.2.2) ≤ z.1.lastDocInBlock := by
        split <;> omega
      by_cases hg : Sc.gt z.1.maxScore st.2.1 = true
      · rw [if_pos hg]
        obtain ⟨h1, h2, h3⟩ := ih (z.2, z.1.maxScore, if z.1.lastDocInBlock ≤ st.2.2 then z.1.lastDocInBlock else st.2.2)
        simp only at h1 h2 h3
        refine ⟨by omega, ?_, ?_⟩
        · intro w hw
          rcases mem_cons.mp hw with rfl | hw
          · omega
          · exact h2 w hw
        · rcases h3 with h3 | ⟨w, hw, h3⟩
          · right; exact ⟨z, by simp, h3⟩
          · right; exact ⟨w, by simp [hw], h3⟩
      · rw [if_neg hg]
        obtain ⟨h1, h2, h3⟩ := ih (st.1, st.2.1, if z.1.lastDocInBlock ≤ st.2.2 then z.1.lastDocInBlock else st.2.2)
        simp only at h1 h2 h3
        refine ⟨by omega, ?_, ?_⟩
        · intro w hw
          rcases mem_cons.mp hw with rfl | hw
          · omega
          · exact h2 w hw
        · rcases h3 with h3 | ⟨w, hw, h3⟩
          · left; exact h3
          · right; exact ⟨w, by simp [hw], h3⟩
  obtain ⟨h1, h2, h3⟩ := key zs init
  refine ⟨h1, ?_, ?_⟩
  · intro x hx
    obtain ⟨z, hz, rfl⟩ := hall x hx
    exact h2 z hz
  · rcases h3 with h3 | ⟨z, hz, h3⟩
    · left; exact h3
    · right; rw [h3]; exact (hmem z hz).2

theorem seekAfter_spec (arr : List S) (pl after0 : Nat) :
    seekAfter arr pl after0 ≤ (if after0 ≠ T then after0 + 1 else after0) ∧
    ∀ x, x ∈ arr.drop pl → seekAfter arr pl after0 ≤ x.doc := by
  unfold seekAfter
  generalize (if after0 ≠ T then after0 + 1 else after0) = a0
  generalize arr.drop pl = l
  induction l generalizing a0 with
  | nil => simp
  | cons y ys ih =>
    simp only [foldl_cons]
    obtain ⟨h1, h2⟩ := ih (if y.doc ≤ a0 then y.doc else a0)
    have : (if y.doc ≤ a0 then y.doc else a0) ≤ a0 ∧ (if y.doc ≤ a0 then y.doc else a0) ≤ y.doc := by
      split <;> omega
    refine ⟨by omega, ?_⟩
    intro x hx
    rcases mem_cons.mp hx with rfl | hx
    · omega
    · exact h2 x hx

end TantivyModel.BlockWand
