import TantivyModel.Proofs.ReaderPub
/-!
Progress: under the discipline a reload that has loaded a meta can always finish — every file
it still has to open is there, so it never needs to fail.
-/
namespace TantivyModel.Reader

/-- keep the last occurrence of every element -/
def dedup : List Path → List Path
  | [] => []
  | p :: l => if l.contains p then dedup l else p :: dedup l

theorem mem_dedup (l : List Path) (p : Path) : p ∈ dedup l ↔ p ∈ l := by
  induction l with
  | nil => simp [dedup]
  | cons q l ih =>
    unfold dedup
    by_cases h : l.contains q = true
    · simp only [h, if_true, ih, List.mem_cons]
      constructor
      · exact Or.inr
      · rintro (h' | h')
        · subst h'; simpa using h
        · exact h'
    · have h' : l.contains q = false := by simpa using h
      simp only [h', Bool.false_eq_true, if_false, List.mem_cons, ih]

theorem nodup_dedup (l : List Path) : (dedup l).Nodup := by
  induction l with
  | nil => simp [dedup]
  | cons q l ih =>
    unfold dedup
    by_cases h : l.contains q = true
    · simp only [h, if_true]; exact ih
    · have h' : l.contains q = false := by simpa using h
      simp only [h', Bool.false_eq_true, if_false]
      rw [List.nodup_cons]
      refine ⟨?_, ih⟩
      rw [mem_dedup]
      simpa using h

/-- the files reload `r` (which loaded meta `j`) has not tried to open yet -/
def remaining (s : St) (r : Rid) (j : Nat) : List Path :=
  dedup ((metaFiles s j).filter (fun p => !(s.rs r).tried.contains p))

/-- what a reload in the state "loaded, lock held" does next -/
def finish (s : St) (r : Rid) (j : Nat) : List Ev :=
  (remaining s r j).map (.openFile r) ++ [.release r, .warm r, .publish r]

theorem validFrom_append (d : Disc) (s : St) (t u : List Ev) :
    validFrom d s (t ++ u) = (validFrom d s t && validFrom d (run s t) u) :=
  check_append (ok d) s t u

structure Opening (s : St) (r : Rid) (j : Nat) : Prop where
  inv : Inv s
  lock : s.lock = some (.reader r)
  phase : (s.rs r).phase = .loaded
  hj : (s.rs r).j = some j

theorem open_all (s : St) (r : Rid) (j : Nat) (L : List Path) (hO : Opening s r j)
    (hnd : L.Nodup) (hm : ∀ p ∈ L, p ∈ s.metas.getD j [] ∧ p ∉ (s.rs r).tried) :
    validFrom full s (L.map (.openFile r)) = true ∧
    Opening (run s (L.map (.openFile r))) r j ∧
    (run s (L.map (.openFile r))).metas = s.metas ∧
    (run s (L.map (.openFile r))).pubs = s.pubs ∧
    ∀ p, p ∈ ((run s (L.map (.openFile r))).rs r).tried ↔ p ∈ L ∨ p ∈ (s.rs r).tried := by
  induction L generalizing s with
  | nil => exact ⟨rfl, hO, rfl, rfl, by simp [run]⟩
  | cons p L ih =>
    obtain ⟨hpm, hpt⟩ := hm p (List.mem_cons_self)
    have hok : ok full s (.openFile r p) = true := by
      simp only [ok, full, hO.phase, hO.lock, hO.hj, metaFiles, Bool.not_true, Bool.false_or,
        decide_true, Bool.true_and, Bool.and_eq_true, List.contains_eq_mem, decide_eq_true_eq,
        Bool.not_eq_true', decide_eq_false_iff_not]
      exact ⟨hpm, hpt⟩
    obtain ⟨b, _, hb, _, _, _, _⟩ := open_finds s r p hO.inv hok
    have hI' := inv_openFile s r p hO.inv hok
    have hs := step_open_some s r p b hb
    have hO' : Opening (step s (.openFile r p)) r j := by
      refine ⟨hI', ?_, ?_, ?_⟩
      · rw [hs]; exact hO.lock
      · rw [hs]; simp [upd, hO.phase]
      · rw [hs]; simp [upd, hO.hj]
    have htried : ((step s (.openFile r p)).rs r).tried = p :: (s.rs r).tried := by
      rw [hs]; simp [upd]
    have hmetas : (step s (.openFile r p)).metas = s.metas := by rw [hs]
    have hpubs : (step s (.openFile r p)).pubs = s.pubs := by rw [hs]
    have hnd' := (List.nodup_cons.mp hnd)
    have hm' : ∀ q ∈ L, q ∈ (step s (.openFile r p)).metas.getD j [] ∧
        q ∉ ((step s (.openFile r p)).rs r).tried := by
      intro q hq
      obtain ⟨h1, h2⟩ := hm q (List.mem_cons_of_mem _ hq)
      rw [hmetas, htried]
      refine ⟨h1, ?_⟩
      simp only [List.mem_cons, not_or]
      exact ⟨fun h => hnd'.1 (h ▸ hq), h2⟩
    obtain ⟨hv, hO'', hme, hpu, htr⟩ := ih (step s (.openFile r p)) hO' hnd'.2 hm'
    have hrun : run s ((p :: L).map (.openFile r)) =
        run (step s (.openFile r p)) (L.map (.openFile r)) := rfl
    refine ⟨?_, ?_, ?_, ?_, ?_⟩
    · simp only [List.map_cons, validFrom, check, Bool.and_eq_true]
      exact ⟨hok, hv⟩
    · rw [hrun]; exact hO''
    · rw [hrun, hme, hmetas]
    · rw [hrun, hpu, hpubs]
    · intro q
      rw [hrun, htr q, htried]
      simp only [List.mem_cons]
      constructor
      · rintro (h | h | h)
        · exact Or.inl (Or.inr h)
        · exact Or.inl (Or.inl h)
        · exact Or.inr h
      · rintro ((h | h) | h)
        · exact Or.inr (Or.inl h)
        · exact Or.inl h
        · exact Or.inr (Or.inr h)

theorem remaining_spec (s : St) (r : Rid) (j : Nat) :
    (remaining s r j).Nodup ∧
    (∀ p ∈ remaining s r j, p ∈ s.metas.getD j [] ∧ p ∉ (s.rs r).tried) ∧
    ∀ p, p ∈ s.metas.getD j [] → p ∈ remaining s r j ∨ p ∈ (s.rs r).tried := by
  unfold remaining metaFiles
  refine ⟨nodup_dedup _, ?_, ?_⟩
  · intro p hp
    rw [mem_dedup, List.mem_filter] at hp
    refine ⟨hp.1, ?_⟩
    simpa using hp.2
  · intro p hp
    by_cases ht : p ∈ (s.rs r).tried
    · exact Or.inr ht
    · left
      rw [mem_dedup, List.mem_filter]
      refine ⟨hp, ?_⟩
      simpa using ht

theorem finish_tail (s1 : St) (r : Rid) (j : Nat) (hO : Opening s1 r j)
    (hall : ∀ p, p ∈ s1.metas.getD j [] → p ∈ (s1.rs r).tried) :
    validFrom full s1 [.release r, .warm r, .publish r] = true ∧
    (r, j) ∈ (run s1 [.release r, .warm r, .publish r]).pubs := by
  have hok1 : ok full s1 (.release r) = true := by
    simp [ok, full, hO.lock, hO.phase]
  have hI2 := inv_step s1 _ hO.inv hok1
  have hph2 : ((step s1 (.release r)).rs r).phase = .released := by simp [step, upd]
  have hok2 : ok full (step s1 (.release r)) (.warm r) = true := by
    simp only [ok, hph2, decide_true, Bool.true_and, Bool.not_eq_true']
    exact hI2.notFailed r
  have hI3 := inv_step _ _ hI2 hok2
  have hph3 : ((step (step s1 (.release r)) (.warm r)).rs r).phase = .released := by
    simp [step, upd]
  have hj3 : ((step (step s1 (.release r)) (.warm r)).rs r).j = some j := by
    simp [step, upd, hO.hj]
  have ht3 : ((step (step s1 (.release r)) (.warm r)).rs r).tried = (s1.rs r).tried := by
    simp [step, upd]
  have hm3 : (step (step s1 (.release r)) (.warm r)).metas = s1.metas := rfl
  have hok3 : ok full (step (step s1 (.release r)) (.warm r)) (.publish r) = true := by
    simp only [ok, hph3, hj3, metaFiles, hm3, ht3, decide_true, Bool.true_and, Bool.and_eq_true,
      Bool.not_eq_true', List.all_eq_true, List.contains_eq_mem, decide_eq_true_eq]
    exact ⟨hI3.notFailed r, hall⟩
  refine ⟨?_, ?_⟩
  · simp only [validFrom, check, hok1, hok2, hok3, Bool.and_self]
  · show (r, j) ∈ (step (step (step s1 (.release r)) (.warm r)) (.publish r)).pubs
    have : (step (step (step s1 (.release r)) (.warm r)) (.publish r)).pubs =
        (step (step s1 (.release r)) (.warm r)).pubs ++ [(r, j)] := by
      simp only [step]; simp [upd, hO.hj]
    rw [this]
    simp

/-- from "loaded, lock held" the reload runs to publication without leaving the discipline -/
theorem finish_valid (s : St) (r : Rid) (j : Nat) (hO : Opening s r j) :
    validFrom full s (finish s r j) = true ∧ (r, j) ∈ (run s (finish s r j)).pubs := by
  obtain ⟨hnd, hmem, hcov⟩ := remaining_spec s r j
  obtain ⟨hv, hO1, hme, _, htr⟩ := open_all s r j (remaining s r j) hO hnd hmem
  have hall : ∀ p, p ∈ (run s ((remaining s r j).map (.openFile r))).metas.getD j [] →
      p ∈ ((run s ((remaining s r j).map (.openFile r))).rs r).tried := by
    intro p hp
    rw [hme] at hp
    exact (htr p).mpr (hcov p hp)
  obtain ⟨hv2, hp2⟩ := finish_tail _ r j hO1 hall
  unfold finish
  refine ⟨?_, ?_⟩
  · rw [validFrom_append, hv, hv2]; rfl
  · rw [run_append]; exact hp2

end TantivyModel.Reader
