import TantivyModel.Model.Crc32
/-! Helper lemmas for the CRC-32 model: every absorption step is injective in the state and in
the byte, hence any single-byte change changes the checksum. -/
namespace TantivyModel.Crc32

theorem shr_shl_or_one (c : BitVec 32) (h : c[0] = true) : ((c >>> 1) <<< 1) ||| 1#32 = c := by
  ext i hi
  by_cases h0 : i = 0
  · subst h0; simp [h]
  · have : 1 ≤ i := by omega
    simp [h0, this, BitVec.getLsbD_eq_getElem hi]

theorem shr_shl (c : BitVec 32) (h : c[0] = false) : ((c >>> 1) <<< 1) = c := by
  ext i hi
  by_cases h0 : i = 0
  · subst h0; simp [h]
  · have : 1 ≤ i := by omega
    simp [h0, this, BitVec.getLsbD_eq_getElem hi]

/-- inverse of `bitStep` -/
def unStep (r : BitVec 32) : BitVec 32 :=
  if r.msb then ((r ^^^ poly) <<< 1) ||| 1#32 else r <<< 1

theorem msb_shr1 (c : BitVec 32) : (c >>> 1).msb = false := by
  simp [BitVec.msb_ushiftRight]

theorem poly_msb : poly.msb = true := by decide

theorem unStep_bitStep (c : BitVec 32) : unStep (bitStep c) = c := by
  unfold unStep bitStep
  by_cases h : c[0] = true
  · have hm : ((c >>> 1) ^^^ poly).msb = true := by
      rw [BitVec.msb_xor, msb_shr1, poly_msb]; rfl
    simp only [h, if_true, hm, BitVec.xor_assoc, BitVec.xor_self, BitVec.xor_zero]
    exact shr_shl_or_one c h
  · have h' : c[0] = false := by simpa using h
    simp only [h', Bool.false_eq_true, if_false, msb_shr1]
    exact shr_shl c h'

theorem bitStep_injective {a b : BitVec 32} (h : bitStep a = bitStep b) : a = b := by
  have := congrArg unStep h
  simpa [unStep_bitStep] using this

theorem bitStep8_injective {a b : BitVec 32} (h : bitStep8 a = bitStep8 b) : a = b := by
  unfold bitStep8 at h
  exact bitStep_injective (bitStep_injective (bitStep_injective (bitStep_injective
    (bitStep_injective (bitStep_injective (bitStep_injective (bitStep_injective h)))))))

theorem step_injective_state {s t : BitVec 32} {b : UInt8} (h : step s b = step t b) : s = t := by
  unfold step at h
  have := bitStep8_injective h
  exact (BitVec.xor_left_inj _).mp this

theorem setWidth32_injective {x y : BitVec 8} (h : x.setWidth 32 = y.setWidth 32) : x = y := by
  have := congrArg (BitVec.setWidth 8) h
  simpa [BitVec.setWidth_setWidth_of_le] using this

theorem step_injective_byte {s : BitVec 32} {a b : UInt8} (h : step s a = step s b) : a = b := by
  unfold step at h
  have h1 := bitStep8_injective h
  have h2 : a.toBitVec.setWidth 32 = b.toBitVec.setWidth 32 := (BitVec.xor_right_inj _).mp h1
  have h3 := setWidth32_injective h2
  exact UInt8.toBitVec_inj.mp h3

theorem update_injective_state {s t : BitVec 32} (bs : List UInt8)
    (h : update s bs = update t bs) : s = t := by
  induction bs generalizing s t with
  | nil => simpa [update] using h
  | cons b bs ih =>
    have : update (step s b) bs = update (step t b) bs := by simpa [update] using h
    exact step_injective_state (ih this)

theorem update_append (s : BitVec 32) (xs ys : List UInt8) :
    update s (xs ++ ys) = update (update s xs) ys := by
  simp [update, List.foldl_append]

theorem finalize_injective {s t : BitVec 32} (h : finalize s = finalize t) : s = t := by
  unfold finalize at h
  exact (BitVec.xor_left_inj _).mp h

end TantivyModel.Crc32
