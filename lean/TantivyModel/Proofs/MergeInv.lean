import TantivyModel.Proofs.MergeTrace
/-! the invariant of the event machine (`Sys`) and register lemmas -/
namespace TantivyModel.Merge

/-! ### registers -/

theorem containsAll_nil_left (ids : List Nat) (h : ids ≠ []) : containsAll [] ids = false := by
  cases ids with
  | nil => exact absurd rfl h
  | cons a as => simp [containsAll]

theorem containsAll_iff (reg : List Entry) (ids : List Nat) :
    containsAll reg ids = true ↔ ∀ id ∈ ids, ∃ e ∈ reg, e.segId = id := by
  simp [containsAll, List.all_eq_true, List.any_eq_true]

theorem inSources_iff (ids : List Nat) (e : Entry) : inSources ids e = true ↔ e.segId ∈ ids := by
  simp [inSources]

theorem containsAll_mono (reg reg' : List Entry) (ids : List Nat) (h : ∀ e ∈ reg, e ∈ reg')
    (hc : containsAll reg ids = true) : containsAll reg' ids = true := by
  rw [containsAll_iff] at hc ⊢
  intro id hid
  obtain ⟨e, he, rfl⟩ := hc id hid
  exact ⟨e, h e he, rfl⟩

/-- if one register holds all the ids and ids are unique over both registers, the other register
holds none of them -/
theorem filter_other_nil (a b : List Entry) (ids : List Nat)
    (hnd : ((a ++ b).map (·.segId)).Nodup) (hc : containsAll a ids = true) :
    b.filter (inSources ids) = [] := by
  rw [List.filter_eq_nil_iff]
  intro e he hin
  rw [inSources_iff] at hin
  obtain ⟨e', he', heq⟩ := (containsAll_iff a ids).1 hc e.segId hin
  rw [List.map_append, List.nodup_append] at hnd
  exact hnd.2.2 e'.segId (List.mem_map.2 ⟨e', he', rfl⟩) e.segId (List.mem_map.2 ⟨e, he, rfl⟩) heq

theorem filter_other_nil' (a b : List Entry) (ids : List Nat)
    (hnd : ((a ++ b).map (·.segId)).Nodup) (hc : containsAll b ids = true) :
    a.filter (inSources ids) = [] := by
  rw [List.filter_eq_nil_iff]
  intro e he hin
  rw [inSources_iff] at hin
  obtain ⟨e', he', heq⟩ := (containsAll_iff b ids).1 hc e.segId hin
  rw [List.map_append, List.nodup_append] at hnd
  exact hnd.2.2 e.segId (List.mem_map.2 ⟨e, he, rfl⟩) e'.segId (List.mem_map.2 ⟨e', he', rfl⟩) heq.symm

/-- the ids cannot be all in both registers -/
theorem containsAll_not_both (a b : List Entry) (ids : List Nat) (hne : ids ≠ [])
    (hnd : ((a ++ b).map (·.segId)).Nodup) (ha : containsAll a ids = true) :
    containsAll b ids = false := by
  cases hb : containsAll b ids with
  | false => rfl
  | true =>
    exfalso
    cases ids with
    | nil => exact hne rfl
    | cons i rest =>
      obtain ⟨e, he, heq⟩ := (containsAll_iff b (i :: rest)).1 hb i (by simp)
      have := filter_other_nil a b (i :: rest) hnd ha
      rw [List.filter_eq_nil_iff] at this
      exact this e he (by rw [inSources_iff, heq]; simp)

theorem containsAll_append_fresh (reg : List Entry) (e : Entry) (ids : List Nat)
    (h : e.segId ∉ ids) : containsAll (reg ++ [e]) ids = containsAll reg ids := by
  cases hc : containsAll reg ids with
  | true => exact containsAll_mono reg _ ids (fun x hx => by simp [hx]) hc
  | false =>
    cases hc' : containsAll (reg ++ [e]) ids with
    | false => rfl
    | true =>
      exfalso
      have : containsAll reg ids = true := by
        rw [containsAll_iff] at hc' ⊢
        intro id hid
        obtain ⟨x, hx, rfl⟩ := hc' id hid
        rw [List.mem_append, List.mem_singleton] at hx
        rcases hx with hx | rfl
        · exact ⟨x, hx, rfl⟩
        · exact absurd hid h
      rw [this] at hc; cases hc

theorem containsAll_map_advance (reg : List Entry) (q : List DelOp) (t : Nat) (ids : List Nat) :
    containsAll (reg.map fun e => advance q e t) ids = containsAll reg ids := by
  simp only [containsAll, List.any_map]
  rfl

theorem filter_map_advance (reg : List Entry) (q : List DelOp) (t : Nat) (ids : List Nat) :
    (reg.map fun e => advance q e t).filter (inSources ids)
      = (reg.filter (inSources ids)).map fun e => advance q e t := by
  rw [List.filter_map]
  congr 1

/-! ### content of lists of entries -/

theorem flatten_docsAll_push (q : List DelOp) (op : DelOp) (l : List Entry)
    (h : ∀ e ∈ l, e.cursor ≤ q.length) :
    (l.map (docsAll (q ++ [op]))).flatten = ((l.map (docsAll q)).flatten).filter fun d => !hits op d := by
  induction l with
  | nil => rfl
  | cons e rest ih =>
    simp only [List.map_cons, List.flatten_cons, List.filter_append]
    rw [docsAll_push q op e (h e (by simp)), ih (fun x hx => h x (by simp [hx]))]

theorem docsAll_of_cursor_end (q : List DelOp) (e : Entry) (h : q.length ≤ e.cursor) :
    docsAll q e = liveDocsOf e := by
  unfold docsAll
  rw [List.drop_eq_nil_of_le h]
  simp

theorem advance_all_cursor (q : List DelOp) (e : Entry) (T : Nat) (hc : e.cursor ≤ q.length)
    (hall : ∀ op ∈ q, op.opstamp ≤ T) : (advance q e T).cursor = q.length := by
  rw [advance_cursor, consumed_all q e.cursor T hall, List.length_drop]
  omega

theorem liveDocsOf_nil_of_uids (e : Entry) (h : (liveUids e).length = 0) : liveDocsOf e = [] := by
  rw [liveUids_length] at h
  exact List.eq_nil_of_length_eq_zero h

theorem docsAll_nil_of_live_nil (q : List DelOp) (e : Entry) (h : liveDocsOf e = []) : docsAll q e = [] := by
  simp [docsAll, h]

/-! ### the invariant -/

/-- what is known about the merge in flight (when it belongs to the current updater) -/
structure RunInv (s : Sys) (r : Running) : Prop where
  srcs_ne : r.sources ≠ []
  srcs_lt : ∀ id ∈ r.sources, id < s.nextId
  mwf : ∀ m ∈ r.merged.toList, m.docs.length = m.alive.length ∧ m.cursor ≤ s.st.queue.length ∧
    m.segId < s.nextId ∧ ∀ e ∈ s.st.uncommitted ++ s.st.committed, e.segId ≠ m.segId
  /-- applied to the whole queue, the merged entry holds what its sources hold -/
  pendAll : containsAll (s.st.uncommitted ++ s.st.committed) r.sources = true →
    (r.merged.toList.map (docsAll s.st.queue)).flatten
      = (((s.st.uncommitted ++ s.st.committed).filter (inSources r.sources)).map (docsAll s.st.queue)).flatten
  /-- advanced to the committed opstamp, it holds what its committed sources hold now -/
  pubC : containsAll s.st.committed r.sources = true →
    (r.merged.toList.map fun m => liveDocsOf (advance s.st.queue m s.st.committedOpstamp)).flatten
      = ((s.st.committed.filter (inSources r.sources)).map liveDocsOf).flatten ∧
    ∀ m ∈ r.merged.toList, ∀ e ∈ s.st.committed,
      (advance s.st.queue m s.st.committedOpstamp).cursor = e.cursor

structure Inv (s : Sys) : Prop where
  ops_lt : ∀ op ∈ s.st.queue, op.opstamp < s.stamp
  c_lt : s.st.committedOpstamp < s.stamp
  ops_ne : ∀ op ∈ s.st.queue, op.opstamp ≠ s.st.committedOpstamp
  wf : ∀ e ∈ s.st.uncommitted ++ s.st.committed,
    e.docs.length = e.alive.length ∧ e.cursor ≤ s.st.queue.length ∧ e.segId < s.nextId
  pwf : ∀ e ∈ s.st.published, e.docs.length = e.alive.length ∧ e.segId < s.nextId
  comD1 : ∀ e ∈ s.st.committed, consumed s.st.queue e.cursor s.st.committedOpstamp = []
  comD2 : ∀ e ∈ s.st.committed, ∀ e' ∈ s.st.committed, e.cursor = e'.cursor
  pubE : s.st.committed = [] ∨ (pubDocs s.st).Perm ((s.st.committed.map liveDocsOf).flatten)
  ids : ((s.st.uncommitted ++ s.st.committed).map (·.segId)).Nodup
  pids : (s.st.published.map (·.segId)).Nodup
  repoch : ∀ r, s.running = some r → r.epoch ≤ s.st.epoch
  run : ∀ r, s.running = some r → r.epoch = s.st.epoch → RunInv s r

/-- the machine refines the sequential replay up to the order of documents -/
def Rel (s : Sys) (a : Abs) : Prop := (pubDocs s.st).Perm a.pub ∧ (pendDocs s.st).Perm a.pend

end TantivyModel.Merge
