import TantivyModel.Proofs.RecorderStream
import TantivyModel.Proofs.PostingsRoundtrip
import TantivyModel.Proofs.Positions
import TantivyModel.Proofs.BitPacker4x
/-! recorder stream ∘ serializer ∘ decoder = `invert`, per term -/
namespace TantivyModel.Recorder
open TantivyModel.Invert (Term RecOpt Posting Corpus project postingsOf)
open TantivyModel.Postings (cfg hasFreq)

/-! ### every value written fits a `u32` -/

theorem encPositions_lt (ps : List Posting) (hb : Bounded ps) :
    ∀ prev first, ∀ v ∈ encPositions prev first ps, v < 2 ^ 32 := by
  induction ps with
  | nil => intro _ _ v hv; simp [encPositions] at hv
  | cons p r ih =>
    intro prev first v hv
    have hd := hb.doc p (by simp)
    simp only [encPositions, List.mem_append, List.mem_map, List.mem_cons, List.mem_nil_iff, or_false] at hv
    rcases hv with ((hv | hv) | hv) | hv
    · split at hv
      · simp at hv
      · have hE : END = 0 := by decide
        simp at hv; omega
    · omega
    · obtain ⟨x, hx, rfl⟩ := hv
      exact hb.pos p (by simp) x hx
    · exact ih hb.tail _ _ v hv

theorem encFreqs_lt (ps : List Posting) (hb : Bounded ps) :
    ∀ prev, ∀ v ∈ encFreqs prev ps, v < 2 ^ 32 := by
  induction ps with
  | nil => intro _ v hv; simp [encFreqs] at hv
  | cons p r ih =>
    intro prev v hv
    have hd := hb.doc p (by simp)
    have ht := hb.tf p (by simp)
    cases r with
    | nil => simp [encFreqs] at hv; omega
    | cons q r' =>
      simp only [encFreqs, List.cons_append, List.nil_append, List.mem_cons] at hv
      rcases hv with hv | hv | hv
      · omega
      · omega
      · exact ih hb.tail _ v hv

theorem encBasic_lt (ps : List Posting) (hb : Bounded ps) :
    ∀ prev, ∀ v ∈ encBasic prev ps, v < 2 ^ 32 := by
  induction ps with
  | nil => intro _ v hv; simp [encBasic] at hv
  | cons p r ih =>
    intro prev v hv
    have hd := hb.doc p (by simp)
    simp only [encBasic, List.mem_cons] at hv
    rcases hv with hv | hv
    · omega
    · exact ih hb.tail _ v hv

/-- **recorder → calls**: the arena bytes of a term parse to one `write_doc` per posting -/
theorem calls_of_recorder (o : RecOpt) (ps : List Posting) (hne : ps ≠ []) (hg : GoodPostings 0 ps)
    (hb : Bounded ps) :
    ∃ r, recOf o ps = some r ∧
      calls o r (readVals (logBytes r).length (logBytes r)) = ps.map (callOf o) := by
  have htf : ∀ p ∈ ps, p.tf = p.positions.length := fun p hp => (hg.tf p hp).1
  cases o with
  | basic =>
    obtain ⟨r, h1, h2⟩ := stream_basic ps hne hg.sorted
    refine ⟨r, h1, ?_⟩
    rw [readVals_logBytes r (by rw [h2]; exact encBasic_lt ps hb 0), h2]
    exact callsBasic_enc ps 0 hg
  | freqs =>
    obtain ⟨r, h1, h2, h3⟩ := stream_freqs ps hne hg.sorted htf
    refine ⟨r, h1, ?_⟩
    rw [readVals_logBytes r (by rw [h2]; exact encFreqs_lt ps hb 0), h2]
    simp only [calls, h3]
    exact callsFreqs_enc ps 0 hg
  | positions =>
    obtain ⟨r, h1, h2⟩ := stream_positions ps hne hg.sorted hb
    refine ⟨r, h1, ?_⟩
    rw [readVals_logBytes r (by rw [h2]; exact encPositions_lt ps hb 0 true), h2]
    simp only [calls]
    exact callsPositions_enc ps 0 _ hg (encPositions_length_ge 0 true ps)

/-! ### serializer and decoder -/

theorem encBlocks_basic_irrel (c : Postings.Cfg) (k : Nat) :
    ∀ prev docs tfs tfs', Postings.encBlocks c .basic k prev docs tfs = Postings.encBlocks c .basic k prev docs tfs' := by
  induction k with
  | zero => intro prev docs tfs tfs'; simp [Postings.encBlocks, Postings.vintTail, hasFreq]
  | succ k ih =>
    intro prev docs tfs tfs'
    simp only [Postings.encBlocks, Postings.skipEntry, hasFreq, Bool.false_eq_true, if_false,
      List.append_nil]
    rw [ih _ _ (tfs.drop c.B) (tfs'.drop c.B)]

theorem encodeTerm_basic_irrel (c : Postings.Cfg) (docs tfs tfs' : List Nat) :
    Postings.encodeTerm c .basic docs tfs = Postings.encodeTerm c .basic docs tfs' := by
  unfold Postings.encodeTerm
  rw [encBlocks_basic_irrel c _ 0 docs tfs tfs']

theorem integrate_deltas_le (p : Nat) (vs : List Nat) (hs : vs.Pairwise (· ≤ ·)) (hb : ∀ v ∈ vs, p ≤ v) :
    Postings.integrate p (Postings.deltas p vs) = vs := by
  induction vs generalizing p with
  | nil => simp [Postings.deltas, Postings.integrate]
  | cons v vs ih =>
    have hp := List.pairwise_cons.mp hs
    have hpv : p ≤ v := hb v (by simp)
    have e : p + (v - p) = v := by omega
    have := ih v hp.2 (fun x hx => hp.1 x hx)
    simp [Postings.deltas, Postings.integrate, e, this]

theorem readPositions_encode (post : List (List Nat)) :
    ∀ (pre : List (List Nat)),
      readPositions (Positions.encode cfg (pre ++ post).flatten) ((pre.map List.length).sum) (post.map List.length) =
        some (post.map Positions.positionsOfDeltas) := by
  induction post with
  | nil => intro pre; simp [readPositions]
  | cons d rest ih =>
    intro pre
    have hslice := Positions.read_slice cfg (by decide) (by decide) Postings.bp4x_good (pre ++ d :: rest) pre.length
      (by simp)
    have htake : (pre ++ d :: rest).take pre.length = pre := by simp
    have hget : (pre ++ d :: rest).getD pre.length [] = d := by simp [List.getD_eq_getElem?_getD]
    rw [htake, hget] at hslice
    have ih' := ih (pre ++ [d])
    simp only [List.append_assoc, List.singleton_append, List.map_append, List.map_cons, List.map_nil,
      List.sum_append, List.sum_cons, List.sum_nil, Nat.add_zero] at ih'
    simp only [List.map_cons, readPositions, hslice, ih']

theorem map_project_positions (l : List Posting) : l.map (project .positions) = l := by
  induction l with
  | nil => rfl
  | cons a t ih => simp only [List.map_cons, ih]; rfl

/-- hypotheses on the postings of a term, as the spec produces them -/
structure TermOK (ps : List Posting) : Prop where
  good : GoodPostings 0 ps
  bounded : Bounded ps
  below : ∀ p ∈ ps, p.doc < Gen.Postings.TERMINATED

/-- **serializer → read back**: the calls of a term, serialized and read with
`WithFreqsAndPositions`, give the term's postings as visible under the field's record option -/
theorem readBack_serializeCalls (o : RecOpt) (ps : List Posting) (h : TermOK ps) :
    readBack o (serializeCalls o (ps.map (callOf o))) = some (ps.map (project o)) := by
  have hsorted : (ps.map (·.doc)).Pairwise (· < ·) := h.good.sorted
  have hdocs : (ps.map (callOf o)).map (·.doc) = ps.map (·.doc) := by
    simp only [List.map_map]; congr 1; funext p; cases o <;> rfl
  have hbelow : ∀ d ∈ ps.map (·.doc), d < Gen.Postings.TERMINATED := by
    intro d hd; obtain ⟨p, hp, rfl⟩ := List.mem_map.mp hd; exact h.below p hp
  have hrt := fun (tfs : List Nat) (hl : tfs.length = (ps.map (·.doc)).length) (hp : ∀ t ∈ tfs, 1 ≤ t) =>
    Postings.decodeTerm_encodeTerm cfg o (by decide) (by decide) Postings.bp4x_good (ps.map (·.doc)) tfs
      ⟨hsorted, fun d hd => Nat.lt_trans (hbelow d hd) (by decide), hl, hp⟩
  unfold readBack serializeCalls
  simp only [List.length_map, hdocs]
  cases o with
  | basic =>
    have htfs : (ps.map (callOf .basic)).map (·.tf) = ps.map (fun _ => 0) := by
      simp only [List.map_map]; congr 1
    rw [htfs, encodeTerm_basic_irrel cfg _ _ ((ps.map (·.doc)).map (fun _ => 1))]
    have := hrt ((ps.map (·.doc)).map (fun _ => 1)) (by simp) (by intro t ht; simp at ht; omega)
    simp only [List.length_map] at this
    unfold Postings.decodeAll
    rw [this]
    simp [Postings.allDocs_chunkBlocks, project, Function.comp_def]
  | freqs =>
    have htfs : (ps.map (callOf .freqs)).map (·.tf) = ps.map (·.tf) := by
      simp only [List.map_map]; congr 1
    rw [htfs]
    have := hrt (ps.map (·.tf)) (by simp) (by
      intro t ht; obtain ⟨p, hp, rfl⟩ := List.mem_map.mp ht; exact (h.good.tf p hp).2)
    simp only [List.length_map] at this
    unfold Postings.decodeAll
    rw [this]
    simp only [Option.map_some, Postings.allDocs_chunkBlocks,
      Postings.allTfs_chunkBlocks cfg .freqs rfl]
    simp [List.zip_map', project, Function.comp_def]
  | positions =>
    have htfs : (ps.map (callOf .positions)).map (·.tf) = ps.map (·.tf) := by
      simp only [List.map_map]; congr 1
    rw [htfs]
    have := hrt (ps.map (·.tf)) (by simp) (by
      intro t ht; obtain ⟨p, hp, rfl⟩ := List.mem_map.mp ht; exact (h.good.tf p hp).2)
    simp only [List.length_map] at this
    unfold Postings.decodeAll
    rw [this]
    simp only [Option.map_some, Postings.allDocs_chunkBlocks,
      Postings.allTfs_chunkBlocks cfg .positions rfl, if_true]
    -- the positions
    have hflat : (ps.map (callOf .positions)).flatMap (·.deltas) =
        ([] ++ ps.map (fun (p : Posting) => Postings.deltas 0 p.positions)).flatten := by
      simp [List.flatMap_def, callOf, Function.comp_def]
    have hlens : ps.map (·.tf) = (ps.map (fun (p : Posting) => Postings.deltas 0 p.positions)).map List.length := by
      simp only [List.map_map]
      apply List.map_congr_left
      intro p hp
      simp [Postings.deltas_length, (h.good.tf p hp).1]
    have hrp := readPositions_encode (ps.map (fun (p : Posting) => Postings.deltas 0 p.positions)) []
    simp only [List.map_nil, List.sum_nil] at hrp
    rw [hflat, hlens, hrp]
    have hpos : (ps.map (fun (p : Posting) => Postings.deltas 0 p.positions)).map Positions.positionsOfDeltas =
        ps.map (·.positions) := by
      simp only [List.map_map]
      apply List.map_congr_left
      intro p hp
      simp only [Function.comp, Positions.positionsOfDeltas]
      exact integrate_deltas_le 0 p.positions (h.good.mono p hp) (fun _ _ => Nat.zero_le _)
    rw [hpos]
    simp only [← hlens]
    -- zip the three projections back together
    have : ∀ l : List Posting, ((l.map (·.doc)).zip ((l.map (·.tf)).zip (l.map (·.positions)))).map
        (fun x => ({ doc := x.1, tf := x.2.1, positions := x.2.2 } : Posting)) = l := by
      intro l
      induction l with
      | nil => rfl
      | cons a t ih => simp only [List.map_cons, List.zip_cons_cons, ih]
    rw [this]
    rw [map_project_positions]

/-! ### per corpus -/

theorem postingsFrom_ne_nil_iff (gap : Nat) (t : Term) (c : Corpus) (base : Nat) :
    Invert.postingsFrom gap t base c ≠ [] ↔ ∃ d ∈ c, ∃ occ ∈ Invert.docOccs gap d, occ.1 = t := by
  induction c generalizing base with
  | nil => simp [Invert.postingsFrom]
  | cons d ds ih =>
    unfold Invert.postingsFrom
    simp only
    split
    · rename_i hemp
      rw [ih]
      have hnone : ¬ ∃ occ ∈ Invert.docOccs gap d, occ.1 = t := by
        rintro ⟨occ, hocc, rfl⟩
        have : ((Invert.docOccs gap d).filter (fun o => o.1 = occ.1)).map (·.2) = [] := List.isEmpty_iff.mp hemp
        have hm : occ ∈ (Invert.docOccs gap d).filter (fun o => o.1 = occ.1) := by
          simp [List.mem_filter, hocc]
        rw [List.map_eq_nil_iff] at this
        rw [this] at hm; simp at hm
      constructor
      · rintro ⟨d', hd', h⟩; exact ⟨d', by simp [hd'], h⟩
      · rintro ⟨d', hd', h⟩
        rcases List.mem_cons.mp hd' with rfl | hd'
        · exact absurd h hnone
        · exact ⟨d', hd', h⟩
    · rename_i hne
      constructor
      · intro _
        have hne' : ((Invert.docOccs gap d).filter (fun o => o.1 = t)) ≠ [] := by
          intro h; rw [h] at hne; simp at hne
        obtain ⟨occ, hocc⟩ := List.exists_mem_of_ne_nil _ hne'
        have := List.mem_filter.mp hocc
        exact ⟨d, by simp, occ, this.1, by simpa using this.2⟩
      · intro _; simp

theorem recOf_cons_isSome (o : RecOpt) (ps : List Posting) :
    ∀ r : Option Rec, r ≠ none → ps.foldl (fun acc p => some (addPosting o acc p)) r ≠ none := by
  induction ps with
  | nil => intro r h; exact h
  | cons p rest ih => intro r _; rw [List.foldl_cons]; exact ih _ (by simp)

theorem recOf_ne_none_iff (o : RecOpt) (ps : List Posting) : recOf o ps ≠ none ↔ ps ≠ [] := by
  cases ps with
  | nil => simp [recOf]
  | cons p rest =>
    simp only [recOf, List.foldl_cons, ne_eq, reduceCtorEq, not_false_eq_true, iff_true]
    exact recOf_cons_isSome o rest _ (by simp)

theorem docTokenCount_eq (o : RecOpt) (d : Invert.Doc) :
    docTokenCount o d = (Invert.docOccs Gen.Postings.POSITION_GAP d).length := by
  simp [docTokenCount, indexDoc, foldl_subscribe_total, Indexer.init]

/-- hypotheses on the analysed corpus: doc ids stay below TERMINATED; inside a document the
positions of a term never decrease and `position + 1` and the term frequency fit a `u32` -/
structure GoodCorpus (c : Corpus) : Prop where
  docs : c.length ≤ Gen.Postings.TERMINATED
  postings : ∀ t, ∀ p ∈ postingsOf Gen.Postings.POSITION_GAP c t,
    p.positions.Pairwise (· ≤ ·) ∧ (∀ x ∈ p.positions, x + 1 < 2 ^ 32) ∧ p.tf < 2 ^ 32

theorem termOK_of_goodCorpus (c : Corpus) (G : GoodCorpus c) (t : Term) :
    TermOK (postingsOf Gen.Postings.POSITION_GAP c t) := by
  have hs := Invert.postingsFrom_spec Gen.Postings.POSITION_GAP t 0 c
  have hT : Gen.Postings.TERMINATED < 2 ^ 31 := by decide
  have hdoc : ∀ p ∈ postingsOf Gen.Postings.POSITION_GAP c t, p.doc < Gen.Postings.TERMINATED := by
    intro p hp
    have := (hs.2 p hp).2.1
    have := G.docs
    omega
  refine ⟨⟨hs.1, fun p _ => Nat.zero_le _, fun p hp => ⟨(hs.2 p hp).2.2.1, (hs.2 p hp).2.2.2.1⟩,
      fun p hp => (G.postings t p hp).1⟩,
    ⟨fun p hp => (G.postings t p hp).2.1, fun p hp => (G.postings t p hp).2.2, fun p hp => by
      have := hdoc p hp; omega⟩, hdoc⟩

/-- **the pipeline, per term** -/
theorem pipeline_term (o : RecOpt) (c : Corpus) (G : GoodCorpus c) (t : Term)
    (ht : t ∈ Invert.termsOf Gen.Postings.POSITION_GAP c) :
    ∃ r, (indexCorpus o c).table t = some r ∧
      (serializeTerm o r).docFreq = (postingsOf Gen.Postings.POSITION_GAP c t).length ∧
      readBack o (serializeTerm o r) = some ((postingsOf Gen.Postings.POSITION_GAP c t).map (project o)) := by
  have hne : postingsOf Gen.Postings.POSITION_GAP c t ≠ [] :=
    (postingsFrom_ne_nil_iff _ t c 0).mpr ((Invert.mem_termsOf _ c t).mp ht)
  have hok := termOK_of_goodCorpus c G t
  obtain ⟨r, h1, h2⟩ := calls_of_recorder o _ hne hok.good hok.bounded
  refine ⟨r, by rw [indexCorpus_table, h1], ?_, ?_⟩
  · simp only [serializeTerm, serializeCalls, h2, List.length_map]
  · simp only [serializeTerm, h2]
    exact readBack_serializeCalls o _ hok

theorem table_keys (o : RecOpt) (c : Corpus) (t : Term) :
    (indexCorpus o c).table t ≠ none ↔ t ∈ Invert.termsOf Gen.Postings.POSITION_GAP c := by
  rw [indexCorpus_table, recOf_ne_none_iff, Invert.mem_termsOf]
  exact postingsFrom_ne_nil_iff _ t c 0

end TantivyModel.Recorder
