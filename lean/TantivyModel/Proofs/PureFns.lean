import TantivyModel.Gen.PureFns
/-!
Theorems about the pure functions that `extract/rs2lean.py` translates from the Rust source on
every run (`Gen/PureFns.lean`). A change of one of these functions in tantivy regenerates the
definition and these proofs are re-checked against it.
-/
namespace TantivyModel.PureFns
open TantivyModel.Gen.Fn

/-- sign bit / magnitude decomposition of a 64-bit word -/
theorem decomp (x : BitVec 64) : x = BitVec.cons x.msb (x.setWidth 63) :=
  (BitVec.cons_msb_setWidth x).symm

theorem highBit_eq : (9223372036854775808#64 : BitVec 64) = BitVec.cons true (0#63) := by decide

theorem toNat_cons63 (m : Bool) (l : BitVec 63) :
    (BitVec.cons m l).toNat = m.toNat * 9223372036854775808 + l.toNat := by
  rw [BitVec.toNat_cons']; simp [Nat.shiftLeft_eq]

theorem xor_high (m : Bool) (l : BitVec 63) :
    (BitVec.cons m l : BitVec 64) ^^^ 9223372036854775808#64 = BitVec.cons (!m) l := by
  rw [highBit_eq, BitVec.cons_xor_cons]; simp

theorem toNat_not63 (l : BitVec 63) : (~~~l).toNat = 9223372036854775807 - l.toNat := by
  simp [BitVec.toNat_not]

theorem toInt_cons63 (m : Bool) (l : BitVec 63) :
    (BitVec.cons m l : BitVec 64).toInt
      = if m then (l.toNat : Int) - 9223372036854775808 else (l.toNat : Int) := by
  have hl := l.isLt
  rw [BitVec.toInt_eq_toNat_cond, toNat_cons63]
  cases m <;> simp <;> omega

/-! ### i64 ↔ u64 -/

theorem u64_to_i64_i64_to_u64 (x : BitVec 64) : u64_to_i64 (i64_to_u64 x) = x := by
  simp [u64_to_i64, i64_to_u64, BitVec.xor_assoc]

theorem i64_to_u64_u64_to_i64 (x : BitVec 64) : i64_to_u64 (u64_to_i64 x) = x := by
  simp [u64_to_i64, i64_to_u64, BitVec.xor_assoc]

/-- `i64_to_u64` is an order isomorphism from the signed order onto the unsigned order -/
theorem i64_to_u64_strictMono (a b : BitVec 64) :
    BitVec.slt a b = BitVec.ult (i64_to_u64 a) (i64_to_u64 b) := by
  rw [decomp a, decomp b]
  generalize a.msb = ma; generalize a.setWidth 63 = la
  generalize b.msb = mb; generalize b.setWidth 63 = lb
  have hla := la.isLt; have hlb := lb.isLt
  simp only [i64_to_u64, xor_high, BitVec.slt_eq_decide, BitVec.ult_eq_decide, toInt_cons63,
    toNat_cons63]
  cases ma <;> cases mb <;> simp <;> omega

/-! ### f64 ↔ u64 on bit patterns -/

/-- IEEE-754 `totalOrder` restricted to its strict part, on bit patterns:
negative < positive; among positives by magnitude; among negatives by reversed magnitude. -/
def f64TotalLt (a b : BitVec 64) : Bool :=
  match a.msb, b.msb with
  | true, false => true
  | false, true => false
  | false, false => BitVec.ult (a.setWidth 63) (b.setWidth 63)
  | true, true => BitVec.ult (b.setWidth 63) (a.setWidth 63)

theorem u64_to_f64_f64_to_u64 (x : BitVec 64) : u64_to_f64 (f64_to_u64 x) = x := by
  rw [decomp x]
  generalize x.msb = m; generalize x.setWidth 63 = l
  cases m
  · have h1 : (BitVec.cons false l : BitVec 64).msb = false := by simp
    have h2 : ((BitVec.cons true l : BitVec 64) &&& 9223372036854775808#64) = 9223372036854775808#64 := by
      rw [highBit_eq, BitVec.cons_and_cons]; simp
    simp [f64_to_u64, u64_to_f64, h1, xor_high, h2]
  · have h1 : (BitVec.cons true l : BitVec 64).msb = true := by simp
    have h2 : ((BitVec.cons false (~~~l) : BitVec 64) &&& 9223372036854775808#64) = 0#64 := by
      rw [highBit_eq, BitVec.cons_and_cons]; simp
    simp [f64_to_u64, u64_to_f64, h1, h2]

/-- `f64_to_u64` maps the IEEE total order on bit patterns (hence the numeric order of all
non-NaN floats, with −0 < +0) strictly monotonically into the unsigned order -/
theorem f64_to_u64_strictMono (a b : BitVec 64) :
    f64TotalLt a b = BitVec.ult (f64_to_u64 a) (f64_to_u64 b) := by
  rw [decomp a, decomp b]
  generalize a.msb = ma; generalize a.setWidth 63 = la
  generalize b.msb = mb; generalize b.setWidth 63 = lb
  have hla := la.isLt; have hlb := lb.isLt
  cases ma <;> cases mb <;>
    simp [-BitVec.toNat_cons, f64TotalLt, f64_to_u64, xor_high, BitVec.ult_eq_decide, toNat_cons63,
      toNat_not63] <;>
    omega

/-! ### skip-entry byte codes -/

theorem bitwidth_roundtrip : ∀ (b : BitVec 8) (d : Bool),
    encode_bitwidth_pre b d = true → decode_bitwidth (encode_bitwidth b d) = (b, d) := by
  decide

/-- the decoded block-max term frequency never under-estimates the real one -/
theorem block_wand_tf_upper (tf : BitVec 32) :
    BitVec.ule tf (decode_block_wand_max_tf (encode_block_wand_max_tf tf)) = true := by
  unfold decode_block_wand_max_tf encode_block_wand_max_tf
  by_cases h : BitVec.ule tf (BitVec.setWidth 32 255#8) = true
  · simp only [h, if_true]
    have h' : tf.toNat ≤ 255 := by simpa [BitVec.ule_eq_decide] using h
    by_cases h2 : tf.toNat = 255
    · have : BitVec.setWidth 8 tf = 255#8 := by
        apply BitVec.eq_of_toNat_eq; simp [h2]
      simp [this, BitVec.ule_eq_decide]; omega
    · have hne : (BitVec.setWidth 8 tf == 255#8) = false := by
        apply Bool.eq_false_iff.mpr; intro hc
        have := congrArg BitVec.toNat (eq_of_beq hc)
        simp at this; omega
      simp only [hne]
      simp [BitVec.ule_eq_decide]; omega
  · simp only [h]
    simp [BitVec.ule_eq_decide]
    have := tf.isLt; omega

/-! ### bit width of a value (bitpacker) -/

theorem compute_num_bits_toNat (n : BitVec 64) :
    (compute_num_bits n).toNat
      = if 64 - (BitVec.clz n).toNat ≤ 56 then 64 - (BitVec.clz n).toNat else 64 := by
  have hc : (BitVec.clz n).toNat ≤ 64 := BitVec.clz_le
  have ha : (BitVec.setWidth 8 (64#32 - BitVec.setWidth 32 (BitVec.clz n))).toNat
      = 64 - (BitVec.clz n).toNat := by
    simp [BitVec.toNat_sub, BitVec.toNat_setWidth]; omega
  have h56 : (64#8 - 8#8 : BitVec 8).toNat = 56 := by decide
  unfold compute_num_bits
  simp only [BitVec.ule_eq_decide, ha, h56]
  by_cases h : 64 - (BitVec.clz n).toNat ≤ 56
  · simp [h, ha]
  · simp [h]

/-- every value fits in the number of bits computed for it -/
theorem compute_num_bits_fits (n : BitVec 64) : n.toNat < 2 ^ (compute_num_bits n).toNat := by
  rw [compute_num_bits_toNat]
  have h := BitVec.toNat_lt_two_pow_sub_clz (x := n)
  split
  · exact h
  · exact n.isLt

theorem compute_num_bits_le (n : BitVec 64) : (compute_num_bits n).toNat ≤ 64 := by
  rw [compute_num_bits_toNat]; split <;> omega

/-- up to 56 bits the width is minimal -/
theorem compute_num_bits_minimal (n : BitVec 64) (hn : n ≠ 0#64)
    (h : (compute_num_bits n).toNat ≤ 56) :
    2 ^ ((compute_num_bits n).toNat - 1) ≤ n.toNat := by
  have hc : (BitVec.clz n).toNat ≤ 64 := BitVec.clz_le
  have hlow := BitVec.two_pow_sub_clz_le_toNat_of_ne_zero (x := n) (by decide) hn
  rw [compute_num_bits_toNat] at h ⊢
  split at h
  · rename_i h1
    simp only [h1, if_true]
    have : 64 - (BitVec.clz n).toNat - 1 = 64 - 1 - (BitVec.clz n).toNat := by omega
    rw [this]; exact hlow
  · omega

end TantivyModel.PureFns
