import TantivyModel.Gen.PureFns
/-!
Theorems about the pure functions that `extract/rs2lean.py` translates from the Rust source on
every run (`Gen/PureFns.lean`). A change of one of these functions in tantivy regenerates the
definition and these proofs are re-checked against it.
-/
namespace TantivyModel.PureFns
open TantivyModel.Gen.Fn

/-- sign bit / magnitude decomposition of a 64-bit word -/
theorem decomp (x : BitVec 64) : x = BitVec.cons x.msb (x.setWidth 63) :=
  (BitVec.cons_msb_setWidth x).symm

theorem highBit_eq : (9223372036854775808#64 : BitVec 64) = BitVec.cons true (0#63) := by decide

theorem toNat_cons63 (m : Bool) (l : BitVec 63) :
    (BitVec.cons m l).toNat = m.toNat * 9223372036854775808 + l.toNat := by
  rw [BitVec.toNat_cons']; simp [Nat.shiftLeft_eq]

theorem xor_high (m : Bool) (l : BitVec 63) :
    (BitVec.cons m l : BitVec 64) ^^^ 9223372036854775808#64 = BitVec.cons (!m) l := by
  rw [highBit_eq, BitVec.cons_xor_cons]; simp

theorem toNat_not63 (l : BitVec 63) : (~~~l).toNat = 9223372036854775807 - l.toNat := by
  simp [BitVec.toNat_not]

theorem toInt_cons63 (m : Bool) (l : BitVec 63) :
    (BitVec.cons m l : BitVec 64).toInt
      = if m then (l.toNat : Int) - 9223372036854775808 else (l.toNat : Int) := by
  have hl := l.isLt
  rw [BitVec.toInt_eq_toNat_cond, toNat_cons63]
  cases m <;> simp <;> omega

/-! ### i64 ↔ u64 -/

theorem u64_to_i64_i64_to_u64 (x : BitVec 64) : u64_to_i64 (i64_to_u64 x) = x := by
  simp [u64_to_i64, i64_to_u64, BitVec.xor_assoc]

theorem i64_to_u64_u64_to_i64 (x : BitVec 64) : i64_to_u64 (u64_to_i64 x) = x := by
  simp [u64_to_i64, i64_to_u64, BitVec.xor_assoc]

/-- `i64_to_u64` is an order isomorphism from the signed order onto the unsigned order -/
theorem i64_to_u64_strictMono (a b : BitVec 64) :
    BitVec.slt a b = BitVec.ult (i64_to_u64 a) (i64_to_u64 b) := by
  rw [decomp a, decomp b]
  generalize a.msb = ma; generalize a.setWidth 63 = la
  generalize b.msb = mb; generalize b.setWidth 63 = lb
  have hla := la.isLt; have hlb := lb.isLt
  simp only [i64_to_u64, xor_high, BitVec.slt_eq_decide, BitVec.ult_eq_decide, toInt_cons63,
    toNat_cons63]
  cases ma <;> cases mb <;> simp <;> omega

/-! ### f64 ↔ u64 on bit patterns -/

/-- IEEE-754 `totalOrder` restricted to its strict part, on bit patterns:
negative < positive; among positives by magnitude; among negatives by reversed magnitude. -/
def f64TotalLt (a b : BitVec 64) : Bool :=
  match a.msb, b.msb with
  | true, false => true
  | false, true => false
  | false, false => BitVec.ult (a.setWidth 63) (b.setWidth 63)
  | true, true => BitVec.ult (b.setWidth 63) (a.setWidth 63)

theorem u64_to_f64_f64_to_u64 (x : BitVec 64) : u64_to_f64 (f64_to_u64 x) = x := by
  rw [decomp x]
  generalize x.msb = m; generalize x.setWidth 63 = l
  cases m
  · have h1 : (BitVec.cons false l : BitVec 64).msb = false := by simp
    have h2 : ((BitVec.cons true l : BitVec 64) &&& 9223372036854775808#64) = 9223372036854775808#64 := by
      rw [highBit_eq, BitVec.cons_and_cons]; simp
    simp [f64_to_u64, u64_to_f64, h1, xor_high, h2]
  · have h1 : (BitVec.cons true l : BitVec 64).msb = true := by simp
    have h2 : ((BitVec.cons false (~~~l) : BitVec 64) &&& 9223372036854775808#64) = 0#64 := by
      rw [highBit_eq, BitVec.cons_and_cons]; simp
    simp [f64_to_u64, u64_to_f64, h1, h2]

/-- `f64_to_u64` maps the IEEE total order on bit patterns (hence the numeric order of all
non-NaN floats, with −0 < +0) strictly monotonically into the unsigned order -/
theorem f64_to_u64_strictMono (a b : BitVec 64) :
    f64TotalLt a b = BitVec.ult (f64_to_u64 a) (f64_to_u64 b) := by
  rw [decomp a, decomp b]
  generalize a.msb = ma; generalize a.setWidth 63 = la
  generalize b.msb = mb; generalize b.setWidth 63 = lb
  have hla := la.isLt; have hlb := lb.isLt
  cases ma <;> cases mb <;>
    simp [-BitVec.toNat_cons, f64TotalLt, f64_to_u64, xor_high, BitVec.ult_eq_decide, toNat_cons63,
      toNat_not63] <;>
    omega

/-! ### skip-entry byte codes -/

theorem bitwidth_roundtrip : ∀ (b : BitVec 8) (d : Bool),
    encode_bitwidth_pre b d = true → decode_bitwidth (encode_bitwidth b d) = (b, d) := by
  decide

/-- the decoded block-max term frequency never under-estimates the real one -/
theorem block_wand_tf_upper (tf : BitVec 32) :
    BitVec.ule tf (decode_block_wand_max_tf (encode_block_wand_max_tf tf)) = true := by
  unfold decode_block_wand_max_tf encode_block_wand_max_tf
  by_cases h : BitVec.ule tf (BitVec.setWidth 32 255#8) = true
  · simp only [h, if_true]
    have h' : tf.toNat ≤ 255 := by simpa [BitVec.ule_eq_decide] using h
    by_cases h2 : tf.toNat = 255
    · have : BitVec.setWidth 8 tf = 255#8 := by
        apply BitVec.eq_of_toNat_eq; simp [h2]
      simp [this, BitVec.ule_eq_decide]; omega
    · have hne : (BitVec.setWidth 8 tf == 255#8) = false := by
        apply Bool.eq_false_iff.mpr; intro hc
        have := congrArg BitVec.toNat (eq_of_beq hc)
        simp at this; omega
      simp only [hne]
      simp [BitVec.ule_eq_decide]; omega
  · simp only [h]
    simp [BitVec.ule_eq_decide]
    have := tf.isLt; omega

/-! ### bit width of a value (bitpacker) -/

theorem compute_num_bits_toNat (n : BitVec 64) :
    (compute_num_bits n).toNat
      = if 64 - (BitVec.clz n).toNat ≤ 56 then 64 - (BitVec.clz n).toNat else 64 := by
  have hc : (BitVec.clz n).toNat ≤ 64 := BitVec.clz_le
  have ha : (BitVec.setWidth 8 (64#32 - BitVec.setWidth 32 (BitVec.clz n))).toNat
      = 64 - (BitVec.clz n).toNat := by
    simp [BitVec.toNat_sub, BitVec.toNat_setWidth]; omega
  have h56 : (64#8 - 8#8 : BitVec 8).toNat = 56 := by decide
  unfold compute_num_bits
  simp only [BitVec.ule_eq_decide, ha, h56]
  by_cases h : 64 - (BitVec.clz n).toNat ≤ 56
  · simp [h, ha]
  · simp [h]

/-- every value fits in the number of bits computed for it -/
theorem compute_num_bits_fits (n : BitVec 64) : n.toNat < 2 ^ (compute_num_bits n).toNat := by
  rw [compute_num_bits_toNat]
  have h := BitVec.toNat_lt_two_pow_sub_clz (x := n)
  split
  · exact h
  · exact n.isLt

theorem compute_num_bits_le (n : BitVec 64) : (compute_num_bits n).toNat ≤ 64 := by
  rw [compute_num_bits_toNat]; split <;> omega

/-- up to 56 bits the width is minimal -/
theorem compute_num_bits_minimal (n : BitVec 64) (hn : n ≠ 0#64)
    (h : (compute_num_bits n).toNat ≤ 56) :
    2 ^ ((compute_num_bits n).toNat - 1) ≤ n.toNat := by
  have hc : (BitVec.clz n).toNat ≤ 64 := BitVec.clz_le
  have hlow := BitVec.two_pow_sub_clz_le_toNat_of_ne_zero (x := n) (by decide) hn
  rw [compute_num_bits_toNat] at h ⊢
  split at h
  · rename_i h1
    simp only [h1, if_true]
    have : 64 - (BitVec.clz n).toNat - 1 = 64 - 1 - (BitVec.clz n).toNat := by omega
    rw [this]; exact hlow
  · omega


/-! ### zig-zag (columnar writer: signed values in the in-memory column operations) -/

theorem msb_eq63 (n : BitVec 64) : n.msb = n.getLsbD 63 := by
  simp [BitVec.msb_eq_getLsbD_last]

theorem allOnes_bit (i : Nat) (hi : i < 64) : (BitVec.allOnes 64).getLsbD i = true := by
  rw [BitVec.getLsbD_allOnes]; simp [hi]

theorem sshift63 (n : BitVec 64) :
    BitVec.sshiftRight n 63 = if n.msb then BitVec.allOnes 64 else 0#64 := by
  apply BitVec.eq_of_getLsbD_eq
  intro i hi
  rw [BitVec.getLsbD_sshiftRight]
  have hL : (if 63 + i < 64 then n.getLsbD (63 + i) else n.msb) = n.msb := by
    split
    · have : 63 + i = 63 := by omega
      rw [this, msb_eq63]
    · rfl
  rw [hL]
  have hle : decide (64 ≤ i) = false := by simp; omega
  rw [hle]
  cases hm : n.msb
  · simp
  · simp only [if_true, allOnes_bit i hi]; rfl

theorem and_one (x : BitVec 64) : x &&& 1#64 = if x.getLsbD 0 then 1#64 else 0#64 := by
  apply BitVec.eq_of_getLsbD_eq
  intro i hi
  rw [BitVec.getLsbD_and, BitVec.getLsbD_one]
  by_cases h0 : i = 0
  · subst h0
    cases hx : x.getLsbD 0
    · simp
    · simp
  · cases hx : x.getLsbD 0
    · simp [h0]
    · simp [h0]

theorem neg_and_one (x : BitVec 64) :
    -(x &&& 1#64) = if x.getLsbD 0 then BitVec.allOnes 64 else 0#64 := by
  rw [and_one]
  cases x.getLsbD 0
  · decide
  · decide

theorem shl1_bit (n : BitVec 64) (i : Nat) :
    (n <<< 1).getLsbD (1 + i) = (decide (1 + i < 64) && n.getLsbD i) := by
  rw [BitVec.getLsbD_shiftLeft]
  have h1 : decide (1 + i < 1) = false := by simp
  have h2 : 1 + i - 1 = i := by omega
  rw [h1, h2]; simp

theorem shl1_bit0 (n : BitVec 64) : (n <<< 1).getLsbD 0 = false := by
  rw [BitVec.getLsbD_shiftLeft]; simp

theorem decode_encode_zig_zag (n : BitVec 64) : decode_zig_zag (encode_zig_zag n) = n := by
  unfold decode_zig_zag encode_zig_zag
  simp only [show (1#32).toNat = 1 from rfl, show (63#32).toNat = 63 from rfl]
  rw [neg_and_one, sshift63]
  cases hm : n.msb
  · simp only [Bool.false_eq_true, if_false, BitVec.xor_zero, shl1_bit0]
    apply BitVec.eq_of_getLsbD_eq
    intro i hi
    rw [BitVec.getLsbD_ushiftRight, shl1_bit]
    by_cases h63 : i = 63
    · subst h63
      rw [msb_eq63] at hm
      rw [hm]; simp
    · have : decide (1 + i < 64) = true := by simp; omega
      rw [this]; simp
  · have h0 : ((n <<< 1) ^^^ BitVec.allOnes 64).getLsbD 0 = true := by
      rw [BitVec.getLsbD_xor, shl1_bit0, allOnes_bit 0 (by decide)]; rfl
    simp only [if_true, h0]
    apply BitVec.eq_of_getLsbD_eq
    intro i hi
    rw [BitVec.getLsbD_xor, BitVec.getLsbD_ushiftRight, BitVec.getLsbD_xor, shl1_bit,
      allOnes_bit i hi]
    by_cases h63 : i = 63
    · subst h63
      rw [msb_eq63] at hm
      rw [hm, BitVec.getLsbD_allOnes]; simp
    · have h1 : decide (1 + i < 64) = true := by simp; omega
      rw [h1, allOnes_bit (1 + i) (by omega)]
      cases n.getLsbD i <;> rfl

theorem shr1_shl1_bit (u : BitVec 64) (i : Nat) (hi : i < 64) (h0 : i ≠ 0) :
    ((u >>> 1) <<< 1).getLsbD i = u.getLsbD i := by
  rw [BitVec.getLsbD_shiftLeft, BitVec.getLsbD_ushiftRight]
  have h1 : decide (i < 1) = false := by simp; omega
  have h2 : 1 + (i - 1) = i := by omega
  rw [h1, h2]; simp [hi]

theorem encode_decode_zig_zag (u : BitVec 64) : encode_zig_zag (decode_zig_zag u) = u := by
  unfold decode_zig_zag encode_zig_zag
  simp only [show (1#32).toNat = 1 from rfl, show (63#32).toNat = 63 from rfl]
  rw [neg_and_one, sshift63]
  have hshr : (u >>> 1).msb = false := by simp [BitVec.msb_ushiftRight]
  cases hb : u.getLsbD 0
  · simp only [Bool.false_eq_true, if_false, BitVec.xor_zero, hshr]
    apply BitVec.eq_of_getLsbD_eq
    intro i hi
    by_cases h0 : i = 0
    · subst h0; rw [shl1_bit0, hb]
    · exact shr1_shl1_bit u i hi h0
  · have hall : (BitVec.allOnes 64).msb = true := by decide
    have hm : ((u >>> 1) ^^^ BitVec.allOnes 64).msb = true := by
      rw [BitVec.msb_xor, hshr, hall]; rfl
    simp only [if_true, hm]
    apply BitVec.eq_of_getLsbD_eq
    intro i hi
    rw [BitVec.getLsbD_xor, allOnes_bit i hi]
    by_cases h0 : i = 0
    · subst h0; rw [shl1_bit0, hb]; rfl
    · rw [BitVec.getLsbD_shiftLeft, BitVec.getLsbD_xor, BitVec.getLsbD_ushiftRight]
      have h1 : decide (i < 1) = false := by simp; omega
      have h2 : 1 + (i - 1) = i := by omega
      rw [h1, h2, allOnes_bit (i - 1) (by omega)]
      cases u.getLsbD i <;> simp [hi]

/-! ### small helpers of the columnar crate and of the stacker arena -/

/-- `compute_mask n` keeps exactly the low `n` bits (n ≤ 8) -/
theorem compute_mask_getLsbD : ∀ (n : BitVec 8), BitVec.ule n 8#8 = true → ∀ i : Fin 8,
    (compute_mask n).getLsbD i.val = decide (i.val < n.toNat) := by
  decide

/-- `get_bit_at w n` reads bit `n` of the word -/
theorem get_bit_at_eq (w : BitVec 64) (n : BitVec 16) (h : n.toNat < 64) :
    get_bit_at w n = w.getLsbD n.toNat := by
  unfold get_bit_at
  have hsingle : ∀ i, (1#64 <<< n.toNat).getLsbD i = decide (i = n.toNat) := by
    intro i
    rw [BitVec.getLsbD_shiftLeft, BitVec.getLsbD_one]
    by_cases hi : i = n.toNat
    · subst hi; simp [h]
    · by_cases hlt : i < n.toNat
      · simp [hlt, hi]
      · have : ¬ (i - n.toNat = 0) := by omega
        simp [hi, this]
  cases hb : w.getLsbD n.toNat
  · have : w &&& (1#64 <<< n.toNat) = 0#64 := by
      apply BitVec.eq_of_getLsbD_eq
      intro i _
      rw [BitVec.getLsbD_and, hsingle]
      by_cases hi : i = n.toNat
      · subst hi; simp [hb]
      · simp [hi]
    simp [this]
  · have : w &&& (1#64 <<< n.toNat) ≠ 0#64 := by
      intro h0
      have := congrArg (fun v => BitVec.getLsbD v n.toNat) h0
      simp only [BitVec.getLsbD_and, hsingle, hb] at this
      simp at this
    simp [this]

/-- the arena block sizes are powers of two between 1 and 32 KiB, non-decreasing in the block
number and capped at 2^15 -/
theorem get_block_size_spec (b : BitVec 32) :
    (get_block_size b).toNat = 2 ^ (min b.toNat 15) := by
  unfold get_block_size
  by_cases h : BitVec.ule b 15#32 = true
  · have hb : b.toNat ≤ 15 := by simpa [BitVec.ule_eq_decide] using h
    simp only [h, if_true]
    have : min b.toNat 15 = b.toNat := Nat.min_eq_left hb
    rw [this]
    have hcases : b.toNat = 0 ∨ b.toNat = 1 ∨ b.toNat = 2 ∨ b.toNat = 3 ∨ b.toNat = 4 ∨ b.toNat = 5
        ∨ b.toNat = 6 ∨ b.toNat = 7 ∨ b.toNat = 8 ∨ b.toNat = 9 ∨ b.toNat = 10 ∨ b.toNat = 11
        ∨ b.toNat = 12 ∨ b.toNat = 13 ∨ b.toNat = 14 ∨ b.toNat = 15 := by omega
    rcases hcases with h|h|h|h|h|h|h|h|h|h|h|h|h|h|h|h <;> rw [h] <;> decide
  · have hb : ¬ b.toNat ≤ 15 := by simpa [BitVec.ule_eq_decide] using h
    have h' : BitVec.ule b 15#32 = false := by simpa using h
    simp only [h', Bool.false_eq_true, if_false]
    have : min b.toNat 15 = 15 := Nat.min_eq_right (by omega)
    rw [this]; decide

/-- the previous power of two: `p ≤ n < 2 p` with `p` a power of two (n > 0) -/
theorem compute_previous_power_of_two_spec (n : BitVec 64) (hn : n ≠ 0#64) :
    ∃ k, k < 64 ∧ (compute_previous_power_of_two n).toNat = 2 ^ k
      ∧ 2 ^ k ≤ n.toNat ∧ n.toNat < 2 ^ (k + 1) := by
  have hc : (BitVec.clz n).toNat < 64 := by
    have := (BitVec.clz_lt_iff_ne_zero (x := n)).mpr hn
    simpa [BitVec.lt_def] using this
  refine ⟨63 - (BitVec.clz n).toNat, by omega, ?_, ?_, ?_⟩
  · unfold compute_previous_power_of_two
    have h8 : (BitVec.setWidth 8 (63#32 - BitVec.setWidth 32 (BitVec.clz n))).toNat
        = 63 - (BitVec.clz n).toNat := by
      simp [BitVec.toNat_sub, BitVec.toNat_setWidth]; omega
    simp only [h8]
    rw [BitVec.toNat_shiftLeft]
    have hlt : 2 ^ (63 - (BitVec.clz n).toNat) < 2 ^ 64 :=
      Nat.pow_lt_pow_right (by decide) (by omega)
    simp [Nat.shiftLeft_eq, Nat.mod_eq_of_lt hlt]
  · have := BitVec.two_pow_sub_clz_le_toNat_of_ne_zero (x := n) (by decide) hn
    have e : 64 - 1 - (BitVec.clz n).toNat = 63 - (BitVec.clz n).toNat := by omega
    rw [e] at this; exact this
  · have := BitVec.toNat_lt_two_pow_sub_clz (x := n)
    have e : 63 - (BitVec.clz n).toNat + 1 = 64 - (BitVec.clz n).toNat := by omega
    rw [e]; exact this

end TantivyModel.PureFns
