import TantivyModel.Model.Faults
/-! Helper lemmas for C11: invariants of the fault model. -/
namespace TantivyModel.Faults

theorem run_cons (sy : Bool) (fx : Fixes) (cap : Nat) (F : Nat → Plan) (i : Nat) (s : St) (c : Call) (cs : List Call) :
    run sy fx cap F i s (c :: cs) =
      ((run sy fx cap F (i + 1) (call sy fx cap (F i) s c).1 cs).1,
       (call sy fx cap (F i) s c).2 :: (run sy fx cap F (i + 1) (call sy fx cap (F i) s c).1 cs).2) := rfl

/-- an invariant of single calls is an invariant of runs -/
theorem run_inv (P : St → Prop) (sy : Bool) (fx : Fixes) (cap : Nat)
    (hstep : ∀ f s c, P s → P (call sy fx cap f s c).1)
    (F : Nat → Plan) (i : Nat) (s : St) (cs : List Call) (h : P s) : P (run sy fx cap F i s cs).1 := by
  induction cs generalizing i s with
  | nil => exact h
  | cons c cs ih => rw [run_cons]; exact ih (i + 1) _ (hstep _ _ _ h)

/-! ### GC -/

theorem gcRun_meta (f : Plan) (s : St) (w : Writer) : (gcRun f s w).1.metaSegs = s.metaSegs := by
  unfold gcRun; split <;> try rfl
  split <;> try rfl
  split <;> rfl

theorem gcRun_writer (f : Plan) (s : St) (w : Writer) : (gcRun f s w).1.writer = s.writer := by
  unfold gcRun; split <;> try rfl
  split <;> try rfl
  split <;> rfl

theorem gcRun_lock (f : Plan) (s : St) (w : Writer) : (gcRun f s w).1.lockFile = s.lockFile := by
  unfold gcRun; split <;> try rfl
  split <;> try rfl
  split <;> rfl

theorem gcRun_searcher (f : Plan) (s : St) (w : Writer) : (gcRun f s w).1.searcher = s.searcher := by
  unfold gcRun; split <;> try rfl
  split <;> try rfl
  split <;> rfl

/-- GC never removes a file that the writer still references -/
theorem gcRun_keeps (f : Plan) (s : St) (w : Writer) (x : Nat)
    (hl : x ∈ living w) (hx : x ∈ s.files) : x ∈ (gcRun f s w).1.files := by
  unfold gcRun; split <;> try exact hx
  split <;> try exact hx
  split <;> try exact hx
  simp only [List.mem_filter]
  refine ⟨hx, ?_⟩
  simp [dead, hl]

/-- GC only removes: every file afterwards was there before -/
theorem gcRun_sub (f : Plan) (s : St) (w : Writer) (x : Nat) (hx : x ∈ (gcRun f s w).1.files) :
    x ∈ s.files := by
  unfold gcRun at hx
  split at hx <;> try exact hx
  split at hx <;> try exact hx
  split at hx <;> try exact hx
  exact (List.mem_filter.1 hx).1

/-- with failing deletes the GC changes nothing: the files stay, and stay managed -/
theorem gcRun_delete_fails (f : Plan) (s : St) (w : Writer) (hd : f .gcDelete = true) :
    (gcRun f s w).1 = s := by
  simp only [gcRun, hd, if_true]
  split <;> try rfl
  split <;> rfl

/-! ### every segment the index or the writer references has its files -/

def segsHaveFiles (segs : List Seg) (files : List Nat) : Prop := ∀ g ∈ segs, g.id ∈ files

/-- what `meta.json` denotes is mirrored by `active_index_meta`, or — only possible when the code
syncs again after the rename (`sy`) and that barrier failed — it is the committed register -/
def Mirrors (sy : Bool) (s : St) (w : Writer) : Prop :=
  w.active = s.metaSegs ∨ (sy = true ∧ ∀ g ∈ s.metaSegs, g ∈ w.committed)

/-- `J`: `meta.json` only references segments whose files exist; so do the writer's registers;
and a writer whose updater is alive keeps every segment of `meta.json` referenced -/
def J (sy : Bool) (s : St) : Prop :=
  segsHaveFiles s.metaSegs s.files ∧
  match s.writer with
  | none => True
  | some w => segsHaveFiles w.committed s.files ∧ segsHaveFiles w.uncommitted s.files ∧
      segsHaveFiles w.active s.files ∧ (w.killed = false → Mirrors sy s w)

theorem J_init (sy : Bool) : J sy init := by simp [J, init, segsHaveFiles]

theorem mirrors_refl (sy : Bool) (s : St) (w : Writer) (h : w.active = s.metaSegs) : Mirrors sy s w :=
  Or.inl h

theorem segsHaveFiles_cons {segs : List Seg} {files : List Nat} (x : Nat)
    (h : segsHaveFiles segs files) : segsHaveFiles segs (x :: files) :=
  fun g hg => List.mem_cons_of_mem _ (h g hg)

theorem mem_living_committed {w : Writer} {g : Seg} (h : g ∈ w.committed) : g.id ∈ living w := by
  simp only [living, ids, List.mem_append, List.mem_map]
  exact Or.inl (Or.inl ⟨g, h, rfl⟩)
theorem mem_living_uncommitted {w : Writer} {g : Seg} (h : g ∈ w.uncommitted) : g.id ∈ living w := by
  simp only [living, ids, List.mem_append, List.mem_map]
  exact Or.inl (Or.inr ⟨g, h, rfl⟩)
theorem mem_living_active {w : Writer} {g : Seg} (h : g ∈ w.active) : g.id ∈ living w := by
  simp only [living, ids, List.mem_append, List.mem_map]
  exact Or.inr ⟨g, h, rfl⟩

theorem mirrors_living {sy : Bool} {s : St} {w : Writer} (h : Mirrors sy s w) {g : Seg}
    (hg : g ∈ s.metaSegs) : g.id ∈ living w := by
  rcases h with h | ⟨_, h⟩
  · exact mem_living_active (by rw [h]; exact hg)
  · exact mem_living_committed (h g hg)

/-- GC run for writer `w` in a state whose writer slot holds `w` keeps `J` -/
theorem J_gcRun (sy : Bool) (f : Plan) (s : St) (w : Writer) (hw : s.writer = some w) (hj : J sy s)
    (hk : w.killed = false) : J sy (gcRun f s w).1 := by
  obtain ⟨hm, hrest⟩ := hj
  rw [hw] at hrest
  obtain ⟨hc, hu, ha, hact⟩ := hrest
  refine ⟨?_, ?_⟩
  · rw [gcRun_meta]
    intro g hg
    exact gcRun_keeps f s w _ (mirrors_living (hact hk) hg) (hm g hg)
  · rw [gcRun_writer, hw]
    refine ⟨?_, ?_, ?_, ?_⟩
    · intro g hg; exact gcRun_keeps f s w _ (mem_living_committed hg) (hc g hg)
    · intro g hg; exact gcRun_keeps f s w _ (mem_living_uncommitted hg) (hu g hg)
    · intro g hg; exact gcRun_keeps f s w _ (mem_living_active hg) (ha g hg)
    · intro h
      rcases hact h with h1 | ⟨h1, h2⟩
      · left; rw [gcRun_meta]; exact h1
      · right; refine ⟨h1, ?_⟩; rw [gcRun_meta]; exact h2

end TantivyModel.Faults
