import TantivyModel.Model.Bm25
/-!
Helper lemmas for C12: statistics are sums over any partition; `takeWhile` specification used
for the field-norm bracket; congruence lemmas for the abstract-arithmetic score.
-/
namespace TantivyModel.Bm25
open List

theorem sum_map_length_flatten (segs : List (List Doc)) :
    (segs.map fun seg => (seg.map List.length).sum).sum = (segs.flatten.map List.length).sum := by
  induction segs with
  | nil => rfl
  | cons s ss ih => simp [ih]

theorem statsOf_flatten (segs : List (List Doc)) : statsOf segs = statsOf [segs.flatten] := by
  simp [statsOf, sum_map_length_flatten, length_flatten]

theorem docFreqOf_flatten (segs : List (List Doc)) (t : Nat) :
    docFreqOf segs t = docFreqOf [segs.flatten] t := by
  simp [docFreqOf, countP_flatten]

theorem sum_map_perm {l₁ l₂ : List Doc} (h : l₁ ~ l₂) :
    (l₁.map List.length).sum = (l₂.map List.length).sum := by
  induction h with
  | nil => rfl
  | cons x _ ih => simp [ih]
  | swap x y l => simp; omega
  | trans _ _ ih₁ ih₂ => exact ih₁.trans ih₂

theorem statsOf_perm {segs₁ segs₂ : List (List Doc)} (h : segs₁.flatten ~ segs₂.flatten) :
    statsOf segs₁ = statsOf segs₂ := by
  rw [statsOf_flatten segs₁, statsOf_flatten segs₂]
  unfold statsOf
  simp only [map_cons, map_nil, sum_cons, sum_nil, Nat.add_zero]
  rw [h.length_eq, sum_map_perm h]

theorem docFreqOf_perm {segs₁ segs₂ : List (List Doc)} (h : segs₁.flatten ~ segs₂.flatten) (t : Nat) :
    docFreqOf segs₁ t = docFreqOf segs₂ t := by
  rw [docFreqOf_flatten segs₁, docFreqOf_flatten segs₂]
  simp [docFreqOf, h.countP_eq]

/-- specification of `takeWhile`: the prefix satisfies `p`, the next element (if any) does not -/
theorem takeWhile_spec (p : Nat → Bool) (l : List Nat) (d : Nat) :
    (∀ i, i < (l.takeWhile p).length → p (l.getD i d) = true) ∧
    ((l.takeWhile p).length < l.length → p (l.getD (l.takeWhile p).length d) = false) := by
  induction l with
  | nil => simp
  | cons x xs ih =>
    by_cases hx : p x = true
    · rw [takeWhile_cons_of_pos hx]
      constructor
      · intro i hi
        cases i with
        | zero => simpa using hx
        | succ j =>
          simp only [length_cons] at hi
          simpa using ih.1 j (by omega)
      · intro hlt
        simp only [length_cons] at hlt ⊢
        simpa using ih.2 (by omega)
    · rw [takeWhile_cons_of_neg hx]
      constructor
      · intro i hi; simp at hi
      · intro _; simpa using hx

end TantivyModel.Bm25
