import TantivyModel.Proofs.AggAlgebra
/-!
C14 helper lemmas for `finalize (collect docs) = evalAgg docs`: what `bump` and the fold of
segment collection put into a key map, and how the final stage reads it back.
-/
namespace TantivyModel.Agg

/-! ### generic folds -/

section foldg
variable {α β : Type} (op : α → α → α) (e : α)
  (hassoc : ∀ a b c, op (op a b) c = op a (op b c)) (hcomm : ∀ a b, op a b = op b a)
  (hunit : ∀ a, op e a = a)
include hassoc hcomm hunit

theorem foldl_g_init (g : β → α) (x : α) (l : List β) :
    l.foldl (fun acc b => op acc (g b)) x = op x (l.foldl (fun acc b => op acc (g b)) e) := by
  have h1 := List.foldl_map (f := g) (g := op) (l := l) (init := x)
  have h2 := List.foldl_map (f := g) (g := op) (l := l) (init := e)
  rw [← h1, ← h2]
  exact foldl_op_init op e hassoc hcomm hunit x _

theorem foldl_g_cons (g : β → α) (b : β) (l : List β) :
    (b :: l).foldl (fun acc b => op acc (g b)) e = op (g b) (l.foldl (fun acc b => op acc (g b)) e) := by
  simp only [List.foldl_cons]
  rw [foldl_g_init op e hassoc hcomm hunit, hunit]

theorem foldl_g_append (g : β → α) (a b : List β) :
    (a ++ b).foldl (fun acc x => op acc (g x)) e
      = op (a.foldl (fun acc x => op acc (g x)) e) (b.foldl (fun acc x => op acc (g x)) e) := by
  rw [List.foldl_append, foldl_g_init op e hassoc hcomm hunit]

end foldg

/-! ### dedup, hulls -/

theorem mem_dedup {x : Int} : ∀ {l : List Int}, x ∈ dedup l ↔ x ∈ l
  | [] => by simp [dedup]
  | y :: ys => by
    unfold dedup
    by_cases h : ys.contains y
    · simp only [h, if_true]
      rw [mem_dedup (l := ys)]
      constructor
      · exact fun hx => List.mem_cons_of_mem _ hx
      · intro hx
        rcases List.mem_cons.1 hx with rfl | hx
        · simpa using h
        · exact hx
    · simp only [h]
      simp only [List.mem_cons, mem_dedup (l := ys), Bool.false_eq_true, if_false]

theorem nodup_dedup : ∀ (l : List Int), (dedup l).Nodup
  | [] => by simp [dedup]
  | y :: ys => by
    unfold dedup
    by_cases h : ys.contains y
    · simp only [h, if_true]; exact nodup_dedup ys
    · simp only [h, Bool.false_eq_true, if_false]
      refine List.nodup_cons.2 ⟨?_, nodup_dedup ys⟩
      rw [mem_dedup]
      simpa using h

theorem termKeys_nodup (p : TermsP) (d : Doc) : (termKeys p d).Nodup := by
  unfold termKeys
  split
  · cases p.missing <;> simp
  · exact nodup_dedup _

theorem hullOfList_append (a b : List Int) :
    hullOfList (a ++ b) = hullMerge (hullOfList a) (hullOfList b) :=
  foldl_g_append hullMerge Option.none hullMerge_assoc hullMerge_comm hullMerge_none
    (fun k => some (k, k)) a b

/-! ### what `bump` builds -/

section bump
variable {V : Type}

theorem optMerge_none_right (f : V → V → V) (a : Option V) : optMerge f a Option.none = a := by
  cases a <;> rfl

theorem bump_get_aux (f : V → V → V) (v : V) (ks : List Int) (hnd : ks.Nodup)
    (m0 : KMap (Nat × V)) (k : Int) :
    (ks.foldl (fun m k' => KMap.merge (entryMerge f) m (KMap.single k' (1, v))) m0).get k
      = optMerge (entryMerge f) (m0.get k) (if ks.contains k then some (1, v) else Option.none) := by
  induction ks generalizing m0 with
  | nil => simp [optMerge_none_right]
  | cons k' rest ih =>
    obtain ⟨hnot, hrest⟩ := List.nodup_cons.1 hnd
    simp only [List.foldl_cons]
    rw [ih hrest]
    simp only [KMap.merge, KMap.single]
    by_cases hk : k = k'
    · subst hk
      simp [hnot, optMerge_none_right]
    · have h2 : (k == k') = false := by simpa using hk
      simp [List.contains_cons, hk, h2, optMerge_none_right]

theorem bump_get (f : V → V → V) (v : V) (ks : List Int) (hnd : ks.Nodup) (k : Int) :
    (bump f ks v).get k = if ks.contains k then some (1, v) else Option.none := by
  unfold bump
  rw [bump_get_aux f v ks hnd]
  simp [KMap.empty, optMerge]

theorem bump_hull_aux (f : V → V → V) (v : V) (ks : List Int) (m0 : KMap (Nat × V)) :
    (ks.foldl (fun m k' => KMap.merge (entryMerge f) m (KMap.single k' (1, v))) m0).hull
      = ks.foldl (fun h k => hullMerge h (some (k, k))) m0.hull := by
  induction ks generalizing m0 with
  | nil => rfl
  | cons k' rest ih =>
    simp only [List.foldl_cons]
    rw [ih]
    rfl

theorem bump_hull (f : V → V → V) (v : V) (ks : List Int) : (bump f ks v).hull = hullOfList ks := by
  unfold bump hullOfList
  rw [bump_hull_aux]
  rfl

end bump

/-! ### what segment collection builds -/

section coll
variable {M : Type} [AddOp M] [LawfulAddOp M]

theorem collect_cons (r : Req) (d : Doc) (ds : List Doc) :
    collect (M := M) r (d :: ds) = merge r (collectDoc r d) (collect r ds) :=
  foldl_g_cons (merge r) (empty r) (merge_assoc r) (merge_comm r) (empty_merge r) (collectDoc r) d ds

theorem collect_single (r : Req) (d : Doc) : collect (M := M) r [d] = collectDoc r d := by
  rw [collect_cons, collect_nil, merge_empty]

/-- bucket collection shared by terms / histogram / range: every document bumps its keys -/
def collectB (sub : Req) (keysOf : Doc → List Int) (docs : List Doc) : KMap (Nat × Inter M sub) :=
  docs.foldl (fun acc d => KMap.merge (entryMerge (merge sub)) acc
    (bump (merge sub) (keysOf d) (collectDoc sub d))) KMap.empty

theorem collectB_cons (sub : Req) (keysOf : Doc → List Int) (d : Doc) (ds : List Doc) :
    collectB (M := M) sub keysOf (d :: ds)
      = KMap.merge (entryMerge (merge sub)) (bump (merge sub) (keysOf d) (collectDoc sub d))
          (collectB sub keysOf ds) :=
  foldl_g_cons (KMap.merge (entryMerge (merge sub))) KMap.empty
    (KMap.merge_assoc _ (entryMerge_assoc _ (merge_assoc sub)))
    (KMap.merge_comm _ (entryMerge_comm _ (merge_comm sub)))
    (KMap.empty_merge _) _ d ds

/-- the key map after collecting `docs`: the hull of all keys; under key `k` the number of
documents having `k` and the collection of the sub-request over exactly these documents -/
theorem collectB_spec (sub : Req) (keysOf : Doc → List Int) (docs : List Doc)
    (hnd : ∀ d ∈ docs, (keysOf d).Nodup) :
    (collectB (M := M) sub keysOf docs).hull = hullOfList (docs.flatMap keysOf)
      ∧ ∀ k, (collectB (M := M) sub keysOf docs).get k
          = if (docs.filter (fun d => (keysOf d).contains k)).isEmpty then Option.none
            else some ((docs.filter (fun d => (keysOf d).contains k)).length,
                       collect sub (docs.filter (fun d => (keysOf d).contains k))) := by
  induction docs with
  | nil => exact ⟨rfl, fun k => rfl⟩
  | cons d ds ih =>
    obtain ⟨ihh, ihg⟩ := ih (fun x hx => hnd x (List.mem_cons_of_mem _ hx))
    have hd := hnd d (List.mem_cons_self)
    rw [collectB_cons]
    constructor
    · simp only [KMap.merge, List.flatMap_cons]
      rw [hullOfList_append, bump_hull, ihh]
    · intro k
      simp only [KMap.merge]
      rw [bump_get _ _ _ hd, ihg k]
      by_cases hc : (keysOf d).contains k
      · simp only [hc, if_true, List.filter_cons]
        by_cases he : (ds.filter (fun d => (keysOf d).contains k)).isEmpty
        · have : ds.filter (fun d => (keysOf d).contains k) = [] := by simpa using he
          simp only [this, List.isEmpty_nil, if_true, optMerge, List.isEmpty_cons, Bool.false_eq_true,
            if_false, List.length_cons, List.length_nil, Nat.zero_add]
          rw [collect_single]
        · simp only [he, Bool.false_eq_true, if_false, optMerge, entryMerge, List.isEmpty_cons,
            List.length_cons]
          rw [collect_cons, Nat.add_comm]
      · simp only [hc, Bool.false_eq_true, if_false, List.filter_cons, optMerge]

theorem collect_both (a b : Req) (docs : List Doc) :
    collect (M := M) (.both a b) docs = (collect a docs, collect b docs) := by
  induction docs with
  | nil => rfl
  | cons d ds ih =>
    rw [collect_cons, collect_cons, collect_cons, ih]
    rfl

theorem Acc.ofVals_append (a b : List Int) :
    (Acc.ofVals (a ++ b) : Acc M) = Acc.merge (Acc.ofVals a) (Acc.ofVals b) :=
  foldl_g_append Acc.merge Acc.empty Acc.merge_assoc Acc.merge_comm Acc.empty_merge Acc.single a b

theorem collect_metric (f : Field) (missing : Option Int) (docs : List Doc) :
    collect (M := M) (.metric f missing) docs = Acc.ofVals (docs.flatMap (metricVals f missing)) := by
  induction docs with
  | nil => rfl
  | cons d ds ih =>
    rw [collect_cons, ih, List.flatMap_cons, Acc.ofVals_append]
    rfl

theorem collect_filter (f : Field) (v : Int) (sub : Req) (docs : List Doc) :
    collect (M := M) (.filter f v sub) docs
      = ((docs.filter (filterMatch f v)).length, collect sub (docs.filter (filterMatch f v))) := by
  induction docs with
  | nil => rfl
  | cons d ds ih =>
    rw [collect_cons, ih]
    by_cases hm : filterMatch f v d
    · simp only [List.filter_cons, hm, if_true, List.length_cons]
      rw [collect_cons]
      show ((if filterMatch f v d then ((1 : Nat), collectDoc sub d) else (0, empty sub)).1 + _,
        merge sub (if filterMatch f v d then ((1 : Nat), collectDoc (M := M) sub d) else (0, empty sub)).2 _) = _
      simp only [hm, if_true, Nat.add_comm]
    · simp only [List.filter_cons, hm, Bool.false_eq_true, if_false]
      show ((if filterMatch f v d then ((1 : Nat), collectDoc sub d) else (0, empty sub)).1 + _,
        merge sub (if filterMatch f v d then ((1 : Nat), collectDoc (M := M) sub d) else (0, empty sub)).2 _) = _
      simp only [hm, Bool.false_eq_true, if_false, Nat.zero_add, empty_merge]

theorem collect_topHits (f addr : Field) (k : Nat) (desc : Bool) (docs : List Doc) :
    collect (M := M) (.topHits f addr k desc) docs = Hits.ofList (docs.flatMap (hitEntries f addr)) := by
  induction docs with
  | nil =>
    apply Hits.ext'
    show ([] : List HitE) = (isort (hitLe desc) []).take k
    simp [isort]
  | cons d ds ih =>
    rw [collect_cons, ih, List.flatMap_cons, Hits.ofList_append]
    rfl

theorem collect_hist (p : HistP) (sub : Req) (docs : List Doc) :
    collect (M := M) (.hist p sub) docs = collectB sub (histPoss p) docs := rfl

theorem collect_composite (srcs : List CompSrc) (size : Nat) (after : Option Int) (sub : Req)
    (docs : List Doc) :
    collect (M := M) (.composite srcs size after sub) docs = collectB sub (compKeys srcs) docs := rfl

theorem collect_range (f : Field) (cuts : List Int) (sub : Req) (docs : List Doc) :
    collect (M := M) (.range f cuts sub) docs = collectB sub (rangeIdxs f cuts) docs := rfl

theorem collect_terms (p : TermsP) (sub : Req) (docs : List Doc) :
    collect (M := M) (.terms p sub) docs = ⟨collectB sub (termKeys p) docs, 0, 0⟩ := by
  induction docs with
  | nil => rfl
  | cons d ds ih =>
    rw [collect_cons, ih, collectB_cons]
    rfl

end coll

/-! ### how the final stage reads the key map back -/

theorem filter_isEmpty_eq_not_any {α : Type} (P : α → Bool) (l : List α) :
    (l.filter P).isEmpty = !(l.any P) := by
  induction l with
  | nil => rfl
  | cons a l ih =>
    by_cases h : P a
    · simp [List.filter_cons, h]
    · simp [List.filter_cons, h, ih]

theorem filterMap_map_eq {E B : Type} (l : List Int) (g : Int → Option E) (h : Int × E → B)
    (q : Int → Bool) (b : Int → B)
    (H : ∀ k, (q k = true → ∃ e, g k = some e ∧ h (k, e) = b k) ∧ (q k = false → g k = Option.none)) :
    (l.filterMap (fun k => (g k).map (fun v => (k, v)))).map h = (l.filter q).map b := by
  induction l with
  | nil => rfl
  | cons k l ih =>
    cases hq : q k
    · have := (H k).2 hq
      simp [List.filterMap_cons, List.filter_cons, this, hq, ih]
    · obtain ⟨e, he, hb⟩ := (H k).1 hq
      simp [List.filterMap_cons, List.filter_cons, he, hq, ih, hb]

theorem filter_map_filter {B : Type} (l : List Int) (q : Int → Bool) (b : Int → B) (P : B → Bool)
    (H : ∀ k, q k = false → P (b k) = false) :
    ((l.filter q).map b).filter P = (l.map b).filter P := by
  induction l with
  | nil => rfl
  | cons k l ih =>
    cases hq : q k
    · simp [List.filter_cons, hq, H k hq, ih]
    · simp only [List.filter_cons, hq, if_true, List.map_cons]
      by_cases hp : P (b k) <;> simp [hp, ih]

/-- hypothesis of the direct-computation theorem: no document has two values in one bucket of a
histogram / range node of the request.  (The code counts such a document twice — recorded as
the known finding `C14:histogram-range-doc-count-counts-values`; the specification counts
documents.)  Terms keys are de-duplicated by the collector itself. -/
def DocOK : Req → Doc → Prop
  | .none, _ => True
  | .both a b, d => DocOK a d ∧ DocOK b d
  | .metric _ _, _ => True
  | .terms _ sub, d => DocOK sub d
  | .hist p sub, d => (histPoss p d).Nodup ∧ DocOK sub d
  | .range f cuts sub, d => (rangeIdxs f cuts d).Nodup ∧ DocOK sub d
  | .filter _ _ sub, d => DocOK sub d
  | .topHits _ _ _ _, _ => True
  | .composite srcs _ _ sub, d => (compKeys srcs d).Nodup ∧ DocOK sub d

section final
variable {M : Type} [AddOp M] [LawfulAddOp M]

/-- one reported bucket of a gap-filled list: model side = spec side -/
theorem bucket_eq (sub : Req) (keysOf : Doc → List Int) (docs : List Doc)
    (hnd : ∀ d ∈ docs, (keysOf d).Nodup)
    (ih : ∀ q : Doc → Bool, finalize sub (collect (M := M) sub (docs.filter q)) = evalAgg M sub (docs.filter q))
    (k : Int) :
    (match (collectB (M := M) sub keysOf docs).get k with
      | some e => (k, e.1, finalize sub e.2)
      | Option.none => (k, 0, finalize sub (empty sub)))
      = (k, (docs.filter (fun d => (keysOf d).contains k)).length,
          evalAgg M sub (docs.filter (fun d => (keysOf d).contains k))) := by
  rw [(collectB_spec sub keysOf docs hnd).2 k]
  by_cases he : (docs.filter (fun d => (keysOf d).contains k)).isEmpty
  · have h0 : docs.filter (fun d => (keysOf d).contains k) = [] := by simpa using he
    simp only [he, if_true]
    have := ih (fun d => (keysOf d).contains k)
    rw [h0, collect_nil] at this
    rw [h0, this]
    rfl
  · simp only [he, Bool.false_eq_true, if_false]
    rw [ih]

/-- the present entries in key order, finalised = the spec's buckets of the occurring keys -/
theorem entries_eq (sub : Req) (keysOf : Doc → List Int) (docs : List Doc)
    (hnd : ∀ d ∈ docs, (keysOf d).Nodup)
    (ih : ∀ q : Doc → Bool, finalize sub (collect (M := M) sub (docs.filter q)) = evalAgg M sub (docs.filter q)) :
    ((collectB (M := M) sub keysOf docs).entries.map fun e => (e.1, e.2.1, finalize sub e.2.2))
      = ((spanOf (hullOfList (docs.flatMap keysOf))).filter
            (fun k => docs.any (fun d => (keysOf d).contains k))).map
          (fun k => (k, (docs.filter (fun d => (keysOf d).contains k)).length,
            evalAgg M sub (docs.filter (fun d => (keysOf d).contains k)))) := by
  unfold KMap.entries
  rw [(collectB_spec sub keysOf docs hnd).1]
  apply filterMap_map_eq
  intro k
  have hspec := (collectB_spec (M := M) sub keysOf docs hnd).2 k
  have hany := filter_isEmpty_eq_not_any (fun d => (keysOf d).contains k) docs
  constructor
  · intro hq
    have he : (docs.filter (fun d => (keysOf d).contains k)).isEmpty = false := by rw [hany, hq]; rfl
    rw [he] at hspec
    simp only [Bool.false_eq_true, if_false] at hspec
    exact ⟨_, hspec, by simp only [ih]⟩
  · intro hq
    have he : (docs.filter (fun d => (keysOf d).contains k)).isEmpty = true := by rw [hany, hq]; rfl
    rw [he] at hspec
    simpa using hspec

theorem docOK_filter {r : Req} {docs : List Doc} (q : Doc → Bool)
    (h : ∀ d ∈ docs, DocOK r d) : ∀ d ∈ docs.filter q, DocOK r d :=
  fun d hd => h d (List.mem_filter.1 hd).1

/-- **the final result of collecting the matching documents is the direct computation** -/
theorem finalize_collect : ∀ (r : Req) (docs : List Doc), (∀ d ∈ docs, DocOK r d) →
    finalize r (collect (M := M) r docs) = evalAgg M r docs
  | .none, _, _ => rfl
  | .both a b, docs, h => by
    rw [collect_both]
    show (finalize a (collect a docs), finalize b (collect b docs)) = (evalAgg M a docs, evalAgg M b docs)
    rw [finalize_collect a docs (fun d hd => (h d hd).1), finalize_collect b docs (fun d hd => (h d hd).2)]
  | .metric f missing, docs, _ => by
    rw [collect_metric]; rfl
  | .filter f v sub, docs, h => by
    rw [collect_filter]
    show (_, finalize sub (collect sub (docs.filter (filterMatch f v)))) = (_, evalAgg M sub (docs.filter (filterMatch f v)))
    rw [finalize_collect sub _ (docOK_filter _ (fun d hd => h d hd))]
  | .range f cuts sub, docs, h => by
    rw [collect_range]
    show (intSpan 0 cuts.length).map _ = (intSpan 0 cuts.length).map _
    apply List.map_congr_left
    intro k _
    exact bucket_eq sub (rangeIdxs f cuts) docs (fun d hd => (h d hd).1)
      (fun q => finalize_collect sub _ (docOK_filter q (fun d hd => (h d hd).2))) k
  | .hist p sub, docs, h => by
    have hnd : ∀ d ∈ docs, (histPoss p d).Nodup := fun d hd => (h d hd).1
    have ih : ∀ q : Doc → Bool, finalize sub (collect (M := M) sub (docs.filter q)) = evalAgg M sub (docs.filter q) :=
      fun q => finalize_collect sub _ (docOK_filter q (fun d hd => (h d hd).2))
    rw [collect_hist]
    by_cases hm : p.minDocCount = 0
    · show (if p.minDocCount = 0 then _ else _) = (if p.minDocCount = 0 then _ else _)
      simp only [hm, if_true]
      rw [(collectB_spec sub (histPoss p) docs hnd).1]
      apply List.map_congr_left
      intro k _
      exact bucket_eq sub (histPoss p) docs hnd ih k
    · show (if p.minDocCount = 0 then _ else _) = (if p.minDocCount = 0 then _ else _)
      simp only [hm, if_false]
      rw [entries_eq sub (histPoss p) docs hnd ih]
      apply filter_map_filter
      intro k hk
      have he : (docs.filter (fun d => (histPoss p d).contains k)).isEmpty = true := by
        rw [filter_isEmpty_eq_not_any, hk]; rfl
      have h0 : docs.filter (fun d => (histPoss p d).contains k) = [] := by simpa using he
      simp only [h0, List.length_nil]
      simp; omega
  | .topHits f addr k desc, docs, _ => by
    rw [collect_topHits]; rfl
  | .composite srcs size after sub, docs, h => by
    have ih : ∀ q : Doc → Bool, finalize sub (collect (M := M) sub (docs.filter q)) = evalAgg M sub (docs.filter q) :=
      fun q => finalize_collect sub _ (docOK_filter q (fun d hd => (h d hd).2))
    rw [collect_composite]
    show compPage size after _ = compPage size after _
    rw [entries_eq sub (compKeys srcs) docs (fun d hd => (h d hd).1) ih]
  | .terms p sub, docs, h => by
    have ih : ∀ q : Doc → Bool, finalize sub (collect (M := M) sub (docs.filter q)) = evalAgg M sub (docs.filter q) :=
      fun q => finalize_collect sub _ (docOK_filter q (fun d hd => h d hd))
    rw [collect_terms]
    show termsFinal p _ 0 0 = termsFinal p _ 0 0
    rw [entries_eq sub (termKeys p) docs (fun d _ => termKeys_nodup p d) ih]

end final

end TantivyModel.Agg
