import TantivyModel.Proofs.BlockWandMain
/-!
The mirrored `block_wand_intersection` loop equals the exhaustive loop over the conjunction's
total score, for every callback whose thresholds never decrease, given `UB_max` and `UB_block`
(part of `WF`): a skipped window is dead by the block bounds, a filtered or pruned candidate is
dead by the leader's score plus the secondaries' block bounds, a candidate every secondary was
sought to is scored with the exact sum, and the early exits are taken only when nothing alive is
left.
-/
namespace TantivyModel.BlockWand
open List TantivyModel.Wand

/-! ### pointwise relations between lists -/

inductive Fa2 {β γ : Type} (r : β → γ → Prop) : List β → List γ → Prop
  | nil : Fa2 r [] []
  | cons {a b l₁ l₂} : r a b → Fa2 r l₁ l₂ → Fa2 r (a :: l₁) (b :: l₂)

theorem Fa2.imp {β γ : Type} {r s : β → γ → Prop} (h : ∀ a b, r a b → s a b) {l₁ : List β} {l₂ : List γ}
    (hr : Fa2 r l₁ l₂) : Fa2 s l₁ l₂ := by
  induction hr with
  | nil => exact .nil
  | cons hab _ ih => exact .cons (h _ _ hab) ih

theorem Fa2.refl {β : Type} {r : β → β → Prop} (l : List β) (h : ∀ a, a ∈ l → r a a) : Fa2 r l l := by
  induction l with
  | nil => exact .nil
  | cons a as ih => exact .cons (h a (by simp)) (ih fun b hb => h b (by simp [hb]))

theorem Fa2.map_right {β γ : Type} {r : β → γ → Prop} (f : β → γ) (l : List β) (h : ∀ a, a ∈ l → r a (f a)) :
    Fa2 r l (l.map f) := by
  induction l with
  | nil => exact .nil
  | cons a as ih => exact .cons (h a (by simp)) (ih fun b hb => h b (by simp [hb]))

theorem Fa2.trans {β : Type} {r s t : β → β → Prop} (h : ∀ a b c, r a b → s b c → t a c) {l₁ l₂ l₃ : List β}
    (h₁ : Fa2 r l₁ l₂) (h₂ : Fa2 s l₂ l₃) : Fa2 t l₁ l₃ := by
  induction h₁ generalizing l₃ with
  | nil => cases h₂; exact .nil
  | cons hab _ ih =>
    cases h₂ with
    | cons hbc hrest => exact .cons (h _ _ _ hab hbc) (ih hrest)

theorem Fa2.right_forall {β γ : Type} {r : β → γ → Prop} {P : γ → Prop} (h : ∀ a b, r a b → P b)
    {l₁ : List β} {l₂ : List γ} (hr : Fa2 r l₁ l₂) : ∀ b, b ∈ l₂ → P b := by
  induction hr with
  | nil => intro b hb; cases hb
  | cons hab _ ih =>
    intro b hb
    rcases mem_cons.mp hb with rfl | hb
    · exact h _ _ hab
    · exact ih b hb

/-! ### the total score of a conjunction -/

/-- total score of a document for the conjunction of the leader and the secondaries -/
def itot (l : S) (secs : List S) (d : Nat) : Nat := interTotal (l.rest :: posts secs) d

theorem itot_eq (l : S) (secs : List S) (d : Nat) :
    itot l secs d = if (containsDoc l.rest d && (posts secs).all (containsDoc · d)) = true
      then scoreIn l.rest d + tot secs d else 0 := by
  unfold itot interTotal tot
  rw [all_cons, unionTotal_cons]

theorem itot_le (l : S) (secs : List S) (d : Nat) : itot l secs d ≤ scoreIn l.rest d + tot secs d := by
  rw [itot_eq]; split
  · exact Nat.le_refl _
  · exact Nat.zero_le _

theorem itot_zero_of_leader {l : S} {secs : List S} {d : Nat} (h : containsDoc l.rest d = false) :
    itot l secs d = 0 := by
  rw [itot_eq, h]; simp

theorem itot_zero_of_sec {l : S} {secs : List S} {d : Nat} {x : S} (hx : x ∈ secs)
    (h : containsDoc x.rest d = false) : itot l secs d = 0 := by
  rw [itot_eq]
  have : (posts secs).all (containsDoc · d) = false := by
    rw [all_eq_false]
    exact ⟨x.rest, mem_map.mpr ⟨x, hx, rfl⟩, by simp [h]⟩
  rw [this]; simp

theorem containsDoc_false_iff (p : Postings) (d : Nat) : containsDoc p d = false ↔ ∀ x, x ∈ p → x.1 ≠ d := by
  unfold containsDoc
  rw [any_eq_false]
  constructor
  · intro h x hx; simpa using h x hx
  · intro h x hx; simpa using h x hx

theorem containsDoc_true_of_mem {p : Postings} {d : Nat} {x : Nat × Nat} (hx : x ∈ p) (hd : x.1 = d) :
    containsDoc p d = true := by
  unfold containsDoc
  rw [any_eq_true]
  exact ⟨x, hx, by simp [hd]⟩

/-- the documents `≥ lo` are the same, with the same scores, in `x'` as in `x` -/
def Agree (lo : Nat) (x x' : S) : Prop :=
  ∀ e, lo ≤ e → scoreIn x'.rest e = scoreIn x.rest e ∧ containsDoc x'.rest e = containsDoc x.rest e

theorem Agree.refl (lo : Nat) (x : S) : Agree lo x x := fun _ _ => ⟨rfl, rfl⟩

theorem Agree.mono {lo lo' : Nat} {x x' : S} (h : Agree lo x x') (hle : lo ≤ lo') : Agree lo' x x' :=
  fun e he => h e (by omega)

theorem Agree.trans {lo : Nat} {x y z : S} (h₁ : Agree lo x y) (h₂ : Agree lo y z) : Agree lo x z := by
  intro e he
  obtain ⟨a1, a2⟩ := h₁ e he
  obtain ⟨b1, b2⟩ := h₂ e he
  exact ⟨by rw [b1, a1], by rw [b2, a2]⟩

theorem agree_seek (x : S) (hasc : Asc x.rest) (t : Nat) : Agree t x (x.seek t) := by
  intro e he
  rw [seek_rest x hasc t]
  exact ⟨scoreIn_seekP_ge _ _ _ he, containsDoc_seekP_ge _ _ _ he⟩

theorem agree_seekBlock (lo : Nat) (x : S) (t : Nat) : Agree lo x (x.seekBlock t) := by
  intro e _
  rw [seekBlock_rest]; exact ⟨rfl, rfl⟩

theorem itot_agree {lo : Nat} (l : S) {secs secs' : List S} (h : Fa2 (Agree lo) secs secs') (e : Nat)
    (he : lo ≤ e) : itot l secs' e = itot l secs e := by
  have key : (posts secs').all (containsDoc · e) = (posts secs).all (containsDoc · e) ∧ tot secs' e = tot secs e := by
    induction h with
    | nil => exact ⟨rfl, rfl⟩
    | cons hab _ ih =>
      obtain ⟨h1, h2⟩ := hab e he
      simp only [posts, map_cons, all_cons] at ih ⊢
      rw [tot_cons, tot_cons, h1, h2, ih.1, ih.2]
      exact ⟨rfl, rfl⟩
  rw [itot_eq, itot_eq, key.1, key.2]

/-! ### well-formedness for the intersection driver -/

/-- `WF` plus the meaning of `has_remaining_docs`: when the blocks `0 .. k-1` hold the whole
posting list (`doc_freq ≤ 128·k`), every posting lies in one of them -/
structure WFI (s : S) : Prop where
  wf : WF s
  noRem : ∀ k, s.cost ≤ 128 * k → ∀ p, p ∈ s.rest → s.blockIdx p.1 < k

theorem seekBlock_cost (s : S) (t : Nat) : (s.seekBlock t).cost = s.cost := by
  unfold TS.seekBlock; dsimp only; split <;> rfl
theorem seek_cost (s : S) (t : Nat) : (s.seek t).cost = s.cost := by
  unfold TS.seek; split
  · rfl
  · split
    · rfl
    · exact seekBlock_cost s t

theorem WFI.seek {s : S} (h : WFI s) (t : Nat) : WFI (s.seek t) where
  wf := h.wf.seek t
  noRem k hk p hp := by
    rw [seek_cost] at hk
    rw [seek_rest s h.wf.asc] at hp
    have := h.noRem k hk p ((seekP_sublist _ _).subset hp)
    unfold TS.blockIdx at this ⊢
    rw [seek_blocks]; exact this

theorem WFI.seekBlock {s : S} (h : WFI s) (t : Nat) : WFI (s.seekBlock t) where
  wf := h.wf.seekBlock t
  noRem k hk p hp := by
    rw [seekBlock_cost] at hk
    rw [seekBlock_rest] at hp
    have := h.noRem k hk p hp
    unfold TS.blockIdx at this ⊢
    rw [seekBlock_blocks]; exact this

theorem loadBlock_rest (s : S) : s.loadBlock.rest = s.rest := by unfold TS.loadBlock; split <;> rfl
theorem loadBlock_maxScore (s : S) : s.loadBlock.maxScore = s.maxScore := by unfold TS.loadBlock; split <;> rfl

theorem WF.loadBlock {s : S} (h : WF s) : WF s.loadBlock :=
  h.of_rest_sublist (by rw [loadBlock_rest]; exact Sublist.refl _) (loadBlock_maxScore s)
    (by unfold TS.loadBlock; split <;> rfl) (by unfold TS.loadBlock; split <;> rfl)

/-! ### blocks -/

theorem getElem?_takeWhile_length {β : Type} (p : β → Bool) : ∀ (l : List β) (x : β),
    l[(l.takeWhile p).length]? = some x → p x = false
  | [], _, h => by simp at h
  | y :: ys, x, h => by
    by_cases hy : p y = true
    · rw [takeWhile_cons_of_pos hy] at h
      simp only [length_cons, getElem?_cons_succ] at h
      exact getElem?_takeWhile_length p ys x h
    · rw [takeWhile_cons_of_neg hy] at h
      simp only [length_nil, getElem?_cons_zero, Option.some.injEq] at h
      rw [← h]; simpa using hy

/-- with the skip reader on the block of `doc`, that block does not end before `doc` -/
theorem lastDoc_ge (x : S) (doc : Nat) (hskip : x.skip = x.blockIdx doc) (hd : doc ≤ T) : doc ≤ x.lastDocInBlock := by
  unfold TS.lastDocInBlock
  cases hb : x.blocks[x.skip]? with
  | none => exact hd
  | some b =>
    simp only
    rw [hskip] at hb
    unfold TS.blockIdx at hb
    have := getElem?_takeWhile_length _ _ _ hb
    simp only [decide_eq_false_iff_not] at this
    omega

theorem takeWhile_length_mono {β : Type} (p q : β → Bool) (h : ∀ x, p x = true → q x = true) :
    ∀ (l : List β), (l.takeWhile p).length ≤ (l.takeWhile q).length
  | [] => Nat.le_refl _
  | y :: ys => by
    by_cases hy : p y = true
    · rw [takeWhile_cons_of_pos hy, takeWhile_cons_of_pos (h y hy)]
      simp only [length_cons]
      exact Nat.succ_le_succ (takeWhile_length_mono p q h ys)
    · rw [takeWhile_cons_of_neg hy]; exact Nat.zero_le _

theorem blockIdx_mono (x : S) {d e : Nat} (h : d ≤ e) : x.blockIdx d ≤ x.blockIdx e := by
  unfold TS.blockIdx
  apply takeWhile_length_mono
  intro b hb
  simp only [decide_eq_true_eq] at hb ⊢
  omega

/-- a secondary whose skip reader sits on the block of `doc` and has no remaining documents has no
posting at or after `doc` -/
theorem no_posting_of_not_hasRemaining (x : S) (h : WFI x) (doc : Nat) (hskip : x.skip = x.blockIdx doc)
    (hrem : x.hasRemaining = false) : ∀ p, p ∈ x.rest → p.1 < doc := by
  intro p hp
  unfold TS.hasRemaining at hrem
  simp only [decide_eq_false_iff_not, Nat.not_lt] at hrem
  have h1 := h.noRem x.skip hrem p hp
  rcases Nat.lt_or_ge p.1 doc with hlt | hge
  · exact hlt
  · have := blockIdx_mono x hge
    omega

theorem foldl_min_spec (f : S → Nat) : ∀ (l : List S) (init : Nat),
    l.foldl (fun w x => min w (f x)) init ≤ init ∧ (∀ x, x ∈ l → l.foldl (fun w x => min w (f x)) init ≤ f x) ∧
      (∀ lb, lb ≤ init → (∀ x, x ∈ l → lb ≤ f x) → lb ≤ l.foldl (fun w x => min w (f x)) init)
  | [], init => ⟨Nat.le_refl _, fun _ h => absurd h (not_mem_nil), fun _ h _ => h⟩
  | y :: ys, init => by
    simp only [foldl_cons]
    obtain ⟨h1, h2, h3⟩ := foldl_min_spec f ys (min init (f y))
    refine ⟨by omega, ?_, ?_⟩
    · intro x hx
      rcases mem_cons.mp hx with rfl | hx
      · omega
      · exact h2 x hx
    · intro lb hlb hall
      exact h3 lb (by have := hall y (by simp); omega) fun x hx => hall x (by simp [hx])

/-! ### suffix sums -/

theorem suffixSums_snd (bs : List Nat) : (suffixSums bs).2 = bs.sum := by
  induction bs with
  | nil => rfl
  | cons b bs ih =>
    show Sc.add (suffixSums bs).2 b = _
    rw [sc_add, ih]; simp only [sum_cons]; omega

theorem suffixSums_cons (b : Nat) (bs : List Nat) :
    (suffixSums (b :: bs)).1 = bs.sum :: (suffixSums bs).1 := by
  show (suffixSums bs).2 :: (suffixSums bs).1 = _
  rw [suffixSums_snd]

theorem tot_le_of_bounds {d : Nat} {xs : List S} {bs : List Nat}
    (h : Fa2 (fun (x : S) (b : Nat) => scoreIn x.rest d ≤ b) xs bs) : tot xs d ≤ bs.sum := by
  induction h with
  | nil => simp [tot, posts, unionTotal]
  | cons hab _ ih => rw [tot_cons]; simp only [sum_cons]; omega

theorem foldl_add_eq_sum (bs : List Nat) : bs.foldl Sc.add Sc.zero = bs.sum := by
  have : ∀ (acc : Nat), bs.foldl Sc.add acc = acc + bs.sum := by
    induction bs with
    | nil => intro acc; simp
    | cons b bs ih => intro acc; simp only [foldl_cons, sum_cons, sc_add]; rw [ih]; omega
  rw [this, sc_zero]; omega

/-! ### one candidate against the secondaries -/

theorem doc_mem {s : S} (hne : s.rest ≠ []) : ∃ p, p ∈ s.rest ∧ p.1 = s.doc := by
  unfold TS.doc
  cases hr : s.rest with
  | nil => exact absurd hr hne
  | cons x xs => exact ⟨x, by simp, rfl⟩

theorem containsDoc_false_of_doc_gt {x : S} (hasc : Asc x.rest) {d : Nat} (h : d < x.doc) :
    containsDoc x.rest d = false := by
  rw [containsDoc_false_iff]
  intro p hp hpd
  have := doc_le_of_mem hasc hp
  omega

theorem containsDoc_true_of_doc {x : S} {d : Nat} (h : x.doc = d) (hd : d < T) : containsDoc x.rest d = true := by
  have hne : x.rest ≠ [] := by
    intro hnil
    have := doc_eq_T_of_nil hnil
    omega
  obtain ⟨p, hp, hpd⟩ := doc_mem hne
  exact containsDoc_true_of_mem hp (by omega)

/-- after `seek(d)` landed elsewhere, the scorer does not contain `d` -/
theorem containsDoc_false_of_seek_ne {x : S} (hasc : Asc x.rest) {d : Nat} (h : (x.seek d).doc ≠ d) :
    containsDoc x.rest d = false := by
  rw [← containsDoc_seekP_ge x.rest d d (Nat.le_refl _), ← seek_rest x hasc d, containsDoc_false_iff]
  intro p hp hpd
  have hasc' : Asc (x.seek d).rest := by rw [seek_rest x hasc d]; exact asc_seekP hasc d
  have hne : (x.seek d).rest ≠ [] := by intro hnil; rw [hnil] at hp; cases hp
  obtain ⟨q, hq, hqd⟩ := doc_mem hne
  have h1 : d ≤ q.1 := by
    rw [seek_rest x hasc d] at hq
    exact seekP_ge_of_asc hasc d q hq
  have h2 := doc_le_of_mem hasc' hp
  omega

theorem scoreIn_of_mem_asc : ∀ {p : Postings}, Asc p → ∀ {d sc : Nat}, (d, sc) ∈ p → scoreIn p d = sc
  | [], _, _, _, h => by cases h
  | y :: ys, hasc, d, sc, h => by
    unfold Asc at hasc
    rw [pairwise_cons] at hasc
    unfold scoreIn
    rcases mem_cons.mp h with rfl | h
    · simp
    · have hlt := hasc.1 (d, sc) h
      simp only at hlt
      rw [find?_cons_of_neg (by simp; omega)]
      exact scoreIn_of_mem_asc hasc.2 h

theorem checkCand_nil (d θ : Nat) (sufs : List Nat) (acc : Nat) : checkCand d θ [] sufs acc = ([], some acc) := rfl

theorem checkCand_cons (d θ : Nat) (x : S) (xs : List S) (sufs : List Nat) (acc : Nat) :
    checkCand d θ (x :: xs) sufs acc =
      if d < x.doc then (x :: xs, none)
      else if (x.seek d).doc ≠ d then (x.seek d :: xs, none)
      else if (!Sc.gt (Sc.add (Sc.add acc (x.seek d).score) (sufs.headD Sc.zero)) θ) = true then (x.seek d :: xs, none)
      else (x.seek d :: (checkCand d θ xs sufs.tail (Sc.add acc (x.seek d).score)).1,
        (checkCand d θ xs sufs.tail (Sc.add acc (x.seek d).score)).2) := rfl

theorem checkCand_cons_gt (d θ : Nat) (x : S) (xs : List S) (sufs : List Nat) (acc : Nat) (h1 : d < x.doc) :
    checkCand d θ (x :: xs) sufs acc = (x :: xs, none) := by
  rw [checkCand_cons, if_pos h1]

theorem checkCand_cons_ne (d θ : Nat) (x : S) (xs : List S) (sufs : List Nat) (acc : Nat) (h1 : ¬ d < x.doc)
    (h2 : (x.seek d).doc ≠ d) : checkCand d θ (x :: xs) sufs acc = (x.seek d :: xs, none) := by
  rw [checkCand_cons, if_neg h1, if_pos h2]

theorem checkCand_cons_pruned (d θ : Nat) (x : S) (xs : List S) (suf : Nat) (sufs : List Nat) (acc : Nat)
    (h1 : ¬ d < x.doc) (h2 : ¬ (x.seek d).doc ≠ d) (h3 : acc + (x.seek d).score + suf ≤ θ) :
    checkCand d θ (x :: xs) (suf :: sufs) acc = (x.seek d :: xs, none) := by
  rw [checkCand_cons, if_neg h1, if_neg h2]
  split
  · rfl
  · rename_i h
    exfalso; apply h
    simp only [headD_cons, sc_gt, sc_add, Bool.not_eq_true', decide_eq_false_iff_not]; omega

theorem checkCand_cons_go (d θ : Nat) (x : S) (xs : List S) (suf : Nat) (sufs : List Nat) (acc : Nat)
    (h1 : ¬ d < x.doc) (h2 : ¬ (x.seek d).doc ≠ d) (h3 : θ < acc + (x.seek d).score + suf) :
    checkCand d θ (x :: xs) (suf :: sufs) acc =
      (x.seek d :: (checkCand d θ xs sufs (acc + (x.seek d).score)).1,
        (checkCand d θ xs sufs (acc + (x.seek d).score)).2) := by
  rw [checkCand_cons, if_neg h1, if_neg h2]
  split
  · rename_i h
    exfalso
    simp only [headD_cons, sc_gt, sc_add, Bool.not_eq_true', decide_eq_false_iff_not] at h; omega
  · rfl

theorem checkCand_spec (d θ : Nat) (hdT : d < T) :
    ∀ (xs : List S) (bs : List Nat) (acc : Nat), (∀ x, x ∈ xs → WFI x) →
      Fa2 (fun (x : S) (b : Nat) => scoreIn x.rest d ≤ b) xs bs →
      Fa2 (fun x x' => WFI x' ∧ Agree d x x') xs (checkCand d θ xs (suffixSums bs).1 acc).1 ∧
      (∀ t, (checkCand d θ xs (suffixSums bs).1 acc).2 = some t →
          (∀ x, x ∈ xs → containsDoc x.rest d = true) ∧ t = acc + tot xs d) ∧
      ((checkCand d θ xs (suffixSums bs).1 acc).2 = none →
          (∃ x, x ∈ xs ∧ containsDoc x.rest d = false) ∨ acc + tot xs d ≤ θ)
  | [], _, acc, _, _ => by
    rw [checkCand_nil]
    refine ⟨.nil, ?_, ?_⟩
    · intro t h
      simp only [Option.some.injEq] at h
      exact ⟨fun x hx => absurd hx not_mem_nil, by rw [← h]; simp [tot, posts, unionTotal]⟩
    · intro h; cases h
  | x :: xs, _, acc, hwf, hb => by
    cases hb with
    | @cons _ b _ bs hxb hrest =>
      rw [suffixSums_cons]
      have hx := hwf x (by simp)
      have hxs : ∀ y, y ∈ xs → WFI y := fun y hy => hwf y (by simp [hy])
      have hrefl : Fa2 (fun x x' => WFI x' ∧ Agree d x x') xs xs := Fa2.refl xs fun y hy => ⟨hxs y hy, Agree.refl d y⟩
      have hseek : WFI (x.seek d) ∧ Agree d x (x.seek d) := ⟨hx.seek d, agree_seek x hx.wf.asc d⟩
      by_cases h1 : d < x.doc
      · rw [checkCand_cons_gt d θ x xs _ acc h1]
        refine ⟨.cons ⟨hx, Agree.refl d x⟩ hrefl, (by intro t h; cases h), fun _ => Or.inl ⟨x, by simp, ?_⟩⟩
        exact containsDoc_false_of_doc_gt hx.wf.asc h1
      · by_cases h2 : (x.seek d).doc ≠ d
        · rw [checkCand_cons_ne d θ x xs _ acc h1 h2]
          refine ⟨.cons hseek hrefl, (by intro t h; cases h), fun _ => Or.inl ⟨x, by simp, ?_⟩⟩
          exact containsDoc_false_of_seek_ne hx.wf.asc h2
        · have h2' : (x.seek d).doc = d := Decidable.not_not.mp h2
          have hsc : (x.seek d).score = scoreIn x.rest d := by
            rw [← scoreIn_at_doc (x.seek d) d h2' hdT, seek_rest x hx.wf.asc d, scoreIn_seekP_ge _ _ _ (Nat.le_refl _)]
          have hcx : containsDoc x.rest d = true := by
            rw [← containsDoc_seekP_ge x.rest d d (Nat.le_refl _), ← seek_rest x hx.wf.asc d]
            exact containsDoc_true_of_doc h2' hdT
          have hbound := tot_le_of_bounds hrest
          by_cases h3 : acc + (x.seek d).score + bs.sum ≤ θ
          · rw [checkCand_cons_pruned d θ x xs _ _ acc h1 h2 h3]
            refine ⟨.cons hseek hrefl, (by intro t h; cases h), fun _ => Or.inr ?_⟩
            rw [tot_cons, ← hsc]; omega
          · rw [checkCand_cons_go d θ x xs _ _ acc h1 h2 (by omega)]
            obtain ⟨ih1, ih2, ih3⟩ := checkCand_spec d θ hdT xs bs (acc + (x.seek d).score) hxs hrest
            refine ⟨.cons hseek ih1, ?_, ?_⟩
            · intro t ht
              obtain ⟨hall, hval⟩ := ih2 t ht
              refine ⟨?_, by rw [hval, tot_cons, hsc]; omega⟩
              intro y hy
              rcases mem_cons.mp hy with rfl | hy
              · exact hcx
              · exact hall y hy
            · intro hn
              rcases ih3 hn with ⟨y, hy, hyc⟩ | hle
              · exact Or.inl ⟨y, by simp [hy], hyc⟩
              · right; rw [tot_cons, ← hsc]; omega

/-! ### the exhaustive loop up to the next scored document -/

theorem exh_step {σ : Type} (cb : σ → Nat → Nat → σ × Nat) (total : Nat → Nat) (lo d X : Nat) (s : σ) (θ : Nat)
    (hlo : lo ≤ d) (hX : d < X) (hdead : ∀ e, lo ≤ e → e < d → total e ≤ θ) :
    exhRange cb total lo (X - lo) (s, θ)
      = exhRange cb total (d + 1) (X - (d + 1)) (if θ < total d then cb s d (total d) else (s, θ)) := by
  have hsplit : X - lo = (d - lo) + (1 + (X - (d + 1))) := by omega
  rw [hsplit, exhRange_split, exhRange_split]
  have hzero : exhRange cb total lo (d - lo) (s, θ) = (s, θ) :=
    exhRange_dead total (d - lo) lo s θ fun e h1 h2 => hdead e h1 (by omega)
  rw [hzero]
  have h1 : lo + (d - lo) = d := by omega
  rw [h1]
  have hone : exhRange cb total d 1 (s, θ) = (if θ < total d then cb s d (total d) else (s, θ)) := by
    simp [exhRange]
  rw [hone]

theorem Fa2.transfer {β γ : Type} {r : β → β → Prop} {P Q : β → γ → Prop} (h : ∀ x x' b, r x x' → P x b → Q x' b)
    {l l' : List β} {bs : List γ} (hr : Fa2 r l l') (hp : Fa2 P l bs) : Fa2 Q l' bs := by
  induction hr generalizing bs with
  | nil => cases hp; exact .nil
  | cons hab _ ih =>
    cases hp with
    | cons hpb hrest => exact .cons (h _ _ _ hab hpb) (ih hrest)

/-! ### pass 2 over the candidates of a window -/

section CandLoop
variable {σ : Type} (cb : σ → Nat → Nat → σ × Nat) (gmax : Nat) (sufs : List Nat)

theorem candLoop_nil (st : σ × Nat) (secs : List S) : candLoop cb gmax sufs [] st secs = (st, secs, false) := rfl

theorem candLoop_cons_none (d sc : Nat) (cs : List (Nat × Nat)) (s : σ) (θ : Nat) (secs : List S)
    (h : (checkCand d θ secs sufs sc).2 = none) :
    candLoop cb gmax sufs ((d, sc) :: cs) (s, θ) secs
      = candLoop cb gmax sufs cs (s, θ) (checkCand d θ secs sufs sc).1 := by
  rw [candLoop]; dsimp only; rw [h]

theorem candLoop_cons_low (d sc : Nat) (cs : List (Nat × Nat)) (s : σ) (θ : Nat) (secs : List S) (total : Nat)
    (h : (checkCand d θ secs sufs sc).2 = some total) (hle : total ≤ θ) :
    candLoop cb gmax sufs ((d, sc) :: cs) (s, θ) secs
      = candLoop cb gmax sufs cs (s, θ) (checkCand d θ secs sufs sc).1 := by
  rw [candLoop]; dsimp only; rw [h]; dsimp only
  split
  · rename_i hgt
    simp only [sc_gt, decide_eq_true_eq] at hgt; omega
  · rfl

theorem candLoop_cons_ret (d sc : Nat) (cs : List (Nat × Nat)) (s : σ) (θ : Nat) (secs : List S) (total : Nat)
    (h : (checkCand d θ secs sufs sc).2 = some total) (hgt : θ < total) (hret : gmax ≤ (cb s d total).2) :
    candLoop cb gmax sufs ((d, sc) :: cs) (s, θ) secs
      = (cb s d total, (checkCand d θ secs sufs sc).1, true) := by
  rw [candLoop]; dsimp only; rw [h]; dsimp only
  split
  · split
    · rfl
    · rename_i hn
      exfalso; apply hn
      simp only [sc_gt, Bool.not_eq_true', decide_eq_false_iff_not]; omega
  · rename_i hn
    exfalso; apply hn
    simp only [sc_gt, decide_eq_true_eq]; omega

theorem candLoop_cons_go (d sc : Nat) (cs : List (Nat × Nat)) (s : σ) (θ : Nat) (secs : List S) (total : Nat)
    (h : (checkCand d θ secs sufs sc).2 = some total) (hgt : θ < total) (hgo : (cb s d total).2 < gmax) :
    candLoop cb gmax sufs ((d, sc) :: cs) (s, θ) secs
      = candLoop cb gmax sufs cs (cb s d total) (checkCand d θ secs sufs sc).1 := by
  rw [candLoop]; dsimp only; rw [h]; dsimp only
  split
  · split
    · rename_i hn
      exfalso
      simp only [sc_gt, Bool.not_eq_true', decide_eq_false_iff_not] at hn; omega
    · rfl
  · rename_i hn
    exfalso; apply hn
    simp only [sc_gt, decide_eq_true_eq]; omega

end CandLoop

theorem posts_all_of_forall {secs : List S} {d : Nat} (h : ∀ x, x ∈ secs → containsDoc x.rest d = true) :
    (posts secs).all (containsDoc · d) = true := by
  rw [all_eq_true]
  intro p hp
  obtain ⟨x, hx, rfl⟩ := mem_map.mp hp
  exact h x hx

/-- pass 2 equals the exhaustive loop over the rest of the window (or, after the early return,
over everything that is left) -/
theorem candLoop_spec {σ : Type} {cb : σ → Nat → Nat → σ × Nat} {R : σ → Nat → Prop} (hcb : MonoCb cb R)
    (gmax : Nat) (l : S) (hl : WF l) (wEnd : Nat) (bs : List Nat) :
    ∀ (cs : List (Nat × Nat)) (lo : Nat) (s : σ) (θ : Nat) (secs : List S),
      R s θ → (∀ x, x ∈ secs → WFI x) →
      cs.Pairwise (fun a b => a.1 < b.1) →
      (∀ c, c ∈ cs → c ∈ l.rest ∧ lo ≤ c.1 ∧ c.1 ≤ wEnd) →
      (∀ e, lo ≤ e → e ≤ wEnd → e < T → (∀ c, c ∈ cs → c.1 ≠ e) → itot l secs e ≤ θ) →
      Fa2 (fun (x : S) (b : Nat) => ∀ e, lo ≤ e → e ≤ wEnd → scoreIn x.rest e ≤ b) secs bs →
      (∀ e, lo ≤ e → itot l secs e ≤ gmax) →
      ((candLoop cb gmax (suffixSums bs).1 cs (s, θ) secs).2.2 = true →
        (candLoop cb gmax (suffixSums bs).1 cs (s, θ) secs).1 = exhRange cb (itot l secs) lo (T - lo) (s, θ)) ∧
      ((candLoop cb gmax (suffixSums bs).1 cs (s, θ) secs).2.2 = false →
        (candLoop cb gmax (suffixSums bs).1 cs (s, θ) secs).1
            = exhRange cb (itot l secs) lo (min (wEnd + 1) T - lo) (s, θ) ∧
          R (candLoop cb gmax (suffixSums bs).1 cs (s, θ) secs).1.1 (candLoop cb gmax (suffixSums bs).1 cs (s, θ) secs).1.2 ∧
          Fa2 (fun x x' => WFI x' ∧ Agree (wEnd + 1) x x') secs (candLoop cb gmax (suffixSums bs).1 cs (s, θ) secs).2.1)
  | [], lo, s, θ, secs, hR, hwf, _, _, hdead, _, _ => by
    rw [candLoop_nil]
    refine ⟨(fun h => by cases h), fun _ => ⟨?_, hR, Fa2.refl secs fun x hx => ⟨hwf x hx, Agree.refl _ x⟩⟩⟩
    exact (exhRange_dead (itot l secs) _ lo s θ fun e h1 h2 =>
      hdead e h1 (by omega) (by omega) fun c hc => absurd hc not_mem_nil).symm
  | (d, sc) :: cs, lo, s, θ, secs, hR, hwf, hpw, hmem, hdead, hbnd, hgmax => by
    rw [pairwise_cons] at hpw
    obtain ⟨hdl, hdlo, hdw⟩ := hmem (d, sc) (by simp)
    simp only at hdlo hdw
    have hdT : d < T := hl.lt (d, sc) hdl
    have hlsc : scoreIn l.rest d = sc := scoreIn_of_mem_asc hl.asc hdl
    have hlc : containsDoc l.rest d = true := containsDoc_true_of_mem hdl rfl
    -- the candidate against the secondaries
    obtain ⟨hfa, hsome, hnone⟩ := checkCand_spec d θ hdT secs bs sc hwf
      (hbnd.imp fun x b h => h d hdlo hdw)
    generalize hr0 : checkCand d θ secs (suffixSums bs).1 sc = r0 at hfa hsome hnone
    have hwf' : ∀ x, x ∈ r0.1 → WFI x := hfa.right_forall fun _ _ h => h.1
    have hagree : Fa2 (Agree d) secs r0.1 := hfa.imp fun _ _ h => h.2
    have hitot' : ∀ e, d ≤ e → itot l r0.1 e = itot l secs e := fun e he => itot_agree l hagree e he
    -- everything before the candidate is dead
    have hbefore : ∀ e, lo ≤ e → e < d → itot l secs e ≤ θ := by
      intro e h1 h2
      refine hdead e h1 (by omega) (by omega) ?_
      intro c hc
      rcases mem_cons.mp hc with rfl | hc
      · simp only; omega
      · have := hpw.1 c hc; simp only at this; omega
    -- hypotheses of the recursive call, for any state not below the current threshold
    have hrec : ∀ (s' : σ) (θ' : Nat), R s' θ' → θ ≤ θ' →
        (∀ c, c ∈ cs → c ∈ l.rest ∧ d + 1 ≤ c.1 ∧ c.1 ≤ wEnd) ∧
        (∀ e, d + 1 ≤ e → e ≤ wEnd → e < T → (∀ c, c ∈ cs → c.1 ≠ e) → itot l r0.1 e ≤ θ') ∧
        Fa2 (fun (x : S) (b : Nat) => ∀ e, d + 1 ≤ e → e ≤ wEnd → scoreIn x.rest e ≤ b) r0.1 bs ∧
        (∀ e, d + 1 ≤ e → itot l r0.1 e ≤ gmax) := by
      intro s' θ' _ hθ
      refine ⟨?_, ?_, ?_, ?_⟩
      · intro c hc
        obtain ⟨h1, _, h3⟩ := hmem c (by simp [hc])
        have := hpw.1 c hc; simp only at this
        exact ⟨h1, by omega, h3⟩
      · intro e h1 h2 h3 h4
        rw [hitot' e (by omega)]
        have := hdead e (by omega) h2 h3 (by
          intro c hc
          rcases mem_cons.mp hc with rfl | hc
          · simp only; omega
          · exact h4 c hc)
        omega
      · refine Fa2.transfer ?_ hagree hbnd
        intro x x' b hxx hb e h1 h2
        rw [(hxx e (by omega)).1]; exact hb e (by omega) h2
      · intro e h1
        rw [hitot' e (by omega)]; exact hgmax e (by omega)
    -- the result of the recursive call, transported back
    have hfinish : ∀ (s' : σ) (θ' : Nat), R s' θ' → θ ≤ θ' →
        (if θ < itot l secs d then cb s d (itot l secs d) else (s, θ)) = (s', θ') →
        candLoop cb gmax (suffixSums bs).1 ((d, sc) :: cs) (s, θ) secs = candLoop cb gmax (suffixSums bs).1 cs (s', θ') r0.1 →
        ((candLoop cb gmax (suffixSums bs).1 ((d, sc) :: cs) (s, θ) secs).2.2 = true →
          (candLoop cb gmax (suffixSums bs).1 ((d, sc) :: cs) (s, θ) secs).1 = exhRange cb (itot l secs) lo (T - lo) (s, θ)) ∧
        ((candLoop cb gmax (suffixSums bs).1 ((d, sc) :: cs) (s, θ) secs).2.2 = false →
          (candLoop cb gmax (suffixSums bs).1 ((d, sc) :: cs) (s, θ) secs).1
              = exhRange cb (itot l secs) lo (min (wEnd + 1) T - lo) (s, θ) ∧
            R (candLoop cb gmax (suffixSums bs).1 ((d, sc) :: cs) (s, θ) secs).1.1 (candLoop cb gmax (suffixSums bs).1 ((d, sc) :: cs) (s, θ) secs).1.2 ∧
            Fa2 (fun x x' => WFI x' ∧ Agree (wEnd + 1) x x') secs (candLoop cb gmax (suffixSums bs).1 ((d, sc) :: cs) (s, θ) secs).2.1) := by
      intro s' θ' hR' hθ hst heq
      obtain ⟨g1, g2, g3, g4⟩ := hrec s' θ' hR' hθ
      obtain ⟨ih1, ih2⟩ := candLoop_spec hcb gmax l hl wEnd bs cs (d + 1) s' θ' r0.1 hR' hwf' hpw.2 g1 g2 g3 g4
      rw [heq]
      have hcongr : ∀ X, exhRange cb (itot l secs) (d + 1) (X - (d + 1)) (s', θ')
          = exhRange cb (itot l r0.1) (d + 1) (X - (d + 1)) (s', θ') := by
        intro X
        apply exhRange_congr hcb _ _ _ _ _ _ hR'
        intro e h1 _ _
        exact (hitot' e (by omega)).symm
      constructor
      · intro hret
        rw [ih1 hret, exh_step cb (itot l secs) lo d T s θ hdlo hdT hbefore, hst, hcongr]
      · intro hret
        obtain ⟨j1, j2, j3⟩ := ih2 hret
        refine ⟨?_, j2, ?_⟩
        · rw [j1, exh_step cb (itot l secs) lo d (min (wEnd + 1) T) s θ hdlo (by omega) hbefore, hst, hcongr]
        · refine Fa2.trans ?_ hfa j3
          intro a b c hab hbc
          exact ⟨hbc.1, (hab.2.mono (by omega)).trans hbc.2⟩
    -- case analysis on what the candidate check returned
    cases hopt : r0.2 with
    | none =>
      have hv : itot l secs d ≤ θ := by
        rcases hnone hopt with ⟨x, hx, hxc⟩ | hle
        · rw [itot_zero_of_sec hx hxc]; exact Nat.zero_le _
        · have := itot_le l secs d; omega
      refine hfinish s θ hR (Nat.le_refl _) (by rw [if_neg (by omega)]) ?_
      rw [candLoop_cons_none cb gmax _ d sc cs s θ secs (by rw [hr0]; exact hopt), hr0]
    | some total =>
      obtain ⟨hall, hval⟩ := hsome total hopt
      have hv : itot l secs d = total := by
        rw [itot_eq, hlc, posts_all_of_forall hall, hlsc, hval]; simp
      by_cases hgt : θ < total
      · obtain ⟨hR', hθ⟩ := hcb.step s θ d total hR hgt
        by_cases hret : gmax ≤ (cb s d total).2
        · -- early return: nothing alive is left
          rw [candLoop_cons_ret cb gmax _ d sc cs s θ secs total (by rw [hr0]; exact hopt) hgt hret]
          refine ⟨fun _ => ?_, fun h => by cases h⟩
          rw [exh_step cb (itot l secs) lo d T s θ hdlo hdT hbefore, hv, if_pos hgt]
          cases hcbv : cb s d total with
          | mk s' θ' =>
            rw [hcbv] at hret
            exact (exhRange_dead (itot l secs) _ (d + 1) s' θ' fun e h1 _ => by
              have := hgmax e (by omega); simp only at hret; omega).symm
        · cases hcbv : cb s d total with
          | mk s' θ' =>
            rw [hcbv] at hR' hθ hret
            refine hfinish s' θ' hR' hθ (by rw [hv, if_pos hgt, hcbv]) ?_
            rw [candLoop_cons_go cb gmax _ d sc cs s θ secs total (by rw [hr0]; exact hopt) hgt (by rw [hcbv]; simp only; omega),
              hr0, hcbv]
      · refine hfinish s θ hR (Nat.le_refl _) (by rw [hv, if_neg hgt]) ?_
        rw [candLoop_cons_low cb gmax _ d sc cs s θ secs total (by rw [hr0]; exact hopt) (by omega), hr0]

/-! ### the window loop -/

def wEndOf (l1 : S) (secs1 : List S) : Nat := secs1.foldl (fun w x => min w x.lastDocInBlock) l1.lastDocInBlock
def sumBOf (secs1 : List S) : Nat := (secs1.map TS.blockMax).foldl Sc.add Sc.zero
def candsOf (l2 : S) (doc wEnd θ sumB : Nat) : List (Nat × Nat) :=
  ((l2.rest.dropWhile (fun p => decide (p.1 < doc))).takeWhile (fun p => decide (p.1 ≤ wEnd))).filter
    (fun p => Sc.gtSub p.2 θ sumB)

theorem interLoop_succ {σ : Type} (cb : σ → Nat → Nat → σ × Nat) (gmax fuel : Nat) (s : σ) (θ : Nat) (l : S)
    (secs : List S) (doc : Nat) :
    interLoop cb gmax (fuel + 1) (s, θ) l secs doc =
      if T ≤ doc then .ok (s, θ)
      else if (!((l.seekBlock doc).skip == (l.seekBlock doc).blockIdx doc &&
          (secs.map (·.seekBlock doc)).all (fun x => x.skip == x.blockIdx doc))) = true then .skipAhead
      else if (secs.map (·.seekBlock doc)).any (fun x => !x.hasRemaining) = true then .ok (s, θ)
      else if (!Sc.gt (Sc.add (l.seekBlock doc).blockMax (sumBOf (secs.map (·.seekBlock doc)))) θ) = true then
        interLoop cb gmax fuel (s, θ) (l.seekBlock doc) (secs.map (·.seekBlock doc))
          (wEndOf (l.seekBlock doc) (secs.map (·.seekBlock doc)) + 1)
      else if (candsOf (l.seekBlock doc).loadBlock doc (wEndOf (l.seekBlock doc) (secs.map (·.seekBlock doc))) θ
          (sumBOf (secs.map (·.seekBlock doc)))).isEmpty = true then
        interLoop cb gmax fuel (s, θ) (l.seekBlock doc).loadBlock (secs.map (·.seekBlock doc))
          (wEndOf (l.seekBlock doc) (secs.map (·.seekBlock doc)) + 1)
      else if (candLoop cb gmax (suffixSums ((secs.map (·.seekBlock doc)).map TS.blockMax)).1
          (candsOf (l.seekBlock doc).loadBlock doc (wEndOf (l.seekBlock doc) (secs.map (·.seekBlock doc))) θ
            (sumBOf (secs.map (·.seekBlock doc)))) (s, θ) (secs.map (·.seekBlock doc))).2.2 = true then
        .ok (candLoop cb gmax (suffixSums ((secs.map (·.seekBlock doc)).map TS.blockMax)).1
          (candsOf (l.seekBlock doc).loadBlock doc (wEndOf (l.seekBlock doc) (secs.map (·.seekBlock doc))) θ
            (sumBOf (secs.map (·.seekBlock doc)))) (s, θ) (secs.map (·.seekBlock doc))).1
      else
        interLoop cb gmax fuel
          (candLoop cb gmax (suffixSums ((secs.map (·.seekBlock doc)).map TS.blockMax)).1
            (candsOf (l.seekBlock doc).loadBlock doc (wEndOf (l.seekBlock doc) (secs.map (·.seekBlock doc))) θ
              (sumBOf (secs.map (·.seekBlock doc)))) (s, θ) (secs.map (·.seekBlock doc))).1
          (l.seekBlock doc).loadBlock
          (candLoop cb gmax (suffixSums ((secs.map (·.seekBlock doc)).map TS.blockMax)).1
            (candsOf (l.seekBlock doc).loadBlock doc (wEndOf (l.seekBlock doc) (secs.map (·.seekBlock doc))) θ
              (sumBOf (secs.map (·.seekBlock doc)))) (s, θ) (secs.map (·.seekBlock doc))).2.1
          (wEndOf (l.seekBlock doc) (secs.map (·.seekBlock doc)) + 1) := rfl

theorem itot_leader_rest {l l' : S} (h : l'.rest = l.rest) (secs : List S) (e : Nat) : itot l' secs e = itot l secs e := by
  unfold itot; rw [h]

theorem exh_window {σ : Type} (cb : σ → Nat → Nat → σ × Nat) (total : Nat → Nat) (doc w : Nat) (st : σ × Nat)
    (hdoc : doc ≤ w + 1) (hT : doc ≤ T) :
    exhRange cb total doc (T - doc) st
      = exhRange cb total (w + 1) (T - (w + 1)) (exhRange cb total doc (min (w + 1) T - doc) st) := by
  rcases Nat.lt_or_ge T (w + 1) with h | h
  · have h0 : T - (w + 1) = 0 := by omega
    have hm : min (w + 1) T = T := by omega
    rw [h0, hm]; rfl
  · have hm : min (w + 1) T = w + 1 := by omega
    have hs : T - doc = (w + 1 - doc) + (T - (w + 1)) := by omega
    rw [hm, hs, exhRange_split]
    have : doc + (w + 1 - doc) = w + 1 := by omega
    rw [this]

theorem mem_dropWhile_of_not {β : Type} (q : β → Bool) : ∀ (L : List β) (p : β), p ∈ L → q p = false → p ∈ L.dropWhile q
  | [], _, h, _ => by cases h
  | y :: ys, p, h, hq => by
    by_cases hy : q y = true
    · rw [dropWhile_cons_of_pos hy]
      rcases mem_cons.mp h with rfl | h
      · rw [hq] at hy; cases hy
      · exact mem_dropWhile_of_not q ys p h hq
    · rw [dropWhile_cons_of_neg hy]; exact h

theorem mem_takeWhile_of_asc (hi : Nat) (q : Nat × Nat → Bool) (hq : ∀ x, x.1 ≤ hi → q x = true) :
    ∀ (L : Postings), Asc L → ∀ p, p ∈ L → p.1 ≤ hi → p ∈ L.takeWhile q
  | [], _, _, h, _ => by cases h
  | y :: ys, hasc, p, h, hp => by
    unfold Asc at hasc
    rw [pairwise_cons] at hasc
    have hy : q y = true := by
      apply hq
      rcases mem_cons.mp h with rfl | h
      · exact hp
      · have := hasc.1 p h; omega
    rw [takeWhile_cons_of_pos hy]
    rcases mem_cons.mp h with rfl | h
    · simp
    · exact mem_cons_of_mem _ (mem_takeWhile_of_asc hi q hq ys hasc.2 p h hp)

/-- what `candsOf` contains -/
theorem candsOf_spec (l2 : S) (hasc : Asc l2.rest) (doc wEnd θ sumB : Nat) :
    (candsOf l2 doc wEnd θ sumB).Pairwise (fun a b => a.1 < b.1) ∧
    (∀ c, c ∈ candsOf l2 doc wEnd θ sumB → c ∈ l2.rest ∧ doc ≤ c.1 ∧ c.1 ≤ wEnd) ∧
    (∀ p, p ∈ l2.rest → doc ≤ p.1 → p.1 ≤ wEnd → p ∉ candsOf l2 doc wEnd θ sumB → p.2 + sumB ≤ θ) := by
  unfold candsOf
  have hsub : (((l2.rest.dropWhile (fun p => decide (p.1 < doc))).takeWhile (fun p => decide (p.1 ≤ wEnd))).filter
      (fun p => Sc.gtSub p.2 θ sumB)).Sublist l2.rest :=
    (filter_sublist.trans (takeWhile_sublist _)).trans (dropWhile_sublist _)
  have hasc' : Asc (l2.rest.dropWhile (fun p => decide (p.1 < doc))) := Pairwise.sublist (dropWhile_sublist _) hasc
  refine ⟨Pairwise.sublist hsub hasc, ?_, ?_⟩
  · intro c hc
    refine ⟨hsub.subset hc, ?_, ?_⟩
    · have h1 := (mem_filter.mp hc).1
      have h2 : c ∈ l2.rest.dropWhile (fun p => decide (p.1 < doc)) := (takeWhile_sublist _).subset h1
      -- every element of the dropWhile result is ≥ doc: its head fails the predicate and the list ascends
      cases hdw : l2.rest.dropWhile (fun p => decide (p.1 < doc)) with
      | nil => rw [hdw] at h2; cases h2
      | cons y ys =>
        have hy := dropWhile_first_fails _ _ y ys hdw
        simp only [decide_eq_false_iff_not, Nat.not_lt] at hy
        rw [hdw] at h2 hasc'
        unfold Asc at hasc'
        rw [pairwise_cons] at hasc'
        rcases mem_cons.mp h2 with rfl | h2
        · exact hy
        · have := hasc'.1 c h2; omega
    · have h1 := (mem_filter.mp hc).1
      have := takeWhile_all _ _ c h1
      simpa using this
  · intro p hp h1 h2 hnot
    have hd : p ∈ l2.rest.dropWhile (fun p => decide (p.1 < doc)) :=
      mem_dropWhile_of_not _ _ p hp (by simp only [decide_eq_false_iff_not]; omega)
    have ht := mem_takeWhile_of_asc wEnd (fun p => decide (p.1 ≤ wEnd)) (fun x hx => by simpa using hx) _ hasc' p hd h2
    have hf : Sc.gtSub p.2 θ sumB = false := by
      cases hg : Sc.gtSub p.2 θ sumB with
      | false => rfl
      | true => exact absurd (mem_filter.mpr ⟨ht, hg⟩) hnot
    have : decide (θ < p.2 + sumB) = false := hf
    simp only [decide_eq_false_iff_not] at this
    omega

/-- a document is dead when the leader's posting on it (if any) cannot reach the threshold with
the secondaries at their bounds -/
theorem doc_dead (l : S) (hl : WF l) (secs1 : List S) (e θ sumB : Nat) (hsum : tot secs1 e ≤ sumB)
    (hlead : ∀ p, p ∈ l.rest → p.1 = e → p.2 + sumB ≤ θ) : itot l secs1 e ≤ θ := by
  cases hc : containsDoc l.rest e with
  | false => rw [itot_zero_of_leader hc]; exact Nat.zero_le _
  | true =>
    unfold containsDoc at hc
    rw [any_eq_true] at hc
    obtain ⟨p, hp, hpe⟩ := hc
    have hpe' : p.1 = e := by simpa using hpe
    have hs : scoreIn l.rest e = p.2 := by
      have : p = (e, p.2) := by rw [← hpe']
      rw [this] at hp
      exact scoreIn_of_mem_asc hl.asc hp
    have := itot_le l secs1 e
    have := hlead p hp hpe'
    omega

theorem window_range {doc w e : Nat} (hw : doc ≤ w) (hT : doc < T) (h2 : e < doc + (min (w + 1) T - doc)) :
    e ≤ w ∧ e < T := by
  have h1 := Nat.min_le_left (w + 1) T
  have h3 := Nat.min_le_right (w + 1) T
  generalize min (w + 1) T = m at h1 h2 h3
  generalize T = t at h2 h3 hT
  omega

theorem wEndOf_spec (l1 : S) (secs1 : List S) :
    wEndOf l1 secs1 ≤ l1.lastDocInBlock ∧ (∀ x, x ∈ secs1 → wEndOf l1 secs1 ≤ x.lastDocInBlock) ∧
      (∀ lb, lb ≤ l1.lastDocInBlock → (∀ x, x ∈ secs1 → lb ≤ x.lastDocInBlock) → lb ≤ wEndOf l1 secs1) :=
  foldl_min_spec TS.lastDocInBlock secs1 l1.lastDocInBlock

theorem interLoop_spec {σ : Type} {cb : σ → Nat → Nat → σ × Nat} {R : σ → Nat → Prop} (hcb : MonoCb cb R)
    (gmax : Nat) :
    ∀ (fuel : Nat) (s : σ) (θ : Nat) (l : S) (secs : List S) (doc : Nat) (out : σ × Nat),
      R s θ → WF l → (∀ x, x ∈ secs → WFI x) → (∀ e, doc ≤ e → itot l secs e ≤ gmax) →
      interLoop cb gmax fuel (s, θ) l secs doc = .ok out →
      out = exhRange cb (itot l secs) doc (T - doc) (s, θ)
  | 0, _, _, _, _, _, _, _, _, _, _, h => by simp [interLoop] at h
  | fuel + 1, s, θ, l, secs, doc, out, hR, hl, hwf, hgmax, h => by
    rw [interLoop_succ] at h
    split at h
    · -- doc ≥ TERMINATED
      rename_i hT
      simp only [Outcome.ok.injEq] at h
      have : T - doc = 0 := by omega
      rw [this, ← h]; rfl
    rename_i hT
    have hdT : doc < T := by omega
    split at h
    · cases h
    rename_i hskip
    -- the state after the shallow seeks
    have hl1 : WF (l.seekBlock doc) := hl.seekBlock doc
    have hl1r : (l.seekBlock doc).rest = l.rest := seekBlock_rest l doc
    have hwf1 : ∀ x, x ∈ secs.map (·.seekBlock doc) → WFI x := by
      intro x hx
      obtain ⟨y, hy, rfl⟩ := mem_map.mp hx
      exact (hwf y hy).seekBlock doc
    have hag1 : Fa2 (Agree 0) secs (secs.map (·.seekBlock doc)) :=
      Fa2.map_right _ secs fun x _ => agree_seekBlock 0 x doc
    have htot1 : ∀ e, itot l (secs.map (·.seekBlock doc)) e = itot l secs e :=
      fun e => itot_agree l hag1 e (Nat.zero_le _)
    clear hag1
    generalize secs.map (·.seekBlock doc) = secs1 at h hskip hwf1 htot1
    generalize l.seekBlock doc = l1 at h hskip hl1 hl1r
    have hfun : itot l secs1 = itot l secs := funext htot1
    -- skip readers are on the block of `doc`
    simp only [Bool.not_eq_true', Bool.not_eq_false, Bool.and_eq_true, beq_iff_eq, all_eq_true] at hskip
    obtain ⟨hsk1, hsks⟩ := hskip
    split at h
    · -- a secondary has no documents left
      rename_i hrem
      simp only [Outcome.ok.injEq] at h
      rw [any_eq_true] at hrem
      obtain ⟨x, hx, hxr⟩ := hrem
      have hxr' : x.hasRemaining = false := by simpa using hxr
      have hno := no_posting_of_not_hasRemaining x (hwf1 x hx) doc (hsks x hx) hxr'
      rw [← h]
      refine (exhRange_dead (itot l secs) _ doc s θ fun e h1 _ => ?_).symm
      rw [← htot1 e, itot_zero_of_sec hx]
      · exact Nat.zero_le _
      · rw [containsDoc_false_iff]
        intro p hp hpe
        have := hno p hp; omega
    -- the window and its bounds
    obtain ⟨hw1, hw2, hw3⟩ := wEndOf_spec l1 secs1
    have hwdoc : doc ≤ wEndOf l1 secs1 :=
      hw3 doc (lastDoc_ge l1 doc hsk1 (by omega)) fun x hx => lastDoc_ge x doc (hsks x hx) (by omega)
    have hsumB : sumBOf secs1 = (secs1.map TS.blockMax).sum := foldl_add_eq_sum _
    have hbnds : Fa2 (fun (x : S) (b : Nat) => ∀ e, doc ≤ e → e ≤ wEndOf l1 secs1 → scoreIn x.rest e ≤ b) secs1
        (secs1.map TS.blockMax) :=
      Fa2.map_right _ secs1 fun x hx e h1 h2 =>
        scoreIn_le_blockMax x (hwf1 x hx).wf doc (hsks x hx) e h1 (Nat.le_trans h2 (hw2 x hx))
    have hsum : ∀ e, doc ≤ e → e ≤ wEndOf l1 secs1 → tot secs1 e ≤ sumBOf secs1 := by
      intro e h1 h2
      rw [hsumB]
      exact tot_le_of_bounds (hbnds.imp fun x b hb => hb e h1 h2)
    have hlbm : ∀ p, p ∈ l.rest → doc ≤ p.1 → p.1 ≤ wEndOf l1 secs1 → p.2 ≤ l1.blockMax := by
      intro p hp h1 h2
      rw [← hl1r] at hp
      exact blockMax_bound l1 hl1 doc hsk1 p hp h1 (Nat.le_trans h2 hw1)
    -- how a finished window continues
    have hcont : ∀ (l' : S) (secs' : List S) (s' : σ) (θ' : Nat), l'.rest = l.rest → WF l' →
        Fa2 (fun x x' => WFI x' ∧ Agree (wEndOf l1 secs1 + 1) x x') secs1 secs' → R s' θ' →
        (s', θ') = exhRange cb (itot l secs1) doc (min (wEndOf l1 secs1 + 1) T - doc) (s, θ) →
        interLoop cb gmax fuel (s', θ') l' secs' (wEndOf l1 secs1 + 1) = .ok out →
        out = exhRange cb (itot l secs) doc (T - doc) (s, θ) := by
      intro l' secs' s' θ' hr' hl' hfa hR' hwin hrun
      have hag : Fa2 (Agree (wEndOf l1 secs1 + 1)) secs1 secs' := hfa.imp fun _ _ h => h.2
      have heq : ∀ e, wEndOf l1 secs1 + 1 ≤ e → itot l' secs' e = itot l secs e := by
        intro e he
        rw [itot_leader_rest hr', itot_agree l hag e he, htot1]
      have ih := interLoop_spec hcb gmax fuel s' θ' l' secs' (wEndOf l1 secs1 + 1) out hR' hl'
        (hfa.right_forall fun _ _ h => h.1) (fun e he => by rw [heq e he]; exact hgmax e (by omega)) hrun
      rw [exh_window cb (itot l secs) doc (wEndOf l1 secs1) (s, θ) (by omega) (by omega), ← hfun, ← hwin, ih]
      apply exhRange_congr hcb _ _ _ _ _ _ hR'
      intro e h1 _ _
      rw [hfun]; exact heq e h1
    have hrefl : Fa2 (fun x x' => WFI x' ∧ Agree (wEndOf l1 secs1 + 1) x x') secs1 secs1 :=
      Fa2.refl secs1 fun x hx => ⟨hwf1 x hx, Agree.refl _ x⟩
    split at h
    · -- the whole window cannot beat the threshold
      rename_i hlow
      simp only [sc_gt, sc_add, Bool.not_eq_true', decide_eq_false_iff_not, Nat.not_lt] at hlow
      refine hcont l1 secs1 s θ hl1r hl1 hrefl hR ?_ h
      refine (exhRange_dead (itot l secs1) _ doc s θ fun e h1 h2 => ?_).symm
      have hwr := (window_range hwdoc hdT h2).1
      refine doc_dead l hl secs1 e θ (sumBOf secs1) (hsum e h1 hwr) ?_
      intro p hp hpe
      have := hlbm p hp (by rw [hpe]; exact h1) (by rw [hpe]; exact hwr)
      omega
    -- phase 2
    have hl2 : WF l1.loadBlock := hl1.loadBlock
    have hl2r : l1.loadBlock.rest = l.rest := by rw [loadBlock_rest, hl1r]
    obtain ⟨hc1, hc2, hc3⟩ := candsOf_spec l1.loadBlock hl2.asc doc (wEndOf l1 secs1) θ (sumBOf secs1)
    rw [hl2r] at hc2 hc3
    generalize candsOf l1.loadBlock doc (wEndOf l1 secs1) θ (sumBOf secs1) = cands at h hc1 hc2 hc3
    have hdeadC : ∀ e, doc ≤ e → e ≤ wEndOf l1 secs1 → e < T → (∀ c, c ∈ cands → c.1 ≠ e) → itot l secs1 e ≤ θ := by
      intro e h1 h2 _ hnc
      refine doc_dead l hl secs1 e θ (sumBOf secs1) (hsum e h1 h2) ?_
      intro p hp hpe
      exact hc3 p hp (by omega) (by omega) fun hin => hnc p hin hpe
    split at h
    · -- no candidate survives the filter
      rename_i hemp
      have hnil : cands = [] := by simpa using hemp
      refine hcont l1.loadBlock secs1 s θ hl2r hl2 hrefl hR ?_ h
      refine (exhRange_dead (itot l secs1) _ doc s θ fun e h1 h2 => ?_).symm
      exact hdeadC e h1 (window_range hwdoc hdT h2).1 (window_range hwdoc hdT h2).2 fun c hc => by rw [hnil] at hc; cases hc
    obtain ⟨hs1, hs2⟩ := candLoop_spec hcb gmax l hl (wEndOf l1 secs1) (secs1.map TS.blockMax) cands doc s θ secs1
      hR hwf1 hc1 hc2 hdeadC hbnds (fun e he => by rw [htot1]; exact hgmax e he)
    split at h
    · -- early return inside the window
      rename_i hret
      simp only [Outcome.ok.injEq] at h
      rw [← h, hs1 hret, hfun]
    · rename_i hnret
      have hnret' : (candLoop cb gmax (suffixSums (secs1.map TS.blockMax)).1 cands (s, θ) secs1).2.2 = false := by
        cases hb : (candLoop cb gmax (suffixSums (secs1.map TS.blockMax)).1 cands (s, θ) secs1).2.2 with
        | false => rfl
        | true => exact absurd hb hnret
      obtain ⟨j1, j2, j3⟩ := hs2 hnret'
      exact hcont l1.loadBlock _ _ _ hl2r hl2 j3 j2 j1 h

/-! ### block_wand_intersection -/

theorem insertByCost_perm (x : S) (l : List S) : insertByCost x l ~ x :: l := by
  induction l with
  | nil => simp [insertByCost]
  | cons y ys ih =>
    unfold insertByCost
    split
    · exact Perm.refl _
    · exact (Perm.cons y ih).trans (Perm.swap x y ys)

theorem sortByCost_perm (l : List S) : sortByCost l ~ l := by
  induction l with
  | nil => simp [sortByCost]
  | cons x xs ih =>
    have : sortByCost (x :: xs) = insertByCost x (sortByCost xs) := rfl
    rw [this]
    exact (insertByCost_perm x _).trans (Perm.cons x ih)

theorem interTotal_perm {a b : List S} (h : a ~ b) (d : Nat) :
    interTotal (posts a) d = interTotal (posts b) d := by
  unfold interTotal
  have hall : (posts a).all (containsDoc · d) = (posts b).all (containsDoc · d) := by
    rw [Bool.eq_iff_iff, all_eq_true, all_eq_true]
    have hp : posts a ~ posts b := h.map _
    exact ⟨fun hh p hp' => hh p (hp.mem_iff.mpr hp'), fun hh p hp' => hh p (hp.mem_iff.mp hp')⟩
  have htot : unionTotal (posts a) d = unionTotal (posts b) d := tot_perm h d
  rw [hall, htot]

theorem scoreIn_le_maxScore (l : S) (hl : WF l) (e : Nat) : scoreIn l.rest e ≤ l.maxScore := by
  have := tot_le_sum_max [l] (fun s hs p hp => by
    simp only [mem_cons, not_mem_nil, or_false] at hs; subst hs; exact hl.ubMax p hp) e
  rw [tot_cons] at this
  simpa [tot, posts, unionTotal] using this

/-- `block_wand_intersection` (mirrored): whenever the loop completes, it ended in the state of
the exhaustive loop over all documents with the conjunction's total score, for every callback
whose thresholds never decrease — given `UB_max` and `UB_block` for each scorer. -/
theorem blockWandInter_eq_exhaustive {σ : Type} {cb : σ → Nat → Nat → σ × Nat} {R : σ → Nat → Prop}
    (hcb : MonoCb cb R) (fuel : Nat) (s : σ) (θ : Nat) (hR : R s θ) (scorers : List S)
    (hwf : ∀ x, x ∈ scorers → WFI x) (out : σ × Nat)
    (h : blockWandInter cb fuel (s, θ) scorers = .ok out) :
    out = exhRange cb (interTotal (posts scorers)) 0 T (s, θ) := by
  unfold blockWandInter at h
  split at h
  · cases h
  · cases h
  · rename_i l secs _ hsort
    have hperm : l :: secs ~ scorers := by rw [← hsort]; exact sortByCost_perm scorers
    have hfun : interTotal (posts scorers) = itot l secs := by
      funext d
      rw [← interTotal_perm hperm d]; rfl
    have hl : WFI l := hwf l (hperm.subset (by simp))
    have hsecs : ∀ x, x ∈ secs → WFI x := fun x hx => hwf x (hperm.subset (by simp [hx]))
    have hgm : ∀ e, itot l secs e ≤ l.maxScore + (secs.map (·.maxScore)).sum := by
      intro e
      have h1 := itot_le l secs e
      have h2 := scoreIn_le_maxScore l hl.wf e
      have h3 : tot secs e ≤ (secs.map (·.maxScore)).sum := tot_le_sum_max secs (fun x hx => (hsecs x hx).wf.ubMax) e
      omega
    have hgeq : Sc.add l.maxScore (secs.foldl (fun a x => Sc.add a x.maxScore) Sc.zero)
        = l.maxScore + (secs.map (·.maxScore)).sum := by
      rw [sc_add]
      congr 1
      exact sumBy_eq (·.maxScore) secs
    rw [hfun]
    dsimp only at h
    rw [hgeq] at h
    split at h
    · -- nothing can beat the initial threshold
      rename_i hlow
      simp only [sc_gt, Bool.not_eq_true', decide_eq_false_iff_not, Nat.not_lt] at hlow
      simp only [Outcome.ok.injEq] at h
      rw [← h]
      exact (exhRange_dead (itot l secs) T 0 s θ fun e _ _ => by have := hgm e; omega).symm
    · have hdoc : l.doc ≤ T := by
        by_cases hr : l.rest = []
        · rw [doc_eq_T_of_nil hr]; exact Nat.le_refl _
        · exact Nat.le_of_lt (doc_lt_T hl.wf.lt hr)
      have := interLoop_spec hcb _ fuel s θ l secs l.doc out hR hl.wf hsecs (fun e _ => hgm e) h
      rw [this]
      have hsplit : T = l.doc + (T - l.doc) := by omega
      conv => rhs; rw [hsplit, exhRange_split]
      have hzero : exhRange cb (itot l secs) 0 l.doc (s, θ) = (s, θ) := by
        apply exhRange_dead
        intro e _ he
        rw [itot_zero_of_leader]
        · exact Nat.zero_le _
        · rw [containsDoc_false_iff]
          intro p hp hpe
          have := doc_le_of_mem hl.wf.asc hp
          omega
      rw [hzero]
      simp

end TantivyModel.BlockWand
