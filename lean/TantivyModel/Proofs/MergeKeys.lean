import TantivyModel.Proofs.Merge
/-! the term merger as a sorted union: order and membership (C04) -/
namespace TantivyModel.Merge

def KLt (a b : Key) : Prop := keyLt a b = true

theorem keyLt_trans : ∀ a b c : Key, keyLt a b = true → keyLt b c = true → keyLt a c = true
  | [], [], _, h, _ => by simp [keyLt] at h
  | [], _ :: _, [], _, h => by simp [keyLt] at h
  | [], _ :: _, _ :: _, _, _ => by simp [keyLt]
  | _ :: _, [], _, h, _ => by simp [keyLt] at h
  | _ :: _, _ :: _, [], _, h => by simp [keyLt] at h
  | x :: xs, y :: ys, z :: zs, h1, h2 => by
    simp only [keyLt] at h1 h2 ⊢
    by_cases hxy : x < y
    · by_cases hyz : y < z
      · have : x < z := by omega
        simp [this]
      · by_cases hzy : z < y
        · simp [hyz, hzy] at h2
        · have : y = z := by omega
          subst this; simp [hxy]
    · by_cases hyx : y < x
      · simp [hxy, hyx] at h1
      · have hxe : x = y := by omega
        subst hxe
        simp only [hxy, if_false] at h1
        by_cases hyz : x < z
        · simp [hyz]
        · by_cases hzy : z < x
          · simp [hyz, hzy] at h2
          · simp only [hyz, hzy, if_false] at h2 ⊢
            exact keyLt_trans xs ys zs h1 h2

theorem keyLt_irrefl : ∀ a : Key, keyLt a a = false
  | [] => rfl
  | x :: xs => by simp [keyLt, keyLt_irrefl xs]

theorem keyLt_tri : ∀ a b : Key, keyLt a b = true ∨ a = b ∨ keyLt b a = true
  | [], [] => Or.inr (Or.inl rfl)
  | [], _ :: _ => Or.inl (by simp [keyLt])
  | _ :: _, [] => Or.inr (Or.inr (by simp [keyLt]))
  | x :: xs, y :: ys => by
    by_cases hxy : x < y
    · left; simp [keyLt, hxy]
    · by_cases hyx : y < x
      · right; right; simp [keyLt, hyx]
      · have : x = y := by omega
        subst this
        rcases keyLt_tri xs ys with h | h | h
        · left; simp [keyLt, h]
        · right; left; rw [h]
        · right; right; simp [keyLt, h]

theorem insertKey_cons_lt (k y : Key) (ys : List Key) (h : keyLt k y = true) :
    insertKey k (y :: ys) = k :: y :: ys := by simp [insertKey, h]

theorem insertKey_cons_eq (k : Key) (ys : List Key) : insertKey k (k :: ys) = k :: ys := by
  simp [insertKey, keyLt_irrefl]

theorem insertKey_cons_gt (k y : Key) (ys : List Key) (h1 : keyLt k y = false) (h2 : k ≠ y) :
    insertKey k (y :: ys) = y :: insertKey k ys := by simp [insertKey, h1, h2]

theorem mem_insertKey (k x : Key) (l : List Key) : x ∈ insertKey k l ↔ x = k ∨ x ∈ l := by
  induction l with
  | nil => simp [insertKey]
  | cons y ys ih =>
    cases h1 : keyLt k y with
    | true => rw [insertKey_cons_lt k y ys h1]; simp
    | false =>
      by_cases h2 : k = y
      · subst h2
        rw [insertKey_cons_eq]
        simp only [List.mem_cons]
        constructor
        · intro h; exact Or.inr h
        · rintro (h | h)
          · exact Or.inl h
          · exact h
      · rw [insertKey_cons_gt k y ys h1 h2]
        simp only [List.mem_cons, ih]
        constructor
        · rintro (h | h | h)
          · exact Or.inr (Or.inl h)
          · exact Or.inl h
          · exact Or.inr (Or.inr h)
        · rintro (h | h | h)
          · exact Or.inr (Or.inl h)
          · exact Or.inl h
          · exact Or.inr (Or.inr h)

theorem insertKey_sorted (k : Key) (l : List Key) (h : l.Pairwise KLt) : (insertKey k l).Pairwise KLt := by
  induction l with
  | nil => simp [insertKey]
  | cons y ys ih =>
    rw [List.pairwise_cons] at h
    cases h1 : keyLt k y with
    | true =>
      rw [insertKey_cons_lt k y ys h1]
      rw [List.pairwise_cons, List.pairwise_cons]
      refine ⟨?_, h.1, h.2⟩
      intro x hx
      rw [List.mem_cons] at hx
      rcases hx with rfl | hx
      · exact h1
      · exact keyLt_trans k y x h1 (h.1 x hx)
    | false =>
      by_cases h2 : k = y
      · subst h2
        rw [insertKey_cons_eq, List.pairwise_cons]
        exact h
      · rw [insertKey_cons_gt k y ys h1 h2, List.pairwise_cons]
        have hyk : keyLt y k = true := by
          rcases keyLt_tri k y with h' | h' | h'
          · rw [h1] at h'; cases h'
          · exact absurd h' h2
          · exact h'
        refine ⟨?_, ih h.2⟩
        intro x hx
        rcases (mem_insertKey k x ys).1 hx with rfl | hx
        · exact hyk
        · exact h.1 x hx

theorem foldr_insertKey (ks acc : List Key) (h : acc.Pairwise KLt) :
    (ks.foldr insertKey acc).Pairwise KLt ∧ ∀ x, x ∈ ks.foldr insertKey acc ↔ x ∈ ks ∨ x ∈ acc := by
  induction ks with
  | nil => simp [h]
  | cons k rest ih =>
    simp only [List.foldr_cons]
    refine ⟨insertKey_sorted k _ ih.1, ?_⟩
    intro x
    rw [mem_insertKey, ih.2, List.mem_cons]
    constructor
    · rintro (h | h | h)
      · exact Or.inl (Or.inl h)
      · exact Or.inl (Or.inr h)
      · exact Or.inr h
    · rintro ((h | h) | h)
      · exact Or.inl h
      · exact Or.inr (Or.inl h)
      · exact Or.inr (Or.inr h)

theorem keyUnion_props (kss : List (List Key)) :
    (keyUnion kss).Pairwise KLt ∧ ∀ x, x ∈ keyUnion kss ↔ ∃ ks ∈ kss, x ∈ ks := by
  induction kss with
  | nil => simp [keyUnion]
  | cons ks rest ih =>
    have h := foldr_insertKey ks (keyUnion rest) ih.1
    simp only [keyUnion, List.foldr_cons] at h ⊢
    refine ⟨h.1, ?_⟩
    intro x
    rw [h.2]
    have ih2 := ih.2 x
    simp only [keyUnion] at ih2
    rw [ih2]
    constructor
    · rintro (h' | ⟨ks', hk, hx⟩)
      · exact ⟨ks, by simp, h'⟩
      · exact ⟨ks', by simp [hk], hx⟩
    · rintro ⟨ks', hk, hx⟩
      rw [List.mem_cons] at hk
      rcases hk with rfl | hk
      · exact Or.inl hx
      · exact Or.inr ⟨ks', hk, hx⟩

end TantivyModel.Merge
