import TantivyModel.Proofs.WriterRefine
/-!
Segment ids, lookups and the sources of a merge: generic facts.
-/
namespace TantivyModel.Writer
open TantivyModel.WriterSpec

variable {α : Type}

def segIds (reg : List (Seg α)) : List Nat := reg.map (·.id)

/-- every id of `ids` names a segment of `reg` -/
def present (ids : List Nat) (reg : List (Seg α)) : Prop := ∀ i ∈ ids, ∃ sg ∈ reg, sg.id = i

/-- the segments of `reg` a merge of `ids` replaces (register order) -/
def srcsOf (ids : List Nat) (reg : List (Seg α)) : List (Seg α) := reg.filter (fun sg => ids.contains sg.id)

theorem idsIn_iff (ids : List Nat) (reg : List (Seg α)) : idsIn ids reg = true ↔ present ids reg := by
  simp only [idsIn, present, List.all_eq_true, List.any_eq_true, beq_iff_eq]

theorem mem_segIds {reg : List (Seg α)} {sg : Seg α} (h : sg ∈ reg) : sg.id ∈ segIds reg :=
  List.mem_map.mpr ⟨sg, h, rfl⟩

theorem lookup_of_mem (reg : List (Seg α)) (hn : (segIds reg).Nodup) (sg : Seg α) (h : sg ∈ reg) :
    lookup reg sg.id = some sg := by
  induction reg with
  | nil => simp at h
  | cons a l ih =>
    simp only [segIds, List.map_cons, List.nodup_cons] at hn
    simp only [lookup, List.find?_cons]
    rcases List.mem_cons.mp h with rfl | hl
    · have : (sg.id == sg.id) = true := by simp
      rw [this]
    · have hne : (a.id == sg.id) = false := by
        simp only [beq_eq_false_iff_ne, ne_eq]
        intro he
        exact hn.1 (he ▸ mem_segIds hl)
      rw [hne]
      exact ih hn.2 hl

theorem filter_id_eq (reg : List (Seg α)) (hn : (segIds reg).Nodup) (sg : Seg α) (h : sg ∈ reg) :
    reg.filter (fun x => x.id == sg.id) = [sg] := by
  induction reg with
  | nil => simp at h
  | cons a l ih =>
    simp only [segIds, List.map_cons, List.nodup_cons] at hn
    rcases List.mem_cons.mp h with rfl | hl
    · have : l.filter (fun x => x.id == sg.id) = [] := by
        simp only [List.filter_eq_nil_iff, beq_iff_eq]
        intro x hx he
        exact hn.1 (he ▸ mem_segIds hx)
      simp [List.filter_cons, this]
    · have hne : a.id ≠ sg.id := by
        intro he
        exact hn.1 (he ▸ mem_segIds hl)
      simp [List.filter_cons, hne, ih hn.2 hl]

theorem filter_or_perm {β : Type} (p q : β → Bool) (l : List β) (hd : ∀ x ∈ l, ¬ (p x = true ∧ q x = true)) :
    List.Perm (l.filter (fun x => p x || q x)) (l.filter p ++ l.filter q) := by
  induction l with
  | nil => simp
  | cons a l ih =>
    have ih' := ih (fun x hx => hd x (by simp [hx]))
    have ha := hd a (by simp)
    cases hp : p a <;> cases hq : q a
    · simpa [List.filter_cons, hp, hq] using ih'
    · simp only [List.filter_cons, hp, hq, Bool.or_true, if_true, Bool.false_eq_true, if_false]
      exact (List.Perm.cons a ih').trans (List.perm_middle.symm)
    · simpa [List.filter_cons, hp, hq] using ih'
    · exact absurd ⟨hp, hq⟩ ha

/-- the sources in the order of `ids` are a permutation of the sources in register order -/
theorem filterMap_lookup_perm (ids : List Nat) (reg : List (Seg α)) (hi : ids.Nodup)
    (hr : (segIds reg).Nodup) (hp : present ids reg) :
    List.Perm (ids.filterMap (lookup reg)) (srcsOf ids reg) := by
  induction ids with
  | nil => simp [srcsOf]
  | cons i is ih =>
    obtain ⟨sg, hsg, rfl⟩ := hp i (by simp)
    simp only [List.nodup_cons] at hi
    have ih' := ih hi.2 (fun j hj => hp j (by simp [hj]))
    have hl := lookup_of_mem reg hr sg hsg
    simp only [List.filterMap_cons, hl]
    have hsplit : List.Perm (srcsOf (sg.id :: is) reg)
        (reg.filter (fun x => x.id == sg.id) ++ reg.filter (fun x => is.contains x.id)) := by
      have := filter_or_perm (fun x : Seg α => x.id == sg.id) (fun x => is.contains x.id) reg (by
        intro x _ ⟨h1, h2⟩
        simp only [beq_iff_eq] at h1
        rw [h1] at h2
        exact hi.1 (by simpa using h2))
      refine List.Perm.trans ?_ this
      simp only [srcsOf, List.contains_cons]
      apply List.Perm.of_eq
      apply List.filter_congr
      intro x _
      simp [eq_comm]
    rw [filter_id_eq reg hr sg hsg] at hsplit
    exact (List.Perm.cons sg ih').trans hsplit.symm

theorem srcsOf_pairs_sub (ids : List Nat) (reg : List (Seg α)) :
    ∀ p ∈ (srcsOf ids reg).flatMap segPairs, p ∈ reg.flatMap segPairs := by
  intro p hp
  obtain ⟨sg, hsg, hps⟩ := List.mem_flatMap.mp hp
  exact List.mem_flatMap.mpr ⟨sg, (List.mem_filter.mp hsg).1, hps⟩

/-- removing the sources and keeping the rest partitions the register -/
theorem replace_split (ids : List Nat) (reg : List (Seg α)) :
    List.Perm reg (srcsOf ids reg ++ reg.filter (fun sg => !ids.contains sg.id)) :=
  (List.filter_append_perm (fun (sg : Seg α) => ids.contains sg.id) reg).symm

theorem present_nonempty (ids : List Nat) (reg : List (Seg α)) (hne : ids ≠ []) (hp : present ids reg) :
    ∃ sg ∈ srcsOf ids reg, True := by
  cases ids with
  | nil => exact absurd rfl hne
  | cons i is =>
    obtain ⟨sg, hsg, he⟩ := hp i (by simp)
    exact ⟨sg, List.mem_filter.mpr ⟨hsg, by simp [he]⟩, trivial⟩

end TantivyModel.Writer
