import TantivyModel.Proofs.Merge
/-! the merged segment is again a well-formed merge source (closure under re-merging) -/
namespace TantivyModel.Merge

def docLt (a b : Posting) : Prop := a.doc < b.doc

theorem postingsOk_iff (n : Nat) (ps : List Posting) :
    postingsOk n ps = true ↔ ps.Pairwise docLt ∧ ∀ p ∈ ps, p.doc < n := by
  induction ps with
  | nil => simp [postingsOk]
  | cons p rest ih =>
    cases rest with
    | nil => simp [postingsOk]
    | cons q rest' =>
      simp only [postingsOk, Bool.and_eq_true, decide_eq_true_eq, ih, List.pairwise_cons]
      constructor
      · rintro ⟨hpq, ⟨hq, hrest⟩, hb⟩
        refine ⟨⟨?_, hq, hrest⟩, ?_⟩
        · intro x hx
          rw [List.mem_cons] at hx
          rcases hx with rfl | hx
          · exact hpq
          · exact Nat.lt_trans hpq (hq x hx)
        · intro x hx
          rw [List.mem_cons] at hx
          rcases hx with rfl | hx
          · exact Nat.lt_trans hpq (hb q (by simp))
          · exact hb x hx
      · rintro ⟨⟨hp, hq, hrest⟩, hb⟩
        exact ⟨hp q (by simp), ⟨hq, hrest⟩, fun x hx => hb x (List.mem_cons_of_mem _ hx)⟩

theorem rank_lt_of_lt_alive (al : List Bool) (d d' : Nat) (h : d < d') (ha : isAlive al d = true) :
    rank al d < rank al d' := by
  induction al generalizing d d' with
  | nil => simp [isAlive_nil] at ha
  | cons a as ih =>
    cases d' with
    | zero => omega
    | succ e' =>
      cases d with
      | zero =>
        rw [isAlive_cons_zero] at ha
        subst ha
        rw [rank_cons_succ]
        simp [rank]
        omega
      | succ e =>
        rw [isAlive_cons_succ] at ha
        rw [rank_cons_succ, rank_cons_succ]
        have := ih e e' (by omega) ha
        omega

theorem livePostings_pairwise (al : List Bool) (ps : List Posting) (h : ps.Pairwise docLt) :
    (livePostings al ps).Pairwise docLt := by
  unfold livePostings
  apply List.Pairwise.filterMap _ _ h
  intro a a' haa b hb b' hb'
  by_cases h1 : isAlive al a.doc = true
  · by_cases h2 : isAlive al a'.doc = true
    · simp only [h1, h2, if_true, Option.some.injEq] at hb hb'
      subst hb; subst hb'
      exact rank_lt_of_lt_alive al a.doc a'.doc haa h1
    · simp [h2] at hb'
  · simp [h1] at hb

theorem concatPostings_ok {α} (k : Key) (segs : List (Segment α)) (off : Nat)
    (hpost : ∀ s ∈ segs, ∀ t ∈ s.terms, postingsOk s.alive.length t.2 = true) :
    (concatPostings k segs off).Pairwise docLt ∧
    ∀ p ∈ concatPostings k segs off, off ≤ p.doc := by
  induction segs generalizing off with
  | nil => simp [concatPostings]
  | cons x rest ih =>
    have hb : (postingsOf x.terms k).Pairwise docLt ∧ ∀ p ∈ postingsOf x.terms k, p.doc < x.alive.length := by
      unfold postingsOf
      cases hl : x.terms.lookup k with
      | none => simp
      | some ps =>
        have hm : (k, ps) ∈ x.terms := by
          obtain ⟨l1, l2, he, _⟩ := List.lookup_eq_some_iff.1 hl
          rw [he]; simp
        exact (postingsOk_iff _ _).1 (hpost x (by simp) (k, ps) hm)
    obtain ⟨ih1, ih2⟩ := ih (off + x.alive.length) (fun s hs => hpost s (by simp [hs]))
    simp only [concatPostings]
    constructor
    · rw [List.pairwise_append]
      refine ⟨?_, ih1, ?_⟩
      · simp only [shift, List.pairwise_map]
        exact hb.1.imp (fun h => by simp only [docLt] at h ⊢; omega)
      · intro a ha b hb'
        simp only [shift, List.mem_map] at ha
        obtain ⟨p, hp, rfl⟩ := ha
        have h1 := hb.2 p hp
        have h2 := ih2 b hb'
        simp only [docLt]
        omega
    · intro p hp
      rw [List.mem_append] at hp
      rcases hp with hp | hp
      · simp only [shift, List.mem_map] at hp
        obtain ⟨q, _, rfl⟩ := hp
        simp
      · have := ih2 p hp; omega

/-- the merged segment satisfies the hypotheses of the translation theorem again -/
theorem mergeModel_wf {α} (segs : List (Segment α))
    (hlen : ∀ s ∈ segs, s.docs.length = s.alive.length)
    (hpost : ∀ s ∈ segs, ∀ t ∈ s.terms, postingsOk s.alive.length t.2 = true) :
    (mergeModel segs).docs.length = (mergeModel segs).alive.length ∧
    ∀ t ∈ (mergeModel segs).terms, postingsOk (mergeModel segs).alive.length t.2 = true := by
  have hn : (newToOld segs).length = ((segs.map (·.alive)).flatten).count true := by
    rw [newToOld, newToOldFrom_length, List.count_flatten, List.map_map]
    rfl
  constructor
  · have h := copyDocs_newToOldFrom [] segs hlen
    simp only [List.nil_append, List.length_nil] at h
    show (copyDocs segs (newToOld segs)).length = (List.replicate (newToOld segs).length true).length
    rw [newToOld, h, List.length_replicate, newToOldFrom_length, List.length_flatten, List.map_map]
    congr 1
    apply List.map_congr_left
    intro s hs
    exact liveDocs_length s.docs s.alive (hlen s hs)
  · intro t ht
    simp only [mergeModel, mergedTerms, List.mem_map, List.mem_filter] at ht
    obtain ⟨t', ⟨⟨k, _, rfl⟩, _⟩, rfl⟩ := ht
    have h := (mergedTermFrom_eq k [] segs hpost).1
    simp only [List.nil_append, List.length_nil, List.map_nil, List.flatten_nil] at h
    show postingsOk (List.replicate (newToOld segs).length true).length
      (mergedTermFrom (oldToNew segs) k 0 segs).2 = true
    rw [h, List.length_replicate, hn, postingsOk_iff]
    exact ⟨livePostings_pairwise _ _ (concatPostings_ok k segs 0 hpost).1, livePostings_bound _ _⟩

theorem flatten_groups {α β} (f : α → List β) (groups : List (List α)) :
    (groups.map fun g => (g.map f).flatten).flatten = (groups.flatten.map f).flatten := by
  induction groups with
  | nil => rfl
  | cons g rest ih => simp [ih]

/-- per-document data of the spec: the live documents of the sources in source order -/
theorem mergeSpec_docs {α} (segs : List (Segment α))
    (hlen : ∀ s ∈ segs, s.docs.length = s.alive.length) :
    (mergeSpec segs).docs = (segs.map fun s => liveDocs s.docs s.alive).flatten := by
  show liveDocs (segs.map (·.docs)).flatten (segs.map (·.alive)).flatten = _
  exact liveDocs_flatten segs hlen

/-- the merged segment holds all its documents alive -/
theorem mergeModel_liveDocs {α} (segs : List (Segment α))
    (hlen : ∀ s ∈ segs, s.docs.length = s.alive.length) :
    liveDocs (mergeModel segs).docs (mergeModel segs).alive
      = (segs.map fun s => liveDocs s.docs s.alive).flatten := by
  have h := mergeModel_docs segs hlen
  rw [mergeSpec_docs segs hlen] at h
  exact h

end TantivyModel.Merge
