import TantivyModel.Proofs.Sorted
import TantivyModel.Proofs.MergeKeys
/-! merged term ordinals order like the term bytes (C17, str / bytes sort fields) -/
namespace TantivyModel.Sorted
open TantivyModel.Merge

theorem idxOf_lt_iff_of_sorted (l : List Key) (hs : l.Pairwise KLt) (a b : Key) (ha : a ∈ l) (hb : b ∈ l) :
    l.idxOf a < l.idxOf b ↔ keyLt a b = true := by
  have hia := List.idxOf_lt_length_of_mem ha
  have hib := List.idxOf_lt_length_of_mem hb
  have ea : l[l.idxOf a] = a := List.getElem_idxOf hia
  have eb : l[l.idxOf b] = b := List.getElem_idxOf hib
  constructor
  · intro h
    have := List.pairwise_iff_getElem.1 hs _ _ hia hib h
    rw [ea, eb] at this
    exact this
  · intro h
    rcases Nat.lt_trichotomy (l.idxOf a) (l.idxOf b) with hlt | heq | hgt
    · exact hlt
    · exfalso
      have : a = b := by
        have h1 : l[l.idxOf a] = l[l.idxOf b] := by simp only [heq]
        rw [ea, eb] at h1
        exact h1
      subst this
      rw [keyLt_irrefl] at h; cases h
    · exfalso
      have := List.pairwise_iff_getElem.1 hs _ _ hib hia hgt
      rw [ea, eb] at this
      have haa := keyLt_trans a b a h this
      rw [keyLt_irrefl] at haa; cases haa

theorem idxOf_inj_of_mem (l : List Key) (a b : Key) (ha : a ∈ l) (hb : b ∈ l)
    (h : l.idxOf a = l.idxOf b) : a = b := by
  have hia := List.idxOf_lt_length_of_mem ha
  have hib := List.idxOf_lt_length_of_mem hb
  have ea : l[l.idxOf a] = a := List.getElem_idxOf hia
  have eb : l[l.idxOf b] = b := List.getElem_idxOf hib
  have h1 : l[l.idxOf a] = l[l.idxOf b] := by simp only [h]
  rw [ea, eb] at h1
  exact h1

end TantivyModel.Sorted
