import TantivyModel.Proofs.BlockWandInterTotal
/-!
Towards total correctness of the mirrored `block_wand` loop, part A: the scorer array stays sorted
by current document (the mirrored `debug_assert!(is_sorted)` never fires).
-/
namespace TantivyModel.BlockWand
open List TantivyModel.Wand

theorem isSorted_of_sorted : ∀ (arr : List S), SortedByDoc arr → isSortedByDoc arr = true
  | [], _ => rfl
  | [_], _ => rfl
  | a :: b :: rest, h => by
    unfold SortedByDoc at h
    rw [pairwise_cons] at h
    simp only [isSortedByDoc, Bool.and_eq_true, decide_eq_true_eq]
    exact ⟨h.1 b (by simp), isSorted_of_sorted (b :: rest) h.2⟩

theorem dropWhile_all_ge (k : Nat) (q : S → Bool) (hq : ∀ s, q s = false → k ≤ s.doc) : ∀ (l : List S), SortedByDoc l →
    ∀ y, y ∈ l.dropWhile q → k ≤ y.doc
  | [], _, y, hy => by simp at hy
  | z :: zs, hs, y, hy => by
    unfold SortedByDoc at hs
    rw [pairwise_cons] at hs
    by_cases hz : q z = true
    · rw [dropWhile_cons_of_pos hz] at hy
      exact dropWhile_all_ge k q hq zs hs.2 y hy
    · rw [dropWhile_cons_of_neg hz] at hy
      have hzk : k ≤ z.doc := hq z (by simpa using hz)
      rcases mem_cons.mp hy with rfl | hy
      · exact hzk
      · have := hs.1 y hy; omega

theorem pairwise_four {β : Type} {R : β → β → Prop} {A B D : List β} {x : β}
    (hA : A.Pairwise R) (hB : B.Pairwise R) (hD : D.Pairwise R)
    (hAB : ∀ a, a ∈ A → ∀ b, b ∈ B → R a b) (hAx : ∀ a, a ∈ A → R a x) (hAD : ∀ a, a ∈ A → ∀ b, b ∈ D → R a b)
    (hBx : ∀ a, a ∈ B → R a x) (hBD : ∀ a, a ∈ B → ∀ b, b ∈ D → R a b) (hxD : ∀ b, b ∈ D → R x b) :
    (A ++ B ++ [x] ++ D).Pairwise R := by
  rw [pairwise_append]
  refine ⟨?_, hD, ?_⟩
  · rw [pairwise_append]
    refine ⟨?_, pairwise_singleton _ _, ?_⟩
    · rw [pairwise_append]; exact ⟨hA, hB, hAB⟩
    · intro a ha b hb
      simp only [mem_cons, not_mem_nil, or_false] at hb; subst hb
      rcases mem_append.mp ha with ha | ha
      · exact hAx a ha
      · exact hBx a ha
  · intro a ha b hb
    rcases mem_append.mp ha with ha | ha
    · rcases mem_append.mp ha with ha | ha
      · exact hAD a ha b hb
      · exact hBD a ha b hb
    · simp only [mem_cons, not_mem_nil, or_false] at ha; subst ha
      exact hxD b hb

/-- `restore_ordering`: an array that is sorted once `arr[ord]` is taken out, with everything before
`ord` not after it, is sorted afterwards -/
theorem restoreOrdering_sorted (arr : List S) (ord : Nat) (x : S) (hx : arr[ord]? = some x)
    (hrest : SortedByDoc (arr.take ord ++ arr.drop (ord + 1)))
    (hpre : ∀ y, y ∈ arr.take ord → y.doc ≤ x.doc) : SortedByDoc (restoreOrdering arr ord) := by
  unfold restoreOrdering
  rw [hx]
  simp only
  unfold SortedByDoc at hrest ⊢
  rw [pairwise_append] at hrest
  obtain ⟨h1, h2, h3⟩ := hrest
  generalize arr.drop (ord + 1) = following at h2 h3 ⊢
  have htd : following.takeWhile (fun s => decide (s.doc < x.doc)) ++ following.dropWhile (fun s => decide (s.doc < x.doc))
      = following := takeWhile_append_dropWhile
  have h2' := h2
  rw [← htd, pairwise_append] at h2'
  have htw : ∀ y, y ∈ following.takeWhile (fun s => decide (s.doc < x.doc)) → y.doc < x.doc := by
    intro y hy; have := takeWhile_all _ _ y hy; simpa using this
  have hdw := dropWhile_all_ge x.doc (fun s => decide (s.doc < x.doc)) (fun s hs => by simpa using hs) following h2
  have hsubT : ∀ y, y ∈ following.takeWhile (fun s => decide (s.doc < x.doc)) → y ∈ following :=
    fun y hy => (takeWhile_sublist _).subset hy
  have hsubD : ∀ y, y ∈ following.dropWhile (fun s => decide (s.doc < x.doc)) → y ∈ following :=
    fun y hy => (dropWhile_sublist _).subset hy
  exact pairwise_four h1 h2'.1 h2'.2.1 (fun a ha b hb => h3 a ha b (hsubT b hb)) hpre
    (fun a ha b hb => h3 a ha b (hsubD b hb)) (fun a ha => Nat.le_of_lt (htw a ha)) h2'.2.2 hdw

/-- replacing `arr[i]` of a sorted array by something not before it and restoring the order -/
theorem set_restore_sorted (arr : List S) (hs : SortedByDoc arr) (i : Nat) (s s' : S) (hi : arr[i]? = some s)
    (hle : s.doc ≤ s'.doc) : SortedByDoc (restoreOrdering (arr.set i s') i) := by
  have hlt : i < arr.length := getElem?_lt_length hi
  have hsplit : arr = arr.take i ++ s :: arr.drop (i + 1) := by
    conv => lhs; rw [← take_append_drop i arr]
    congr 1
    rw [drop_eq_getElem_cons hlt]
    congr 1
    rw [getElem?_eq_getElem hlt] at hi
    exact Option.some.inj hi
  unfold SortedByDoc at hs
  rw [hsplit, pairwise_append, pairwise_cons] at hs
  apply restoreOrdering_sorted _ i s' (by rw [getElem?_set_self (by simpa using hlt)])
  · rw [take_set_of_le (Nat.le_refl _), drop_set_of_lt (by omega)]
    unfold SortedByDoc
    rw [pairwise_append]
    refine ⟨hs.1, hs.2.1.2, fun a ha b hb => hs.2.2 a ha b (by simp [hb])⟩
  · intro y hy
    rw [take_set_of_le (Nat.le_refl _)] at hy
    have := hs.2.2 y hy s (by simp)
    omega

end TantivyModel.BlockWand
