import TantivyModel.Proofs.GrammarCharsPrintList
namespace TantivyModel.Grammar.Chars
open TantivyModel.Grammar

/-! ## quoted phrases as operands -/

theorem quotedBody_plain (body t : Str) (hb : PhraseBody body) :
    quotedBody '"' (body ++ '"' :: t) = some (body, t) := by
  induction body with
  | nil =>
    show quotedBody '"' ('"' :: t) = some ([], t)
    unfold quotedBody
    split
    · rename_i heq; cases heq
    · rename_i heq; exact absurd (List.cons.inj heq).1 (by decide)
    · rename_i heq
      obtain ⟨rfl, rfl⟩ := List.cons.inj heq
      simp
  | cons c rest ih =>
    have hc := hb c (by simp)
    have ih' := ih (fun d hd => hb d (List.mem_cons_of_mem _ hd))
    show quotedBody '"' (c :: (rest ++ '"' :: t)) = some (c :: rest, t)
    unfold quotedBody
    split
    · rename_i heq; cases heq
    · rename_i heq; exact absurd (List.cons.inj heq).1 hc.2
    · rename_i heq
      obtain ⟨rfl, rfl⟩ := List.cons.inj heq
      simp [hc.1, ih']

theorem slopOrPrefix_of_rem (t : Str) (ht : Rem t) : slopOrPrefix t = ((0, false), t) := by
  rcases ht with rfl | ⟨t', rfl, _⟩ | ⟨t', rfl⟩
  · rfl
  · unfold slopOrPrefix
    split
    · rename_i heq; exact absurd (List.cons.inj heq).1 (by decide)
    · rename_i heq; exact absurd (List.cons.inj heq).1 (by decide)
    · rfl
  · unfold slopOrPrefix
    split
    · rename_i heq; exact absurd (List.cons.inj heq).1 (by decide)
    · rename_i heq; exact absurd (List.cons.inj heq).1 (by decide)
    · rfl

theorem plainLiteral_phrase (g : Bool) (body t : Str) (hb : PhraseBody body) (ht : Rem t) :
    plainLiteral g ('"' :: (body ++ '"' :: t)) = .ok (.leaf (.literal none body .double 0 false)) t := by
  generalize hx : body ++ '"' :: t = x
  have h1 : fieldName ('"' :: x) = none := by simp [fieldName, specialChars]
  have h2 : range ('"' :: x) = none := by
    simp [range, skip0, List.dropWhile, isNomSpace, tag, List.isPrefixOf]
  have h3 : set ('"' :: x) = none := by
    simp [set, skip0, List.dropWhile, isNomSpace, tag, List.isPrefixOf]
  have h4 : exists_ ('"' :: x) = none := by
    simp [exists_, skip0, List.dropWhile, isNomSpace]
  have h5 : regex ('"' :: x) = none := by simp [regex]
  have hn : negativeNumber ('"' :: x) = none := by
    unfold negativeNumber
    split
    · rename_i heq; exact absurd (List.cons.inj heq).1 (by decide)
    · rfl
  have hst : simpleTerm ('"' :: x) = some ((.double, body), t) := by
    have hq : quotedBody '"' x = some (body, t) := by
      rw [← hx]; exact quotedBody_plain body t hb
    unfold simpleTerm
    rw [hn]
    simp [hq]
  have h6 : termOrPhrase ('"' :: x) = some (.literal none body .double 0 false, t) := by
    simp [termOrPhrase, hst, slopOrPrefix_of_rem t ht]
  simp [plainLiteral, h1, h2, h3, h4, h5, h6, setField]

/-- a double-quoted phrase without escapes is a good operand -/
theorem goodOpd_phrase (g : Bool) (body : Str) (hb : PhraseBody body) : GoodOpd g (phraseOpd body) := by
  refine ⟨⟨'"', body ++ ['"'], rfl, by decide, by decide, by decide, by decide, by decide⟩, ?_, ?_, ?_⟩
  · intro t _
    simp [phraseOpd, binaryOperand, tag, List.isPrefixOf]
  · intro t ht f hf
    obtain ⟨f', rfl⟩ : ∃ f', f = f' + 1 := ⟨f - 1, by simp [phraseOpd] at hf; omega⟩
    have htext : (phraseOpd body).text ++ t = '"' :: (body ++ '"' :: t) := by simp [phraseOpd]
    rw [htext]
    have hp := plainLiteral_phrase g body t hb ht
    generalize body ++ '"' :: t = x at hp
    unfold pLeaf
    simp [R.orElse, tag, List.isPrefixOf, hp, phraseOpd]
  · simp [phraseOpd]; omega

end TantivyModel.Grammar.Chars
