import TantivyModel.Proofs.AggTrunc
/-!
C14 helper lemmas: in ONE segment the cut to `segment_size ≥ size` buckets is invisible in the
first `size` buckets of the final order — for every order of the request.
-/
namespace TantivyModel.Agg

section sorted_on
variable {α : Type} (le : α → α → Bool)

/-- uniqueness of the sorted arrangement when the order is antisymmetric on the members -/
theorem eq_of_perm_of_sorted_on :
    ∀ (l₁ l₂ : List α), (∀ a ∈ l₁, ∀ b ∈ l₁, le a b = true → le b a = true → a = b) → l₁.Perm l₂ →
      l₁.Pairwise (fun a b => le a b = true) → l₂.Pairwise (fun a b => le a b = true) → l₁ = l₂
  | [], l₂, _, hp, _, _ => (List.Perm.nil_eq hp)
  | a :: l₁, [], _, hp, _, _ => absurd hp.symm (by simp)
  | a :: l₁, b :: l₂, hanti, hp, h1, h2 => by
    obtain ⟨ha, h1'⟩ := List.pairwise_cons.1 h1
    obtain ⟨hb, h2'⟩ := List.pairwise_cons.1 h2
    have m1 : a ∈ b :: l₂ := hp.mem_iff.1 (List.mem_cons_self)
    have m2 : b ∈ a :: l₁ := hp.mem_iff.2 (List.mem_cons_self)
    have hab : a = b := by
      rcases List.mem_cons.1 m1 with e | m1'
      · exact e
      · rcases List.mem_cons.1 m2 with e | m2'
        · exact e.symm
        · exact hanti a (List.mem_cons_self) b m2 (ha b m2') (hb a m1')
    subst hab
    have hp' : l₁.Perm l₂ := (List.perm_cons a).1 hp
    rw [eq_of_perm_of_sorted_on l₁ l₂
      (fun x hx y hy => hanti x (List.mem_cons_of_mem _ hx) y (List.mem_cons_of_mem _ hy)) hp' h1' h2']

end sorted_on

section cut
variable {V : Type}

/-- request order on buckets -/
def bLe (o : Order) (a b : Int × Nat × V) : Bool := o.le (a.1, a.2.1) (b.1, b.2.1)

theorem bLe_total (o : Order) (a b : Int × Nat × V) : bLe o a b = true ∨ bLe o b a = true := by
  cases o <;> simp only [bLe, Order.le, Bool.or_eq_true, Bool.and_eq_true, decide_eq_true_eq, beq_iff_eq] <;> omega

theorem bLe_trans (o : Order) (a b c : Int × Nat × V) (h1 : bLe o a b = true) (h2 : bLe o b c = true) :
    bLe o a c = true := by
  cases o <;> simp only [bLe, Order.le, Bool.or_eq_true, Bool.and_eq_true, decide_eq_true_eq, beq_iff_eq] at * <;> omega

theorem bLe_antisymm_key (o : Order) (a b : Int × Nat × V) (h1 : bLe o a b = true) (h2 : bLe o b a = true) :
    a.1 = b.1 := by
  cases o <;> simp only [bLe, Order.le, Bool.or_eq_true, Bool.and_eq_true, decide_eq_true_eq, beq_iff_eq] at * <;> omega

theorem eq_of_key_eq : ∀ (l : List (Int × Nat × V)), (l.map (·.1)).Nodup →
    ∀ a ∈ l, ∀ b ∈ l, a.1 = b.1 → a = b
  | [], _, a, ha, _, _, _ => absurd ha (by simp)
  | x :: xs, hnd, a, ha, b, hb, hk => by
    have hnd2 : (x.1 :: xs.map (·.1)).Nodup := hnd
    obtain ⟨hnot, hnd'⟩ := List.nodup_cons.1 hnd2
    rcases List.mem_cons.1 ha with rfl | ha'
    · rcases List.mem_cons.1 hb with rfl | hb'
      · rfl
      · exact absurd (hk ▸ List.mem_map_of_mem (f := (·.1)) hb') hnot
    · rcases List.mem_cons.1 hb with rfl | hb'
      · exact absurd (hk ▸ List.mem_map_of_mem (f := (·.1)) ha') hnot
      · exact eq_of_key_eq xs hnd' a ha' b hb' hk

/-- keeping the elements whose key is among the keys of the first `n` keeps exactly the first `n` -/
theorem filter_take_keys : ∀ (n : Nat) (l : List (Int × Nat × V)), (l.map (·.1)).Nodup →
    l.filter (fun e => ((l.take n).map (·.1)).contains e.1) = l.take n
  | 0, l, _ => by simp
  | _ + 1, [], _ => by simp
  | n + 1, x :: xs, hnd => by
    have hnd2 : (x.1 :: xs.map (·.1)).Nodup := hnd
    obtain ⟨hnot, hnd'⟩ := List.nodup_cons.1 hnd2
    simp only [List.take_succ_cons, List.map_cons, List.filter_cons, List.contains_cons, beq_self_eq_true,
      Bool.true_or, if_true, List.cons.injEq, true_and]
    refine Eq.trans (List.filter_congr ?_) (filter_take_keys n xs hnd')
    intro e he
    have hne : (e.1 == x.1) = false := by
      have : e.1 ≠ x.1 := fun h => hnot (h ▸ List.mem_map_of_mem (f := (·.1)) he)
      simpa using this
    simp only [hne, Bool.false_or]

theorem sortBuckets_eq_isort (o : Order) (l : List (Int × Nat × V)) : sortBuckets o l = isort (bLe o) l := rfl

/-- sorting what the cut keeps gives the first `seg` buckets of the full order -/
theorem sort_cut_eq_take (o : Order) (es : List (Int × Nat × V)) (hnd : (es.map (·.1)).Nodup) (seg : Nat) :
    sortBuckets o (es.filter (fun e => (((sortBuckets o es).take seg).map (·.1)).contains e.1))
      = (sortBuckets o es).take seg := by
  have hperm : (sortBuckets o es).Perm es := sortBuckets_perm o es
  have hnds : ((sortBuckets o es).map (·.1)).Nodup := (List.Perm.nodup_iff (hperm.map (·.1))).2 hnd
  have hsorted : (sortBuckets o es).Pairwise (fun a b => bLe o a b = true) :=
    isort_pairwise (bLe o) (bLe_total o) (bLe_trans o) es
  -- the kept elements are a permutation of the prefix
  have hp : (es.filter (fun e => (((sortBuckets o es).take seg).map (·.1)).contains e.1)).Perm
      ((sortBuckets o es).take seg) := by
    have := (hperm.filter (fun e => (((sortBuckets o es).take seg).map (·.1)).contains e.1)).symm
    rw [filter_take_keys seg (sortBuckets o es) hnds] at this
    exact this
  apply eq_of_perm_of_sorted_on (bLe o)
  · intro a ha b hb h1 h2
    have hk := bLe_antisymm_key o a b h1 h2
    have ha' : a ∈ es := hperm.mem_iff.1 ((sortBuckets_perm o _).mem_iff.1 ha |> fun h => hperm.mem_iff.2 (List.mem_filter.1 h).1)
    have hb' : b ∈ es := hperm.mem_iff.1 ((sortBuckets_perm o _).mem_iff.1 hb |> fun h => hperm.mem_iff.2 (List.mem_filter.1 h).1)
    exact eq_of_key_eq es hnd a ha' b hb' hk
  · exact (sortBuckets_perm o _).trans hp
  · exact isort_pairwise (bLe o) (bLe_total o) (bLe_trans o) _
  · exact List.Pairwise.sublist (List.take_sublist _ _) hsorted

theorem filterMap_restrict (m : KMap (Nat × V)) (keep : List Int) (l : List Int) :
    l.filterMap (fun k => ((m.restrict keep).get k).map (fun v => (k, v)))
      = (l.filterMap (fun k => (m.get k).map (fun v => (k, v)))).filter (fun e => keep.contains e.1) := by
  induction l with
  | nil => rfl
  | cons k l ih =>
    have hget : (m.restrict keep).get k = if keep.contains k then m.get k else Option.none := rfl
    simp only [List.filterMap_cons]
    rw [hget, ih]
    by_cases hc : keep.contains k
    · cases hg : m.get k with
      | none => simp only [hc, if_true, Option.map_none]
      | some v => simp only [hc, if_true, Option.map_some, List.filter_cons]
    · cases hg : m.get k with
      | none => simp only [hc, Bool.false_eq_true, if_false, Option.map_none]
      | some v => simp only [hc, Bool.false_eq_true, if_false, Option.map_none, Option.map_some, List.filter_cons]

theorem entries_restrict (m : KMap (Nat × V)) (keep : List Int) :
    (m.restrict keep).entries = m.entries.filter (fun e => keep.contains e.1) := by
  unfold KMap.entries
  exact filterMap_restrict m keep _

/-- **one segment: the cut is invisible in the shown buckets.**  After `termsCut` the first `size`
buckets in request order are those of the untruncated segment, whenever `size ≤ segment_size`
(which the request defaults guarantee) — for `_count` ascending and descending and `_key`
ascending and descending alike. -/
theorem termsCut_shown_eq (p : TermsP) (t : TermsI V) (hsz : p.size ≤ p.segSize) :
    (sortBuckets p.order (termsCut p t).map.entries).take p.size
      = (sortBuckets p.order t.map.entries).take p.size := by
  by_cases h : t.map.entries.length ≤ p.segSize
  · rw [termsCut_small p t h]
  · rw [termsCut_big p t h]
    simp only []
    rw [entries_restrict, sort_cut_eq_take p.order t.map.entries (entries_keys_nodup t.map) p.segSize,
      List.take_take, Nat.min_eq_left hsz]

end cut

end TantivyModel.Agg
