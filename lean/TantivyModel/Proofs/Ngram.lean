import TantivyModel.Proofs.Tokenizer
/-! C19: the n-gram tokenizer — width table vs UTF-8, ring buffer vs the enumeration spec -/
namespace TantivyModel.Tok

/-! ### the extracted width table agrees with UTF-8 on the first byte of every scalar value -/

theorem table_low : ∀ i < 8, Gen.CODEPOINT_UTF8_WIDTH.getD i 0 = 1 := by decide
theorem table_2 : ∀ i < 14, 12 ≤ i → Gen.CODEPOINT_UTF8_WIDTH.getD i 0 = 2 := by decide
theorem table_3 : Gen.CODEPOINT_UTF8_WIDTH.getD 14 0 = 3 := by decide
theorem table_4 : Gen.CODEPOINT_UTF8_WIDTH.getD 15 0 = 4 := by decide
theorem shift_is_4 : Gen.UTF8_WIDTH_SHIFT = 4 := by decide

theorem tableWidth_lead (c : Nat) (h : c < 0x110000) : tableWidth (leadByte c) = utf8Len c := by
  unfold tableWidth leadByte utf8Len
  rw [shift_is_4, Nat.shiftRight_eq_div_pow]
  by_cases h1 : c < 0x80
  · simp only [h1, if_true]
    exact table_low _ (by omega)
  · by_cases h2 : c < 0x800
    · simp only [h1, h2, if_true, if_false]
      exact table_2 _ (by omega) (by omega)
    · by_cases h3 : c < 0x10000
      · simp only [h1, h2, h3, if_true, if_false]
        have : (0xE0 + c / 4096) / 2 ^ 4 = 14 := by omega
        rw [this]; exact table_3
      · simp only [h1, h2, h3, if_false]
        have : (0xF0 + c / 262144) / 2 ^ 4 = 15 := by omega
        rw [this]; exact table_4

theorem frontiersFrom_eq (s : Text) (hv : ∀ c ∈ s, c.code < 0x110000) (o : Nat) :
    frontiersFrom o s = boundariesFrom o s := by
  induction s generalizing o with
  | nil => rfl
  | cons c s ih =>
    simp only [frontiersFrom, boundariesFrom]
    rw [tableWidth_lead c.code (hv c List.mem_cons_self)]
    rw [ih (fun x hx => hv x (List.mem_cons_of_mem _ hx))]
    rfl

theorem frontiers_eq_boundaries (s : Text) (hv : ∀ c ∈ s, c.code < 0x110000) :
    frontiers s = boundariesFrom 0 s := frontiersFrom_eq s hv 0

theorem boundaries_sorted (o : Nat) (s : Text) : (boundariesFrom o s).Pairwise (· < ·) := by
  induction s generalizing o with
  | nil => simp [boundariesFrom]
  | cons c s ih =>
    simp only [boundariesFrom, List.pairwise_cons]
    refine ⟨?_, ih _⟩
    intro b hb
    have := boundaries_ge hb
    have := c.w_pos
    omega

/-! ### modular arithmetic of the ring buffer -/

theorem succ_mod' (i m : Nat) (hm : 0 < m) :
    (i + 1) % m = if i % m + 1 ≥ m then 0 else i % m + 1 := by
  have hr := Nat.mod_lt i hm
  have e := Nat.div_add_mod i m
  split
  · rename_i h
    have h1 : i % m + 1 = m := by omega
    have : i + 1 = m * (i / m + 1) + 0 := by rw [Nat.mul_add]; omega
    rw [this, Nat.mul_add_mod]; exact Nat.zero_mod m
  · rename_i h
    have : i + 1 = m * (i / m) + (i % m + 1) := by omega
    rw [this, Nat.mul_add_mod, Nat.mod_eq_of_lt (by omega)]

theorem add_mod_ne (i d m : Nat) (hd : 0 < d) (hdm : d < m) : (i + d) % m ≠ i % m := by
  have hm : 0 < m := by omega
  have hr := Nat.mod_lt i hm
  rw [← Nat.mod_add_mod]
  by_cases h : i % m + d < m
  · rw [Nat.mod_eq_of_lt h]; omega
  · rw [Nat.mod_eq_sub_mod (by omega), Nat.mod_eq_of_lt (by omega)]; omega

theorem drop_cons_inv {F : List Nat} {n v : Nat} {r : List Nat} (h : F.drop n = v :: r) :
    n < F.length ∧ v = F.getD n 0 ∧ r = F.drop (n + 1) := by
  by_cases hn : n < F.length
  · rw [List.drop_eq_getElem_cons hn] at h
    injection h with h1 h2
    refine ⟨hn, ?_, h2.symm⟩
    rw [List.getD_eq_getElem?_getD, List.getElem?_eq_getElem hn]; exact h1.symm
  · rw [List.drop_eq_nil_of_le (by omega)] at h; cases h

/-! ### the ring buffer simulates the pair (start index i, gram length k) -/

section
variable (F : List Nat) (minG maxG : Nat)

/-- largest gram length available at start index `i` -/
def cm (i : Nat) : Nat := min maxG (F.length - 1 - i)
/-- ring buffer length -/
def mlen : Nat := min (maxG + 1) F.length

structure Rw (st : Stutter) (i k : Nat) : Prop where
  hlen : st.memory.length = mlen F maxG
  hmin : st.minGram = minG
  hmax : st.maxGram = cm F maxG i
  hcur : st.cursor = i % mlen F maxG
  hgram : st.gramLen = k
  hund : st.underlying = F.drop (i + mlen F maxG)
  hent : ∀ j ≤ cm F maxG i, st.memory.getD ((i + j) % mlen F maxG) 0 = F.getD (i + j) 0
  hi : i < F.length

theorem rw_emit {st : Stutter} {i k : Nat} (h : Rw F minG maxG st i k) (hk1 : minG ≤ k)
    (hk : k ≤ cm F maxG i) :
    st.emit = some ((F.getD i 0, F.getD (i + k) 0), { st with gramLen := k + 1 }) ∧
    Rw F minG maxG { st with gramLen := k + 1 } i (k + 1) := by
  constructor
  · unfold Stutter.emit
    rw [h.hmax, h.hmin, if_neg (by omega), h.hlen, h.hcur, h.hgram, Nat.mod_mod, Nat.mod_add_mod]
    have e0 := h.hent 0 (Nat.zero_le _)
    have ek := h.hent k hk
    rw [Nat.add_zero] at e0
    rw [e0, ek]
  · exact ⟨h.hlen, h.hmin, h.hmax, h.hcur, rfl, h.hund, h.hent, h.hi⟩

theorem rw_emit_none {st : Stutter} {i k : Nat} (h : Rw F minG maxG st i k)
    (hk : cm F maxG i < minG) : st.emit = none := by
  unfold Stutter.emit
  rw [h.hmax, h.hmin, if_pos hk]

theorem rw_advance {st : Stutter} {i k : Nat} (h : Rw F minG maxG st i k) (hmin : 0 < minG)
    (hact : minG ≤ cm F maxG i) : Rw F minG maxG st.advance (i + 1) minG := by
  have hL : 0 < F.length := by have := h.hi; omega
  have hm : 0 < mlen F maxG := by unfold mlen; omega
  have hcm : cm F maxG i ≤ F.length - 1 - i := by unfold cm; omega
  have hi1 : i + 1 < F.length := by omega
  unfold Stutter.advance
  cases hu : st.underlying with
  | nil =>
    have hd : F.length ≤ i + mlen F maxG := by
      have := h.hund; rw [hu] at this; exact List.drop_eq_nil_iff.mp this.symm
    have hcmi : cm F maxG i = F.length - 1 - i := by unfold cm mlen at *; omega
    have hcmi1 : cm F maxG (i + 1) = cm F maxG i - 1 := by unfold cm mlen at *; omega
    refine ⟨h.hlen, h.hmin, ?_, ?_, h.hmin, ?_, ?_, hi1⟩
    · simp only; rw [h.hmax, hcmi1]
    · simp only; rw [h.hcur, h.hlen, succ_mod' i _ hm]
    · simp only; exact (List.drop_eq_nil_of_le (by omega)).symm
    · intro j hj
      simp only
      have := h.hent (j + 1) (by omega)
      have e : i + 1 + j = i + (j + 1) := by omega
      rw [e]; exact this
  | cons v r =>
    obtain ⟨hlt, hv, hr⟩ := drop_cons_inv (h.hund ▸ hu : F.drop (i + mlen F maxG) = v :: r)
    have hmm : mlen F maxG = maxG + 1 := by unfold mlen at *; omega
    have hcmi : cm F maxG i = mlen F maxG - 1 := by unfold cm; omega
    have hcmi1 : cm F maxG (i + 1) = mlen F maxG - 1 := by unfold cm; omega
    have hcurlt : st.cursor < st.memory.length := by rw [h.hcur, h.hlen]; exact Nat.mod_lt _ hm
    refine ⟨?_, h.hmin, ?_, ?_, h.hmin, ?_, ?_, hi1⟩
    · simp only [List.length_set]; exact h.hlen
    · simp only; rw [h.hmax, hcmi, hcmi1]
    · simp only; rw [h.hcur, h.hlen, succ_mod' i _ hm]
    · simp only; rw [hr]; congr 1; omega
    · intro j hj
      simp only
      rw [List.getD_eq_getElem?_getD]
      by_cases hjm : j = mlen F maxG - 1
      · have e : i + 1 + j = i + mlen F maxG := by omega
        rw [e, Nat.add_mod_right, ← h.hcur, List.getElem?_set_self hcurlt, hv]
        rfl
      · have hne : st.cursor ≠ (i + 1 + j) % mlen F maxG := by
          rw [h.hcur]
          have e : i + 1 + j = i + (j + 1) := by omega
          rw [e]
          exact (add_mod_ne i (j + 1) _ (by omega) (by omega)).symm
        rw [List.getElem?_set_ne hne, ← List.getD_eq_getElem?_getD]
        have := h.hent (j + 1) (by omega)
        have e : i + 1 + j = i + (j + 1) := by omega
        rw [e]; exact this

theorem rw_init (hne : F ≠ []) (hgt : minG < mlen F maxG) :
    Rw F minG maxG (Stutter.new F minG maxG) 0 minG ∧ minG ≤ cm F maxG 0 := by
  have hL : 0 < F.length := List.length_pos_iff.mpr hne
  have hlen : (F.take (maxG + 1)).length = mlen F maxG := by simp [mlen]
  have hnot : ¬ (F.take (maxG + 1)).length ≤ minG := by rw [hlen]; omega
  unfold Stutter.new
  simp only [hnot, if_false]
  have hcm0 : cm F maxG 0 = mlen F maxG - 1 := by unfold cm mlen; omega
  refine ⟨⟨hlen, rfl, ?_, ?_, rfl, ?_, ?_, hL⟩, by omega⟩
  · simp only; rw [hlen, hcm0]
  · simp only; exact (Nat.zero_mod _).symm
  · simp only
    by_cases h : maxG + 1 ≤ F.length
    · congr 1; unfold mlen; omega
    · rw [List.drop_eq_nil_of_le (by omega), List.drop_eq_nil_of_le (by unfold mlen; omega)]
  · intro j hj
    simp only [Nat.zero_add]
    rw [Nat.mod_eq_of_lt (by omega), List.getD_eq_getElem?_getD, List.getD_eq_getElem?_getD,
      List.getElem?_take_of_lt (by unfold mlen at *; omega)]

/-- the enumeration from start index `i`, gram length `k` on -/
def specFrom (i k : Nat) : List (Nat × Nat) :=
  ngramRow F maxG i k ++ (List.range' (i + 1) (F.length - (i + 1))).flatMap fun j => ngramRow F maxG j minG

theorem specFrom_emit {i k : Nat} (hk : k ≤ cm F maxG i) :
    specFrom F minG maxG i k = (F.getD i 0, F.getD (i + k) 0) :: specFrom F minG maxG i (k + 1) := by
  unfold specFrom ngramRow
  have e : min maxG (F.length - 1 - i) + 1 - k = (min maxG (F.length - 1 - i) + 1 - (k + 1)) + 1 := by
    unfold cm at hk; omega
  rw [e, List.range'_succ]
  simp

theorem specFrom_advance {i k : Nat} (hk : cm F maxG i < k) (hi : i + 1 < F.length) :
    specFrom F minG maxG i k = specFrom F minG maxG (i + 1) minG := by
  unfold specFrom
  have e0 : ngramRow F maxG i k = [] := by
    unfold ngramRow
    have : min maxG (F.length - 1 - i) + 1 - k = 0 := by unfold cm at hk; omega
    rw [this]; rfl
  have e1 : F.length - (i + 1) = (F.length - (i + 1 + 1)) + 1 := by omega
  rw [e0, e1, List.range'_succ]
  simp

theorem specFrom_done {i : Nat} (hmin : 0 < minG) (hk : cm F maxG i < minG) :
    specFrom F minG maxG i minG = [] := by
  unfold specFrom
  have row_nil : ∀ j, i ≤ j → ngramRow F maxG j minG = [] := by
    intro j hj
    unfold ngramRow
    have : min maxG (F.length - 1 - j) + 1 - minG = 0 := by unfold cm at hk; omega
    rw [this]; rfl
  rw [row_nil i (Nat.le_refl _), List.nil_append, List.flatMap_eq_nil_iff]
  intro j hj
  rw [List.mem_range'_1] at hj
  exact row_nil j (by omega)

theorem collect_eq (hmin : 0 < minG) : ∀ (fuel : Nat) (st : Stutter) (i k : Nat),
    Rw F minG maxG st i k → minG ≤ k → minG ≤ cm F maxG i →
    Stutter.collect fuel st = (specFrom F minG maxG i k).take fuel := by
  intro fuel
  induction fuel with
  | zero => intros; simp [Stutter.collect]
  | succ fuel ih =>
    intro st i k h hk1 hact
    simp only [Stutter.collect, Stutter.next]
    by_cases hk : k ≤ cm F maxG i
    · have hno : ¬ st.gramLen > st.maxGram := by rw [h.hgram, h.hmax]; omega
      rw [if_neg hno]
      obtain ⟨e, h'⟩ := rw_emit F minG maxG h hk1 hk
      rw [e]
      simp only
      rw [ih _ i (k + 1) h' (by omega) hact, specFrom_emit F minG maxG hk, List.take_succ_cons]
    · have hyes : st.gramLen > st.maxGram := by rw [h.hgram, h.hmax]; omega
      rw [if_pos hyes]
      have h1 := rw_advance F minG maxG h hmin hact
      have hi1 := h1.hi
      rw [specFrom_advance F minG maxG (by omega) hi1]
      by_cases hact' : minG ≤ cm F maxG (i + 1)
      · obtain ⟨e, h'⟩ := rw_emit F minG maxG h1 (Nat.le_refl _) hact'
        rw [e]
        simp only
        rw [ih _ (i + 1) (minG + 1) h' (by omega) hact', specFrom_emit F minG maxG hact',
          List.take_succ_cons]
      · rw [rw_emit_none F minG maxG h1 (by omega), specFrom_done F minG maxG hmin (by omega)]
        simp

theorem length_flatMap_le {α β : Type} (l : List α) (f : α → List β) (B : Nat)
    (h : ∀ a ∈ l, (f a).length ≤ B) : (l.flatMap f).length ≤ l.length * B := by
  induction l with
  | nil => simp
  | cons a l ih =>
    simp only [List.flatMap_cons, List.length_append, List.length_cons]
    have := h a List.mem_cons_self
    have := ih (fun x hx => h x (List.mem_cons_of_mem _ hx))
    rw [Nat.add_mul]; omega

theorem row_length_le (hne : F ≠ []) (i k : Nat) : (ngramRow F maxG i k).length ≤ F.length := by
  have hL : 0 < F.length := List.length_pos_iff.mpr hne
  unfold ngramRow
  simp only [List.length_map, List.length_range']
  omega

theorem ngramSpec_eq_specFrom (hne : F ≠ []) :
    ngramSpec F minG maxG = specFrom F minG maxG 0 minG := by
  have hL : 0 < F.length := List.length_pos_iff.mpr hne
  unfold ngramSpec specFrom
  have e : F.length = (F.length - (0 + 1)) + 1 := by omega
  rw [List.range_eq_range']
  conv => lhs; rw [e, List.range'_succ]
  simp

theorem ngramSpec_length (hne : F ≠ []) : (ngramSpec F minG maxG).length ≤ F.length * F.length := by
  unfold ngramSpec
  have := length_flatMap_le (List.range F.length) (fun i => ngramRow F maxG i minG) F.length
    (fun a _ => row_length_le F maxG hne a minG)
  simpa using this

/-- the ring-buffer iterator yields exactly the specified enumeration -/
theorem stutterAll_eq_spec (hmin : 0 < minG) (hle : minG ≤ maxG) (hne : F ≠ []) :
    stutterAll F minG maxG = ngramSpec F minG maxG := by
  have hL : 0 < F.length := List.length_pos_iff.mpr hne
  unfold stutterAll
  by_cases hgt : minG < mlen F maxG
  · obtain ⟨h0, hact⟩ := rw_init F minG maxG hne hgt
    rw [collect_eq F minG maxG hmin _ _ 0 minG h0 (Nat.le_refl _) hact,
      ← ngramSpec_eq_specFrom F minG maxG hne]
    exact List.take_of_length_le (by have := ngramSpec_length F minG maxG hne; omega)
  · -- fewer than `min + 1` frontiers: the empty iterator
    have hlen : (F.take (maxG + 1)).length = mlen F maxG := by simp [mlen]
    have hshort : F.length ≤ minG := by unfold mlen at hgt; omega
    have hnew : Stutter.new F minG maxG = ⟨F.drop (maxG + 1), 1, 0, F.take (maxG + 1), 0, 0⟩ := by
      unfold Stutter.new
      have : (F.take (maxG + 1)).length ≤ minG := by rw [hlen]; omega
      simp only [this, if_true]
    rw [hnew]
    have hspec : ngramSpec F minG maxG = [] := by
      unfold ngramSpec
      rw [List.flatMap_eq_nil_iff]
      intro i _
      unfold ngramRow
      have : min maxG (F.length - 1 - i) + 1 - minG = 0 := by omega
      rw [this]; rfl
    rw [hspec]
    simp [Stutter.collect, Stutter.next, Stutter.emit]

end

/-! ### consequences for the token stream -/

theorem getD_mem_of_lt (F : List Nat) (i : Nat) (h : i < F.length) : F.getD i 0 ∈ F := by
  rw [List.getD_eq_getElem?_getD, List.getElem?_eq_getElem h]
  exact List.getElem_mem h

theorem ngramSpec_mem (F : List Nat) (hs : F.Pairwise (· < ·)) (minG maxG : Nat) (hmin : 0 < minG) :
    (∀ p ∈ ngramSpec F minG maxG, p.1 ∈ F ∧ p.2 ∈ F ∧ p.1 < p.2) ∧
    (ngramSpec F minG maxG).Pairwise (fun a b => a.1 ≤ b.1) := by
  have hget : ∀ i j, i < j → j < F.length → F.getD i 0 < F.getD j 0 := by
    intro i j hij hj
    rw [List.getD_eq_getElem?_getD, List.getD_eq_getElem?_getD,
      List.getElem?_eq_getElem (by omega), List.getElem?_eq_getElem hj]
    exact List.pairwise_iff_getElem.mp hs i j (by omega) hj hij
  have hrow : ∀ i k, ∀ p ∈ ngramRow F maxG i k, 0 < k → i < F.length →
      p.1 = F.getD i 0 ∧ p.2 ∈ F ∧ p.1 < p.2 := by
    intro i k p hp hk hi
    unfold ngramRow at hp
    simp only [List.mem_map, List.mem_range'_1] at hp
    obtain ⟨k', ⟨h1, h2⟩, rfl⟩ := hp
    have : i + k' < F.length := by omega
    exact ⟨rfl, getD_mem_of_lt F _ this, hget i (i + k') (by omega) this⟩
  constructor
  · intro p hp
    unfold ngramSpec at hp
    simp only [List.mem_flatMap, List.mem_range] at hp
    obtain ⟨i, hi, hp⟩ := hp
    obtain ⟨e, h2, h3⟩ := hrow i minG p hp hmin hi
    exact ⟨e ▸ getD_mem_of_lt F i hi, h2, h3⟩
  · unfold ngramSpec
    -- rows are ordered by start index
    have : ∀ (n a : Nat), a + n ≤ F.length →
        ((List.range' a n).flatMap fun i => ngramRow F maxG i minG).Pairwise (fun x y => x.1 ≤ y.1) := by
      intro n
      induction n with
      | zero => intro a _; simp
      | succ n ih =>
        intro a ha
        rw [List.range'_succ, List.flatMap_cons, List.pairwise_append]
        refine ⟨?_, ih (a + 1) (by omega), ?_⟩
        · apply pairwise_of_forall_mem
          intro x hx y hy
          have := (hrow a minG x hx hmin (by omega)).1
          have := (hrow a minG y hy hmin (by omega)).1
          omega
        · intro x hx y hy
          simp only [List.mem_flatMap, List.mem_range'_1] at hy
          obtain ⟨j, ⟨hj1, hj2⟩, hy⟩ := hy
          have e1 := (hrow a minG x hx hmin (by omega)).1
          have e2 := (hrow j minG y hy hmin (by omega)).1
          rw [e1, e2]
          exact Nat.le_of_lt (hget a j (by omega) (by omega))
    rw [List.range_eq_range']
    exact this F.length 0 (by omega)

theorem ngramOffsets_spec (s : Text) (hv : ∀ c ∈ s, c.code < 0x110000) (minG maxG : Nat)
    (hmin : 0 < minG) (hle : minG ≤ maxG) (prefixOnly : Bool) :
    (∀ p ∈ ngramOffsets s minG maxG prefixOnly, IsBoundary s p.1 ∧ IsBoundary s p.2 ∧ p.1 < p.2) ∧
    (ngramOffsets s minG maxG prefixOnly).Pairwise (fun a b => a.1 ≤ b.1) := by
  have hne : boundariesFrom 0 s ≠ [] := by cases s <;> simp [boundariesFrom]
  have hall : stutterAll (frontiers s) minG maxG = ngramSpec (boundariesFrom 0 s) minG maxG := by
    rw [frontiers_eq_boundaries s hv]
    exact stutterAll_eq_spec _ minG maxG hmin hle hne
  obtain ⟨h1, h2⟩ := ngramSpec_mem (boundariesFrom 0 s) (boundaries_sorted 0 s) minG maxG hmin
  have hsub : (ngramOffsets s minG maxG prefixOnly).Sublist (ngramSpec (boundariesFrom 0 s) minG maxG) := by
    unfold ngramOffsets
    simp only [hall]
    split
    · exact List.takeWhile_sublist _
    · exact List.Sublist.refl _
  exact ⟨fun p hp => h1 p (hsub.subset hp), h2.sublist hsub⟩

end TantivyModel.Tok
